From RS Require Import SchedPeel Base BaseFacts Network Tour Transition Schedule SchedInv.
(* SchedCostsFacts.v — proof of [stmt_reachable_costs] (SchedInv.v): for every reachable schedule the cached
   [s_costs] is the sum of the cached tour costs plus the staff term and the keys of [s_tours] are duplicate-free.
   The stated invariant is strengthened to [Inv] (below): keys of [s_tours] are [Veh i] with [i < s_counter],
   keys of [s_vehicles] are real, keys of [s_dummies] are dummies, the id listings [s_ids] are duplicate-free,
   pairwise disjoint, real and below the counter. *)

Local Open Scope Z_scope.

(** * monadic inversion tactics *)
Ltac mon H :=
  match type of H with
  | bind ?x _ = Ok _ =>
      let E := fresh "E" in destruct x eqn:E; cbn [bind] in H; [| discriminate H ..]
  end.
Ltac dpair H :=
  repeat match type of H with
  | (let '(_, _) := ?p in _) = _ => is_var p; destruct p
  end.
Ltac monp H := mon H; dpair H.

Lemma z_sub_cost_ok a b c : z_sub_cost a b = Ok c -> c = a - b.
Proof. unfold z_sub_cost. destruct (b <=? a); intros H; inversion H; auto. Qed.

(** * association-list helpers *)
Lemma vid_eqb_sym a b : vid_eqb a b = vid_eqb b a.
Proof.
  destruct (vid_eqb a b) eqn:E.
  - apply vid_eqb_eq in E; subst. now rewrite vid_eqb_refl.
  - symmetry. apply vid_eqb_neq. apply vid_eqb_neq in E. congruence.
Qed.

Section Maps.
Context {A : Type}.
Implicit Types l : list (vehicle_id * A).

Lemma vget_cons v k x l : vget v ((k, x) :: l) = if vid_eqb v k then Some x else vget v l.
Proof. reflexivity. Qed.

Lemma vget_in_keys v l x : vget v l = Some x -> In v (map fst l).
Proof.
  induction l as [|[k y] l IH]; [discriminate|]. rewrite vget_cons. cbn [map fst In].
  destruct (vid_eqb v k) eqn:E; [apply vid_eqb_eq in E; auto | auto].
Qed.

Lemma vget_none_keys v l : vget v l = None <-> ~ In v (map fst l).
Proof.
  induction l as [|[k y] l IH]; cbn [map fst In]; [unfold vget; simpl; tauto|].
  rewrite vget_cons. destruct (vid_eqb v k) eqn:E.
  - apply vid_eqb_eq in E. subst. split; [discriminate | intros H; exfalso; auto].
  - apply vid_eqb_neq in E. rewrite IH. split; intros H; [intros [G|G]; [congruence | auto] | auto].
Qed.

Lemma vset_existsb v l : existsb (fun '(k, _) => vid_eqb k v) l = match vget v l with Some _ => true | None => false end.
Proof.
  induction l as [|[k y] l IH]; [reflexivity|]. cbn [existsb]. rewrite vget_cons, (vid_eqb_sym k v).
  destruct (vid_eqb v k); auto.
Qed.

Lemma vget_app v l1 l2 : vget v (l1 ++ l2) = match vget v l1 with Some x => Some x | None => vget v l2 end.
Proof.
  induction l1 as [|[k y] l1 IH]; [reflexivity|]. rewrite <- app_comm_cons, !vget_cons.
  destruct (vid_eqb v k); auto.
Qed.

Lemma vget_repl k v x l :
  vget k (map (fun '(k', y) => if vid_eqb k' v then (k', x) else (k', y)) l) =
  if vid_eqb k v then (match vget v l with Some _ => Some x | None => None end) else vget k l.
Proof.
  induction l as [|[k' y] l IH]; cbn [map].
  - unfold vget; simpl. destruct (vid_eqb k v); auto.
  - destruct (vid_eqb k' v) eqn:E.
    + apply vid_eqb_eq in E; subst k'. rewrite !vget_cons, vid_eqb_refl.
      destruct (vid_eqb k v) eqn:F; auto.
    + rewrite !vget_cons, IH. rewrite (vid_eqb_sym v k'), E.
      destruct (vid_eqb k k') eqn:F; auto.
      apply vid_eqb_eq in F; subst k'. rewrite E. auto.
Qed.

Lemma vget_vset k v x l : vget k (vset v x l) = if vid_eqb k v then Some x else vget k l.
Proof.
  unfold vset. rewrite vset_existsb. destruct (vget v l) eqn:G.
  - rewrite vget_repl, G. auto.
  - rewrite vget_app. destruct (vid_eqb k v) eqn:E.
    + apply vid_eqb_eq in E; subst. rewrite G. unfold vget; simpl. now rewrite vid_eqb_refl.
    + destruct (vget k l); auto. unfold vget; simpl. now rewrite E.
Qed.

Lemma vget_vdel k v l : vget k (vdel v l) = if vid_eqb k v then None else vget k l.
Proof.
  unfold vdel. induction l as [|[k' y] l IH]; cbn [filter].
  - unfold vget; simpl. destruct (vid_eqb k v); auto.
  - destruct (vid_eqb k' v) eqn:E; cbn [negb].
    + apply vid_eqb_eq in E; subst k'. rewrite IH, vget_cons. destruct (vid_eqb k v); auto.
    + rewrite !vget_cons, IH. destruct (vid_eqb k k') eqn:F; auto.
      apply vid_eqb_eq in F; subst k'. now rewrite E.
Qed.

Lemma keys_repl v x l :
  map fst (map (fun '(k', y) => if vid_eqb k' v then (k', x) else (k', y)) l) = map fst l.
Proof.
  induction l as [|[k' y] l IH]; cbn [map fst]; auto. rewrite IH. destruct (vid_eqb k' v); auto.
Qed.

Lemma repl_absent v x l : ~ In v (map fst l) ->
  map (fun '(k', y) => if vid_eqb k' v then (k', x) else (k', y)) l = l.
Proof.
  induction l as [|[k' y] l IH]; cbn [map fst In]; auto. intros H.
  rewrite IH by tauto. destruct (vid_eqb k' v) eqn:E; auto. apply vid_eqb_eq in E. subst. tauto.
Qed.

Lemma vdel_absent v l : ~ In v (map fst l) -> vdel v l = l.
Proof.
  unfold vdel. induction l as [|[k' y] l IH]; cbn [map fst In filter]; auto. intros H.
  destruct (vid_eqb k' v) eqn:E; cbn [negb].
  - apply vid_eqb_eq in E. subst. tauto.
  - rewrite IH by tauto. auto.
Qed.

Lemma keys_vdel_incl v l k : In k (map fst (vdel v l)) -> In k (map fst l).
Proof.
  unfold vdel. induction l as [|[k' y] l IH]; cbn [map fst In filter]; auto.
  destruct (negb (vid_eqb k' v)); cbn [map fst In]; tauto.
Qed.

Lemma keys_vdel_nodup v l : NoDup (map fst l) -> NoDup (map fst (vdel v l)).
Proof.
  induction l as [|[k' y] l IH]; cbn [map fst]; intros H; [constructor|].
  inversion H; subst. unfold vdel; cbn [filter]. destruct (negb (vid_eqb k' v)); cbn [map fst]; fold (vdel v l); auto.
  constructor; auto. intros G; apply keys_vdel_incl in G; auto.
Qed.

Lemma keys_vset_new v x l : vget v l = None -> map fst (vset v x l) = map fst l ++ [v].
Proof. intros H. unfold vset. rewrite vset_existsb, H, map_app. reflexivity. Qed.

Lemma keys_vset_old v x l o : vget v l = Some o -> map fst (vset v x l) = map fst l.
Proof. intros H. unfold vset. rewrite vset_existsb, H. apply keys_repl. Qed.
End Maps.

(** sums of tour costs over the tour map *)
Definition tsum (l : list (vehicle_id * tour)) : Z := z_sum (map (fun '(_, t) => t_costs t) l).

Lemma tsum_cons k t l : tsum ((k, t) :: l) = t_costs t + tsum l.
Proof. unfold tsum. cbn [map]. apply z_sum_cons. Qed.

Lemma tsum_vset_new v x l : vget v l = None -> tsum (vset v x l) = tsum l + t_costs x.
Proof.
  intros H. unfold vset. rewrite vset_existsb, H. unfold tsum. rewrite map_app, z_sum_app. cbn [map].
  rewrite z_sum_cons. unfold z_sum; simpl. lia.
Qed.

Lemma tsum_vset_old v x l o : NoDup (map fst l) -> vget v l = Some o ->
  tsum (vset v x l) = tsum l + t_costs x - t_costs o.
Proof.
  intros N H. unfold vset. rewrite vset_existsb, H. revert N H.
  induction l as [|[k y] l IH]; [discriminate|]. cbn [map fst]. intros N H. inversion N; subst.
  rewrite vget_cons in H. rewrite (vid_eqb_sym k v). destruct (vid_eqb v k) eqn:E.
  - apply vid_eqb_eq in E; subst k. inversion H; subst y. rewrite repl_absent by auto. rewrite !tsum_cons. lia.
  - rewrite !tsum_cons, IH by auto. lia.
Qed.

Lemma tsum_vdel v l o : NoDup (map fst l) -> vget v l = Some o -> tsum (vdel v l) = tsum l - t_costs o.
Proof.
  induction l as [|[k y] l IH]; [discriminate|]. cbn [map fst]. intros N H. inversion N; subst.
  rewrite vget_cons in H. unfold vdel; cbn [filter]; fold (vdel v l). rewrite (vid_eqb_sym k v).
  destruct (vid_eqb v k) eqn:E; cbn [negb].
  - apply vid_eqb_eq in E; subst k. inversion H; subst y. rewrite vdel_absent by auto. rewrite tsum_cons. lia.
  - rewrite !tsum_cons, IH by auto. lia.
Qed.

Lemma NoDup_snoc {B} (l : list B) x : NoDup l -> ~ In x l -> NoDup (l ++ [x]).
Proof.
  induction l as [|y l IH]; cbn; intros N H.
  - constructor; auto.
  - inversion N; subst. constructor.
    + rewrite in_app_iff. cbn. intuition.
    + apply IH; auto.
Qed.

(** the pair (tours, costs) is consistent *)
Definition TC (K : Z) (tours : list (vehicle_id * tour)) (costs : Z) : Prop :=
  NoDup (map fst tours) /\ costs = tsum tours + K.

Lemma TC_new K tours costs v x : TC K tours costs -> vget v tours = None -> TC K (vset v x tours) (costs + t_costs x).
Proof.
  intros [N C] H. split.
  - rewrite keys_vset_new by auto. apply NoDup_snoc; auto. now apply vget_none_keys.
  - rewrite tsum_vset_new by auto. lia.
Qed.

Lemma TC_old K tours costs v x o c : TC K tours costs -> vget v tours = Some o ->
  z_sub_cost (costs + t_costs x) (t_costs o) = Ok c -> TC K (vset v x tours) c.
Proof.
  intros [N C] H Z. apply z_sub_cost_ok in Z. split.
  - erewrite keys_vset_old by eauto. auto.
  - erewrite tsum_vset_old by eauto. lia.
Qed.

Lemma TC_del K tours costs v o c : TC K tours costs -> vget v tours = Some o ->
  z_sub_cost costs (t_costs o) = Ok c -> TC K (vdel v tours) c.
Proof.
  intros [N C] H Z. apply z_sub_cost_ok in Z. split.
  - now apply keys_vdel_nodup.
  - erewrite tsum_vdel by eauto. lia.
Qed.

(** * Z-keyed maps and the usage map *)
Section ZMaps.
Context {A : Type}.
Implicit Types l : list (Z * A).

Lemma zget_cons k k' x l : zget k ((k', x) :: l) = if k =? k' then Some x else zget k l.
Proof. reflexivity. Qed.

Lemma zset_existsb k l : existsb (fun '(k', _) => k' =? k) l = match zget k l with Some _ => true | None => false end.
Proof.
  induction l as [|[k' y] l IH]; [reflexivity|]. cbn [existsb]. rewrite zget_cons, (Z.eqb_sym k' k).
  destruct (k =? k'); auto.
Qed.

Lemma zget_repl k k0 x l :
  zget k (map (fun '(k', y) => if k' =? k0 then (k', x) else (k', y)) l) =
  if k =? k0 then (match zget k0 l with Some _ => Some x | None => None end) else zget k l.
Proof.
  induction l as [|[k' y] l IH]; cbn [map].
  - unfold zget; simpl. destruct (k =? k0); auto.
  - destruct (k' =? k0) eqn:E.
    + apply Z.eqb_eq in E; subst k'. rewrite !zget_cons, Z.eqb_refl.
      destruct (k =? k0) eqn:F; auto.
    + rewrite !zget_cons, IH. rewrite (Z.eqb_sym k0 k'), E.
      destruct (k =? k') eqn:F; auto.
      apply Z.eqb_eq in F; subst k'. rewrite E. auto.
Qed.

Lemma zget_zset k k0 x l o : zget k0 l = Some o ->
  zget k (zset k0 x l) = if k =? k0 then Some x else zget k l.
Proof. intros H. unfold zset. rewrite zset_existsb, H, zget_repl, H. auto. Qed.
End ZMaps.

Lemma pair_eqb_eq a b : pair_eqb a b = true <-> a = b.
Proof.
  unfold pair_eqb. destruct a, b; cbn [fst snd]. rewrite andb_true_iff, !Z.eqb_eq.
  split; [intros [-> ->]; auto | intros H; inversion H; auto].
Qed.
Lemma pair_eqb_refl a : pair_eqb a a = true.
Proof. now apply pair_eqb_eq. Qed.
Lemma pair_eqb_sym a b : pair_eqb a b = pair_eqb b a.
Proof.
  destruct (pair_eqb a b) eqn:E.
  - apply pair_eqb_eq in E; subst. now rewrite pair_eqb_refl.
  - destruct (pair_eqb b a) eqn:F; auto. apply pair_eqb_eq in F; subst. now rewrite pair_eqb_refl in E.
Qed.

Definition usage_t := list ((Z * Z) * (list vehicle_id * list vehicle_id)).

Lemma uget_cons k k' x (u : usage_t) : uget k ((k', x) :: u) = if pair_eqb k k' then Some x else uget k u.
Proof. reflexivity. Qed.

Lemma uset_existsb k (u : usage_t) :
  existsb (fun '(k', _) => pair_eqb k' k) u = match uget k u with Some _ => true | None => false end.
Proof.
  induction u as [|[k' y] l IH]; [reflexivity|]. cbn [existsb]. rewrite uget_cons, (pair_eqb_sym k' k).
  destruct (pair_eqb k k'); auto.
Qed.

Lemma uget_repl k k0 x (u : usage_t) :
  uget k (map (fun '(k', y) => if pair_eqb k' k0 then (k', x) else (k', y)) u) =
  if pair_eqb k k0 then (match uget k0 u with Some _ => Some x | None => None end) else uget k u.
Proof.
  induction u as [|[k' y] l IH]; cbn [map].
  - unfold uget; simpl. destruct (pair_eqb k k0); auto.
  - destruct (pair_eqb k' k0) eqn:E.
    + apply pair_eqb_eq in E; subst k'. rewrite !uget_cons, pair_eqb_refl.
      destruct (pair_eqb k k0) eqn:F; auto.
    + rewrite !uget_cons, IH. rewrite (pair_eqb_sym k0 k'), E.
      destruct (pair_eqb k k') eqn:F; auto.
      apply pair_eqb_eq in F; subst k'. rewrite E. auto.
Qed.

Lemma uget_app k (u1 u2 : usage_t) : uget k (u1 ++ u2) = match uget k u1 with Some x => Some x | None => uget k u2 end.
Proof.
  induction u1 as [|[k' y] l1 IH]; [reflexivity|]. rewrite <- app_comm_cons, !uget_cons.
  destruct (pair_eqb k k'); auto.
Qed.

Lemma uget_uset k k0 x (u : usage_t) : uget k (uset k0 x u) = if pair_eqb k k0 then Some x else uget k u.
Proof.
  unfold uset. rewrite uset_existsb. destruct (uget k0 u) eqn:G.
  - rewrite uget_repl, G. auto.
  - rewrite uget_app. destruct (pair_eqb k k0) eqn:E.
    + apply pair_eqb_eq in E; subst. rewrite G. unfold uget; simpl. now rewrite pair_eqb_refl.
    + destruct (uget k u); auto. unfold uget; simpl. now rewrite E.
Qed.

(** * vehicle-id sets and sorted listings *)
Lemma memv_in v l : memv v l = true <-> In v l.
Proof.
  unfold memv. rewrite existsb_exists. split.
  - intros [x [H E]]. apply vid_eqb_eq in E. now subst.
  - intros H. exists v. split; auto. apply vid_eqb_refl.
Qed.

Lemma set_del_in x v l : In x (set_del v l) <-> In x l /\ x <> v.
Proof.
  unfold set_del. rewrite filter_In. rewrite negb_true_iff, vid_eqb_neq. tauto.
Qed.

Lemma set_del_nodup v l : NoDup l -> NoDup (set_del v l).
Proof. apply NoDup_filter. Qed.

Lemma sorted_insert_in x v l : In x (sorted_insert v l) <-> x = v \/ In x l.
Proof.
  induction l as [|y l IH]; cbn [sorted_insert In]; [intuition|].
  destruct (vid_cmp v y); cbn [In]; rewrite ?IH; intuition.
Qed.

Lemma sorted_insert_nodup v l : NoDup l -> ~ In v l -> NoDup (sorted_insert v l).
Proof.
  induction l as [|y l IH]; cbn [sorted_insert In]; intros N H.
  - constructor; auto.
  - destruct (vid_cmp v y); try solve [constructor; cbn [In]; auto].
    inversion N; subst. constructor.
    + rewrite sorted_insert_in. intros [G|G]; auto.
    + apply IH; auto.
Qed.

Lemma sorted_remove_ok v l l' : sorted_remove v l = Ok l' -> l' = set_del v l.
Proof. unfold sorted_remove. destruct (memv v l); intros H; inversion H; auto. Qed.

Lemma NoDup_app' {B} (l1 l2 : list B) :
  NoDup l1 -> NoDup l2 -> (forall x, In x l1 -> In x l2 -> False) -> NoDup (l1 ++ l2).
Proof.
  induction l1 as [|y l1 IH]; cbn; intros N1 N2 D; auto.
  inversion N1; subst. constructor.
  - rewrite in_app_iff. intros [G|G]; [auto | eapply D; eauto].
  - apply IH; auto. intros x G1 G2. eapply D; eauto.
Qed.

Lemma NoDup_flat_map {B C} (f : B -> list C) (l : list B) :
  NoDup l -> (forall x, In x l -> NoDup (f x)) ->
  (forall x y v, In x l -> In y l -> In v (f x) -> In v (f y) -> x = y) -> NoDup (flat_map f l).
Proof.
  induction l as [|a l IH]; cbn [flat_map]; intros N F D; [constructor|].
  inversion N; subst. apply NoDup_app'.
  - apply F. now left.
  - apply IH; auto.
    + intros x G. apply F. now right.
    + intros x y v G1 G2. apply D; now right.
  - intros v G1 G2. apply in_flat_map in G2. destruct G2 as [b [G2 G3]].
    assert (a = b) by (eapply D; eauto; [now left | now right]). subst. auto.
Qed.

Lemma type_ids_nodup nw : NoDup (type_ids nw).
Proof.
  unfold type_ids. apply FinFun.Injective_map_NoDup; [|apply seq_NoDup].
  intros a b H. now apply Nat2Z.inj.
Qed.

(** * the strengthened invariant *)
Definition KeysLt {A} (c : Z) (l : list (vehicle_id * A)) : Prop :=
  forall v x, vget v l = Some x -> exists i, v = Veh i /\ i < c.
Definition RealKeys {A} (l : list (vehicle_id * A)) : Prop :=
  forall v x, vget v l = Some x -> vid_is_real v = true.
Definition DummyKeys {A} (l : list (vehicle_id * A)) : Prop :=
  forall v x, vget v l = Some x -> vid_is_real v = false.
Definition IdsOK (c : Z) (ids : list (Z * list vehicle_id)) : Prop :=
  (forall ty l, zget ty ids = Some l -> NoDup l /\ forall v, In v l -> exists i, v = Veh i /\ i < c) /\
  (forall ty1 ty2 l1 l2 v, zget ty1 ids = Some l1 -> zget ty2 ids = Some l2 -> In v l1 -> In v l2 -> ty1 = ty2).

Lemma KeysLt_mono {A} c c' (l : list (vehicle_id * A)) : c <= c' -> KeysLt c l -> KeysLt c' l.
Proof. intros L H v x G. destruct (H v x G) as [i [-> Hi]]. exists i. split; auto. lia. Qed.

Lemma KeysLt_vset {A} c (l : list (vehicle_id * A)) v x :
  KeysLt c l -> (exists i, v = Veh i /\ i < c) -> KeysLt c (vset v x l).
Proof.
  intros H Hv k y G. rewrite vget_vset in G. destruct (vid_eqb k v) eqn:E.
  - apply vid_eqb_eq in E. subst. auto.
  - eauto.
Qed.

Lemma KeysLt_vset_old {A} c (l : list (vehicle_id * A)) v x o :
  KeysLt c l -> vget v l = Some o -> KeysLt c (vset v x l).
Proof. intros H G. apply KeysLt_vset; eauto. Qed.

Lemma KeysLt_vdel {A} c (l : list (vehicle_id * A)) v : KeysLt c l -> KeysLt c (vdel v l).
Proof. intros H k y G. rewrite vget_vdel in G. destruct (vid_eqb k v); [discriminate | eauto]. Qed.

Lemma RealKeys_vset {A} (l : list (vehicle_id * A)) v x : RealKeys l -> vid_is_real v = true -> RealKeys (vset v x l).
Proof.
  intros H Hv k y G. rewrite vget_vset in G. destruct (vid_eqb k v) eqn:E.
  - apply vid_eqb_eq in E. subst. auto.
  - eauto.
Qed.
Lemma RealKeys_vdel {A} (l : list (vehicle_id * A)) v : RealKeys l -> RealKeys (vdel v l).
Proof. intros H k y G. rewrite vget_vdel in G. destruct (vid_eqb k v); [discriminate | eauto]. Qed.
Lemma DummyKeys_vset {A} (l : list (vehicle_id * A)) v x : DummyKeys l -> vid_is_real v = false -> DummyKeys (vset v x l).
Proof.
  intros H Hv k y G. rewrite vget_vset in G. destruct (vid_eqb k v) eqn:E.
  - apply vid_eqb_eq in E. subst. auto.
  - eauto.
Qed.
Lemma DummyKeys_vdel {A} (l : list (vehicle_id * A)) v : DummyKeys l -> DummyKeys (vdel v l).
Proof. intros H k y G. rewrite vget_vdel in G. destruct (vid_eqb k v); [discriminate | eauto]. Qed.

Lemma IdsOK_mono c c' ids : c <= c' -> IdsOK c ids -> IdsOK c' ids.
Proof.
  intros L [H1 H2]. split; auto. intros ty l G. destruct (H1 ty l G) as [N B]. split; auto.
  intros v Hv. destruct (B v Hv) as [i [-> Hi]]. exists i. split; auto. lia.
Qed.

Lemma IdsOK_zset c ids ty l l' :
  IdsOK c ids -> zget ty ids = Some l -> NoDup l' ->
  (forall v, In v l' -> exists i, v = Veh i /\ i < c) ->
  (forall v, In v l' -> In v l \/ (forall ty2 l2, zget ty2 ids = Some l2 -> ~ In v l2)) ->
  IdsOK c (zset ty l' ids).
Proof.
  intros [H1 H2] G N B F. split.
  - intros ty1 l1 G1. rewrite (zget_zset _ _ _ _ _ G) in G1. destruct (ty1 =? ty) eqn:E.
    + inversion G1; subst. auto.
    + eauto.
  - intros ty1 ty2 l1 l2 v G1 G2 I1 I2.
    rewrite (zget_zset _ _ _ _ _ G) in G1. rewrite (zget_zset _ _ _ _ _ G) in G2.
    destruct (ty1 =? ty) eqn:E1; destruct (ty2 =? ty) eqn:E2.
    + apply Z.eqb_eq in E1, E2. congruence.
    + apply Z.eqb_eq in E1. subst ty1. inversion G1; subst l1.
      destruct (F v I1) as [Q|Q]; [eapply H2; eauto | exfalso; eapply Q; eauto].
    + apply Z.eqb_eq in E2. subst ty2. inversion G2; subst l2.
      destruct (F v I2) as [Q|Q]; [eapply H2; eauto | exfalso; eapply Q; eauto].
    + eapply H2; eauto.
Qed.

Lemma ids_remove_ok c ty v ids ids' : IdsOK c ids -> ids_remove ty v ids = Ok ids' -> IdsOK c ids'.
Proof.
  intros H R. unfold ids_remove in R. mon R. mon R. inversion R; subst. clear R.
  destruct (zget ty ids) as [l|] eqn:G; cbn in E; inversion E; subst a. clear E.
  apply sorted_remove_ok in E0. subst a0.
  destruct H as [H1 H2]. destruct (H1 ty l G) as [N B].
  eapply IdsOK_zset; eauto.
  - split; auto.
  - now apply set_del_nodup.
  - intros x Hx. apply set_del_in in Hx. apply B. tauto.
  - intros x Hx. apply set_del_in in Hx. tauto.
Qed.

Lemma ids_insert_ok c ty ids ids' :
  IdsOK c ids -> ids_insert ty (Veh c) ids = Ok ids' -> IdsOK (c + 1) ids'.
Proof.
  intros H R. unfold ids_insert in R. mon R. inversion R; subst. clear R.
  destruct (zget ty ids) as [l|] eqn:G; cbn in E; inversion E; subst a. clear E.
  assert (Fresh : forall ty2 l2, zget ty2 ids = Some l2 -> ~ In (Veh c) l2).
  { intros ty2 l2 G2 I. destruct H as [H1 _]. destruct (H1 ty2 l2 G2) as [_ B].
    destruct (B _ I) as [i [Q Hi]]. inversion Q. lia. }
  assert (H' : IdsOK (c + 1) ids) by (eapply IdsOK_mono; [|eauto]; lia).
  destruct H' as [H1 H2]. destruct (H1 ty l G) as [N B].
  eapply IdsOK_zset; eauto.
  - split; auto.
  - apply sorted_insert_nodup; auto. eapply Fresh; eauto.
  - intros x Hx. apply sorted_insert_in in Hx. destruct Hx as [->|Hx]; auto. exists c. split; auto. lia.
  - intros x Hx. apply sorted_insert_in in Hx. destruct Hx as [->|Hx]; auto.
Qed.

Section Proofs.
Variable nw : network.
Definition Kst : Z := nw_nservice nw * c_staff (nw_params nw).

Record Inv (s : schedule) : Prop := {
  inv_tc : TC Kst (s_tours s) (s_costs s);
  inv_keys : KeysLt (s_counter s) (s_tours s);
  inv_real : RealKeys (s_vehicles s);
  inv_dummy : DummyKeys (s_dummies s);
  inv_ids : IdsOK (s_counter s) (s_ids s) }.

Lemma Inv_costs s : Inv s -> CostsOK nw s.
Proof. intros [[N C] _ _ _ _]. split; auto. Qed.

Lemma is_vehicle_real s v : RealKeys (s_vehicles s) -> is_vehicle s v = true -> vid_is_real v = true.
Proof. unfold is_vehicle. intros H. destruct (vget v (s_vehicles s)) eqn:G; [eauto | discriminate]. Qed.

Lemma is_dummy_not_real s v : DummyKeys (s_dummies s) -> is_dummy s v = true -> vid_is_real v = false.
Proof. unfold is_dummy. intros H. destruct (vget v (s_dummies s)) eqn:G; [eauto | discriminate]. Qed.

Lemma tour_of_real s v t : DummyKeys (s_dummies s) -> vid_is_real v = true -> tour_of s v = Ok t ->
  vget v (s_tours s) = Some t.
Proof.
  intros D R H. unfold tour_of in H. destruct (vget v (s_tours s)) eqn:G; [congruence|].
  destruct (vget v (s_dummies s)) eqn:G2; [|discriminate]. apply D in G2. congruence.
Qed.

Lemma tour_of_panic_ok s v t : match tour_of s v with Ok t => Ok t | _ => Panic end = Ok t -> tour_of s v = Ok t.
Proof. destruct (tour_of s v); intros H; try discriminate; auto. Qed.

Lemma utc_ok s c tours dummies costs v nt t' d' c' :
  DummyKeys (s_dummies s) -> TC Kst tours costs -> KeysLt c tours -> DummyKeys dummies ->
  update_tour_and_costs s tours dummies costs v nt = Ok (t', d', c') ->
  TC Kst t' c' /\ KeysLt c t' /\ DummyKeys d'.
Proof.
  intros D0 T KL D H. unfold update_tour_and_costs in H. destruct (is_dummy s v) eqn:Ed.
  - inversion H; subst. split; [|split]; auto. apply DummyKeys_vset; auto. now apply is_dummy_not_real with s.
  - mon H. mon H. inversion H; subst. clear H.
    destruct (vget v tours) as [o|] eqn:G; cbn in E; inversion E; subst a. clear E.
    split; [|split]; auto.
    + eapply TC_old; eauto.
    + eapply KeysLt_vset_old; eauto.
Qed.

Lemma update_tours_ok s forms usage dids uns p ntp r ntr moved
    vehicles1 tours2 forms2 usage2 dummies2 ids1 dids1 uns2 costs2 :
  Inv s ->
  update_tours nw s (s_vehicles s) (s_tours s) forms usage (s_dummies s) (s_ids s) dids uns (s_costs s) p ntp r ntr moved
    = Ok (vehicles1, tours2, forms2, usage2, dummies2, ids1, dids1, uns2, costs2) ->
  TC Kst tours2 costs2 /\ KeysLt (s_counter s) tours2 /\ RealKeys vehicles1 /\ DummyKeys dummies2 /\
  IdsOK (s_counter s) ids1.
Proof.
  intros I H. apply update_tours_peel in H. unfold update_tours_prefix in H.
  monp H. mon H. monp H. mon H. monp H. inversion H; subst; clear H.
  destruct I as [T KL RK DK IO].
  assert (Q : TC Kst l3 z /\ KeysLt (s_counter s) l3 /\ RealKeys vehicles1 /\ DummyKeys l1 /\ IdsOK (s_counter s) ids1).
  { destruct ntp as [nt|].
    - monp E. inversion E; subst; clear E.
      eapply utc_ok in E4; eauto. tauto.
    - mon E. destruct (is_dummy s p) eqn:Ed.
      + destruct (is_vehicle s p) eqn:Ev.
        * apply is_vehicle_real in Ev; auto. apply is_dummy_not_real in Ed; auto. congruence.
        * inversion E4; subst a0. mon E. inversion E; subst.
          repeat (split; auto). now apply DummyKeys_vdel.
      + destruct (is_vehicle s p) eqn:Ev.
        * mon E4. apply tour_of_panic_ok in E5.
          apply tour_of_real in E5; auto; [|eapply is_vehicle_real; eauto].
          mon E. mon E. inversion E; subst; clear E.
          split; [eapply TC_del; eauto|]. split; [now apply KeysLt_vdel|]. split; [now apply RealKeys_vdel|].
          split; auto. eapply ids_remove_ok; eauto.
        * inversion E4; subst. inversion E; subst. tauto. }
  destruct Q as (T1 & KL1 & RK1 & DK1 & IO1).
  eapply utc_ok in E1; eauto. tauto.
Qed.

Lemma KeysLt_fresh {A} c (l : list (vehicle_id * A)) : KeysLt c l -> vget (Veh c) l = None.
Proof.
  intros H. destruct (vget (Veh c) l) eqn:G; auto. destruct (H _ _ G) as [i [Q Hi]]. inversion Q. lia.
Qed.

Ltac mkinv := constructor; cbn [with_fields s_tours s_costs s_counter s_vehicles s_dummies s_ids].

Lemma spawn_ok s ty path s' v : Inv s -> spawn_vehicle_for_path nw s ty path = Ok (s', v) -> Inv s'.
Proof.
  intros I H. unfold spawn_vehicle_for_path in H.
  destruct (negb _) in H; [discriminate|].
  mon H. mon H. mon H. monp H. mon H. monp H. inversion H; subst; clear H.
  destruct I as [T KL RK DK IO]. mkinv.
  - apply TC_new; auto. now apply KeysLt_fresh.
  - apply KeysLt_vset; [eapply KeysLt_mono; [|eauto]; lia|]. exists (s_counter s). split; auto. lia.
  - apply RealKeys_vset; auto.
  - auto.
  - eapply ids_insert_ok; eauto.
Qed.

Lemma delete_dummy_ok s d s' : Inv s -> delete_dummy s d = Ok s' -> Inv s'.
Proof.
  intros I H. unfold delete_dummy in H. destruct (negb _) in H; [discriminate|].
  mon H. inversion H; subst; clear H. destruct I as [T KL RK DK IO]. mkinv; auto.
  now apply DummyKeys_vdel.
Qed.

Lemma spawn_dummy_ok s d ty s' v : Inv s -> spawn_to_replace_dummy nw s d ty = Ok (s', v) -> Inv s'.
Proof.
  intros I H. unfold spawn_to_replace_dummy in H. mon H. mon H.
  eapply spawn_ok; [|eauto]. eapply delete_dummy_ok; eauto.
Qed.

Lemma dummy_add_ok (r : res tour) dummies dids c :
  DummyKeys dummies ->
  let trip := match r with
              | Ok dt => let '(a, b) := add_dummy_tour dummies dids (Dummy c) dt in (a, b, c + 1)
              | _ => (dummies, dids, c) end in
  DummyKeys (fst (fst trip)) /\ c <= snd trip.
Proof.
  intros D. destruct r; cbn [add_dummy_tour fst snd]; try solve [split; [auto | lia]].
  split; [|lia]. apply DummyKeys_vset; auto.
Qed.

Ltac dummy_trip H D :=
  match type of H with
  | (match ?m with pair _ _ => _ end) = _ =>
      let Q := fresh "Q" in let Q1 := fresh "Q" in let Q2 := fresh "Q" in
      pose proof (dummy_add_ok _ _ _ _ D : let trip := m in _) as Q; cbv zeta in Q;
      destruct m as [[? ?] ?]; cbn [fst snd] in Q; destruct Q as [Q1 Q2]
  end.

Lemma replace_ok s v s' : Inv s -> replace_vehicle_by_dummy nw s v = Ok s' -> Inv s'.
Proof.
  intros I H. unfold replace_vehicle_by_dummy in H.
  destruct (negb _) in H; [discriminate|].
  mon H. mon H. mon H. monp H. mon H. mon H. mon H.
  destruct I as [T KL RK DK IO].
  dummy_trip H DK.
  monp H. inversion H; subst; clear H.
  destruct (vget v (s_tours s)) as [o|] eqn:G; cbn in E1; inversion E1; subst a1. clear E1.
  mkinv.
  - eapply TC_del; eauto.
  - apply KeysLt_vdel. eapply KeysLt_mono; eauto.
  - now apply RealKeys_vdel.
  - auto.
  - eapply IdsOK_mono; [eauto|]. eapply ids_remove_ok; eauto.
Qed.

Lemma unwrap_opt_ok {A} (o : option A) a : unwrap_opt o = Ok a -> o = Some a.
Proof. destruct o; cbn; intros H; inversion H; auto. Qed.

Lemma add_path_ok s v path s' c : Inv s -> add_path_to_vehicle_tour nw s v path = Ok (s', c) -> Inv s'.
Proof.
  intros I H. unfold add_path_to_vehicle_tour in H.
  destruct path as [|pf path']; [discriminate|].
  match type of H with (if ?b then _ else _) = _ => destruct b; [discriminate|] end.
  mon H. mon H. monp H. mon H. monp H. monp H. mon H. mon H. monp H. inversion H; subst; clear H.
  apply unwrap_opt_ok in E2.
  destruct I as [T KL RK DK IO]. mkinv; auto.
  - eapply TC_old; eauto.
  - eapply KeysLt_vset_old; eauto.
Qed.

Lemma remove_segment_ok s seg v s' : Inv s -> remove_segment nw s seg v = Ok s' -> Inv s'.
Proof.
  intros I H. unfold remove_segment in H.
  destruct (negb _) in H; [discriminate|].
  mon H. monp H. destruct o as [nt|]; [|eapply replace_ok; eauto].
  monp H. monp H. mon H.
  pose proof I as [T KL RK DK IO].
  eapply utc_ok in E2; eauto. destruct E2 as (T1 & KL1 & DK1).
  dummy_trip H DK1.
  monp H. inversion H; subst; clear H.
  mkinv; auto.
  - eapply KeysLt_mono; eauto.
  - eapply IdsOK_mono; eauto.
Qed.

Lemma fit_ok s seg p r s' : Inv s -> fit_reassign nw s seg p r = Ok s' -> Inv s'.
Proof.
  intros I H. unfold fit_reassign in H.
  mon H. destruct (negb _) in H; [discriminate|].
  mon H. mon H. mon H. monp H. monp H. monp H. inversion H; subst; clear H.
  eapply update_tours_ok in E4; eauto. destruct E4 as (T1 & KL1 & RK1 & DK1 & IO1).
  mkinv; auto.
Qed.

Lemma override_ok s seg p r s' d : Inv s -> override_reassign nw s seg p r = Ok (s', d) -> Inv s'.
Proof.
  intros I H. unfold override_reassign in H. destruct (vid_eqb p r) in H; [discriminate|].
  mon H. destruct (negb _) in H; [discriminate|].
  mon H. mon H. monp H. monp H. monp H.
  eapply update_tours_ok in E4; eauto. destruct E4 as (T1 & KL1 & RK1 & DK1 & IO1).
  monp H. monp H. inversion H; subst; clear H.
  assert (Q : DummyKeys l8 /\ s_counter s <= z0).
  { destruct o0 as [np|].
    - monp E4. destruct (tour_new_dummy nw np); cbn [add_dummy_tour] in E4; inversion E4; subst;
        try solve [split; [auto | lia]].
      split; [|lia]. apply DummyKeys_vset; auto.
    - inversion E4; subst. split; [auto | lia]. }
  destruct Q as [Q1 Q2].
  mkinv; auto.
  - eapply KeysLt_mono; eauto.
  - eapply IdsOK_mono; eauto.
Qed.

Lemma recompute_ok s ts s' : Inv s -> recompute_transitions_for nw s ts = Ok s' -> Inv s'.
Proof.
  intros I H. unfold recompute_transitions_for in H. monp H. inversion H; subst; clear H.
  destruct I as [T KL RK DK IO]. mkinv; auto.
Qed.

(** the listing of all vehicles is duplicate-free and real *)
Lemma iter_all_ok s c : IdsOK c (s_ids s) ->
  NoDup (vehicles_iter_all nw s) /\ forall v, In v (vehicles_iter_all nw s) -> vid_is_real v = true.
Proof.
  intros [H1 H2]. unfold vehicles_iter_all, vehicles_iter. split.
  - apply NoDup_flat_map.
    + apply type_ids_nodup.
    + intros ty _. destruct (zget ty (s_ids s)) eqn:G; [apply (H1 _ _ G) | constructor].
    + intros x y v _ _ I1 I2.
      destruct (zget x (s_ids s)) eqn:G1; [|destruct I1].
      destruct (zget y (s_ids s)) eqn:G2; [|destruct I2]. eapply H2; eauto.
  - intros v I. apply in_flat_map in I. destruct I as [ty [_ I]].
    destruct (zget ty (s_ids s)) eqn:G; [|destruct I].
    destruct (H1 _ _ G) as [_ B]. destruct (B _ I) as [i [-> _]]. reflexivity.
Qed.

(** generic fold over vehicles replacing the tour of each visited vehicle, reading the old tour from [s] *)
Section Fold.
Context {U : Type}.
Variable s : schedule.
Variable f : res (list (vehicle_id * tour) * U * Z) -> vehicle_id -> res (list (vehicle_id * tour) * U * Z).
Variable l0 : list vehicle_id.
Hypothesis f_strict : forall r v x, f r v = Ok x -> exists y, r = Ok y.
Hypothesis f_step : forall tours u costs v x, In v l0 -> f (Ok (tours, u, costs)) v = Ok x ->
  exists t nt u' c, vget v (s_tours s) = Some t /\ z_sub_cost (costs + t_costs nt) (t_costs t) = Ok c /\
                    x = (vset v nt tours, u', c).

Lemma fold_strict l r x : fold_left f l r = Ok x -> exists y, r = Ok y.
Proof.
  revert r. induction l as [|v l IH]; cbn [fold_left]; intros r H; [eauto|].
  apply IH in H. destruct H as [y H]. eapply f_strict; eauto.
Qed.

Lemma fold_tc c l : incl l l0 -> NoDup l -> forall tours u costs tours' u' costs',
  TC Kst tours costs -> KeysLt c tours -> (forall k, In k l -> vget k tours = vget k (s_tours s)) ->
  fold_left f l (Ok (tours, u, costs)) = Ok (tours', u', costs') -> TC Kst tours' costs' /\ KeysLt c tours'.
Proof.
  induction l as [|v l IH]; intros Inc N tours u costs tours' u' costs' T KL Ag H; cbn [fold_left] in H.
  - inversion H; subst. auto.
  - inversion N; subst.
    destruct (fold_strict _ _ _ H) as [y Hy]. rewrite Hy in H.
    apply f_step in Hy; [|apply Inc; now left].
    destruct Hy as (t & nt & u1 & c1 & G & Z & ->).
    assert (G' : vget v tours = Some t) by (rewrite Ag; [auto | now left]).
    eapply IH in H; eauto.
    + intros k Hk. apply Inc. now right.
    + eapply TC_old; eauto.
    + eapply KeysLt_vset_old; eauto.
    + intros k Hk. rewrite vget_vset. destruct (vid_eqb k v) eqn:E.
      * apply vid_eqb_eq in E. subst. contradiction.
      * apply Ag. now right.
Qed.
End Fold.

Ltac strict_tac :=
  let r := fresh "r" in let v := fresh "v" in let x := fresh "x" in let H := fresh "H" in
  intros r v x H; destruct r; cbn [bind] in H; try discriminate H; eauto.

Lemma greedy_ok s s' : Inv s -> reassign_end_depots_greedily nw s = Ok s' -> Inv s'.
Proof.
  intros I H. unfold reassign_end_depots_greedily in H.
  monp H. monp H. inversion H; subst; clear H.
  destruct I as [T KL RK DK IO].
  destruct (iter_all_ok s _ IO) as [ND RL].
  eapply (fold_tc s _ (vehicles_iter_all nw s)) in E; eauto.
  - destruct E. mkinv; auto.
  - strict_tac.
  - intros tours u costs v x Hv H. cbn [bind] in H.
    mon H. mon H. mon H. mon H. mon H. mon H. inversion H; subst; clear H.
    apply tour_of_panic_ok in E1. apply tour_of_real in E1; auto.
    eexists _, _, _, _. split; [eauto|]. split; [eauto|]. reflexivity.
  - apply incl_refl.
Qed.

Lemma consistent_ok s s' : Inv s -> reassign_end_depots_consistent nw s = Ok s' -> Inv s'.
Proof.
  intros I H. unfold reassign_end_depots_consistent in H.
  monp H. monp H. inversion H; subst; clear H.
  destruct I as [T KL RK DK IO].
  destruct (iter_all_ok s _ IO) as [ND RL].
  eapply (fold_tc s _ (vehicles_iter_all nw s)) in E; eauto.
  - destruct E. mkinv; auto.
  - strict_tac.
  - intros tours u costs v x Hv H. cbn [bind] in H.
    mon H. mon H. mon H. mon H. mon H. mon H. mon H. mon H. mon H. inversion H; subst; clear H.
    apply tour_of_panic_ok in E1. apply tour_of_real in E1; auto.
    eexists _, _, _, _. split; [eauto|]. split; [eauto|]. reflexivity.
  - apply incl_refl.
Qed.

(** ** improve_depots: the first fold (removal from the usage sets) succeeds only on duplicate-free lists *)
Definition imp_step1 (s : schedule) : res usage_t -> vehicle_id -> res usage_t :=
  fun acc v =>
       do u <- acc;
       do ty <- (match vehicle_type_of s v with Ok ty => Ok ty | _ => Panic end);
       do t <- (match tour_of s v with Ok t => Ok t | _ => Panic end);
       do sd <- (match start_depot nw t with Ok x => Ok x | _ => Panic end);
       do ed <- (match end_depot nw t with Ok x => Ok x | _ => Panic end);
       do u1 <- (match uget (get_depot_idx nw sd, ty) u with
                 | Some (sp, de) => if memv v sp then Ok (uset (get_depot_idx nw sd, ty) (set_del v sp, de) u) else Panic
                 | None => Panic end);
       (match uget (get_depot_idx nw ed, ty) u1 with
        | Some (sp, de) => if memv v de then Ok (uset (get_depot_idx nw ed, ty) (sp, set_del v de) u1) else Panic
        | None => Panic end).

Definition key1 (s : schedule) (v : vehicle_id) : Z * Z :=
  match vehicle_type_of s v, tour_of s v with
  | Ok ty, Ok t => match start_depot nw t with Ok sd => (get_depot_idx nw sd, ty) | _ => (0, 0) end
  | _, _ => (0, 0)
  end.

Lemma step1_inv s u v u2 : imp_step1 s (Ok u) v = Ok u2 ->
  exists K2 sp de sp2 de2,
    uget (key1 s v) u = Some (sp, de) /\ memv v sp = true /\
    uget K2 (uset (key1 s v) (set_del v sp, de) u) = Some (sp2, de2) /\
    u2 = uset K2 (sp2, set_del v de2) (uset (key1 s v) (set_del v sp, de) u).
Proof.
  intros H. unfold imp_step1 in H. cbn [bind] in H. unfold key1.
  destruct (vehicle_type_of s v) as [ty| | |]; cbn [bind] in H; try discriminate H.
  destruct (tour_of s v) as [t| | |]; cbn [bind] in H; try discriminate H.
  destruct (start_depot nw t) as [sd| | |]; cbn [bind] in H; try discriminate H.
  destruct (end_depot nw t) as [ed| | |]; cbn [bind] in H; try discriminate H.
  destruct (uget (get_depot_idx nw sd, ty) u) as [[sp de]|] eqn:G1; cbn [bind] in H; try discriminate H.
  destruct (memv v sp) eqn:M1; cbn [bind] in H; try discriminate H.
  destruct (uget (get_depot_idx nw ed, ty) (uset (get_depot_idx nw sd, ty) (set_del v sp, de) u))
    as [[sp2 de2]|] eqn:G2; try discriminate H.
  destruct (memv v de2) eqn:M2; try discriminate H. inversion H; subst; clear H.
  exists (get_depot_idx nw ed, ty), sp, de, sp2, de2. auto.
Qed.

Definition nosp (v : vehicle_id) (K : Z * Z) (u : usage_t) : Prop :=
  match uget K u with Some (sp, _) => memv v sp = false | None => True end.

Lemma nosp_uset v K u K' sp de sp' de' :
  nosp v K u -> uget K' u = Some (sp, de) -> (memv v sp = false -> memv v sp' = false) ->
  nosp v K (uset K' (sp', de') u).
Proof.
  unfold nosp. intros H G M. rewrite uget_uset. destruct (pair_eqb K K') eqn:E; auto.
  apply pair_eqb_eq in E. subst K'. rewrite G in H. auto.
Qed.

Lemma memv_set_del_false v w sp : memv v sp = false -> memv v (set_del w sp) = false.
Proof.
  intros H. destruct (memv v (set_del w sp)) eqn:M; auto.
  apply memv_in in M. apply set_del_in in M. destruct M as [M _]. apply memv_in in M. congruence.
Qed.

Lemma memv_set_del_self v sp : memv v (set_del v sp) = false.
Proof.
  destruct (memv v (set_del v sp)) eqn:M; auto.
  apply memv_in in M. apply set_del_in in M. tauto.
Qed.

Lemma step1_nosp s u w u2 v K : imp_step1 s (Ok u) w = Ok u2 -> nosp v K u -> nosp v K u2.
Proof.
  intros H N. apply step1_inv in H. destruct H as (K2 & sp & de & sp2 & de2 & G1 & M1 & G2 & ->).
  eapply nosp_uset; eauto. eapply nosp_uset; eauto. apply memv_set_del_false.
Qed.

Lemma step1_self s u v u2 : imp_step1 s (Ok u) v = Ok u2 -> nosp v (key1 s v) u2.
Proof.
  intros H. apply step1_inv in H. destruct H as (K2 & sp & de & sp2 & de2 & G1 & M1 & G2 & ->).
  eapply nosp_uset; eauto. unfold nosp. rewrite uget_uset, pair_eqb_refl. apply memv_set_del_self.
Qed.

Lemma step1_strict s r v x : imp_step1 s r v = Ok x -> exists y, r = Ok y.
Proof. unfold imp_step1. destruct r; cbn [bind]; intros H; try discriminate H; eauto. Qed.

Lemma fold1_strict s l r x : fold_left (imp_step1 s) l r = Ok x -> exists y, r = Ok y.
Proof.
  revert r. induction l as [|v l IH]; cbn [fold_left]; intros r H; [eauto|].
  apply IH in H. destruct H as [y H]. eapply step1_strict; eauto.
Qed.

Lemma fold1_notin s v l : forall u u', nosp v (key1 s v) u -> fold_left (imp_step1 s) l (Ok u) = Ok u' -> ~ In v l.
Proof.
  induction l as [|w l IH]; intros u u' N H; cbn [fold_left] in H; [intros []|].
  destruct (fold1_strict _ _ _ _ H) as [u1 H1]. rewrite H1 in H.
  intros [->|I].
  - apply step1_inv in H1. destruct H1 as (K2 & sp & de & sp2 & de2 & G1 & M1 & _).
    unfold nosp in N. rewrite G1 in N. congruence.
  - eapply (IH u1 u'); eauto. eapply step1_nosp; eauto.
Qed.

Lemma fold1_nodup s l : forall u u', fold_left (imp_step1 s) l (Ok u) = Ok u' -> NoDup l.
Proof.
  induction l as [|v l IH]; intros u u' H; cbn [fold_left] in H; [constructor|].
  destruct (fold1_strict _ _ _ _ H) as [u1 H1]. rewrite H1 in H.
  constructor; [|eauto]. eapply fold1_notin; eauto. eapply step1_self; eauto.
Qed.

Lemma improve_ok s vs s' : Inv s -> improve_depots nw s vs = Ok s' -> Inv s'.
Proof.
  intros I H. unfold improve_depots in H. cbv zeta in H.
  mon H. monp H. monp H. inversion H; subst; clear H.
  change (fold_left (imp_step1 s) match vs with Some l => l | None => vehicles_iter_all nw s end (Ok (s_usage s)) = Ok a) in E.
  apply fold1_nodup in E.
  destruct I as [T KL RK DK IO].
  eapply (fold_tc s _ match vs with Some l => l | None => vehicles_iter_all nw s end) in E0; eauto.
  - destruct E0. mkinv; auto.
  - strict_tac.
  - intros tours u costs v x Hv H. cbn [bind] in H.
    mon H. mon H. mon H. mon H. inversion H; subst; clear H.
    apply tour_of_panic_ok in E2. apply tour_of_real in E2; auto.
    + eexists _, _, _, _. split; [eauto|]. split; [eauto|]. reflexivity.
    + unfold vehicle_type_of in E3. destruct (vget v (s_vehicles s)) eqn:G; [eauto | discriminate].
  - apply incl_refl.
Qed.

(** * main theorem *)
Lemma step_inv s s' : Inv s -> step nw s s' -> Inv s'.
Proof.
  intros I St. destruct St.
  - eapply spawn_ok; eauto.
  - eapply spawn_dummy_ok; eauto.
  - eapply replace_ok; eauto.
  - eapply add_path_ok; eauto.
  - eapply remove_segment_ok; eauto.
  - eapply fit_ok; eauto.
  - eapply override_ok; eauto.
  - eapply improve_ok; eauto.
  - eapply greedy_ok; eauto.
  - eapply recompute_ok; eauto.
  - eapply consistent_ok; eauto.
Qed.

Lemma zget_empty_ids ty (tys : list Z) l : zget ty (map (fun ty => (ty, @nil vehicle_id)) tys) = Some l -> l = [].
Proof.
  induction tys as [|a tys IH]; cbn [map]; [discriminate|]. rewrite zget_cons.
  destruct (ty =? a); [intros H; inversion H; auto | auto].
Qed.

Lemma empty_inv s : empty_schedule nw = Ok s -> Inv s.
Proof.
  intros H. unfold empty_schedule in H. mon H. inversion H; subst; clear H.
  constructor; cbn [s_tours s_costs s_counter s_vehicles s_dummies s_ids].
  - split; [constructor|]. unfold tsum, z_sum, Kst. cbn. lia.
  - intros v x G. discriminate G.
  - intros v x G. discriminate G.
  - intros v x G. discriminate G.
  - split.
    + intros ty l G. apply zget_empty_ids in G. subst. split; [constructor | intros v []].
    + intros ty1 ty2 l1 l2 v G1 _ I1 _. apply zget_empty_ids in G1. subst. destruct I1.
Qed.

Lemma reachable_inv s : reachable nw s -> Inv s.
Proof.
  induction 1.
  - now apply empty_inv.
  - eapply step_inv; eauto.
Qed.
End Proofs.

Theorem reachable_costs : forall nw, stmt_reachable_costs nw.
Proof. intros nw s R. apply Inv_costs. now apply reachable_inv. Qed.

Print Assumptions reachable_costs.
