(* SchedExactFacts.v — C09 at tour level for ALL stored tours of ALL schedules reachable by valid-Path histories:
   [vreachable_tours_exact : forall nw, stmt_vreachable_tours_exact nw] (statement in RenderStmts.v).
   Every stored tour (real and dummy) equals [new_computing] of its node list. The invariant is carried along the
   11 constructors of [vstep] together with the validity invariant [TIs] of SchedToursFacts.v (needed for [remove]:
   the inner nodes of a stored tour are no depots) and [Inv] of SchedCostsFacts.v. *)
From RS Require Import SchedPeel Base BaseFacts Network NetSpec NetFacts Tour TourSpec TourStmts TourFacts TourValidFacts.
From RS Require Import TourExactStmts TourExactFacts.
From RS Require Import Transition Schedule SchedInv SchedObs SchedStruct SchedCostsFacts SchedToursFacts.
From RS Require Import PipelineSched Render RenderStmts.
From Coq Require Import Arith.

Section Exact.
Variable nw : network.
Hypothesis WF : net_wf_b nw = true.
Hypothesis DP : durations_pos_b nw = true.
Hypothesis DF : dists_finite_b nw = true.
Hypothesis DH : dh_dists_finite_b nw = true.
Notation d0 := (SD 0).
Notation ex := (tour_exact nw).

(** * the invariant *)
Definition EI (tours dummies : list (vehicle_id * tour)) : Prop :=
  (forall v t, vget v tours = Some t -> ex t) /\ (forall d t, vget d dummies = Some t -> ex t).
Definition EIs (s : schedule) : Prop := EI (s_tours s) (s_dummies s).

Lemma EIs_ToursExact s : EIs s <-> ToursExact nw s.
Proof. unfold EIs, EI, ToursExact. tauto. Qed.

(** * helpers *)
Lemma EI_vdel_dummy tours dummies d : EI tours dummies -> EI tours (vdel d dummies).
Proof.
  intros [TR TD]. split; [exact TR|]. intros k t G. rewrite vget_vdel in G.
  destruct (vid_eqb k d); [discriminate|]. eapply TD; eauto.
Qed.

Lemma EI_add_dummy tours dummies d dt : EI tours dummies -> ex dt -> EI tours (vset d dt dummies).
Proof.
  intros [TR TD] H. split; [exact TR|]. intros k t G. rewrite vget_vset in G.
  destruct (vid_eqb k d); [inversion G; subst; exact H|]. eapply TD; eauto.
Qed.

Lemma EI_vdel_real tours dummies v : EI tours dummies -> EI (vdel v tours) dummies.
Proof.
  intros [TR TD]. split; [|exact TD]. intros k t G. rewrite vget_vdel in G.
  destruct (vid_eqb k v) eqn:E; [discriminate|]. eapply TR; eauto.
Qed.

Lemma EI_set_real tours dummies v nt : EI tours dummies -> ex nt -> EI (vset v nt tours) dummies.
Proof.
  intros [TR TD] H. split; [|exact TD]. intros k t G. rewrite vget_vset in G.
  destruct (vid_eqb k v) eqn:E.
  - inversion G; subst. exact H.
  - eapply TR; eauto.
Qed.

Lemma tour_of_E s v t : EIs s -> tour_of s v = Ok t -> ex t.
Proof.
  intros [TR TD] H. unfold tour_of in H. destruct (vget v (s_tours s)) as [t0|] eqn:G.
  - inversion H; subst. eapply TR; eauto.
  - destruct (vget v (s_dummies s)) as [t0|] eqn:G2; [|discriminate]. inversion H; subst. eapply TD; eauto.
Qed.

Lemma tour_new_E nodes t : tour_new nw nodes = Ok t -> ex t.
Proof.
  unfold tour_new. destruct nodes; [discriminate|]. destruct (valid_tour_nodes nw _); [|discriminate].
  intros H. inversion H; subst. reflexivity.
Qed.

Lemma tour_new_dummy_E path t : tour_new_dummy nw path = Ok t -> ex t.
Proof.
  unfold tour_new_dummy. destruct (existsb _ _); [|discriminate].
  intros H. inversion H; subst. reflexivity.
Qed.

Lemma TV_nondepots t : TV nw t -> forallb (fun n => negb (node_is_depot nw n)) (non_depots t) = true.
Proof.
  intros V. apply forallb_forall. intros n Hn. apply negb_true_iff. unfold non_depots in Hn. unfold TV in V.
  destruct (t_dummy t).
  - destruct V as (_ & _ & ND). apply ND. exact Hn.
  - eapply RV_inner; eauto.
Qed.

Lemma remove_E t seg t' r : TV nw t -> ex t -> Tour.remove nw t seg = Ok (Some t', r) -> ex t'.
Proof.
  intros V E H. eapply (remove_exact_depots nw t seg t' r WF DF DH E); [|exact H]. apply TV_nondepots. exact V.
Qed.

Lemma insert_E t p t' r : ex t -> insert_path nw t p = Ok (t', r) -> ex t'.
Proof. intros E H. eapply (insert_path_exact nw t p t' r WF DF E). exact H. Qed.

Lemma RV_first t : RV nw (t_nodes t) -> is_start_depot (nd nw (first_node t)) = true.
Proof.
  intros (NE & _ & S & _). unfold first_node, nth_node. rewrite <- hd_nth0. exact S.
Qed.

Lemma RV_last t : RV nw (t_nodes t) -> is_end_depot (nd nw (last_node t)) = true.
Proof.
  intros (NE & _ & _ & E & _). unfold last_node, nth_node, tlen. rewrite <- last_nth. exact E.
Qed.

Lemma replace_start_E t d t' : RV nw (t_nodes t) -> ex t -> replace_start_depot nw t d = Ok t' -> ex t'.
Proof. intros R E H. eapply (replace_start_depot_exact nw t d t' WF E); [apply RV_first; exact R|exact H]. Qed.

Lemma replace_end_E t d t' : RV nw (t_nodes t) -> ex t -> replace_end_depot nw t d = Ok t' -> ex t'.
Proof. intros R E H. eapply (replace_end_depot_exact nw t d t' WF E); [apply RV_last; exact R|exact H]. Qed.

(** * the operations *)
Lemma spawn_E s ty path s' v : EIs s -> spawn_vehicle_for_path nw s ty path = Ok (s', v) -> EIs s'.
Proof.
  intros T H. unfold spawn_vehicle_for_path in H.
  destruct (negb _) in H; [discriminate|].
  mon H. mon H. mon H. monp H. mon H. monp H. inversion H; subst; clear H.
  unfold EIs. cbn [with_fields s_tours s_dummies]. apply EI_set_real; [exact T|]. eapply tour_new_E; eauto.
Qed.

Lemma delete_dummy_E s d s' : EIs s -> delete_dummy s d = Ok s' -> EIs s'.
Proof.
  intros T H. unfold delete_dummy in H. destruct (negb _) in H; [discriminate|].
  mon H. inversion H; subst; clear H. unfold EIs. cbn [with_fields s_tours s_dummies].
  apply EI_vdel_dummy. exact T.
Qed.

Lemma spawn_dummy_E s d ty s' v : EIs s -> spawn_to_replace_dummy nw s d ty = Ok (s', v) -> EIs s'.
Proof.
  intros T H. unfold spawn_to_replace_dummy in H. mon H. mon H.
  eapply spawn_E; [|eauto]. eapply delete_dummy_E; eauto.
Qed.

Lemma recompute_E s ts s' : EIs s -> recompute_transitions_for nw s ts = Ok s' -> EIs s'.
Proof.
  intros T H. unfold recompute_transitions_for in H. monp H. inversion H; subst; clear H. exact T.
Qed.

Lemma replace_E s v s' : EIs s -> replace_vehicle_by_dummy nw s v = Ok s' -> EIs s'.
Proof.
  intros T H. unfold replace_vehicle_by_dummy in H.
  destruct (negb _) in H; [discriminate|].
  mon H. mon H. mon H. monp H. mon H. mon H. mon H.
  assert (Q : EI (vdel v (s_tours s)) (s_dummies s)) by (apply EI_vdel_real; exact T).
  destruct (tour_new_dummy nw a4) as [dt| | |] eqn:TD0; cbn [add_dummy_tour] in H;
    monp H; inversion H; subst; clear H; unfold EIs; cbn [with_fields s_tours s_dummies]; auto.
  apply EI_add_dummy; [exact Q|]. eapply tour_new_dummy_E; eauto.
Qed.

Lemma add_path_E s v path s' c : EIs s -> add_path_to_vehicle_tour nw s v path = Ok (s', c) -> EIs s'.
Proof.
  intros T H. unfold add_path_to_vehicle_tour in H.
  destruct path as [|pf path'] eqn:EP; [discriminate|]. rewrite <- EP in *.
  match type of H with (if ?b then _ else _) = _ => destruct b eqn:CK; [discriminate|] end.
  mon H. mon H. monp H. mon H. monp H. monp H. mon H. mon H. monp H. inversion H; subst s' c; clear H.
  apply unwrap_opt_ok in E2. pose proof T as [TR TD].
  unfold EIs. cbn [with_fields s_tours s_dummies].
  apply EI_set_real; [exact T|]. eapply insert_E; [|eauto]. eapply TR; eauto.
Qed.

Lemma utc_E s tours dummies costs v nt t' d' c' :
  EI tours dummies -> ex nt -> update_tour_and_costs s tours dummies costs v nt = Ok (t', d', c') -> EI t' d'.
Proof.
  intros T F H. unfold update_tour_and_costs in H. destruct (is_dummy s v) eqn:D.
  - inversion H; subst. apply EI_add_dummy; auto.
  - mon H. mon H. inversion H; subst; clear H. apply EI_set_real; auto.
Qed.

Lemma remove_segment_E s seg v s' : Inv nw s -> TIs nw s -> EIs s -> remove_segment nw s seg v = Ok s' -> EIs s'.
Proof.
  intros I TT T H. unfold remove_segment in H.
  destruct (negb (is_vehicle s v)) eqn:IV; [discriminate|].
  mon H. monp H. destruct o as [nt|]; [|eapply replace_E; eauto].
  monp H. monp H. mon H. apply panic_ok in E.
  destruct (tour_of_T nw s v a I TT E) as (V & _ & _).
  assert (F : ex nt) by (eapply remove_E; [exact V| |exact E0]; eapply tour_of_E; eauto).
  pose proof (utc_E s _ _ _ _ _ _ _ _ T F E2) as T1.
  destruct (tour_new_dummy nw l) as [dt| | |] eqn:TD0; cbn [add_dummy_tour] in H;
    monp H; inversion H; subst; clear H; unfold EIs; cbn [with_fields s_tours s_dummies]; auto.
  apply EI_add_dummy; [exact T1|]. eapply tour_new_dummy_E; eauto.
Qed.

Lemma update_tours_E s forms usage dids uns p ntp r ntr moved
    vehicles1 tours2 forms2 usage2 dummies2 ids1 dids1 uns2 costs2 :
  EIs s -> (forall nt, ntp = Some nt -> ex nt) -> ex ntr ->
  update_tours nw s (s_vehicles s) (s_tours s) forms usage (s_dummies s) (s_ids s) dids uns (s_costs s) p ntp r ntr moved
    = Ok (vehicles1, tours2, forms2, usage2, dummies2, ids1, dids1, uns2, costs2) ->
  EI tours2 dummies2.
Proof.
  intros T FP FR H. apply update_tours_peel in H. unfold update_tours_prefix in H.
  monp H. mon H. monp H. mon H. monp H. inversion H; subst; clear H.
  assert (Q : EI l3 l1).
  { destruct ntp as [nt|].
    - monp E. inversion E; subst; clear E. eapply utc_E; [exact T|exact (FP nt eq_refl)|eassumption].
    - mon E. destruct (is_dummy s p).
      + mon E. inversion E; subst. apply EI_vdel_dummy. exact T.
      + destruct (is_vehicle s p).
        * mon E. mon E. inversion E; subst. apply EI_vdel_real; exact T.
        * inversion E; subst. exact T. }
  eapply utc_E; [exact Q|exact FR|exact E1].
Qed.

Lemma override_E s seg p r s' d : Inv nw s -> TIs nw s -> EIs s -> override_reassign nw s seg p r = Ok (s', d) -> EIs s'.
Proof.
  intros I TT T H. unfold override_reassign in H. destruct (vid_eqb p r) in H; [discriminate|].
  mon H. destruct (negb a) eqn:OK; [discriminate|].
  mon H. mon H. monp H. monp H. monp H.
  apply panic_ok in E0, E1.
  destruct (tour_of_T nw s p a0 I TT E0) as (Vp & _ & _).
  pose proof (tour_of_E s p a0 T E0) as Xp. pose proof (tour_of_E s r a1 T E1) as Xr.
  assert (FR : ex t) by (eapply insert_E; eauto).
  assert (FP : forall nt, o = Some nt -> ex nt).
  { intros nt ->. eapply remove_E; eauto. }
  pose proof (update_tours_E _ _ _ _ _ _ _ _ _ _ _ _ _ _ _ _ _ _ _ T FP FR E4) as T1.
  monp H. monp H. inversion H; subst; clear H.
  unfold EIs. cbn [with_fields s_tours s_dummies].
  destruct o0 as [np|].
  - monp E5.
    destruct (tour_new_dummy nw np) as [dt| | |] eqn:TD0; cbn [add_dummy_tour] in E5; inversion E5; subst; auto.
    apply EI_add_dummy; [exact T1|]. eapply tour_new_dummy_E; eauto.
  - inversion E5; subst. exact T1.
Qed.

Lemma fit_loop_E :
  forall fuel ntp ntr remaining moved ntp' ntr' moved',
  (forall prov, ntp = Some prov -> TV nw prov /\ ex prov) ->
  (TV nw ntr /\ ex ntr) ->
  fit_loop nw fuel ntp ntr remaining moved = Ok (ntp', ntr', moved') ->
  (forall prov, ntp' = Some prov -> TV nw prov /\ ex prov) /\ (TV nw ntr' /\ ex ntr').
Proof.
  induction fuel as [|f IH]; intros ntp ntr remaining moved ntp' ntr' moved' HP HR H.
  - destruct remaining; cbn in H; [discriminate|]. inversion H; subst. auto.
  - destruct remaining as [rem|]; [|cbn in H; inversion H; subst; auto].
    cbn [fit_loop] in H. destruct rem as [|sstart rest0] eqn:ER; [discriminate|]. rewrite <- ER in *.
    mon H. mon H. monp H.
    apply unwrap_opt_ok in E. destruct (HP a E) as (Va & Xa).
    destruct HR as (Vr & Xr).
    destruct (Tour.remove nw a (sstart, n0)) as [[cand_prov pfi]| | |] eqn:RM; try discriminate H.
    + mon H. destruct a1 as [cf|].
      * eapply IH; [exact HP|split; [exact Vr|exact Xr]|exact H].
      * monp H.
        destruct (remove_valid nw _ _ _ _ Va RM) as (i' & j' & _ & _ & _ & _ & _ & VPf & SH).
        destruct (insert_path_valid nw WF DP ntr pfi t o Vr VPf E3) as (_ & Vnr & _ & _).
        eapply IH; [| |exact H].
        -- intros prov ->. destruct SH as (_ & V1 & _). split; [exact V1|]. eapply remove_E; [exact Va|exact Xa|exact RM].
        -- split; [exact Vnr|]. eapply insert_E; [exact Xr|exact E3].
    + eapply IH; [exact HP|split; [exact Vr|exact Xr]|exact H].
Qed.

Lemma fit_E s seg p r s' : Inv nw s -> TIs nw s -> EIs s -> fit_reassign nw s seg p r = Ok s' -> EIs s'.
Proof.
  intros I TT T H. unfold fit_reassign in H.
  mon H. destruct (negb a) eqn:OK; [discriminate|].
  mon H. mon H. mon H. monp H. monp H. monp H. inversion H; subst; clear H.
  apply panic_ok in E0, E1.
  destruct (tour_of_T nw s p a0 I TT E0) as (Vp & _ & _). destruct (tour_of_T nw s r a1 I TT E1) as (Vr & _ & _).
  pose proof (tour_of_E s p a0 T E0) as Xp. pose proof (tour_of_E s r a1 T E1) as Xr.
  assert (HP0 : forall prov, Some a0 = Some prov -> TV nw prov /\ ex prov) by (intros prov Q; inversion Q; subst; auto).
  destruct (fit_loop_E _ _ _ _ _ _ _ _ HP0 (conj Vr Xr) E3) as (HP & _ & Xt).
  eapply update_tours_E; [exact T| |exact Xt|exact E4].
  intros nt Q. apply (HP nt Q).
Qed.

(** ** the three depot-reassignment folds *)
Definition Qe {U : Type} (x : list (vehicle_id * tour) * U * Z) : Prop :=
  forall v t, vget v (fst (fst x)) = Some t -> ex t.

Lemma Qe_set {U} tours (u u' : U) c c' v nt : Qe (tours, u, c) -> ex nt -> Qe (vset v nt tours, u', c').
Proof.
  unfold Qe. cbn [fst]. intros H R k t G. rewrite vget_vset in G. destruct (vid_eqb k v) eqn:E.
  - inversion G; subst. exact R.
  - eapply H; eauto.
Qed.

Ltac unpanic := repeat match goal with
  | H : match ?r with Ok _ => _ | Err => Panic | Panic => Panic | OutOfFuel => Panic end = Ok _ |- _ => apply panic_ok in H
  end.

Ltac strict_tac' :=
  let r := fresh "r" in let v := fresh "v" in let x := fresh "x" in let H := fresh "H" in
  intros r v x H; destruct r; cbn [bind] in H; try discriminate H; eauto.

Lemma tour_of_replace_end_E s v t ed nt : Inv nw s -> TIs nw s -> EIs s -> tour_of s v = Ok t ->
  replace_end_depot nw t ed = Ok nt -> ex nt.
Proof.
  intros I TT T TO H. destruct (tour_of_T nw s v t I TT TO) as (V & _ & _).
  assert (D : t_dummy t = false) by (unfold replace_end_depot in H; destruct (t_dummy t); [discriminate|reflexivity]).
  eapply replace_end_E; [|eapply tour_of_E; eauto|exact H]. apply TV_RV; auto.
Qed.

Lemma greedy_E s s' : Inv nw s -> TIs nw s -> EIs s -> reassign_end_depots_greedily nw s = Ok s' -> EIs s'.
Proof.
  intros I TT T H. unfold reassign_end_depots_greedily in H.
  monp H. monp H. inversion H; subst; clear H.
  unfold EIs. cbn [with_fields s_tours s_dummies]. pose proof T as [TR TD]. split; [|exact TD].
  eapply (fold_res_inv _ Qe) in E.
  - exact E.
  - strict_tac'.
  - intros [[tours u] costs] v x HQ H. cbn [bind] in H.
    mon H. mon H. mon H. mon H. mon H. mon H. inversion H; subst; clear H.
    unpanic. eapply Qe_set; [exact HQ|]. match goal with G1 : tour_of s v = Ok ?t, G2 : replace_end_depot nw ?t ?e = Ok ?nt |- _ =>
      exact (tour_of_replace_end_E s v t e nt I TT T G1 G2) end.
  - exact TR.
Qed.

Lemma consistent_E s s' : Inv nw s -> TIs nw s -> EIs s -> reassign_end_depots_consistent nw s = Ok s' -> EIs s'.
Proof.
  intros I TT T H. unfold reassign_end_depots_consistent in H.
  monp H. monp H. inversion H; subst; clear H.
  unfold EIs. cbn [with_fields s_tours s_dummies]. pose proof T as [TR TD]. split; [|exact TD].
  eapply (fold_res_inv _ Qe) in E.
  - exact E.
  - strict_tac'.
  - intros [[tours u] costs] v x HQ H. cbn [bind] in H.
    mon H. mon H. mon H. mon H. mon H. mon H. mon H. mon H. mon H. inversion H; subst; clear H.
    unpanic. eapply Qe_set; [exact HQ|]. match goal with G1 : tour_of s v = Ok ?t, G2 : replace_end_depot nw ?t ?e = Ok ?nt |- _ =>
      exact (tour_of_replace_end_E s v t e nt I TT T G1 G2) end.
  - exact TR.
Qed.

Lemma improve_tour_E t usage ty nt : RV nw (t_nodes t) -> ex t -> improve_depots_of_tour nw usage t ty = Ok nt -> ex nt.
Proof.
  intros R X H. unfold improve_depots_of_tour in H.
  mon H. mon H. mon H. mon H. mon H. mon H. mon H.
  assert (R1 : RV nw (t_nodes a2) /\ ex a2).
  { destruct (negb (nid_eqb a0 a1)); [|inversion E2; subst; auto].
    apply panic_ok in E2. split; [|eapply replace_start_E; eauto].
    destruct (replace_start_depot_valid nw t a0 a2 R E2) as (_ & R' & _). exact R'. }
  destruct R1 as [R1 X1].
  destruct (negb (nid_eqb a4 a5)); [|inversion H; subst; exact X1].
  apply panic_ok in H. eapply replace_end_E; eauto.
Qed.

Lemma improve_E s vs s' : Inv nw s -> TIs nw s -> EIs s -> improve_depots nw s vs = Ok s' -> EIs s'.
Proof.
  intros I TT T H. unfold improve_depots in H. cbv zeta in H.
  mon H. monp H. monp H. inversion H; subst; clear H.
  unfold EIs. cbn [with_fields s_tours s_dummies]. pose proof T as [TR TD]. split; [|exact TD].
  eapply (fold_res_inv _ Qe) in E0.
  - exact E0.
  - strict_tac'.
  - intros [[tours u] costs] v x HQ H. cbn [bind] in H.
    mon H. mon H. mon H. mon H. inversion H; subst; clear H.
    unpanic. eapply Qe_set; [exact HQ|].
    match goal with G : vehicle_type_of s v = Ok ?ty |- _ =>
      unfold vehicle_type_of in G; destruct (vget v (s_vehicles s)) as [ty0|] eqn:Gv; cbn [ok_or_err] in G; [|discriminate G];
      inversion G; subst ty0 end.
    match goal with G : tour_of s v = Ok ?t |- _ =>
      pose proof (real_tour_of nw s v _ t I TT Gv G) as (_ & R & _); pose proof (tour_of_E s v t T G) as X end.
    eapply improve_tour_E; eauto.
  - exact TR.
Qed.

(** * the induction *)
Lemma vstep_E s s' : Inv nw s -> TIs nw s -> EIs s -> vstep nw s s' -> EIs s'.
Proof.
  intros I TT T St. destruct St.
  - eapply spawn_E; eauto.
  - eapply spawn_dummy_E; eauto.
  - eapply replace_E; eauto.
  - eapply add_path_E; eauto.
  - eapply remove_segment_E; eauto.
  - eapply fit_E; eauto.
  - eapply override_E; eauto.
  - eapply improve_E; eauto.
  - eapply greedy_E; eauto.
  - eapply recompute_E; eauto.
  - eapply consistent_E; eauto.
Qed.

Lemma empty_E s : empty_schedule nw = Ok s -> EIs s.
Proof.
  intros H. unfold empty_schedule in H. mon H. inversion H; subst; clear H.
  split; cbn [s_tours s_dummies]; intros v t G; discriminate G.
Qed.

Lemma vreachable_E s : vreachable nw s -> EIs s.
Proof.
  induction 1 as [s H|s s' R IH St].
  - apply empty_E. exact H.
  - eapply vstep_E; eauto.
    + apply reachable_inv. apply vreachable_reachable. exact R.
    + apply vreachable_T; assumption.
Qed.
End Exact.

(** * Main theorem *)
Theorem vreachable_tours_exact : forall nw, stmt_vreachable_tours_exact nw.
Proof.
  intros nw OK DF DH s R. unfold net_ok_b in OK. apply andb_true_iff in OK. destruct OK as [WF DP].
  apply EIs_ToursExact. apply vreachable_E; assumption.
Qed.

Print Assumptions vreachable_tours_exact.
