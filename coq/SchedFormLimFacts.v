(* SchedFormLimFacts.v — proof of stmt_reachable_form_limits (SchedStruct.v): in every reachable schedule of the
   model no maintenance slot hosts more vehicles than it has tracks and no service trip has a formation longer
   than maximal_formation_count_for.  The invariant FormLimitsOK is inductive by itself: the only writer of
   s_forms is update_train_formation, whose per-node step replacement_in_formation never lengthens a formation
   except by the guarded push. *)
From RS Require Import SchedPeel Base BaseFacts Network NetSpec Tour TourFacts Transition Schedule SchedInv SchedObs
  SchedUnservedFacts SchedStruct.

Section FL.
Variable nw : network.

Notation formation := (list (vehicle_id * Z)).

Definition FL (fm : list (node_id * formation)) : Prop :=
  forall n f, nget n fm = Some f -> form_len_ok nw n f.

(** * replacement_in_formation *)

Lemma len_replace (f : formation) k x : (k < length f)%nat ->
  length (firstn k f ++ [x] ++ skipn (k + 1) f) = length f.
Proof.
  intros Hk. rewrite !app_length, firstn_length, skipn_length. cbn [length]. lia.
Qed.

Lemma len_remove (f : formation) k :
  (length (firstn k f ++ skipn (k + 1) f) <= length f)%nat.
Proof. rewrite app_length, firstn_length, skipn_length. lia. Qed.

Lemma form_len_ok_le n (f f' : formation) :
  (length f' <= length f)%nat -> form_len_ok nw n f -> form_len_ok nw n f'.
Proof.
  unfold form_len_ok. intros Hl. destruct (nd nw n); auto.
  - destruct (maximal_formation_count_for nw n); auto. lia.
  - lia.
Qed.

Lemma form_len_ok_push n (f : formation) x :
  (is_maint (nd nw n) && (track_count nw n <=? Z.of_nat (length f))) = false ->
  (is_service (nd nw n) &&
     match maximal_formation_count_for nw n with Some l => l <=? Z.of_nat (length f) | None => false end) = false ->
  form_len_ok nw n (f ++ [x]).
Proof.
  unfold form_len_ok. intros Hm Hs. rewrite app_length. cbn [length].
  destruct (nd nw n); cbn [is_maint is_service andb] in Hm, Hs; auto.
  - destruct (maximal_formation_count_for nw n) as [l|]; auto.
    apply Z.leb_gt in Hs. lia.
  - apply Z.leb_gt in Hm. lia.
Qed.

Lemma remove_ok n (f : formation) p f' :
  match index_of (fun '(x, _) => vid_eqb x p) f with
  | Some k => Ok (firstn k f ++ skipn (k + 1) f) | None => Err end = Ok f' ->
  form_len_ok nw n f -> form_len_ok nw n f'.
Proof.
  destruct (index_of _ f) as [k|]; [|discriminate]. intros H; inversion H; subst.
  apply form_len_ok_le, len_remove.
Qed.

Lemma rif_ok s f prov recv n f' :
  replacement_in_formation nw s f prov recv n = Ok f' -> form_len_ok nw n f -> form_len_ok nw n f'.
Proof.
  unfold replacement_in_formation. intros H Hf. cbv zeta in H.
  destruct recv as [[r rty]|].
  - destruct (negb (is_dummy s r)).
    + destruct (match prov with Some p => negb (is_dummy s p) | None => false end).
      * destruct prov as [p|]; [|discriminate].
        destruct (index_of _ f) as [k|] eqn:Ek; [|discriminate]. inversion H; subst.
        apply index_of_lt in Ek. eapply form_len_ok_le; [|exact Hf].
        pose proof (len_replace f k (r, rty) Ek) as Hl. apply Nat.eq_le_incl. exact Hl.
      * destruct (is_maint (nd nw n) && (track_count nw n <=? Z.of_nat (length f))) eqn:Em; [discriminate|].
        destruct (is_service (nd nw n) && _) eqn:Es; [discriminate|].
        inversion H; subst. now apply form_len_ok_push.
    + destruct (match prov with Some p => negb (is_dummy s p) | None => false end).
      * destruct prov as [p|]; [|discriminate]. eapply remove_ok; eauto.
      * inversion H; subst; auto.
  - destruct (match prov with Some p => negb (is_dummy s p) | None => false end).
    + destruct prov as [p|]; [|discriminate]. eapply remove_ok; eauto.
    + inversion H; subst; auto.
Qed.

(** * update_train_formation *)

Lemma FL_nset n (f f' : formation) fm :
  nget n fm = Some f -> form_len_ok nw n f' -> FL fm -> FL (nset n f' fm).
Proof.
  intros En Hf' HI m g Hm. rewrite (nset_key _ _ _ _ En), nget_nrepl in Hm.
  destruct (nid_eqb m n) eqn:E.
  - apply nid_eqb_eq in E; subst m. rewrite En in Hm. inversion Hm; subst; auto.
  - eauto.
Qed.

Lemma utf_FL s prov recv moved : forall fm uns fm' uns',
  update_train_formation nw s fm uns prov recv moved = Ok (fm', uns') -> FL fm -> FL fm'.
Proof.
  unfold update_train_formation.
  induction moved as [|n l IH]; intros fm uns fm' uns' H HI.
  - cbn [fold_left] in H. inversion H; subst; auto.
  - cbn [fold_left] in H. destruct uns as [ua ub]. cbn [bind] in H.
    match type of H with fold_left ?G _ _ = _ =>
      assert (Hno : forall r, is_ok r = false -> fold_left G l r = r)
        by (apply fold_nonok; intros [] ? Hr; try discriminate Hr; reflexivity) end.
    destruct (is_depot (nd nw n)) eqn:Edep.
    + eapply IH; eauto.
    + destruct (nget n fm) as [f|] eqn:En; cbn [unwrap_opt bind] in H.
      2:{ rewrite Hno in H by reflexivity. discriminate. }
      destruct (replacement_in_formation nw s f prov recv n) as [f'| | |] eqn:Er; cbn [bind] in H;
        try (rewrite Hno in H by reflexivity; discriminate).
      eapply IH; [exact H|]. clear H IH Hno.
      eapply FL_nset; eauto. eapply rif_ok; eauto.
Qed.

(** * the empty schedule *)
Lemma nget_init (l : list node_id) m (f : formation) :
  nget m (map (fun n => (n, @nil (vehicle_id * Z))) l) = Some f -> f = [].
Proof.
  unfold nget. induction l as [|a l IH]; cbn [map assoc]; [discriminate|].
  destruct (nid_eqb m a); auto. intros H; now inversion H.
Qed.

Lemma form_len_ok_nil n : form_len_ok nw n [].
Proof.
  unfold form_len_ok. cbn [length]. destruct (nd nw n); auto.
  - destruct (maximal_formation_count_for nw n); auto. lia.
  - lia.
Qed.

Lemma empty_FL s : empty_schedule nw = Ok s -> FL (s_forms s).
Proof.
  unfold empty_schedule. intros H.
  match type of H with bind ?x _ = _ => destruct x; cbn [bind] in H; try discriminate H end.
  inversion H; subst; clear H. cbn [s_forms].
  intros n f Hn. apply nget_init in Hn. subst. apply form_len_ok_nil.
Qed.

(** * the public modifications *)
Definition SFL (s : schedule) : Prop := FL (s_forms s).

Ltac step_bind H :=
  match type of H with
  | bind ?x _ = Ok _ => let E := fresh "E" in destruct x eqn:E; cbn [bind] in H; try discriminate H
  | (match ?x with _ => _ end) = Ok _ => let E := fresh "E" in destruct x eqn:E; try discriminate H
  end.

Ltac saturate :=
  repeat match goal with
  | E : update_train_formation nw _ ?fm _ _ _ _ = Ok (?fm', _), HI : FL ?fm |- _ =>
      pose proof (utf_FL _ _ _ _ _ _ _ _ E HI); clear E
  | E : (match ?c with _ => _ end) = Ok (_, _) |- _ =>
      is_var c; destruct c; try discriminate E
  | E : Ok (_, _) = Ok (_, _) |- _ => inversion E; subst; clear E
  end.

Ltac finish H :=
  inversion H; subst; clear H; unfold SFL in *; cbn [with_fields s_forms] in *; saturate; auto.

Ltac crunch H := cbv zeta in H; repeat step_bind H; finish H.

Lemma spawn_FL s ty path s' v : spawn_vehicle_for_path nw s ty path = Ok (s', v) -> SFL s -> SFL s'.
Proof. unfold spawn_vehicle_for_path. intros H HI. crunch H. Qed.

Lemma delete_dummy_FL s d s' : delete_dummy s d = Ok s' -> SFL s -> SFL s'.
Proof. unfold delete_dummy. intros H HI. crunch H. Qed.

Lemma spawn_dummy_FL s d ty s' v : spawn_to_replace_dummy nw s d ty = Ok (s', v) -> SFL s -> SFL s'.
Proof.
  unfold spawn_to_replace_dummy. intros H HI.
  step_bind H. step_bind H.
  eapply spawn_FL; [exact H|]. eapply delete_dummy_FL; eauto.
Qed.

Lemma delete_FL s v s' : replace_vehicle_by_dummy nw s v = Ok s' -> SFL s -> SFL s'.
Proof. unfold replace_vehicle_by_dummy. intros H HI. crunch H. Qed.

Lemma add_path_FL s v path s' c : add_path_to_vehicle_tour nw s v path = Ok (s', c) -> SFL s -> SFL s'.
Proof.
  unfold add_path_to_vehicle_tour. intros H HI. destruct path as [|pf path]; [discriminate|].
  cbv zeta in H.
  step_bind H. step_bind H.
  repeat step_bind H; finish H.
Qed.

Lemma remove_segment_FL s seg v s' : remove_segment nw s seg v = Ok s' -> SFL s -> SFL s'.
Proof.
  unfold remove_segment. intros H HI. cbv zeta in H.
  do 3 step_bind H.
  match type of H with (let '(_, _) := ?p in _) = _ => destruct p as [shr removed] end.
  destruct shr as [nt|]; [|eapply delete_FL; eauto].
  repeat step_bind H; finish H.
Qed.

Lemma update_tours_FL s veh tours forms usage dummies ids dids uns costs p ntp r ntr moved
      veh1 tours2 forms2 usage2 dummies2 ids1 dids1 uns2 costs2 :
  update_tours nw s veh tours forms usage dummies ids dids uns costs p ntp r ntr moved
    = Ok (veh1, tours2, forms2, usage2, dummies2, ids1, dids1, uns2, costs2) ->
  FL forms -> FL forms2.
Proof.
  intros H HI. apply update_tours_peel in H. unfold update_tours_prefix in H. cbv zeta in H.
  step_bind H.
  match goal with E : (match ntp with _ => _ end) = _ |- _ => clear E end.
  repeat step_bind H.
  inversion H; subst; clear H. saturate; auto.
Qed.

Lemma fit_FL s seg p r s' : fit_reassign nw s seg p r = Ok s' -> SFL s -> SFL s'.
Proof.
  unfold fit_reassign. intros H HI. cbv zeta in H.
  repeat step_bind H.
  inversion H; subst; clear H. unfold SFL in *. cbn [with_fields s_forms].
  eapply update_tours_FL; eauto.
Qed.

Lemma override_FL s seg p r s' d : override_reassign nw s seg p r = Ok (s', d) -> SFL s -> SFL s'.
Proof.
  unfold override_reassign. intros H HI. cbv zeta in H. destruct (vid_eqb p r) in H; [discriminate|].
  repeat step_bind H.
  all: inversion H; subst; clear H; unfold SFL in *; cbn [with_fields s_forms].
  all: match goal with E : update_tours _ _ _ _ _ _ _ _ _ _ _ _ _ _ _ _ = Ok _ |- _ =>
         pose proof (update_tours_FL _ _ _ _ _ _ _ _ _ _ _ _ _ _ _ _ _ _ _ _ _ _ _ _ E HI) end.
  all: repeat match goal with
       | E : bind _ _ = Ok _ |- _ => step_bind E
       | E : (match _ with _ => _ end) = Ok _ |- _ => step_bind E
       end.
  all: saturate; auto.
Qed.

Lemma improve_FL s vs s' : improve_depots nw s vs = Ok s' -> SFL s -> SFL s'.
Proof. unfold improve_depots. intros H HI. cbv zeta in H. do 3 step_bind H. step_bind H. step_bind H. step_bind H. finish H. Qed.

Lemma greedy_FL s s' : reassign_end_depots_greedily nw s = Ok s' -> SFL s -> SFL s'.
Proof. unfold reassign_end_depots_greedily. intros H HI. cbv zeta in H. do 3 step_bind H. do 2 step_bind H. finish H. Qed.

Lemma recompute_FL s ts s' : recompute_transitions_for nw s ts = Ok s' -> SFL s -> SFL s'.
Proof. unfold recompute_transitions_for. intros H HI. cbv zeta in H. do 2 step_bind H. finish H. Qed.

Lemma consistent_FL s s' : reassign_end_depots_consistent nw s = Ok s' -> SFL s -> SFL s'.
Proof. unfold reassign_end_depots_consistent. intros H HI. cbv zeta in H. do 3 step_bind H. do 2 step_bind H. finish H. Qed.

Lemma step_FL s s' : step nw s s' -> SFL s -> SFL s'.
Proof.
  intros Hs HI. destruct Hs;
    eauto using spawn_FL, spawn_dummy_FL, delete_FL, add_path_FL, remove_segment_FL, fit_FL, override_FL,
                improve_FL, greedy_FL, recompute_FL, consistent_FL.
Qed.

Lemma reachable_SFL s : reachable nw s -> SFL s.
Proof.
  induction 1 as [s H|s s' _ IH Hs].
  - now apply empty_FL.
  - eapply step_FL; eauto.
Qed.
End FL.

Theorem reachable_form_limits : forall nw, stmt_reachable_form_limits nw.
Proof.
  intros nw s Hr. exact (reachable_SFL nw s Hr).
Qed.

Print Assumptions reachable_form_limits.
