(* SchedFormsFacts.v — C10, formations, at schedule level (statement stmt_vreachable_forms, SchedStruct.v).

   RESULT.  The statement as written is FALSE of the model: nothing in [net_ok_b] ties the ids listed in [nw_maint]
   to maintenance node records, so a network may list a start depot id among the coverable nodes; the formation map
   then has a (forever empty) entry for that depot, update_train_formation skips depots, and the first vehicle whose
   tour starts there violates "v is in the formation of n iff v's tour contains n" ([vreachable_forms_refuted], by
   the same kind of witness as InvFacts.inv_formations_false).  This is an artefact of quantifying over arbitrary
   network records, not a defect of the code: [load] only lists maintenance nodes.

   Under the hypothesis every loaded network satisfies (SwapsStmts2.maint_listed_ok: the ids in [nw_maint] denote
   maintenance nodes) the statement holds for ALL vreachable schedules, including fit_reassign with provider =
   receiver ([vreachable_forms_under_maint_listed]).

   Proof: counting invariant.  For every stored formation f of node n and every vehicle id x, the number of
   entries of x in f equals the number of occurrences of n in the tour of x (0 if x has no real tour); entries carry
   the vehicle's type; keys are non-depots.  update_train_formation is characterised by counting equations
   ([utf_spec]), each tour edit by counting equations on node lists, and the validity of real tours
   (SchedToursFacts) turns counts into NoDup / membership at the end. *)
From Coq Require Import Arith.
From RS Require Import SchedPeel Base BaseFacts Network NetSpec NetFacts Tour TourSpec TourStmts TourFacts TourValidFacts.
From RS Require Import Transition Schedule SchedInv SchedObs SchedStruct SchedCostsFacts SchedUnservedFacts
  SchedListFacts SchedToursFacts.

Local Open Scope nat_scope.

(** * counting *)
Definition nid_dec : forall a b : node_id, {a = b} + {a <> b}.
Proof. decide equality; apply Z.eq_dec. Defined.
Definition vid_dec : forall a b : vehicle_id, {a = b} + {a <> b}.
Proof. decide equality; apply Z.eq_dec. Defined.

Notation formation := (list (vehicle_id * Z)).
Definition cn (l : list node_id) (n : node_id) : nat := count_occ nid_dec l n.
Definition cv (f : formation) (x : vehicle_id) : nat := count_occ vid_dec (map fst f) x.
Definition ind (o : option vehicle_id) (x : vehicle_id) : nat :=
  match o with Some y => if vid_dec y x then 1 else 0 | None => 0 end.

Lemma cn_app l1 l2 n : cn (l1 ++ l2) n = cn l1 n + cn l2 n.
Proof. unfold cn. apply count_occ_app. Qed.
Lemma cn_cons a l n : cn (a :: l) n = (if nid_dec a n then 1 else 0) + cn l n.
Proof. unfold cn. cbn [count_occ]. destruct (nid_dec a n); reflexivity. Qed.
Lemma cn_nil n : cn [] n = 0.
Proof. reflexivity. Qed.
Lemma cn_in l n : In n l <-> 0 < cn l n.
Proof. unfold cn. rewrite (count_occ_In nid_dec). lia. Qed.
Lemma cn_notin l n : ~ In n l -> cn l n = 0.
Proof. unfold cn. intros H. apply (count_occ_not_In nid_dec). exact H. Qed.
Lemma cn_nodup l n : NoDup l -> cn l n <= 1.
Proof. unfold cn. intros H. apply (proj1 (NoDup_count_occ nid_dec l) H). Qed.

Lemma cv_app f1 f2 x : cv (f1 ++ f2) x = cv f1 x + cv f2 x.
Proof. unfold cv. rewrite map_app. apply count_occ_app. Qed.
Lemma cv_cons y t f x : cv ((y, t) :: f) x = ind (Some y) x + cv f x.
Proof. unfold cv, ind. cbn [map fst count_occ]. destruct (vid_dec y x); reflexivity. Qed.
Lemma cv_nil x : cv [] x = 0.
Proof. reflexivity. Qed.
Lemma cv_in f x : In x (map fst f) <-> 0 < cv f x.
Proof. unfold cv. rewrite (count_occ_In vid_dec). lia. Qed.

Lemma split_nth {A} (l : list A) : forall k e, nth_error l k = Some e -> l = firstn k l ++ e :: skipn (k + 1) l.
Proof.
  induction l as [|a l IH]; intros k e H; [destruct k; discriminate|].
  destruct k as [|k]; cbn in H.
  - inversion H; subst. reflexivity.
  - cbn [firstn Nat.add skipn app]. f_equal. apply IH. exact H.
Qed.

Lemma cut3 {A} (l : list A) : forall i j, i <= j -> l = firstn i l ++ firstn (j - i) (skipn i l) ++ skipn j l.
Proof.
  induction l as [|a l IH]; intros i j L.
  - rewrite !firstn_nil, !skipn_nil, firstn_nil. reflexivity.
  - destruct i as [|i].
    + cbn [firstn skipn app]. rewrite Nat.sub_0_r. symmetry. apply firstn_skipn.
    + destruct j as [|j]; [lia|]. cbn [firstn skipn app Nat.sub]. f_equal. apply IH. lia.
Qed.

Lemma cn_cut3 (l : list node_id) i j n : i <= j ->
  cn l n = cn (firstn i l) n + cn (firstn (j - i) (skipn i l)) n + cn (skipn j l) n.
Proof. intros L. rewrite (cut3 l i j L) at 1. rewrite !cn_app. lia. Qed.

(** * one formation step *)
Section Forms.
Variable nw : network.
Notation dep := (node_is_depot nw).
Notation nondepb := (fun n => negb (node_is_depot nw n)).

Definition eprov (s : schedule) (prov : option vehicle_id) : option vehicle_id :=
  match prov with Some p => if is_dummy s p then None else Some p | None => None end.
Definition erecv (s : schedule) (recv : option (vehicle_id * Z)) : option (vehicle_id * Z) :=
  match recv with Some (r, ty) => if is_dummy s r then None else Some (r, ty) | None => None end.
Definition erecv_id (s : schedule) (recv : option (vehicle_id * Z)) : option vehicle_id :=
  match erecv s recv with Some (r, _) => Some r | None => None end.

Lemma index_split (f : formation) p k :
  index_of (fun '(x, _) => vid_eqb x p) f = Some k ->
  exists ty, f = firstn k f ++ (p, ty) :: skipn (k + 1) f.
Proof.
  intros H. destruct (index_of_spec _ _ _ H) as ([x ty] & N & E). apply vid_eqb_eq in E. subst x.
  exists ty. apply split_nth. exact N.
Qed.

Lemma repl_swap (f : formation) p r rty k :
  index_of (fun '(x, _) => vid_eqb x p) f = Some k ->
  (forall x, cv (firstn k f ++ [(r, rty)] ++ skipn (k + 1) f) x + ind (Some p) x = cv f x + ind (Some r) x) /\
  (forall e, In e (firstn k f ++ [(r, rty)] ++ skipn (k + 1) f) -> In e f \/ e = (r, rty)).
Proof.
  intros H. destruct (index_split _ _ _ H) as [ty E]. split.
  - intros x. rewrite E at 3. rewrite !cv_app, !cv_cons, cv_nil. lia.
  - intros e Hin. apply in_app_or in Hin. destruct Hin as [Hin|Hin].
    + left. rewrite E. apply in_or_app. left. exact Hin.
    + apply in_app_or in Hin. destruct Hin as [[<-|[]]|Hin]; [right; reflexivity|].
      left. rewrite E. apply in_or_app. right. right. exact Hin.
Qed.

Lemma repl_drop (f : formation) p k :
  index_of (fun '(x, _) => vid_eqb x p) f = Some k ->
  (forall x, cv (firstn k f ++ skipn (k + 1) f) x + ind (Some p) x = cv f x) /\
  (forall e, In e (firstn k f ++ skipn (k + 1) f) -> In e f).
Proof.
  intros H. destruct (index_split _ _ _ H) as [ty E]. split.
  - intros x. rewrite E at 3. rewrite !cv_app, !cv_cons. lia.
  - intros e Hin. rewrite E. apply in_app_or in Hin. apply in_or_app. destruct Hin as [Hin|Hin]; [left; exact Hin|].
    right. right. exact Hin.
Qed.

Lemma repl_spec s f prov recv n f' :
  replacement_in_formation nw s f prov recv n = Ok f' ->
  (forall x, cv f' x + ind (eprov s prov) x = cv f x + ind (erecv_id s recv) x) /\
  (forall e, In e f' -> In e f \/ erecv s recv = Some e).
Proof.
  unfold replacement_in_formation, erecv_id, erecv, eprov. intros H.
  destruct recv as [[r rty]|].
  - destruct (is_dummy s r) eqn:Dr; cbn [negb] in H.
    + destruct prov as [p|].
      * destruct (is_dummy s p) eqn:Dp; cbn [negb] in H.
        -- inversion H; subst. split; [intros x; reflexivity|auto].
        -- destruct (index_of _ f) as [k|] eqn:IX; [|discriminate]. inversion H; subst.
           destruct (repl_drop _ _ _ IX) as [A B]. split; [intros x; rewrite A; cbn [ind]; lia|auto].
      * inversion H; subst. split; [intros x; reflexivity|auto].
    + destruct prov as [p|].
      * destruct (is_dummy s p) eqn:Dp; cbn [negb] in H.
        -- destruct (_ && _) in H; [discriminate|]. destruct (_ && _) in H; [discriminate|].
           inversion H; subst. split.
           ++ intros x. rewrite cv_app, cv_cons, cv_nil. cbn [ind]. lia.
           ++ intros e Hin. apply in_app_or in Hin. destruct Hin as [Hin|[<-|[]]]; auto.
        -- destruct (index_of _ f) as [k|] eqn:IX; [|discriminate]. inversion H; subst.
           destruct (repl_swap _ _ r rty _ IX) as [A B]. split; [exact A|].
           intros e Hin. destruct (B e Hin) as [G|G]; [auto|right; congruence].
      * destruct (_ && _) in H; [discriminate|]. destruct (_ && _) in H; [discriminate|].
        inversion H; subst. split.
        -- intros x. rewrite cv_app, cv_cons, cv_nil. cbn [ind]. lia.
        -- intros e Hin. apply in_app_or in Hin. destruct Hin as [Hin|[<-|[]]]; auto.
  - destruct prov as [p|].
    + destruct (is_dummy s p) eqn:Dp; cbn [negb] in H.
      * inversion H; subst. split; [intros x; reflexivity|auto].
      * destruct (index_of _ f) as [k|] eqn:IX; [|discriminate]. inversion H; subst.
        destruct (repl_drop _ _ _ IX) as [A B]. split; [intros x; rewrite A; cbn [ind]; lia|auto].
    + inversion H; subst. split; [intros x; reflexivity|auto].
Qed.

(** * update_train_formation *)
Definition cnd (n : node_id) (l : list node_id) : nat := cn (filter nondepb l) n.

Lemma cnd_nondep n l : dep n = false -> cnd n l = cn l n.
Proof.
  intros D. unfold cnd. induction l as [|a l IH]; [reflexivity|]. cbn [filter].
  destruct (dep a) eqn:Da; cbn [negb].
  - rewrite cn_cons. destruct (nid_dec a n) as [->|_]; [congruence|]. exact IH.
  - rewrite !cn_cons, IH. reflexivity.
Qed.

Lemma utf_spec s prov recv moved : forall fm uns fm' uns',
  update_train_formation nw s fm uns prov recv moved = Ok (fm', uns') ->
  forall n f', nget n fm' = Some f' ->
  exists f, nget n fm = Some f /\
    (forall x, cv f' x + cnd n moved * ind (eprov s prov) x = cv f x + cnd n moved * ind (erecv_id s recv) x) /\
    (forall e, In e f' -> In e f \/ erecv s recv = Some e).
Proof.
  unfold update_train_formation.
  induction moved as [|m l IH]; intros fm uns fm' uns' H n f' G.
  - cbn [fold_left] in H. inversion H; subst. exists f'. split; [exact G|]. split; [intros x; reflexivity|auto].
  - cbn [fold_left] in H. destruct uns as [ua ub]. cbn [bind] in H.
    match type of H with fold_left ?G _ _ = _ =>
      assert (Hno : forall r, is_ok r = false -> fold_left G l r = r)
        by (apply fold_nonok; intros [] ? Hr; try discriminate Hr; reflexivity) end.
    destruct (is_depot (nd nw m)) eqn:Edep.
    + destruct (IH _ _ _ _ H n f' G) as (f & Gf & A & B). exists f. split; [exact Gf|]. split; [|exact B].
      unfold cnd in *. cbn [filter]. unfold node_is_depot. rewrite Edep. cbn [negb]. exact A.
    + destruct (nget m fm) as [f1|] eqn:En; cbn [unwrap_opt bind] in H.
      2:{ rewrite Hno in H by reflexivity. discriminate. }
      destruct (replacement_in_formation nw s f1 prov recv m) as [f1'| | |] eqn:Er; cbn [bind] in H;
        try (rewrite Hno in H by reflexivity; discriminate).
      destruct (IH _ _ _ _ H n f' G) as (g & Gg & A & B). clear IH H Hno.
      destruct (repl_spec _ _ _ _ _ _ Er) as [A1 B1].
      rewrite (nset_key _ _ _ _ En), nget_nrepl in Gg.
      assert (K : cnd n (m :: l) = (if nid_dec m n then 1 else 0) + cnd n l).
      { unfold cnd. cbn [filter]. unfold node_is_depot. rewrite Edep. cbn [negb]. apply cn_cons. }
      destruct (nid_eqb n m) eqn:Enm.
      * apply nid_eqb_eq in Enm. subst m. rewrite En in Gg. inversion Gg; subst g. clear Gg.
        exists f1. split; [exact En|]. split.
        -- intros x. rewrite K. destruct (nid_dec n n) as [_|C]; [|congruence].
           specialize (A x). specialize (A1 x). rewrite !Nat.mul_add_distr_r, !Nat.mul_1_l. lia.
        -- intros e Hin. destruct (B e Hin) as [Q|Q]; [|auto]. apply B1. exact Q.
      * exists g. split; [exact Gg|]. split; [|exact B].
        intros x. rewrite K. destruct (nid_dec m n) as [->|_]; [rewrite nid_eqb_refl in Enm; discriminate|].
        cbn [Nat.add]. apply A.
Qed.
End Forms.

(** * counting equations of the tour edits *)
Section TourCounts.
Variable nw : network.
Notation dep := (node_is_depot nw).
Notation d0 := (SD 0).

Definition onodes (o : option tour) : list node_id := match o with Some t => t_nodes t | None => [] end.
Definition ocn (o : option (list node_id)) (n : node_id) : nat := match o with Some l => cn l n | None => 0 end.

Lemma all_dep_cn l n : forallb dep l = true -> dep n = false -> cn l n = 0.
Proof.
  intros F D. apply cn_notin. intros Hin. rewrite forallb_forall in F. apply F in Hin. congruence.
Qed.

Lemma firstn_le1 {A} (l : list A) k z d : k <= 1 -> In z (firstn k l) -> z = hd d l.
Proof.
  intros L H. destruct k as [|[|k]]; [destruct H| |lia]. destruct l as [|a l]; [destruct H|].
  cbn in H. destruct H as [<-|[]]. reflexivity.
Qed.

Lemma skipn_last {A} (l : list A) d : forall k z, length l - 1 <= k -> In z (skipn k l) -> z = last l d.
Proof.
  induction l as [|a r IH]; intros k z L H; [rewrite skipn_nil in H; destruct H|].
  destruct k as [|k].
  - cbn [length] in L. destruct r as [|b r]; [|cbn [length] in L; lia]. cbn in H. destruct H as [<-|[]]. reflexivity.
  - cbn [skipn] in H. destruct r as [|b r]; [rewrite skipn_nil in H; destruct H|].
    change (last (a :: b :: r) d) with (last (b :: r) d). apply (IH k); [cbn [length] in *; lia|exact H].
Qed.

Lemma RV_ends_dep l z : RV nw l -> (z = hd d0 l \/ z = last l d0) -> dep z = true.
Proof.
  intros (_ & _ & Hs & He & _) [-> | ->].
  - change (dep (hd d0 l)) with (is_depot (nd nw (hd d0 l))). unfold is_depot. unfold sdep in Hs. rewrite Hs. reflexivity.
  - change (dep (last l d0)) with (is_depot (nd nw (last l d0))). unfold is_depot. unfold edep in He. rewrite He.
    apply orb_true_r.
Qed.

(* what remove takes out plus what it leaves is the old tour, as far as non-depots are concerned *)
Lemma remove_counts t seg shr rp : TV nw t -> Tour.remove nw t seg = Ok (shr, rp) ->
  forall n, dep n = false -> cn (onodes shr) n + cn rp n = cn (t_nodes t) n.
Proof.
  intros V H n D. destruct shr as [t'|].
  - destruct (remove_valid nw _ _ _ _ V H) as (i & j & _ & _ & L & _ & -> & _ & _ & _ & E).
    cbn [onodes]. rewrite E, cn_app. rewrite (cn_cut3 (t_nodes t) i (j + 1) n) by lia. lia.
  - cbn [onodes]. rewrite cn_nil. cbn [Nat.add].
    destruct seg as [a b]. unfold Tour.remove in H.
    destruct (remove_nodes nw t (a, b)) as [[[[sp ep] tn] rm]| | |] eqn:RN; cbn [bind] in H; try discriminate H.
    mon H. mon H. mon H. mon H.
    destruct (path_new_trusted nw rm) as [rp'|] eqn:PT; [|discriminate H].
    apply path_new_trusted_some in PT. destruct PT as [-> FD].
    pose proof (TV_nonempty _ _ V) as NE.
    apply (remove_nodes_facts nw t a b sp ep tn rm (TV_len3 nw t V) NE) in RN.
    destruct RN as (P1 & P2 & RR & -> & ->). set (l := t_nodes t) in *.
    apply ref_removable_facts in RR. destruct RR as (Lij & G & RD).
    pose proof (index_of_lt _ _ _ P2) as Lj. fold l in Lj.
    destruct (Nat.eqb (length (firstn sp l ++ skipn (ep + 1) l)) 0 ||
              negb (t_dummy t) && Nat.leb (length (firstn sp l ++ skipn (ep + 1) l)) 2) eqn:K; [|discriminate H].
    inversion H; subst rp. clear H.
    rewrite (cn_cut3 l sp (ep + 1) n) by lia.
    assert (Z0 : cn (firstn sp l) n + cn (skipn (ep + 1) l) n = 0); [|lia].
    rewrite <- cn_app. apply cn_notin. intros Hin.
    apply orb_true_iff in K. destruct K as [K|K].
    + apply Nat.eqb_eq in K. apply length_zero_iff_nil in K. rewrite K in Hin. destruct Hin.
    + apply andb_true_iff in K. destruct K as [K1 K2]. apply negb_true_iff in K1. apply Nat.leb_le in K2.
      destruct (RD K1) as [R1 R2]. rewrite app_length, firstn_length, skipn_length in K2. fold l in K2.
      unfold TV in V. rewrite K1 in V. fold l in V.
      assert (DZ : dep n = true); [|congruence].
      apply (RV_ends_dep l n V). apply in_app_or in Hin. destruct Hin as [Hin|Hin].
      * left. apply (firstn_le1 l sp); [lia|exact Hin].
      * right. apply (skipn_last l d0 (ep + 1)); [lia|exact Hin].
Qed.

(* inserting into a real tour *)
Lemma insert_real_nodes t p t' o : t_dummy t = false -> insert_path nw t p = Ok (t', o) ->
  exists sp ep, sp <= ep /\ ep <= length (t_nodes t) /\
    get_insert_positions_l nw (t_nodes t) (hd d0 p) (last p (hd d0 p)) = Ok (sp, ep) /\
    t_nodes t' = firstn sp (t_nodes t) ++ p ++ skipn ep (t_nodes t) /\
    o = path_new_trusted nw (firstn (ep - sp) (skipn sp (t_nodes t))).
Proof.
  intros Dm H. destruct (insert_path_nodes _ _ _ _ _ H) as (sp & ep & removed & p1 & IN & -> & _).
  rewrite Dm in IN. unfold insert_nodes in IN. cbn [effective_path bind] in IN.
  destruct p as [|f r]; [discriminate|].
  destruct (get_insert_positions_l nw (t_nodes t) f (last (f :: r) f)) as [[i j]| | |] eqn:G; cbn [bind] in IN;
    try discriminate IN.
  destruct (slice_res (t_nodes t) i j) as [sl| | |] eqn:SL; cbn [bind] in IN; try discriminate IN.
  inversion IN; subst. clear IN.
  unfold slice_res in SL.
  destruct (Nat.leb sp ep && Nat.leb ep (length (t_nodes t))) eqn:B; [|discriminate].
  apply andb_true_iff in B. destruct B as [B1 B2]. apply Nat.leb_le in B1, B2. inversion SL; subst removed.
  exists sp, ep. cbn [hd]. repeat split; auto.
Qed.

Lemma insert_real_counts t p t' o : t_dummy t = false -> insert_path nw t p = Ok (t', o) ->
  forall n, dep n = false -> cn (t_nodes t') n + ocn o n = cn (t_nodes t) n + cn p n.
Proof.
  intros Dm H n D. destruct (insert_real_nodes _ _ _ _ Dm H) as (sp & ep & L1 & L2 & _ & E & ->).
  rewrite E, !cn_app. rewrite (cn_cut3 (t_nodes t) sp ep n) by lia.
  assert (Q : ocn (path_new_trusted nw (firstn (ep - sp) (skipn sp (t_nodes t)))) n
              = cn (firstn (ep - sp) (skipn sp (t_nodes t))) n); [|lia].
  unfold path_new_trusted. destruct (forallb dep _) eqn:F; cbn [ocn]; [|reflexivity].
  symmetry. apply all_dep_cn; assumption.
Qed.

(* when the receiver reports no conflict for the segment, inserting a path with these ends drops nothing *)
Lemma conflict_insert t a b c p t' o : t_dummy t = false ->
  conflict nw t (a, b) = Ok c -> insert_path nw t p = Ok (t', o) -> hd d0 p = a -> last p (hd d0 p) = b -> o = c.
Proof.
  intros Dm C H Ha Hb. destruct (insert_real_nodes _ _ _ _ Dm H) as (sp & ep & L1 & L2 & G & _ & ->).
  unfold conflict in C. cbn [fst snd] in C. rewrite Hb, Ha in G. rewrite G in C. cbn [bind] in C.
  unfold slice_res in C. rewrite (proj2 (Nat.leb_le _ _) L1), (proj2 (Nat.leb_le _ _) L2) in C. cbn [andb bind] in C.
  unfold slice in C. inversion C. reflexivity.
Qed.
End TourCounts.

(** * the invariant *)
Section Sched.
Variable nw : network.
Hypothesis WF : net_wf_b nw = true.
Hypothesis DP : durations_pos_b nw = true.
Notation dep := (node_is_depot nw).
Notation d0 := (SD 0).

Definition occ (tours : list (vehicle_id * tour)) (x : vehicle_id) (n : node_id) : nat :=
  match vget x tours with Some t => cn (t_nodes t) n | None => 0 end.

Definition FC (vehicles : list (vehicle_id * Z)) (tours : list (vehicle_id * tour))
  (forms : list (node_id * formation)) : Prop :=
  forall n f, nget n forms = Some f ->
    dep n = false /\ (forall v ty, In (v, ty) f -> vget v vehicles = Some ty) /\ (forall x, cv f x = occ tours x n).
Definition FCs (s : schedule) : Prop := FC (s_vehicles s) (s_tours s) (s_forms s).

Lemma occ_vset v t tours x n : occ (vset v t tours) x n = if vid_dec v x then cn (t_nodes t) n else occ tours x n.
Proof.
  unfold occ. rewrite vget_vset. destruct (vid_dec v x) as [->|N].
  - rewrite vid_eqb_refl. reflexivity.
  - destruct (vid_eqb x v) eqn:E; [apply vid_eqb_eq in E; congruence|reflexivity].
Qed.

Lemma occ_vdel v tours x n : occ (vdel v tours) x n = if vid_dec v x then 0 else occ tours x n.
Proof.
  unfold occ. rewrite vget_vdel. destruct (vid_dec v x) as [->|N].
  - rewrite vid_eqb_refl. reflexivity.
  - destruct (vid_eqb x v) eqn:E; [apply vid_eqb_eq in E; congruence|reflexivity].
Qed.

Lemma occ_none tours x n : vget x tours = None -> occ tours x n = 0.
Proof. unfold occ. intros ->. reflexivity. Qed.
Lemma occ_some tours x t n : vget x tours = Some t -> occ tours x n = cn (t_nodes t) n.
Proof. unfold occ. intros ->. reflexivity. Qed.

(* one update_train_formation against a change of the stored vehicles and tours *)
Lemma FC_step s veh tours fm uns prov recv moved fm' uns' veh' tours' :
  update_train_formation nw s fm uns prov recv moved = Ok (fm', uns') ->
  FC veh tours fm ->
  (forall v ty, vget v veh = Some ty -> vget v veh' = Some ty \/ vget v tours' = None) ->
  (forall v ty, erecv s recv = Some (v, ty) -> vget v veh' = Some ty) ->
  (forall n x, dep n = false ->
     occ tours' x n + cn moved n * ind (eprov s prov) x = occ tours x n + cn moved n * ind (erecv_id s recv) x) ->
  FC veh' tours' fm'.
Proof.
  intros U F HT HR HC n f' G.
  destruct (utf_spec nw s prov recv moved _ _ _ _ U n f' G) as (f & Gf & A & B).
  destruct (F n f Gf) as (D & T & C).
  assert (CNT : forall x, cv f' x = occ tours' x n).
  { intros x. specialize (A x). specialize (HC n x D). rewrite (cnd_nondep nw n moved D) in A. rewrite (C x) in A. lia. }
  split; [exact D|]. split; [|exact CNT].
  intros v ty Hin. destruct (B _ Hin) as [Q|Q].
  - destruct (HT v ty (T v ty Q)) as [K|K]; [exact K|]. exfalso.
    assert (P : 0 < cv f' v) by (apply cv_in; apply (in_map fst) in Hin; exact Hin).
    rewrite CNT, (occ_none _ _ _ K) in P. lia.
  - apply HR. exact Q.
Qed.

Lemma FC_ext veh tours tours' fm :
  FC veh tours fm -> (forall n x, dep n = false -> occ tours' x n = occ tours x n) -> FC veh tours' fm.
Proof.
  intros F H n f G. destruct (F n f G) as (D & T & C). split; [exact D|]. split; [exact T|].
  intros x. rewrite C. symmetry. apply H. exact D.
Qed.

Lemma vehicle_not_dummy s v ty : Inv nw s -> vget v (s_vehicles s) = Some ty -> is_dummy s v = false.
Proof.
  intros I G. destruct (is_dummy s v) eqn:D; [|reflexivity].
  apply (is_dummy_not_real s v (inv_dummy nw s I)) in D. rewrite (inv_real nw s I v ty G) in D. discriminate.
Qed.

Lemma same_none s v : LInv nw false s -> vget v (s_tours s) = None -> vget v (s_vehicles s) = None.
Proof. intros [VP _] H. apply (v_same _ _ _ _ VP). exact H. Qed.
Lemma same_some s v ty : LInv nw false s -> vget v (s_vehicles s) = Some ty -> exists t, vget v (s_tours s) = Some t.
Proof.
  intros [VP _] H. destruct (vget v (s_tours s)) as [t|] eqn:G; [eauto|].
  apply (v_same _ _ _ _ VP) in G. congruence.
Qed.

Lemma ind_some_eq x : ind (Some x) x = 1.
Proof. unfold ind. destruct (vid_dec x x); congruence. Qed.
Lemma ind_some_neq y x : y <> x -> ind (Some y) x = 0.
Proof. unfold ind. destruct (vid_dec y x); congruence. Qed.

(** * spawn *)
Lemma spawn_FC s ty path s' v : Inv nw s -> LInv nw false s -> FCs s ->
  spawn_vehicle_for_path nw s ty path = Ok (s', v) -> FCs s'.
Proof.
  intros I L F H. unfold spawn_vehicle_for_path in H.
  destruct (negb (forallb _ path)); [discriminate|].
  destruct (add_suitable_depots nw s ty path) as [nodes| | |]; cbn [bind] in H; try discriminate H.
  destruct (tour_new nw nodes) as [t| | |]; cbn [bind] in H; try discriminate H.
  destruct (ids_insert ty (Veh (s_counter s)) (s_ids s)) as [ids| | |]; cbn [bind] in H; try discriminate H.
  destruct (update_train_formation nw s (s_forms s) (s_unserved s) None (Some (Veh (s_counter s), ty)) (t_nodes t))
    as [[forms uns]| | |] eqn:U; cbn [bind] in H; try discriminate H.
  mon H. monp H. inversion H; subst; clear H.
  unfold FCs. cbn [with_fields s_vehicles s_tours s_forms].
  set (vn := Veh (s_counter s)) in *.
  assert (FT : vget vn (s_tours s) = None) by (apply KeysLt_fresh; apply (inv_keys nw s I)).
  assert (FV : vget vn (s_vehicles s) = None) by (apply same_none; assumption).
  assert (ND : is_dummy s vn = false).
  { destruct (is_dummy s vn) eqn:D; [|reflexivity]. apply (is_dummy_not_real s vn (inv_dummy nw s I)) in D. discriminate. }
  eapply FC_step; [exact U|exact F| | |].
  - intros x tx G. left. rewrite vget_vset. destruct (vid_eqb x vn) eqn:Ex; [|exact G].
    apply vid_eqb_eq in Ex. subst x. congruence.
  - intros x tx. unfold erecv. rewrite ND. intros Q. inversion Q; subst. rewrite vget_vset, vid_eqb_refl. reflexivity.
  - intros n x D. unfold erecv_id, erecv, eprov. rewrite ND. cbn [ind]. rewrite occ_vset.
    unfold ind. destruct (vid_dec vn x) as [<-|N]; [|lia]. rewrite (occ_none _ _ _ FT). lia.
Qed.

(** * delete (replace_vehicle_by_dummy) *)
Lemma delete_FC s v s' : Inv nw s -> LInv nw false s -> FCs s -> replace_vehicle_by_dummy nw s v = Ok s' -> FCs s'.
Proof.
  intros I L F H. unfold replace_vehicle_by_dummy in H.
  destruct (negb (is_vehicle s v)) eqn:IV; [discriminate|].
  destruct (vehicle_type_of s v) as [ty| | |] eqn:VT; cbn [bind] in H; try discriminate H.
  apply vehicle_type_of_ok in VT.
  destruct (ids_remove ty v (s_ids s)) as [ids| | |]; cbn [bind] in H; try discriminate H.
  destruct (vget v (s_tours s)) as [t|] eqn:GT; cbn [unwrap_opt bind] in H; [|discriminate H].
  destruct (update_train_formation nw s (s_forms s) (s_unserved s) (Some v) None (t_nodes t))
    as [[forms uns]| | |] eqn:U; cbn [bind] in H; try discriminate H.
  mon H. mon H. mon H.
  pose proof (vehicle_not_dummy s v ty I VT) as ND.
  assert (G : FC (vdel v (s_vehicles s)) (vdel v (s_tours s)) forms);
    [|match type of H with context [tour_new_dummy nw ?sp] => destruct (tour_new_dummy nw sp) end;
      cbn [add_dummy_tour] in H; monp H; inversion H; subst; clear H;
      unfold FCs; cbn [with_fields s_vehicles s_tours s_forms]; exact G].
  clear H.
  eapply FC_step; [exact U|exact F| | |].
  - intros x tx G. rewrite !vget_vdel. destruct (vid_eqb x v); [right; reflexivity|left; exact G].
  - intros x tx Q. discriminate Q.
  - intros n x D. unfold erecv_id, erecv, eprov. rewrite ND. cbn [ind]. rewrite occ_vdel.
    unfold ind. destruct (vid_dec v x) as [<-|N]; [|lia]. rewrite (occ_some _ _ _ _ GT). lia.
Qed.

Lemma real_tour_flag s v t : TIs nw s -> vget v (s_tours s) = Some t -> t_dummy t = false /\ TV nw t.
Proof.
  intros [TR _] G. destruct (TR v t G) as (ty & _ & R). split; [apply R|]. eapply RT_TV; eauto.
Qed.

(** * add_path_to_vehicle_tour *)
Lemma add_path_FC s v path s' c : Inv nw s -> LInv nw false s -> TIs nw s -> FCs s ->
  add_path_to_vehicle_tour nw s v path = Ok (s', c) -> FCs s'.
Proof.
  intros I L T F H. unfold add_path_to_vehicle_tour in H. destruct path as [|pf path0]; [discriminate|].
  set (path := pf :: path0) in *.
  match type of H with (if ?b then _ else _) = _ => destruct b; [discriminate|] end.
  mon H. clear E.
  destruct (vget v (s_vehicles s)) as [ty|] eqn:GV; cbn [unwrap_opt bind] in H; [|discriminate H].
  destruct (update_train_formation nw s (s_forms s) (s_unserved s) None (Some (v, ty)) path)
    as [[forms1 uns1]| | |] eqn:U1; cbn [bind] in H; try discriminate H.
  destruct (vget v (s_tours s)) as [t|] eqn:GT; cbn [unwrap_opt bind] in H; [|discriminate H].
  destruct (insert_path nw t path) as [[nt removed]| | |] eqn:IP; cbn [bind] in H; try discriminate H.
  monp H. mon H. mon H. monp H. inversion H; subst s' c; clear H.
  unfold FCs. cbn [with_fields s_vehicles s_tours s_forms].
  pose proof (vehicle_not_dummy s v ty I GV) as ND.
  destruct (real_tour_flag s v t T GT) as [Dm _].
  pose proof (insert_real_counts nw t path nt removed Dm IP) as CNT.
  set (fk := new_computing nw (t_nodes t ++ path) false).
  assert (F1 : FC (s_vehicles s) (vset v fk (s_tours s)) forms1).
  { eapply FC_step; [exact U1|exact F| | |].
    - intros x tx G. left. exact G.
    - intros x tx. unfold erecv. rewrite ND. intros Q. inversion Q; subst. exact GV.
    - intros n x D. unfold erecv_id, erecv, eprov. rewrite ND. cbn [ind]. rewrite occ_vset.
      unfold ind. destruct (vid_dec v x) as [<-|N]; [|lia]. rewrite (occ_some _ _ _ _ GT).
      change (t_nodes fk) with (t_nodes t ++ path). rewrite cn_app. lia. }
  destruct removed as [rp|].
  - eapply FC_step; [exact E|exact F1| | |].
    + intros x tx G. left. exact G.
    + intros x tx Q. discriminate Q.
    + intros n x D. unfold erecv_id, erecv, eprov. rewrite ND. cbn [ind]. rewrite !occ_vset.
      unfold ind. destruct (vid_dec v x) as [<-|N]; [|lia].
      change (t_nodes fk) with (t_nodes t ++ path). rewrite cn_app. specialize (CNT n D). cbn [ocn] in CNT. lia.
  - inversion E; subst. eapply FC_ext; [exact F1|].
    intros n x D. rewrite !occ_vset. destruct (vid_dec v x) as [<-|N]; [|reflexivity].
    change (t_nodes fk) with (t_nodes t ++ path). rewrite cn_app. specialize (CNT n D). cbn [ocn] in CNT. lia.
Qed.

(** * remove_segment *)
Lemma remove_segment_FC s seg v s' : Inv nw s -> LInv nw false s -> TIs nw s -> FCs s ->
  remove_segment nw s seg v = Ok s' -> FCs s'.
Proof.
  intros I L T F H. unfold remove_segment in H.
  destruct (negb (is_vehicle s v)) eqn:IV; [discriminate|]. apply negb_false_iff in IV.
  destruct (match tour_of s v with Ok t => Ok t | _ => Panic end) as [t| | |] eqn:TO; cbn [bind] in H; try discriminate H.
  apply panic_ok in TO.
  destruct (Tour.remove nw t seg) as [[shr removed]| | |] eqn:RM; cbn [bind] in H; try discriminate H.
  destruct shr as [nt|]; [|eapply delete_FC; eauto].
  destruct (update_train_formation nw s (s_forms s) (s_unserved s) (Some v) None removed)
    as [[forms uns]| | |] eqn:U; cbn [bind] in H; try discriminate H.
  unfold is_vehicle in IV. destruct (vget v (s_vehicles s)) as [ty|] eqn:GV; [|discriminate IV].
  pose proof (vehicle_not_dummy s v ty I GV) as ND.
  destruct (tour_of_T nw s v t I T TO) as (V & _ & F2). destruct (F2 ND) as (GT & _).
  unfold update_tour_and_costs in H. rewrite ND, GT in H. cbn [unwrap_opt bind] in H.
  destruct (z_sub_cost (s_costs s + t_costs nt) (t_costs t)) as [cc| | |]; cbn [bind] in H; try discriminate H.
  mon H.
  assert (G : FC (s_vehicles s) (vset v nt (s_tours s)) forms);
    [|match type of H with context [tour_new_dummy nw ?sp] => destruct (tour_new_dummy nw sp) end;
      cbn [add_dummy_tour] in H; monp H; inversion H; subst; clear H;
      unfold FCs; cbn [with_fields s_vehicles s_tours s_forms]; exact G].
  clear H.
  pose proof (remove_counts nw t seg (Some nt) removed V RM) as CNT.
  eapply FC_step; [exact U|exact F| | |].
  - intros x tx G. left. exact G.
  - intros x tx Q. discriminate Q.
  - intros n x D. unfold erecv_id, erecv, eprov. rewrite ND. cbn [ind]. rewrite occ_vset.
    unfold ind. destruct (vid_dec v x) as [<-|N]; [|lia]. rewrite (occ_some _ _ _ _ GT).
    specialize (CNT n D). cbn [onodes] in CNT. lia.
Qed.

(** * spawn_to_replace_dummy *)
Lemma delete_dummy_FC s d s' : FCs s -> delete_dummy s d = Ok s' -> FCs s'.
Proof.
  intros F H. unfold delete_dummy in H. destruct (negb (is_dummy s d)); [discriminate|].
  mon H. inversion H; subst. exact F.
Qed.

Lemma spawn_dummy_FC s d ty s' v : Inv nw s -> LInv nw false s -> FCs s ->
  spawn_to_replace_dummy nw s d ty = Ok (s', v) -> FCs s'.
Proof.
  intros I L F H. unfold spawn_to_replace_dummy in H. mon H. mon H.
  eapply spawn_FC; [| | |exact H].
  - eapply delete_dummy_ok; eauto.
  - eapply delete_dummy_L; eauto.
  - eapply delete_dummy_FC; eauto.
Qed.

(** * the depot reassignments: only depots change *)
Lemma edep_dep z : edep nw z = true -> dep z = true.
Proof. unfold edep, node_is_depot, is_depot. intros ->. apply orb_true_r. Qed.
Lemma sdep_dep z : sdep nw z = true -> dep z = true.
Proof. unfold sdep, node_is_depot, is_depot. intros ->. reflexivity. Qed.

Lemma cn_one_dep z n : dep z = true -> dep n = false -> cn [z] n = 0.
Proof. intros A B. apply cn_notin. intros [->|[]]. congruence. Qed.

Lemma replace_end_counts t ed nt : RV nw (t_nodes t) -> replace_end_depot nw t ed = Ok nt ->
  forall n, dep n = false -> cn (t_nodes nt) n = cn (t_nodes t) n.
Proof.
  intros R H n D. pose proof R as (NE & _ & _ & He & _).
  unfold replace_end_depot in H. destruct (t_dummy t); [discriminate|].
  destruct (negb (is_end_depot (nd nw ed))) eqn:ED; [discriminate|]. apply negb_false_iff in ED.
  destruct (Nat.ltb (length (t_nodes t)) 2); [discriminate|]. cbv zeta in H.
  mon H. mon H. inversion H; subst; clear H. cbn [t_nodes].
  rewrite (app_removelast_last d0 NE) at 2. rewrite !cn_app.
  rewrite (cn_one_dep ed n), (cn_one_dep (last (t_nodes t) d0) n); auto using edep_dep.
Qed.

Lemma replace_start_counts t sd nt : RV nw (t_nodes t) -> replace_start_depot nw t sd = Ok nt ->
  forall n, dep n = false -> cn (t_nodes nt) n = cn (t_nodes t) n.
Proof.
  intros R H n D. pose proof R as (NE & _ & Hs & _ & _).
  unfold replace_start_depot in H. destruct (t_dummy t); [discriminate|].
  destruct (negb (is_start_depot (nd nw sd))) eqn:SD; [discriminate|]. apply negb_false_iff in SD.
  destruct (t_nodes t) as [|old [|fnd rest]] eqn:EL; try discriminate H.
  mon H. mon H. inversion H; subst; clear H. cbn [t_nodes hd] in *.
  change (sd :: fnd :: rest) with ([sd] ++ fnd :: rest). change (old :: fnd :: rest) with ([old] ++ fnd :: rest).
  rewrite !cn_app. rewrite (cn_one_dep sd n), (cn_one_dep old n); auto using sdep_dep.
Qed.

Lemma improve_tour_counts t usage ty nt : RV nw (t_nodes t) -> improve_depots_of_tour nw usage t ty = Ok nt ->
  forall n, dep n = false -> cn (t_nodes nt) n = cn (t_nodes t) n.
Proof.
  intros R H n D. unfold improve_depots_of_tour in H.
  mon H. mon H. mon H.
  destruct (if negb (nid_eqb a0 a1) then match replace_start_depot nw t a0 with Ok x => Ok x | _ => Panic end else Ok t)
    as [t1| | |] eqn:E2; cbn [bind] in H; try discriminate H.
  assert (R1 : RV nw (t_nodes t1) /\ cn (t_nodes t1) n = cn (t_nodes t) n).
  { destruct (negb (nid_eqb a0 a1)); [|inversion E2; subst; auto].
    apply panic_ok in E2. split; [apply (replace_start_depot_valid nw t a0 t1 R E2)|].
    apply (replace_start_counts t a0 t1 R E2 n D). }
  destruct R1 as [R1 C1].
  mon H. mon H. mon H.
  destruct (negb (nid_eqb a3 a4)); [|inversion H; subst; exact C1].
  apply panic_ok in H. rewrite (replace_end_counts t1 a3 nt R1 H n D). exact C1.
Qed.

Lemma tour_of_nondummy s v t : Inv nw s -> TIs nw s -> tour_of s v = Ok t -> t_dummy t = false ->
  vget v (s_tours s) = Some t /\ RV nw (t_nodes t).
Proof.
  intros I T TO Dm. destruct (tour_of_T nw s v t I T TO) as (V & F1 & F2).
  destruct (is_dummy s v).
  - destruct (F1 eq_refl) as [Q _]. congruence.
  - destruct (F2 eq_refl) as [G _]. split; [exact G|]. apply TV_RV; assumption.
Qed.

Lemma replace_end_nondummy t ed nt : replace_end_depot nw t ed = Ok nt -> t_dummy t = false.
Proof. unfold replace_end_depot. destruct (t_dummy t); [discriminate|reflexivity]. Qed.

Ltac unpanic := repeat match goal with
  | H : match ?r with Ok _ => _ | Err => Panic | Panic => Panic | OutOfFuel => Panic end = Ok _ |- _ => apply panic_ok in H
  end.
Ltac strict_tac' :=
  let r := fresh "r" in let v := fresh "v" in let x := fresh "x" in let H := fresh "H" in
  intros r v x H; destruct r; cbn [bind] in H; try discriminate H; eauto.

Definition Qo {U : Type} (s : schedule) (x : list (vehicle_id * tour) * U * Z) : Prop :=
  forall n y, dep n = false -> occ (fst (fst x)) y n = occ (s_tours s) y n.

Lemma Qo_set {U} s tours (u u' : U) c c' v t nt :
  Qo s (tours, u, c) -> vget v (s_tours s) = Some t ->
  (forall n, dep n = false -> cn (t_nodes nt) n = cn (t_nodes t) n) ->
  Qo s (vset v nt tours, u', c').
Proof.
  unfold Qo. cbn [fst]. intros H G C n y D. rewrite occ_vset. destruct (vid_dec v y) as [<-|N]; [|auto].
  rewrite (occ_some _ _ _ _ G). auto.
Qed.

Lemma FC_tours_only s tours' : FCs s ->
  (forall n y, dep n = false -> occ tours' y n = occ (s_tours s) y n) -> FC (s_vehicles s) tours' (s_forms s).
Proof. intros F H. eapply FC_ext; eauto. Qed.

Lemma greedy_FC s s' : Inv nw s -> TIs nw s -> FCs s -> reassign_end_depots_greedily nw s = Ok s' -> FCs s'.
Proof.
  intros I T F H. unfold reassign_end_depots_greedily in H.
  monp H. monp H. inversion H; subst; clear H.
  unfold FCs. cbn [with_fields s_vehicles s_tours s_forms]. apply FC_tours_only; [exact F|].
  eapply (fold_res_inv _ (Qo s)) in E.
  - exact E.
  - strict_tac'.
  - intros [[tours u] costs] v x HQ H. cbn [bind] in H.
    mon H. mon H. mon H. mon H. mon H. mon H. inversion H; subst; clear H.
    unpanic.
    match goal with R : replace_end_depot nw ?t ?e = Ok ?nt, TO : tour_of s v = Ok ?t |- _ =>
      destruct (tour_of_nondummy s v t I T TO (replace_end_nondummy _ _ _ R)) as [G RVt];
      eapply Qo_set; [exact HQ|exact G|exact (replace_end_counts t e nt RVt R)] end.
  - intros n y D. reflexivity.
Qed.

Lemma consistent_FC s s' : Inv nw s -> TIs nw s -> FCs s -> reassign_end_depots_consistent nw s = Ok s' -> FCs s'.
Proof.
  intros I T F H. unfold reassign_end_depots_consistent in H.
  monp H. monp H. inversion H; subst; clear H.
  unfold FCs. cbn [with_fields s_vehicles s_tours s_forms]. apply FC_tours_only; [exact F|].
  eapply (fold_res_inv _ (Qo s)) in E.
  - exact E.
  - strict_tac'.
  - intros [[tours u] costs] v x HQ H. cbn [bind] in H.
    mon H. mon H. mon H. mon H. mon H. mon H. mon H. mon H. mon H. inversion H; subst; clear H.
    unpanic.
    match goal with R : replace_end_depot nw ?t ?e = Ok ?nt, TO : tour_of s v = Ok ?t |- _ =>
      destruct (tour_of_nondummy s v t I T TO (replace_end_nondummy _ _ _ R)) as [G RVt];
      eapply Qo_set; [exact HQ|exact G|exact (replace_end_counts t e nt RVt R)] end.
  - intros n y D. reflexivity.
Qed.

Lemma improve_FC s vs s' : Inv nw s -> TIs nw s -> FCs s -> improve_depots nw s vs = Ok s' -> FCs s'.
Proof.
  intros I T F H. unfold improve_depots in H. cbv zeta in H.
  mon H. monp H. monp H. inversion H; subst; clear H.
  unfold FCs. cbn [with_fields s_vehicles s_tours s_forms]. apply FC_tours_only; [exact F|].
  eapply (fold_res_inv _ (Qo s)) in E0.
  - exact E0.
  - strict_tac'.
  - intros [[tours u] costs] v x HQ H. cbn [bind] in H.
    mon H. mon H. mon H. mon H. inversion H; subst; clear H.
    unpanic.
    match goal with VT : vehicle_type_of s v = Ok ?ty, TO : tour_of s v = Ok ?t,
                    R : improve_depots_of_tour nw _ ?t _ = Ok ?nt |- _ =>
      apply vehicle_type_of_ok in VT;
      pose proof (real_tour_of nw s v ty t I T VT TO) as (Dm & RVt & _);
      destruct (tour_of_nondummy s v t I T TO Dm) as [G _];
      eapply Qo_set; [exact HQ|exact G|exact (improve_tour_counts t _ _ nt RVt R)] end.
  - intros n y D. reflexivity.
Qed.

Lemma recompute_FC s ts s' : FCs s -> recompute_transitions_for nw s ts = Ok s' -> FCs s'.
Proof.
  intros F H. unfold recompute_transitions_for in H. monp H. inversion H; subst. exact F.
Qed.

(** * fit_loop: what leaves the provider is exactly [moved], and it arrives at the receiver *)
Lemma skipn_add {A} (l : list A) : forall a b, skipn a (skipn b l) = skipn (b + a) l.
Proof.
  induction l as [|x l IH]; intros a b; [rewrite !skipn_nil; reflexivity|].
  destruct b as [|b]; [reflexivity|]. cbn [skipn Nat.add]. apply IH.
Qed.

Lemma nth_error_firstn' {A} (l : list A) : forall m i, i < m -> nth_error (firstn m l) i = nth_error l i.
Proof.
  induction l as [|x l IH]; intros m i L; [rewrite firstn_nil; reflexivity|].
  destruct m as [|m]; [lia|]. destruct i as [|i]; [reflexivity|]. cbn [firstn nth_error]. apply IH. lia.
Qed.

Lemma nth_error_skipn' {A} (l : list A) : forall k i, nth_error (skipn k l) i = nth_error l (k + i).
Proof.
  induction l as [|x l IH]; intros k i.
  - rewrite skipn_nil. destruct i; destruct (k + _); reflexivity.
  - destruct k as [|k]; [reflexivity|]. cbn [skipn Nat.add nth_error]. apply IH.
Qed.

Lemma firstn_length_self {A} (X : list A) m : firstn (length (firstn m X)) X = firstn m X.
Proof.
  rewrite firstn_length. destruct (Nat.le_gt_cases m (length X)) as [L|L].
  - rewrite Nat.min_l by lia. reflexivity.
  - rewrite Nat.min_r by lia. rewrite !firstn_all2 by lia. reflexivity.
Qed.

(* a contiguous block [rem] at position k of l: its tail after e+1 elements is the block at k+e+1 *)
Lemma block_tail {A} (l rem : list A) k e :
  firstn (length rem) (skipn k l) = rem ->
  firstn (length (skipn (e + 1) rem)) (skipn (k + (e + 1)) l) = skipn (e + 1) rem.
Proof.
  intros H. rewrite <- H at 2. rewrite skipn_firstn_comm, skipn_add, skipn_length. reflexivity.
Qed.

Lemma block_head {A} (l rem : list A) k e : e + 1 <= length rem ->
  firstn (length rem) (skipn k l) = rem -> firstn (e + 1) (skipn k l) = firstn (e + 1) rem.
Proof.
  intros L H. rewrite <- H. rewrite firstn_firstn. rewrite Nat.min_l by lia. reflexivity.
Qed.

Lemma block_nth {A} (l rem : list A) k i x :
  firstn (length rem) (skipn k l) = rem -> nth_error rem i = Some x -> nth_error l (k + i) = Some x.
Proof.
  intros H N. assert (L : i < length rem) by (apply nth_error_Some; congruence).
  rewrite <- H in N. rewrite nth_error_firstn' in N by exact L. rewrite nth_error_skipn' in N. exact N.
Qed.

Lemma pos_nodup (l : list node_id) x i k : NoDup l -> pos_of l x = Some i -> nth_error l k = Some x -> i = k.
Proof.
  intros ND P N. destruct (index_of_spec _ _ _ P) as (y & Y1 & Y2). apply nid_eqb_eq in Y2. subst y.
  apply (proj1 (NoDup_nth_error l) ND).
  - apply nth_error_Some. congruence.
  - congruence.
Qed.

Lemma skipn_firstn_app {A} (l X : list A) : forall k, k <= length l -> skipn k (firstn k l ++ X) = X.
Proof.
  induction l as [|x l IH]; intros k L.
  - cbn [length] in L. replace k with 0 by lia. reflexivity.
  - destruct k as [|k]; [reflexivity|]. cbn [firstn app skipn]. apply IH. cbn [length] in L. lia.
Qed.

Lemma fit_loop_counts tpn trcn dp dr :
  forall fuel ntp ntr remaining moved ntp' ntr' moved',
  (forall prov, ntp = Some prov -> t_dummy prov = dp /\ TV nw prov) ->
  (forall n, dep n = false -> cn (onodes ntp) n + cn moved n = cn tpn n) ->
  (t_dummy ntr = dr /\ TV nw ntr) ->
  (dr = false -> forall n, dep n = false -> cn (t_nodes ntr) n = cn trcn n + cn moved n) ->
  (forall rem prov, remaining = Some rem -> ntp = Some prov ->
     exists k, firstn (length rem) (skipn k (t_nodes prov)) = rem) ->
  fit_loop nw fuel ntp ntr remaining moved = Ok (ntp', ntr', moved') ->
  (forall n, dep n = false -> cn (onodes ntp') n + cn moved' n = cn tpn n) /\
  (t_dummy ntr' = dr /\ TV nw ntr') /\
  (dr = false -> forall n, dep n = false -> cn (t_nodes ntr') n = cn trcn n + cn moved' n).
Proof.
  induction fuel as [|f IH]; intros ntp ntr remaining moved ntp' ntr' moved' HP HPc HR HRc HC H.
  - destruct remaining; cbn in H; [discriminate|]. inversion H; subst. auto.
  - destruct remaining as [rem|]; [|cbn in H; inversion H; subst; auto].
    cbn [fit_loop] in H. destruct rem as [|sstart rest0] eqn:ER; [discriminate|]. rewrite <- ER in *.
    mon H. mon H. monp H.
    assert (F1 : nth_error rem n = Some n0).
    { destruct a0 as [pos|].
      - injection E1 as E1.
        match type of E1 with last (filter ?ff ?L) ?d = _ =>
          destruct (last_filter_in ff L d) as [Q|Q]; rewrite E1 in Q end.
        + injection Q as Qa Qb. rewrite Qa, Qb, ER. reflexivity.
        + destruct (dt_ltb _ _) in Q; [destruct Q|].
          destruct Q as [Q|Q]; [injection Q as Qa Qb; rewrite <- Qa, <- Qb, ER; reflexivity|].
          match type of Q with In _ (?T rest0 _) =>
            assert (TK : forall l i e, In e (T l i) -> i <= fst e /\ nth_error l (fst e - i) = Some (snd e)) end.
          { clear. induction l as [|x l IHl]; intros i e He; [destruct He|].
            cbn in He. destruct (dt_ltb _ _) in He; [destruct He|].
            destruct He as [<-|He].
            - cbn [fst snd]. split; [lia|]. rewrite Nat.sub_diag. reflexivity.
            - destruct (IHl _ _ He) as [A B]. split; [lia|].
              replace (fst e - i) with (S (fst e - S i)) by lia. exact B. }
          apply TK in Q. cbn [fst snd] in Q. destruct Q as [A B]. rewrite ER.
          destruct n as [|n']; [lia|]. cbn [nth_error]. replace n' with (S n' - 1) by lia. exact B.
      - inversion E1; subst n n0. apply nth_error_last. rewrite ER. discriminate. }
    assert (Ln : n < length rem) by (apply nth_error_Some; congruence).
    apply unwrap_opt_ok in E. subst ntp.
    destruct (HP a eq_refl) as (Dpa & Va). destruct HR as (Dr & Vr).
    destruct (HC rem a eq_refl eq_refl) as (k & BK).
    assert (HC' : forall prov' kk,
              firstn (length (skipn (n + 1) rem)) (skipn kk (t_nodes prov')) = skipn (n + 1) rem ->
              forall rem0 prov0, path_new_trusted nw (skipn (n + 1) rem) = Some rem0 -> Some prov' = Some prov0 ->
              exists k0, firstn (length rem0) (skipn k0 (t_nodes prov0)) = rem0).
    { intros prov' kk Q rem0 prov0 PT EQ. inversion EQ; subst prov0.
      apply path_new_trusted_some in PT. destruct PT as [-> _]. exists kk. exact Q. }
    pose proof (block_tail (t_nodes a) rem k n BK) as BT.
    destruct (Tour.remove nw a (sstart, n0)) as [[cand_prov pfi]| | |] eqn:RM; try discriminate H.
    + mon H. destruct a1 as [cf|].
      * refine (IH _ _ _ _ _ _ _ HP HPc (conj Dr Vr) HRc _ H).
        intros rem0 prov0. apply (HC' a (k + (n + 1)) BT).
      * monp H.
        destruct (remove_valid nw _ _ _ _ Va RM) as (i' & j' & P1 & P2 & Lij & Lj & EL & VPf & SH).
        cbn [fst snd] in P1, P2.
        pose proof (connected_nodup nw WF DP _ (TV_connected nw _ Va)) as NDa.
        assert (N0 : nth_error rem 0 = Some sstart) by (rewrite ER; reflexivity).
        pose proof (pos_nodup _ _ _ _ NDa P1 (block_nth _ _ _ _ _ BK N0)) as Ei. rewrite Nat.add_0_r in Ei.
        pose proof (pos_nodup _ _ _ _ NDa P2 (block_nth _ _ _ _ _ BK F1)) as Ej.
        assert (EP : pfi = firstn (n + 1) rem).
        { rewrite EL, Ei, Ej. replace (k + n + 1 - k) with (n + 1) by lia. apply block_head; [lia|exact BK]. }
        destruct (insert_path_valid nw WF DP ntr pfi t o Vr VPf E2) as (Dm & Vnr & _ & _).
        eapply IH; [ | | | | | exact H].
        -- intros prov ->. destruct SH as (D1 & V1 & _). split; [congruence|exact V1].
        -- intros m Dm'. pose proof (remove_counts nw a _ cand_prov pfi Va RM m Dm') as RC.
           specialize (HPc m Dm'). cbn [onodes] in HPc. rewrite cn_app, <- EP. lia.
        -- split; [congruence|exact Vnr].
        -- intros Edr m Dm'. rewrite cn_app, <- EP.
           assert (Dn : t_dummy ntr = false) by congruence.
           assert (O : o = None).
           { apply (conflict_insert nw ntr sstart n0 None pfi t o Dn E E2).
             - rewrite EP, ER, Nat.add_1_r. reflexivity.
             - rewrite EP. rewrite last_firstn by lia. replace (n + 1 - 1) with n by lia.
               apply nth_error_nth. exact F1. }
           subst o. pose proof (insert_real_counts nw ntr pfi t None Dn E2 m Dm') as IC. cbn [ocn] in IC.
           specialize (HRc Edr m Dm'). lia.
        -- intros rem0 prov0 PT EQ. destruct cand_prov as [prov'|]; [|discriminate EQ].
           apply (HC' prov' k); [|exact PT|exact EQ]. destruct SH as (_ & _ & EN). rewrite EN.
           rewrite Ei, Ej. rewrite skipn_firstn_app by lia.
           replace (k + n + 1) with (k + (n + 1)) by lia. exact BT.
    + refine (IH _ _ _ _ _ _ _ HP HPc (conj Dr Vr) HRc _ H).
      intros rem0 prov0. apply (HC' a (k + (n + 1)) BT).
Qed.

(** * update_tours *)
Definition tours1_of (s : schedule) (p : vehicle_id) (ntp : option tour) (tours : list (vehicle_id * tour)) :=
  if is_dummy s p then tours
  else match ntp with Some nt => vset p nt tours | None => if is_vehicle s p then vdel p tours else tours end.
Definition vehicles1_of (s : schedule) (p : vehicle_id) (ntp : option tour) (veh : list (vehicle_id * Z)) :=
  match ntp with
  | Some _ => veh
  | None => if is_dummy s p then veh else if is_vehicle s p then vdel p veh else veh
  end.

Lemma utc_shape s tours dummies costs v nt t' d' c' :
  update_tour_and_costs s tours dummies costs v nt = Ok (t', d', c') ->
  t' = (if is_dummy s v then tours else vset v nt tours) /\
  (is_dummy s v = false -> exists o, vget v tours = Some o).
Proof.
  unfold update_tour_and_costs. intros H. destruct (is_dummy s v).
  - inversion H; subst. split; [reflexivity|discriminate].
  - destruct (vget v tours) as [o|]; cbn [unwrap_opt bind] in H; [|discriminate H].
    mon H. inversion H; subst. split; [reflexivity|eauto].
Qed.

Lemma update_tours_shape s veh tours forms usage dummies ids dids uns costs p ntp r ntr moved
    vehicles1 tours2 forms2 usage2 dummies2 ids1 dids1 uns2 costs2 :
  update_tours nw s veh tours forms usage dummies ids dids uns costs p ntp r ntr moved
    = Ok (vehicles1, tours2, forms2, usage2, dummies2, ids1, dids1, uns2, costs2) ->
  update_train_formation nw s forms uns (Some p)
    (match vget r (s_vehicles s) with Some ty => Some (r, ty) | None => None end) moved = Ok (forms2, uns2) /\
  vehicles1 = vehicles1_of s p ntp veh /\
  tours2 = (if is_dummy s r then tours1_of s p ntp tours else vset r ntr (tours1_of s p ntp tours)) /\
  (is_dummy s r = false -> exists o, vget r (tours1_of s p ntp tours) = Some o).
Proof.
  intros H. apply update_tours_peel in H. unfold update_tours_prefix in H.
  monp H. mon H. monp H. mon H. monp H. inversion H; subst; clear H.
  split; [reflexivity|].
  assert (Q : vehicles1 = vehicles1_of s p ntp veh /\ l3 = tours1_of s p ntp tours).
  { unfold vehicles1_of, tours1_of. destruct ntp as [nt|].
    - monp E. inversion E; subst; clear E.
      match goal with X : update_tour_and_costs _ _ _ _ p _ = _ |- _ =>
        destruct (utc_shape _ _ _ _ _ _ _ _ _ X) as [-> _] end.
      split; [reflexivity|]. destruct (is_dummy s p); reflexivity.
    - mon E. destruct (is_dummy s p).
      + mon E. inversion E; subst. auto.
      + destruct (is_vehicle s p).
        * mon E. mon E. inversion E; subst. auto.
        * inversion E; subst. auto. }
  destruct Q as [-> ->]. split; [reflexivity|].
  destruct (utc_shape _ _ _ _ _ _ _ _ _ E1) as [-> G]. split; [reflexivity|exact G].
Qed.

Lemma dummy_no_vehicle s v : Inv nw s -> is_dummy s v = true -> vget v (s_vehicles s) = None.
Proof.
  intros I D. destruct (vget v (s_vehicles s)) as [ty|] eqn:G; [|reflexivity].
  rewrite (vehicle_not_dummy s v ty I G) in D. discriminate.
Qed.

Lemma update_tours_FC s forms usage dids uns p ntp r ntr moved
    vehicles1 tours2 forms2 usage2 dummies2 ids1 dids1 uns2 costs2 tp trc :
  Inv nw s -> TIs nw s ->
  FC (s_vehicles s) (s_tours s) forms ->
  tour_of s p = Ok tp -> tour_of s r = Ok trc ->
  update_tours nw s (s_vehicles s) (s_tours s) forms usage (s_dummies s) (s_ids s) dids uns (s_costs s) p ntp r ntr moved
    = Ok (vehicles1, tours2, forms2, usage2, dummies2, ids1, dids1, uns2, costs2) ->
  (forall n, dep n = false -> cn (onodes ntp) n + cn moved n = cn (t_nodes tp) n) ->
  tours2 = (if is_dummy s r then tours1_of s p ntp (s_tours s) else vset r ntr (tours1_of s p ntp (s_tours s))) /\
  forall vr : tour,
    (is_dummy s r = false -> forall n, dep n = false -> cn (t_nodes vr) n = cn (t_nodes trc) n + cn moved n) ->
    (p = r -> forall n, cn (t_nodes vr) n <= 1) ->
    FC vehicles1 (if is_dummy s r then tours1_of s p ntp (s_tours s) else vset r vr (tours1_of s p ntp (s_tours s)))
       forms2.
Proof.
  intros I T F TOp TOr H HPc.
  destruct (update_tours_shape _ _ _ _ _ _ _ _ _ _ _ _ _ _ _ _ _ _ _ _ _ _ _ _ H) as (U & -> & -> & G4).
  split; [reflexivity|]. intros vr HRc HN. destruct T as [TR _].
  destruct (tour_of_cases nw s p tp I TOp) as [[Dp Gp]|[Dp [_ Gp]]];
  destruct (tour_of_cases nw s r trc I TOr) as [[Dr Gr]|[Dr [_ Gr]]].
  - (* both real *)
    destruct (TR p tp Gp) as (typ & Gvp & _). destruct (TR r trc Gr) as (tyr & Gvr & _).
    assert (IVp : is_vehicle s p = true) by (unfold is_vehicle; rewrite Gvp; reflexivity).
    rewrite Gvr in U. specialize (G4 Dr). specialize (HRc Dr).
    unfold tours1_of, vehicles1_of in *. rewrite Dp, IVp in *. rewrite Dr.
    eapply FC_step; [exact U|exact F| | |].
    + intros x tx Gx. destruct ntp as [nt|]; [left; exact Gx|]. rewrite vget_vdel.
      destruct (vid_eqb x p) eqn:Exp; [right|left; exact Gx]. apply vid_eqb_eq in Exp. subst x.
      rewrite vget_vset. destruct (vid_eqb p r) eqn:Epr.
      * apply vid_eqb_eq in Epr. subst r. destruct G4 as [o G4]. rewrite vget_vdel, vid_eqb_refl in G4. discriminate.
      * rewrite vget_vdel, vid_eqb_refl. reflexivity.
    + unfold erecv. rewrite Dr. intros x tx Q. inversion Q; subst x tx.
      destruct ntp as [nt|]; [exact Gvr|]. rewrite vget_vdel. destruct (vid_eqb r p) eqn:Erp; [|exact Gvr].
      apply vid_eqb_eq in Erp. subst r. destruct G4 as [o G4]. rewrite vget_vdel, vid_eqb_refl in G4. discriminate.
    + intros n x D. unfold erecv_id, erecv, eprov. rewrite Dp, Dr. cbn [ind].
      specialize (HPc n D). specialize (HRc n D). rewrite occ_vset.
      assert (O1 : occ (match ntp with Some nt => vset p nt (s_tours s) | None => vdel p (s_tours s) end) x n
                   = if vid_dec p x then cn (onodes ntp) n else occ (s_tours s) x n).
      { destruct ntp as [nt|]; [rewrite occ_vset|rewrite occ_vdel]; reflexivity. }
      rewrite O1. unfold ind.
      destruct (vid_dec r x) as [<-|Nr]; destruct (vid_dec p r) as [Epr|Npr].
      * subst r. rewrite (occ_some _ _ _ _ Gp). assert (tp = trc) by congruence. subst trc.
        specialize (HN eq_refl n). lia.
      * rewrite (occ_some _ _ _ _ Gr). lia.
      * subst r. destruct (vid_dec p x) as [<-|Np]; [congruence|]. lia.
      * destruct (vid_dec p x) as [<-|Np]; [|lia]. rewrite (occ_some _ _ _ _ Gp). lia.
  - (* p real, r dummy *)
    destruct (TR p tp Gp) as (typ & Gvp & _).
    assert (IVp : is_vehicle s p = true) by (unfold is_vehicle; rewrite Gvp; reflexivity).
    rewrite (dummy_no_vehicle s r I Dr) in U.
    unfold tours1_of, vehicles1_of in *. rewrite Dp, IVp in *. rewrite Dr.
    eapply FC_step; [exact U|exact F| | |].
    + intros x tx Gx. destruct ntp as [nt|]; [left; exact Gx|]. rewrite !vget_vdel.
      destruct (vid_eqb x p); [right; reflexivity|left; exact Gx].
    + intros x tx Q. discriminate Q.
    + intros n x D. unfold erecv_id, erecv, eprov. rewrite Dp. cbn [ind].
      specialize (HPc n D).
      assert (O1 : occ (match ntp with Some nt => vset p nt (s_tours s) | None => vdel p (s_tours s) end) x n
                   = if vid_dec p x then cn (onodes ntp) n else occ (s_tours s) x n).
      { destruct ntp as [nt|]; [rewrite occ_vset|rewrite occ_vdel]; reflexivity. }
      rewrite O1. unfold ind. destruct (vid_dec p x) as [<-|Np]; [|lia]. rewrite (occ_some _ _ _ _ Gp). lia.
  - (* p dummy, r real *)
    destruct (TR r trc Gr) as (tyr & Gvr & _). rewrite Gvr in U. specialize (HRc Dr).
    unfold tours1_of, vehicles1_of in *. rewrite Dp in *. rewrite Dr.
    assert (V1 : match ntp with Some _ => s_vehicles s | None => s_vehicles s end = s_vehicles s) by (destruct ntp; reflexivity).
    rewrite V1.
    eapply FC_step; [exact U|exact F| | |].
    + intros x tx Gx. left. exact Gx.
    + unfold erecv. rewrite Dr. intros x tx Q. inversion Q; subst x tx. exact Gvr.
    + intros n x D. unfold erecv_id, erecv, eprov. rewrite Dp, Dr. cbn [ind].
      specialize (HRc n D). rewrite occ_vset. unfold ind.
      destruct (vid_dec r x) as [<-|Nr]; [|lia]. rewrite (occ_some _ _ _ _ Gr). lia.
  - (* both dummies *)
    rewrite (dummy_no_vehicle s r I Dr) in U.
    unfold tours1_of, vehicles1_of in *. rewrite Dp in *. rewrite Dr.
    assert (V1 : match ntp with Some _ => s_vehicles s | None => s_vehicles s end = s_vehicles s) by (destruct ntp; reflexivity).
    rewrite V1.
    eapply FC_step; [exact U|exact F| | |].
    + intros x tx Gx. left. exact Gx.
    + intros x tx Q. discriminate Q.
    + intros n x D. unfold erecv_id, erecv, eprov. rewrite Dp. cbn [ind]. lia.
Qed.

(** * fit_reassign (also with provider = receiver) *)
Lemma fit_FC s seg p r s' : Inv nw s -> TIs nw s -> FCs s -> fit_reassign nw s seg p r = Ok s' -> FCs s'.
Proof.
  intros I T F H. unfold fit_reassign in H.
  mon H. destruct (negb a) eqn:OK; [discriminate|]. clear OK E.
  mon H. mon H. mon H. monp H. monp H. monp H. inversion H; subst; clear H.
  apply panic_ok in E, E0.
  rename a0 into tp, a1 into trc, a2 into path, o into ntp, t into ntr, l into moved.
  destruct (tour_of_T nw s p tp I T E) as (Vp & _ & _).
  destruct (tour_of_T nw s r trc I T E0) as (Vr & _ & F2r).
  destruct (sub_path_slice nw _ _ _ E1) as (i & j & Lij & Lj & EL & _).
  assert (FL : (forall n, dep n = false -> cn (onodes ntp) n + cn moved n = cn (t_nodes tp) n) /\
               (t_dummy ntr = t_dummy trc /\ TV nw ntr) /\
               (t_dummy trc = false -> forall n, dep n = false ->
                  cn (t_nodes ntr) n = cn (t_nodes trc) n + cn moved n));
    [eapply (fit_loop_counts (t_nodes tp) (t_nodes trc) (t_dummy tp) (t_dummy trc)); [| | | | |exact E2]
    |destruct FL as (CP & (Dr' & Vr') & CR)].
  { intros prov Q. inversion Q; subst prov. split; [reflexivity|exact Vp]. }
  { intros n D. cbn [onodes]. rewrite cn_nil. lia. }
  { split; [reflexivity|exact Vr]. }
  { intros _ n D. rewrite cn_nil. lia. }
  { intros rem prov Q1 Q2. inversion Q1; inversion Q2; subst rem prov. exists i. rewrite EL. apply firstn_length_self. }
  destruct (update_tours_FC _ _ _ _ _ _ _ _ _ _ _ _ _ _ _ _ _ _ _ _ _ I T F E E0 E3 CP) as (ET & K).
  unfold FCs. cbn [with_fields s_vehicles s_tours s_forms]. rewrite ET. apply K.
  - intros Dr. destruct (F2r Dr) as (_ & ty & _ & (Dm & _)). apply CR. exact Dm.
  - intros _ n. apply cn_nodup. apply (connected_nodup nw WF DP). apply TV_connected. exact Vr'.
Qed.

(** * override_reassign *)
Lemma override_FC s seg p r s' d : Inv nw s -> TIs nw s -> FCs s ->
  override_reassign nw s seg p r = Ok (s', d) -> FCs s'.
Proof.
  intros I T F H. unfold override_reassign in H.
  destruct (vid_eqb p r) eqn:Epr; [discriminate|]. apply vid_eqb_neq in Epr.
  mon H. destruct (negb a) eqn:OK; [discriminate|]. clear OK E.
  mon H. mon H. monp H. monp H. monp H. monp H. monp H. inversion H; subst; clear H.
  apply panic_ok in E, E0.
  rename a0 into tp, a1 into trc, o into shr, l into path, t into ntr, o0 into replaced.
  destruct (tour_of_T nw s p tp I T E) as (Vp & _ & _).
  destruct (tour_of_T nw s r trc I T E0) as (Vr & _ & F2r).
  pose proof (remove_counts nw tp seg shr path Vp E1) as CP.
  destruct (update_tours_FC _ _ _ _ _ _ _ _ _ _ _ _ _ _ _ _ _ _ _ _ _ I T F E E0 E3 CP) as (ET & K).
  set (vr := new_computing nw (t_nodes trc ++ path) false).
  assert (F1 : FC l5 (if is_dummy s r then tours1_of s p shr (s_tours s)
                      else vset r vr (tours1_of s p shr (s_tours s))) l4).
  { apply K.
    - intros _ n D. change (t_nodes vr) with (t_nodes trc ++ path). apply cn_app.
    - intros Q. congruence. }
  unfold FCs. cbn [with_fields s_vehicles s_tours s_forms]. rewrite ET. clear K ET.
  destruct (is_dummy s r) eqn:Dr.
  - assert (IV : is_vehicle s r = false)
      by (unfold is_vehicle; rewrite (dummy_no_vehicle s r I Dr); reflexivity).
    rewrite IV in E4.
    assert (Q : l9 = l4).
    { destruct replaced as [np|]; [|inversion E4; reflexivity].
      cbn [bind] in E4. destruct (tour_new_dummy nw np); cbn [add_dummy_tour] in E4; inversion E4; reflexivity. }
    subst l9. exact F1.
  - destruct (F2r eq_refl) as (Gr & ty & Gvr & (Dm & _)).
    assert (IV : is_vehicle s r = true) by (unfold is_vehicle; rewrite Gvr; reflexivity).
    rewrite IV in E4.
    pose proof (insert_real_counts nw trc path ntr replaced Dm E2) as CNT.
    pose proof (vehicle_not_dummy s r ty I Gvr) as ND.
    destruct replaced as [np|].
    + destruct (update_train_formation nw s l4 p1 (Some r) None np) as [[f2 u2]| | |] eqn:U2; cbn [bind] in E4;
        try discriminate E4.
      assert (Q : l9 = f2)
        by (destruct (tour_new_dummy nw np); cbn [add_dummy_tour] in E4; inversion E4; reflexivity).
      subst l9. eapply FC_step; [exact U2|exact F1| | |].
      * intros x tx G. left. exact G.
      * intros x tx Q. discriminate Q.
      * intros n x D. unfold erecv_id, erecv, eprov. rewrite ND. cbn [ind]. rewrite !occ_vset.
        unfold ind. destruct (vid_dec r x) as [<-|N]; [|lia].
        change (t_nodes vr) with (t_nodes trc ++ path). rewrite cn_app. specialize (CNT n D). cbn [ocn] in CNT. lia.
    + inversion E4; subst. eapply FC_ext; [exact F1|].
      intros n x D. rewrite !occ_vset. destruct (vid_dec r x) as [<-|N]; [|reflexivity].
      change (t_nodes vr) with (t_nodes trc ++ path). rewrite cn_app. specialize (CNT n D). cbn [ocn] in CNT. lia.
Qed.

(** * the induction *)
Lemma nget_init (l : list node_id) n (f : formation) :
  nget n (map (fun n => (n, [])) l) = Some f -> f = [] /\ In n l.
Proof.
  unfold nget. induction l as [|a l IH]; cbn [map assoc]; [discriminate|].
  destruct (nid_eqb n a) eqn:E.
  - apply nid_eqb_eq in E. subst a. intros H. inversion H. split; [reflexivity|left; reflexivity].
  - intros H. destruct (IH H) as [A B]. split; [exact A|right; exact B].
Qed.

Lemma empty_FC s : (forall n, In n (coverable_nodes nw) -> dep n = false) -> empty_schedule nw = Ok s -> FCs s.
Proof.
  intros HC H. unfold empty_schedule in H. mon H. inversion H; subst; clear H.
  unfold FCs. cbn [s_vehicles s_tours s_forms]. intros n f G. apply nget_init in G. destruct G as [-> Hin].
  split; [apply HC; exact Hin|]. split; [intros v ty []|]. intros x. reflexivity.
Qed.

Lemma vstep_FC s s' : Inv nw s -> LInv nw false s -> TIs nw s -> FCs s -> vstep nw s s' -> FCs s'.
Proof.
  intros I L T F St. destruct St.
  - eapply spawn_FC; eauto.
  - eapply spawn_dummy_FC; eauto.
  - eapply delete_FC; eauto.
  - eapply add_path_FC; eauto.
  - eapply remove_segment_FC; eauto.
  - eapply fit_FC; eauto.
  - eapply override_FC; eauto.
  - eapply improve_FC; eauto.
  - eapply greedy_FC; eauto.
  - eapply recompute_FC; eauto.
  - eapply consistent_FC; eauto.
Qed.

Lemma vreachable_FC s : (forall n, In n (coverable_nodes nw) -> dep n = false) -> vreachable nw s -> FCs s.
Proof.
  intros HC. induction 1 as [s H|s s' R IH St].
  - apply empty_FC; assumption.
  - pose proof (vreachable_reachable nw s R) as R'.
    eapply vstep_FC; [| | |exact IH|exact St].
    + apply SchedCostsFacts.reachable_inv. exact R'.
    + apply greachable_L. apply reachable_greachable. exact R'.
    + apply vreachable_T; assumption.
Qed.

(** * from the counting invariant to the stated record *)
Lemma FC_FormsOK s : Inv nw s -> TIs nw s -> FCs s ->
  NoDup (keys (s_forms s)) -> (forall n, In n (keys (s_forms s)) <-> In n (coverable_nodes nw)) -> FormsOK nw s.
Proof.
  intros I [TR _] F K1 K2.
  assert (ND : forall v t, vget v (s_tours s) = Some t -> NoDup (t_nodes t)).
  { intros v t G. destruct (TR v t G) as (ty & _ & R). apply (connected_nodup nw WF DP). apply TV_connected.
    eapply RT_TV; eauto. }
  constructor; [exact K1|exact K2| |].
  - intros n f G. destruct (F n f G) as (_ & _ & C).
    apply (proj2 (NoDup_count_occ vid_dec (map fst f))). intros x. fold (cv f x). rewrite C. unfold occ.
    destruct (vget x (s_tours s)) as [t|] eqn:Gx; [|lia]. apply cn_nodup. eapply ND; eauto.
  - intros n f v ty G. destruct (F n f G) as (_ & Ty & C). split.
    + intros Hin. split; [apply Ty; exact Hin|].
      assert (P : 0 < cv f v) by (apply cv_in; apply (in_map fst) in Hin; exact Hin).
      rewrite C in P. unfold occ in P. destruct (vget v (s_tours s)) as [t|] eqn:Gv; [|lia].
      exists t. split; [reflexivity|]. apply cn_in. exact P.
    + intros (Gty & t & Gt & Hn).
      assert (P : 0 < cv f v) by (rewrite C, (occ_some _ _ _ _ Gt); apply cn_in; exact Hn).
      apply cv_in in P. apply in_map_iff in P. destruct P as ([v' ty'] & Ev & Hin). cbn [fst] in Ev. subst v'.
      pose proof (Ty v ty' Hin) as Q. assert (ty' = ty) by congruence. subst ty'. exact Hin.
Qed.
End Sched.

Lemma coverable_nondepot nw : (forall m, In m (nw_maint nw) -> is_maint (nd nw m) = true) ->
  forall n, In n (coverable_nodes nw) -> node_is_depot nw n = false.
Proof.
  intros HM n Hn. unfold coverable_nodes in Hn. apply in_app_or in Hn. unfold node_is_depot. destruct Hn as [Hn|Hn].
  - unfold all_service_nodes in Hn. apply filter_In in Hn. destruct Hn as [_ Hs].
    destruct (nd nw n); try discriminate; reflexivity.
  - apply HM in Hn. destruct (nd nw n); try discriminate; reflexivity.
Qed.

(** * Main theorem: the statement under the hypothesis that the ids listed in [nw_maint] denote maintenance nodes
      (SwapsStmts2.maint_listed_ok; true of every network built by [load]).  No restriction on fit_reassign. *)
Theorem vreachable_forms_under_maint_listed : forall nw,
  net_ok_b nw = true -> NoDup (coverable_nodes nw) ->
  (forall m, In m (nw_maint nw) -> is_maint (nd nw m) = true) ->
  forall s, vreachable nw s -> FormsOK nw s.
Proof.
  intros nw OK Hnd HM s R. unfold net_ok_b in OK. apply andb_true_iff in OK. destruct OK as [WF DP].
  pose proof (vreachable_reachable nw s R) as R'.
  assert (HS : forall n, In n (nw_maint nw) -> is_service (nd nw n) = false).
  { intros n Hn. apply HM in Hn. destruct (nd nw n); try discriminate; reflexivity. }
  destruct (SchedUnservedFacts.reachable_inv nw Hnd HS s R') as (K1 & K2 & _).
  apply FC_FormsOK; auto.
  - apply SchedCostsFacts.reachable_inv. exact R'.
  - apply vreachable_T; assumption.
  - apply vreachable_FC; auto. apply coverable_nondepot. exact HM.
Qed.

Print Assumptions vreachable_forms_under_maint_listed.

(** * The statement as written is false: witness.
      nwX is the loaded network nwC of SchedToursFacts (net_ok_b = true) in which the start depot id SD 0 is
      additionally listed in [nw_maint].  [net_ok_b] and [NoDup (coverable_nodes _)] still hold; the formation map
      of the empty schedule has an entry for SD 0; spawning one vehicle for the valid path [SV 4] gives the tour
      [SD 0; SV 4; ED 1], update_train_formation skips the depots, and the formation of SD 0 stays empty although
      the tour of Veh 0 contains SD 0. *)
Definition nwX : network :=
  {| nw_nodes := nw_nodes nwC; nw_depots := nw_depots nwC; nw_overflow := nw_overflow nwC; nw_service := nw_service nwC;
     nw_maint := SD 0 :: nw_maint nwC; nw_sdepots := nw_sdepots nwC; nw_edepots := nw_edepots nwC;
     nw_all_by_start := nw_all_by_start nwC; nw_type_by_start := nw_type_by_start nwC;
     nw_type_by_end := nw_type_by_end nwC; nw_params := nw_params nwC; nw_nlocs := nw_nlocs nwC; nw_dh := nw_dh nwC;
     nw_types := nw_types nwC; nw_nservice := nw_nservice nwC; nw_planning := nw_planning nwC |}.

Lemma nwX_ok : net_ok_b nwX = true.
Proof. vm_compute. reflexivity. Qed.

Lemma nwX_coverable : coverable_nodes nwX = [SV 4; SV 5; SV 6; SV 7; SD 0; MT 8].
Proof. vm_compute. reflexivity. Qed.

Lemma nwX_nodup : NoDup (coverable_nodes nwX).
Proof.
  rewrite nwX_coverable.
  repeat (constructor; [cbn [In]; intros Q; repeat (destruct Q as [Q|Q]; [discriminate Q|]); exact Q|]).
  constructor.
Qed.

Lemma nwX_depot_listed : In (SD 0) (nw_maint nwX) /\ is_start_depot (nd nwX (SD 0)) = true.
Proof. split; [left; reflexivity|vm_compute; reflexivity]. Qed.

Definition sX0 : schedule := Eval vm_compute in get_ok (empty_schedule nwX) s_dflt.
Definition sX1 : schedule :=
  Eval vm_compute in fst (get_ok (spawn_vehicle_for_path nwX sX0 0 [SV 4]) (s_dflt, Veh 0)).

Lemma sX0_ok : empty_schedule nwX = Ok sX0.
Proof. vm_compute. reflexivity. Qed.
Lemma sX1_ok : spawn_vehicle_for_path nwX sX0 0 [SV 4] = Ok (sX1, Veh 0).
Proof. vm_compute. reflexivity. Qed.

Lemma sX1_vreachable : vreachable nwX sX1.
Proof.
  eapply vr_step; [apply vr_empty; exact sX0_ok|]. eapply vs_spawn; [|exact sX1_ok].
  split; [discriminate|]. split; [intros a b []|vm_compute; reflexivity].
Qed.

Lemma sX1_not_forms : ~ FormsOK nwX sX1.
Proof.
  intros [_ _ _ M].
  assert (G : nget (SD 0) (s_forms sX1) = Some []) by (vm_compute; reflexivity).
  destruct (M (SD 0) [] (Veh 0) 0%Z G) as [_ M2]. apply M2. split; [vm_compute; reflexivity|].
  eexists. split; [vm_compute; reflexivity|]. cbn [t_nodes]. left. reflexivity.
Qed.

Theorem vreachable_forms_refuted_nwX : ~ stmt_vreachable_forms nwX.
Proof. intros H. exact (sX1_not_forms (H nwX_ok nwX_nodup sX1 sX1_vreachable)). Qed.

Theorem vreachable_forms_refuted : ~ (forall nw, stmt_vreachable_forms nw).
Proof. intros H. exact (vreachable_forms_refuted_nwX (H nwX)). Qed.

Print Assumptions vreachable_forms_refuted.
