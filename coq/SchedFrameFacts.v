(* SchedFrameFacts.v — proofs of the frame statements of SchedFrameStmts.v (C13 "and nothing else", C05/C16 final
   alignment) about the model Schedule.v.

   Proved exactly as stated (all schedules [s], reachable or not):
     frame_spawn, frame_delete, frame_add_path, frame_remove_segment, frame_fit, frame_override, frame_recompute,
     consistent_aligns.
   The three depot-only statements (improve / greedy / consistent) quantify over ALL schedule records, including
   ill-formed ones in which an id processed by the operation has its tour stored in [s_dummies] and no entry in
   [s_tours] ([tour_of] falls back to the dummies): then the operation ADDS a key to [s_tours].  They are refuted
   on such a (non-reachable) record at the end of the file and proved
     - under the two key-discipline clauses of [Inv] (real keys in s_vehicles / listings, dummy keys in s_dummies),
     - hence for every reachable schedule. *)
From RS Require Import SchedPeel Base BaseFacts Network NetSpec Tour TourSpec TourFacts TourValidFacts Transition Schedule SchedInv
  SchedCostsFacts SchedUnservedFacts SchedListFacts SchedToursFacts SchedFrameStmts.
Local Open Scope Z_scope.

Section Frame.
Variable nw : network.

(** * update_train_formation only writes at the non-depot nodes of [moved] *)
Lemma utf_frame s prov recv moved : forall fm uns fm' uns',
  update_train_formation nw s fm uns prov recv moved = Ok (fm', uns') ->
  forall n, (forall m, In m moved -> is_depot (nd nw m) = false -> m <> n) -> nget n fm' = nget n fm.
Proof.
  unfold update_train_formation.
  induction moved as [|n0 l IH]; intros fm uns fm' uns' H n Hn.
  - cbn [fold_left] in H. inversion H; subst; auto.
  - cbn [fold_left] in H. destruct uns as [ua ub]. cbn [bind] in H.
    match type of H with fold_left ?G _ _ = _ =>
      assert (Hno : forall r, is_ok r = false -> fold_left G l r = r)
        by (apply fold_nonok; intros [] ? Hr; try discriminate Hr; reflexivity) end.
    assert (Hn' : forall m, In m l -> is_depot (nd nw m) = false -> m <> n).
    { intros m Hm. apply Hn. now right. }
    destruct (is_depot (nd nw n0)) eqn:Edep.
    + eapply IH; eauto.
    + destruct (nget n0 fm) as [f|] eqn:En; cbn [unwrap_opt bind] in H.
      2:{ rewrite Hno in H by reflexivity. discriminate. }
      destruct (replacement_in_formation nw s f prov recv n0) as [f'| | |] eqn:Er; cbn [bind] in H;
        try (rewrite Hno in H by reflexivity; discriminate).
      rewrite (IH _ _ _ _ H n Hn'). rewrite (nset_key _ _ _ _ En), nget_nrepl.
      destruct (nid_eqb n n0) eqn:E; auto. apply nid_eqb_eq in E. subst n0.
      exfalso. apply (Hn n); auto. now left.
Qed.

Lemma utf_frame_notin s prov recv moved fm uns fm' uns' n :
  update_train_formation nw s fm uns prov recv moved = Ok (fm', uns') -> ~ In n moved -> nget n fm' = nget n fm.
Proof. intros H Hn. eapply utf_frame; eauto. intros m Hm _ ->. contradiction. Qed.

(** * pointwise criterion for [others_same] *)
Lemma tour_at_eq s s' k :
  vget k (s_tours s') = vget k (s_tours s) -> vget k (s_dummies s') = vget k (s_dummies s) ->
  tour_at s' k = tour_at s k.
Proof. unfold tour_at. intros -> ->. reflexivity. Qed.

Lemma neq_of_notin {A} (k a : A) l : ~ In k (a :: l) -> k <> a /\ ~ In k l.
Proof. cbn [In]. intros H. split; [intros ->; auto | auto]. Qed.

Lemma vid_neq_eqb k v : k <> v -> vid_eqb k v = false.
Proof. apply vid_eqb_neq. Qed.

(** * spawn *)
Theorem frame_spawn : stmt_frame_spawn nw.
Proof.
  intros s ty path s' v H. unfold spawn_vehicle_for_path in H.
  destruct (negb _) in H; [discriminate|].
  mon H. mon H. mon H. monp H. mon H. monp H. inversion H; subst; clear H.
  split; [reflexivity|]. split; [|split].
  - intros k Hk. apply neq_of_notin in Hk. destruct Hk as [Hk _]. apply vid_neq_eqb in Hk.
    split.
    + apply tour_at_eq; cbn [with_fields s_tours s_dummies]; auto. now rewrite vget_vset, Hk.
    + cbn [with_fields s_vehicles]. now rewrite vget_vset, Hk.
  - intros n Hn. cbn [with_fields s_forms]. eapply utf_frame; eauto.
    intros m Hm Hd ->.
    unfold tour_new in E0. destruct a as [|a0' ar] eqn:EA; [discriminate|]. rewrite <- EA in *.
    destruct (valid_tour_nodes nw a) eqn:V; [|discriminate]. inversion E0; subst a0; clear E0.
    cbn [new_computing t_nodes] in Hm.
    apply valid_tour_nodes_RV in V. destruct V as (_ & _ & Hs & He & _).
    destruct (add_suitable_depots_nodes _ _ _ _ _ E n Hm) as [G|[G|G]].
    + contradiction.
    + unfold sdep in Hs. rewrite <- G in Hs. unfold is_depot in Hd. rewrite Hs in Hd. discriminate.
    + unfold edep in He. rewrite <- G in He. unfold is_depot in Hd. rewrite He, orb_true_r in Hd. discriminate.
  - reflexivity.
Qed.

(** * delete *)
Lemma delete_frame s v s' : replace_vehicle_by_dummy nw s v = Ok s' ->
  vget v (s_tours s') = None /\ vget v (s_vehicles s') = None /\ others_same s s' [v; fresh_dummy s] /\
  forall t, vget v (s_tours s) = Some t -> forms_same_except s s' (t_nodes t).
Proof.
  intros H. unfold replace_vehicle_by_dummy in H.
  destruct (negb _) in H; [discriminate|].
  mon H. mon H. mon H. monp H. mon H. mon H. mon H.
  apply unwrap_opt_ok in E1.
  match type of H with context [tour_new_dummy nw ?x] => destruct (tour_new_dummy nw x) end;
    cbn [add_dummy_tour] in H; monp H; inversion H; subst; clear H;
    cbn [with_fields s_tours s_vehicles s_forms s_dummies];
    (split; [now rewrite vget_vdel, vid_eqb_refl|]); (split; [now rewrite vget_vdel, vid_eqb_refl|]);
    (split; [|intros t G n Hn; rewrite E1 in G; inversion G; subst t; eapply utf_frame_notin; eauto]);
    intros k Hk; apply neq_of_notin in Hk; destruct Hk as [Hk1 Hk]; apply neq_of_notin in Hk; destruct Hk as [Hk2 _];
    apply vid_neq_eqb in Hk1; unfold fresh_dummy in Hk2; apply vid_neq_eqb in Hk2;
    (split; [apply tour_at_eq; cbn [with_fields s_tours s_dummies];
               [now rewrite vget_vdel, Hk1 | rewrite ?vget_vset, ?Hk2; auto]
            | cbn [with_fields s_vehicles]; now rewrite vget_vdel, Hk1]).
Qed.

Theorem frame_delete : stmt_frame_delete nw.
Proof.
  intros s v s' t H G. destruct (delete_frame _ _ _ H) as (A & B & C & D). auto.
Qed.

(** * add_path_to_vehicle_tour *)
Theorem frame_add_path : stmt_frame_add_path nw.
Proof.
  intros s v path s' c H. unfold add_path_to_vehicle_tour in H.
  destruct path as [|pf path']; [discriminate|].
  match type of H with (if ?b then _ else _) = _ => destruct b; [discriminate|] end.
  mon H. mon H. monp H. mon H. monp H. monp H. mon H. mon H. monp H. inversion H; subst; clear H.
  cbn [with_fields]. split; [|split].
  - intros k Hk. apply neq_of_notin in Hk. destruct Hk as [Hk _]. apply vid_neq_eqb in Hk. split.
    + apply tour_at_eq; cbn [with_fields s_tours s_dummies]; auto. now rewrite vget_vset, Hk.
    + reflexivity.
  - reflexivity.
  - intros n Hn. cbn [s_forms]. rewrite in_app_iff in Hn.
    transitivity (nget n l).
    + destruct c as [rp|].
      * eapply utf_frame_notin; eauto.
      * inversion E4; subst. reflexivity.
    + eapply utf_frame_notin; eauto.
Qed.

(** * update_tour_and_costs / update_tours touch only the keys p and r *)
Lemma utc_frame s tours dummies costs v nt t' d' c' :
  update_tour_and_costs s tours dummies costs v nt = Ok (t', d', c') ->
  forall k, k <> v -> vget k t' = vget k tours /\ vget k d' = vget k dummies.
Proof.
  intros H k Hk. apply vid_neq_eqb in Hk. unfold update_tour_and_costs in H. destruct (is_dummy s v).
  - inversion H; subst. now rewrite vget_vset, Hk.
  - mon H. mon H. inversion H; subst. now rewrite vget_vset, Hk.
Qed.

Lemma update_tours_frame s veh tours forms usage dummies ids dids uns costs p ntp r ntr moved
    veh1 tours2 forms2 usage2 dummies2 ids1 dids1 uns2 costs2 :
  update_tours nw s veh tours forms usage dummies ids dids uns costs p ntp r ntr moved
    = Ok (veh1, tours2, forms2, usage2, dummies2, ids1, dids1, uns2, costs2) ->
  forall k, k <> p -> k <> r ->
    vget k tours2 = vget k tours /\ vget k dummies2 = vget k dummies /\ vget k veh1 = vget k veh.
Proof.
  intros H k Hp Hr. apply update_tours_peel in H. unfold update_tours_prefix in H.
  monp H. mon H. monp H. mon H. monp H. inversion H; subst; clear H.
  destruct (utc_frame _ _ _ _ _ _ _ _ _ E1 k Hr) as [A B]. rewrite A, B. clear A B E1.
  apply vid_neq_eqb in Hp.
  destruct ntp as [nt|].
  - monp E. inversion E; subst; clear E.
    match goal with Q : update_tour_and_costs _ _ _ _ _ _ = _ |- _ =>
      destruct (utc_frame _ _ _ _ _ _ _ _ _ Q k) as [A B]; [now apply vid_eqb_neq|] end. auto.
  - mon E. destruct (is_dummy s p).
    + mon E. inversion E; subst. now rewrite vget_vdel, Hp.
    + destruct (is_vehicle s p).
      * mon E. mon E. inversion E; subst. now rewrite !vget_vdel, Hp.
      * inversion E; subst. auto.
Qed.

(** * remove_segment *)
Theorem frame_remove_segment : stmt_frame_remove_segment nw.
Proof.
  intros s seg v s' H. unfold remove_segment in H.
  destruct (negb _) in H; [discriminate|].
  mon H. monp H. destruct o as [nt|]; [|apply (delete_frame _ _ _ H)].
  monp H. monp H. mon H.
  match type of H with context [tour_new_dummy nw ?x] => destruct (tour_new_dummy nw x) end;
    cbn [add_dummy_tour] in H; monp H; inversion H; subst; clear H;
    intros k Hk; apply neq_of_notin in Hk; destruct Hk as [Hk1 Hk]; apply neq_of_notin in Hk; destruct Hk as [Hk2 _];
    destruct (utc_frame _ _ _ _ _ _ _ _ _ E2 k Hk1) as [A B];
    unfold fresh_dummy in Hk2; apply vid_neq_eqb in Hk2;
    (split; [|reflexivity]); apply tour_at_eq; cbn [with_fields s_tours s_dummies]; rewrite ?vget_vset, ?Hk2; auto.
Qed.

(** * fit_reassign *)
Theorem frame_fit : stmt_frame_fit nw.
Proof.
  intros s seg p r s' H. unfold fit_reassign in H.
  mon H. destruct (negb _) in H; [discriminate|].
  mon H. mon H. mon H. monp H. monp H. monp H. inversion H; subst; clear H.
  intros k Hk. apply neq_of_notin in Hk. destruct Hk as [Hk1 Hk]. apply neq_of_notin in Hk. destruct Hk as [Hk2 _].
  destruct (update_tours_frame _ _ _ _ _ _ _ _ _ _ _ _ _ _ _ _ _ _ _ _ _ _ _ _ E4 k Hk1 Hk2) as (A & B & C).
  split; [|exact C]. apply tour_at_eq; cbn [with_fields s_tours s_dummies]; auto.
Qed.

(** * override_reassign *)
Theorem frame_override : stmt_frame_override nw.
Proof.
  intros s seg p r s' d H. unfold override_reassign in H. destruct (vid_eqb p r) in H; [discriminate|].
  mon H. destruct (negb _) in H; [discriminate|].
  mon H. mon H. monp H. monp H. monp H.
  monp H. monp H. inversion H; subst; clear H.
  match goal with
  | EU : update_tours _ _ _ _ _ _ _ _ _ _ _ _ _ _ _ _ = Ok (_, _, _, _, ?d1, _, _, _, _),
    EM : _ = Ok (_, _, ?dd, _, _, d) |- _ =>
      rename EU into E4'; rename EM into E5';
      assert (Q : (forall k, k <> fresh_dummy s -> vget k dd = vget k d1) /\
              match d with Some x => x = fresh_dummy s | None => True end)
  end.
  { destruct o0 as [np|].
    - monp E5'. destruct (tour_new_dummy nw np); cbn [add_dummy_tour] in E5'; inversion E5'; subst;
        try solve [split; auto].
      split; [|reflexivity]. intros k Hk. rewrite vget_vset.
      unfold fresh_dummy in Hk. now rewrite (vid_neq_eqb _ _ Hk).
    - inversion E5'; subst. split; auto. }
  destruct Q as [Qd Qn]. split; [|exact Qn].
  intros k Hk. apply neq_of_notin in Hk. destruct Hk as [Hk1 Hk]. apply neq_of_notin in Hk. destruct Hk as [Hk2 Hk].
  apply neq_of_notin in Hk. destruct Hk as [Hk3 _].
  destruct (update_tours_frame _ _ _ _ _ _ _ _ _ _ _ _ _ _ _ _ _ _ _ _ _ _ _ _ E4' k Hk1 Hk2) as (A & B & C).
  split; [|exact C]. apply tour_at_eq; cbn [with_fields s_tours s_dummies]; auto.
  rewrite Qd by auto. auto.
Qed.


(** * replace_start_depot / replace_end_depot keep the activities *)
Lemma removelast_snoc {A} (l : list A) x : removelast (l ++ [x]) = l.
Proof. rewrite removelast_app by discriminate. cbn. apply app_nil_r. Qed.

Lemma red_nodes t e nt : replace_end_depot nw t e = Ok nt ->
  t_dummy t = false /\ t_dummy nt = false /\ (2 <= length (t_nodes t))%nat /\
  t_nodes nt = removelast (t_nodes t) ++ [e].
Proof.
  unfold replace_end_depot. intros H. destruct (t_dummy t) eqn:D; [discriminate|].
  destruct (negb _) in H; [discriminate|].
  destruct (Nat.ltb (length (t_nodes t)) 2) eqn:L; [discriminate|]. apply Nat.ltb_ge in L.
  mon H. mon H. inversion H; subst; clear H. cbn [t_dummy t_nodes]. auto.
Qed.

Lemma rsd_nodes t d nt : replace_start_depot nw t d = Ok nt ->
  t_dummy t = false /\ t_dummy nt = false /\
  exists old fnd rest, t_nodes t = old :: fnd :: rest /\ t_nodes nt = d :: fnd :: rest.
Proof.
  unfold replace_start_depot. intros H. destruct (t_dummy t) eqn:D; [discriminate|].
  destruct (negb _) in H; [discriminate|].
  destruct (t_nodes t) as [|old [|fnd rest]] eqn:N; try discriminate.
  mon H. mon H. inversion H; subst; clear H. cbn [t_dummy t_nodes]. split; auto. split; auto.
  exists old, fnd, rest. auto.
Qed.

Lemma red_non_depots t e nt : replace_end_depot nw t e = Ok nt -> non_depots nt = non_depots t.
Proof.
  intros H. apply red_nodes in H. destruct H as (D & D' & L & N). unfold non_depots. rewrite D, D', N.
  destruct (t_nodes t) as [|a [|b r]]; cbn [length] in L; try lia.
  change (removelast (a :: b :: r)) with (a :: removelast (b :: r)).
  cbn [app tl]. apply removelast_snoc.
Qed.

Lemma rsd_non_depots t d nt : replace_start_depot nw t d = Ok nt -> non_depots nt = non_depots t.
Proof.
  intros H. apply rsd_nodes in H. destruct H as (D & D' & old & fnd & rest & N & N'). unfold non_depots.
  rewrite D, D', N, N'. reflexivity.
Qed.

Lemma red_first_last t e nt : replace_end_depot nw t e = Ok nt -> first_node nt = first_node t /\ last_node nt = e.
Proof.
  intros H. apply red_nodes in H. destruct H as (D & D' & L & N). unfold first_node, last_node, nth_node, tlen.
  rewrite <- !last_nth. rewrite N. split.
  - destruct (t_nodes t) as [|a [|b r]]; cbn [length] in L; try lia. reflexivity.
  - rewrite last_app_ne by discriminate. reflexivity.
Qed.

Lemma improve_tour_non_depots usage t ty nt : improve_depots_of_tour nw usage t ty = Ok nt -> non_depots nt = non_depots t.
Proof.
  unfold improve_depots_of_tour. intros H. mon H. mon H. mon H. mon H. mon H. mon H. mon H.
  assert (Q : non_depots a2 = non_depots t).
  { destruct (negb (nid_eqb a0 a1)).
    - apply panic_ok in E2. now apply rsd_non_depots in E2.
    - inversion E2; subst. reflexivity. }
  rewrite <- Q. destruct (negb (nid_eqb a4 a5)).
  - apply panic_ok in H. now apply red_non_depots in H.
  - inversion H; subst. reflexivity.
Qed.

(** * folds over vehicles that replace the tour of each visited vehicle: the last visit of a vehicle decides *)
Section FoldF.
Context {U : Type}.
Variable s : schedule.
Variable f : res (list (vehicle_id * tour) * U * Z) -> vehicle_id -> res (list (vehicle_id * tour) * U * Z).
Variable R : vehicle_id -> tour -> Prop.
Variable l0 : list vehicle_id.
Hypothesis f_strict : forall r v x, f r v = Ok x -> exists y, r = Ok y.
Hypothesis f_step : forall tours u costs v x, In v l0 -> f (Ok (tours, u, costs)) v = Ok x ->
  exists nt u' c, x = (vset v nt tours, u', c) /\ R v nt.

Lemma foldf_strict l r x : fold_left f l r = Ok x -> exists y, r = Ok y.
Proof.
  revert r. induction l as [|v l IH]; cbn [fold_left]; intros r H; [eauto|].
  apply IH in H. destruct H as [y H]. eapply f_strict; eauto.
Qed.

Lemma foldf_get l : incl l l0 -> forall tours u costs tours' u' costs',
  fold_left f l (Ok (tours, u, costs)) = Ok (tours', u', costs') ->
  forall k, (In k l -> exists nt, vget k tours' = Some nt /\ R k nt) /\ (~ In k l -> vget k tours' = vget k tours).
Proof.
  induction l as [|v l IH]; intros Inc tours u costs tours' u' costs' H k; cbn [fold_left] in H.
  - inversion H; subst. split; [intros [] | auto].
  - destruct (foldf_strict _ _ _ H) as [y Hy]. rewrite Hy in H.
    apply f_step in Hy; [|apply Inc; now left].
    destruct Hy as (nt & u1 & c1 & -> & Rv).
    assert (Inc' : incl l l0) by (intros z Hz; apply Inc; now right).
    destruct (IH Inc' _ _ _ _ _ _ H k) as [A B].
    destruct (in_dec vid_eq_dec k l) as [I|I].
    + split; [auto|]. intros N. exfalso. apply N. now right.
    + rewrite (B I), vget_vset. destruct (vid_eqb k v) eqn:E.
      * apply vid_eqb_eq in E. subst k. split; [eauto|]. intros N. exfalso. apply N. now left.
      * apply vid_eqb_neq in E. split.
        -- intros [->|J]; [congruence | contradiction].
        -- auto.
Qed.

(* if every visited vehicle already has an entry in s_tours, no key is added and the order is kept *)
Hypothesis R_key : forall v nt, R v nt -> vget v (s_tours s) <> None.

Lemma foldf_keys l : incl l l0 -> forall tours u costs tours' u' costs',
  map fst tours = map fst (s_tours s) ->
  fold_left f l (Ok (tours, u, costs)) = Ok (tours', u', costs') -> map fst tours' = map fst (s_tours s).
Proof.
  induction l as [|v l IH]; intros Inc tours u costs tours' u' costs' K H; cbn [fold_left] in H.
  - inversion H; subst. auto.
  - destruct (foldf_strict _ _ _ H) as [y Hy]. rewrite Hy in H.
    apply f_step in Hy; [|apply Inc; now left].
    destruct Hy as (nt & u1 & c1 & -> & Rv).
    assert (Inc' : incl l l0) by (intros z Hz; apply Inc; now right).
    eapply (IH Inc'); [|exact H].
    apply R_key in Rv. apply in_keys_iff in Rv. rewrite <- K in Rv. apply in_keys_iff in Rv.
    destruct (vget v tours) as [o|] eqn:G; [|congruence].
    rewrite (keys_vset_old _ _ _ _ G). exact K.
Qed.
End FoldF.

Ltac strict_tac :=
  let r := fresh "r" in let v := fresh "v" in let x := fresh "x" in let H := fresh "H" in
  intros r v x H; destruct r; cbn [bind] in H; try discriminate H; eauto.

(** what a depot-only fold step guarantees about the tour it writes *)
Definition keeps (s : schedule) (v : vehicle_id) (nt : tour) : Prop :=
  exists t, vget v (s_tours s) = Some t /\ non_depots nt = non_depots t.

Lemma keeps_key s v nt : keeps s v nt -> vget v (s_tours s) <> None.
Proof. intros (t & G & _). congruence. Qed.

Lemma activities_from_fold s s' (l : list vehicle_id) tours' :
  s_vehicles s' = s_vehicles s -> s_dummies s' = s_dummies s -> s_forms s' = s_forms s ->
  s_unserved s' = s_unserved s -> s_ids s' = s_ids s -> s_dummy_ids s' = s_dummy_ids s -> s_counter s' = s_counter s ->
  s_tours s' = tours' ->
  map fst tours' = map fst (s_tours s) ->
  (forall k, (In k l -> exists nt, vget k tours' = Some nt /\ keeps s k nt) /\ (~ In k l -> vget k tours' = vget k (s_tours s))) ->
  activities_same s s'.
Proof.
  intros A1 A2 A3 A4 A5 A6 A7 A8 K G. unfold activities_same. rewrite A8.
  repeat (split; [assumption|]). intros v t' Hv.
  destruct (G v) as [GA GB]. destruct (in_dec vid_eq_dec v l) as [I|I].
  - destruct (GA I) as (nt & Q & t & Gt & ND). rewrite Q in Hv. inversion Hv; subst. eauto.
  - rewrite (GB I) in Hv. eauto.
Qed.

(** ** the hypotheses under which the depot-only statements hold: the key discipline of [Inv] *)
Definition real_vehicles (s : schedule) : Prop := RealKeys (s_vehicles s).
Definition dummy_dummies (s : schedule) : Prop := DummyKeys (s_dummies s).
Definition real_listing (s : schedule) : Prop := forall v, In v (vehicles_iter_all nw s) -> vid_is_real v = true.

Lemma type_real s v ty : real_vehicles s -> vget v (s_vehicles s) = Some ty -> vid_is_real v = true.
Proof. intros H G. eapply H; eauto. Qed.

Theorem frame_improve_under_keys : forall s vs s',
  real_vehicles s -> dummy_dummies s -> improve_depots nw s vs = Ok s' -> activities_same s s'.
Proof.
  intros s vs s' RK DK H. unfold improve_depots in H. cbv zeta in H.
  mon H. monp H. monp H. inversion H; subst; clear H.
  set (ids := match vs with Some l => l | None => vehicles_iter_all nw s end) in *.
  match type of E0 with fold_left ?F _ _ = _ =>
    assert (ST : forall tours u costs v x, In v ids -> F (Ok (tours, u, costs)) v = Ok x ->
                 exists nt u' c, x = (vset v nt tours, u', c) /\ keeps s v nt) end.
  { intros tours u costs v x Hv H. cbn [bind] in H.
    mon H. mon H. mon H. mon H. inversion H; subst; clear H.
    apply tour_of_panic_ok in E2. apply vehicle_type_of_panic_ok in E3.
    apply tour_of_real in E2; auto; [|eapply type_real; eauto].
    eexists _, _, _. split; [reflexivity|]. exists a0. split; auto. eapply improve_tour_non_depots; eauto. }
  eapply (activities_from_fold s _ ids); cbn [with_fields s_vehicles s_dummies s_forms s_unserved s_ids s_dummy_ids s_counter s_tours];
    try reflexivity.
  - eapply (foldf_keys s _ (keeps s) ids); [| exact ST | apply keeps_key | apply incl_refl | reflexivity | exact E0].
    strict_tac.
  - eapply (foldf_get _ (keeps s) ids); [| exact ST | apply incl_refl | exact E0]. strict_tac.
Qed.

Theorem frame_greedy_under_keys : forall s s',
  real_listing s -> dummy_dummies s -> reassign_end_depots_greedily nw s = Ok s' -> activities_same s s'.
Proof.
  intros s s' RL DK H. unfold reassign_end_depots_greedily in H.
  monp H. monp H. inversion H; subst; clear H.
  set (ids := vehicles_iter_all nw s) in *.
  match type of E with fold_left ?F _ _ = _ =>
    assert (ST : forall tours u costs v x, In v ids -> F (Ok (tours, u, costs)) v = Ok x ->
                 exists nt u' c, x = (vset v nt tours, u', c) /\ keeps s v nt) end.
  { intros tours u costs v x Hv H. cbn [bind] in H.
    mon H. mon H. mon H. mon H. mon H. mon H. inversion H; subst; clear H.
    apply tour_of_panic_ok in E1. apply tour_of_real in E1; auto.
    eexists _, _, _. split; [reflexivity|]. exists a. split; auto. apply panic_ok in E4. eapply red_non_depots; eauto. }
  eapply (activities_from_fold s _ ids); cbn [with_fields s_vehicles s_dummies s_forms s_unserved s_ids s_dummy_ids s_counter s_tours];
    try reflexivity.
  - eapply (foldf_keys s _ (keeps s) ids); [| exact ST | apply keeps_key | apply incl_refl | reflexivity | exact E].
    strict_tac.
  - eapply (foldf_get _ (keeps s) ids); [| exact ST | apply incl_refl | exact E]. strict_tac.
Qed.

(** the consistent fold: everything a step reads comes from the ORIGINAL schedule *)
Definition aligned (s : schedule) (v : vehicle_id) (nt : tour) : Prop :=
  exists t ty tr nx tn sdn,
    tour_of s v = Ok t /\ vget v (s_vehicles s) = Some ty /\ zget ty (s_trans s) = Some tr /\
    get_successor_of tr v = Ok nx /\ tour_of s nx = Ok tn /\ start_depot nw tn = Ok sdn /\
    replace_end_depot nw t (get_end_depot_node nw (get_depot_idx nw sdn)) = Ok nt.

Definition cons_step (s : schedule) :=
  fun (acc : res (list (vehicle_id * tour) * usage_t * Z)) (v : vehicle_id) =>
       do (tours, u, costs) <- acc;
       do t <- (match tour_of s v with Ok t => Ok t | _ => Panic end);
       do ty <- (match vehicle_type_of s v with Ok ty => Ok ty | _ => Panic end);
       do tr <- unwrap_opt (zget ty (s_trans s));
       do nx <- get_successor_of tr v;
       do tn <- (match tour_of s nx with Ok t => Ok t | _ => Panic end);
       do sdn <- (match start_depot nw tn with Ok x => Ok x | _ => Panic end);
       let ned := get_end_depot_node nw (get_depot_idx nw sdn) in
       do nt <- (match replace_end_depot nw t ned with Ok x => Ok x | _ => Panic end);
       do c <- z_sub_cost (costs + t_costs nt) (t_costs t);
       let tours' := vset v nt tours in
       do u' <- update_depot_usage nw s u (s_vehicles s) tours' v;
       Ok (tours', u', c).

Lemma cons_step_strict s r v x : cons_step s r v = Ok x -> exists y, r = Ok y.
Proof. unfold cons_step. destruct r; cbn [bind]; intros H; try discriminate H; eauto. Qed.

Lemma consistent_step s tours u costs v x :
  cons_step s (Ok (tours, u, costs)) v = Ok x ->
     exists nt u' c, x = (vset v nt tours, u', c) /\ aligned s v nt.
Proof.
  intros H. unfold cons_step in H. cbn [bind] in H.
  mon H. mon H. mon H. mon H. mon H. mon H. mon H. mon H. mon H. inversion H; subst; clear H.
  apply tour_of_panic_ok in E. apply vehicle_type_of_panic_ok in E0. apply unwrap_opt_ok in E1.
  apply tour_of_panic_ok in E3. apply panic_ok in E4. apply panic_ok in E5.
  eexists _, _, _. split; [reflexivity|]. exists a, a0, a1, a2, a3, a4. auto 10.
Qed.

Lemma aligned_keeps s v nt : real_vehicles s -> dummy_dummies s -> aligned s v nt -> keeps s v nt.
Proof.
  intros RK DK (t & ty & tr & nx & tn & sdn & A1 & A2 & A3 & A4 & A5 & A6 & A7).
  apply tour_of_real in A1; auto; [|eapply type_real; eauto].
  exists t. split; auto. eapply red_non_depots; eauto.
Qed.

Theorem frame_consistent_under_keys : forall s s',
  real_vehicles s -> dummy_dummies s -> reassign_end_depots_consistent nw s = Ok s' -> activities_same s s'.
Proof.
  intros s s' RK DK H. unfold reassign_end_depots_consistent in H.
  monp H. monp H. inversion H; subst; clear H.
  set (ids := vehicles_iter_all nw s) in *.
  change (fold_left (cons_step s) ids (Ok (s_tours s, s_usage s, s_costs s)) = Ok (l, l0, z)) in E.
  eapply (activities_from_fold s _ ids); cbn [with_fields s_vehicles s_dummies s_forms s_unserved s_ids s_dummy_ids s_counter s_tours];
    try reflexivity.
  - eapply (foldf_keys s _ (keeps s) ids); [| | apply keeps_key | apply incl_refl | reflexivity | exact E].
    + apply cons_step_strict.
    + intros tours u costs v x _ H. apply consistent_step in H. destruct H as (nt & u' & c & -> & A).
      eexists _, _, _. split; [reflexivity|]. now apply aligned_keeps.
  - eapply (foldf_get _ (keeps s) ids); [| | apply incl_refl | exact E].
    + apply cons_step_strict.
    + intros tours u costs v x _ H. apply consistent_step in H. destruct H as (nt & u' & c & -> & A).
      eexists _, _, _. split; [reflexivity|]. now apply aligned_keeps.
Qed.

(** * recompute_transitions_for *)
Theorem frame_recompute : stmt_frame_recompute nw.
Proof.
  intros s ts s' H. unfold recompute_transitions_for in H. monp H. inversion H; subst; clear H.
  cbn [with_fields s_tours s_costs s_usage]. repeat (split; [reflexivity|]).
  unfold activities_same. cbn [with_fields s_vehicles s_dummies s_forms s_unserved s_ids s_dummy_ids s_counter s_tours].
  repeat (split; [reflexivity|]). intros v t' G. eauto.
Qed.

(** * for reachable schedules *)
Lemma inv_real_listing s : Inv nw s -> real_listing s.
Proof. intros I. destruct (iter_all_ok nw s _ (inv_ids nw s I)) as [_ RL]. exact RL. Qed.

Theorem frame_improve_reachable : forall s vs s', reachable nw s -> improve_depots nw s vs = Ok s' -> activities_same s s'.
Proof.
  intros s vs s' Rs. apply SchedCostsFacts.reachable_inv in Rs. apply frame_improve_under_keys; [apply (inv_real nw s Rs) | apply (inv_dummy nw s Rs)].
Qed.
Theorem frame_greedy_reachable : forall s s', reachable nw s -> reassign_end_depots_greedily nw s = Ok s' -> activities_same s s'.
Proof.
  intros s s' Rs. apply SchedCostsFacts.reachable_inv in Rs. apply frame_greedy_under_keys; [now apply inv_real_listing | apply (inv_dummy nw s Rs)].
Qed.
Theorem frame_consistent_reachable : forall s s', reachable nw s -> reassign_end_depots_consistent nw s = Ok s' -> activities_same s s'.
Proof.
  intros s s' Rs. apply SchedCostsFacts.reachable_inv in Rs. apply frame_consistent_under_keys; [apply (inv_real nw s Rs) | apply (inv_dummy nw s Rs)].
Qed.

(** * C05 / C16: the final alignment *)
Lemma in_iter_all s v ty : ListingWeak nw s -> vget v (s_vehicles s) = Some ty -> In v (vehicles_iter_all nw s).
Proof.
  intros L G. unfold vehicles_iter_all. apply in_flat_map. exists ty. split.
  - rewrite <- (lw_ids_keys nw s L). apply (lw_ids nw s L) in G. unfold vehicles_iter in G.
    destruct (zget ty (s_ids s)) eqn:Z; [|destruct G].
    unfold zget in Z. apply (assoc_in Z.eqb Z.eqb_eq) in Z. unfold SchedStruct.keys. now apply (in_map fst) in Z.
  - now apply (lw_ids nw s L).
Qed.

Theorem consistent_aligns : stmt_consistent_aligns nw.
Proof.
  intros s s' Rs H v ty tr nx t t' tn Gty Gtr Gnx Gt Gt' Gtn.
  pose proof (reachable_listing_partial nw s Rs) as L.
  pose proof (in_iter_all s v ty L Gty) as Iv.
  unfold reassign_end_depots_consistent in H.
  monp H. monp H. inversion H; subst; clear H. cbn [with_fields s_tours] in Gt'.
  assert (G : exists nt, vget v l = Some nt /\ aligned s v nt).
  { change (fold_left (cons_step s) (vehicles_iter_all nw s) (Ok (s_tours s, s_usage s, s_costs s)) = Ok (l, l0, z)) in E.
    eapply (foldf_get (cons_step s) (aligned s) (vehicles_iter_all nw s)); [| | apply incl_refl | exact E | exact Iv].
    - apply cons_step_strict.
    - intros tours u costs w x _ H. now apply consistent_step in H. }
  destruct G as (nt & Q & t0 & ty0 & tr0 & nx0 & tn0 & sdn & A1 & A2 & A3 & A4 & A5 & A6 & A7).
  rewrite Q in Gt'. inversion Gt'; subst t'; clear Gt'.
  unfold tour_of in A1. rewrite Gt in A1. inversion A1; subst t0; clear A1.
  rewrite Gty in A2. inversion A2; subst ty0; clear A2.
  rewrite Gtr in A3. inversion A3; subst tr0; clear A3.
  rewrite Gnx in A4. inversion A4; subst nx0; clear A4.
  unfold tour_of in A5. rewrite Gtn in A5. inversion A5; subst tn0; clear A5.
  unfold start_depot in A6. destruct (is_start_depot (nd nw (first_node tn))); inversion A6; subst sdn; clear A6.
  apply red_first_last in A7. exact A7.
Qed.

End Frame.

(** * the three depot-only statements as given (ALL schedule records) are false: witnesses.
      Network: two back-to-back trips SV 4 -> SV 5 of type 0, one depot (SD 0 / ED 1) plus the overflow depot.
      [s1] is the reachable schedule after spawning one vehicle for [SV 4; SV 5]; the witnesses are ill-formed
      records derived from it (NOT reachable: they violate the key discipline of [Inv]), in which a processed id has
      its tour only in [s_dummies]: [tour_of] falls back to the dummies, the operation then inserts the id as a NEW key
      of [s_tours], so the clause [map fst (s_tours s') = map fst (s_tours s)] (and the last clause) fails. *)
Definition instF : instance := {|
  i_types := [ {| vt_cap := 100; vt_seats := 50; vt_limit := None |} ];
  i_nlocs := 2;
  i_depots := Some [ {| id_loc := 0; id_cap := 5; id_allowed := [(0, None)] |} ];
  i_routes := [ {| r_type := 0; r_segs := [ {| rs_origin := 0; rs_dest := 1; rs_dist := 1000; rs_dur := 3600; rs_limit := None |} ] |};
                {| r_type := 0; r_segs := [ {| rs_origin := 1; rs_dest := 0; rs_dist := 1000; rs_dur := 3600; rs_limit := None |} ] |} ];
  i_departures := [ {| d_route := 0; d_segs := [ {| ds_rseg := 0; ds_dep := 43200; ds_pass := 10; ds_seated := 5 |} ] |};
                    {| d_route := 1; d_segs := [ {| ds_rseg := 0; ds_dep := 46800; ds_pass := 10; ds_seated := 5 |} ] |} ];
  i_slots := None;
  i_dh_dur := [[0; 600]; [600; 0]];
  i_dh_dist := [[0; 1000]; [1000; 0]];
  i_params := {| p_forbid := false; p_min := 0; p_dht := 0; p_maxdist := 0;
                 c_staff := 1; c_service := 1; c_maint := 0; c_dh := 5; c_idle := 1 |} |}.

Definition nwF : network := Eval vm_compute in get_ok (load instF []) nw_dflt.
Lemma nwF_loaded : load instF [] = Ok nwF.
Proof. vm_compute. reflexivity. Qed.

Definition sF0 : schedule := Eval vm_compute in get_ok (empty_schedule nwF) s_dflt.
Definition sF1 : schedule := Eval vm_compute in fst (get_ok (spawn_vehicle_for_path nwF sF0 0 [SV 4; SV 5]) (s_dflt, Veh 99)).
Lemma sF0_ok : empty_schedule nwF = Ok sF0.
Proof. vm_compute. reflexivity. Qed.
Lemma sF1_ok : spawn_vehicle_for_path nwF sF0 0 [SV 4; SV 5] = Ok (sF1, Veh 0).
Proof. vm_compute. reflexivity. Qed.
Definition tF1 : tour := Eval vm_compute in match s_tours sF1 with (_, t) :: _ => t | [] => new_computing nwF [] false end.

(* the tour of Veh 0 is filed under s_dummies instead of s_tours *)
Definition sFbad : schedule :=
  with_fields (s_vehicles sF1) [] (s_trans sF1) (s_forms sF1) (s_usage sF1) [(Veh 0, tF1)] (s_counter sF1) (s_ids sF1)
    (s_dummy_ids sF1) (s_unserved sF1) (s_viol sF1) (s_costs sF1).
(* a "vehicle" with a dummy id: typed, listed, in the usage sets and alone in a rotation cycle, tour under s_dummies *)
Definition sFbad3 : schedule :=
  with_fields [(Veh 0, 0); (Dummy 7, 0)] [(Veh 0, tF1)]
    [(0, {| tr_cycles := [([Veh 0], 2000); ([Dummy 7], 2000)]; tr_viol := 4000; tr_count := 4000;
            tr_lookup := [(Veh 0, 0%nat); (Dummy 7, 1%nat)]; tr_empty := [] |})]
    (s_forms sF1) [(0, 0, ([Veh 0; Dummy 7], [Veh 0; Dummy 7]))] [(Dummy 7, tF1)] 8 [(0, [Veh 0; Dummy 7])]
    [Dummy 7] (s_unserved sF1) 4000 (s_costs sF1).

Definition sF_imp : schedule := Eval vm_compute in get_ok (improve_depots nwF sFbad None) s_dflt.
Definition sF_gre : schedule := Eval vm_compute in get_ok (reassign_end_depots_greedily nwF sFbad) s_dflt.
Definition sF_con : schedule := Eval vm_compute in get_ok (reassign_end_depots_consistent nwF sFbad3) s_dflt.
Lemma sF_imp_ok : improve_depots nwF sFbad None = Ok sF_imp.
Proof. vm_compute. reflexivity. Qed.
Lemma sF_gre_ok : reassign_end_depots_greedily nwF sFbad = Ok sF_gre.
Proof. vm_compute. reflexivity. Qed.
Lemma sF_con_ok : reassign_end_depots_consistent nwF sFbad3 = Ok sF_con.
Proof. vm_compute. reflexivity. Qed.

(* the keys of s_tours before and after *)
Lemma sF_imp_keys : map fst (s_tours sFbad) = [] /\ map fst (s_tours sF_imp) = [Veh 0].
Proof. vm_compute. auto. Qed.
Lemma sF_gre_keys : map fst (s_tours sFbad) = [] /\ map fst (s_tours sF_gre) = [Veh 0].
Proof. vm_compute. auto. Qed.
Lemma sF_con_keys : map fst (s_tours sFbad3) = [Veh 0] /\ map fst (s_tours sF_con) = [Veh 0; Dummy 7].
Proof. vm_compute. auto. Qed.

Theorem frame_improve_refuted_nwF : ~ stmt_frame_improve nwF.
Proof.
  intros H. destruct (H _ _ _ sF_imp_ok) as (_ & _ & _ & _ & _ & _ & _ & K & _).
  destruct sF_imp_keys as [A B]. rewrite A, B in K. discriminate K.
Qed.
Theorem frame_greedy_refuted_nwF : ~ stmt_frame_greedy nwF.
Proof.
  intros H. destruct (H _ _ sF_gre_ok) as (_ & _ & _ & _ & _ & _ & _ & K & _).
  destruct sF_gre_keys as [A B]. rewrite A, B in K. discriminate K.
Qed.
Theorem frame_consistent_refuted_nwF : ~ stmt_frame_consistent nwF.
Proof.
  intros H. destruct (H _ _ sF_con_ok) as (_ & _ & _ & _ & _ & _ & _ & K & _).
  destruct sF_con_keys as [A B]. rewrite A, B in K. discriminate K.
Qed.

Theorem frame_improve_refuted : ~ (forall nw, stmt_frame_improve nw).
Proof. intros H. exact (frame_improve_refuted_nwF (H nwF)). Qed.
Theorem frame_greedy_refuted : ~ (forall nw, stmt_frame_greedy nw).
Proof. intros H. exact (frame_greedy_refuted_nwF (H nwF)). Qed.
Theorem frame_consistent_refuted : ~ (forall nw, stmt_frame_consistent nw).
Proof. intros H. exact (frame_consistent_refuted_nwF (H nwF)). Qed.

(* the witnesses are not reachable: they break the key discipline *)
Lemma sFbad_not_inv : ~ Inv nwF sFbad.
Proof. intros I. pose proof (inv_dummy nwF sFbad I (Veh 0) tF1 eq_refl) as Q. discriminate Q. Qed.
Lemma sFbad3_not_inv : ~ Inv nwF sFbad3.
Proof. intros I. pose proof (inv_real nwF sFbad3 I (Dummy 7) 0 eq_refl) as Q. discriminate Q. Qed.
Lemma sFbad_not_reachable : ~ reachable nwF sFbad.
Proof. intros Rs. apply sFbad_not_inv. now apply SchedCostsFacts.reachable_inv. Qed.
Lemma sFbad3_not_reachable : ~ reachable nwF sFbad3.
Proof. intros Rs. apply sFbad3_not_inv. now apply SchedCostsFacts.reachable_inv. Qed.

(* non-vacuity of the positive theorems on the same network: the three operations succeed on the reachable sF1 *)
Lemma sF1_reachable : reachable nwF sF1.
Proof. eapply r_step; [apply r_empty; exact sF0_ok | eapply st_spawn; exact sF1_ok]. Qed.
Example sF1_ops_succeed :
  is_ok (improve_depots nwF sF1 None) = true /\ is_ok (reassign_end_depots_greedily nwF sF1) = true /\
  is_ok (reassign_end_depots_consistent nwF sF1) = true.
Proof. vm_compute. auto. Qed.

Print Assumptions frame_spawn.
Print Assumptions frame_delete.
Print Assumptions frame_add_path.
Print Assumptions frame_remove_segment.
Print Assumptions frame_fit.
Print Assumptions frame_override.
Print Assumptions frame_recompute.
Print Assumptions consistent_aligns.
Print Assumptions frame_improve_under_keys.
Print Assumptions frame_greedy_under_keys.
Print Assumptions frame_consistent_under_keys.
Print Assumptions frame_improve_reachable.
Print Assumptions frame_greedy_reachable.
Print Assumptions frame_consistent_reachable.
Print Assumptions frame_improve_refuted.
Print Assumptions frame_greedy_refuted.
Print Assumptions frame_consistent_refuted.

Check (frame_spawn : forall nw, stmt_frame_spawn nw).
Check (frame_delete : forall nw, stmt_frame_delete nw).
Check (frame_add_path : forall nw, stmt_frame_add_path nw).
Check (frame_remove_segment : forall nw, stmt_frame_remove_segment nw).
Check (frame_fit : forall nw, stmt_frame_fit nw).
Check (frame_override : forall nw, stmt_frame_override nw).
Check (frame_recompute : forall nw, stmt_frame_recompute nw).
Check (consistent_aligns : forall nw, stmt_consistent_aligns nw).
Check frame_improve_under_keys.
Check frame_greedy_under_keys.
Check frame_consistent_under_keys.
Check frame_improve_reachable.
