(* SchedFrameStmts.v — C13 at the level of the model (Schedule.v): each modification changes exactly what it
   documents. Frame statements: what must NOT change. (C05/C16: what the final end-depot alignment achieves.)
   Proofs in SchedFrameFacts.v. *)
From RS Require Import Base Network Tour Transition Schedule SchedInv.

Section Fr.
Variable nw : network.

Definition tour_at (s : schedule) (v : vehicle_id) : option tour :=
  match vget v (s_tours s) with Some t => Some t | None => vget v (s_dummies s) end.
(* every tour (real or dummy) other than those of the listed ids is the same before and after *)
Definition others_same (s s' : schedule) (touched : list vehicle_id) : Prop :=
  forall v, ~ In v touched -> tour_at s' v = tour_at s v /\ vget v (s_vehicles s') = vget v (s_vehicles s).
(* formations of all nodes outside [nodes] are the same *)
Definition forms_same_except (s s' : schedule) (nodes : list node_id) : Prop :=
  forall n, ~ In n nodes -> nget n (s_forms s') = nget n (s_forms s).
Definition fresh_dummy (s : schedule) : vehicle_id := Dummy (s_counter s).
Definition fresh_vehicle (s : schedule) : vehicle_id := Veh (s_counter s).

(** spawn: only the new vehicle appears; formations change only at the path's nodes *)
Definition stmt_frame_spawn : Prop :=
  forall s ty path s' v, spawn_vehicle_for_path nw s ty path = Ok (s', v) ->
    v = fresh_vehicle s /\ others_same s s' [v] /\ forms_same_except s s' path /\ s_dummies s' = s_dummies s.

(** delete (replace_vehicle_by_dummy): the vehicle disappears, at most one new dummy appears, nothing else moves;
    formations change only at the nodes of the deleted tour *)
Definition stmt_frame_delete : Prop :=
  forall s v s' t, replace_vehicle_by_dummy nw s v = Ok s' -> vget v (s_tours s) = Some t ->
    vget v (s_tours s') = None /\ vget v (s_vehicles s') = None /\
    others_same s s' [v; fresh_dummy s] /\ forms_same_except s s' (t_nodes t).

(** add_path_to_vehicle_tour: only v's tour changes; formations change only at nodes of the path or of the
    returned conflict path; no dummy tour changes *)
Definition stmt_frame_add_path : Prop :=
  forall s v path s' c, add_path_to_vehicle_tour nw s v path = Ok (s', c) ->
    others_same s s' [v] /\ s_dummies s' = s_dummies s /\
    forms_same_except s s' (path ++ match c with Some rp => rp | None => [] end).

(** remove_segment: only v and the fresh dummy change *)
Definition stmt_frame_remove_segment : Prop :=
  forall s seg v s', remove_segment nw s seg v = Ok s' -> others_same s s' [v; fresh_dummy s].

(** fit / override: only provider, receiver and (override) the fresh dummy change *)
Definition stmt_frame_fit : Prop :=
  forall s seg p r s', fit_reassign nw s seg p r = Ok s' -> others_same s s' [p; r].
Definition stmt_frame_override : Prop :=
  forall s seg p r s' d, override_reassign nw s seg p r = Ok (s', d) ->
    others_same s s' [p; r; fresh_dummy s] /\
    (match d with Some x => x = fresh_dummy s | None => True end).

(** depot-only operations change no activity: vehicles, types, dummies, formations, unserved passengers are
    untouched and every tour keeps its non-depot nodes *)
Definition activities_same (s s' : schedule) : Prop :=
  s_vehicles s' = s_vehicles s /\ s_dummies s' = s_dummies s /\ s_forms s' = s_forms s /\
  s_unserved s' = s_unserved s /\ s_ids s' = s_ids s /\ s_dummy_ids s' = s_dummy_ids s /\ s_counter s' = s_counter s /\
  map fst (s_tours s') = map fst (s_tours s) /\
  forall v t', vget v (s_tours s') = Some t' -> exists t, vget v (s_tours s) = Some t /\ non_depots t' = non_depots t.
Definition stmt_frame_improve : Prop :=
  forall s vs s', improve_depots nw s vs = Ok s' -> activities_same s s'.
Definition stmt_frame_greedy : Prop :=
  forall s s', reassign_end_depots_greedily nw s = Ok s' -> activities_same s s'.
Definition stmt_frame_consistent : Prop :=
  forall s s', reassign_end_depots_consistent nw s = Ok s' -> activities_same s s'.
(** recomputing the rotation cycles touches only the transitions and the cached violation *)
Definition stmt_frame_recompute : Prop :=
  forall s ts s', recompute_transitions_for nw s ts = Ok s' ->
    s_tours s' = s_tours s /\ s_costs s' = s_costs s /\ s_usage s' = s_usage s /\ activities_same s s'.

(** C05 / C16: the final alignment makes every vehicle end in the depot where its successor in the (unchanged)
    rotation cycle starts, and moves no start depot *)
Definition stmt_consistent_aligns : Prop :=
  forall s s', reachable nw s -> reassign_end_depots_consistent nw s = Ok s' ->
    forall v ty tr nx t t' tn,
      vget v (s_vehicles s) = Some ty -> zget ty (s_trans s) = Some tr -> get_successor_of tr v = Ok nx ->
      vget v (s_tours s) = Some t -> vget v (s_tours s') = Some t' -> vget nx (s_tours s) = Some tn ->
      first_node t' = first_node t /\
      last_node t' = get_end_depot_node nw (get_depot_idx nw (first_node tn)).
End Fr.
