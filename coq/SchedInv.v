(* SchedInv.v — reachable schedules of the model (Schedule.v) and the schedule-level exactness invariants (C09):
   statements; proofs in SchedViolFacts.v / SchedCostsFacts.v / SchedUnservedFacts.v. *)
From RS Require Import Base Network Tour Transition Schedule.

Section Inv.
Variable nw : network.

(* one public modification (any arguments; only successful calls produce a new schedule) *)
Inductive step : schedule -> schedule -> Prop :=
| st_spawn s ty path s' v : spawn_vehicle_for_path nw s ty path = Ok (s', v) -> step s s'
| st_spawn_dummy s d ty s' v : spawn_to_replace_dummy nw s d ty = Ok (s', v) -> step s s'
| st_delete s v s' : replace_vehicle_by_dummy nw s v = Ok s' -> step s s'
| st_add_path s v path s' c : add_path_to_vehicle_tour nw s v path = Ok (s', c) -> step s s'
| st_remove_segment s seg v s' : remove_segment nw s seg v = Ok s' -> step s s'
| st_fit s seg p r s' : fit_reassign nw s seg p r = Ok s' -> step s s'
| st_override s seg p r s' d : override_reassign nw s seg p r = Ok (s', d) -> step s s'
| st_improve s vs s' : improve_depots nw s vs = Ok s' -> step s s'
| st_greedy s s' : reassign_end_depots_greedily nw s = Ok s' -> step s s'
| st_recompute s ts s' : recompute_transitions_for nw s ts = Ok s' -> step s s'
| st_consistent s s' : reassign_end_depots_consistent nw s = Ok s' -> step s s'.

(* every schedule obtainable from the empty one by a finite sequence of public modifications *)
Inductive reachable : schedule -> Prop :=
| r_empty s : empty_schedule nw = Ok s -> reachable s
| r_step s s' : reachable s -> step s s' -> reachable s'.

(* the cached maintenance violation is the sum over the transitions of all types *)
Definition ViolOK (s : schedule) : Prop :=
  NoDup (map fst (s_trans s)) /\ s_viol s = z_sum (map (fun '(_, t) => tr_viol t) (s_trans s)).

(* the cached costs are the sum of the tours' (cached) costs plus the staff term *)
Definition CostsOK (s : schedule) : Prop :=
  NoDup (map fst (s_tours s)) /\
  s_costs s = z_sum (map (fun '(_, t) => t_costs t) (s_tours s)) + nw_nservice nw * c_staff (nw_params nw).

(* the cached unserved passengers are the sums of the per-node shortfalls of the stored formations *)
Definition form_at (s : schedule) (n : node_id) : list (vehicle_id * Z) :=
  match nget n (s_forms s) with Some f => f | None => [] end.
Definition UnservedOK (s : schedule) : Prop :=
  NoDup (map fst (s_forms s)) /\
  s_unserved s =
    (z_sum (map (fun n => fst (unserved_at_node nw n (form_at s n))) (all_service_nodes nw)),
     z_sum (map (fun n => snd (unserved_at_node nw n (form_at s n))) (all_service_nodes nw))).

Definition stmt_reachable_viol : Prop := forall s, reachable s -> ViolOK s.
Definition stmt_reachable_costs : Prop := forall s, reachable s -> CostsOK s.
(* service node ids of the network are pairwise distinct and each has a formation entry from the start *)
Definition stmt_reachable_unserved : Prop :=
  NoDup (coverable_nodes nw) -> (forall n, In n (nw_maint nw) -> is_service (nd nw n) = false) ->
  forall s, reachable s -> UnservedOK s.
End Inv.
