(* SchedListFacts.v — the listing invariant [stmt_reachable_listing] (SchedStruct.v).

   HISTORY. Against the first model the statement was false on a loaded, well-formed network: on nw1 of X_C17.v the
   history  empty -> spawn_vehicle_for_path 0 [SV 4] -> replace_vehicle_by_dummy (Veh 0) ->
   override_reassign (SV 4, SV 4) (Dummy 1) (Dummy 1)  ended with keys (s_dummies) = [Dummy 1; Dummy 2] and
   s_dummy_ids = [Dummy 2] (update_tours deletes the provider dummy from both, update_tour_and_costs for the
   receiver re-inserts it into s_dummies only). Repaired in the code and the model: override_reassign refuses
   provider = receiver.

   RESULT against the repaired model. The same path through update_tours is still open for
   [fit_reassign seg p r] with p = r = a dummy, whenever fit_loop manages to move the whole provider tour "into
   itself". On well-formed networks every sub-segment conflicts with itself, so nothing moves; but the statement
   quantifies over ALL network records and all histories, and there fit_loop can be steered (witness below: a loaded
   instance with two negative dead-head durations, which no real input can express since Duration is unsigned).
     - [reachable_listing_refuted]        : ~ (forall nw, stmt_reachable_listing nw)      (witness network [nww];
                                            no loaded real input has negative durations)
     - [reachable_listing_partial]        : every clause of ListingOK except the direction
                                            "key of s_dummies -> listed in s_dummy_ids" ([ListingWeak]) holds for ALL
                                            reachable schedules of ALL networks
     - [reachable_listing_under_distinct] : full ListingOK for every schedule reachable by histories whose
                                            fit_reassign calls have provider <> receiver ([dstep]/[dreachable]:
                                            the constructors of [step] with that one extra premise); no other hypothesis
     - [reachable_listing_under_guard]    : the same under the finer guard "not (provider = receiver = a dummy)". *)
From Coq Require Import Sorted.
From RS Require Import SchedPeel Base BaseFacts Network Tour Transition Schedule SchedInv SchedStruct SchedCostsFacts.
Local Open Scope Z_scope.

(** * vid_cmp is a strict total order *)
Lemma vid_ltb_spec a b : vid_ltb a b = true <->
  (vid_rank a < vid_rank b \/ (vid_rank a = vid_rank b /\ vid_idx a < vid_idx b)).
Proof.
  unfold vid_ltb, vid_cmp.
  destruct (Z.compare_spec (vid_rank a) (vid_rank b)); destruct (Z.compare_spec (vid_idx a) (vid_idx b));
    split; intros; try discriminate; try lia; auto.
Qed.

Lemma vid_cmp_gt a b : vid_cmp a b = Gt -> vid_ltb b a = true.
Proof.
  intros H. apply vid_ltb_spec. revert H. unfold vid_cmp.
  destruct (Z.compare_spec (vid_rank a) (vid_rank b)); destruct (Z.compare_spec (vid_idx a) (vid_idx b));
    intros; try discriminate; lia.
Qed.

Lemma vid_lt_trans a b c : vid_lt a b -> vid_lt b c -> vid_lt a c.
Proof. unfold vid_lt. rewrite !vid_ltb_spec. lia. Qed.

Lemma vid_lt_irrefl a : ~ vid_lt a a.
Proof. unfold vid_lt. rewrite vid_ltb_spec. lia. Qed.

Lemma vid_trichotomy a b : vid_lt a b \/ a = b \/ vid_lt b a.
Proof.
  destruct (vid_cmp a b) eqn:C.
  - right; left. now apply vid_cmp_eq.
  - left. unfold vid_lt, vid_ltb. now rewrite C.
  - right; right. now apply vid_cmp_gt.
Qed.

(** * sorted listings *)
Lemma sorted_insert_sorted v l :
  StronglySorted vid_lt l -> ~ In v l -> StronglySorted vid_lt (sorted_insert v l).
Proof.
  induction l as [|x r IH]; cbn [sorted_insert]; intros S N.
  - constructor; constructor.
  - inversion S as [|? ? Sr Fr]; subst. destruct (vid_cmp v x) eqn:C.
    + apply vid_cmp_eq in C. subst. exfalso. apply N. now left.
    + assert (L : vid_lt v x) by (unfold vid_lt, vid_ltb; now rewrite C).
      constructor; auto. constructor; auto.
      eapply Forall_impl; [|exact Fr]. intros y Hy. eapply vid_lt_trans; eauto.
    + constructor.
      * apply IH; auto. intros G. apply N. now right.
      * apply Forall_forall. intros y Hy. apply sorted_insert_in in Hy. destruct Hy as [->|Hy].
        -- now apply vid_cmp_gt.
        -- rewrite Forall_forall in Fr. auto.
Qed.

Lemma filter_sorted {A} (R : A -> A -> Prop) f l : StronglySorted R l -> StronglySorted R (filter f l).
Proof.
  induction 1 as [|a l S IH F]; cbn [filter]; [constructor|].
  destruct (f a); auto. constructor; auto.
  apply Forall_forall. intros y Hy. apply filter_In in Hy. rewrite Forall_forall in F. apply F. tauto.
Qed.

Lemma set_del_sorted v l : StronglySorted vid_lt l -> StronglySorted vid_lt (set_del v l).
Proof. apply filter_sorted. Qed.

(** * keys of the association lists *)
Lemma in_keys_iff {A} v (l : list (vehicle_id * A)) : In v (map fst l) <-> vget v l <> None.
Proof.
  split.
  - intros I H. apply vget_none_keys in H. contradiction.
  - intros H. destruct (vget v l) eqn:G; [|congruence]. eapply vget_in_keys; eauto.
Qed.

Lemma keys_vset_nodup {A} v x (l : list (vehicle_id * A)) : NoDup (map fst l) -> NoDup (map fst (vset v x l)).
Proof.
  intros N. destruct (vget v l) eqn:G.
  - erewrite keys_vset_old; eauto.
  - rewrite keys_vset_new by auto. apply NoDup_snoc; auto. now apply vget_none_keys.
Qed.

Lemma keys_zrepl {A} k (x : A) (l : list (Z * A)) :
  map fst (map (fun '(k', y) => if k' =? k then (k', x) else (k', y)) l) = map fst l.
Proof.
  induction l as [|[k' y] l IH]; cbn [map fst]; auto. rewrite IH. destruct (k' =? k); auto.
Qed.

Lemma keys_zset_old {A} k (x o : A) (l : list (Z * A)) : zget k l = Some o -> map fst (zset k x l) = map fst l.
Proof. intros H. unfold zset. rewrite zset_existsb, H. apply keys_zrepl. Qed.

Lemma vehicle_type_of_ok s v ty : vehicle_type_of s v = Ok ty -> vget v (s_vehicles s) = Some ty.
Proof. unfold vehicle_type_of. destruct (vget v (s_vehicles s)); cbn; intros H; inversion H; auto. Qed.

Lemma vehicle_type_of_panic_ok s v ty :
  match vehicle_type_of s v with Ok ty => Ok ty | _ => Panic end = Ok ty -> vget v (s_vehicles s) = Some ty.
Proof. intros H. apply vehicle_type_of_ok. destruct (vehicle_type_of s v); try discriminate; auto. Qed.

(** * the id listings *)
Definition iter (ids : list (Z * list vehicle_id)) (ty : Z) : list vehicle_id :=
  match zget ty ids with Some l => l | None => [] end.

Lemma ids_insert_iter ty v ids ids' : ids_insert ty v ids = Ok ids' ->
  map fst ids' = map fst ids /\
  forall ty', iter ids' ty' = if ty' =? ty then sorted_insert v (iter ids ty) else iter ids ty'.
Proof.
  unfold ids_insert. intros H. mon H. inversion H; subst; clear H. apply unwrap_opt_ok in E.
  split; [eapply keys_zset_old; eauto|]. intros ty'. unfold iter. rewrite (zget_zset _ _ _ _ _ E).
  destruct (ty' =? ty); [rewrite E|]; reflexivity.
Qed.

Lemma ids_remove_iter ty v ids ids' : ids_remove ty v ids = Ok ids' ->
  map fst ids' = map fst ids /\
  forall ty', iter ids' ty' = if ty' =? ty then set_del v (iter ids ty) else iter ids ty'.
Proof.
  unfold ids_remove. intros H. mon H. mon H. inversion H; subst; clear H. apply unwrap_opt_ok in E.
  apply sorted_remove_ok in E0. subst.
  split; [eapply keys_zset_old; eauto|]. intros ty'. unfold iter. rewrite (zget_zset _ _ _ _ _ E).
  destruct (ty' =? ty); [rewrite E|]; reflexivity.
Qed.

Section Listing.
Variable nw : network.

(** ** the part of the invariant about real vehicles *)
Record VPart (veh : list (vehicle_id * Z)) (tours : list (vehicle_id * tour)) (ids : list (Z * list vehicle_id))
  : Prop := {
  v_nodup : NoDup (map fst veh);
  v_same : forall v, vget v veh = None <-> vget v tours = None;
  v_keys : map fst ids = type_ids nw;
  v_ids : forall v ty, vget v veh = Some ty <-> In v (iter ids ty);
  v_sorted : forall ty, StronglySorted vid_lt (iter ids ty) }.

Lemma V_same_keys veh tours tours' ids :
  VPart veh tours ids -> (forall k, vget k tours' = None <-> vget k tours = None) -> VPart veh tours' ids.
Proof.
  intros [V1 V2 V3 V4 V5] H. constructor; auto. intros v. rewrite V2. symmetry. apply H.
Qed.

Lemma vset_old_same_keys {A} v (x o : A) l : vget v l = Some o ->
  forall k, vget k (vset v x l) = None <-> vget k l = None.
Proof.
  intros G k. rewrite vget_vset. destruct (vid_eqb k v) eqn:E; [|tauto].
  apply vid_eqb_eq in E. subst. rewrite G. split; discriminate.
Qed.

Lemma V_tours_vset_old veh tours ids v x o :
  VPart veh tours ids -> vget v tours = Some o -> VPart veh (vset v x tours) ids.
Proof. intros V G. eapply V_same_keys; eauto. eapply vset_old_same_keys; eauto. Qed.

Lemma V_spawn veh tours ids v ty t ids' :
  VPart veh tours ids -> vget v veh = None -> ids_insert ty v ids = Ok ids' ->
  VPart (vset v ty veh) (vset v t tours) ids'.
Proof.
  intros [V1 V2 V3 V4 V5] F H. apply ids_insert_iter in H. destruct H as [K It].
  assert (NI : forall ty', ~ In v (iter ids ty')).
  { intros ty' I. apply V4 in I. congruence. }
  constructor.
  - now apply keys_vset_nodup.
  - intros k. rewrite !vget_vset. destruct (vid_eqb k v); [split; discriminate | apply V2].
  - congruence.
  - intros k ty'. rewrite vget_vset, It. destruct (vid_eqb k v) eqn:E.
    + apply vid_eqb_eq in E. subst k. destruct (ty' =? ty) eqn:Q.
      * apply Z.eqb_eq in Q. subst. rewrite sorted_insert_in. split; auto.
      * apply Z.eqb_neq in Q. split; [intros H; inversion H; congruence | intros I; exfalso; eapply NI; eauto].
    + apply vid_eqb_neq in E. destruct (ty' =? ty) eqn:Q; [|apply V4].
      apply Z.eqb_eq in Q. subst. rewrite sorted_insert_in, V4. split; [auto | intros [G|G]; [contradiction | auto]].
  - intros ty'. rewrite It. destruct (ty' =? ty); auto. apply sorted_insert_sorted; auto.
Qed.

Lemma V_remove veh tours ids v ty ids' :
  VPart veh tours ids -> vget v veh = Some ty -> ids_remove ty v ids = Ok ids' ->
  VPart (vdel v veh) (vdel v tours) ids'.
Proof.
  intros [V1 V2 V3 V4 V5] F H. apply ids_remove_iter in H. destruct H as [K It].
  constructor.
  - now apply keys_vdel_nodup.
  - intros k. rewrite !vget_vdel. destruct (vid_eqb k v); [tauto | apply V2].
  - congruence.
  - intros k ty'. rewrite vget_vdel, It. destruct (vid_eqb k v) eqn:E.
    + apply vid_eqb_eq in E. subst k. split; [discriminate|]. destruct (ty' =? ty) eqn:Q.
      * intros I. apply set_del_in in I. tauto.
      * apply Z.eqb_neq in Q. intros I. apply V4 in I. congruence.
    + apply vid_eqb_neq in E. destruct (ty' =? ty) eqn:Q; [|apply V4].
      apply Z.eqb_eq in Q. subst. rewrite set_del_in, V4. tauto.
  - intros ty'. rewrite It. destruct (ty' =? ty); auto. apply set_del_sorted; auto.
Qed.

(** ** the part of the invariant about dummies; [b = true]: including "every stored dummy is listed" *)
Record DPart (b : bool) (c : Z) (dummies : list (vehicle_id * tour)) (dids : list vehicle_id) : Prop := {
  d_nodup : NoDup (map fst dummies);
  d_lt : forall d x, vget d dummies = Some x -> exists i, d = Dummy i /\ i < c;
  d_sub : forall d, In d dids -> vget d dummies <> None;
  d_sup : b = true -> forall d, vget d dummies <> None -> In d dids;
  d_sorted : StronglySorted vid_lt dids }.

Lemma D_mono b c c' dummies dids : c <= c' -> DPart b c dummies dids -> DPart b c' dummies dids.
Proof.
  intros L [D1 D2 D3 D4 D5]. constructor; auto.
  intros d x G. destruct (D2 d x G) as [i [-> Hi]]. exists i. split; auto. lia.
Qed.

Lemma D_vset b c dummies dids d x :
  DPart b c dummies dids -> (exists i, d = Dummy i /\ i < c) -> (b = true -> vget d dummies <> None) ->
  DPart b c (vset d x dummies) dids.
Proof.
  intros [D1 D2 D3 D4 D5] B K. constructor; auto.
  - now apply keys_vset_nodup.
  - intros k y. rewrite vget_vset. destruct (vid_eqb k d) eqn:E; [|apply D2].
    apply vid_eqb_eq in E. subst. auto.
  - intros k I. rewrite vget_vset. destruct (vid_eqb k d); [discriminate | auto].
  - intros Hb k. rewrite vget_vset. destruct (vid_eqb k d) eqn:E; [|apply D4; auto].
    apply vid_eqb_eq in E. subst. intros _. apply D4; auto.
Qed.

Lemma D_delete b c dummies dids d dids' :
  DPart b c dummies dids -> sorted_remove d dids = Ok dids' -> DPart b c (vdel d dummies) dids'.
Proof.
  intros [D1 D2 D3 D4 D5] H. apply sorted_remove_ok in H. subst. constructor.
  - now apply keys_vdel_nodup.
  - intros k y. rewrite vget_vdel. destruct (vid_eqb k d); [discriminate | apply D2].
  - intros k I. apply set_del_in in I. destruct I as [I N]. rewrite vget_vdel.
    apply vid_eqb_neq in N. rewrite N. auto.
  - intros Hb k. rewrite vget_vdel. destruct (vid_eqb k d) eqn:E; [congruence|].
    intros G. apply set_del_in. apply vid_eqb_neq in E. auto.
  - now apply set_del_sorted.
Qed.

Lemma D_add b c dummies dids t :
  DPart b c dummies dids -> DPart b (c + 1) (vset (Dummy c) t dummies) (sorted_insert (Dummy c) dids).
Proof.
  intros [D1 D2 D3 D4 D5].
  assert (F : vget (Dummy c) dummies = None).
  { destruct (vget (Dummy c) dummies) eqn:G; auto. destruct (D2 _ _ G) as [i [Q Hi]]. inversion Q. lia. }
  constructor.
  - now apply keys_vset_nodup.
  - intros k y. rewrite vget_vset. destruct (vid_eqb k (Dummy c)) eqn:E.
    + apply vid_eqb_eq in E. subst. intros _. exists c. split; auto. lia.
    + intros G. destruct (D2 _ _ G) as [i [-> Hi]]. exists i. split; auto. lia.
  - intros k I. apply sorted_insert_in in I. rewrite vget_vset. destruct (vid_eqb k (Dummy c)) eqn:E; [discriminate|].
    destruct I as [->|I]; [now rewrite vid_eqb_refl in E | auto].
  - intros Hb k. rewrite vget_vset, sorted_insert_in. destruct (vid_eqb k (Dummy c)) eqn:E.
    + apply vid_eqb_eq in E. auto.
    + intros G. right. apply D4; auto.
  - apply sorted_insert_sorted; auto. intros I. apply D3 in I. congruence.
Qed.

Lemma D_trip b (r : res tour) dummies dids c :
  DPart b c dummies dids ->
  let trip := match r with
              | Ok dt => let '(a, b0) := add_dummy_tour dummies dids (Dummy c) dt in (a, b0, c + 1)
              | _ => (dummies, dids, c) end in
  DPart b (snd trip) (fst (fst trip)) (snd (fst trip)).
Proof.
  intros D. destruct r; cbn [add_dummy_tour fst snd]; auto. now apply D_add.
Qed.

Ltac dtrip H D :=
  match type of H with
  | (match ?m with pair _ _ => _ end) = _ =>
      let Q := fresh "Q" in
      pose proof (D_trip _ _ _ _ _ D : let trip := m in _) as Q; cbv zeta in Q;
      destruct m as [[? ?] ?]; cbn [fst snd] in Q
  end.

(** ** the invariant *)
Definition LInv (b : bool) (s : schedule) : Prop :=
  VPart (s_vehicles s) (s_tours s) (s_ids s) /\ DPart b (s_counter s) (s_dummies s) (s_dummy_ids s).

Ltac mkl := split; cbn [with_fields s_tours s_counter s_vehicles s_dummies s_ids s_dummy_ids].

Lemma is_dummy_get s v : is_dummy s v = true <-> vget v (s_dummies s) <> None.
Proof. unfold is_dummy. destruct (vget v (s_dummies s)); split; congruence. Qed.

Lemma fresh_vehicle s : Inv nw s -> VPart (s_vehicles s) (s_tours s) (s_ids s) ->
  vget (Veh (s_counter s)) (s_vehicles s) = None.
Proof. intros I V. apply (v_same _ _ _ V). apply KeysLt_fresh. apply (inv_keys _ _ I). Qed.

Lemma spawn_L b s ty path s' v : Inv nw s -> LInv b s -> spawn_vehicle_for_path nw s ty path = Ok (s', v) -> LInv b s'.
Proof.
  intros I [V D] H. unfold spawn_vehicle_for_path in H.
  destruct (negb _) in H; [discriminate|].
  mon H. mon H. mon H. monp H. mon H. monp H. inversion H; subst; clear H.
  mkl.
  - eapply V_spawn; eauto. now apply fresh_vehicle.
  - eapply D_mono; [|eauto]. lia.
Qed.

Lemma delete_dummy_L b s d s' : LInv b s -> delete_dummy s d = Ok s' -> LInv b s'.
Proof.
  intros [V D] H. unfold delete_dummy in H. destruct (negb _) in H; [discriminate|].
  mon H. inversion H; subst; clear H. mkl; auto. eapply D_delete; eauto.
Qed.

Lemma spawn_dummy_L b s d ty s' v :
  Inv nw s -> LInv b s -> spawn_to_replace_dummy nw s d ty = Ok (s', v) -> LInv b s'.
Proof.
  intros I L H. unfold spawn_to_replace_dummy in H. mon H. mon H.
  eapply spawn_L; [| |eauto]. eapply delete_dummy_ok; eauto. eapply delete_dummy_L; eauto.
Qed.

Lemma replace_L b s v s' : Inv nw s -> LInv b s -> replace_vehicle_by_dummy nw s v = Ok s' -> LInv b s'.
Proof.
  intros I [V D] H. unfold replace_vehicle_by_dummy in H.
  destruct (negb _) in H; [discriminate|].
  mon H. mon H. mon H. monp H. mon H. mon H. mon H.
  dtrip H D.
  monp H. inversion H; subst; clear H.
  apply vehicle_type_of_ok in E.
  mkl; auto. eapply V_remove; eauto.
Qed.

Lemma add_path_L b s v path s' c : Inv nw s -> LInv b s -> add_path_to_vehicle_tour nw s v path = Ok (s', c) -> LInv b s'.
Proof.
  intros I [V D] H. unfold add_path_to_vehicle_tour in H.
  destruct path as [|pf path']; [discriminate|].
  match type of H with (if ?b then _ else _) = _ => destruct b; [discriminate|] end.
  mon H. mon H. monp H. mon H. monp H. monp H. mon H. mon H. monp H. inversion H; subst; clear H.
  apply unwrap_opt_ok in E2.
  mkl; auto. eapply V_tours_vset_old; eauto.
Qed.

(** update_tour_and_costs *)
Lemma utc_L b s c veh tours ids dummies dids costs v nt t' d' c' :
  VPart veh tours ids -> DPart b c dummies dids ->
  (is_dummy s v = true -> (exists i, v = Dummy i /\ i < c) /\ (b = true -> vget v dummies <> None)) ->
  update_tour_and_costs s tours dummies costs v nt = Ok (t', d', c') ->
  VPart veh t' ids /\ DPart b c d' dids /\ (forall k, vget k dummies <> None -> vget k d' <> None).
Proof.
  intros V D B H. unfold update_tour_and_costs in H. destruct (is_dummy s v) eqn:Ed.
  - inversion H; subst. destruct (B eq_refl) as [B1 B2]. split; [|split]; auto.
    + apply D_vset; auto.
    + intros k G. rewrite vget_vset. destruct (vid_eqb k v); [discriminate | auto].
  - mon H. mon H. inversion H; subst; clear H. apply unwrap_opt_ok in E.
    split; [|split]; auto. eapply V_tours_vset_old; eauto.
Qed.

Lemma dummy_bound b s v : DPart b (s_counter s) (s_dummies s) (s_dummy_ids s) -> is_dummy s v = true ->
  exists i, v = Dummy i /\ i < s_counter s.
Proof.
  intros D H. apply is_dummy_get in H. destruct (vget v (s_dummies s)) eqn:G; [|congruence].
  eapply (d_lt _ _ _ _ D); eauto.
Qed.

(** the guard: the only call shape that breaks the dummy listing *)
Definition guard (b : bool) (s : schedule) (p r : vehicle_id) : Prop :=
  b = true -> p = r -> is_dummy s p = false.

Lemma update_tours_L b s forms usage uns p ntp r ntr moved
    vehicles1 tours2 forms2 usage2 dummies2 ids1 dids1 uns2 costs2 :
  Inv nw s -> LInv b s -> guard b s p r ->
  update_tours nw s (s_vehicles s) (s_tours s) forms usage (s_dummies s) (s_ids s) (s_dummy_ids s) uns (s_costs s)
               p ntp r ntr moved
    = Ok (vehicles1, tours2, forms2, usage2, dummies2, ids1, dids1, uns2, costs2) ->
  VPart vehicles1 tours2 ids1 /\ DPart b (s_counter s) dummies2 dids1.
Proof.
  intros I [V D] Gd H. apply update_tours_peel in H. unfold update_tours_prefix in H.
  monp H. mon H. monp H. mon H. monp H. inversion H; subst; clear H.
  assert (Q : VPart vehicles1 l3 ids1 /\ DPart b (s_counter s) l1 dids1 /\
              (is_dummy s r = true -> b = true -> vget r l1 <> None)).
  { destruct ntp as [nt|].
    - monp E. inversion E; subst; clear E.
      eapply utc_L in E4; eauto.
      + destruct E4 as (V1 & D1 & K1). split; [|split]; auto.
        intros Hr _. apply K1. now apply is_dummy_get.
      + intros Hp. split; [eapply dummy_bound; eauto | intros _; now apply is_dummy_get].
    - mon E. destruct (is_dummy s p) eqn:Ed.
      + mon E. inversion E; subst; clear E. split; [|split]; auto.
        * eapply D_delete; eauto.
        * intros Hr Hb. rewrite vget_vdel. destruct (vid_eqb r p) eqn:Q.
          -- apply vid_eqb_eq in Q. subst r. rewrite (Gd Hb eq_refl) in Ed. discriminate.
          -- now apply is_dummy_get.
      + destruct (is_vehicle s p) eqn:Ev.
        * mon E. mon E. inversion E; subst; clear E.
          apply vehicle_type_of_panic_ok in E5.
          split; [|split]; auto.
          -- eapply V_remove; eauto.
          -- intros Hr _. now apply is_dummy_get.
        * inversion E; subst. split; [|split]; auto. intros Hr _. now apply is_dummy_get. }
  destruct Q as (V1 & D1 & K1).
  eapply utc_L in E1; eauto.
  - tauto.
  - intros Hr. split; [eapply dummy_bound; eauto | auto].
Qed.

Lemma remove_segment_L b s seg v s' : Inv nw s -> LInv b s -> remove_segment nw s seg v = Ok s' -> LInv b s'.
Proof.
  intros I [V D] H. unfold remove_segment in H.
  destruct (negb _) in H; [discriminate|].
  mon H. monp H. destruct o as [nt|]; [|eapply replace_L; eauto; split; auto].
  monp H. monp H. mon H.
  eapply utc_L in E2; eauto.
  - destruct E2 as (V1 & D1 & _).
    dtrip H D1.
    monp H. inversion H; subst; clear H.
    mkl; auto.
  - intros Hv. split; [eapply dummy_bound; eauto | intros _; now apply is_dummy_get].
Qed.

Lemma fit_L b s seg p r s' : Inv nw s -> LInv b s -> guard b s p r -> fit_reassign nw s seg p r = Ok s' -> LInv b s'.
Proof.
  intros I L Gd H. unfold fit_reassign in H.
  mon H. destruct (negb _) in H; [discriminate|].
  mon H. mon H. mon H. monp H. monp H. monp H. inversion H; subst; clear H.
  eapply update_tours_L in E4; [|eauto..]. destruct E4 as (V1 & D1).
  mkl; auto.
Qed.

Lemma override_L b s seg p r s' d :
  Inv nw s -> LInv b s -> override_reassign nw s seg p r = Ok (s', d) -> LInv b s'.
Proof.
  intros I L H. unfold override_reassign in H.
  destruct (vid_eqb p r) eqn:Epr; [discriminate|].
  assert (Gd : guard b s p r).
  { intros _ Q. apply vid_eqb_neq in Epr. contradiction. }
  mon H. destruct (negb _) in H; [discriminate|].
  mon H. mon H. monp H. monp H. monp H.
  eapply update_tours_L in E4; [|eauto..]. destruct E4 as (V1 & D1).
  monp H. monp H. inversion H; subst; clear H.
  mkl; auto.
  destruct o0 as [np|].
  - monp E4. destruct (tour_new_dummy nw np); cbn [add_dummy_tour] in E4; inversion E4; subst; auto.
    now apply D_add.
  - inversion E4; subst. auto.
Qed.

Lemma recompute_L b s ts s' : LInv b s -> recompute_transitions_for nw s ts = Ok s' -> LInv b s'.
Proof.
  intros [V D] H. unfold recompute_transitions_for in H. monp H. inversion H; subst; clear H.
  mkl; auto.
Qed.

(** ** folds over vehicles that replace the tour of each visited vehicle *)
Section FoldK.
Context {U : Type}.
Variable s : schedule.
Variable f : res (list (vehicle_id * tour) * U * Z) -> vehicle_id -> res (list (vehicle_id * tour) * U * Z).
Variable l0 : list vehicle_id.
Hypothesis f_strict : forall r v x, f r v = Ok x -> exists y, r = Ok y.
Hypothesis f_step : forall tours u costs v x, In v l0 -> f (Ok (tours, u, costs)) v = Ok x ->
  exists t nt u' c, vget v (s_tours s) = Some t /\ x = (vset v nt tours, u', c).

Lemma foldk_strict l r x : fold_left f l r = Ok x -> exists y, r = Ok y.
Proof.
  revert r. induction l as [|v l IH]; cbn [fold_left]; intros r H; [eauto|].
  apply IH in H. destruct H as [y H]. eapply f_strict; eauto.
Qed.

Lemma foldk_keys l : incl l l0 -> forall tours u costs tours' u' costs',
  (forall k, vget k tours = None <-> vget k (s_tours s) = None) ->
  fold_left f l (Ok (tours, u, costs)) = Ok (tours', u', costs') ->
  forall k, vget k tours' = None <-> vget k (s_tours s) = None.
Proof.
  induction l as [|v l IH]; intros Inc tours u costs tours' u' costs' Ag H; cbn [fold_left] in H.
  - inversion H; subst. auto.
  - destruct (foldk_strict _ _ _ H) as [y Hy]. rewrite Hy in H.
    apply f_step in Hy; [|apply Inc; now left].
    destruct Hy as (t & nt & u1 & c1 & G & ->).
    assert (Inc' : incl l l0) by (intros k Hk; apply Inc; now right).
    eapply (IH Inc'); [|exact H].
    intros k. rewrite vget_vset. destruct (vid_eqb k v) eqn:E; [|apply Ag].
    apply vid_eqb_eq in E. subst. rewrite G. split; discriminate.
Qed.
End FoldK.

Ltac strict_tac :=
  let r := fresh "r" in let v := fresh "v" in let x := fresh "x" in let H := fresh "H" in
  intros r v x H; destruct r; cbn [bind] in H; try discriminate H; eauto.

Ltac foldk s l0 :=
  match goal with
  | E : fold_left _ _ (Ok (s_tours s, _, _)) = Ok (?l, _, _) |- _ =>
      assert (K : forall k, vget k l = None <-> vget k (s_tours s) = None);
      [ eapply (foldk_keys s _ l0); [ | | apply incl_refl | | exact E]; [strict_tac | | intros; tauto] | ]
  end.

Lemma greedy_L b s s' : Inv nw s -> LInv b s -> reassign_end_depots_greedily nw s = Ok s' -> LInv b s'.
Proof.
  intros I [V D] H. unfold reassign_end_depots_greedily in H.
  monp H. monp H. inversion H; subst; clear H.
  destruct I as [T KL RK DK IO].
  destruct (iter_all_ok nw s _ IO) as [ND RL].
  foldk s (vehicles_iter_all nw s).
  - intros tours u costs v x Hv H. cbn [bind] in H.
    mon H. mon H. mon H. mon H. mon H. mon H. inversion H; subst; clear H.
    apply tour_of_panic_ok in E1. apply tour_of_real in E1; auto.
    eexists _, _, _, _. split; [eauto|]. reflexivity.
  - mkl; auto. eapply V_same_keys; eauto.
Qed.

Lemma consistent_L b s s' : Inv nw s -> LInv b s -> reassign_end_depots_consistent nw s = Ok s' -> LInv b s'.
Proof.
  intros I [V D] H. unfold reassign_end_depots_consistent in H.
  monp H. monp H. inversion H; subst; clear H.
  destruct I as [T KL RK DK IO].
  destruct (iter_all_ok nw s _ IO) as [ND RL].
  foldk s (vehicles_iter_all nw s).
  - intros tours u costs v x Hv H. cbn [bind] in H.
    mon H. mon H. mon H. mon H. mon H. mon H. mon H. mon H. mon H. inversion H; subst; clear H.
    apply tour_of_panic_ok in E1. apply tour_of_real in E1; auto.
    eexists _, _, _, _. split; [eauto|]. reflexivity.
  - mkl; auto. eapply V_same_keys; eauto.
Qed.

Lemma improve_L b s vs s' : Inv nw s -> LInv b s -> improve_depots nw s vs = Ok s' -> LInv b s'.
Proof.
  intros I [V D] H. unfold improve_depots in H. cbv zeta in H.
  mon H. monp H. monp H. inversion H; subst; clear H.
  destruct I as [T KL RK DK IO].
  foldk s (match vs with Some l => l | None => vehicles_iter_all nw s end).
  - intros tours u costs v x Hv H. cbn [bind] in H.
    mon H. mon H. mon H. mon H. inversion H; subst; clear H.
    apply tour_of_panic_ok in E2. apply tour_of_real in E2; auto.
    + eexists _, _, _, _. split; [eauto|]. reflexivity.
    + unfold vehicle_type_of in E3. destruct (vget v (s_vehicles s)) eqn:G; [eauto | discriminate].
  - mkl; auto. eapply V_same_keys; eauto.
Qed.

(** ** guarded histories *)
Inductive gstep (b : bool) : schedule -> schedule -> Prop :=
| gs_spawn s ty path s' v : spawn_vehicle_for_path nw s ty path = Ok (s', v) -> gstep b s s'
| gs_spawn_dummy s d ty s' v : spawn_to_replace_dummy nw s d ty = Ok (s', v) -> gstep b s s'
| gs_delete s v s' : replace_vehicle_by_dummy nw s v = Ok s' -> gstep b s s'
| gs_add_path s v path s' c : add_path_to_vehicle_tour nw s v path = Ok (s', c) -> gstep b s s'
| gs_remove_segment s seg v s' : remove_segment nw s seg v = Ok s' -> gstep b s s'
| gs_fit s seg p r s' : guard b s p r -> fit_reassign nw s seg p r = Ok s' -> gstep b s s'
| gs_override s seg p r s' d : override_reassign nw s seg p r = Ok (s', d) -> gstep b s s'
| gs_improve s vs s' : improve_depots nw s vs = Ok s' -> gstep b s s'
| gs_greedy s s' : reassign_end_depots_greedily nw s = Ok s' -> gstep b s s'
| gs_recompute s ts s' : recompute_transitions_for nw s ts = Ok s' -> gstep b s s'
| gs_consistent s s' : reassign_end_depots_consistent nw s = Ok s' -> gstep b s s'.
Inductive greachable (b : bool) : schedule -> Prop :=
| gr_empty s : empty_schedule nw = Ok s -> greachable b s
| gr_step s s' : greachable b s -> gstep b s s' -> greachable b s'.

Lemma gstep_step b s s' : gstep b s s' -> step nw s s'.
Proof.
  destruct 1; [eapply st_spawn | eapply st_spawn_dummy | eapply st_delete | eapply st_add_path |
               eapply st_remove_segment | eapply st_fit | eapply st_override | eapply st_improve |
               eapply st_greedy | eapply st_recompute | eapply st_consistent]; eauto.
Qed.

Lemma step_gstep s s' : step nw s s' -> gstep false s s'.
Proof.
  destruct 1; [eapply gs_spawn | eapply gs_spawn_dummy | eapply gs_delete | eapply gs_add_path |
               eapply gs_remove_segment | eapply gs_fit | eapply gs_override | eapply gs_improve |
               eapply gs_greedy | eapply gs_recompute | eapply gs_consistent]; eauto; intros Q; discriminate Q.
Qed.

Lemma greachable_reachable b s : greachable b s -> reachable nw s.
Proof. induction 1; [now apply r_empty | eapply r_step; eauto using gstep_step]. Qed.

Lemma reachable_greachable s : reachable nw s -> greachable false s.
Proof. induction 1; [now apply gr_empty | eapply gr_step; eauto using step_gstep]. Qed.

Lemma gstep_L b s s' : Inv nw s -> LInv b s -> gstep b s s' -> LInv b s'.
Proof.
  intros I L St. destruct St.
  - eapply spawn_L; eauto.
  - eapply spawn_dummy_L; eauto.
  - eapply replace_L; eauto.
  - eapply add_path_L; eauto.
  - eapply remove_segment_L; eauto.
  - eapply fit_L; eauto.
  - eapply override_L; eauto.
  - eapply improve_L; eauto.
  - eapply greedy_L; eauto.
  - eapply recompute_L; eauto.
  - eapply consistent_L; eauto.
Qed.

Lemma iter_empty ty (tys : list Z) : iter (map (fun ty => (ty, @nil vehicle_id)) tys) ty = [].
Proof.
  unfold iter. destruct (zget ty _) eqn:G; auto. now apply zget_empty_ids in G.
Qed.

Lemma empty_L b s : empty_schedule nw = Ok s -> LInv b s.
Proof.
  intros H. unfold empty_schedule in H. mon H. inversion H; subst; clear H.
  split; cbn [s_tours s_counter s_vehicles s_dummies s_ids s_dummy_ids].
  - constructor.
    + constructor.
    + intros v. split; reflexivity.
    + rewrite map_map. cbn [fst]. apply map_id.
    + intros v ty. rewrite iter_empty. split; [discriminate | intros []].
    + intros ty. rewrite iter_empty. constructor.
  - constructor.
    + constructor.
    + intros d x G. discriminate G.
    + intros d [].
    + intros _ d G. exfalso. apply G. reflexivity.
    + constructor.
Qed.

Lemma greachable_L b s : greachable b s -> LInv b s.
Proof.
  induction 1.
  - now apply empty_L.
  - eapply gstep_L; eauto. apply reachable_inv. eapply greachable_reachable; eauto.
Qed.

(** ** from the invariant to the stated record *)
Record ListingWeak (s : schedule) : Prop := {
  lw_veh_nodup : NoDup (keys (s_vehicles s));
  lw_tours_nodup : NoDup (keys (s_tours s));
  lw_dummies_nodup : NoDup (keys (s_dummies s));
  lw_same_keys : forall v, In v (keys (s_vehicles s)) <-> In v (keys (s_tours s));
  lw_real : forall v, In v (keys (s_vehicles s)) -> vid_is_real v = true;
  lw_dummy : forall d, In d (keys (s_dummies s)) -> vid_is_real d = false;
  lw_ids_keys : keys (s_ids s) = type_ids nw;
  lw_ids : forall v ty, vget v (s_vehicles s) = Some ty <-> In v (vehicles_iter s ty);
  lw_ids_sorted : forall ty, StronglySorted vid_lt (vehicles_iter s ty);
  lw_dids : forall d, In d (s_dummy_ids s) -> In d (keys (s_dummies s));
  lw_dids_sorted : StronglySorted vid_lt (s_dummy_ids s) }.

Lemma L_weak b s : Inv nw s -> LInv b s -> ListingWeak s.
Proof.
  intros [[N _] KL RK DK IO] [[V1 V2 V3 V4 V5] [D1 D2 D3 D4 D5]]. constructor; unfold keys; auto.
  - intros v. rewrite !in_keys_iff. rewrite (V2 v). tauto.
  - intros v G. apply in_keys_iff in G. destruct (vget v (s_vehicles s)) eqn:Q; [eauto | congruence].
  - intros v G. apply in_keys_iff in G. destruct (vget v (s_dummies s)) eqn:Q; [eauto | congruence].
  - intros d G. apply in_keys_iff. auto.
Qed.

Lemma L_full s : ListingWeak s -> LInv true s -> ListingOK nw s.
Proof.
  intros [] [_ [D1 D2 D3 D4 D5]]. constructor; auto.
  intros d. split; auto. unfold keys. intros G. apply D4; auto. now apply in_keys_iff.
Qed.
End Listing.

(** * theorems *)

(** histories in which fit_reassign is never called with provider = receiver: the constructors of [step]
    (SchedInv.v), with the extra premise [p <> r] on the fit constructor *)
Inductive dstep (nw : network) : schedule -> schedule -> Prop :=
| ds_spawn s ty path s' v : spawn_vehicle_for_path nw s ty path = Ok (s', v) -> dstep nw s s'
| ds_spawn_dummy s d ty s' v : spawn_to_replace_dummy nw s d ty = Ok (s', v) -> dstep nw s s'
| ds_delete s v s' : replace_vehicle_by_dummy nw s v = Ok s' -> dstep nw s s'
| ds_add_path s v path s' c : add_path_to_vehicle_tour nw s v path = Ok (s', c) -> dstep nw s s'
| ds_remove_segment s seg v s' : remove_segment nw s seg v = Ok s' -> dstep nw s s'
| ds_fit s seg p r s' : p <> r -> fit_reassign nw s seg p r = Ok s' -> dstep nw s s'
| ds_override s seg p r s' d : override_reassign nw s seg p r = Ok (s', d) -> dstep nw s s'
| ds_improve s vs s' : improve_depots nw s vs = Ok s' -> dstep nw s s'
| ds_greedy s s' : reassign_end_depots_greedily nw s = Ok s' -> dstep nw s s'
| ds_recompute s ts s' : recompute_transitions_for nw s ts = Ok s' -> dstep nw s s'
| ds_consistent s s' : reassign_end_depots_consistent nw s = Ok s' -> dstep nw s s'.
Inductive dreachable (nw : network) : schedule -> Prop :=
| dr_empty s : empty_schedule nw = Ok s -> dreachable nw s
| dr_step s s' : dreachable nw s -> dstep nw s s' -> dreachable nw s'.

Lemma dstep_gstep nw s s' : dstep nw s s' -> gstep nw true s s'.
Proof.
  destruct 1; [eapply gs_spawn | eapply gs_spawn_dummy | eapply gs_delete | eapply gs_add_path |
               eapply gs_remove_segment | eapply gs_fit | eapply gs_override | eapply gs_improve |
               eapply gs_greedy | eapply gs_recompute | eapply gs_consistent]; eauto.
  intros _ Q. contradiction.
Qed.

Lemma dreachable_greachable nw s : dreachable nw s -> greachable nw true s.
Proof. induction 1; [now apply gr_empty | eapply gr_step; eauto using dstep_gstep]. Qed.

Lemma dreachable_reachable nw s : dreachable nw s -> reachable nw s.
Proof. intros R. eapply greachable_reachable. apply dreachable_greachable; eauto. Qed.

(** every clause of ListingOK except "a key of s_dummies is listed in s_dummy_ids", for ALL reachable schedules *)
Theorem reachable_listing_partial : forall nw s, reachable nw s -> ListingWeak nw s.
Proof.
  intros nw s R. eapply L_weak; [now apply reachable_inv|]. apply greachable_L. now apply reachable_greachable.
Qed.

(** the full statement under the finer guard: no fit_reassign call with provider = receiver = a DUMMY
    ([guard true s p r] is [p = r -> is_dummy s p = false]) *)
Theorem reachable_listing_under_guard : forall nw s, greachable nw true s -> ListingOK nw s.
Proof.
  intros nw s R. pose proof (greachable_reachable _ _ _ R) as R'.
  apply L_full; [now apply reachable_listing_partial | now apply greachable_L].
Qed.

(** the full statement for histories whose fit_reassign calls have provider <> receiver *)
Theorem reachable_listing_under_distinct : forall nw s, dreachable nw s -> ListingOK nw s.
Proof. intros nw s R. apply reachable_listing_under_guard. now apply dreachable_greachable. Qed.

(** * the refutation of the statement as given (all networks): fit_reassign with provider = receiver = a dummy on
      a network with negative dead-head durations *)
Definition zrow7 : list Z := [0;0;0;0;0;0;0].
(* three trips A = SV 4 (loc 0 -> 1, 1000..1100), C = SV 5 (2 -> 3, 2000..2100), B = SV 6 (4 -> 5, 3000..3100), one
   depot at loc 6; dead-head durations 0 except 1 -> 0 and 5 -> 2, which are negative: A can reach A, B can reach C *)
Definition instw : instance := {|
  i_types := [ {| vt_cap := 100; vt_seats := 50; vt_limit := None |} ];
  i_nlocs := 7;
  i_depots := Some [ {| id_loc := 6; id_cap := 5; id_allowed := [(0, None)] |} ];
  i_routes := [ {| r_type := 0; r_segs := [ {| rs_origin := 0; rs_dest := 1; rs_dist := 1000; rs_dur := 100; rs_limit := None |} ] |};
                {| r_type := 0; r_segs := [ {| rs_origin := 2; rs_dest := 3; rs_dist := 1000; rs_dur := 100; rs_limit := None |} ] |};
                {| r_type := 0; r_segs := [ {| rs_origin := 4; rs_dest := 5; rs_dist := 1000; rs_dur := 100; rs_limit := None |} ] |} ];
  i_departures := [ {| d_route := 0; d_segs := [ {| ds_rseg := 0; ds_dep := 1000; ds_pass := 10; ds_seated := 5 |} ] |};
                    {| d_route := 1; d_segs := [ {| ds_rseg := 0; ds_dep := 2000; ds_pass := 10; ds_seated := 5 |} ] |};
                    {| d_route := 2; d_segs := [ {| ds_rseg := 0; ds_dep := 3000; ds_pass := 10; ds_seated := 5 |} ] |} ];
  i_slots := None;
  i_dh_dur := [zrow7; [-100000;0;0;0;0;0;0]; zrow7; zrow7; zrow7; [0;0;-100000;0;0;0;0]; zrow7];
  i_dh_dist := [zrow7; zrow7; zrow7; zrow7; zrow7; zrow7; zrow7];
  i_params := {| p_forbid := false; p_min := 0; p_dht := 0; p_maxdist := 0;
                 c_staff := 0; c_service := 0; c_maint := 0; c_dh := 0; c_idle := 0 |} |}.

Definition nww : network := Eval vm_compute in
  match load instw [] with Ok nw => nw | _ =>
  {| nw_nodes := []; nw_depots := []; nw_overflow := (0, SD 0, ED 0); nw_service := []; nw_maint := [];
     nw_sdepots := []; nw_edepots := []; nw_all_by_start := []; nw_type_by_start := []; nw_type_by_end := [];
     nw_params := i_params instw; nw_nlocs := 0%nat; nw_dh := []; nw_types := []; nw_nservice := 0;
     nw_planning := Len 0 |} end.
Lemma nww_loaded : load instw [] = Ok nww.
Proof. vm_compute. reflexivity. Qed.

Definition dflt_schedule : schedule :=
  {| s_vehicles := []; s_tours := []; s_trans := []; s_forms := []; s_usage := []; s_dummies := []; s_counter := 0;
     s_ids := []; s_dummy_ids := []; s_unserved := (0, 0); s_viol := 0; s_costs := 0 |}.
Definition cx0 : schedule := Eval vm_compute in
  match empty_schedule nww with Ok s => s | _ => dflt_schedule end.
Definition cx1 : schedule := Eval vm_compute in
  match spawn_vehicle_for_path nww cx0 0 [SV 4; SV 5; SV 6] with Ok (s, _) => s | _ => dflt_schedule end.
Definition cx2 : schedule := Eval vm_compute in
  match replace_vehicle_by_dummy nww cx1 (Veh 0) with Ok s => s | _ => dflt_schedule end.
Definition cx3 : schedule := Eval vm_compute in
  match fit_reassign nww cx2 (SV 4, SV 6) (Dummy 1) (Dummy 1) with Ok s => s | _ => dflt_schedule end.

(* the history: spawn a vehicle for the three trips; delete it (the trips go to the dummy Dummy 1);
   fit_reassign the whole tour of Dummy 1 from Dummy 1 to Dummy 1 *)
Lemma cx_step0 : empty_schedule nww = Ok cx0.
Proof. vm_compute. reflexivity. Qed.
Lemma cx_step1 : spawn_vehicle_for_path nww cx0 0 [SV 4; SV 5; SV 6] = Ok (cx1, Veh 0).
Proof. vm_compute. reflexivity. Qed.
Lemma cx_step2 : replace_vehicle_by_dummy nww cx1 (Veh 0) = Ok cx2.
Proof. vm_compute. reflexivity. Qed.
Lemma cx_step3 : fit_reassign nww cx2 (SV 4, SV 6) (Dummy 1) (Dummy 1) = Ok cx3.
Proof. vm_compute. reflexivity. Qed.

(* before: one dummy, listed; after: the dummy is still stored (with every trip twice) but no longer listed *)
Lemma cx2_dummies :
  map (fun '(d, t) => (d, t_nodes t)) (s_dummies cx2) = [(Dummy 1, [SV 4; SV 5; SV 6])] /\ s_dummy_ids cx2 = [Dummy 1].
Proof. vm_compute. auto. Qed.
Lemma cx3_dummies :
  map (fun '(d, t) => (d, t_nodes t)) (s_dummies cx3) = [(Dummy 1, [SV 4; SV 4; SV 5; SV 6; SV 5; SV 6])] /\
  s_dummy_ids cx3 = [].
Proof. vm_compute. auto. Qed.
(* what makes it possible: a node that reaches itself and a later node that reaches an earlier one *)
Lemma nww_ill_formed : can_reach nww (SV 4) (SV 4) = true /\ can_reach nww (SV 6) (SV 5) = true.
Proof. vm_compute. auto. Qed.

Lemma cx3_reachable : reachable nww cx3.
Proof.
  eapply r_step; [eapply r_step; [eapply r_step; [apply r_empty, cx_step0|]|]|].
  - eapply st_spawn, cx_step1.
  - eapply st_delete, cx_step2.
  - eapply st_fit, cx_step3.
Qed.

Lemma cx3_not_listing : ~ ListingOK nww cx3.
Proof.
  intros L.
  assert (I : In (Dummy 1) (s_dummy_ids cx3)) by (apply (lo_dids _ _ L); vm_compute; now left).
  vm_compute in I. exact I.
Qed.

Theorem reachable_listing_refuted_nww : ~ stmt_reachable_listing nww.
Proof. intros H. exact (cx3_not_listing (H _ cx3_reachable)). Qed.

Theorem reachable_listing_refuted : ~ (forall nw, stmt_reachable_listing nw).
Proof. intros H. exact (reachable_listing_refuted_nww (H nww)). Qed.

(* the offending call is exactly the one excluded by [dreachable] *)
Lemma cx2_dreachable : dreachable nww cx2.
Proof.
  eapply dr_step; [eapply dr_step; [apply dr_empty, cx_step0|]|].
  - eapply ds_spawn, cx_step1.
  - eapply ds_delete, cx_step2.
Qed.
Lemma cx3_guard_fails : ~ guard true cx2 (Dummy 1) (Dummy 1).
Proof. intros G. specialize (G eq_refl eq_refl). vm_compute in G. discriminate G. Qed.


Print Assumptions reachable_listing_refuted.
Print Assumptions reachable_listing_partial.
Print Assumptions reachable_listing_under_guard.
Print Assumptions reachable_listing_under_distinct.
