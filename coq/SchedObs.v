(* SchedObs.v — observations of a Schedule (everything its public getters expose) and the executable
   readings of C09 (cached aggregates = recomputation) and C10 (structural invariants) on them.
   Each checker returns the list of violated clause codes ([] = holds). *)
From RS Require Import Base Network NetSpec Tour.

Record sobs := {
  so_nveh : Z; so_ndummy : Z; so_costs : Z; so_unserved : Z * Z; so_viol : Z;
  so_vehicles : list (vehicle_id * Z * tour);
  so_dummies : list (vehicle_id * tour);
  so_forms : list (node_id * list vehicle_id);
  so_usage : list (Z * Z * Z * Z);               (* depot, type, spawned, balance *)
  so_usage_total : list (Z * Z);                  (* depot, spawned in total *)
  so_trans : list (Z * (Z * Z * list (list vehicle_id * Z)));  (* type -> viol, counter, cycles *)
  so_next : list (vehicle_id * vehicle_id) }.

Section Obs.
Variable nw : network.
Variable o : sobs.
Let P := nw_params nw.

Definition veh_entry (v : vehicle_id) : option (Z * tour) :=
  match find (fun '(v', _, _) => vid_eqb v v') (so_vehicles o) with
  | Some (_, ty, t) => Some (ty, t) | None => None end.
Definition tour_of_real (v : vehicle_id) : option tour :=
  match veh_entry v with Some (_, t) => Some t | None => None end.
Definition type_of_real (v : vehicle_id) : option Z :=
  match veh_entry v with Some (ty, _) => Some ty | None => None end.
Definition form_of (n : node_id) : list vehicle_id :=
  match assoc nid_eqb n (so_forms o) with Some l => l | None => [] end.
Fixpoint mem_vid (v : vehicle_id) (l : list vehicle_id) : bool :=
  match l with [] => false | x :: r => vid_eqb v x || mem_vid v r end.
Fixpoint nodup_vid (l : list vehicle_id) : bool :=
  match l with [] => true | x :: r => negb (mem_vid x r) && nodup_vid r end.

(** ** C09: every cached figure equals its from-scratch value *)
Definition dur_eqb a b := match a, b with Len x, Len y => x =? y | DurInf, DurInf => true | _, _ => false end.
Definition tour_exact_b (t : tour) : bool :=
  let r := new_computing nw (t_nodes t) (t_dummy t) in
  Bool.eqb (t_vm t) (t_vm r) && dur_eqb (t_useful t) (t_useful r) && dist_eqb (t_sdist t) (t_sdist r) &&
  dist_eqb (t_ddist t) (t_ddist r) && (t_costs t =? t_costs r).

Definition sched_costs_ref : Z :=
  z_sum (map (fun '(_, _, t) => t_costs t) (so_vehicles o)) + nw_nservice nw * c_staff P.

Definition cap_of (v : vehicle_id) : Z :=
  match type_of_real v with Some ty => match vtype_of nw ty with Some vt => vt_cap vt | None => 0 end | None => 0 end.
Definition seats_of (v : vehicle_id) : Z :=
  match type_of_real v with Some ty => match vtype_of nw ty with Some vt => vt_seats vt | None => 0 end | None => 0 end.
Definition unserved_at (n : node_id) : Z * Z :=
  let f := form_of n in
  (Z.max 0 (passengers_of nw n - z_sum (map cap_of f)), Z.max 0 (seated_of nw n - z_sum (map seats_of f))).
Definition unserved_ref : Z * Z :=
  fold_left (fun '(a, b) n => let '(x, y) := unserved_at n in (a + x, b + y)) (all_service_nodes nw) (0, 0).

Definition transfer (a b : node_id) : Z := dist_m_or (dead_head_distance_between nw a b) INF_DISTANCE.
Definition mc_of (v : vehicle_id) : Z :=
  match tour_of_real v with Some t => maintenance_counter nw t | None => 0 end.
Definition sdep_of (v : vehicle_id) : node_id :=
  match tour_of_real v with Some t => first_node t | None => SD 0 end.
Definition edep_of (v : vehicle_id) : node_id :=
  match tour_of_real v with Some t => last_node t | None => ED 0 end.
(* cyclic pairs (v_i, v_{i+1}), the last with the first; a singleton pairs with itself *)
Definition cyclic_pairs (l : list vehicle_id) : list (vehicle_id * vehicle_id) :=
  match l with [] => [] | f :: _ => windows (l ++ [f]) end.
Definition cycle_counter_ref (l : list vehicle_id) : Z :=
  z_sum (map mc_of l) + z_sum (map (fun '(a, b) => transfer (edep_of a) (sdep_of b)) (cyclic_pairs l)).

Definition trans_exact_b (e : Z * (Z * Z * list (list vehicle_id * Z))) : bool :=
  let '(_, (viol, cnt, cycles)) := e in
  forallb (fun '(l, c) => c =? cycle_counter_ref l) cycles &&
  (viol =? z_sum (map (fun '(_, c) => Z.max 0 c) cycles)) &&
  (cnt =? z_sum (map snd cycles)).

Definition spawned_ref (d ty : Z) : Z :=
  Z.of_nat (length (filter (fun '(_, t, tr) => (t =? ty) && (get_depot_idx nw (first_node tr) =? d)) (so_vehicles o))).
Definition despawned_ref (d ty : Z) : Z :=
  Z.of_nat (length (filter (fun '(_, t, tr) => (t =? ty) && (get_depot_idx nw (last_node tr) =? d)) (so_vehicles o))).

Definition check_exact : list Z :=
  (if forallb (fun '(_, _, t) => tour_exact_b t) (so_vehicles o) then [] else [901]) ++
  (if forallb (fun '(_, t) => tour_exact_b t) (so_dummies o) then [] else [902]) ++
  (if so_costs o =? sched_costs_ref then [] else [903]) ++
  (if (fst (so_unserved o) =? fst unserved_ref) && (snd (so_unserved o) =? snd unserved_ref) then [] else [904]) ++
  (if forallb trans_exact_b (so_trans o) then [] else [905]) ++
  (if so_viol o =? z_sum (map (fun '(_, (v, _, _)) => v) (so_trans o)) then [] else [906]) ++
  (if forallb (fun '(d, ty, sp, bal) => (sp =? spawned_ref d ty) && (bal =? spawned_ref d ty - despawned_ref d ty))
              (so_usage o) then [] else [907]) ++
  (if forallb (fun '(d, tot) => tot =? z_sum (map (fun ty => spawned_ref d ty) (type_ids nw))) (so_usage_total o)
   then [] else [908]) ++
  (if (so_nveh o =? Z.of_nat (length (so_vehicles o))) && (so_ndummy o =? Z.of_nat (length (so_dummies o)))
   then [] else [909]).

(** ** C10: structural invariants *)
Definition real_tour_ok (e : vehicle_id * Z * tour) : bool :=
  let '(v, ty, t) := e in
  vid_is_real v && negb (t_dummy t) && valid_tour_nodes nw (t_nodes t) &&
  forallb (fun n => compatible_with_vehicle_type nw n ty) (t_nodes t).
Definition dummy_tour_ok (e : vehicle_id * tour) : bool :=
  let '(v, t) := e in
  negb (vid_is_real v) && t_dummy t && negb (Nat.eqb (length (t_nodes t)) 0) &&
  (* insert_path into a dummy tour may bring maintenance slots along; depots never *)
  forallb (fun n => negb (is_depot (nd nw n))) (t_nodes t) &&
  forallb (fun '(a, b) => dt_leb (end_time nw a) (start_time nw b)) (windows (t_nodes t)).

Fixpoint mem_nid' (n : node_id) (l : list node_id) : bool :=
  match l with [] => false | x :: r => nid_eqb n x || mem_nid' n r end.

Definition forms_ok : bool :=
  (* exactly one formation per coverable node *)
  forallb (fun n => match assoc nid_eqb n (so_forms o) with Some _ => true | None => false end) (coverable_nodes nw) &&
  forallb (fun '(n, _) => mem_nid' n (coverable_nodes nw)) (so_forms o) &&
  (* no vehicle twice; members are real vehicles whose tour contains the node *)
  forallb (fun '(n, f) =>
     nodup_vid f &&
     forallb (fun v => match tour_of_real v with Some t => mem_nid' n (t_nodes t) | None => false end) f)
    (so_forms o) &&
  (* every non-depot node of a real tour has the vehicle in its formation *)
  forallb (fun '(v, _, t) => forallb (fun n => mem_vid v (form_of n)) (non_depots t)) (so_vehicles o).

Definition limits_ok : bool :=
  forallb (fun '(n, f) =>
     match nd nw n with
     | NService _ => match formation_limit nw n with Some l => Z.of_nat (length f) <=? l | None => true end
     | NMaint m => Z.of_nat (length f) <=? ms_tracks m
     | _ => true
     end) (so_forms o) &&
  let '(od, _, _) := nw_overflow nw in
  forallb (fun '(d, ty, sp, _) => (d =? od) || (sp <=? capacity_of nw d ty)) (so_usage o) &&
  forallb (fun '(d, tot) => (d =? od) || (tot <=? total_capacity_of nw d)) (so_usage_total o).

Definition listing_ok : bool :=
  forallb (fun '((v1, t1, _), (v2, t2, _)) => (t1 <? t2) || ((t1 =? t2) && vid_ltb v1 v2)) (windows (so_vehicles o)) &&
  forallb (fun '((d1, _), (d2, _)) => vid_ltb d1 d2) (windows (so_dummies o)).

Definition vehicles_of_type (ty : Z) : list vehicle_id :=
  map (fun '(v, _, _) => v) (filter (fun '(_, t, _) => t =? ty) (so_vehicles o)).
Definition cycles_ok : bool :=
  forallb (fun ty =>
     match assoc Z.eqb ty (so_trans o) with
     | Some (_, _, cycles) =>
         let members := flat_map fst cycles in
         nodup_vid members &&
         forallb (fun v => mem_vid v (vehicles_of_type ty)) members &&
         forallb (fun v => mem_vid v members) (vehicles_of_type ty)
     | None => false
     end) (type_ids nw) &&
  (* get_successor_of = cyclic successor *)
  forallb (fun '(v, nx) =>
     match type_of_real v with
     | Some ty =>
         match assoc Z.eqb ty (so_trans o) with
         | Some (_, _, cycles) =>
             existsb (fun '(l, _) => existsb (fun '(a, b) => vid_eqb a v && vid_eqb b nx) (cyclic_pairs l)) cycles
         | None => false end
     | None => false end) (so_next o).

Definition check_inv : list Z :=
  (if forallb real_tour_ok (so_vehicles o) then [] else [1001]) ++
  (if forallb dummy_tour_ok (so_dummies o) then [] else [1002]) ++
  (if forms_ok then [] else [1003]) ++
  (if limits_ok then [] else [1004]) ++
  (if listing_ok then [] else [1005]) ++
  (if cycles_ok then [] else [1006]).
End Obs.
