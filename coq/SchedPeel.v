(* SchedPeel.v — the capacity check added to update_tours by the repair "fix: a start depot handed to the receiver must
   have room for it" can only turn a result into Err / Panic: every Ok result of update_tours is the Ok result of the
   pre-repair function, so facts proved about Ok results of the latter carry over. *)
From RS Require Import Base Network Tour Transition Schedule.

Lemma update_tours_peel nw s vehicles tours forms usage dummies ids dids uns costs p ntp r ntr moved res :
  update_tours nw s vehicles tours forms usage dummies ids dids uns costs p ntp r ntr moved = Ok res ->
  update_tours_prefix nw s vehicles tours forms usage dummies ids dids uns costs p ntp r ntr moved = Ok res.
Proof.
  unfold update_tours, update_tours_prefix.
  destruct (match ntp with Some _ => _ | None => _ end) as [[[[[[v1 t1] d1] i1] dd1] c1]| | |]; cbn [bind]; try discriminate.
  destruct (update_depot_usage nw s usage v1 t1 p) as [u1| | |]; cbn [bind]; try discriminate.
  destruct (update_tour_and_costs s t1 d1 c1 r ntr) as [[[t2 d2] c2]| | |]; cbn [bind]; try discriminate.
  destruct (update_depot_usage nw s u1 v1 t2 r) as [u2| | |]; cbn [bind]; try discriminate.
  match goal with |- bind ?x _ = _ -> _ => destruct x as [[]| | |]; cbn [bind]; try discriminate end.
  intros H. exact H.
Qed.
