(* SchedStruct.v — structural invariants of every reachable schedule of the model (Schedule.v): statements for
   C10 (listings, tours, formations, formation limits, rotation cycles), for the remaining schedule-level item of
   C09 (depot usage) and for C11 (candidates are reachable). Proofs in Sched*Facts.v / SwapsFacts.v. *)
From Coq Require Import Sorted.
From RS Require Import Base Network NetSpec Tour TourStmts Transition TransSpec Schedule SchedInv SchedObs.

Section St.
Variable nw : network.

(** ** histories whose Path arguments are valid Paths (Path::new is the only public constructor that
    does not trust its argument; spawn_vehicle_for_path and add_path_to_vehicle_tour take a Path) *)
Inductive vstep : schedule -> schedule -> Prop :=
| vs_spawn s ty path s' v : valid_path nw path -> spawn_vehicle_for_path nw s ty path = Ok (s', v) -> vstep s s'
| vs_spawn_dummy s d ty s' v : spawn_to_replace_dummy nw s d ty = Ok (s', v) -> vstep s s'
| vs_delete s v s' : replace_vehicle_by_dummy nw s v = Ok s' -> vstep s s'
| vs_add_path s v path s' c : valid_path nw path -> add_path_to_vehicle_tour nw s v path = Ok (s', c) -> vstep s s'
| vs_remove_segment s seg v s' : remove_segment nw s seg v = Ok s' -> vstep s s'
| vs_fit s seg p r s' : fit_reassign nw s seg p r = Ok s' -> vstep s s'
| vs_override s seg p r s' d : override_reassign nw s seg p r = Ok (s', d) -> vstep s s'
| vs_improve s vs s' : improve_depots nw s vs = Ok s' -> vstep s s'
| vs_greedy s s' : reassign_end_depots_greedily nw s = Ok s' -> vstep s s'
| vs_recompute s ts s' : recompute_transitions_for nw s ts = Ok s' -> vstep s s'
| vs_consistent s s' : reassign_end_depots_consistent nw s = Ok s' -> vstep s s'.
Inductive vreachable : schedule -> Prop :=
| vr_empty s : empty_schedule nw = Ok s -> vreachable s
| vr_step s s' : vreachable s -> vstep s s' -> vreachable s'.
Definition stmt_vreachable_reachable : Prop := forall s, vreachable s -> reachable nw s.

Definition vid_lt (a b : vehicle_id) : Prop := vid_ltb a b = true.
Definition keys {A B} (l : list (A * B)) : list A := map fst l.

(** ** listings (C10: "vehicle and dummy listings are sorted and match the stored tours") *)
Record ListingOK (s : schedule) : Prop := {
  lo_veh_nodup : NoDup (keys (s_vehicles s));
  lo_tours_nodup : NoDup (keys (s_tours s));
  lo_dummies_nodup : NoDup (keys (s_dummies s));
  lo_same_keys : forall v, In v (keys (s_vehicles s)) <-> In v (keys (s_tours s));
  lo_real : forall v, In v (keys (s_vehicles s)) -> vid_is_real v = true;
  lo_dummy : forall d, In d (keys (s_dummies s)) -> vid_is_real d = false;
  lo_ids_keys : keys (s_ids s) = type_ids nw;
  lo_ids : forall v ty, vget v (s_vehicles s) = Some ty <-> In v (vehicles_iter s ty);
  lo_ids_sorted : forall ty, StronglySorted vid_lt (vehicles_iter s ty);
  lo_dids : forall d, In d (s_dummy_ids s) <-> In d (keys (s_dummies s));
  lo_dids_sorted : StronglySorted vid_lt (s_dummy_ids s) }.
Definition stmt_reachable_listing : Prop := forall s, reachable nw s -> ListingOK s.

(** ** formation and track limits (C10: "formation, track ... limits hold") — depot limits are NOT an invariant
    of arbitrary histories (known finding F1) *)
Definition form_len_ok (n : node_id) (f : list (vehicle_id * Z)) : Prop :=
  match nd nw n with
  | NMaint _ => Z.of_nat (length f) <= Z.max 0 (track_count nw n)
  | NService _ => match maximal_formation_count_for nw n with
                  | Some l => Z.of_nat (length f) <= Z.max 0 l | None => True end
  | _ => True
  end.
Definition FormLimitsOK (s : schedule) : Prop := forall n f, nget n (s_forms s) = Some f -> form_len_ok n f.
Definition stmt_reachable_form_limits : Prop := forall s, reachable nw s -> FormLimitsOK s.

(** ** depot usage (C09: "per-depot spawn counts and balances") *)
Definition starts_at (s : schedule) (d ty : Z) (v : vehicle_id) : Prop :=
  exists t, vget v (s_vehicles s) = Some ty /\ vget v (s_tours s) = Some t /\ get_depot_idx nw (first_node t) = d.
Definition ends_at (s : schedule) (d ty : Z) (v : vehicle_id) : Prop :=
  exists t, vget v (s_vehicles s) = Some ty /\ vget v (s_tours s) = Some t /\ get_depot_idx nw (last_node t) = d.
Definition usage_at (s : schedule) (d ty : Z) : list vehicle_id * list vehicle_id :=
  match uget (d, ty) (s_usage s) with Some x => x | None => ([], []) end.
Record UsageOK (s : schedule) : Prop := {
  uo_keys : NoDup (keys (s_usage s));
  uo_nodup : forall d ty, NoDup (fst (usage_at s d ty)) /\ NoDup (snd (usage_at s d ty));
  uo_spawned : forall d ty v, In v (fst (usage_at s d ty)) <-> starts_at s d ty v;
  uo_despawned : forall d ty v, In v (snd (usage_at s d ty)) <-> ends_at s d ty v }.
Definition stmt_reachable_usage : Prop := forall s, reachable nw s -> UsageOK s.

(** ** tours (C10: "every vehicle tour is a chronological path whose consecutive nodes are connectable, starts at
    a start depot, ends at an end depot and has only service trips of the vehicle's type or maintenance slots in
    between") *)
Record ToursOK (s : schedule) : Prop := {
  to_real : forall v t, vget v (s_tours s) = Some t ->
              exists ty, vget v (s_vehicles s) = Some ty /\ real_tour_ok nw (v, ty, t) = true;
  to_dummy : forall d t, vget d (s_dummies s) = Some t -> dummy_tour_ok nw (d, t) = true }.
Definition stmt_vreachable_tours : Prop := net_ok_b nw = true -> forall s, vreachable s -> ToursOK s.

(** ** formations (C10: "a vehicle is in the formation of a node exactly if its tour contains the node, never
    twice") *)
Record FormsOK (s : schedule) : Prop := {
  fo_keys_nodup : NoDup (keys (s_forms s));
  fo_keys : forall n, In n (keys (s_forms s)) <-> In n (coverable_nodes nw);
  fo_nodup : forall n f, nget n (s_forms s) = Some f -> NoDup (map fst f);
  fo_member : forall n f v ty, nget n (s_forms s) = Some f ->
                (In (v, ty) f <-> vget v (s_vehicles s) = Some ty /\
                                  exists t, vget v (s_tours s) = Some t /\ In n (t_nodes t)) }.
Definition stmt_vreachable_forms : Prop :=
  net_ok_b nw = true -> NoDup (coverable_nodes nw) -> forall s, vreachable s -> FormsOK s.

(** ** rotation cycles (C10: "every real vehicle belongs to exactly one rotation cycle of its type"; C09: the
    cycle counters and the violation per type equal their recomputed values) *)
Definition TransOK (s : schedule) : Prop :=
  forall ty, In ty (type_ids nw) ->
    exists tr, zget ty (s_trans s) = Some tr /\ TInv nw (tfn nw (s_tours s)) (vehicles_iter s ty) tr.
Definition stmt_reachable_trans : Prop := forall s, reachable nw s -> TransOK s.
End St.
