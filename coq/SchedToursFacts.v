(* SchedToursFacts.v — C10, tours, at schedule level, for ALL histories of public modifications whose Path arguments
   are valid Paths (vreachable, SchedStruct.v): [vreachable_tours : forall nw, stmt_vreachable_tours nw], and
   [vreachable_reachable].
   History of the statement: before the repair "fix: Tour::new_dummy must keep maintenance nodes" the statement was
   false of the model and of the code (Tour::new_dummy kept service nodes only, so a dummy tour could have
   consecutive nodes that are not connectable, and override_reassign / fit_reassign moved such a segment into a
   real tour); the witness network and history are kept at the end of this file, with the proof that the old
   constructor breaks connectivity and that the repaired model passes the same history. *)
From RS Require Import SchedPeel Base BaseFacts Network NetSpec NetFacts Tour TourSpec TourStmts TourFacts TourValidFacts.
From RS Require Import Transition Schedule SchedInv SchedObs SchedStruct SchedCostsFacts.
From Coq Require Import Arith.

Theorem vreachable_reachable : forall nw, stmt_vreachable_reachable nw.
Proof.
  intros nw s H. induction H as [s H|s s' H IH St].
  - apply r_empty. exact H.
  - apply (r_step nw s s' IH). destruct St.
    + eapply st_spawn; eauto.
    + eapply st_spawn_dummy; eauto.
    + eapply st_delete; eauto.
    + eapply st_add_path; eauto.
    + eapply st_remove_segment; eauto.
    + eapply st_fit; eauto.
    + eapply st_override; eauto.
    + eapply st_improve; eauto.
    + eapply st_greedy; eauto.
    + eapply st_recompute; eauto.
    + eapply st_consistent; eauto.
Qed.

Section Tours.
Variable nw : network.
Hypothesis WF : net_wf_b nw = true.
Hypothesis DP : durations_pos_b nw = true.
Notation d0 := (SD 0).
Notation compat ty := (fun n => compatible_with_vehicle_type nw n ty).

(** * the invariant *)
Definition RT (ty : Z) (t : tour) : Prop :=
  t_dummy t = false /\ RV nw (t_nodes t) /\ forall n, In n (t_nodes t) -> compatible_with_vehicle_type nw n ty = true.
Definition DT (t : tour) : Prop := t_dummy t = true /\ DV nw (t_nodes t).
Definition TI (vehicles : list (vehicle_id * Z)) (tours dummies : list (vehicle_id * tour)) : Prop :=
  (forall v t, vget v tours = Some t -> exists ty, vget v vehicles = Some ty /\ RT ty t) /\
  (forall d t, vget d dummies = Some t -> DT t).
Definition TIs (s : schedule) : Prop := TI (s_vehicles s) (s_tours s) (s_dummies s).

Lemma RT_TV ty t : RT ty t -> TV nw t.
Proof. intros (D & R & _). unfold TV. rewrite D. exact R. Qed.
Lemma DT_TV t : DT t -> TV nw t.
Proof. intros (D & R). unfold TV. rewrite D. exact R. Qed.

Lemma compat_nonservice n ty : is_service (nd nw n) = false -> compatible_with_vehicle_type nw n ty = true.
Proof. unfold compatible_with_vehicle_type. intros ->. reflexivity. Qed.
Lemma compat_sdep n ty : sdep nw n = true -> compatible_with_vehicle_type nw n ty = true.
Proof. intros H. apply compat_nonservice. unfold sdep in H. destruct (nd nw n); cbn in *; congruence. Qed.
Lemma compat_edep n ty : edep nw n = true -> compatible_with_vehicle_type nw n ty = true.
Proof. intros H. apply compat_nonservice. unfold edep in H. destruct (nd nw n); cbn in *; congruence. Qed.

Lemma TIs_ToursOK s : Inv nw s -> TIs s -> ToursOK nw s.
Proof.
  intros I [TR TD]. constructor.
  - intros v t G. destruct (TR v t G) as (ty & Gty & D & R & C). exists ty. split; [exact Gty|].
    unfold real_tour_ok. rewrite !andb_true_iff. repeat split.
    + destruct (inv_keys nw s I v t G) as (i & -> & _). reflexivity.
    + rewrite D. reflexivity.
    + apply valid_tour_nodes_RV. exact R.
    + apply forallb_forall. exact C.
  - intros d t G. destruct (TD d t G) as (D & NE & C & ND).
    unfold dummy_tour_ok. rewrite !andb_true_iff. repeat split.
    + rewrite (inv_dummy nw s I d t G). reflexivity.
    + exact D.
    + apply negb_true_iff. apply Nat.eqb_neq. intros L. apply length_zero_iff_nil in L. congruence.
    + apply forallb_forall. intros n Hn. apply negb_true_iff. apply (ND n Hn).
    + apply forallb_forall. intros [a b] Hin. apply (can_reach_le nw WF). apply C. exact Hin.
Qed.

(** * helpers *)
Lemma TI_vdel_dummy veh tours dummies d : TI veh tours dummies -> TI veh tours (vdel d dummies).
Proof.
  intros [TR TD]. split; [exact TR|]. intros k t G. rewrite vget_vdel in G.
  destruct (vid_eqb k d); [discriminate|]. eapply TD; eauto.
Qed.

Lemma TI_add_dummy veh tours dummies d dt : TI veh tours dummies -> DT dt -> TI veh tours (vset d dt dummies).
Proof.
  intros [TR TD] H. split; [exact TR|]. intros k t G. rewrite vget_vset in G.
  destruct (vid_eqb k d); [inversion G; subst; exact H|]. eapply TD; eauto.
Qed.

Lemma TI_vdel_real veh tours dummies v : TI veh tours dummies -> TI (vdel v veh) (vdel v tours) dummies.
Proof.
  intros [TR TD]. split; [|exact TD]. intros k t G. rewrite vget_vdel in G.
  destruct (vid_eqb k v) eqn:E; [discriminate|]. destruct (TR k t G) as (ty & Gty & R).
  exists ty. split; [|exact R]. rewrite vget_vdel, E. exact Gty.
Qed.

Lemma TI_set_real veh tours dummies v nt :
  TI veh tours dummies -> (exists ty, vget v veh = Some ty /\ RT ty nt) -> TI veh (vset v nt tours) dummies.
Proof.
  intros [TR TD] H. split; [|exact TD]. intros k t G. rewrite vget_vset in G.
  destruct (vid_eqb k v) eqn:E.
  - apply vid_eqb_eq in E. subst k. inversion G; subst. exact H.
  - eapply TR; eauto.
Qed.

Lemma tour_of_cases s v t : Inv nw s -> tour_of s v = Ok t ->
  (is_dummy s v = false /\ vget v (s_tours s) = Some t) \/
  (is_dummy s v = true /\ vget v (s_dummies s) = Some t /\ vget v (s_tours s) = None).
Proof.
  intros I H. unfold tour_of in H. unfold is_dummy.
  destruct (vget v (s_tours s)) as [t0|] eqn:G.
  - inversion H; subst. left. split; [|reflexivity].
    destruct (inv_keys nw s I v t G) as (i & -> & _).
    destruct (vget (Veh i) (s_dummies s)) eqn:G2; [|reflexivity].
    apply (inv_dummy nw s I) in G2. discriminate.
  - right. destruct (vget v (s_dummies s)); [|discriminate]. inversion H; subst. auto.
Qed.

Lemma tour_of_T s v t : Inv nw s -> TIs s -> tour_of s v = Ok t ->
  TV nw t /\ (is_dummy s v = true -> DT t) /\
  (is_dummy s v = false -> vget v (s_tours s) = Some t /\ exists ty, vget v (s_vehicles s) = Some ty /\ RT ty t).
Proof.
  intros I [TR TD] H. destruct (tour_of_cases s v t I H) as [[D G]|[D [G _]]].
  - destruct (TR v t G) as (ty & Gty & R). split; [eapply RT_TV; eauto|].
    split; [congruence|]. intros _. split; [exact G|]. exists ty. auto.
  - pose proof (TD v t G) as R. split; [apply DT_TV; exact R|]. split; [auto|congruence].
Qed.

Lemma panic_ok {A} (r : res A) x : match r with Ok t => Ok t | _ => Panic end = Ok x -> r = Ok x.
Proof. destruct r; intros H; try discriminate; auto. Qed.

Lemma dummy_from_path path dt : connected nw path -> tour_new_dummy nw path = Ok dt -> DT dt.
Proof. intros C H. exact (tour_new_dummy_valid nw path dt C H). Qed.

Lemma add_suitable_depots_nodes s ty path nodes : add_suitable_depots nw s ty path = Ok nodes ->
  forall x, In x nodes -> In x path \/ x = hd d0 nodes \/ x = last nodes d0.
Proof.
  unfold add_suitable_depots. destruct path as [|first rest]; [discriminate|].
  destruct (nw_overflow nw) as [[o1 os] oe].
  destruct (is_depot (nd nw first) && negb _).
  - intros H x Hx. injection H as H. subst nodes.
    match type of Hx with In _ (if ?c then _ else _) => destruct c end.
    + destruct rest as [|b r].
      * cbn in Hx. destruct Hx as [<-|[]]. right; left; reflexivity.
      * change (In x ((os :: removelast (b :: r)) ++ [oe])) in Hx.
        change (In x (first :: b :: r) \/ x = os \/ x = last ((os :: removelast (b :: r)) ++ [oe]) d0).
        apply in_app_or in Hx. destruct Hx as [[<-|Hx]|[<-|[]]].
        -- right; left; reflexivity.
        -- left. right. apply in_removelast. exact Hx.
        -- right; right. rewrite last_app_ne by discriminate. reflexivity.
    + change (In x ((os :: rest) ++ [oe])) in Hx.
      change (In x (first :: rest) \/ x = os \/ x = last ((os :: rest) ++ [oe]) d0).
      apply in_app_or in Hx. destruct Hx as [[<-|Hx]|[<-|[]]].
      * right; left; reflexivity.
      * left; right; exact Hx.
      * right; right. rewrite last_app_ne by discriminate. reflexivity.
  - intros H x Hx.
    assert (Q : exists n1, (if is_depot (nd nw first) then Ok (first :: rest)
                 else do d <- find_best_start_depot_res nw (s_usage s) ty first; Ok (d :: first :: rest)) = Ok n1 /\
                 n1 <> [] /\ forall z, In z n1 -> In z (first :: rest) \/ z = hd d0 n1).
    { destruct (is_depot (nd nw first)).
      - eexists; split; [reflexivity|]. split; [discriminate|]. intros z Hz; left; exact Hz.
      - destruct (find_best_start_depot_res nw (s_usage s) ty first) as [d| | |]; cbn [bind] in H; try discriminate H.
        eexists; split; [reflexivity|]. split; [discriminate|]. intros z [<-|Hz]; [right; reflexivity|left; exact Hz]. }
    destruct Q as (n1 & Q1 & Q2 & Q3). rewrite Q1 in H. cbn [bind] in H.
    destruct (is_depot (nd nw (last (first :: rest) first))).
    + inversion H; subst. destruct (Q3 x Hx) as [G|G]; auto.
    + mon H. inversion H; subst; clear H. apply in_app_or in Hx. destruct Hx as [Hx|[<-|[]]].
      * rewrite hd_app_ne by exact Q2. destruct (Q3 x Hx) as [G|G]; auto.
      * right; right. rewrite last_app_ne by discriminate. reflexivity.
Qed.

Lemma tour_new_RT ty path nodes t :
  forallb (compat ty) path = true ->
  (forall x, In x nodes -> In x path \/ x = hd d0 nodes \/ x = last nodes d0) ->
  tour_new nw nodes = Ok t -> RT ty t.
Proof.
  intros CK IN H. unfold tour_new in H. destruct nodes as [|f r] eqn:EN; [discriminate|]. rewrite <- EN in *.
  destruct (valid_tour_nodes nw nodes) eqn:V; [|discriminate]. inversion H; subst t; clear H.
  apply valid_tour_nodes_RV in V. cbn [new_computing]. split; [reflexivity|]. split; [exact V|].
  cbn [t_nodes]. intros n Hn. destruct V as (_ & _ & Hs & He & _).
  destruct (IN n Hn) as [G|[-> | ->]].
  - rewrite forallb_forall in CK. apply CK. exact G.
  - apply compat_sdep. exact Hs.
  - apply compat_edep. exact He.
Qed.

Lemma spawn_T s ty path s' v : TIs s -> spawn_vehicle_for_path nw s ty path = Ok (s', v) -> TIs s'.
Proof.
  intros T H. unfold spawn_vehicle_for_path in H.
  destruct (negb (forallb (compat ty) path)) eqn:CK; [discriminate|]. apply negb_false_iff in CK.
  mon H. mon H. mon H. monp H. mon H. monp H. inversion H; subst; clear H.
  pose proof (tour_new_RT ty path a a0 CK (add_suitable_depots_nodes _ _ _ _ E) E0) as R.
  destruct T as [TR TD]. unfold TIs. cbn [with_fields s_vehicles s_tours s_dummies].
  split; [|exact TD]. intros k t G. rewrite vget_vset in G. rewrite vget_vset.
  destruct (vid_eqb k (Veh (s_counter s))).
  - inversion G; subst. exists ty. auto.
  - eapply TR; eauto.
Qed.

Lemma delete_dummy_T s d s' : TIs s -> delete_dummy s d = Ok s' -> TIs s'.
Proof.
  intros T H. unfold delete_dummy in H. destruct (negb _) in H; [discriminate|].
  mon H. inversion H; subst; clear H. unfold TIs. cbn [with_fields s_vehicles s_tours s_dummies].
  apply TI_vdel_dummy. exact T.
Qed.

Lemma spawn_dummy_T s d ty s' v : TIs s -> spawn_to_replace_dummy nw s d ty = Ok (s', v) -> TIs s'.
Proof.
  intros T H. unfold spawn_to_replace_dummy in H. mon H. mon H.
  eapply spawn_T; [|eauto]. eapply delete_dummy_T; eauto.
Qed.

Lemma recompute_T s ts s' : TIs s -> recompute_transitions_for nw s ts = Ok s' -> TIs s'.
Proof.
  intros T H. unfold recompute_transitions_for in H. monp H. inversion H; subst; clear H. exact T.
Qed.

Lemma replace_T s v s' : Inv nw s -> TIs s -> replace_vehicle_by_dummy nw s v = Ok s' -> TIs s'.
Proof.
  intros I T H. unfold replace_vehicle_by_dummy in H.
  destruct (negb _) in H; [discriminate|].
  mon H. mon H. mon H. monp H. mon H. mon H. mon H.
  apply unwrap_opt_ok in E1.
  destruct T as [TR TD]. destruct (TR _ _ E1) as (ty & Gty & R).
  destruct (sub_path_valid nw _ _ _ (TV_connected nw _ (RT_TV _ _ R)) E5) as [VP _].
  destruct VP as (_ & CP & _).
  assert (Q : TI (vdel v (s_vehicles s)) (vdel v (s_tours s)) (s_dummies s)) by (apply TI_vdel_real; split; assumption).
  destruct (tour_new_dummy nw a4) as [dt| | |] eqn:TD0; cbn [add_dummy_tour] in H;
    monp H; inversion H; subst; clear H; unfold TIs; cbn [with_fields s_vehicles s_tours s_dummies]; auto.
  apply TI_add_dummy; [exact Q|]. eapply dummy_from_path; eauto.
Qed.

Lemma add_path_T s v path s' c : Inv nw s -> TIs s -> valid_path nw path ->
  add_path_to_vehicle_tour nw s v path = Ok (s', c) -> TIs s'.
Proof.
  intros I T VP H. unfold add_path_to_vehicle_tour in H.
  destruct path as [|pf path'] eqn:EP; [discriminate|]. rewrite <- EP in *.
  match type of H with (if ?b then _ else _) = _ => destruct b eqn:CK; [discriminate|] end.
  mon H. mon H. monp H. mon H. monp H. monp H. mon H. mon H. monp H. inversion H; subst s' c; clear H.
  apply unwrap_opt_ok in E0, E2.
  unfold vehicle_type_of in CK. rewrite E0 in CK. cbn [ok_or_err] in CK. apply negb_false_iff in CK.
  pose proof T as [TR TD]. destruct (TR _ _ E2) as (ty & Gty & R).
  assert (ty = a0) by congruence. subst ty.
  destruct (insert_path_valid nw WF DP a1 path t o (RT_TV _ _ R) VP E3) as (Dm & V' & IN & _).
  unfold TIs. cbn [with_fields s_vehicles s_tours s_dummies].
  apply TI_set_real; [exact T|]. exists a0. split; [exact Gty|].
  destruct R as (D & _ & C). split; [congruence|]. split.
  - unfold TV in V'. rewrite Dm, D in V'. exact V'.
  - intros n Hn. destruct (IN n Hn) as [G|G]; [apply C; exact G|].
    rewrite forallb_forall in CK. apply CK. exact G.
Qed.

Definition fine (s : schedule) (v : vehicle_id) (nt : tour) : Prop :=
  (is_dummy s v = true -> DT nt) /\
  (is_dummy s v = false -> forall ty, vget v (s_vehicles s) = Some ty -> RT ty nt).

Lemma TV_DT t : TV nw t -> t_dummy t = true -> DT t.
Proof. unfold TV. intros H E. rewrite E in H. split; assumption. Qed.

Lemma TV_RV t : TV nw t -> t_dummy t = false -> RV nw (t_nodes t).
Proof. unfold TV. intros H E. rewrite E in H. exact H. Qed.

(* a tour with the flag of v's tour, valid, all of whose nodes are compatible with v's type (if real) *)
Lemma fine_intro s v t nt : Inv nw s -> TIs s -> tour_of s v = Ok t ->
  t_dummy nt = t_dummy t -> TV nw nt ->
  (forall ty, vget v (s_vehicles s) = Some ty -> forall n, In n (t_nodes nt) ->
      compatible_with_vehicle_type nw n ty = true) ->
  fine s v nt.
Proof.
  intros I T TO Dm V C. destruct (tour_of_T s v t I T TO) as (_ & F1 & F2). split.
  - intros D. destruct (F1 D) as [Dt _]. apply TV_DT; [exact V|congruence].
  - intros D ty Gty. destruct (F2 D) as (_ & ty0 & Gty0 & (Dt & _ & _)).
    split; [congruence|]. split; [apply TV_RV; [exact V|congruence]|]. apply C. exact Gty.
Qed.

Lemma tour_compat s v t : Inv nw s -> TIs s -> tour_of s v = Ok t ->
  forall ty, vget v (s_vehicles s) = Some ty -> forall n, In n (t_nodes t) ->
  compatible_with_vehicle_type nw n ty = true.
Proof.
  intros I T TO ty Gty n Hn. destruct (tour_of_T s v t I T TO) as (_ & F1 & F2).
  destruct (is_dummy s v) eqn:D.
  - exfalso. apply (is_dummy_not_real s v (inv_dummy nw s I)) in D.
    rewrite (inv_real nw s I v ty Gty) in D. discriminate.
  - destruct (F2 eq_refl) as (_ & ty0 & Gty0 & (_ & _ & C)). assert (ty = ty0) by congruence. subst. apply C. exact Hn.
Qed.

Lemma fine_remove s v t seg nt rp : Inv nw s -> TIs s -> tour_of s v = Ok t ->
  Tour.remove nw t seg = Ok (Some nt, rp) -> fine s v nt.
Proof.
  intros I T TO H. destruct (tour_of_T s v t I T TO) as (V & _ & _).
  pose proof (remove_sub nw _ _ _ _ V H) as SB.
  destruct (remove_valid nw _ _ _ _ V H) as (i & j & _ & _ & _ & _ & _ & _ & Dm & V' & _).
  eapply fine_intro; eauto. intros ty Gty n Hn. eapply tour_compat; eauto. eapply Sub_in; eauto.
Qed.

Lemma utc_T s vehicles tours dummies costs v nt t' d' c' :
  TI vehicles tours dummies ->
  (is_dummy s v = true -> DT nt) ->
  (is_dummy s v = false -> forall ty, vget v vehicles = Some ty -> RT ty nt) ->
  update_tour_and_costs s tours dummies costs v nt = Ok (t', d', c') -> TI vehicles t' d'.
Proof.
  intros T F1 F2 H. unfold update_tour_and_costs in H. destruct (is_dummy s v) eqn:D.
  - inversion H; subst. apply TI_add_dummy; auto.
  - mon H. mon H. inversion H; subst; clear H. apply unwrap_opt_ok in E.
    apply TI_set_real; [exact T|]. destruct T as [TR _]. destruct (TR _ _ E) as (ty & Gty & _).
    exists ty. split; [exact Gty|]. apply F2; auto.
Qed.

Lemma remove_segment_T s seg v s' : Inv nw s -> TIs s -> remove_segment nw s seg v = Ok s' -> TIs s'.
Proof.
  intros I T H. unfold remove_segment in H.
  destruct (negb (is_vehicle s v)) eqn:IV; [discriminate|]. apply negb_false_iff in IV.
  mon H. monp H. destruct o as [nt|]; [|eapply replace_T; eauto].
  monp H. monp H. mon H. apply panic_ok in E.
  pose proof (fine_remove s v a seg nt l I T E E0) as [F1 F2].
  pose proof (utc_T s _ _ _ _ _ _ _ _ _ T F1 F2 E2) as T1.
  destruct (tour_of_T s v a I T E) as (V & _ & _).
  destruct (remove_valid nw _ _ _ _ V E0) as (_ & _ & _ & _ & _ & _ & _ & (_ & CP & _) & _).
  destruct (tour_new_dummy nw l) as [dt| | |] eqn:TD0; cbn [add_dummy_tour] in H;
    monp H; inversion H; subst; clear H; unfold TIs; cbn [with_fields s_vehicles s_tours s_dummies]; auto.
  apply TI_add_dummy; [exact T1|]. eapply dummy_from_path; eauto.
Qed.

Lemma update_tours_T s forms usage dids uns p ntp r ntr moved
    vehicles1 tours2 forms2 usage2 dummies2 ids1 dids1 uns2 costs2 :
  Inv nw s -> TIs s -> (forall nt, ntp = Some nt -> fine s p nt) -> fine s r ntr ->
  update_tours nw s (s_vehicles s) (s_tours s) forms usage (s_dummies s) (s_ids s) dids uns (s_costs s) p ntp r ntr moved
    = Ok (vehicles1, tours2, forms2, usage2, dummies2, ids1, dids1, uns2, costs2) ->
  TI vehicles1 tours2 dummies2.
Proof.
  intros I T FP FR H. apply update_tours_peel in H. unfold update_tours_prefix in H.
  monp H. mon H. monp H. mon H. monp H. inversion H; subst; clear H.
  assert (Q : TI vehicles1 l3 l1 /\ forall ty, vget r vehicles1 = Some ty -> vget r (s_vehicles s) = Some ty).
  { destruct ntp as [nt|].
    - monp E. inversion E; subst; clear E. split; [|auto].
      destruct (FP nt eq_refl) as [F1 F2]. eapply utc_T; eauto.
    - mon E. destruct (is_dummy s p).
      + mon E. inversion E; subst. split; [|auto]. apply TI_vdel_dummy. exact T.
      + destruct (is_vehicle s p).
        * mon E. mon E. inversion E; subst. split; [apply TI_vdel_real; exact T|].
          intros ty G. rewrite vget_vdel in G. destruct (vid_eqb r p); [discriminate|exact G].
        * inversion E; subst. split; [exact T|auto]. }
  destruct Q as [Q1 Q2]. destruct FR as [F1 F2].
  eapply utc_T; [exact Q1|exact F1| |exact E1]. intros D ty G. apply F2; auto.
Qed.

Lemma check_compat s p r seg tp : Inv nw s -> TIs s ->
  check_receiver_type_compatibility nw s p r seg = Ok true -> tour_of s p = Ok tp ->
  forall ty, vget r (s_vehicles s) = Some ty ->
  (forall n, In n (t_nodes tp) -> compatible_with_vehicle_type nw n ty = true) \/
  (exists sp, sub_path nw tp seg = Ok sp /\ forallb (compat ty) sp = true).
Proof.
  intros I T H TO ty Gty. unfold check_receiver_type_compatibility in H.
  unfold vehicle_type_of at 1 in H. rewrite Gty in H. cbn [ok_or_err] in H.
  destruct (match vehicle_type_of s p with Ok tp0 => negb (tp0 =? ty)%Z | _ => true end) eqn:MM.
  - right. mon H. apply panic_ok in E. rewrite TO in E. inversion E; subst a; clear E.
    mon H. apply panic_ok in E. exists a. split; [exact E|]. inversion H. reflexivity.
  - left. unfold vehicle_type_of in MM. destruct (vget p (s_vehicles s)) as [tpy|] eqn:Gp; cbn [ok_or_err] in MM; [|discriminate].
    apply negb_false_iff in MM. apply Z.eqb_eq in MM. subst tpy.
    eapply tour_compat; eauto.
Qed.

Lemma slice_incl {A} (l : list A) i n x : In x (firstn n (skipn i l)) -> In x l.
Proof. intros H. eapply Sub_in; [|exact H]. eapply Sub_trans; [apply Sub_firstn|apply Sub_skipn]. Qed.

Lemma override_T s seg p r s' d : Inv nw s -> TIs s -> override_reassign nw s seg p r = Ok (s', d) -> TIs s'.
Proof.
  intros I T H. unfold override_reassign in H. destruct (vid_eqb p r) in H; [discriminate|].
  mon H. destruct (negb a) eqn:OK; [discriminate|]. apply negb_false_iff in OK. subst a.
  mon H. mon H. monp H. monp H. monp H.
  apply panic_ok in E0, E1.
  destruct (tour_of_T s p a I T E0) as (Vp & _ & _). destruct (tour_of_T s r a0 I T E1) as (Vr & _ & _).
  destruct (remove_valid nw _ _ _ _ Vp E2) as (i & j & _ & _ & _ & _ & EL & VP & SH).
  destruct (insert_path_valid nw WF DP a0 l t o0 Vr VP E3) as (Dm & Vt & IN & RC).
  assert (PC : forall ty, vget r (s_vehicles s) = Some ty -> forall n, In n l ->
                 compatible_with_vehicle_type nw n ty = true).
  { intros ty Gty n Hn. destruct (check_compat s p r seg a I T E E0 ty Gty) as [C|(sp & SP & C)].
    - apply C. rewrite EL in Hn. eapply slice_incl; eauto.
    - rewrite (sub_path_is_removed nw WF DP _ _ _ _ _ Vp SP E2) in C. rewrite forallb_forall in C. apply C. exact Hn. }
  assert (FR : fine s r t).
  { eapply fine_intro; eauto. intros ty Gty n Hn. destruct (IN n Hn) as [G|G].
    - eapply tour_compat; eauto.
    - eapply PC; eauto. }
  assert (FP : forall nt, o = Some nt -> fine s p nt).
  { intros nt ->. eapply fine_remove; eauto. }
  pose proof (update_tours_T _ _ _ _ _ _ _ _ _ _ _ _ _ _ _ _ _ _ _ I T FP FR E4) as T1.
  monp H. monp H. inversion H; subst; clear H.
  unfold TIs. cbn [with_fields s_vehicles s_tours s_dummies].
  destruct o0 as [np|].
  - monp E5. specialize (RC np eq_refl).
    destruct (tour_new_dummy nw np) as [dt| | |] eqn:TD0; cbn [add_dummy_tour] in E5; inversion E5; subst; auto.
    apply TI_add_dummy; [exact T1|]. eapply dummy_from_path; eauto.
  - inversion E5; subst. exact T1.
Qed.

Lemma pfi_in_path tpn provn isl n sstart send i' j' x :
  NoDup tpn -> Sub provn tpn ->
  In sstart (firstn n (skipn isl tpn)) -> In send (firstn n (skipn isl tpn)) ->
  pos_of provn sstart = Some i' -> pos_of provn send = Some j' ->
  In x (firstn (j' + 1 - i') (skipn i' provn)) -> In x (firstn n (skipn isl tpn)).
Proof.
  intros ND SB I1 I2 P1 P2 Hx.
  destruct (index_of_spec _ _ _ P1) as (y1 & X1 & Y1). apply nid_eqb_eq in Y1. subst y1.
  destruct (index_of_spec _ _ _ P2) as (y2 & X2 & Y2). apply nid_eqb_eq in Y2. subst y2.
  destruct (slice_in_nth _ _ _ _ Hx) as (k & K1 & K2 & K3).
  destruct (slice_in_nth _ _ _ _ I1) as (k1 & A1 & A2 & A3).
  destruct (slice_in_nth _ _ _ _ I2) as (k2 & B1 & B2 & B3).
  assert (O1 : ordi tpn sstart x) by (apply (Sub_ordi provn); [exact SB|]; exists i', k; repeat split; auto).
  assert (O2 : ordi tpn x send) by (apply (Sub_ordi provn); [exact SB|]; exists k, j'; repeat split; auto; lia).
  destruct (ordi_between tpn sstart send x k1 k2 ND A3 B3 O1 O2) as (k0 & C1 & C2 & C3).
  apply (in_slice_nth tpn isl n k0); auto; lia.
Qed.

Fixpoint take_ref (blk : node_id) (l : list node_id) (i : nat) : list (nat * node_id) :=
  match l with
  | [] => []
  | n :: rest => if dt_ltb (start_time nw blk) (end_time nw n) then [] else (i, n) :: take_ref blk rest (S i)
  end.

Lemma take_ref_in blk l : forall i e, In e (take_ref blk l i) -> In (snd e) l.
Proof.
  induction l as [|n rest IH]; intros i e H; [destruct H|]. cbn [take_ref] in H.
  destruct (dt_ltb (start_time nw blk) (end_time nw n)); [destruct H|].
  destruct H as [<-|H]; [left; reflexivity|right; eapply IH; eauto].
Qed.

Lemma last_filter_in {A} (f : A -> bool) L dflt :
  last (filter f L) dflt = dflt \/ In (last (filter f L) dflt) L.
Proof.
  destruct (filter f L) as [|a r] eqn:E; [left; reflexivity|right].
  assert (Q : In (last (a :: r) dflt) (filter f L)) by (rewrite E; apply last_in; discriminate).
  apply filter_In in Q. tauto.
Qed.

Lemma fit_loop_T tpn isl n dp dr trcn : NoDup tpn ->
  forall fuel ntp ntr remaining moved ntp' ntr' moved',
  (forall prov, ntp = Some prov -> t_dummy prov = dp /\ TV nw prov /\ Sub (t_nodes prov) tpn) ->
  (t_dummy ntr = dr /\ TV nw ntr /\ forall z, In z (t_nodes ntr) -> In z trcn \/ In z (firstn n (skipn isl tpn))) ->
  (forall rem, remaining = Some rem -> incl rem (firstn n (skipn isl tpn))) ->
  fit_loop nw fuel ntp ntr remaining moved = Ok (ntp', ntr', moved') ->
  (forall prov, ntp' = Some prov -> t_dummy prov = dp /\ TV nw prov /\ Sub (t_nodes prov) tpn) /\
  (t_dummy ntr' = dr /\ TV nw ntr' /\ forall z, In z (t_nodes ntr') -> In z trcn \/ In z (firstn n (skipn isl tpn))).
Proof.
  intros ND. induction fuel as [|f IH]; intros ntp ntr remaining moved ntp' ntr' moved' HP HR HM H.
  - destruct remaining; cbn in H; [discriminate|]. inversion H; subst. auto.
  - destruct remaining as [rem|]; [|cbn in H; inversion H; subst; auto].
    cbn [fit_loop] in H. destruct rem as [|sstart rest0] eqn:ER; [discriminate|]. rewrite <- ER in *.
    mon H. mon H. monp H.
    assert (N1 : In n1 rem).
    { destruct a0 as [pos|].
      - injection E1 as E1.
        match type of E1 with last (filter ?ff ?L) ?d = _ =>
          destruct (last_filter_in ff L d) as [Q|Q]; rewrite E1 in Q end.
        + inversion Q; subst. left; reflexivity.
        + destruct (dt_ltb _ _) in Q; [destruct Q|].
          destruct Q as [Q|Q]; [inversion Q; subst; left; reflexivity|].
          match type of Q with In _ (?T rest0 _) =>
            assert (TK : forall l i e, In e (T l i) -> In (snd e) l) end.
          { clear. induction l as [|x l IHl]; intros i e He; [destruct He|].
            cbn in He. destruct (dt_ltb _ _) in He; [destruct He|].
            destruct He as [<-|He]; [left; reflexivity|right; eapply IHl; eauto]. }
          apply TK in Q. rewrite ER. right. exact Q.
      - inversion E1; subst n1. apply last_in. rewrite ER. discriminate. }
    apply unwrap_opt_ok in E. destruct (HP a E) as (Dpa & Va & Sa).
    destruct HR as (Dr & Vr & INr).
    assert (HM' : forall rem0, path_new_trusted nw (skipn (n0 + 1) rem) = Some rem0 ->
                    incl rem0 (firstn n (skipn isl tpn))).
    { intros rem0 Q. apply path_new_trusted_some in Q. destruct Q as [-> _].
      intros z Hz. apply (HM rem eq_refl). eapply Sub_in; [apply Sub_skipn|exact Hz]. }
    destruct (Tour.remove nw a (sstart, n1)) as [[cand_prov pfi]| | |] eqn:RM; try discriminate H.
    + mon H. destruct a1 as [cf|].
      * eapply IH; eauto.
      * monp H.
        destruct (remove_valid nw _ _ _ _ Va RM) as (i' & j' & P1 & P2 & _ & _ & EL & VPf & SH).
        cbn [fst snd] in P1, P2.
        destruct (insert_path_valid nw WF DP ntr pfi t o Vr VPf E3) as (Dm & Vnr & INnr & _).
        eapply IH; [| | exact HM' | exact H].
        -- intros prov ->. destruct SH as (D1 & V1 & _). split; [congruence|]. split; [exact V1|].
           eapply Sub_trans; [exact (remove_sub nw a (sstart, n1) prov pfi Va RM)|exact Sa].
        -- split; [congruence|]. split; [exact Vnr|]. intros z Hz. destruct (INnr z Hz) as [G|G]; [auto|].
           right. rewrite EL in G.
           apply (pfi_in_path tpn (t_nodes a) isl n sstart n1 i' j' z ND Sa); auto.
           ++ apply (HM rem eq_refl). rewrite ER. left; reflexivity.
           ++ apply (HM rem eq_refl). exact N1.
    + eapply IH; eauto.
Qed.

Lemma fit_T s seg p r s' : Inv nw s -> TIs s -> fit_reassign nw s seg p r = Ok s' -> TIs s'.
Proof.
  intros I T H. unfold fit_reassign in H.
  mon H. destruct (negb a) eqn:OK; [discriminate|]. apply negb_false_iff in OK. subst a.
  mon H. mon H. mon H. monp H. monp H. monp H. inversion H; subst; clear H.
  apply panic_ok in E0, E1.
  destruct (tour_of_T s p a I T E0) as (Vp & _ & _). destruct (tour_of_T s r a0 I T E1) as (Vr & _ & _).
  pose proof (TV_connected nw _ Vp) as Cp.
  destruct (sub_path_slice nw _ _ _ E2) as (i & j & _ & _ & EL & _ & _ & _).
  assert (PC : forall ty, vget r (s_vehicles s) = Some ty -> forall n, In n a1 ->
                 compatible_with_vehicle_type nw n ty = true).
  { intros ty Gty n Hn. destruct (check_compat s p r seg a I T E E0 ty Gty) as [C|(sp & SP & C)].
    - apply C. rewrite EL in Hn. eapply slice_incl; eauto.
    - rewrite E2 in SP. inversion SP; subst sp. rewrite forallb_forall in C. apply C. exact Hn. }
  assert (FL : (forall prov, o = Some prov -> t_dummy prov = t_dummy a /\ TV nw prov /\ Sub (t_nodes prov) (t_nodes a)) /\
               (t_dummy t = t_dummy a0 /\ TV nw t /\
                forall w, In w (t_nodes t) -> In w (t_nodes a0) \/ In w (firstn (j + 1 - i) (skipn i (t_nodes a))))).
  { eapply (fit_loop_T (t_nodes a) i (j + 1 - i) (t_dummy a) (t_dummy a0) (t_nodes a0)
              (connected_nodup nw WF DP _ Cp)); [| | |exact E3].
    - intros prov Q. inversion Q; subst prov. split; [reflexivity|]. split; [exact Vp|apply Sub_refl].
    - split; [reflexivity|]. split; [exact Vr|]. intros w Hw. left. exact Hw.
    - intros rem Q. inversion Q; subst rem. rewrite EL. apply incl_refl. }
  destruct FL as (HP & Dr & Vr' & INr).
  assert (FR : fine s r t).
  { eapply fine_intro; eauto. intros ty Gty n Hn. destruct (INr n Hn) as [G|G].
    - apply (tour_compat s r a0 I T E1 ty Gty). exact G.
    - apply (PC ty Gty). rewrite EL. exact G. }
  assert (FP : forall nt, o = Some nt -> fine s p nt).
  { intros nt Q. destruct (HP nt Q) as (D1 & V1 & S1). eapply fine_intro; eauto.
    intros ty Gty n Hn. apply (tour_compat s p a I T E0 ty Gty). eapply Sub_in; eauto. }
  pose proof (update_tours_T _ _ _ _ _ _ _ _ _ _ _ _ _ _ _ _ _ _ _ I T FP FR E4) as T1.
  exact T1.
Qed.

(** ** the three depot-reassignment folds *)
Lemma fold_res_strict {S V} (f : res S -> V -> res S) :
  (forall r v x, f r v = Ok x -> exists y, r = Ok y) ->
  forall l r x, fold_left f l r = Ok x -> exists y, r = Ok y.
Proof.
  intros ST. induction l as [|v l IH]; cbn [fold_left]; intros r x H; [eauto|].
  apply IH in H. destruct H as [y H]. eapply ST; eauto.
Qed.

Lemma fold_res_inv {S V} (f : res S -> V -> res S) (Q : S -> Prop) :
  (forall r v x, f r v = Ok x -> exists y, r = Ok y) ->
  (forall y v x, Q y -> f (Ok y) v = Ok x -> Q x) ->
  forall l y x, Q y -> fold_left f l (Ok y) = Ok x -> Q x.
Proof.
  intros ST STEP. induction l as [|v l IH]; cbn [fold_left]; intros y x HQ H.
  - inversion H; subst. exact HQ.
  - destruct (fold_res_strict f ST _ _ _ H) as [y1 H1]. rewrite H1 in H.
    eapply IH; [|exact H]. eapply STEP; eauto.
Qed.

Lemma RT_replace_end ty t ed nt : RT ty t -> replace_end_depot nw t ed = Ok nt -> RT ty nt.
Proof.
  intros (D & R & C) H. destruct (replace_end_depot_valid nw t ed nt R H) as (D' & R' & Ed & IN).
  split; [congruence|]. split; [exact R'|]. intros n Hn. destruct (IN n Hn) as [->|G]; [apply compat_edep; exact Ed|auto].
Qed.

Lemma RT_replace_start ty t sd nt : RT ty t -> replace_start_depot nw t sd = Ok nt -> RT ty nt.
Proof.
  intros (D & R & C) H. destruct (replace_start_depot_valid nw t sd nt R H) as (D' & R' & Sd & IN).
  split; [congruence|]. split; [exact R'|]. intros n Hn. destruct (IN n Hn) as [->|G]; [apply compat_sdep; exact Sd|auto].
Qed.

Lemma tour_of_replace_end s v t ed nt : Inv nw s -> TIs s -> tour_of s v = Ok t ->
  replace_end_depot nw t ed = Ok nt -> exists ty, vget v (s_vehicles s) = Some ty /\ RT ty nt.
Proof.
  intros I T TO H. destruct (tour_of_T s v t I T TO) as (_ & F1 & F2). destruct (is_dummy s v).
  - destruct (F1 eq_refl) as [D _]. unfold replace_end_depot in H. rewrite D in H. discriminate.
  - destruct (F2 eq_refl) as (_ & ty & Gty & R). exists ty. split; [exact Gty|]. eapply RT_replace_end; eauto.
Qed.

Definition Qt {U : Type} (s : schedule) (x : list (vehicle_id * tour) * U * Z) : Prop :=
  forall v t, vget v (fst (fst x)) = Some t -> exists ty, vget v (s_vehicles s) = Some ty /\ RT ty t.

Lemma Qt_set {U} s tours (u u' : U) c c' v nt :
  Qt s (tours, u, c) -> (exists ty, vget v (s_vehicles s) = Some ty /\ RT ty nt) -> Qt s (vset v nt tours, u', c').
Proof.
  unfold Qt. cbn [fst]. intros H R k t G. rewrite vget_vset in G. destruct (vid_eqb k v) eqn:E.
  - apply vid_eqb_eq in E. subst k. inversion G; subst. exact R.
  - eapply H; eauto.
Qed.

Ltac unpanic := repeat match goal with
  | H : match ?r with Ok _ => _ | Err => Panic | Panic => Panic | OutOfFuel => Panic end = Ok _ |- _ => apply panic_ok in H
  end.

Ltac strict_tac' :=
  let r := fresh "r" in let v := fresh "v" in let x := fresh "x" in let H := fresh "H" in
  intros r v x H; destruct r; cbn [bind] in H; try discriminate H; eauto.

Lemma greedy_T s s' : Inv nw s -> TIs s -> reassign_end_depots_greedily nw s = Ok s' -> TIs s'.
Proof.
  intros I T H. unfold reassign_end_depots_greedily in H.
  monp H. monp H. inversion H; subst; clear H.
  unfold TIs. cbn [with_fields s_vehicles s_tours s_dummies]. destruct T as [TR TD]. split; [|exact TD].
  eapply (fold_res_inv _ (Qt s)) in E.
  - exact E.
  - strict_tac'.
  - intros [[tours u] costs] v x HQ H. cbn [bind] in H.
    mon H. mon H. mon H. mon H. mon H. mon H. inversion H; subst; clear H.
    unpanic. eapply Qt_set; [exact HQ|]. eapply tour_of_replace_end; eauto. split; assumption.
  - exact TR.
Qed.

Lemma consistent_T s s' : Inv nw s -> TIs s -> reassign_end_depots_consistent nw s = Ok s' -> TIs s'.
Proof.
  intros I T H. unfold reassign_end_depots_consistent in H.
  monp H. monp H. inversion H; subst; clear H.
  unfold TIs. cbn [with_fields s_vehicles s_tours s_dummies]. destruct T as [TR TD]. split; [|exact TD].
  eapply (fold_res_inv _ (Qt s)) in E.
  - exact E.
  - strict_tac'.
  - intros [[tours u] costs] v x HQ H. cbn [bind] in H.
    mon H. mon H. mon H. mon H. mon H. mon H. mon H. mon H. mon H. inversion H; subst; clear H.
    unpanic. eapply Qt_set; [exact HQ|]. eapply tour_of_replace_end; eauto. split; assumption.
  - exact TR.
Qed.

Lemma improve_tour_RT ty t usage ty' nt : RT ty t -> improve_depots_of_tour nw usage t ty' = Ok nt -> RT ty nt.
Proof.
  intros R H. unfold improve_depots_of_tour in H.
  mon H. mon H. mon H. mon H. mon H. mon H. mon H.
  assert (R1 : RT ty a2).
  { destruct (negb (nid_eqb a0 a1)); [|inversion E2; subst; exact R].
    apply panic_ok in E2. eapply RT_replace_start; eauto. }
  destruct (negb (nid_eqb a4 a5)); [|inversion H; subst; exact R1].
  apply panic_ok in H. eapply RT_replace_end; eauto.
Qed.

Lemma real_tour_of s v ty t : Inv nw s -> TIs s -> vget v (s_vehicles s) = Some ty -> tour_of s v = Ok t -> RT ty t.
Proof.
  intros I T Gty TO. destruct (tour_of_T s v t I T TO) as (_ & _ & F2).
  destruct (is_dummy s v) eqn:D.
  - exfalso. apply (is_dummy_not_real s v (inv_dummy nw s I)) in D.
    rewrite (inv_real nw s I v ty Gty) in D. discriminate.
  - destruct (F2 eq_refl) as (_ & ty0 & Gty0 & R). assert (ty = ty0) by congruence. subst. exact R.
Qed.

Lemma improve_T s vs s' : Inv nw s -> TIs s -> improve_depots nw s vs = Ok s' -> TIs s'.
Proof.
  intros I T H. unfold improve_depots in H. cbv zeta in H.
  mon H. monp H. monp H. inversion H; subst; clear H.
  unfold TIs. cbn [with_fields s_vehicles s_tours s_dummies]. pose proof T as [TR TD]. split; [|exact TD].
  eapply (fold_res_inv _ (Qt s)) in E0.
  - exact E0.
  - strict_tac'.
  - intros [[tours u] costs] v x HQ H. cbn [bind] in H.
    mon H. mon H. mon H. mon H. inversion H; subst; clear H.
    unpanic. eapply Qt_set; [exact HQ|].
    match goal with G : vehicle_type_of s v = Ok ?ty |- _ =>
      unfold vehicle_type_of in G; destruct (vget v (s_vehicles s)) as [ty0|] eqn:Gv; cbn [ok_or_err] in G; [|discriminate G];
      inversion G; subst ty0; exists ty end.
    split; [reflexivity|]. eapply improve_tour_RT; [|eauto]. eapply real_tour_of; eauto.
  - exact TR.
Qed.

(** * the induction *)
Lemma vstep_T s s' : Inv nw s -> TIs s -> vstep nw s s' -> TIs s'.
Proof.
  intros I T St. destruct St.
  - eapply spawn_T; eauto.
  - eapply spawn_dummy_T; eauto.
  - eapply replace_T; eauto.
  - eapply add_path_T; eauto.
  - eapply remove_segment_T; eauto.
  - eapply fit_T; eauto.
  - eapply override_T; eauto.
  - eapply improve_T; eauto.
  - eapply greedy_T; eauto.
  - eapply recompute_T; eauto.
  - eapply consistent_T; eauto.
Qed.

Lemma empty_T s : empty_schedule nw = Ok s -> TIs s.
Proof.
  intros H. unfold empty_schedule in H. mon H. inversion H; subst; clear H.
  split; cbn [s_tours s_dummies]; intros v t G; discriminate G.
Qed.

Lemma vreachable_T s : vreachable nw s -> TIs s.
Proof.
  induction 1 as [s H|s s' R IH St].
  - apply empty_T. exact H.
  - eapply vstep_T; eauto. apply reachable_inv. apply vreachable_reachable. exact R.
Qed.
End Tours.

(** * Main theorem *)
Theorem vreachable_tours : forall nw, stmt_vreachable_tours nw.
Proof.
  intros nw OK s R. unfold net_ok_b in OK. apply andb_true_iff in OK. destruct OK as [WF DP].
  apply TIs_ToursOK; [exact WF| |].
  - apply reachable_inv. apply vreachable_reachable. exact R.
  - apply vreachable_T; assumption.
Qed.

(** * The pre-repair behaviour (finding, repaired by "fix: Tour::new_dummy must keep maintenance nodes") *)
(* A loaded network (net_ok_b = true): two stations; trips z = SV 4 (L0->L1 8000-9000), a = SV 5 (L1->L0 10000-11000),
   c = SV 6 (L0->L1 11300-12300), d = SV 7 (L1->L0 12900-13900); one maintenance slot m = MT 8 at L1 11100-11200;
   dead-head trips 60 s, shunting minimalDuration 600 s, deadHeadTripDuration 0. Then a -> m -> c are connectable
   (dead-head both ways) but a -> c is not (same station, 300 s < 600 s shunting).
   Pre-repair witness history: spawn(ty 0, [a; m; c; d]) ; spawn(ty 0, [z]) ; replace_vehicle_by_dummy(Veh 0)
   (the dummy tour was [a; c; d], m dropped) ; override_reassign((a, d), Dummy 2, Veh 1) gave Veh 1 the tour
   [SD 0; z; a; c; d; ED 1] with can_reach a c = false, i.e. real_tour_ok = false (confirmed on the code). *)
Definition instC : instance := {|
  i_types := [ {| vt_cap := 100; vt_seats := 50; vt_limit := None |} ];
  i_nlocs := 2;
  i_depots := Some [ {| id_loc := 0; id_cap := 5; id_allowed := [(0, None)] |} ];
  i_routes := [ {| r_type := 0; r_segs := [ {| rs_origin := 1; rs_dest := 0; rs_dist := 1000; rs_dur := 1000; rs_limit := None |} ] |};
                {| r_type := 0; r_segs := [ {| rs_origin := 0; rs_dest := 1; rs_dist := 1000; rs_dur := 1000; rs_limit := None |} ] |} ];
  i_departures := [ {| d_route := 1; d_segs := [ {| ds_rseg := 0; ds_dep := 8000; ds_pass := 10; ds_seated := 5 |} ] |};
                    {| d_route := 0; d_segs := [ {| ds_rseg := 0; ds_dep := 10000; ds_pass := 10; ds_seated := 5 |} ] |};
                    {| d_route := 1; d_segs := [ {| ds_rseg := 0; ds_dep := 11300; ds_pass := 10; ds_seated := 5 |} ] |};
                    {| d_route := 0; d_segs := [ {| ds_rseg := 0; ds_dep := 12900; ds_pass := 10; ds_seated := 5 |} ] |} ];
  i_slots := Some [ {| is_loc := 1; is_start := 11100; is_end := 11200; is_tracks := 1 |} ];
  i_dh_dur := [[0; 60]; [60; 0]];
  i_dh_dist := [[0; 1000]; [1000; 0]];
  i_params := {| p_forbid := false; p_min := 600; p_dht := 0; p_maxdist := 100000;
                 c_staff := 1; c_service := 1; c_maint := 0; c_dh := 5; c_idle := 1 |} |}.

Definition nw_dflt : network :=
  {| nw_nodes := []; nw_depots := []; nw_overflow := (0, SD 0, ED 0); nw_service := []; nw_maint := [];
     nw_sdepots := []; nw_edepots := []; nw_all_by_start := []; nw_type_by_start := []; nw_type_by_end := [];
     nw_params := i_params instC; nw_nlocs := 0%nat; nw_dh := []; nw_types := []; nw_nservice := 0;
     nw_planning := Len 0 |}.
Definition get_ok {A} (r : res A) (d : A) : A := match r with Ok a => a | _ => d end.
Definition s_dflt : schedule := with_fields [] [] [] [] [] [] 0 [] [] (0, 0) 0 0.

Definition nwC : network := Eval vm_compute in get_ok (load instC []) nw_dflt.
Lemma nwC_loaded : load instC [] = Ok nwC.
Proof. vm_compute. reflexivity. Qed.
Lemma nwC_ok : net_ok_b nwC = true.
Proof. vm_compute. reflexivity. Qed.
Lemma nwC_gap : can_reach nwC (SV 5) (MT 8) = true /\ can_reach nwC (MT 8) (SV 6) = true /\
                can_reach nwC (SV 5) (SV 6) = false.
Proof. vm_compute. auto. Qed.


(* the old constructor: service nodes only *)
Definition tour_new_dummy_prefix (nw : network) (path : list node_id) : res tour :=
  let l := filter (node_is_service nw) path in
  match l with [] => Err | _ => Ok (new_computing nw l true) end.

(* it turns a connected path into a node list that is not connected ... *)
Theorem tour_new_dummy_prefix_breaks_connectivity :
  exists nw path dt, net_ok_b nw = true /\ connected nw path /\
    tour_new_dummy_prefix nw path = Ok dt /\ ~ connected nw (t_nodes dt).
Proof.
  exists nwC, [SV 5; MT 8; SV 6; SV 7]. eexists. split; [exact nwC_ok|]. split; [|split].
  - intros a b Hin. cbn in Hin. destruct Hin as [E|[E|[E|[]]]]; inversion E; subst; vm_compute; reflexivity.
  - vm_compute. reflexivity.
  - cbn [t_nodes]. intros C. specialize (C (SV 5) (SV 6) ltac:(left; reflexivity)). vm_compute in C. discriminate.
Qed.

(* ... whereas the repaired one keeps m, and the witness history now ends in a schedule with valid tours *)
Example witness_history_now :
  (do s0 <- empty_schedule nwC;
   do (s1, v0) <- spawn_vehicle_for_path nwC s0 0 [SV 5; MT 8; SV 6; SV 7];
   do (s2, v1) <- spawn_vehicle_for_path nwC s1 0 [SV 4];
   do s3 <- replace_vehicle_by_dummy nwC s2 v0;
   do (s4, _) <- override_reassign nwC s3 (SV 5, SV 7) (Dummy 2) v1;
   Ok (map (fun '(_, t) => t_nodes t) (s_dummies s3),
       map (fun '(v, t) => (t_nodes t, real_tour_ok nwC (v, 0, t))) (s_tours s4)))
  = Ok ([[SV 5; MT 8; SV 6; SV 7]], [([SD 0; SV 4; SV 5; MT 8; SV 6; SV 7; ED 1], true)]).
Proof. vm_compute. reflexivity. Qed.

Print Assumptions vreachable_reachable.
Print Assumptions vreachable_tours.
Print Assumptions tour_new_dummy_prefix_breaks_connectivity.
