(* SchedTransFacts.v — rotation cycles of reachable schedules ([stmt_reachable_trans], SchedStruct.v): for every
   vehicle type the stored transition satisfies [TInv] (TransSpec.v) w.r.t. the CURRENT tours and the type's id listing.

   RESULT. The statement as given (all network records, all histories) is FALSE, for one call shape only:
   [fit_reassign seg v v] with provider = receiver = a REAL vehicle. update_transitions then folds over [v; v]; the
   second update_vehicle subtracts the figures of v's OLD tour (read from the old tour map) from a cycle counter that
   already accounts for the new tour. This is harmless exactly when fit_loop moves nothing, which is the case on
   well-formed networks (a segment conflicts with itself); the statement quantifies over all network records, and the
   witness [nwt] is a loaded instance with two negative dead-head durations (not expressible in a real input:
   Duration is unsigned) on which the call duplicates a trip in v's tour and leaves the counter of v's two-vehicle
   cycle at 8000 instead of 7000.
     - [reachable_trans_refuted]        : ~ (forall nw, stmt_reachable_trans nw)          (witness [nwt], history ct0..ct4)
     - [reachable_trans_under_guard]    : forall nw s, treachable nw s -> TransOK nw s
                                          ([tstep]/[treachable]: the constructors of [step] with the one extra premise
                                          [fit_guard p r : p = r -> vid_is_real p = false] on the fit constructor; no
                                          other hypothesis, any network record, any Path arguments)
     - [reachable_trans_under_distinct] : forall nw s, dreachable nw s -> TransOK nw s     (SchedListFacts.v's relation:
                                          fit_reassign calls have provider <> receiver)
   The listing facts needed (a vehicle has type ty iff it is listed under ty; keys of s_vehicles = keys of s_tours)
   hold for ALL reachable schedules ([LInv false], SchedListFacts.v), so no further guard is needed.

   STRUCTURE. [update_transitions_T]: loop invariant [J] of the fold of update_transitions (after the vehicles [done]:
   upd holds exactly the new tours of [done]; every type's transition satisfies TInv for the layered tours
   [eff (tfn upd) (tfn old)] and the member set "new type for done vehicles, old type for the others"), one step by
   [update_inv]/[add_own_inv]/[remove_inv] (TransFacts.v), conclusion by [TInv_ext] (TInv depends on the members as a
   set and on the tours at the members only). [recompute_T]: new_fast_inv per recomputed type. Then one lemma per
   public modification. *)
From Coq Require Import Sorted.
From RS Require Import SchedPeel Base BaseFacts Network Tour Transition TransSpec TransStmts TransFacts TransFacts2
  Schedule SchedInv SchedStruct SchedCostsFacts SchedListFacts.
Local Open Scope Z_scope.

(** * [TInv] depends on the member list only as a set and on the tours only at the members *)
Section Ext.
Variable nw : network.

Lemma TInv_members_ext f m m' t : (forall v, In v m <-> In v m') -> TInv nw f m t -> TInv nw f m' t.
Proof.
  intros H [I1 I2 I3 I4 I5 I6 I7 I8]. constructor; auto.
  intros v. rewrite I2. apply H.
Qed.

Lemma TInv_tours_ext f g m t : (forall v, In v m -> f v = g v) -> TInv nw f m t -> TInv nw g m t.
Proof.
  intros H I. pose proof I as [I1 I2 I3 I4 I5 I6 I7 I8]. constructor; auto.
  intros k c Hc. rewrite (I6 k c Hc). apply cycle_counter_ext.
  intros x Hx. apply H. eapply inv_cycle_in; eauto.
Qed.

Lemma TInv_ext f g m m' t :
  (forall v, In v m <-> In v m') -> (forall v, In v m -> f v = g v) -> TInv nw f m t -> TInv nw g m' t.
Proof. intros H1 H2 I. eapply TInv_members_ext; eauto. eapply TInv_tours_ext; eauto. Qed.
End Ext.

(** * the tour function of a tour map *)
Lemma tfn_none nw l v : tfn nw l v = None <-> vget v l = None.
Proof. unfold tfn. destruct (vget v l); split; congruence. Qed.

Lemma tfn_vset nw v nt l x : tfn nw (vset v nt l) x = if vid_eqb x v then Some (info_of nw nt) else tfn nw l x.
Proof. unfold tfn. rewrite vget_vset. destruct (vid_eqb x v); auto. Qed.

Lemma tfn_eq nw l l' v : vget v l = vget v l' -> tfn nw l v = tfn nw l' v.
Proof. unfold tfn. intros ->. auto. Qed.

Lemma zget_in_keys {A} k (l : list (Z * A)) x : zget k l = Some x -> In k (map fst l).
Proof.
  induction l as [|[k' y] l IH]; [discriminate|]. rewrite zget_cons. cbn [map fst In].
  destruct (k =? k') eqn:E; [apply Z.eqb_eq in E; auto | auto].
Qed.

Lemma iter_in_keys ids ty v : In v (iter ids ty) -> In ty (map fst ids).
Proof.
  unfold iter. destruct (zget ty ids) eqn:G; [|intros []]. intros _. eapply zget_in_keys; eauto.
Qed.

Section Core.
Variable nw : network.

(* every type has a transition that is exact for the given tours and id listing *)
Definition TOK (trans : list (Z * transition)) (f : tours_fn) (ids : list (Z * list vehicle_id)) : Prop :=
  forall ty, In ty (type_ids nw) -> exists tr, zget ty trans = Some tr /\ TInv nw f (iter ids ty) tr.

Lemma TransOK_TOK s : TransOK nw s <-> TOK (s_trans s) (tfn nw (s_tours s)) (s_ids s).
Proof. reflexivity. Qed.

(** ** update_transitions *)
Section UT.
Variable s : schedule.
Variable vehicles : list (vehicle_id * Z).
Variable tours : list (vehicle_id * tour).
Variable ids' : list (Z * list vehicle_id).
Hypothesis Vold : VPart nw (s_vehicles s) (s_tours s) (s_ids s).
Hypothesis Vnew : VPart nw vehicles tours ids'.
Hypothesis Stab : forall v ty ty', vget v vehicles = Some ty -> vget v (s_vehicles s) = Some ty' -> ty = ty'.

Definition ut_step (acc : res (list (Z * transition) * Z * list (vehicle_id * tour))) (v : vehicle_id) :=
      do (tr, vi, upd) <- acc;
      if negb (vid_is_real v) then Ok (tr, vi, upd)
      else
        do ty <- unwrap_opt (match vget v vehicles with Some t => Some t | None => vget v (s_vehicles s) end);
        do old_t <- unwrap_opt (zget ty tr);
        let was := is_vehicle s v in
        let isnow := match vget v vehicles with Some _ => true | None => false end in
        do (new_t, upd') <-
          (match was, isnow with
           | true, true =>
               do nt <- unwrap_opt (vget v tours);
               do t' <- update_vehicle nw old_t v (info_of nw nt) (tfn nw upd) (tfn nw (s_tours s));
               Ok (t', vset v nt upd)
           | false, true =>
               do nt <- unwrap_opt (vget v tours);
               do t' <- add_vehicle_to_own_cycle nw old_t v (info_of nw nt);
               Ok (t', vset v nt upd)
           | true, false =>
               do t' <- remove_vehicle nw old_t v (tfn nw upd) (tfn nw (s_tours s));
               Ok (t', upd)
           | false, false => Panic
           end);
        Ok (zset ty new_t tr, (vi + tr_viol new_t) - tr_viol old_t, upd').

Lemma ut_unfold trans viol changed :
  update_transitions nw s trans viol changed vehicles tours =
  do (tr, vi, _) <- fold_left ut_step changed (Ok (trans, viol, [])); Ok (tr, vi).
Proof. reflexivity. Qed.

Lemma ut_step_strict acc v x : ut_step acc v = Ok x -> exists y, acc = Ok y.
Proof. unfold ut_step. destruct acc; cbn [bind]; intros H; try discriminate H; eauto. Qed.

Lemma ut_fold_strict l acc x : fold_left ut_step l acc = Ok x -> exists y, acc = Ok y.
Proof.
  revert acc. induction l as [|v l IH]; cbn [fold_left]; intros acc H; [eauto|].
  apply IH in H. destruct H as [y H]. eapply ut_step_strict; eauto.
Qed.

(* the loop invariant after the vehicles [done] *)
Definition memb (done : list vehicle_id) (ty : Z) (x : vehicle_id) : Prop :=
  (In x done /\ vget x vehicles = Some ty) \/ (~ In x done /\ vget x (s_vehicles s) = Some ty).

Definition J (done : list vehicle_id) (tr : list (Z * transition)) (upd : list (vehicle_id * tour)) : Prop :=
  (forall v, In v done -> vget v upd = vget v tours) /\
  (forall v, ~ In v done -> vget v upd = None) /\
  (forall ty, In ty (type_ids nw) -> exists t m, zget ty tr = Some t /\
      (forall x, In x m <-> memb done ty x) /\
      TInv nw (eff (tfn nw upd) (tfn nw (s_tours s))) m t).

Lemma in_dec_v (x : vehicle_id) l : In x l \/ ~ In x l.
Proof. destruct (in_dec vid_eq_dec x l); auto. Qed.

Lemma type_in_ids_old v ty : vget v (s_vehicles s) = Some ty -> In ty (type_ids nw).
Proof.
  intros G. apply (v_ids _ _ _ _ Vold) in G. apply iter_in_keys in G. now rewrite (v_keys _ _ _ _ Vold) in G.
Qed.
Lemma type_in_ids_new v ty : vget v vehicles = Some ty -> In ty (type_ids nw).
Proof.
  intros G. apply (v_ids _ _ _ _ Vnew) in G. apply iter_in_keys in G. now rewrite (v_keys _ _ _ _ Vnew) in G.
Qed.

Lemma J_total done upd ty m :
  (forall v, In v done -> vget v upd = vget v tours) -> (forall v, ~ In v done -> vget v upd = None) ->
  (forall x, In x m <-> memb done ty x) ->
  tours_total (eff (tfn nw upd) (tfn nw (s_tours s))) m.
Proof.
  intros J1 J2 Hm x Hx. apply Hm in Hx. unfold eff. destruct Hx as [[Hd G]|[Hd G]].
  - assert (Q : vget x tours <> None).
    { intros Q. apply (v_same _ _ _ _ Vnew) in Q. congruence. }
    rewrite <- (J1 x Hd) in Q. destruct (tfn nw upd x) eqn:T; [discriminate|].
    apply tfn_none in T. contradiction.
  - assert (Q : vget x (s_tours s) <> None).
    { intros Q. apply (v_same _ _ _ _ Vold) in Q. congruence. }
    destruct (tfn nw upd x); [discriminate|]. intros T. apply tfn_none in T. contradiction.
Qed.

Lemma eff_vset v nt upd old x :
  eff (tfn nw (vset v nt upd)) old x = override (eff (tfn nw upd) old) v (info_of nw nt) x.
Proof. unfold eff, override. rewrite tfn_vset. destruct (vid_eqb x v); auto. Qed.

Lemma eff_vset_other v nt upd old x : x <> v -> eff (tfn nw (vset v nt upd)) old x = eff (tfn nw upd) old x.
Proof. intros N. rewrite eff_vset. unfold override. apply vid_eqb_neq in N. now rewrite N. Qed.

(* bookkeeping common to the three cases: types other than [ty] are untouched, [v] is not among their members *)
Lemma J_other done tr upd upd' v ty old_t new_t ty' :
  J done tr upd -> ~ In v done -> zget ty tr = Some old_t -> ty' <> ty -> In ty' (type_ids nw) ->
  (vget v vehicles = Some ty \/ vget v vehicles = None) ->
  (vget v (s_vehicles s) = Some ty \/ vget v (s_vehicles s) = None) ->
  (forall x, x <> v -> eff (tfn nw upd') (tfn nw (s_tours s)) x = eff (tfn nw upd) (tfn nw (s_tours s)) x) ->
  exists t m, zget ty' (zset ty new_t tr) = Some t /\
      (forall x, In x m <-> memb (v :: done) ty' x) /\
      TInv nw (eff (tfn nw upd') (tfn nw (s_tours s))) m t.
Proof.
  intros (J1 & J2 & J3) Nd G Nt It Hn Ho He.
  destruct (J3 ty' It) as (t & m & Gt & Hm & I).
  exists t, m. split; [|split].
  - rewrite (zget_zset _ _ _ _ _ G). apply Z.eqb_neq in Nt. now rewrite Nt.
  - intros x. rewrite Hm. unfold memb. cbn [In]. split.
    + intros [[Hd Q]|[Hd Q]]; [left; auto|]. right. split; auto. intros [<-|H]; [|auto].
      destruct Ho as [Ho|Ho]; congruence.
    + intros [[[<-|Hd] Q]|[Hd Q]].
      * destruct Hn as [Hn|Hn]; congruence.
      * left; auto.
      * right; split; auto.
  - eapply TInv_tours_ext; [|exact I]. intros x Hx. symmetry. apply He. intros ->.
    apply Hm in Hx. destruct Hx as [[Hd _]|[_ Q]]; [contradiction|].
    destruct Ho as [Ho|Ho]; congruence.
Qed.

Lemma J_step done tr vi upd v tr' vi' upd' :
  J done tr upd -> vid_is_real v = true -> ~ In v done ->
  ut_step (Ok (tr, vi, upd)) v = Ok (tr', vi', upd') -> J (v :: done) tr' upd'.
Proof.
  intros HJ Rv Nd H. pose proof HJ as (J1 & J2 & J3).
  unfold ut_step in H. cbn [bind] in H. rewrite Rv in H. cbn [negb] in H.
  mon H. apply unwrap_opt_ok in E. rename a into ty.
  mon H. apply unwrap_opt_ok in E0. rename a into old_t.
  monp H. inversion H; subst tr' vi' upd'; clear H.
  assert (U0 : tfn nw upd v = None) by (apply tfn_none; auto).
  unfold is_vehicle in E1.
  destruct (vget v (s_vehicles s)) as [ty0|] eqn:Go; destruct (vget v vehicles) as [ty1|] eqn:Gn.
  - (* updated *)
    inversion E; subst ty1; clear E.
    assert (ty0 = ty) by (symmetry; eapply Stab; eauto). subst ty0.
    mon E1. apply unwrap_opt_ok in E. rename a into nt. mon E1. inversion E1; subst t l; clear E1. rename a into t'.
    assert (It : In ty (type_ids nw)) by (eapply type_in_ids_old; eauto).
    destruct (J3 ty It) as (t0 & m & Gt & Hm & I). rewrite E0 in Gt. inversion Gt; subst t0; clear Gt.
    assert (Vm : In v m) by (apply Hm; right; auto).
    pose proof (J_total _ _ _ _ J1 J2 Hm) as Tot.
    pose proof (update_inv nw _ _ _ _ _ _ _ I Tot Vm U0 E2) as I'.
    split; [|split].
    + intros x [<-|Hx]; rewrite vget_vset.
      * now rewrite vid_eqb_refl.
      * destruct (vid_eqb x v) eqn:Q; [apply vid_eqb_eq in Q; subst; congruence | auto].
    + intros x Hx. rewrite vget_vset. destruct (vid_eqb x v) eqn:Q.
      * apply vid_eqb_eq in Q. subst. exfalso. apply Hx. now left.
      * apply J2. intros Hd. apply Hx. now right.
    + intros ty' It'. destruct (Z.eq_dec ty' ty) as [->|Nt].
      * exists t', m. split; [|split].
        -- rewrite (zget_zset _ _ _ _ _ E0). now rewrite Z.eqb_refl.
        -- intros x. rewrite Hm. unfold memb. cbn [In]. split.
           ++ intros [[Hd Q]|[Hd Q]]; [left; auto|].
              destruct (vid_eq_dec v x) as [<-|Nx]; [left; auto|]. right. split; auto. intros [?|?]; auto.
           ++ intros [[[<-|Hd] Q]|[Hd Q]]; [right; auto | left; auto | right; split; auto].
        -- eapply TInv_tours_ext; [|exact I']. intros x _. symmetry. apply eff_vset.
      * eapply J_other; eauto. intros x Nx. now apply eff_vset_other.
  - (* removed *)
    inversion E; subst ty0; clear E.
    mon E1. inversion E1; subst t l; clear E1. rename a into t'.
    assert (It : In ty (type_ids nw)) by (eapply type_in_ids_old; eauto).
    destruct (J3 ty It) as (t0 & m & Gt & Hm & I). rewrite E0 in Gt. inversion Gt; subst t0; clear Gt.
    assert (Vm : In v m) by (apply Hm; right; auto).
    pose proof (J_total _ _ _ _ J1 J2 Hm) as Tot.
    pose proof (remove_inv nw _ _ _ _ _ _ I Tot Vm U0 E) as I'.
    assert (Tn : vget v tours = None) by (apply (v_same _ _ _ _ Vnew); auto).
    split; [|split].
    + intros x [<-|Hx]; [rewrite Tn; auto | auto].
    + intros x Hx. apply J2. intros Hd. apply Hx. now right.
    + intros ty' It'. destruct (Z.eq_dec ty' ty) as [->|Nt].
      * exists t', (without v m). split; [|split].
        -- rewrite (zget_zset _ _ _ _ _ E0). now rewrite Z.eqb_refl.
        -- intros x. unfold without. rewrite filter_In, negb_true_iff, vid_eqb_neq, Hm. unfold memb. cbn [In]. split.
           ++ intros [[[Hd Q]|[Hd Q]] Nx]; [left; auto|]. right. split; auto. intros [?|?]; auto.
           ++ intros [[[<-|Hd] Q]|[Hd Q]]; [congruence | | ].
              ** split; [left; auto|]. intros ->. contradiction.
              ** split; [right; split; auto|]. intros ->. apply Hd. now left.
        -- exact I'.
      * eapply J_other; eauto.
  - (* added *)
    inversion E; subst ty1; clear E.
    mon E1. apply unwrap_opt_ok in E. rename a into nt. mon E1. inversion E1; subst t l; clear E1. rename a into t'.
    assert (It : In ty (type_ids nw)) by (eapply type_in_ids_new; eauto).
    destruct (J3 ty It) as (t0 & m & Gt & Hm & I). rewrite E0 in Gt. inversion Gt; subst t0; clear Gt.
    assert (Vm : ~ In v m).
    { intros Vm. apply Hm in Vm. destruct Vm as [[Hd _]|[_ Q]]; [contradiction | congruence]. }
    assert (I1 : TInv nw (eff (tfn nw (vset v nt upd)) (tfn nw (s_tours s))) m old_t).
    { eapply TInv_tours_ext; [|exact I]. intros x Hx. symmetry. apply eff_vset_other. intros ->. contradiction. }
    assert (Tv : eff (tfn nw (vset v nt upd)) (tfn nw (s_tours s)) v = Some (info_of nw nt)).
    { rewrite eff_vset. unfold override. now rewrite vid_eqb_refl. }
    pose proof (add_own_inv nw _ _ _ _ _ _ I1 Vm Tv E2) as I'.
    split; [|split].
    + intros x [<-|Hx]; rewrite vget_vset.
      * now rewrite vid_eqb_refl.
      * destruct (vid_eqb x v) eqn:Q; [apply vid_eqb_eq in Q; subst; congruence | auto].
    + intros x Hx. rewrite vget_vset. destruct (vid_eqb x v) eqn:Q.
      * apply vid_eqb_eq in Q. subst. exfalso. apply Hx. now left.
      * apply J2. intros Hd. apply Hx. now right.
    + intros ty' It'. destruct (Z.eq_dec ty' ty) as [->|Nt].
      * exists t', (m ++ [v]). split; [|split].
        -- rewrite (zget_zset _ _ _ _ _ E0). now rewrite Z.eqb_refl.
        -- intros x. rewrite in_app_iff, Hm. unfold memb. cbn [In]. split.
           ++ intros [[[Hd Q]|[Hd Q]]|[<-|[]]]; [left; auto | | left; auto].
              right. split; auto. intros [<-|?]; [congruence | auto].
           ++ intros [[[<-|Hd] Q]|[Hd Q]]; [right; auto | left; left; auto | left; right; split; auto].
        -- exact I'.
      * eapply J_other; eauto. intros x Nx. now apply eff_vset_other.
  - discriminate.
Qed.

Lemma J_fold l : forall done tr vi upd tr' vi' upd',
  J done tr upd -> (forall v, In v l -> vid_is_real v = true) -> NoDup l -> (forall v, In v l -> ~ In v done) ->
  fold_left ut_step l (Ok (tr, vi, upd)) = Ok (tr', vi', upd') -> J (rev l ++ done) tr' upd'.
Proof.
  induction l as [|v l IH]; intros done tr vi upd tr' vi' upd' HJ R N D H; cbn [fold_left] in H.
  - inversion H; subst. exact HJ.
  - destruct (ut_fold_strict _ _ _ H) as [[[tr1 vi1] upd1] Hy]. rewrite Hy in H.
    inversion N; subst.
    eapply (J_step done) in Hy; eauto; [|apply R; now left | apply D; now left].
    eapply IH in H; eauto.
    + cbn [rev]. rewrite <- app_assoc. exact H.
    + intros x Hx. apply R. now right.
    + intros x Hx [<-|Hd]; [contradiction|]. eapply D; eauto. now right.
Qed.

Lemma ut_filter l : forall acc, fold_left ut_step l acc = fold_left ut_step (filter vid_is_real l) acc.
Proof.
  induction l as [|v l IH]; intros acc; cbn [fold_left filter]; auto.
  destruct (vid_is_real v) eqn:R; cbn [fold_left]; [apply IH|].
  rewrite IH. f_equal. unfold ut_step. destruct acc as [[[tr vi] upd]| | |]; cbn [bind]; auto.
  rewrite R. reflexivity.
Qed.

Lemma J_init trans : TOK trans (tfn nw (s_tours s)) (s_ids s) -> J [] trans [].
Proof.
  intros H. split; [|split].
  - intros v [].
  - intros v _. reflexivity.
  - intros ty It. destruct (H ty It) as (t & G & I). exists t, (iter (s_ids s) ty). split; [|split]; [auto| |].
    + intros x. unfold memb. cbn [In]. rewrite <- (v_ids _ _ _ _ Vold). tauto.
    + eapply TInv_tours_ext; [|exact I]. intros x _. reflexivity.
Qed.

Lemma update_transitions_T trans viol changed trans' viol' :
  (forall v, vid_is_real v = true -> ~ In v changed ->
             vget v vehicles = vget v (s_vehicles s) /\ vget v tours = vget v (s_tours s)) ->
  (forall v, vget v (s_vehicles s) <> None -> vid_is_real v = true) ->
  (forall v, vget v vehicles <> None -> vid_is_real v = true) ->
  NoDup (filter vid_is_real changed) ->
  TOK trans (tfn nw (s_tours s)) (s_ids s) ->
  update_transitions nw s trans viol changed vehicles tours = Ok (trans', viol') ->
  TOK trans' (tfn nw tours) ids'.
Proof.
  intros Frame Ro Rn ND H0 H. rewrite ut_unfold in H. monp H. inversion H; subst; clear H.
  rewrite ut_filter in E.
  apply J_fold with (done := []) in E;
    [ | apply J_init; auto | intros v Hv; apply filter_In in Hv; tauto | exact ND | intros v _ [] ].
  - rewrite app_nil_r in E. destruct E as (J1 & J2 & J3).
    assert (Fr : forall x, vid_is_real x = true -> ~ In x (rev (filter vid_is_real changed)) ->
                 vget x vehicles = vget x (s_vehicles s) /\ vget x tours = vget x (s_tours s)).
    { intros x Rx Hd. apply Frame; auto. intros C. apply Hd. rewrite <- in_rev. apply filter_In. auto. }
    intros ty It. destruct (J3 ty It) as (t & m & G & Hm & I). exists t. split; auto.
    eapply TInv_ext; [| |exact I].
    + intros x. rewrite Hm, <- (v_ids _ _ _ _ Vnew). unfold memb. split.
      * intros [[_ Q]|[Hd Q]]; auto.
        assert (Rx : vid_is_real x = true) by (apply Ro; congruence).
        destruct (Fr x Rx Hd) as [F1 _]. congruence.
      * intros Q. destruct (in_dec_v x (rev (filter vid_is_real changed))) as [Hd|Hd]; [left; auto|].
        right. split; auto.
        assert (Rx : vid_is_real x = true) by (apply Rn; congruence).
        destruct (Fr x Rx Hd) as [F1 _]. congruence.
    + intros x Hx. apply Hm in Hx. unfold eff. destruct Hx as [[Hd Q]|[Hd Q]].
      * unfold tfn at 1. rewrite (J1 x Hd). fold (tfn nw tours x).
        destruct (tfn nw tours x) eqn:T; auto. apply tfn_none in T. apply (v_same _ _ _ _ Vnew) in T. congruence.
      * assert (U : tfn nw l x = None) by (apply tfn_none; auto). rewrite U.
        assert (Rx : vid_is_real x = true) by (apply Ro; congruence).
        destruct (Fr x Rx Hd) as [_ F2]. symmetry. now apply tfn_eq.
Qed.
End UT.

(** ** recompute_transitions *)
Definition rc_step (ids : list (Z * list vehicle_id)) (tours : list (vehicle_id * tour))
  (acc : res (list (Z * transition) * Z)) (ty : Z) : res (list (Z * transition) * Z) :=
    do (tr, vi) <- acc;
    do vs <- unwrap_opt (zget ty ids);
    do nt <- new_fast nw vs (tfn nw tours);
    do old_t <- unwrap_opt (zget ty tr);
    Ok (zset ty nt tr, vi + tr_viol nt - tr_viol old_t).

Lemma rc_strict ids tours l : forall acc x, fold_left (rc_step ids tours) l acc = Ok x -> exists y, acc = Ok y.
Proof.
  induction l as [|v l IH]; cbn [fold_left]; intros acc x H; [eauto|].
  apply IH in H. destruct H as [y H]. unfold rc_step in H. destruct acc; cbn [bind] in H; try discriminate H; eauto.
Qed.

Lemma recompute_fold ids tours : (forall ty l, zget ty ids = Some l -> NoDup l) ->
  forall types tr vi tr' vi', fold_left (rc_step ids tours) types (Ok (tr, vi)) = Ok (tr', vi') ->
  forall ty, (In ty types -> exists t, zget ty tr' = Some t /\ TInv nw (tfn nw tours) (iter ids ty) t) /\
             (~ In ty types -> zget ty tr' = zget ty tr).
Proof.
  intros ND. induction types as [|a types IH]; intros tr vi tr' vi' H ty; cbn [fold_left] in H.
  - inversion H; subst. split; [intros [] | auto].
  - destruct (rc_strict _ _ _ _ _ H) as [[tr1 vi1] Hy]. rewrite Hy in H.
    unfold rc_step in Hy. cbn [bind] in Hy. mon Hy. mon Hy. mon Hy. inversion Hy; subst tr1 vi1; clear Hy.
    apply unwrap_opt_ok in E, E1.
    destruct (IH _ _ _ _ H ty) as [IH1 IH2]. cbn [In]. split.
    + intros [<-|Hin].
      * destruct (in_dec Z.eq_dec a types) as [Hi|Hi]; [auto|].
        rewrite (IH2 Hi), (zget_zset _ _ _ _ _ E1), Z.eqb_refl. eexists; split; [reflexivity|].
        unfold iter. rewrite E. apply new_fast_inv; eauto.
      * auto.
    + intros N. rewrite IH2 by tauto. rewrite (zget_zset _ _ _ _ _ E1).
      destruct (ty =? a) eqn:Q; [apply Z.eqb_eq in Q; subst; tauto | auto].
Qed.

Lemma recompute_T trans viol ids tours types trans' viol' :
  (forall ty l, zget ty ids = Some l -> NoDup l) ->
  recompute_transitions nw trans viol ids tours types = Ok (trans', viol') ->
  forall ty, (In ty types -> exists t, zget ty trans' = Some t /\ TInv nw (tfn nw tours) (iter ids ty) t) /\
             (~ In ty types -> zget ty trans' = zget ty trans).
Proof. intros ND H. eapply recompute_fold; eauto. Qed.

Lemma recompute_all_T trans viol ids tours trans' viol' :
  (forall ty l, zget ty ids = Some l -> NoDup l) ->
  recompute_transitions nw trans viol ids tours (type_ids nw) = Ok (trans', viol') ->
  TOK trans' (tfn nw tours) ids.
Proof. intros ND H ty It. destruct (recompute_T _ _ _ _ _ _ _ ND H ty) as [H1 _]. auto. Qed.

(** ** the empty schedule *)
Lemma empty_fold_T t0 : new_fast nw [] no_tours = Ok t0 ->
  forall l acc,
  fold_left (fun acc ty => do l <- acc; do t <- new_fast nw [] no_tours; Ok (l ++ [(ty, t)])) l (Ok acc)
  = Ok (acc ++ map (fun ty : Z => (ty, t0)) l).
Proof.
  intros E l; induction l as [|ty l IH]; intros acc; cbn [fold_left map].
  - now rewrite app_nil_r.
  - replace (do l0 <- Ok acc; do t <- new_fast nw [] no_tours; Ok (l0 ++ [(ty, t)]))
      with (Ok (acc ++ [(ty, t0)])) by (rewrite E; reflexivity).
    rewrite IH. rewrite <- app_assoc. reflexivity.
Qed.

Lemma zget_const_map {A} (x : A) ty (l : list Z) : In ty l -> zget ty (map (fun ty => (ty, x)) l) = Some x.
Proof.
  induction l as [|a l IH]; [intros []|]. cbn [map]. rewrite zget_cons. intros [->|H].
  - now rewrite Z.eqb_refl.
  - destruct (ty =? a); auto.
Qed.

Lemma empty_T s : empty_schedule nw = Ok s -> TransOK nw s.
Proof.
  assert (E0 : exists t0, new_fast nw [] no_tours = Ok t0) by (eexists; reflexivity).
  destruct E0 as [t0 E0].
  unfold empty_schedule. rewrite (empty_fold_T t0 E0). cbn [bind app].
  intros H; inversion H; subst; clear H. intros ty It. unfold vehicles_iter. cbn [s_trans s_tours s_ids].
  exists t0. split; [now apply zget_const_map|].
  fold (iter (map (fun ty0 : Z => (ty0, @nil vehicle_id)) (type_ids nw)) ty). rewrite iter_empty.
  eapply TInv_tours_ext; [|apply (new_fast_inv nw [] no_tours t0); [constructor | exact E0]].
  intros v [].
Qed.
End Core.

Section Ops.
Variable nw : network.

Lemma realkeys_ne {A} (l : list (vehicle_id * A)) : RealKeys l -> forall v, vget v l <> None -> vid_is_real v = true.
Proof. intros R v H. destruct (vget v l) eqn:G; [eauto | congruence]. Qed.

Lemma stab_vset_new (l : list (vehicle_id * Z)) v a : vget v l = None ->
  forall x ty ty', vget x (vset v a l) = Some ty -> vget x l = Some ty' -> ty = ty'.
Proof.
  intros F x ty ty'. rewrite vget_vset. destruct (vid_eqb x v) eqn:Q; [|congruence].
  apply vid_eqb_eq in Q. subst. congruence.
Qed.

Lemma stab_vdel (l : list (vehicle_id * Z)) v :
  forall x ty ty', vget x (vdel v l) = Some ty -> vget x l = Some ty' -> ty = ty'.
Proof. intros x ty ty'. rewrite vget_vdel. destruct (vid_eqb x v); congruence. Qed.

Ltac sfields := cbn [with_fields s_tours s_counter s_vehicles s_dummies s_ids s_dummy_ids s_trans] in *.

Lemma spawn_T s ty path s' v :
  Inv nw s -> LInv nw false s -> Inv nw s' -> LInv nw false s' -> TransOK nw s ->
  spawn_vehicle_for_path nw s ty path = Ok (s', v) -> TransOK nw s'.
Proof.
  intros I [V D] I' [V' D'] T H. unfold spawn_vehicle_for_path in H.
  destruct (negb _) in H; [discriminate|].
  mon H. mon H. mon H. monp H. mon H. monp H. inversion H; subst; clear H. sfields.
  apply TransOK_TOK; sfields.
  pose proof (fresh_vehicle nw s I V) as Fr.
  eapply (update_transitions_T nw s _ _ _ V V'); [| | | | | exact T | exact E4].
  - now apply stab_vset_new.
  - intros x Rx Nx. rewrite !vget_vset. cbn [In] in Nx.
    destruct (vid_eqb x (Veh (s_counter s))) eqn:Q; [apply vid_eqb_eq in Q; subst; tauto | auto].
  - apply realkeys_ne, (inv_real _ _ I).
  - apply realkeys_ne, (inv_real _ _ I').
  - cbn. constructor; [intros [] | constructor].
Qed.

Ltac ut_apply s V V' T E :=
  apply TransOK_TOK; sfields; eapply (update_transitions_T nw s _ _ _ V V'); [| | | | | exact T | exact E].
Ltac trip H :=
  match type of H with
  | (match ?m with pair _ _ => _ end) = _ => destruct m as [[? ?] ?]
  end.

Lemma nodup_filter_one v : NoDup (filter vid_is_real [v]).
Proof. cbn. destruct (vid_is_real v); constructor; [intros [] | constructor]. Qed.

Lemma delete_dummy_T s d s' : TransOK nw s -> delete_dummy s d = Ok s' -> TransOK nw s'.
Proof.
  intros T H. unfold delete_dummy in H. destruct (negb _) in H; [discriminate|].
  mon H. inversion H; subst; clear H. exact T.
Qed.

Lemma replace_T s v s' :
  Inv nw s -> LInv nw false s -> Inv nw s' -> LInv nw false s' -> TransOK nw s ->
  replace_vehicle_by_dummy nw s v = Ok s' -> TransOK nw s'.
Proof.
  intros I [V D] I' [V' D'] T H. unfold replace_vehicle_by_dummy in H.
  destruct (negb _) in H; [discriminate|].
  mon H. mon H. mon H. monp H. mon H. mon H. mon H.
  trip H.
  monp H. inversion H; subst; clear H. sfields.
  ut_apply s V V' T E6.
  - apply stab_vdel.
  - intros x Rx Nx. rewrite !vget_vdel. cbn [In] in Nx.
    destruct (vid_eqb x v) eqn:Q; [apply vid_eqb_eq in Q; subst; tauto | auto].
  - apply realkeys_ne, (inv_real _ _ I).
  - apply realkeys_ne, (inv_real _ _ I').
  - apply nodup_filter_one.
Qed.

Lemma add_path_T s v path s' c :
  Inv nw s -> LInv nw false s -> Inv nw s' -> LInv nw false s' -> TransOK nw s ->
  add_path_to_vehicle_tour nw s v path = Ok (s', c) -> TransOK nw s'.
Proof.
  intros I [V D] I' [V' D'] T H. unfold add_path_to_vehicle_tour in H.
  destruct path as [|pf path']; [discriminate|].
  match type of H with (if ?b then _ else _) = _ => destruct b; [discriminate|] end.
  mon H. mon H. monp H. mon H. monp H. monp H. mon H. mon H. monp H. inversion H; subst; clear H. sfields.
  ut_apply s V V' T E7.
  - congruence.
  - intros x Rx Nx. split; auto. rewrite vget_vset. cbn [In] in Nx.
    destruct (vid_eqb x v) eqn:Q; [apply vid_eqb_eq in Q; subst; tauto | auto].
  - apply realkeys_ne, (inv_real _ _ I).
  - apply realkeys_ne, (inv_real _ _ I).
  - apply nodup_filter_one.
Qed.

Lemma utc_frame s tours dummies costs v nt t' d' c' :
  update_tour_and_costs s tours dummies costs v nt = Ok (t', d', c') ->
  forall x, x <> v -> vget x t' = vget x tours.
Proof.
  intros H x Nx. unfold update_tour_and_costs in H. destruct (is_dummy s v).
  - inversion H; subst. auto.
  - mon H. mon H. inversion H; subst; clear H. rewrite vget_vset.
    apply vid_eqb_neq in Nx. now rewrite Nx.
Qed.

Lemma remove_segment_T s seg v s' :
  Inv nw s -> LInv nw false s -> Inv nw s' -> LInv nw false s' -> TransOK nw s ->
  remove_segment nw s seg v = Ok s' -> TransOK nw s'.
Proof.
  intros I [V D] I' [V' D'] T H. unfold remove_segment in H.
  destruct (negb _) in H; [discriminate|].
  mon H. monp H. destruct o as [nt|]; [|exact (replace_T s v s' I (conj V D) I' (conj V' D') T H)].
  monp H. monp H. mon H.
  trip H.
  monp H. inversion H; subst; clear H. sfields.
  ut_apply s V V' T E4.
  - congruence.
  - intros x Rx Nx. split; auto. eapply utc_frame; eauto. cbn [In] in Nx. intros ->. tauto.
  - apply realkeys_ne, (inv_real _ _ I).
  - apply realkeys_ne, (inv_real _ _ I).
  - apply nodup_filter_one.
Qed.

Lemma update_tours_frame s vehicles tours forms usage dummies ids dids uns costs p ntp r ntr moved
    vehicles1 tours2 forms2 usage2 dummies2 ids1 dids1 uns2 costs2 :
  update_tours nw s vehicles tours forms usage dummies ids dids uns costs p ntp r ntr moved
    = Ok (vehicles1, tours2, forms2, usage2, dummies2, ids1, dids1, uns2, costs2) ->
  (forall x, x <> p -> x <> r -> vget x vehicles1 = vget x vehicles /\ vget x tours2 = vget x tours) /\
  (forall x ty ty', vget x vehicles1 = Some ty -> vget x vehicles = Some ty' -> ty = ty').
Proof.
  intros H. apply update_tours_peel in H. unfold update_tours_prefix in H.
  monp H. mon H. monp H. mon H. monp H. inversion H; subst; clear H.
  assert (Q : (forall x, x <> p -> vget x vehicles1 = vget x vehicles /\ vget x l3 = vget x tours) /\
              (forall x ty ty', vget x vehicles1 = Some ty -> vget x vehicles = Some ty' -> ty = ty')).
  { destruct ntp as [nt|].
    - monp E. inversion E; subst; clear E. split; [|congruence].
      intros x Nx. split; auto. eapply utc_frame; eauto.
    - mon E. destruct (is_dummy s p).
      + mon E. inversion E; subst; clear E. split; [auto | congruence].
      + destruct (is_vehicle s p).
        * mon E. mon E. inversion E; subst; clear E. split; [|apply stab_vdel].
          intros x Nx. rewrite !vget_vdel. apply vid_eqb_neq in Nx. rewrite Nx. auto.
        * inversion E; subst. split; [auto | congruence]. }
  destruct Q as [Q1 Q2]. split; auto.
  intros x Np Nr. destruct (Q1 x Np) as [Q3 Q4]. split; auto.
  rewrite <- Q4. eapply utc_frame; eauto.
Qed.

Lemma nodup_filter_two p r : (p = r -> vid_is_real p = false) -> NoDup (filter vid_is_real [p; r]).
Proof.
  intros G. cbn. destruct (vid_is_real p) eqn:Rp; destruct (vid_is_real r) eqn:Rr;
    repeat constructor; cbn; try tauto.
  intros [Q|[]]. symmetry in Q. apply G in Q. congruence.
Qed.

Lemma frame_two {A B} p r (l1 l1' : list (vehicle_id * A)) (l2 l2' : list (vehicle_id * B)) :
  (forall x, x <> p -> x <> r -> vget x l1' = vget x l1 /\ vget x l2' = vget x l2) ->
  forall x, vid_is_real x = true -> ~ In x [p; r] -> vget x l1' = vget x l1 /\ vget x l2' = vget x l2.
Proof. intros H x _ Nx. cbn [In] in Nx. apply H; intros ->; tauto. Qed.

Lemma fit_T s seg p r s' :
  Inv nw s -> LInv nw false s -> Inv nw s' -> LInv nw false s' -> TransOK nw s ->
  (p = r -> vid_is_real p = false) ->
  fit_reassign nw s seg p r = Ok s' -> TransOK nw s'.
Proof.
  intros I [V D] I' [V' D'] T Gd H. unfold fit_reassign in H.
  mon H. destruct (negb _) in H; [discriminate|].
  mon H. mon H. mon H. monp H. monp H. monp H. inversion H; subst; clear H. sfields.
  apply update_tours_frame in E4. destruct E4 as [F1 F2].
  ut_apply s V V' T E5.
  - exact F2.
  - now apply frame_two.
  - apply realkeys_ne, (inv_real _ _ I).
  - apply realkeys_ne, (inv_real _ _ I').
  - now apply nodup_filter_two.
Qed.

Lemma override_T s seg p r s' d :
  Inv nw s -> LInv nw false s -> Inv nw s' -> LInv nw false s' -> TransOK nw s ->
  override_reassign nw s seg p r = Ok (s', d) -> TransOK nw s'.
Proof.
  intros I [V D] I' [V' D'] T H. unfold override_reassign in H.
  destruct (vid_eqb p r) eqn:Epr; [discriminate|]. apply vid_eqb_neq in Epr.
  mon H. destruct (negb _) in H; [discriminate|].
  mon H. mon H. monp H. monp H. monp H.
  monp H. monp H. inversion H; subst; clear H. sfields.
  apply update_tours_frame in E4. destruct E4 as [F1 F2].
  ut_apply s V V' T E6.
  - exact F2.
  - now apply frame_two.
  - apply realkeys_ne, (inv_real _ _ I).
  - apply realkeys_ne, (inv_real _ _ I').
  - apply nodup_filter_two. intros Q. contradiction.
Qed.

(** ** folds over vehicles that replace the tour of each visited vehicle: the other entries are untouched *)
Section FoldF.
Context {U : Type}.
Variable s : schedule.
Variable f : res (list (vehicle_id * tour) * U * Z) -> vehicle_id -> res (list (vehicle_id * tour) * U * Z).
Variable l0 : list vehicle_id.
Hypothesis f_strict : forall r v x, f r v = Ok x -> exists y, r = Ok y.
Hypothesis f_step : forall tours u costs v x, In v l0 -> f (Ok (tours, u, costs)) v = Ok x ->
  exists nt u' c, x = (vset v nt tours, u', c).

Lemma foldf_strict l r x : fold_left f l r = Ok x -> exists y, r = Ok y.
Proof.
  revert r. induction l as [|v l IH]; cbn [fold_left]; intros r H; [eauto|].
  apply IH in H. destruct H as [y H]. eapply f_strict; eauto.
Qed.

Lemma foldf_frame l : incl l l0 -> forall tours u costs tours' u' costs',
  fold_left f l (Ok (tours, u, costs)) = Ok (tours', u', costs') ->
  forall k, ~ In k l -> vget k tours' = vget k tours.
Proof.
  induction l as [|v l IH]; intros Inc tours u costs tours' u' costs' H k Nk; cbn [fold_left] in H.
  - inversion H; subst. auto.
  - destruct (foldf_strict _ _ _ H) as [y Hy]. rewrite Hy in H.
    apply f_step in Hy; [|apply Inc; now left].
    destruct Hy as (nt & u1 & c1 & ->).
    assert (Inc' : incl l l0) by (intros k' Hk; apply Inc; now right).
    rewrite (IH Inc' _ _ _ _ _ _ H k) by (intros Q; apply Nk; now right).
    rewrite vget_vset. destruct (vid_eqb k v) eqn:Q; auto.
    apply vid_eqb_eq in Q. subst. exfalso. apply Nk. now left.
Qed.
End FoldF.

Ltac strict_tac :=
  let r := fresh "r" in let v := fresh "v" in let x := fresh "x" in let H := fresh "H" in
  intros r v x H; destruct r; cbn [bind] in H; try discriminate H; eauto.

Lemma ids_nodup s : Inv nw s -> forall ty l, zget ty (s_ids s) = Some l -> NoDup l.
Proof. intros I ty l G. destruct (inv_ids _ _ I) as [H1 _]. apply (H1 ty l G). Qed.

Lemma frame_same_veh (sv : list (vehicle_id * Z)) (t t' : list (vehicle_id * tour)) (l : list vehicle_id) :
  (forall k, ~ In k l -> vget k t' = vget k t) ->
  forall x, vid_is_real x = true -> ~ In x l -> vget x sv = vget x sv /\ vget x t' = vget x t.
Proof. intros H x _ Nx. split; auto. Qed.

Lemma improve_T s vs s' :
  Inv nw s -> LInv nw false s -> Inv nw s' -> LInv nw false s' -> TransOK nw s ->
  improve_depots nw s vs = Ok s' -> TransOK nw s'.
Proof.
  intros I [V D] I' [V' D'] T H. unfold improve_depots in H. cbv zeta in H.
  mon H. monp H. monp H. inversion H; subst; clear H. sfields.
  destruct vs as [vl|].
  - change (fold_left (imp_step1 nw s) vl (Ok (s_usage s)) = Ok a) in E.
    apply fold1_nodup in E.
    assert (F : forall k, ~ In k vl -> vget k l = vget k (s_tours s)).
    { eapply (foldf_frame _ vl); [| |apply incl_refl|exact E0].
      - strict_tac.
      - intros tours u costs v x Hv H. cbn [bind] in H.
        mon H. mon H. mon H. mon H. inversion H; subst; clear H. eauto. }
    ut_apply s V V' T E1.
    + congruence.
    + now apply frame_same_veh.
    + apply realkeys_ne, (inv_real _ _ I).
    + apply realkeys_ne, (inv_real _ _ I).
    + now apply NoDup_filter.
  - apply TransOK_TOK; sfields. eapply recompute_all_T; [|exact E1]. now apply ids_nodup.
Qed.

Lemma greedy_T s s' :
  Inv nw s -> reassign_end_depots_greedily nw s = Ok s' -> TransOK nw s'.
Proof.
  intros I H. unfold reassign_end_depots_greedily in H.
  monp H. monp H. inversion H; subst; clear H.
  apply TransOK_TOK; sfields. eapply recompute_all_T; [|exact E0]. now apply ids_nodup.
Qed.

Lemma recompute_for_T s ts s' :
  Inv nw s -> TransOK nw s -> recompute_transitions_for nw s ts = Ok s' -> TransOK nw s'.
Proof.
  intros I T H. unfold recompute_transitions_for in H. monp H. inversion H; subst; clear H.
  apply TransOK_TOK; sfields. intros ty It.
  pose proof (recompute_T nw _ _ _ _ _ _ _ (ids_nodup s I) E ty) as [H1 H2].
  destruct (in_dec Z.eq_dec ty (match ts with Some l => l | None => type_ids nw end)) as [Hi|Hi].
  - auto.
  - rewrite (H2 Hi). exact (T ty It).
Qed.

Lemma consistent_T s s' :
  Inv nw s -> LInv nw false s -> Inv nw s' -> LInv nw false s' -> TransOK nw s ->
  reassign_end_depots_consistent nw s = Ok s' -> TransOK nw s'.
Proof.
  intros I [V D] I' [V' D'] T H. unfold reassign_end_depots_consistent in H.
  monp H. monp H. inversion H; subst; clear H. sfields.
  destruct (iter_all_ok nw s _ (inv_ids _ _ I)) as [ND RL].
  assert (F : forall k, ~ In k (vehicles_iter_all nw s) -> vget k l = vget k (s_tours s)).
  { eapply (foldf_frame _ (vehicles_iter_all nw s)); [| |apply incl_refl|exact E].
    - strict_tac.
    - intros tours u costs v x Hv H. cbn [bind] in H.
      mon H. mon H. mon H. mon H. mon H. mon H. mon H. mon H. mon H. inversion H; subst; clear H. eauto. }
  ut_apply s V V' T E0.
  - congruence.
  - now apply frame_same_veh.
  - apply realkeys_ne, (inv_real _ _ I).
  - apply realkeys_ne, (inv_real _ _ I).
  - now apply NoDup_filter.
Qed.

Lemma spawn_dummy_T s d ty s' v :
  Inv nw s -> LInv nw false s -> Inv nw s' -> LInv nw false s' -> TransOK nw s ->
  spawn_to_replace_dummy nw s d ty = Ok (s', v) -> TransOK nw s'.
Proof.
  intros I L I' L' T H. unfold spawn_to_replace_dummy in H. mon H. mon H.
  eapply (spawn_T a0); [| | exact I' | exact L' | | exact H].
  - exact (delete_dummy_ok nw s d a0 I E0).
  - exact (delete_dummy_L nw false s d a0 L E0).
  - eapply delete_dummy_T; eauto.
Qed.

(** ** one step; the only side condition: fit_reassign is not called with provider = receiver = a real vehicle *)
Definition fit_guard (p r : vehicle_id) : Prop := p = r -> vid_is_real p = false.

Inductive tstep : schedule -> schedule -> Prop :=
| ts_spawn s ty path s' v : spawn_vehicle_for_path nw s ty path = Ok (s', v) -> tstep s s'
| ts_spawn_dummy s d ty s' v : spawn_to_replace_dummy nw s d ty = Ok (s', v) -> tstep s s'
| ts_delete s v s' : replace_vehicle_by_dummy nw s v = Ok s' -> tstep s s'
| ts_add_path s v path s' c : add_path_to_vehicle_tour nw s v path = Ok (s', c) -> tstep s s'
| ts_remove_segment s seg v s' : remove_segment nw s seg v = Ok s' -> tstep s s'
| ts_fit s seg p r s' : fit_guard p r -> fit_reassign nw s seg p r = Ok s' -> tstep s s'
| ts_override s seg p r s' d : override_reassign nw s seg p r = Ok (s', d) -> tstep s s'
| ts_improve s vs s' : improve_depots nw s vs = Ok s' -> tstep s s'
| ts_greedy s s' : reassign_end_depots_greedily nw s = Ok s' -> tstep s s'
| ts_recompute s ts s' : recompute_transitions_for nw s ts = Ok s' -> tstep s s'
| ts_consistent s s' : reassign_end_depots_consistent nw s = Ok s' -> tstep s s'.
Inductive treachable : schedule -> Prop :=
| tr_empty s : empty_schedule nw = Ok s -> treachable s
| tr_step s s' : treachable s -> tstep s s' -> treachable s'.

Lemma tstep_step s s' : tstep s s' -> step nw s s'.
Proof.
  destruct 1; [eapply st_spawn | eapply st_spawn_dummy | eapply st_delete | eapply st_add_path |
               eapply st_remove_segment | eapply st_fit | eapply st_override | eapply st_improve |
               eapply st_greedy | eapply st_recompute | eapply st_consistent]; eauto.
Qed.

Lemma treachable_reachable s : treachable s -> reachable nw s.
Proof. induction 1; [now apply r_empty | eapply r_step; eauto using tstep_step]. Qed.

Lemma reachable_LInv s : reachable nw s -> LInv nw false s.
Proof. intros R. apply greachable_L. now apply reachable_greachable. Qed.

Lemma tstep_T s s' : reachable nw s -> TransOK nw s -> tstep s s' -> TransOK nw s'.
Proof.
  intros R T St.
  pose proof (reachable_inv nw s R) as I. pose proof (reachable_LInv s R) as L.
  assert (R' : reachable nw s') by (eapply r_step; eauto using tstep_step).
  pose proof (reachable_inv nw s' R') as I'. pose proof (reachable_LInv s' R') as L'.
  destruct St.
  - eapply spawn_T; [exact I | exact L | exact I' | exact L' | exact T | eassumption].
  - eapply spawn_dummy_T; [exact I | exact L | exact I' | exact L' | exact T | eassumption].
  - eapply replace_T; [exact I | exact L | exact I' | exact L' | exact T | eassumption].
  - eapply add_path_T; [exact I | exact L | exact I' | exact L' | exact T | eassumption].
  - eapply remove_segment_T; [exact I | exact L | exact I' | exact L' | exact T | eassumption].
  - eapply fit_T; [exact I | exact L | exact I' | exact L' | exact T | eassumption | eassumption].
  - eapply override_T; [exact I | exact L | exact I' | exact L' | exact T | eassumption].
  - eapply improve_T; [exact I | exact L | exact I' | exact L' | exact T | eassumption].
  - eapply greedy_T; [exact I | eassumption].
  - eapply recompute_for_T; [exact I | exact T | eassumption].
  - eapply consistent_T; [exact I | exact L | exact I' | exact L' | exact T | eassumption].
Qed.

Lemma treachable_T s : treachable s -> TransOK nw s.
Proof.
  induction 1.
  - now apply empty_T.
  - eapply tstep_T; eauto. now apply treachable_reachable.
Qed.
End Ops.

Lemma dstep_tstep nw s s' : dstep nw s s' -> tstep nw s s'.
Proof.
  destruct 1; [eapply ts_spawn | eapply ts_spawn_dummy | eapply ts_delete | eapply ts_add_path |
               eapply ts_remove_segment | eapply ts_fit | eapply ts_override | eapply ts_improve |
               eapply ts_greedy | eapply ts_recompute | eapply ts_consistent]; eauto.
  intros Q. contradiction.
Qed.

Lemma dreachable_treachable nw s : dreachable nw s -> treachable nw s.
Proof. induction 1; [now apply tr_empty | eapply tr_step; eauto using dstep_tstep]. Qed.

(** * theorems *)
(* histories in which fit_reassign is never called with provider = receiver = a REAL vehicle id *)
Theorem reachable_trans_under_guard : forall nw s, treachable nw s -> TransOK nw s.
Proof. intros nw s R. now apply treachable_T. Qed.

(* histories in which fit_reassign is never called with provider = receiver *)
Theorem reachable_trans_under_distinct : forall nw s, dreachable nw s -> TransOK nw s.
Proof. intros nw s R. apply reachable_trans_under_guard. now apply dreachable_treachable. Qed.

(** * the refutation of the statement as given (all networks, all histories):
      fit_reassign with provider = receiver = a REAL vehicle. update_transitions then walks over [v; v]; the second
      update_vehicle reads the vehicle's OLD tour figures from the old tour map again although the cycle counter
      already accounts for the new tour, so the cycle counter is off by (new - old) whenever fit_loop managed to
      move a segment of the tour "into itself" and the cycle has a second vehicle. On well-formed networks every
      segment conflicts with itself and nothing moves; the witness below is a loaded instance with two negative
      dead-head durations (which no real input can express: Duration is unsigned), chosen so that both binary
      searches of the conflict check miss the node itself. *)
Definition zrow11 : list Z := [0;0;0;0;0;0;0;0;0;0;0].
Definition mkroute (o : Z) : route :=
  {| r_type := 0; r_segs := [ {| rs_origin := o; rs_dest := o + 1; rs_dist := 1000; rs_dur := 100; rs_limit := None |} ] |}.
Definition mkdep (r : nat) (dep : Z) : departure :=
  {| d_route := r; d_segs := [ {| ds_rseg := 0; ds_dep := dep; ds_pass := 10; ds_seated := 5 |} ] |}.
(* five trips, trip j from location 2j to 2j+1, one depot at location 10:
   SV 4 = 100..200, SV 5 = 300..400, SV 6 = 2000..2100, SV 7 = 500..600, SV 8 = 1000..1100;
   dead-head durations 0 except 5 -> 6 (SV 6 reaches the earlier SV 7) and 9 -> 8 (SV 8 reaches itself), negative,
   and 9 -> 4 (SV 8 does not reach SV 6), large *)
Definition instt : instance := {|
  i_types := [ {| vt_cap := 100; vt_seats := 50; vt_limit := None |} ];
  i_nlocs := 11;
  i_depots := Some [ {| id_loc := 10; id_cap := 5; id_allowed := [(0, None)] |} ];
  i_routes := [ mkroute 0; mkroute 2; mkroute 4; mkroute 6; mkroute 8 ];
  i_departures := [ mkdep 0 100; mkdep 1 300; mkdep 2 2000; mkdep 3 500; mkdep 4 1000 ];
  i_slots := None;
  i_dh_dur := [zrow11; zrow11; zrow11; zrow11; zrow11; [0;0;0;0;0;0;-100000;0;0;0;0]; zrow11; zrow11; zrow11;
               [0;0;0;0;100000;0;0;0;-100000;0;0]; zrow11];
  i_dh_dist := [zrow11; zrow11; zrow11; zrow11; zrow11; zrow11; zrow11; zrow11; zrow11; zrow11; zrow11];
  i_params := {| p_forbid := false; p_min := 0; p_dht := 0; p_maxdist := 0;
                 c_staff := 0; c_service := 0; c_maint := 0; c_dh := 0; c_idle := 0 |} |}.

Definition nwt : network := Eval vm_compute in match load instt [] with Ok nw => nw | _ => nww end.
Lemma nwt_loaded : load instt [] = Ok nwt.
Proof. vm_compute. reflexivity. Qed.

Definition ct0 : schedule := Eval vm_compute in
  match empty_schedule nwt with Ok s => s | _ => dflt_schedule end.
Definition ct1 : schedule := Eval vm_compute in
  match spawn_vehicle_for_path nwt ct0 0 [SV 4; SV 5; SV 6; SV 7; SV 8] with Ok (s, _) => s | _ => dflt_schedule end.
Definition ct2 : schedule := Eval vm_compute in
  match spawn_vehicle_for_path nwt ct1 0 [SV 4] with Ok (s, _) => s | _ => dflt_schedule end.
Definition ct3 : schedule := Eval vm_compute in
  match recompute_transitions_for nwt ct2 None with Ok s => s | _ => dflt_schedule end.
Definition ct4 : schedule := Eval vm_compute in
  match fit_reassign nwt ct3 (SV 8, SV 8) (Veh 0) (Veh 0) with Ok s => s | _ => dflt_schedule end.

(* the history: two vehicles; recompute puts them into one rotation cycle; fit_reassign the last trip of Veh 0
   from Veh 0 to Veh 0 *)
Lemma ct_step0 : empty_schedule nwt = Ok ct0.
Proof. vm_compute. reflexivity. Qed.
Lemma ct_step1 : spawn_vehicle_for_path nwt ct0 0 [SV 4; SV 5; SV 6; SV 7; SV 8] = Ok (ct1, Veh 0).
Proof. vm_compute. reflexivity. Qed.
Lemma ct_step2 : spawn_vehicle_for_path nwt ct1 0 [SV 4] = Ok (ct2, Veh 1).
Proof. vm_compute. reflexivity. Qed.
Lemma ct_step3 : recompute_transitions_for nwt ct2 None = Ok ct3.
Proof. vm_compute. reflexivity. Qed.
Lemma ct_step4 : fit_reassign nwt ct3 (SV 8, SV 8) (Veh 0) (Veh 0) = Ok ct4.
Proof. vm_compute. reflexivity. Qed.

(* before: one cycle [Veh 0; Veh 1] with counter 6000 = 5000 + 1000; after: Veh 0 has SV 8 twice (tour counter
   6000), the stored cycle counter is 8000, its recomputed value 7000 *)
Lemma ct3_state :
  map (fun '(v, t) => (v, t_nodes t, maintenance_counter nwt t)) (s_tours ct3) =
    [(Veh 0, [SD 0; SV 4; SV 5; SV 6; SV 7; SV 8; ED 1], 5000); (Veh 1, [SD 0; SV 4; ED 1], 1000)] /\
  map (fun '(ty, t) => (ty, tr_cycles t)) (s_trans ct3) = [(0, [([Veh 0; Veh 1], 6000)])].
Proof. vm_compute. auto. Qed.
Lemma ct4_state :
  map (fun '(v, t) => (v, t_nodes t, maintenance_counter nwt t)) (s_tours ct4) =
    [(Veh 0, [SD 0; SV 4; SV 5; SV 6; SV 7; SV 8; SV 8; ED 1], 6000); (Veh 1, [SD 0; SV 4; ED 1], 1000)] /\
  map (fun '(ty, t) => (ty, tr_cycles t)) (s_trans ct4) = [(0, [([Veh 0; Veh 1], 8000)])] /\
  cycle_counter nwt (tfn nwt (s_tours ct4)) [Veh 0; Veh 1] = 7000 /\
  map (fun '(ty, t) => tinv_codes nwt (tfn nwt (s_tours ct4)) (vehicles_iter ct4 ty) t) (s_trans ct4) = [[1504]].
Proof. vm_compute. auto. Qed.
(* what makes it possible: a node that reaches itself and a later node that reaches an earlier one *)
Lemma nwt_ill_formed : can_reach nwt (SV 8) (SV 8) = true /\ can_reach nwt (SV 6) (SV 7) = true.
Proof. vm_compute. auto. Qed.

Lemma ct3_dreachable : dreachable nwt ct3.
Proof.
  eapply dr_step; [eapply dr_step; [eapply dr_step; [apply dr_empty, ct_step0|]|]|].
  - eapply ds_spawn, ct_step1.
  - eapply ds_spawn, ct_step2.
  - eapply ds_recompute, ct_step3.
Qed.

Lemma ct4_reachable : reachable nwt ct4.
Proof. eapply r_step; [apply dreachable_reachable, ct3_dreachable | eapply st_fit, ct_step4]. Qed.

Lemma ct4_not_trans : ~ TransOK nwt ct4.
Proof.
  intros H. destruct (H 0) as (tr & G & I); [vm_compute; auto|].
  vm_compute in G. inversion G; subst tr; clear G.
  pose proof (ti_counter _ _ _ _ I 0%nat ([Veh 0; Veh 1], 8000) eq_refl) as C.
  vm_compute in C. discriminate C.
Qed.

Theorem reachable_trans_refuted_nwt : ~ stmt_reachable_trans nwt.
Proof. intros H. exact (ct4_not_trans (H _ ct4_reachable)). Qed.

Theorem reachable_trans_refuted : ~ (forall nw, stmt_reachable_trans nw).
Proof. intros H. exact (reachable_trans_refuted_nwt (H nwt)). Qed.

(* the offending call is exactly the one excluded by [treachable] (and by [dreachable]); the state before it is fine *)
Lemma ct4_guard_fails : ~ fit_guard (Veh 0) (Veh 0).
Proof. intros G. specialize (G eq_refl). discriminate G. Qed.
Lemma ct3_trans : TransOK nwt ct3.
Proof. apply reachable_trans_under_distinct, ct3_dreachable. Qed.

Print Assumptions reachable_trans_refuted.
Print Assumptions reachable_trans_under_guard.
Print Assumptions reachable_trans_under_distinct.
