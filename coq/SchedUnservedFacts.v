(* SchedUnservedFacts.v — proof of stmt_reachable_unserved (SchedInv.v): for every reachable schedule the cached
   pair s_unserved is the pair of sums of the per-node shortfalls of the stored formations, and the keys of
   s_forms are duplicate-free.  Strengthened invariant: the keys of s_forms are exactly coverable_nodes nw. *)
From RS Require Import SchedPeel Base BaseFacts Network Tour Transition Schedule SchedInv.

(** * generic facts: res folds, node maps *)

Lemma fold_nonok {A B} (F : res A -> B -> res A) (HF : forall r n, is_ok r = false -> F r n = r) l :
  forall r, is_ok r = false -> fold_left F l r = r.
Proof.
  induction l as [|x l IH]; intros r Hr; cbn [fold_left]; auto.
  rewrite HF by exact Hr. now apply IH.
Qed.

Lemma fold_pair_sums {B} (p q : B -> Z) (l : list B) : forall a b,
  fold_left (fun '(a, b) n => (a + p n, b + q n)) l (a, b) = (a + z_sum (map p l), b + z_sum (map q l)).
Proof.
  induction l as [|x l IH]; intros a b; cbn [fold_left map].
  - unfold z_sum; cbn [fold_left]. f_equal; lia.
  - rewrite IH, !z_sum_cons. f_equal; lia.
Qed.

Lemma nodup_app_l {A} (l l' : list A) : NoDup (l ++ l') -> NoDup l.
Proof.
  induction l as [|a l IH]; cbn [app]; intros H; [constructor|].
  inversion H; subst. constructor; auto. intros Hin; apply H2. apply in_or_app; auto.
Qed.

Lemma nid_eqb_sym a b : nid_eqb a b = nid_eqb b a.
Proof.
  destruct (nid_eqb a b) eqn:E1, (nid_eqb b a) eqn:E2; auto.
  - apply nid_eqb_eq in E1; subst. now rewrite nid_eqb_refl in E2.
  - apply nid_eqb_eq in E2; subst. now rewrite nid_eqb_refl in E1.
Qed.

Section NMap.
Context {A : Type}.
Implicit Types (fm : list (node_id * A)).

Definition nrepl (n : node_id) (x : A) fm : list (node_id * A) :=
  map (fun '(k, y) => if nid_eqb k n then (k, x) else (k, y)) fm.

Lemma nget_some_existsb n fm f : nget n fm = Some f -> existsb (fun '(k, _) => nid_eqb k n) fm = true.
Proof.
  unfold nget. induction fm as [|[k y] fm IH]; cbn [assoc existsb]; try discriminate.
  rewrite (nid_eqb_sym k n). destruct (nid_eqb n k); auto.
Qed.

Lemma nset_key n x fm f : nget n fm = Some f -> nset n x fm = nrepl n x fm.
Proof. intros H. unfold nset. now rewrite (nget_some_existsb _ _ _ H). Qed.

Lemma nrepl_keys n x fm : map fst (nrepl n x fm) = map fst fm.
Proof.
  unfold nrepl. induction fm as [|[k y] fm IH]; cbn [map]; auto.
  destruct (nid_eqb k n); cbn [fst]; now f_equal.
Qed.

Lemma nget_nrepl n x fm m :
  nget m (nrepl n x fm) =
  if nid_eqb m n then match nget m fm with Some _ => Some x | None => None end else nget m fm.
Proof.
  unfold nget, nrepl. induction fm as [|[k y] fm IH]; cbn [map assoc].
  - now destruct (nid_eqb m n).
  - destruct (nid_eqb k n) eqn:Ekn; cbn [assoc]; destruct (nid_eqb m k) eqn:Emk; auto.
    + apply nid_eqb_eq in Emk, Ekn; subst. now rewrite nid_eqb_refl.
    + apply nid_eqb_eq in Emk; subst. now rewrite Ekn.
Qed.
End NMap.

(** * the invariant *)
Section Uns.
Variable nw : network.
Hypothesis Hnd : NoDup (coverable_nodes nw).
Hypothesis Hmaint : forall n, In n (nw_maint nw) -> is_service (nd nw n) = false.

Notation formation := (list (vehicle_id * Z)).
Notation L := (all_service_nodes nw).

Definition fat (fm : list (node_id * formation)) (n : node_id) : formation :=
  match nget n fm with Some f => f | None => [] end.
Definition sumg (g : node_id -> formation -> Z) (fm : list (node_id * formation)) : Z :=
  z_sum (map (fun n => g n (fat fm n)) L).
Definition g1 (n : node_id) (f : formation) : Z := fst (unserved_at_node nw n f).
Definition g2 (n : node_id) (f : formation) : Z := snd (unserved_at_node nw n f).

Definition FInv (fm : list (node_id * formation)) (uns : Z * Z) : Prop :=
  NoDup (map fst fm) /\
  (forall n, In n (map fst fm) <-> In n (coverable_nodes nw)) /\
  uns = (sumg g1 fm, sumg g2 fm).

Lemma L_nodup : NoDup L.
Proof. unfold coverable_nodes in Hnd. now apply nodup_app_l in Hnd. Qed.

Lemma fat_nset n x fm f m : nget n fm = Some f -> fat (nset n x fm) m = if nid_eqb m n then x else fat fm m.
Proof.
  intros H. unfold fat. rewrite (nset_key _ _ _ _ H), nget_nrepl.
  destruct (nid_eqb m n) eqn:E; auto. apply nid_eqb_eq in E; subst. now rewrite H.
Qed.

Lemma sum_notin (g : node_id -> formation -> Z) n x fm (l : list node_id) :
  ~ In n l ->
  z_sum (map (fun m => g m (if nid_eqb m n then x else fat fm m)) l) = z_sum (map (fun m => g m (fat fm m)) l).
Proof.
  intros Hn. f_equal. apply map_ext_in. intros a Ha.
  destruct (nid_eqb a n) eqn:E; auto. apply nid_eqb_eq in E; subst; contradiction.
Qed.

Lemma sum_in (g : node_id -> formation -> Z) n x fm (l : list node_id) :
  NoDup l -> In n l ->
  z_sum (map (fun m => g m (if nid_eqb m n then x else fat fm m)) l)
  = z_sum (map (fun m => g m (fat fm m)) l) - g n (fat fm n) + g n x.
Proof.
  induction l as [|a l IH]; intros Hd Hin; [destruct Hin|].
  inversion Hd as [|? ? Hna Hd']; subst. cbn [map]. rewrite !z_sum_cons.
  destruct (nid_eqb a n) eqn:E.
  - apply nid_eqb_eq in E; subst. rewrite (sum_notin g n x fm l Hna). lia.
  - destruct Hin as [->|Hin]; [now rewrite nid_eqb_refl in E|].
    rewrite (IH Hd' Hin). lia.
Qed.

Lemma sumg_nset_in g n x fm f :
  nget n fm = Some f -> In n L -> sumg g (nset n x fm) = sumg g fm - g n f + g n x.
Proof.
  intros H Hin. unfold sumg.
  rewrite (map_ext _ (fun m => g m (if nid_eqb m n then x else fat fm m))).
  2:{ intros a. now rewrite (fat_nset _ _ _ _ _ H). }
  rewrite (sum_in g n x fm L L_nodup Hin). unfold fat at 2. now rewrite H.
Qed.

Lemma sumg_nset_notin g n x fm f :
  nget n fm = Some f -> ~ In n L -> sumg g (nset n x fm) = sumg g fm.
Proof.
  intros H Hin. unfold sumg.
  rewrite (map_ext _ (fun m => g m (if nid_eqb m n then x else fat fm m))).
  2:{ intros a. now rewrite (fat_nset _ _ _ _ _ H). }
  now apply sum_notin.
Qed.

Lemma nget_key {B} n (fm : list (node_id * B)) f : nget n fm = Some f -> In n (map fst fm).
Proof.
  intros H. apply (assoc_in nid_eqb nid_eqb_eq) in H. now apply (in_map fst) in H.
Qed.

Lemma service_key_iff n : In n (coverable_nodes nw) -> (In n L <-> is_service (nd nw n) = true).
Proof.
  intros Hc. split.
  - unfold all_service_nodes. intros H. now apply filter_In in H.
  - intros Hs. unfold coverable_nodes in Hc. apply in_app_or in Hc. destruct Hc as [Hc|Hc]; auto.
    apply Hmaint in Hc. congruence.
Qed.

(** * update_train_formation preserves the invariant *)
Lemma utf_inv s prov recv moved : forall fm uns fm' uns',
  update_train_formation nw s fm uns prov recv moved = Ok (fm', uns') -> FInv fm uns -> FInv fm' uns'.
Proof.
  unfold update_train_formation.
  induction moved as [|n l IH]; intros fm uns fm' uns' H HI.
  - cbn [fold_left] in H. inversion H; subst; auto.
  - cbn [fold_left] in H. destruct uns as [ua ub]. cbn [bind] in H.
    match type of H with fold_left ?G _ _ = _ =>
      assert (Hno : forall r, is_ok r = false -> fold_left G l r = r)
        by (apply fold_nonok; intros [] ? Hr; try discriminate Hr; reflexivity) end.
    destruct (is_depot (nd nw n)) eqn:Edep.
    + eapply IH; eauto.
    + destruct (nget n fm) as [f|] eqn:En; cbn [unwrap_opt bind] in H.
      2:{ rewrite Hno in H by reflexivity. discriminate. }
      destruct (replacement_in_formation nw s f prov recv n) as [f'| | |] eqn:Er; cbn [bind] in H;
        try (rewrite Hno in H by reflexivity; discriminate).
      eapply IH; [exact H|]. clear H IH Hno.
      destruct HI as (Hk & Hc & Hu). inversion Hu; subst ua ub. clear Hu.
      assert (Hkey : In n (coverable_nodes nw)) by (apply Hc; eapply nget_key; eauto).
      split; [|split].
      * rewrite (nset_key _ _ _ _ En), nrepl_keys. exact Hk.
      * intros m. rewrite (nset_key _ _ _ _ En), nrepl_keys. apply Hc.
      * destruct (is_service (nd nw n)) eqn:Es.
        -- assert (Hin : In n L) by (now apply service_key_iff).
           rewrite (sumg_nset_in g1 _ _ _ _ En Hin), (sumg_nset_in g2 _ _ _ _ En Hin).
           unfold g1, g2. reflexivity.
        -- assert (Hin : ~ In n L) by (intros Hin; apply service_key_iff in Hin; congruence).
           rewrite (sumg_nset_notin g1 _ _ _ _ En Hin), (sumg_nset_notin g2 _ _ _ _ En Hin).
           cbn [fst snd]. f_equal; lia.
Qed.

(** * the empty schedule *)
Lemma fat_init (l : list node_id) m : fat (map (fun n => (n, [])) l) m = [].
Proof.
  unfold fat, nget. induction l as [|a l IH]; cbn [map assoc]; auto.
  destruct (nid_eqb m a); auto.
Qed.

Lemma empty_inv s : empty_schedule nw = Ok s -> FInv (s_forms s) (s_unserved s).
Proof.
  unfold empty_schedule. intros H.
  match type of H with bind ?x _ = _ => destruct x; cbn [bind] in H; try discriminate H end.
  inversion H; subst; clear H. cbn [s_forms s_unserved].
  split; [|split].
  - rewrite map_map. cbn [fst]. rewrite map_id. exact Hnd.
  - intros n. rewrite map_map. cbn [fst]. rewrite map_id. tauto.
  - rewrite fold_pair_sums. unfold sumg. f_equal.
    + rewrite Z.add_0_l. f_equal. apply map_ext. intros m. rewrite fat_init.
      unfold g1, unserved_at_node. cbn [map fst]. unfold z_sum; cbn [fold_left]. now rewrite Z.sub_0_r.
    + rewrite Z.add_0_l. f_equal. apply map_ext. intros m. rewrite fat_init.
      unfold g2, unserved_at_node. cbn [map snd]. unfold z_sum; cbn [fold_left]. now rewrite Z.sub_0_r.
Qed.

(** * the public modifications *)
Definition SInv (s : schedule) : Prop := FInv (s_forms s) (s_unserved s).

Ltac step_bind H :=
  match type of H with
  | bind ?x _ = Ok _ => let E := fresh "E" in destruct x eqn:E; cbn [bind] in H; try discriminate H
  | (match ?x with _ => _ end) = Ok _ => let E := fresh "E" in destruct x eqn:E; try discriminate H
  end.

Ltac saturate :=
  repeat match goal with
  | E : update_train_formation nw _ ?fm ?uns _ _ _ = Ok (?fm', ?uns'), HI : FInv ?fm ?uns |- _ =>
      pose proof (utf_inv _ _ _ _ _ _ _ _ E HI); clear E
  | E : (match ?c with _ => _ end) = Ok (_, _) |- _ =>
      is_var c; destruct c; try discriminate E
  | E : Ok (_, _) = Ok (_, _) |- _ => inversion E; subst; clear E
  end.

Ltac finish H :=
  inversion H; subst; clear H; unfold SInv in *; cbn [with_fields s_forms s_unserved] in *; saturate; auto.

Ltac crunch H := cbv zeta in H; repeat step_bind H; finish H.

Lemma spawn_inv s ty path s' v : spawn_vehicle_for_path nw s ty path = Ok (s', v) -> SInv s -> SInv s'.
Proof. unfold spawn_vehicle_for_path. intros H HI. crunch H. Qed.

Lemma delete_dummy_inv s d s' : delete_dummy s d = Ok s' -> SInv s -> SInv s'.
Proof. unfold delete_dummy. intros H HI. crunch H. Qed.

Lemma spawn_dummy_inv s d ty s' v : spawn_to_replace_dummy nw s d ty = Ok (s', v) -> SInv s -> SInv s'.
Proof.
  unfold spawn_to_replace_dummy. intros H HI.
  step_bind H. step_bind H.
  eapply spawn_inv; [exact H|]. eapply delete_dummy_inv; eauto.
Qed.

Lemma delete_inv s v s' : replace_vehicle_by_dummy nw s v = Ok s' -> SInv s -> SInv s'.
Proof. unfold replace_vehicle_by_dummy. intros H HI. crunch H. Qed.

Lemma add_path_inv s v path s' c : add_path_to_vehicle_tour nw s v path = Ok (s', c) -> SInv s -> SInv s'.
Proof.
  unfold add_path_to_vehicle_tour. intros H HI. destruct path as [|pf path]; [discriminate|].
  cbv zeta in H.
  step_bind H. step_bind H.
  repeat step_bind H; finish H.
Qed.

Lemma remove_segment_inv s seg v s' : remove_segment nw s seg v = Ok s' -> SInv s -> SInv s'.
Proof.
  unfold remove_segment. intros H HI. cbv zeta in H.
  do 3 step_bind H.
  match type of H with (let '(_, _) := ?p in _) = _ => destruct p as [shr removed] end.
  destruct shr as [nt|]; [|eapply delete_inv; eauto].
  repeat step_bind H; finish H.
Qed.

Lemma update_tours_inv s veh tours forms usage dummies ids dids uns costs p ntp r ntr moved
      veh1 tours2 forms2 usage2 dummies2 ids1 dids1 uns2 costs2 :
  update_tours nw s veh tours forms usage dummies ids dids uns costs p ntp r ntr moved
    = Ok (veh1, tours2, forms2, usage2, dummies2, ids1, dids1, uns2, costs2) ->
  FInv forms uns -> FInv forms2 uns2.
Proof.
  intros H HI. apply update_tours_peel in H. unfold update_tours_prefix in H. cbv zeta in H.
  step_bind H.
  match goal with E : (match ntp with _ => _ end) = _ |- _ => clear E end.
  repeat step_bind H.
  inversion H; subst; clear H. saturate; auto.
Qed.

Lemma fit_inv s seg p r s' : fit_reassign nw s seg p r = Ok s' -> SInv s -> SInv s'.
Proof.
  unfold fit_reassign. intros H HI. cbv zeta in H.
  repeat step_bind H.
  inversion H; subst; clear H. unfold SInv in *. cbn [with_fields s_forms s_unserved].
  eapply update_tours_inv; eauto.
Qed.

Lemma override_inv s seg p r s' d : override_reassign nw s seg p r = Ok (s', d) -> SInv s -> SInv s'.
Proof.
  unfold override_reassign. intros H HI. cbv zeta in H. destruct (vid_eqb p r) in H; [discriminate|].
  repeat step_bind H.
  all: inversion H; subst; clear H; unfold SInv in *; cbn [with_fields s_forms s_unserved].
  all: match goal with E : update_tours _ _ _ _ _ _ _ _ _ _ _ _ _ _ _ _ = Ok _ |- _ =>
         pose proof (update_tours_inv _ _ _ _ _ _ _ _ _ _ _ _ _ _ _ _ _ _ _ _ _ _ _ _ E HI) end.
  all: repeat match goal with
       | E : bind _ _ = Ok _ |- _ => step_bind E
       | E : (match _ with _ => _ end) = Ok _ |- _ => step_bind E
       end.
  all: saturate; auto.
Qed.

Lemma improve_inv s vs s' : improve_depots nw s vs = Ok s' -> SInv s -> SInv s'.
Proof. unfold improve_depots. intros H HI. cbv zeta in H. do 3 step_bind H. step_bind H. step_bind H. step_bind H. finish H. Qed.

Lemma greedy_inv s s' : reassign_end_depots_greedily nw s = Ok s' -> SInv s -> SInv s'.
Proof. unfold reassign_end_depots_greedily. intros H HI. cbv zeta in H. do 3 step_bind H. do 2 step_bind H. finish H. Qed.

Lemma recompute_inv s ts s' : recompute_transitions_for nw s ts = Ok s' -> SInv s -> SInv s'.
Proof. unfold recompute_transitions_for. intros H HI. cbv zeta in H. do 2 step_bind H. finish H. Qed.

Lemma consistent_inv s s' : reassign_end_depots_consistent nw s = Ok s' -> SInv s -> SInv s'.
Proof. unfold reassign_end_depots_consistent. intros H HI. cbv zeta in H. do 3 step_bind H. do 2 step_bind H. finish H. Qed.

Lemma step_inv s s' : step nw s s' -> SInv s -> SInv s'.
Proof.
  intros Hs HI. destruct Hs;
    eauto using spawn_inv, spawn_dummy_inv, delete_inv, add_path_inv, remove_segment_inv, fit_inv, override_inv,
                improve_inv, greedy_inv, recompute_inv, consistent_inv.
Qed.

Lemma reachable_inv s : reachable nw s -> SInv s.
Proof.
  induction 1 as [s H|s s' _ IH Hs].
  - now apply empty_inv.
  - eapply step_inv; eauto.
Qed.

Lemma SInv_UnservedOK s : SInv s -> UnservedOK nw s.
Proof. intros (Hk & _ & Hu). split; [exact Hk|]. exact Hu. Qed.
End Uns.

Theorem reachable_unserved : forall nw, stmt_reachable_unserved nw.
Proof.
  intros nw Hnd Hm s Hr. apply SInv_UnservedOK. now apply reachable_inv.
Qed.

Print Assumptions reachable_unserved.
