From RS Require Import SchedPeel Base BaseFacts Network Tour Transition Schedule SchedInv SchedObs SchedStruct SchedCostsFacts.
(* SchedUsageFacts.v — proof of [stmt_reachable_usage] (SchedStruct.v): in every reachable schedule the depot-usage
   map [s_usage] holds, for every (depot, type), exactly the vehicles of that type whose tour starts (first
   component) / ends (second component) at that depot, without duplicates, and its keys are duplicate-free.
   The invariant [UsageOK] is inductive by itself: every successful removal from a usage set certifies (through the
   invariant) where the vehicle was recorded, so no further key facts are needed.  The private generalisation [UX]
   carries a list of vehicles that are temporarily absent from the map (the two folds of improve_depots). *)

Local Open Scope Z_scope.

(** * the two components of an entry of the usage map *)
Definition ent_of (U : usage_t) (d ty : Z) : list vehicle_id * list vehicle_id :=
  match uget (d, ty) U with Some x => x | None => ([], []) end.
Definition sp_of (U : usage_t) (d ty : Z) : list vehicle_id := fst (ent_of U d ty).
Definition de_of (U : usage_t) (d ty : Z) : list vehicle_id := snd (ent_of U d ty).

Lemma ent_uset U k x d ty : ent_of (uset k x U) d ty = if pair_eqb (d, ty) k then x else ent_of U d ty.
Proof. unfold ent_of. rewrite uget_uset. destruct (pair_eqb (d, ty) k); auto. Qed.

Lemma pair_eqb_dec d ty d' ty' : pair_eqb (d', ty') (d, ty) = true <-> d' = d /\ ty' = ty.
Proof. rewrite pair_eqb_eq. split; [intros H; inversion H; auto | intros [-> ->]; auto]. Qed.

Lemma uget_none_keys k (U : usage_t) : uget k U = None -> ~ In k (map fst U).
Proof.
  induction U as [|[k' y] U IH]; cbn [map fst In]; [tauto|].
  rewrite uget_cons. destruct (pair_eqb k k') eqn:E; [discriminate|].
  intros H [G|G]; [subst; rewrite pair_eqb_refl in E; discriminate | now apply IH].
Qed.

Lemma keys_urepl k x (U : usage_t) :
  map fst (map (fun '(k', y) => if pair_eqb k' k then (k', x) else (k', y)) U) = map fst U.
Proof.
  induction U as [|[k' y] U IH]; cbn [map fst]; auto. rewrite IH. destruct (pair_eqb k' k); auto.
Qed.

Lemma keys_uset_nodup k x (U : usage_t) : NoDup (map fst U) -> NoDup (map fst (uset k x U)).
Proof.
  intros N. unfold uset. rewrite uset_existsb. destruct (uget k U) eqn:G.
  - now rewrite keys_urepl.
  - rewrite map_app. cbn [map fst]. apply NoDup_snoc; auto. now apply uget_none_keys.
Qed.

Lemma set_add_in x v l : In x (set_add v l) <-> In x l \/ x = v.
Proof.
  unfold set_add. destruct (memv v l) eqn:M.
  - apply memv_in in M. split; [auto | intros [H| ->]; auto].
  - rewrite in_app_iff. cbn [In]. intuition.
Qed.

Lemma set_add_nodup v l : NoDup l -> NoDup (set_add v l).
Proof.
  intros N. unfold set_add. destruct (memv v l) eqn:M; auto.
  apply NoDup_snoc; auto. intros H. apply memv_in in H. congruence.
Qed.

(** * effect of the four primitive updates *)
Record eff (U U' : usage_t) (spf def : Z -> Z -> vehicle_id -> Prop -> Prop) : Prop := {
  eff_sp : forall d ty x, In x (sp_of U' d ty) <-> spf d ty x (In x (sp_of U d ty));
  eff_de : forall d ty x, In x (de_of U' d ty) <-> def d ty x (In x (de_of U d ty));
  eff_nd : forall d ty, (NoDup (sp_of U d ty) -> NoDup (sp_of U' d ty)) /\ (NoDup (de_of U d ty) -> NoDup (de_of U' d ty));
  eff_keys : NoDup (map fst U) -> NoDup (map fst U') }.

Definition f_id (d ty : Z) (x : vehicle_id) (P : Prop) : Prop := P.
Definition f_rm (d0 ty0 : Z) (v : vehicle_id) (d ty : Z) (x : vehicle_id) (P : Prop) : Prop :=
  P /\ ~ (x = v /\ d = d0 /\ ty = ty0).
Definition f_add (d0 ty0 : Z) (v : vehicle_id) (d ty : Z) (x : vehicle_id) (P : Prop) : Prop :=
  P \/ (x = v /\ d = d0 /\ ty = ty0).

Lemma eff_refl U : eff U U f_id f_id.
Proof. constructor; unfold f_id; intros; tauto. Qed.

Lemma rm_spawn_eff U d ty v U' : usage_remove_spawn U d ty v = Ok U' ->
  In v (sp_of U d ty) /\ eff U U' (f_rm d ty v) f_id.
Proof.
  unfold usage_remove_spawn. fold (ent_of U d ty). destruct (ent_of U d ty) as [sp de] eqn:G.
  destruct (memv v sp) eqn:M; [|discriminate]. intros H. inversion H; subst U'; clear H.
  apply memv_in in M. split; [unfold sp_of; rewrite G; auto|].
  constructor; unfold f_rm, f_id, sp_of, de_of.
  - intros d' ty' x. rewrite ent_uset. destruct (pair_eqb (d', ty') (d, ty)) eqn:E.
    + apply pair_eqb_dec in E. destruct E; subst. rewrite G. cbn [fst]. rewrite set_del_in. intuition.
    + split; [|tauto]. intros I. split; auto. intros (_ & -> & ->). now rewrite pair_eqb_refl in E.
  - intros d' ty' x. rewrite ent_uset. destruct (pair_eqb (d', ty') (d, ty)) eqn:E; [|tauto].
    apply pair_eqb_dec in E. destruct E; subst. rewrite G. cbn [snd]. tauto.
  - intros d' ty'. rewrite ent_uset. destruct (pair_eqb (d', ty') (d, ty)) eqn:E; [|tauto].
    apply pair_eqb_dec in E. destruct E; subst. rewrite G. cbn [fst snd]. split; auto. apply set_del_nodup.
  - apply keys_uset_nodup.
Qed.

Lemma rm_despawn_eff U d ty v U' : usage_remove_despawn U d ty v = Ok U' ->
  In v (de_of U d ty) /\ eff U U' f_id (f_rm d ty v).
Proof.
  unfold usage_remove_despawn. fold (ent_of U d ty). destruct (ent_of U d ty) as [sp de] eqn:G.
  destruct (memv v de) eqn:M; [|discriminate]. intros H. inversion H; subst U'; clear H.
  apply memv_in in M. split; [unfold de_of; rewrite G; auto|].
  constructor; unfold f_rm, f_id, sp_of, de_of.
  - intros d' ty' x. rewrite ent_uset. destruct (pair_eqb (d', ty') (d, ty)) eqn:E; [|tauto].
    apply pair_eqb_dec in E. destruct E; subst. rewrite G. cbn [fst]. tauto.
  - intros d' ty' x. rewrite ent_uset. destruct (pair_eqb (d', ty') (d, ty)) eqn:E.
    + apply pair_eqb_dec in E. destruct E; subst. rewrite G. cbn [snd]. rewrite set_del_in. intuition.
    + split; [|tauto]. intros I. split; auto. intros (_ & -> & ->). now rewrite pair_eqb_refl in E.
  - intros d' ty'. rewrite ent_uset. destruct (pair_eqb (d', ty') (d, ty)) eqn:E; [|tauto].
    apply pair_eqb_dec in E. destruct E; subst. rewrite G. cbn [fst snd]. split; auto. apply set_del_nodup.
  - apply keys_uset_nodup.
Qed.

Lemma add_spawn_eff U d ty v : eff U (usage_add_spawn U d ty v) (f_add d ty v) f_id.
Proof.
  unfold usage_add_spawn. fold (ent_of U d ty). destruct (ent_of U d ty) as [sp de] eqn:G.
  constructor; unfold f_add, f_id, sp_of, de_of.
  - intros d' ty' x. rewrite ent_uset. destruct (pair_eqb (d', ty') (d, ty)) eqn:E.
    + apply pair_eqb_dec in E. destruct E; subst. rewrite G. cbn [fst]. rewrite set_add_in. intuition.
    + split; [tauto|]. intros [I|(_ & -> & ->)]; auto. now rewrite pair_eqb_refl in E.
  - intros d' ty' x. rewrite ent_uset. destruct (pair_eqb (d', ty') (d, ty)) eqn:E; [|tauto].
    apply pair_eqb_dec in E. destruct E; subst. rewrite G. cbn [snd]. tauto.
  - intros d' ty'. rewrite ent_uset. destruct (pair_eqb (d', ty') (d, ty)) eqn:E; [|tauto].
    apply pair_eqb_dec in E. destruct E; subst. rewrite G. cbn [fst snd]. split; auto. apply set_add_nodup.
  - apply keys_uset_nodup.
Qed.

Lemma add_despawn_eff U d ty v : eff U (usage_add_despawn U d ty v) f_id (f_add d ty v).
Proof.
  unfold usage_add_despawn. fold (ent_of U d ty). destruct (ent_of U d ty) as [sp de] eqn:G.
  constructor; unfold f_add, f_id, sp_of, de_of.
  - intros d' ty' x. rewrite ent_uset. destruct (pair_eqb (d', ty') (d, ty)) eqn:E; [|tauto].
    apply pair_eqb_dec in E. destruct E; subst. rewrite G. cbn [fst]. tauto.
  - intros d' ty' x. rewrite ent_uset. destruct (pair_eqb (d', ty') (d, ty)) eqn:E.
    + apply pair_eqb_dec in E. destruct E; subst. rewrite G. cbn [snd]. rewrite set_add_in. intuition.
    + split; [tauto|]. intros [I|(_ & -> & ->)]; auto. now rewrite pair_eqb_refl in E.
  - intros d' ty'. rewrite ent_uset. destruct (pair_eqb (d', ty') (d, ty)) eqn:E; [|tauto].
    apply pair_eqb_dec in E. destruct E; subst. rewrite G. cbn [fst snd]. split; auto. apply set_add_nodup.
  - apply keys_uset_nodup.
Qed.

(** * update_depot_usage_assuming_no_dummies *)
Definition functional (A : Z -> Z -> vehicle_id -> Prop) : Prop :=
  forall d1 ty1 d2 ty2 x, A d1 ty1 x -> A d2 ty2 x -> d1 = d2 /\ ty1 = ty2.

Definition f_rmv (v : vehicle_id) (d ty : Z) (x : vehicle_id) (P : Prop) : Prop := P /\ x <> v.
Definition f_addo (o : option Z) (ty0 : Z) (v : vehicle_id) (d ty : Z) (x : vehicle_id) (P : Prop) : Prop :=
  P \/ (x = v /\ o = Some d /\ ty = ty0).

Section ND.
Variable nw : network.
Variable s : schedule.

Lemma stage_rm_sp U v ty u1 (A : Z -> Z -> vehicle_id -> Prop) :
  (if is_vehicle s v then
     do t <- tour_of s v; do od <- (match start_depot nw t with Ok x => Ok x | _ => Panic end);
     usage_remove_spawn U (get_depot_idx nw od) ty v
   else Ok U) = Ok u1 ->
  functional A -> (forall d ty x, In x (sp_of U d ty) <-> A d ty x) ->
  (is_vehicle s v = false -> forall d ty, ~ A d ty v) ->
  eff U u1 (f_rmv v) f_id.
Proof.
  intros H FA HA NV. destruct (is_vehicle s v).
  - mon H. mon H. apply rm_spawn_eff in H. destruct H as [I [Es Ed En Ek]].
    constructor; auto. intros d' ty' x. rewrite Es. unfold f_rm, f_rmv. split.
    + intros [I1 I2]. split; auto. intros ->. apply I2. split; auto.
      apply HA in I, I1. eapply FA; eauto.
    + intros [I1 I2]. split; auto. tauto.
  - inversion H; subst u1. constructor; unfold f_id, f_rmv; try tauto.
    intros d' ty' x. split; [|tauto]. intros I. split; auto. intros ->. apply HA in I. eapply NV; eauto.
Qed.

Lemma stage_rm_de U v ty u1 (B : Z -> Z -> vehicle_id -> Prop) :
  (if is_vehicle s v then
     do t <- tour_of s v; do od <- (match end_depot nw t with Ok x => Ok x | _ => Panic end);
     usage_remove_despawn U (get_depot_idx nw od) ty v
   else Ok U) = Ok u1 ->
  functional B -> (forall d ty x, In x (de_of U d ty) <-> B d ty x) ->
  (is_vehicle s v = false -> forall d ty, ~ B d ty v) ->
  eff U u1 f_id (f_rmv v).
Proof.
  intros H FA HA NV. destruct (is_vehicle s v).
  - mon H. mon H. apply rm_despawn_eff in H. destruct H as [I [Es Ed En Ek]].
    constructor; auto. intros d' ty' x. rewrite Ed. unfold f_rm, f_rmv. split.
    + intros [I1 I2]. split; auto. intros ->. apply I2. split; auto.
      apply HA in I, I1. eapply FA; eauto.
    + intros [I1 I2]. split; auto. tauto.
  - inversion H; subst u1. constructor; unfold f_id, f_rmv; try tauto.
    intros d' ty' x. split; [|tauto]. intros I. split; auto. intros ->. apply HA in I. eapply NV; eauto.
Qed.

Lemma add_sp_opt U (o : option node_id) ty v :
  eff U (match o with Some x => usage_add_spawn U (get_depot_idx nw x) ty v | None => U end)
      (f_addo (option_map (get_depot_idx nw) o) ty v) f_id.
Proof.
  destruct o as [n|]; cbn [option_map].
  - destruct (add_spawn_eff U (get_depot_idx nw n) ty v) as [Es Ed En Ek]. constructor; auto.
    intros d' ty' x. rewrite Es. unfold f_add, f_addo. split; intros [I|(I1 & I2 & I3)]; auto.
    + subst. auto.
    + inversion I2; subst. auto.
  - constructor; unfold f_id, f_addo; try tauto. intros d' ty' x. split; auto. intros [I|(_ & I & _)]; [auto | discriminate].
Qed.

Lemma add_de_opt U (o : option node_id) ty v :
  eff U (match o with Some x => usage_add_despawn U (get_depot_idx nw x) ty v | None => U end)
      f_id (f_addo (option_map (get_depot_idx nw) o) ty v).
Proof.
  destruct o as [n|]; cbn [option_map].
  - destruct (add_despawn_eff U (get_depot_idx nw n) ty v) as [Es Ed En Ek]. constructor; auto.
    intros d' ty' x. rewrite Ed. unfold f_add, f_addo. split; intros [I|(I1 & I2 & I3)]; auto.
    + subst. auto.
    + inversion I2; subst. auto.
  - constructor; unfold f_id, f_addo; try tauto. intros d' ty' x. split; auto. intros [I|(_ & I & _)]; [auto | discriminate].
Qed.

Lemma sd_some (nt : option tour) a :
  (match nt with Some t => do x <- start_depot nw t; Ok (Some x) | None => Ok None end) = Ok a ->
  a = option_map first_node nt.
Proof.
  destruct nt as [t|]; cbn [option_map]; [|intros H; inversion H; auto].
  unfold start_depot. destruct (is_start_depot _); cbn [bind]; intros H; inversion H; auto.
Qed.
Lemma ed_some (nt : option tour) a :
  (match nt with Some t => do x <- end_depot nw t; Ok (Some x) | None => Ok None end) = Ok a ->
  a = option_map last_node nt.
Proof.
  destruct nt as [t|]; cbn [option_map]; [|intros H; inversion H; auto].
  unfold end_depot. destruct (is_end_depot _); cbn [bind]; intros H; inversion H; auto.
Qed.

Lemma udu_nd_eff U v ty nt U' (A B : Z -> Z -> vehicle_id -> Prop) :
  functional A -> functional B ->
  (forall d ty x, In x (sp_of U d ty) <-> A d ty x) ->
  (forall d ty x, In x (de_of U d ty) <-> B d ty x) ->
  (is_vehicle s v = false -> forall d ty, ~ A d ty v /\ ~ B d ty v) ->
  update_depot_usage_nd nw s U v ty nt = Ok U' ->
  (forall d' ty' x, In x (sp_of U' d' ty') <->
     (A d' ty' x /\ x <> v) \/
     (x = v /\ option_map (get_depot_idx nw) (option_map first_node nt) = Some d' /\ ty' = ty)) /\
  (forall d' ty' x, In x (de_of U' d' ty') <->
     (B d' ty' x /\ x <> v) \/
     (x = v /\ option_map (get_depot_idx nw) (option_map last_node nt) = Some d' /\ ty' = ty)) /\
  (forall d' ty', (NoDup (sp_of U d' ty') -> NoDup (sp_of U' d' ty')) /\
                  (NoDup (de_of U d' ty') -> NoDup (de_of U' d' ty'))) /\
  (NoDup (map fst U) -> NoDup (map fst U')).
Proof.
  intros FA FB HA HB NV H. unfold update_depot_usage_nd in H.
  mon H. mon H. mon H. mon H. inversion H; subst U'; clear H.
  apply sd_some in E. apply ed_some in E0. subst a a0.
  apply (stage_rm_sp _ _ _ _ A) in E1; auto; [|intros Q d' ty'; apply NV; auto].
  destruct E1 as [S1 D1 N1 K1].
  pose proof (add_sp_opt a1 (option_map first_node nt) ty v) as [S2 D2 N2 K2].
  apply (stage_rm_de _ _ _ _ B) in E2; auto.
  2:{ intros d' ty' x. rewrite D2; unfold f_id. rewrite D1; unfold f_id. apply HB. }
  2:{ intros Q d' ty'; apply NV; auto. }
  destruct E2 as [S3 D3 N3 K3].
  pose proof (add_de_opt a2 (option_map last_node nt) ty v) as [S4 D4 N4 K4].
  split; [|split; [|split]].
  - intros d' ty' x. rewrite S4; unfold f_id. rewrite S3; unfold f_id. rewrite S2; unfold f_addo.
    rewrite S1; unfold f_rmv. rewrite HA. tauto.
  - intros d' ty' x. rewrite D4; unfold f_addo. rewrite D3; unfold f_rmv. rewrite D2; unfold f_id.
    rewrite D1; unfold f_id. rewrite HB. tauto.
  - intros d' ty'. split; intros Q.
    + apply N4, N3, N2, N1, Q.
    + apply N4, N3, N2, N1, Q.
  - auto.
Qed.
End ND.

(** * the generalised invariant *)
Section UXS.
Variable nw : network.

Definition stG (sel : tour -> node_id) (V : list (vehicle_id * Z)) (T : list (vehicle_id * tour))
  (d ty : Z) (v : vehicle_id) : Prop :=
  exists t, vget v V = Some ty /\ vget v T = Some t /\ get_depot_idx nw (sel t) = d.

(* [X]: vehicles that are temporarily not recorded *)
Record UX (V : list (vehicle_id * Z)) (T : list (vehicle_id * tour)) (X : list vehicle_id) (U : usage_t) : Prop := {
  ux_keys : NoDup (map fst U);
  ux_nd : forall d ty, NoDup (sp_of U d ty) /\ NoDup (de_of U d ty);
  ux_sp : forall d ty x, In x (sp_of U d ty) <-> stG first_node V T d ty x /\ ~ In x X;
  ux_de : forall d ty x, In x (de_of U d ty) <-> stG last_node V T d ty x /\ ~ In x X }.

Lemma stG_fun sel V T d1 ty1 d2 ty2 x : stG sel V T d1 ty1 x -> stG sel V T d2 ty2 x -> d1 = d2 /\ ty1 = ty2.
Proof. intros (t1 & A1 & B1 & C1) (t2 & A2 & B2 & C2). split; congruence. Qed.

Lemma stGX_fun sel V T X : functional (fun d ty x => stG sel V T d ty x /\ ~ In x X).
Proof. intros d1 ty1 d2 ty2 x [H1 _] [H2 _]. eapply stG_fun; eauto. Qed.

Definition same_but (v : vehicle_id) (V V' : list (vehicle_id * Z)) (T T' : list (vehicle_id * tour)) : Prop :=
  forall k, k <> v -> vget k V' = vget k V /\ vget k T' = vget k T.

Lemma stG_other sel V T V' T' v d ty x : same_but v V V' T T' -> x <> v ->
  (stG sel V T d ty x <-> stG sel V' T' d ty x).
Proof.
  intros SB N. destruct (SB x N) as [Q1 Q2]. unfold stG. rewrite Q1, Q2. tauto.
Qed.

Lemma stG_upd sel V T V' T' v ty nt : same_but v V V' T T' ->
  match nt with Some t => vget v V' = Some ty /\ vget v T' = Some t | None => vget v V' = None \/ vget v T' = None end ->
  forall d' ty' x,
  ((stG sel V T d' ty' x /\ ~ In x []) /\ x <> v) \/
  (x = v /\ option_map (get_depot_idx nw) (option_map sel nt) = Some d' /\ ty' = ty)
  <-> stG sel V' T' d' ty' x /\ ~ In x [].
Proof.
  intros SB HB d' ty' x. destruct (vid_eq_dec x v) as [->|N].
  - split.
    + intros [[_ I]|(_ & I2 & ->)]; [congruence|]. split; [|intros []].
      destruct nt as [t|]; cbn [option_map] in I2; inversion I2; subst. destruct HB. exists t. auto.
    + intros [(t & G1 & G2 & G3) _]. right. split; auto. destruct nt as [t0|].
      * destruct HB as [Q1 Q2]. rewrite Q1 in G1. rewrite Q2 in G2. inversion G1; inversion G2; subst.
        cbn [option_map]. auto.
      * destruct HB; congruence.
  - rewrite <- (stG_other sel V T V' T' v) by auto. split.
    + intros [[I _]|(I & _)]; [auto | contradiction].
    + intros I. left. auto.
Qed.

Lemma udu_ok s U V T V' T' v U' :
  UX V T [] U ->
  (vget v (s_vehicles s) = None -> vget v V = None \/ vget v T = None) ->
  same_but v V V' T T' ->
  update_depot_usage nw s U V' T' v = Ok U' -> UX V' T' [] U'.
Proof.
  intros [K N S D] NV SB H. unfold update_depot_usage in H.
  assert (NV' : is_vehicle s v = false -> forall d ty,
            ~ (stG first_node V T d ty v /\ ~ In v []) /\ ~ (stG last_node V T d ty v /\ ~ In v [])).
  { unfold is_vehicle. destruct (vget v (s_vehicles s)); [discriminate|]. intros _ d ty.
    destruct NV as [Q|Q]; auto; split; intros [(t & G1 & G2 & _) _]; congruence. }
  assert (M : forall ty nt, update_depot_usage_nd nw s U v ty nt = Ok U' ->
    match nt with Some t => vget v V' = Some ty /\ vget v T' = Some t | None => vget v V' = None \/ vget v T' = None end ->
    UX V' T' [] U').
  { intros ty nt R HB.
    apply (udu_nd_eff nw s U v ty nt U' _ _ (stGX_fun first_node V T []) (stGX_fun last_node V T []) S D NV') in R.
    destruct R as (S' & D' & N' & K'). constructor; auto.
    - intros d ty'. destruct (N d ty'), (N' d ty'). auto.
    - intros d ty' x. rewrite S'. apply stG_upd; auto.
    - intros d ty' x. rewrite D'. apply stG_upd; auto. }
  destruct (vget v V') as [ty|] eqn:GV.
  - apply (M ty (vget v T')).
    + destruct (update_depot_usage_nd nw s U v ty (vget v T')); try discriminate; auto.
    + destruct (vget v T'); auto.
  - destruct (vget v (s_vehicles s)) as [ty|] eqn:G0.
    + apply (M ty None); auto.
      destruct (update_depot_usage_nd nw s U v ty None); try discriminate; auto.
    + inversion H; subst U'. constructor; auto.
      * intros d ty x. rewrite S. destruct (vid_eq_dec x v) as [->|Nx].
        -- split; intros [(t & G1 & G2 & _) _]; [|congruence]. destruct NV as [Q|Q]; auto; congruence.
        -- rewrite (stG_other first_node V T V' T' v) by auto. tauto.
      * intros d ty x. rewrite D. destruct (vid_eq_dec x v) as [->|Nx].
        -- split; intros [(t & G1 & G2 & _) _]; [|congruence]. destruct NV as [Q|Q]; auto; congruence.
        -- rewrite (stG_other last_node V T V' T' v) by auto. tauto.
Qed.
End UXS.

(** * the operations *)
Section Ops.
Variable nw : network.

Definition US (s : schedule) : Prop := UX nw (s_vehicles s) (s_tours s) [] (s_usage s).

Ltac sb := let k := fresh "k" in let Nk := fresh "Nk" in
  intros k Nk; apply vid_eqb_neq in Nk; rewrite ?vget_vset, ?vget_vdel, ?Nk; auto.
Ltac get_udu tac :=
  match goal with H : update_depot_usage _ _ _ _ _ _ = Ok _ |- _ => tac H end.
Ltac usfields := unfold US; cbn [with_fields s_vehicles s_tours s_usage].

Lemma spawn_us s ty path s' v : US s -> spawn_vehicle_for_path nw s ty path = Ok (s', v) -> US s'.
Proof.
  intros I H. unfold spawn_vehicle_for_path in H.
  destruct (negb _) in H; [discriminate|].
  mon H. mon H. mon H. monp H. mon H. monp H. inversion H; subst; clear H.
  usfields. get_udu ltac:(fun Q => eapply udu_ok; [exact I | | | exact Q]); [auto | sb].
Qed.

Lemma delete_dummy_us s d s' : US s -> delete_dummy s d = Ok s' -> US s'.
Proof.
  intros I H. unfold delete_dummy in H. destruct (negb _) in H; [discriminate|].
  mon H. inversion H; subst; clear H. exact I.
Qed.

Lemma spawn_dummy_us s d ty s' v : US s -> spawn_to_replace_dummy nw s d ty = Ok (s', v) -> US s'.
Proof.
  intros I H. unfold spawn_to_replace_dummy in H. mon H. mon H.
  eapply spawn_us; [|eauto]. eapply delete_dummy_us; eauto.
Qed.

Ltac trip H :=
  match type of H with
  | (match ?m with pair _ _ => _ end) = _ => destruct m as [[? ?] ?]
  end.

Lemma replace_us s v s' : US s -> replace_vehicle_by_dummy nw s v = Ok s' -> US s'.
Proof.
  intros I H. unfold replace_vehicle_by_dummy in H.
  destruct (negb _) in H; [discriminate|].
  mon H. mon H. mon H. monp H. mon H. mon H. mon H.
  trip H. monp H. inversion H; subst; clear H.
  usfields. get_udu ltac:(fun Q => eapply udu_ok; [exact I | | | exact Q]); [auto | sb].
Qed.

Lemma add_path_us s v path s' c : US s -> add_path_to_vehicle_tour nw s v path = Ok (s', c) -> US s'.
Proof.
  intros I H. unfold add_path_to_vehicle_tour in H.
  destruct path as [|pf path']; [discriminate|].
  match type of H with (if ?b then _ else _) = _ => destruct b; [discriminate|] end.
  mon H. mon H. monp H. mon H. monp H. monp H. mon H. mon H. monp H. inversion H; subst; clear H.
  usfields. get_udu ltac:(fun Q => eapply udu_ok; [exact I | | | exact Q]); [auto | sb].
Qed.

Lemma utc_same s tours dummies costs v nt t' d' c' :
  update_tour_and_costs s tours dummies costs v nt = Ok (t', d', c') ->
  forall k, k <> v -> vget k t' = vget k tours.
Proof.
  intros H. unfold update_tour_and_costs in H. destruct (is_dummy s v).
  - inversion H; subst. auto.
  - mon H. mon H. inversion H; subst. sb.
Qed.

Lemma remove_segment_us s seg v s' : US s -> remove_segment nw s seg v = Ok s' -> US s'.
Proof.
  intros I H. unfold remove_segment in H.
  destruct (negb _) in H; [discriminate|].
  mon H. monp H. destruct o as [nt|]; [|eapply replace_us; eauto].
  monp H. monp H. mon H. trip H. monp H. inversion H; subst; clear H.
  usfields. get_udu ltac:(fun Q => eapply udu_ok; [exact I | | | exact Q]); [auto|].
  intros k Nk. split; auto. eapply utc_same; eauto.
Qed.

Lemma update_tours_us s forms dids uns p ntp r ntr moved
    vehicles1 tours2 forms2 usage2 dummies2 ids1 dids1 uns2 costs2 :
  US s ->
  update_tours nw s (s_vehicles s) (s_tours s) forms (s_usage s) (s_dummies s) (s_ids s) dids uns (s_costs s) p ntp r ntr moved
    = Ok (vehicles1, tours2, forms2, usage2, dummies2, ids1, dids1, uns2, costs2) ->
  UX nw vehicles1 tours2 [] usage2.
Proof.
  intros I H. apply update_tours_peel in H. unfold update_tours_prefix in H.
  monp H.
  match goal with E : _ = Ok (?a, ?b, ?c, ?d, ?e, ?f) |- _ =>
    assert (Q : same_but p (s_vehicles s) a (s_tours s) b /\
                (forall k, vget k (s_vehicles s) = None -> vget k a = None));
    [ | clear E ]
  end.
  { destruct ntp as [nt|].
    - monp E. inversion E; subst; clear E. split; auto.
      intros k Nk. split; auto. eapply utc_same; eauto.
    - mon E. destruct (is_dummy s p).
      + mon E. inversion E; subst. split; auto. sb.
      + destruct (is_vehicle s p).
        * mon E. mon E. inversion E; subst. split; [sb|].
          intros k G. rewrite vget_vdel, G. destruct (vid_eqb k p); auto.
        * inversion E; subst. split; auto. sb. }
  destruct Q as [Q1 Q2].
  mon H. monp H. mon H. monp H. inversion H; subst; clear H.
  match goal with
  | E1 : update_depot_usage _ _ (s_usage s) _ _ p = Ok ?a,
    E2 : update_depot_usage _ _ ?a _ _ r = Ok _ |- _ =>
      eapply udu_ok in E1; [ | exact I | auto | exact Q1 ];
      eapply udu_ok; [exact E1 | | | exact E2]
  end.
  - intros G. left. auto.
  - intros k Nk. split; auto. eapply utc_same; eauto.
Qed.

Lemma fit_us s seg p r s' : US s -> fit_reassign nw s seg p r = Ok s' -> US s'.
Proof.
  intros I H. unfold fit_reassign in H.
  mon H. destruct (negb _) in H; [discriminate|].
  mon H. mon H. mon H. monp H. monp H. monp H. inversion H; subst; clear H.
  usfields. eapply update_tours_us; eauto.
Qed.

Lemma override_us s seg p r s' d : US s -> override_reassign nw s seg p r = Ok (s', d) -> US s'.
Proof.
  intros I H. unfold override_reassign in H. destruct (vid_eqb p r) in H; [discriminate|].
  mon H. destruct (negb _) in H; [discriminate|].
  mon H. mon H. monp H. monp H. monp H. monp H. monp H. inversion H; subst; clear H.
  usfields. eapply update_tours_us; eauto.
Qed.

Lemma recompute_us s ts s' : US s -> recompute_transitions_for nw s ts = Ok s' -> US s'.
Proof.
  intros I H. unfold recompute_transitions_for in H. monp H. inversion H; subst; clear H. exact I.
Qed.
End Ops.

(** * folds over vehicle listings *)
Section GFold.
Variable P : list vehicle_id -> list (vehicle_id * tour) -> usage_t -> Prop.
Variable f : res (list (vehicle_id * tour) * usage_t * Z) -> vehicle_id -> res (list (vehicle_id * tour) * usage_t * Z).
Hypothesis f_strict : forall r v x, f r v = Ok x -> exists y, r = Ok y.
Hypothesis f_step : forall v l T u c T' u' c', P (v :: l) T u -> f (Ok (T, u, c)) v = Ok (T', u', c') -> P l T' u'.

Lemma gfold_strict l r x : fold_left f l r = Ok x -> exists y, r = Ok y.
Proof.
  revert r. induction l as [|v l IH]; cbn [fold_left]; intros r H; [eauto|].
  apply IH in H. destruct H as [y H]. eapply f_strict; eauto.
Qed.

Lemma gfold l : forall T u c T' u' c', P l T u -> fold_left f l (Ok (T, u, c)) = Ok (T', u', c') -> P [] T' u'.
Proof.
  induction l as [|v l IH]; intros T u c T' u' c' HP H; cbn [fold_left] in H.
  - inversion H; subst. auto.
  - destruct (gfold_strict _ _ _ H) as [[[T1 u1] c1] Hy]. rewrite Hy in H.
    eapply IH; [|exact H]. eapply f_step; eauto.
Qed.
End GFold.

Section Folds.
Variable nw : network.

Ltac strict_tac :=
  let r := fresh "r" in let v := fresh "v" in let x := fresh "x" in let H := fresh "H" in
  intros r v x H; destruct r; cbn [bind] in H; try discriminate H; eauto.
Ltac sb := let k := fresh "k" in let Nk := fresh "Nk" in
  intros k Nk; apply vid_eqb_neq in Nk; rewrite ?vget_vset, ?vget_vdel, ?Nk; auto.

Lemma greedy_us s s' : US nw s -> reassign_end_depots_greedily nw s = Ok s' -> US nw s'.
Proof.
  intros I H. unfold reassign_end_depots_greedily in H.
  monp H. monp H. inversion H; subst; clear H.
  unfold US; cbn [with_fields s_vehicles s_tours s_usage].
  eapply (gfold (fun _ T u => UX nw (s_vehicles s) T [] u)) in E; eauto.
  - strict_tac.
  - intros v lr T u c T' u' c' HP H. cbn [bind] in H.
    mon H. mon H. mon H. mon H. mon H. mon H. inversion H; subst; clear H.
    eapply udu_ok; [exact HP | | | eauto]; [auto | sb].
Qed.

Lemma consistent_us s s' : US nw s -> reassign_end_depots_consistent nw s = Ok s' -> US nw s'.
Proof.
  intros I H. unfold reassign_end_depots_consistent in H.
  monp H. monp H. inversion H; subst; clear H.
  unfold US; cbn [with_fields s_vehicles s_tours s_usage].
  eapply (gfold (fun _ T u => UX nw (s_vehicles s) T [] u)) in E; eauto.
  - strict_tac.
  - intros v lr T u c T' u' c' HP H. cbn [bind] in H.
    mon H. mon H. mon H. mon H. mon H. mon H. mon H. mon H. mon H. inversion H; subst; clear H.
    eapply udu_ok; [exact HP | | | eauto]; [auto | sb].
Qed.

(** ** improve_depots *)
Lemma UX_ext V T X X' U : (forall x, In x X <-> In x X') -> UX nw V T X U -> UX nw V T X' U.
Proof.
  intros Q [K N S D]. constructor; auto.
  - intros d ty x. rewrite S, Q. tauto.
  - intros d ty x. rewrite D, Q. tauto.
Qed.

Lemma step1_as_rm s u v u' : imp_step1 nw s (Ok u) v = Ok u' ->
  exists d1 d2 ty u1, usage_remove_spawn u d1 ty v = Ok u1 /\ usage_remove_despawn u1 d2 ty v = Ok u'.
Proof.
  intros H. unfold imp_step1 in H. cbn [bind] in H.
  destruct (vehicle_type_of s v) as [ty| | |]; cbn [bind] in H; try discriminate H.
  destruct (tour_of s v) as [t| | |]; cbn [bind] in H; try discriminate H.
  destruct (start_depot nw t) as [sd| | |]; cbn [bind] in H; try discriminate H.
  destruct (end_depot nw t) as [ed| | |]; cbn [bind] in H; try discriminate H.
  destruct (uget (get_depot_idx nw sd, ty) u) as [[sp de]|] eqn:G1; cbn [bind] in H; try discriminate H.
  destruct (memv v sp) eqn:M1; cbn [bind] in H; try discriminate H.
  destruct (uget (get_depot_idx nw ed, ty) (uset (get_depot_idx nw sd, ty) (set_del v sp, de) u))
    as [[sp2 de2]|] eqn:G2; try discriminate H.
  destruct (memv v de2) eqn:M2; try discriminate H. inversion H; subst; clear H.
  exists (get_depot_idx nw sd), (get_depot_idx nw ed), ty, (uset (get_depot_idx nw sd, ty) (set_del v sp, de) u).
  split.
  - unfold usage_remove_spawn. rewrite G1, M1. reflexivity.
  - unfold usage_remove_despawn. rewrite G2, M2. reflexivity.
Qed.

Lemma step1_ux s V T X u v u' : UX nw V T X u -> imp_step1 nw s (Ok u) v = Ok u' -> UX nw V T (v :: X) u'.
Proof.
  intros [K N S D] H. apply step1_as_rm in H. destruct H as (d1 & d2 & ty & u1 & R1 & R2).
  apply rm_spawn_eff in R1. destruct R1 as [I1 [S1 D1 N1 K1]].
  apply rm_despawn_eff in R2. destruct R2 as [I2 [S2 D2 N2 K2]].
  apply D1 in I2. unfold f_id in I2. apply S in I1. apply D in I2.
  constructor; auto.
  - intros d ty'. destruct (N d ty'), (N1 d ty'), (N2 d ty'). auto.
  - intros d ty' x. rewrite S2; unfold f_id. rewrite S1; unfold f_rm. rewrite S. cbn [In]. split.
    + intros [[G1 G2] G3]. split; auto. intros [<-|G4]; auto. apply G3. split; auto.
      destruct I1 as [I1 _]. eapply stG_fun; eauto.
    + intros [G1 G2]. split; [split; auto|]. intros [-> _]. auto.
  - intros d ty' x. rewrite D2; unfold f_rm. rewrite D1; unfold f_id. rewrite D. cbn [In]. split.
    + intros [[G1 G2] G3]. split; auto. intros [<-|G4]; auto. apply G3. split; auto.
      destruct I2 as [I2 _]. eapply stG_fun; eauto.
    + intros [G1 G2]. split; [split; auto|]. intros [-> _]. auto.
Qed.

Lemma fold1_ux s V T l : forall X u u', UX nw V T X u -> fold_left (imp_step1 nw s) l (Ok u) = Ok u' ->
  UX nw V T (rev l ++ X) u'.
Proof.
  induction l as [|v l IH]; intros X u u' HX H; cbn [fold_left] in H.
  - inversion H; subst. exact HX.
  - destruct (fold1_strict _ _ _ _ _ H) as [u1 H1]. rewrite H1 in H.
    cbn [rev]. rewrite <- app_assoc. cbn [app]. eapply IH; [|exact H]. eapply step1_ux; eauto.
Qed.

Lemma stG_add sel V T v ty nt l d ty' x : vget v V = Some ty -> ~ In v l ->
  ((stG nw sel V T d ty' x /\ ~ In x (v :: l)) \/ (x = v /\ d = get_depot_idx nw (sel nt) /\ ty' = ty))
  <-> (stG nw sel V (vset v nt T) d ty' x /\ ~ In x l).
Proof.
  intros GV NI. destruct (vid_eq_dec x v) as [->|N].
  - split.
    + intros [[_ G]|(_ & -> & ->)]; [exfalso; apply G; now left|]. split; auto.
      exists nt. rewrite vget_vset, vid_eqb_refl. auto.
    + intros [(t & G1 & G2 & G3) _]. right. rewrite vget_vset, vid_eqb_refl in G2. inversion G2; subst.
      split; auto. split; auto. congruence.
  - assert (SB : same_but v V V T (vset v nt T)).
    { intros k Nk. apply vid_eqb_neq in Nk. rewrite vget_vset, Nk. auto. }
    rewrite <- (stG_other nw sel V T V (vset v nt T) v) by auto. cbn [In]. split.
    + intros [[G1 G2]|(G & _)]; [|contradiction]. split; auto.
    + intros [G1 G2]. left. split; auto. intros [G|G]; [congruence | auto].
Qed.

Lemma improve_us s vs s' : US nw s -> improve_depots nw s vs = Ok s' -> US nw s'.
Proof.
  intros I H. unfold improve_depots in H. cbv zeta in H.
  mon H. monp H. monp H. inversion H; subst; clear H.
  change (fold_left (imp_step1 nw s) match vs with Some l => l | None => vehicles_iter_all nw s end (Ok (s_usage s)) = Ok a) in E.
  pose proof (fold1_nodup _ _ _ _ _ E) as ND.
  eapply fold1_ux in E; [|exact I]. rewrite app_nil_r in E.
  eapply UX_ext in E; [|intros x; symmetry; apply in_rev].
  unfold US; cbn [with_fields s_vehicles s_tours s_usage].
  eapply (gfold (fun l T u => NoDup l /\ UX nw (s_vehicles s) T l u)) in E0.
  - destruct E0 as [_ Q]. exact Q.
  - strict_tac.
  - intros v lr T u c T' u' c' [NDl HP] H. cbn [bind] in H.
    mon H. mon H. mon H. mon H. inversion H; subst; clear H.
    inversion NDl; subst. split; auto.
    assert (GV : vget v (s_vehicles s) = Some a1).
    { unfold vehicle_type_of in E3. destruct (vget v (s_vehicles s)); cbn in E3; inversion E3; auto. }
    destruct HP as [K N S D].
    pose proof (add_spawn_eff u (get_depot_idx nw (first_node a2)) a1 v) as [S1 D1 N1 K1].
    pose proof (add_despawn_eff (usage_add_spawn u (get_depot_idx nw (first_node a2)) a1 v)
                  (get_depot_idx nw (last_node a2)) a1 v) as [S2 D2 N2 K2].
    constructor; auto.
    + intros d ty'. destruct (N d ty'), (N1 d ty'), (N2 d ty'). auto.
    + intros d ty' x. rewrite S2; unfold f_id. rewrite S1; unfold f_add. rewrite S. apply stG_add; auto.
    + intros d ty' x. rewrite D2; unfold f_add. rewrite D1; unfold f_id. rewrite D. apply stG_add; auto.
  - split; auto.
Qed.
End Folds.

(** * main theorem *)
Section Main.
Variable nw : network.

Lemma step_us s s' : US nw s -> step nw s s' -> US nw s'.
Proof.
  intros I St. destruct St.
  - eapply spawn_us; eauto.
  - eapply spawn_dummy_us; eauto.
  - eapply replace_us; eauto.
  - eapply add_path_us; eauto.
  - eapply remove_segment_us; eauto.
  - eapply fit_us; eauto.
  - eapply override_us; eauto.
  - eapply improve_us; eauto.
  - eapply greedy_us; eauto.
  - eapply recompute_us; eauto.
  - eapply consistent_us; eauto.
Qed.

Lemma empty_us s : empty_schedule nw = Ok s -> US nw s.
Proof.
  intros H. unfold empty_schedule in H. mon H. inversion H; subst; clear H.
  unfold US; cbn [s_vehicles s_tours s_usage]. constructor.
  - constructor.
  - intros d ty. split; constructor.
  - intros d ty x. split; [intros [] | intros [(t & G & _) _]; discriminate G].
  - intros d ty x. split; [intros [] | intros [(t & G & _) _]; discriminate G].
Qed.

Lemma reachable_us s : reachable nw s -> US nw s.
Proof.
  induction 1.
  - now apply empty_us.
  - eapply step_us; eauto.
Qed.

Lemma US_usage s : US nw s -> UsageOK nw s.
Proof.
  intros [K N S D]. constructor.
  - exact K.
  - exact N.
  - intros d ty v. change (fst (usage_at s d ty)) with (sp_of (s_usage s) d ty). rewrite S.
    unfold starts_at, stG. cbn [In]. tauto.
  - intros d ty v. change (snd (usage_at s d ty)) with (de_of (s_usage s) d ty). rewrite D.
    unfold ends_at, stG. cbn [In]. tauto.
Qed.
End Main.

Theorem reachable_usage : forall nw, stmt_reachable_usage nw.
Proof. intros nw s R. apply US_usage. now apply reachable_us. Qed.

Print Assumptions reachable_usage.
