(* SchedViolFacts.v — every reachable schedule has an exact cached maintenance violation (ViolOK):
   s_viol is the sum of tr_viol over s_trans, whose keys are duplicate-free. *)
From RS Require Import Base BaseFacts Network Tour Transition Schedule SchedInv.
From Coq Require Import FinFun.

(** * result-monad plumbing: a predicate that holds of every successful result *)
Definition PR {A} (P : A -> Prop) (r : res A) : Prop :=
  match r with Ok a => P a | _ => True end.

Lemma PR_bind {A B} (P : B -> Prop) (x : res A) (f : A -> res B) :
  (forall a, x = Ok a -> PR P (f a)) -> PR P (bind x f).
Proof. destruct x; cbn; auto. Qed.

Lemma PR_ok {A} (P : A -> Prop) r a : PR P r -> r = Ok a -> P a.
Proof. intros H ->; exact H. Qed.

Lemma PR_fold {A X} (P : A -> Prop) (f : res A -> X -> res A) :
  (forall acc x, PR P acc -> PR P (f acc x)) ->
  forall l acc, PR P acc -> PR P (fold_left f l acc).
Proof. intros Hf l; induction l as [|x l IH]; cbn; intros acc H; auto. Qed.

(** * the sum of violations over a transitions map *)
Definition vsum (tr : list (Z * transition)) : Z := z_sum (map (fun '(_, t) => tr_viol t) tr).

Lemma vsum_cons k t tr : vsum ((k, t) :: tr) = tr_viol t + vsum tr.
Proof. unfold vsum; cbn [map]. apply z_sum_cons. Qed.

Lemma vsum_app a b : vsum (a ++ b) = vsum a + vsum b.
Proof. unfold vsum; rewrite map_app; apply z_sum_app. Qed.

Definition zrepl {A} (k : Z) (x : A) (l : list (Z * A)) : list (Z * A) :=
  map (fun '(k', y) => if k' =? k then (k', x) else (k', y)) l.

Lemma zrepl_keys {A} k (x : A) l : map fst (zrepl k x l) = map fst l.
Proof.
  unfold zrepl; induction l as [|[k' y] l IH]; cbn [map fst]; auto.
  rewrite IH. destruct (k' =? k); reflexivity.
Qed.

Lemma zrepl_notin {A} k (x : A) l : ~ In k (map fst l) -> zrepl k x l = l.
Proof.
  unfold zrepl; induction l as [|[k' y] l IH]; cbn [map fst In]; intros H; auto.
  rewrite IH by tauto.
  destruct (Z.eqb_spec k' k); [subst; tauto | reflexivity].
Qed.

Lemma zget_existsb {A} k (l : list (Z * A)) old :
  zget k l = Some old -> existsb (fun '(k', _) => k' =? k) l = true.
Proof.
  unfold zget; induction l as [|[k' y] l IH]; cbn [assoc existsb]; try discriminate.
  rewrite (Z.eqb_sym k' k). destruct (k =? k'); cbn [orb]; auto.
Qed.

Lemma zset_repl {A} k (x : A) l old : zget k l = Some old -> zset k x l = zrepl k x l.
Proof. intros H; unfold zset. rewrite (zget_existsb _ _ _ H). reflexivity. Qed.

Lemma zrepl_sum k x l old :
  zget k l = Some old -> NoDup (map fst l) -> vsum (zrepl k x l) = vsum l + tr_viol x - tr_viol old.
Proof.
  unfold zget; induction l as [|[k' y] l IH]; cbn [assoc map fst]; try discriminate.
  intros H ND; inversion ND as [|? ? Hn ND']; subst.
  change (zrepl k x ((k', y) :: l)) with ((if k' =? k then (k', x) else (k', y)) :: zrepl k x l).
  rewrite (Z.eqb_sym k' k).
  destruct (Z.eqb_spec k k').
  - subst k'. inversion H; subst. rewrite zrepl_notin by assumption. rewrite !vsum_cons. lia.
  - rewrite !vsum_cons. rewrite IH by assumption. lia.
Qed.

(** * the invariant on the pair (transitions, cached violation) *)
Definition VI (p : list (Z * transition) * Z) : Prop :=
  NoDup (map fst (fst p)) /\ snd p = vsum (fst p).

Lemma VI_step tr vi ty old new_t :
  zget ty tr = Some old -> VI (tr, vi) -> VI (zset ty new_t tr, vi + tr_viol new_t - tr_viol old).
Proof.
  intros Hg [ND Hs]; cbn [fst snd] in *. unfold VI; cbn [fst snd].
  rewrite (zset_repl _ _ _ _ Hg). split.
  - rewrite zrepl_keys; exact ND.
  - rewrite (zrepl_sum _ _ _ _ Hg ND). lia.
Qed.

Lemma unwrap_opt_ok {A} (o : option A) a : unwrap_opt o = Ok a -> o = Some a.
Proof. destruct o; cbn; intros H; inversion H; auto. Qed.

Lemma update_transitions_PR nw s tr vi ch veh tours :
  VI (tr, vi) -> PR VI (update_transitions nw s tr vi ch veh tours).
Proof.
  intros H0. unfold update_transitions.
  apply PR_bind. intros [[tr' vi'] upd'] Hf. cbn [PR].
  set (P3 := fun a : list (Z * transition) * Z * list (vehicle_id * tour) => VI (fst (fst a), snd (fst a))).
  change (P3 (tr', vi', upd')).
  eapply PR_ok; [|exact Hf].
  apply PR_fold; [|exact H0].
  clear. intros acc v Hacc.
  destruct acc as [[[tr vi] upd]| | |]; cbn [bind]; try exact I.
  destruct (negb (vid_is_real v)); [exact Hacc|].
  apply PR_bind; intros ty _.
  apply PR_bind; intros old Hold. apply unwrap_opt_ok in Hold.
  apply PR_bind; intros [new_t upd2] _.
  cbn [PR]. unfold P3; cbn [fst snd].
  apply VI_step; [exact Hold | exact Hacc].
Qed.

Lemma recompute_transitions_PR nw tr vi ids tours types :
  VI (tr, vi) -> PR VI (recompute_transitions nw tr vi ids tours types).
Proof.
  intros H0. unfold recompute_transitions.
  apply PR_fold; [|exact H0].
  clear. intros acc ty Hacc.
  destruct acc as [[tr vi]| | |]; cbn [bind]; try exact I.
  apply PR_bind; intros vs _.
  apply PR_bind; intros nt _.
  apply PR_bind; intros old Hold. apply unwrap_opt_ok in Hold.
  cbn [PR]. apply VI_step; [exact Hold | exact Hacc].
Qed.

Lemma update_transitions_ok nw s tr vi ch veh tours tr' vi' :
  VI (tr, vi) -> update_transitions nw s tr vi ch veh tours = Ok (tr', vi') -> VI (tr', vi').
Proof. intros H E. eapply PR_ok; [apply update_transitions_PR; exact H | exact E]. Qed.

Lemma recompute_transitions_ok nw tr vi ids tours types tr' vi' :
  VI (tr, vi) -> recompute_transitions nw tr vi ids tours types = Ok (tr', vi') -> VI (tr', vi').
Proof. intros H E. eapply PR_ok; [apply recompute_transitions_PR; exact H | exact E]. Qed.

Lemma ViolOK_VI s : ViolOK s <-> VI (s_trans s, s_viol s).
Proof. reflexivity. Qed.

(** * the eleven operations *)
Ltac crunch :=
  repeat match goal with
  | |- PR _ (bind _ _) => apply PR_bind; intros
  | |- PR _ Err => exact I
  | |- PR _ Panic => exact I
  | |- PR _ OutOfFuel => exact I
  | |- PR _ (if ?b then _ else _) => destruct b
  | |- PR _ (match ?x with _ => _ end) => destruct x
  end.

Ltac fin H0 :=
  cbn [PR fst]; unfold with_fields, ViolOK; cbn [s_trans s_viol];
  first [ eapply update_transitions_ok; [exact H0 | eassumption]
        | eapply recompute_transitions_ok; [exact H0 | eassumption] ].

Definition P1 (s : schedule) : Prop := ViolOK s.
Definition P2 {B} (p : schedule * B) : Prop := ViolOK (fst p).

Lemma spawn_ok nw s ty path : ViolOK s -> PR P2 (spawn_vehicle_for_path nw s ty path).
Proof.
  intros H0. unfold spawn_vehicle_for_path, P2. crunch. fin H0.
Qed.

Lemma delete_dummy_same s d s1 : delete_dummy s d = Ok s1 -> s_trans s1 = s_trans s /\ s_viol s1 = s_viol s.
Proof.
  unfold delete_dummy. destruct (negb (is_dummy s d)); try discriminate.
  destruct (sorted_remove d (s_dummy_ids s)); cbn [bind]; try discriminate.
  intros H; inversion H; subst; cbn; auto.
Qed.

Lemma spawn_dummy_ok nw s d ty : ViolOK s -> PR P2 (spawn_to_replace_dummy nw s d ty).
Proof.
  intros H0. unfold spawn_to_replace_dummy.
  apply PR_bind; intros nodes _. apply PR_bind; intros s1 H1.
  apply spawn_ok. apply delete_dummy_same in H1. destruct H1 as [E1 E2].
  unfold ViolOK. rewrite E1, E2. exact H0.
Qed.

Lemma replace_ok nw s v : ViolOK s -> PR P1 (replace_vehicle_by_dummy nw s v).
Proof.
  intros H0. unfold replace_vehicle_by_dummy, P1, add_dummy_tour. crunch; fin H0.
Qed.

Lemma add_path_ok nw s v path : ViolOK s -> PR P2 (add_path_to_vehicle_tour nw s v path).
Proof.
  intros H0. unfold add_path_to_vehicle_tour, P2. crunch; fin H0.
Qed.

Lemma remove_segment_ok nw s seg v : ViolOK s -> PR P1 (remove_segment nw s seg v).
Proof.
  intros H0. unfold remove_segment. crunch; try (apply replace_ok; exact H0).
  all: unfold P1, add_dummy_tour; crunch; fin H0.
Qed.

Lemma fit_ok nw s seg p r : ViolOK s -> PR P1 (fit_reassign nw s seg p r).
Proof.
  intros H0. unfold fit_reassign, P1. crunch; fin H0.
Qed.

Lemma override_ok nw s seg p r : ViolOK s -> PR P2 (override_reassign nw s seg p r).
Proof.
  intros H0. unfold override_reassign, P2. crunch; fin H0.
Qed.

Lemma improve_ok nw s vs : ViolOK s -> PR P1 (improve_depots nw s vs).
Proof.
  intros H0. unfold improve_depots, P1. destruct vs; crunch; fin H0.
Qed.

Lemma greedy_ok nw s : ViolOK s -> PR P1 (reassign_end_depots_greedily nw s).
Proof.
  intros H0. unfold reassign_end_depots_greedily, P1. crunch; fin H0.
Qed.

Lemma recompute_for_ok nw s ts : ViolOK s -> PR P1 (recompute_transitions_for nw s ts).
Proof.
  intros H0. unfold recompute_transitions_for, P1. crunch; fin H0.
Qed.

Lemma consistent_ok nw s : ViolOK s -> PR P1 (reassign_end_depots_consistent nw s).
Proof.
  intros H0. unfold reassign_end_depots_consistent, P1. crunch; fin H0.
Qed.

(** * the empty schedule *)
Lemma new_fast_nil nw : exists t, new_fast nw [] no_tours = Ok t /\ tr_viol t = 0.
Proof. eexists; split; reflexivity. Qed.

Lemma type_ids_NoDup nw : NoDup (type_ids nw).
Proof.
  unfold type_ids. apply Injective_map_NoDup; [|apply seq_NoDup].
  intros a b H; apply Nat2Z.inj; exact H.
Qed.

Lemma empty_fold nw t0 : new_fast nw [] no_tours = Ok t0 ->
  forall l acc,
  fold_left (fun acc ty => do l <- acc; do t <- new_fast nw [] no_tours; Ok (l ++ [(ty, t)])) l (Ok acc)
  = Ok (acc ++ map (fun ty : Z => (ty, t0)) l).
Proof.
  intros E l; induction l as [|ty l IH]; intros acc; cbn [fold_left map].
  - now rewrite app_nil_r.
  - replace (do l0 <- Ok acc; do t <- new_fast nw [] no_tours; Ok (l0 ++ [(ty, t)]))
      with (Ok (acc ++ [(ty, t0)])) by (rewrite E; reflexivity).
    rewrite IH. rewrite <- app_assoc. reflexivity.
Qed.

Lemma empty_ok nw s : empty_schedule nw = Ok s -> ViolOK s.
Proof.
  destruct (new_fast_nil nw) as [t0 [E Ev]].
  unfold empty_schedule. rewrite (empty_fold nw t0 E). cbn [bind app].
  intros H; inversion H; subst; clear H. unfold ViolOK; cbn [s_trans s_viol]. split.
  - rewrite map_map; cbn [fst]. rewrite map_id. apply type_ids_NoDup.
  - induction (type_ids nw) as [|ty l IH]; [reflexivity|].
    cbn [map]. rewrite z_sum_cons, <- IH. lia.
Qed.

(** * the theorem *)
Lemma step_ok nw s s' : ViolOK s -> step nw s s' -> ViolOK s'.
Proof.
  intros H0 St; destruct St as
    [s ty path s' v E | s d ty s' v E | s v s' E | s v path s' c E | s seg v s' E | s seg p r s' E
    | s seg p r s' d E | s vs s' E | s s' E | s ts s' E | s s' E].
  - exact (PR_ok _ _ _ (spawn_ok nw s ty path H0) E).
  - exact (PR_ok _ _ _ (spawn_dummy_ok nw s d ty H0) E).
  - exact (PR_ok _ _ _ (replace_ok nw s v H0) E).
  - exact (PR_ok _ _ _ (add_path_ok nw s v path H0) E).
  - exact (PR_ok _ _ _ (remove_segment_ok nw s seg v H0) E).
  - exact (PR_ok _ _ _ (fit_ok nw s seg p r H0) E).
  - exact (PR_ok _ _ _ (override_ok nw s seg p r H0) E).
  - exact (PR_ok _ _ _ (improve_ok nw s vs H0) E).
  - exact (PR_ok _ _ _ (greedy_ok nw s H0) E).
  - exact (PR_ok _ _ _ (recompute_for_ok nw s ts H0) E).
  - exact (PR_ok _ _ _ (consistent_ok nw s H0) E).
Qed.

Theorem reachable_viol : forall nw, stmt_reachable_viol nw.
Proof.
  intros nw s R. induction R as [s E | s s' R IH St].
  - apply (empty_ok nw); exact E.
  - apply (step_ok nw s s'); assumption.
Qed.

Print Assumptions reachable_viol.
