(* Schedule.v — executable model of solution/src/schedule.rs (state, empty, getters) and
   solution/src/schedule/modifications.rs (every public modification and its private helpers), built from the
   same helpers in the same order. Definitions only.
   HashMaps are association lists (at most one entry per key), HashSets duplicate-free lists. *)
From RS Require Export Base Network Tour Transition.

Record schedule := {
  s_vehicles : list (vehicle_id * Z);                     (* real vehicles and their type *)
  s_tours : list (vehicle_id * tour);
  s_trans : list (Z * transition);                        (* next_period_transitions *)
  s_forms : list (node_id * list (vehicle_id * Z));       (* train formations: vehicle and its type, front first *)
  s_usage : list ((Z * Z) * (list vehicle_id * list vehicle_id));  (* (depot, type) -> spawned, despawned *)
  s_dummies : list (vehicle_id * tour);
  s_counter : Z;
  s_ids : list (Z * list vehicle_id);                     (* vehicle_ids_grouped_and_sorted *)
  s_dummy_ids : list vehicle_id;
  s_unserved : Z * Z;
  s_viol : Z;
  s_costs : Z }.

Section Sched.
Variable nw : network.
Let P := nw_params nw.

(** ** small map helpers *)
Definition vget {A} (v : vehicle_id) (l : list (vehicle_id * A)) : option A := assoc vid_eqb v l.
Definition vset {A} (v : vehicle_id) (x : A) (l : list (vehicle_id * A)) : list (vehicle_id * A) :=
  if existsb (fun '(k, _) => vid_eqb k v) l
  then map (fun '(k, y) => if vid_eqb k v then (k, x) else (k, y)) l
  else l ++ [(v, x)].
Definition vdel {A} (v : vehicle_id) (l : list (vehicle_id * A)) : list (vehicle_id * A) :=
  filter (fun '(k, _) => negb (vid_eqb k v)) l.
Definition zget {A} (k : Z) (l : list (Z * A)) : option A := assoc Z.eqb k l.
Definition zset {A} (k : Z) (x : A) (l : list (Z * A)) : list (Z * A) :=
  if existsb (fun '(k', _) => k' =? k) l
  then map (fun '(k', y) => if k' =? k then (k', x) else (k', y)) l
  else l ++ [(k, x)].
Definition nget {A} (n : node_id) (l : list (node_id * A)) : option A := assoc nid_eqb n l.
Definition nset {A} (n : node_id) (x : A) (l : list (node_id * A)) : list (node_id * A) :=
  if existsb (fun '(k, _) => nid_eqb k n) l
  then map (fun '(k, y) => if nid_eqb k n then (k, x) else (k, y)) l
  else l ++ [(n, x)].
Definition pair_eqb (a b : Z * Z) : bool := (fst a =? fst b) && (snd a =? snd b).
Definition uget (k : Z * Z) (u : list ((Z * Z) * (list vehicle_id * list vehicle_id))) := assoc pair_eqb k u.
Definition uset (k : Z * Z) (x : list vehicle_id * list vehicle_id) (u : list ((Z * Z) * (list vehicle_id * list vehicle_id))) :=
  if existsb (fun '(k', _) => pair_eqb k' k) u
  then map (fun '(k', y) => if pair_eqb k' k then (k', x) else (k', y)) u
  else u ++ [(k, x)].
Definition memv (v : vehicle_id) (l : list vehicle_id) : bool := existsb (vid_eqb v) l.
Definition set_add (v : vehicle_id) (l : list vehicle_id) : list vehicle_id := if memv v l then l else l ++ [v].
Definition set_del (v : vehicle_id) (l : list vehicle_id) : list vehicle_id := filter (fun x => negb (vid_eqb x v)) l.

(* sorted insertion / removal in the id listings (binary_search) *)
Fixpoint sorted_insert (v : vehicle_id) (l : list vehicle_id) : list vehicle_id :=
  match l with
  | [] => [v]
  | x :: r => match vid_cmp v x with Gt => x :: sorted_insert v r | _ => v :: l end
  end.
Definition sorted_remove (v : vehicle_id) (l : list vehicle_id) : res (list vehicle_id) :=
  if memv v l then Ok (set_del v l) else Panic.   (* binary_search(..).unwrap() *)

(** ** basic getters of Schedule *)
Variable s : schedule.

Definition is_vehicle (v : vehicle_id) : bool := match vget v (s_vehicles s) with Some _ => true | None => false end.
Definition is_dummy (v : vehicle_id) : bool := match vget v (s_dummies s) with Some _ => true | None => false end.
Definition vehicle_type_of (v : vehicle_id) : res Z := ok_or_err (vget v (s_vehicles s)).
Definition tour_of (v : vehicle_id) : res tour :=
  match vget v (s_tours s) with Some t => Ok t | None => ok_or_err (vget v (s_dummies s)) end.
Definition vehicles_iter (ty : Z) : list vehicle_id := match zget ty (s_ids s) with Some l => l | None => [] end.
Definition vehicles_iter_all : list vehicle_id := flat_map vehicles_iter (type_ids nw).

Definition type_cap (ty : Z) : Z := match vtype_of nw ty with Some vt => vt_cap vt | None => 0 end.
Definition type_seats (ty : Z) : Z := match vtype_of nw ty with Some vt => vt_seats vt | None => 0 end.
Definition unserved_at_node (n : node_id) (f : list (vehicle_id * Z)) : Z * Z :=
  (Z.max 0 (passengers_of nw n - z_sum (map (fun '(_, ty) => type_cap ty) f)),
   Z.max 0 (seated_of nw n - z_sum (map (fun '(_, ty) => type_seats ty) f))).

Definition spawned_same_type (usage : list ((Z * Z) * (list vehicle_id * list vehicle_id))) (d ty : Z) : Z :=
  match uget (d, ty) usage with Some (sp, _) => Z.of_nat (length sp) | None => 0 end.
Definition spawned_total (usage : list ((Z * Z) * (list vehicle_id * list vehicle_id))) (d : Z) : Z :=
  z_sum (map (fun ty => spawned_same_type usage d ty) (type_ids nw)).
Definition can_depot_spawn (usage : list ((Z * Z) * (list vehicle_id * list vehicle_id))) (sd : node_id) (ty : Z) : bool :=
  let d := get_depot_idx nw sd in
  let cap := capacity_of nw d ty in
  if cap =? 0 then false
  else if cap <=? spawned_same_type usage d ty then false
  else if total_capacity_of nw d <=? spawned_total usage d then false
  else true.

(** ** private helpers of modifications.rs *)
(* find_best_start_depot_for_spawning returns a Result since the repair "fix: a spawn without any free depot is
   refused instead of panicking"; improve_depots_of_tour still expects a depot (panic), add_suitable_depots passes
   the error on *)
Definition find_best_start_depot_res (usage : list ((Z * Z) * (list vehicle_id * list vehicle_id))) (ty : Z) (first : node_id)
  : res node_id :=
  ok_or_err (find (fun d => can_depot_spawn usage d ty)
                  (start_depots_sorted_by_distance_to nw (n_start_loc (nd nw first)))).
Definition find_best_start_depot (usage : list ((Z * Z) * (list vehicle_id * list vehicle_id))) (ty : Z) (first : node_id)
  : res node_id :=
  unwrap_opt (find (fun d => can_depot_spawn usage d ty)
                   (start_depots_sorted_by_distance_to nw (n_start_loc (nd nw first)))).
Definition find_best_end_depot (last_ : node_id) : res node_id :=
  ok_or_err (hd_error (end_depots_sorted_by_distance_from nw (n_end_loc (nd nw last_)))).

Definition add_suitable_depots (ty : Z) (nodes : list node_id) : res (list node_id) :=
  match nodes with
  | [] => Panic
  | first :: _ =>
      let last_ := last nodes first in
      let '(_, os, oe) := nw_overflow nw in
      if is_depot (nd nw first) && negb (can_depot_spawn (s_usage s) first ty) then
        let n1 := os :: tl nodes in
        Ok (if is_depot (nd nw last_) then removelast n1 ++ [oe] else n1 ++ [oe])
      else
        do n1 <- (if is_depot (nd nw first) then Ok nodes
                  else do d <- find_best_start_depot_res (s_usage s) ty first; Ok (d :: nodes));
        if is_depot (nd nw last_) then Ok n1
        else do e <- find_best_end_depot last_; Ok (n1 ++ [e])
  end.

(* vehicle_replacement_in_train_formation; [recv] carries the receiver's type *)
Definition replacement_in_formation (f : list (vehicle_id * Z)) (provider : option vehicle_id)
  (recv : option (vehicle_id * Z)) (n : node_id) : res (list (vehicle_id * Z)) :=
  let provider_real := match provider with Some p => negb (is_dummy p) | None => false end in
  match recv with
  | Some (r, rty) =>
      if negb (is_dummy r) then
        if provider_real then
          match provider with
          | Some p =>
              match index_of (fun '(x, _) => vid_eqb x p) f with
              | Some k => Ok (firstn k f ++ [(r, rty)] ++ skipn (k + 1) f)     (* push; swap_remove *)
              | None => Err
              end
          | None => Panic
          end
        else
          if is_maint (nd nw n) && (track_count nw n <=? Z.of_nat (length f)) then Err
          else if is_service (nd nw n) &&
                  match maximal_formation_count_for nw n with Some l => l <=? Z.of_nat (length f) | None => false end
          then Err
          else Ok (f ++ [(r, rty)])
      else
        if provider_real then
          match provider with
          | Some p => match index_of (fun '(x, _) => vid_eqb x p) f with
                      | Some k => Ok (firstn k f ++ skipn (k + 1) f) | None => Err end
          | None => Panic
          end
        else Ok f
  | None =>
      if provider_real then
        match provider with
        | Some p => match index_of (fun '(x, _) => vid_eqb x p) f with
                    | Some k => Ok (firstn k f ++ skipn (k + 1) f) | None => Err end
        | None => Panic
        end
      else Ok f
  end.

Definition update_train_formation (forms : list (node_id * list (vehicle_id * Z))) (uns : Z * Z)
  (provider : option vehicle_id) (recv : option (vehicle_id * Z)) (moved : list node_id)
  : res (list (node_id * list (vehicle_id * Z)) * (Z * Z)) :=
  fold_left (fun acc n =>
    do (fm, (ua, ub)) <- acc;
    if is_depot (nd nw n) then Ok (fm, (ua, ub))
    else
      do f <- unwrap_opt (nget n fm);
      let before := if is_service (nd nw n) then unserved_at_node n f else (0, 0) in
      do f' <- replacement_in_formation f provider recv n;
      let after := if is_service (nd nw n) then unserved_at_node n f' else (0, 0) in
      Ok (nset n f' fm, (ua - fst before + fst after, ub - snd before + snd after)))
    moved (Ok (forms, uns)).

Definition usage_remove_spawn usage (d ty : Z) (v : vehicle_id) :=
  let '(sp, de) := match uget (d, ty) usage with Some x => x | None => ([], []) end in
  if memv v sp then Ok (uset (d, ty) (set_del v sp, de) usage) else Panic.
Definition usage_remove_despawn usage (d ty : Z) (v : vehicle_id) :=
  let '(sp, de) := match uget (d, ty) usage with Some x => x | None => ([], []) end in
  if memv v de then Ok (uset (d, ty) (sp, set_del v de) usage) else Panic.
Definition usage_add_spawn usage (d ty : Z) (v : vehicle_id) :=
  let '(sp, de) := match uget (d, ty) usage with Some x => x | None => ([], []) end in
  uset (d, ty) (set_add v sp, de) usage.
Definition usage_add_despawn usage (d ty : Z) (v : vehicle_id) :=
  let '(sp, de) := match uget (d, ty) usage with Some x => x | None => ([], []) end in
  uset (d, ty) (sp, set_add v de) usage.

(* update_depot_usage_assuming_no_dummies *)
Definition update_depot_usage_nd usage (v : vehicle_id) (ty : Z) (new_tour : option tour) :=
  do sd <- (match new_tour with Some t => do x <- start_depot nw t; Ok (Some x) | None => Ok None end);
  do ed <- (match new_tour with Some t => do x <- end_depot nw t; Ok (Some x) | None => Ok None end);
  do u1 <- (if is_vehicle v then
              do t <- tour_of v; do od <- (match start_depot nw t with Ok x => Ok x | _ => Panic end);
              usage_remove_spawn usage (get_depot_idx nw od) ty v
            else Ok usage);
  let u2 := match sd with Some x => usage_add_spawn u1 (get_depot_idx nw x) ty v | None => u1 end in
  do u3 <- (if is_vehicle v then
              do t <- tour_of v; do od <- (match end_depot nw t with Ok x => Ok x | _ => Panic end);
              usage_remove_despawn u2 (get_depot_idx nw od) ty v
            else Ok u2);
  Ok (match ed with Some x => usage_add_despawn u3 (get_depot_idx nw x) ty v | None => u3 end).
(* start_depot()/end_depot() of the new tour are unwrapped: an Err there is a panic *)
Definition update_depot_usage usage (vehicles : list (vehicle_id * Z)) (tours : list (vehicle_id * tour)) (v : vehicle_id) :=
  match vget v vehicles with
  | Some ty => match update_depot_usage_nd usage v ty (vget v tours) with Err => Panic | r => r end
  | None =>
      match vget v (s_vehicles s) with
      | Some ty => match update_depot_usage_nd usage v ty None with Err => Panic | r => r end
      | None => Ok usage
      end
  end.

Definition info_of (t : tour) : vinfo := {| vi_mc := maintenance_counter nw t; vi_sd := first_node t; vi_ed := last_node t |}.
Definition tfn (tours : list (vehicle_id * tour)) : tours_fn :=
  fun v => match vget v tours with Some t => Some (info_of t) | None => None end.
Definition tfn_layer (upd : list (vehicle_id * tour)) : tours_fn := tfn upd.

Definition update_transitions (trans : list (Z * transition)) (viol : Z) (changed : list vehicle_id)
  (vehicles : list (vehicle_id * Z)) (tours : list (vehicle_id * tour)) : res (list (Z * transition) * Z) :=
  do (tr, vi, _) <-
    fold_left (fun acc v =>
      do (tr, vi, upd) <- acc;
      if negb (vid_is_real v) then Ok (tr, vi, upd)
      else
        do ty <- unwrap_opt (match vget v vehicles with Some t => Some t | None => vget v (s_vehicles s) end);
        do old_t <- unwrap_opt (zget ty tr);
        let was := is_vehicle v in
        let isnow := match vget v vehicles with Some _ => true | None => false end in
        do (new_t, upd') <-
          (match was, isnow with
           | true, true =>
               do nt <- unwrap_opt (vget v tours);
               do t' <- update_vehicle nw old_t v (info_of nt) (tfn upd) (tfn (s_tours s));
               Ok (t', vset v nt upd)
           | false, true =>
               do nt <- unwrap_opt (vget v tours);
               do t' <- add_vehicle_to_own_cycle nw old_t v (info_of nt);
               Ok (t', vset v nt upd)
           | true, false =>
               do t' <- remove_vehicle nw old_t v (tfn upd) (tfn (s_tours s));
               Ok (t', upd)
           | false, false => Panic
           end);
        Ok (zset ty new_t tr, (vi + tr_viol new_t) - tr_viol old_t, upd'))
      changed (Ok (trans, viol, []));
  Ok (tr, vi).

Definition recompute_transitions (trans : list (Z * transition)) (viol : Z) (ids : list (Z * list vehicle_id))
  (tours : list (vehicle_id * tour)) (types : list Z) : res (list (Z * transition) * Z) :=
  fold_left (fun acc ty =>
    do (tr, vi) <- acc;
    do vs <- unwrap_opt (zget ty ids);
    do nt <- new_fast nw vs (tfn tours);
    do old_t <- unwrap_opt (zget ty tr);
    Ok (zset ty nt tr, vi + tr_viol nt - tr_viol old_t))
    types (Ok (trans, viol)).

Definition add_dummy_tour (dummies : list (vehicle_id * tour)) (dids : list vehicle_id) (d : vehicle_id) (t : tour) :=
  (vset d t dummies, sorted_insert d dids).

Definition with_fields (veh : list (vehicle_id * Z)) tours trans forms usage dummies counter ids dids uns viol costs : schedule :=
  {| s_vehicles := veh; s_tours := tours; s_trans := trans; s_forms := forms; s_usage := usage; s_dummies := dummies;
     s_counter := counter; s_ids := ids; s_dummy_ids := dids; s_unserved := uns; s_viol := viol; s_costs := costs |}.

Definition ids_insert (ty : Z) (v : vehicle_id) (ids : list (Z * list vehicle_id)) : res (list (Z * list vehicle_id)) :=
  do l <- unwrap_opt (zget ty ids); Ok (zset ty (sorted_insert v l) ids).
Definition ids_remove (ty : Z) (v : vehicle_id) (ids : list (Z * list vehicle_id)) : res (list (Z * list vehicle_id)) :=
  do l <- unwrap_opt (zget ty ids); do l' <- sorted_remove v l; Ok (zset ty l' ids).

(** ** public modifications *)
Definition spawn_vehicle_for_path (ty : Z) (path : list node_id) : res (schedule * vehicle_id) :=
  if negb (forallb (fun n => compatible_with_vehicle_type nw n ty) path) then Err else
  do nodes <- add_suitable_depots ty path;
  let v := Veh (s_counter s) in
  do t <- tour_new nw nodes;
  let vehicles := vset v ty (s_vehicles s) in
  do ids <- ids_insert ty v (s_ids s);
  do (forms, uns) <- update_train_formation (s_forms s) (s_unserved s) None (Some (v, ty)) (t_nodes t);
  let costs := s_costs s + t_costs t in
  let tours := vset v t (s_tours s) in
  do usage <- update_depot_usage (s_usage s) vehicles tours v;
  do (trans, viol) <- update_transitions (s_trans s) (s_viol s) [v] vehicles tours;
  Ok (with_fields vehicles tours trans forms usage (s_dummies s) (s_counter s + 1) ids (s_dummy_ids s) uns viol costs, v).

Definition delete_dummy (d : vehicle_id) : res schedule :=
  if negb (is_dummy d) then Err else
  do dids <- sorted_remove d (s_dummy_ids s);
  Ok (with_fields (s_vehicles s) (s_tours s) (s_trans s) (s_forms s) (s_usage s) (vdel d (s_dummies s)) (s_counter s)
                  (s_ids s) dids (s_unserved s) (s_viol s) (s_costs s)).

Definition replace_vehicle_by_dummy (v : vehicle_id) : res schedule :=
  if negb (is_vehicle v) then Err else
  do ty <- vehicle_type_of v;
  let vehicles := vdel v (s_vehicles s) in
  do ids <- ids_remove ty v (s_ids s);
  do t <- unwrap_opt (vget v (s_tours s));
  do (forms, uns) <- update_train_formation (s_forms s) (s_unserved s) (Some v) None (t_nodes t);
  let tours := vdel v (s_tours s) in
  do usage <- update_depot_usage (s_usage s) vehicles tours v;
  do costs <- z_sub_cost (s_costs s) (t_costs t);
  do sp <- sub_path nw t (first_node t, last_node t);
  let '(dummies, dids, counter) :=
    match tour_new_dummy nw sp with
    | Ok dt => let '(a, b) := add_dummy_tour (s_dummies s) (s_dummy_ids s) (Dummy (s_counter s)) dt in (a, b, s_counter s + 1)
    | _ => (s_dummies s, s_dummy_ids s, s_counter s)
    end in
  do (trans, viol) <- update_transitions (s_trans s) (s_viol s) [v] vehicles tours;
  Ok (with_fields vehicles tours trans forms usage dummies counter ids dids uns viol costs).

Definition add_path_to_vehicle_tour (v : vehicle_id) (path : list node_id) : res (schedule * option (list node_id)) :=
  match path with
  | [] => Panic
  | pf :: _ =>
  if match vehicle_type_of v with
     | Ok ty => negb (forallb (fun n => compatible_with_vehicle_type nw n ty) path) | _ => false end then Err else
  do _ <- (if is_depot (nd nw pf) then
             do t <- (match tour_of v with Ok t => Ok t | _ => Panic end);
             do old_sd <- (match start_depot nw t with Ok x => Ok x | _ => Panic end);
             do ty <- (match vehicle_type_of v with Ok ty => Ok ty | _ => Panic end);
             if negb (nid_eqb pf old_sd) && negb (can_depot_spawn (s_usage s) pf ty) then Err else Ok tt
           else Ok tt);
  do ty <- unwrap_opt (vget v (s_vehicles s));
  do (forms1, uns1) <- update_train_formation (s_forms s) (s_unserved s) None (Some (v, ty)) path;
  do t <- unwrap_opt (vget v (s_tours s));
  do (new_tour, removed) <- insert_path nw t path;
  do (forms, uns) <- (match removed with
                       | Some rp => update_train_formation forms1 uns1 (Some v) None rp
                       | None => Ok (forms1, uns1) end);
  do costs <- z_sub_cost (s_costs s + t_costs new_tour) (t_costs t);
  let tours := vset v new_tour (s_tours s) in
  do usage <- update_depot_usage (s_usage s) (s_vehicles s) tours v;
  do (trans, viol) <- update_transitions (s_trans s) (s_viol s) [v] (s_vehicles s) tours;
  Ok (with_fields (s_vehicles s) tours trans forms usage (s_dummies s) (s_counter s) (s_ids s) (s_dummy_ids s) uns viol costs,
      removed)
  end.

Definition update_tour_and_costs (tours dummies : list (vehicle_id * tour)) (costs : Z) (v : vehicle_id) (nt : tour)
  : res (list (vehicle_id * tour) * list (vehicle_id * tour) * Z) :=
  if is_dummy v then Ok (tours, vset v nt dummies, costs)
  else do old <- unwrap_opt (vget v tours);
       do c <- z_sub_cost (costs + t_costs nt) (t_costs old);
       Ok (vset v nt tours, dummies, c).

Definition remove_segment (seg : node_id * node_id) (v : vehicle_id) : res schedule :=
  if negb (is_vehicle v) then Err else
  do t <- (match tour_of v with Ok t => Ok t | _ => Panic end);
  do (shr, removed) <- Tour.remove nw t seg;
  match shr with
  | None => replace_vehicle_by_dummy v
  | Some nt =>
      do (forms, uns) <- update_train_formation (s_forms s) (s_unserved s) (Some v) None removed;
      do (tours, dummies0, costs) <- update_tour_and_costs (s_tours s) (s_dummies s) (s_costs s) v nt;
      do usage <- update_depot_usage (s_usage s) (s_vehicles s) tours v;
      let '(dummies, dids, counter) :=
        match tour_new_dummy nw removed with
        | Ok dt => let '(a, b) := add_dummy_tour dummies0 (s_dummy_ids s) (Dummy (s_counter s)) dt in (a, b, s_counter s + 1)
        | _ => (dummies0, s_dummy_ids s, s_counter s)
        end in
      do (trans, viol) <- update_transitions (s_trans s) (s_viol s) [v] (s_vehicles s) tours;
      Ok (with_fields (s_vehicles s) tours trans forms usage dummies counter (s_ids s) dids uns viol costs)
  end.

Definition check_receiver_type_compatibility (p r : vehicle_id) (seg : node_id * node_id) : res bool :=
  match vehicle_type_of r with
  | Ok tr =>
      let mismatch := match vehicle_type_of p with Ok tp => negb (tp =? tr) | _ => true end in
      if mismatch then
        do t <- (match tour_of p with Ok t => Ok t | _ => Panic end);
        do sp <- (match sub_path nw t seg with Ok x => Ok x | _ => Panic end);
        Ok (forallb (fun n => compatible_with_vehicle_type nw n tr) sp)
      else Ok true
  | _ => Ok true
  end.

(* update_tours before the repair "fix: a start depot handed to the receiver must have room for it" (kept for the
   proofs: an Ok result of update_tours is an Ok result of this function, SchedPeel.v) *)
Definition update_tours_prefix (vehicles : list (vehicle_id * Z)) tours forms usage dummies ids dids (uns : Z * Z) (costs : Z)
  (p : vehicle_id) (ntp : option tour) (r : vehicle_id) (ntr : tour) (moved : list node_id) :=
  do (vehicles1, tours1, dummies1, ids1, dids1, costs1) <-
    (match ntp with
     | Some nt =>
         do (t2, d2, c2) <- update_tour_and_costs tours dummies costs p nt;
         Ok (vehicles, t2, d2, ids, dids, c2)
     | None =>
         do c2 <- (if is_vehicle p then
                     do t <- (match tour_of p with Ok t => Ok t | _ => Panic end); z_sub_cost costs (t_costs t)
                   else Ok costs);
         if is_dummy p then
           do dd <- sorted_remove p dids;
           Ok (vehicles, tours, vdel p dummies, ids, dd, c2)
         else if is_vehicle p then
           do ty <- (match vehicle_type_of p with Ok ty => Ok ty | _ => Panic end);
           do ids' <- ids_remove ty p ids;
           Ok (vdel p vehicles, vdel p tours, dummies, ids', dids, c2)
         else Ok (vehicles, tours, dummies, ids, dids, c2)
     end);
  do usage1 <- update_depot_usage usage vehicles1 tours1 p;
  do (tours2, dummies2, costs2) <- update_tour_and_costs tours1 dummies1 costs1 r ntr;
  do usage2 <- update_depot_usage usage1 vehicles1 tours2 r;
  let recv := match vget r (s_vehicles s) with Some ty => Some (r, ty) | None => None end in
  do (forms2, uns2) <- update_train_formation forms uns (Some p) recv moved;
  Ok (vehicles1, tours2, forms2, usage2, dummies2, ids1, dids1, uns2, costs2).


(* update_tours *)
Definition update_tours (vehicles : list (vehicle_id * Z)) tours forms usage dummies ids dids (uns : Z * Z) (costs : Z)
  (p : vehicle_id) (ntp : option tour) (r : vehicle_id) (ntr : tour) (moved : list node_id) :=
  do (vehicles1, tours1, dummies1, ids1, dids1, costs1) <-
    (match ntp with
     | Some nt =>
         do (t2, d2, c2) <- update_tour_and_costs tours dummies costs p nt;
         Ok (vehicles, t2, d2, ids, dids, c2)
     | None =>
         do c2 <- (if is_vehicle p then
                     do t <- (match tour_of p with Ok t => Ok t | _ => Panic end); z_sub_cost costs (t_costs t)
                   else Ok costs);
         if is_dummy p then
           do dd <- sorted_remove p dids;
           Ok (vehicles, tours, vdel p dummies, ids, dd, c2)
         else if is_vehicle p then
           do ty <- (match vehicle_type_of p with Ok ty => Ok ty | _ => Panic end);
           do ids' <- ids_remove ty p ids;
           Ok (vdel p vehicles, vdel p tours, dummies, ids', dids, c2)
         else Ok (vehicles, tours, dummies, ids, dids, c2)
     end);
  do usage1 <- update_depot_usage usage vehicles1 tours1 p;
  do (tours2, dummies2, costs2) <- update_tour_and_costs tours1 dummies1 costs1 r ntr;
  do usage2 <- update_depot_usage usage1 vehicles1 tours2 r;
  (* since the repair "fix: a start depot handed to the receiver must have room for it": a segment starting at the
     provider's start depot moves that depot to the receiver; refused if the depot is then over its capacity *)
  do _ <- (match vget r (s_vehicles s) with
           | Some rty =>
               do nt <- unwrap_opt (vget r tours2);
               do nsd <- (match start_depot nw nt with Ok x => Ok x | _ => Panic end);
               do ot <- unwrap_opt (vget r (s_tours s));
               do osd <- (match start_depot nw ot with Ok x => Ok x | _ => Panic end);
               if negb (nid_eqb nsd osd) then
                 let d := get_depot_idx nw nsd in
                 if (capacity_of nw d rty <? spawned_same_type usage2 d rty) ||
                    (total_capacity_of nw d <? spawned_total usage2 d)
                 then Err else Ok tt
               else Ok tt
           | None => Ok tt
           end);
  let recv := match vget r (s_vehicles s) with Some ty => Some (r, ty) | None => None end in
  do (forms2, uns2) <- update_train_formation forms uns (Some p) recv moved;
  Ok (vehicles1, tours2, forms2, usage2, dummies2, ids1, dids1, uns2, costs2).

Definition override_reassign (seg : node_id * node_id) (p r : vehicle_id) : res (schedule * option vehicle_id) :=
  if vid_eqb p r then Err else   (* since the repair "fix: override_reassign refuses provider == receiver" *)
  do ok <- check_receiver_type_compatibility p r seg;
  if negb ok then Err else
  do tp <- (match tour_of p with Ok t => Ok t | _ => Panic end);
  do trc <- (match tour_of r with Ok t => Ok t | _ => Panic end);
  do (shr, path) <- Tour.remove nw tp seg;
  do (ntr, replaced) <- insert_path nw trc path;
  do (vehicles, tours, forms1, usage, dummies1, ids, dids1, uns1, costs) <-
     update_tours (s_vehicles s) (s_tours s) (s_forms s) (s_usage s) (s_dummies s) (s_ids s) (s_dummy_ids s)
                  (s_unserved s) (s_costs s) p shr r ntr path;
  do (forms, uns, dummies, dids, counter, newd) <-
     (match replaced with
      | Some np =>
          do (f2, u2) <- (if is_vehicle r then update_train_formation forms1 uns1 (Some r) None np else Ok (forms1, uns1));
          match tour_new_dummy nw np with
          | Ok dt =>
              let d := Dummy (s_counter s) in
              let '(a, b) := add_dummy_tour dummies1 dids1 d dt in
              Ok (f2, u2, a, b, s_counter s + 1, Some d)
          | _ => Ok (f2, u2, dummies1, dids1, s_counter s, None)
          end
      | None => Ok (forms1, uns1, dummies1, dids1, s_counter s, None)
      end);
  do (trans, viol) <- update_transitions (s_trans s) (s_viol s) [p; r] vehicles tours;
  Ok (with_fields vehicles tours trans forms usage dummies counter ids dids uns viol costs, newd).

(* fit_path_into_tour on fuel: (new provider tour option, new receiver tour, moved nodes) *)
Fixpoint fit_loop (fuel : nat) (ntp : option tour) (ntr : tour) (remaining : option (list node_id)) (moved : list node_id)
  : res (option tour * tour * list node_id) :=
  match remaining with
  | None => Ok (ntp, ntr, moved)
  | Some path =>
      match fuel with
      | O => OutOfFuel
      | S f =>
          match path with
          | [] => Panic
          | sstart :: _ =>
              do prov <- unwrap_opt ntp;
              do lnr <- latest_not_reaching_node nw ntr sstart;
              do (end_pos, send) <-
                (match lnr with
                 | None => Ok ((length path - 1)%nat, last path sstart)
                 | Some pos =>
                     let blocker := nth_node ntr pos in
                     (* map_while end_time(n) <= start_time(blocker); filter can_reach and removable; last *)
                     let fix take (l : list node_id) (i : nat) : list (nat * node_id) :=
                       match l with
                       | [] => []
                       | n :: rest => if dt_ltb (start_time nw blocker) (end_time nw n) then []
                                      else (i, n) :: take rest (S i)
                       end in
                     let cands := filter (fun '(_, n) =>
                                     can_reach nw n blocker &&
                                     match check_removable nw prov (sstart, n) with Ok _ => true | _ => false end)
                                   (take path O) in
                     Ok (last cands (O, sstart))
                 end);
              let seq_nodes := firstn (end_pos + 1) path in
              let rest := path_new_trusted nw (skipn (end_pos + 1) path) in
              match Tour.remove nw prov (sstart, send) with
              | Ok (cand_prov, pfi) =>
                  do cf <- conflict nw ntr (sstart, send);
                  match cf with
                  | Some _ => fit_loop f ntp ntr rest moved
                  | None =>
                      do (nr, _) <- insert_path nw ntr pfi;
                      fit_loop f cand_prov nr rest (moved ++ seq_nodes)
                  end
              | Err => fit_loop f ntp ntr rest moved
              | Panic => Panic
              | OutOfFuel => OutOfFuel
              end
          end
      end
  end.

Definition fit_reassign (seg : node_id * node_id) (p r : vehicle_id) : res schedule :=
  do ok <- check_receiver_type_compatibility p r seg;
  if negb ok then Err else
  do tp <- (match tour_of p with Ok t => Ok t | _ => Panic end);
  do trc <- (match tour_of r with Ok t => Ok t | _ => Panic end);
  do path <- sub_path nw tp seg;
  do (ntp, ntr, moved) <- fit_loop (S (length path)) (Some tp) trc (Some path) [];
  do (vehicles, tours, forms, usage, dummies, ids, dids, uns, costs) <-
     update_tours (s_vehicles s) (s_tours s) (s_forms s) (s_usage s) (s_dummies s) (s_ids s) (s_dummy_ids s)
                  (s_unserved s) (s_costs s) p ntp r ntr moved;
  do (trans, viol) <- update_transitions (s_trans s) (s_viol s) [p; r] vehicles tours;
  Ok (with_fields vehicles tours trans forms usage dummies (s_counter s) ids dids uns viol costs).

Definition improve_depots_of_tour usage (t : tour) (ty : Z) : res tour :=
  do fnd <- unwrap_opt (first_non_depot t);
  do nsd <- find_best_start_depot usage ty fnd;
  do osd <- (match start_depot nw t with Ok x => Ok x | _ => Panic end);
  do t1 <- (if negb (nid_eqb nsd osd) then (match replace_start_depot nw t nsd with Ok x => Ok x | _ => Panic end) else Ok t);
  do lnd <- unwrap_opt (last_non_depot nw t1);
  do ned <- (match find_best_end_depot lnd with Ok x => Ok x | _ => Panic end);
  do oed <- (match end_depot nw t1 with Ok x => Ok x | _ => Panic end);
  if negb (nid_eqb ned oed) then (match replace_end_depot nw t1 ned with Ok x => Ok x | _ => Panic end) else Ok t1.

Definition improve_depots (vs : option (list vehicle_id)) : res schedule :=
  let all := match vs with None => true | Some _ => false end in
  let ids := match vs with Some l => l | None => vehicles_iter_all end in
  do usage0 <- fold_left (fun acc v =>
       do u <- acc;
       do ty <- (match vehicle_type_of v with Ok ty => Ok ty | _ => Panic end);
       do t <- (match tour_of v with Ok t => Ok t | _ => Panic end);
       do sd <- (match start_depot nw t with Ok x => Ok x | _ => Panic end);
       do ed <- (match end_depot nw t with Ok x => Ok x | _ => Panic end);
       do u1 <- (match uget (get_depot_idx nw sd, ty) u with
                 | Some (sp, de) => if memv v sp then Ok (uset (get_depot_idx nw sd, ty) (set_del v sp, de) u) else Panic
                 | None => Panic end);
       (match uget (get_depot_idx nw ed, ty) u1 with
        | Some (sp, de) => if memv v de then Ok (uset (get_depot_idx nw ed, ty) (sp, set_del v de) u1) else Panic
        | None => Panic end)) ids (Ok (s_usage s));
  do (tours, usage, costs) <- fold_left (fun acc v =>
       do (tours, u, costs) <- acc;
       do t <- (match tour_of v with Ok t => Ok t | _ => Panic end);
       do ty <- (match vehicle_type_of v with Ok ty => Ok ty | _ => Panic end);
       do nt <- improve_depots_of_tour u t ty;
       do c <- z_sub_cost (costs + t_costs nt) (t_costs t);
       let u1 := usage_add_spawn u (get_depot_idx nw (first_node nt)) ty v in
       let u2 := usage_add_despawn u1 (get_depot_idx nw (last_node nt)) ty v in
       Ok (vset v nt tours, u2, c)) ids (Ok (s_tours s, usage0, s_costs s));
  do (trans, viol) <- (if all then recompute_transitions (s_trans s) (s_viol s) (s_ids s) tours (type_ids nw)
                        else update_transitions (s_trans s) (s_viol s) ids (s_vehicles s) tours);
  Ok (with_fields (s_vehicles s) tours trans (s_forms s) usage (s_dummies s) (s_counter s) (s_ids s) (s_dummy_ids s)
                  (s_unserved s) viol costs).

Definition reassign_end_depots_greedily : res schedule :=
  do (tours, usage, costs) <- fold_left (fun acc v =>
       do (tours, u, costs) <- acc;
       do t <- (match tour_of v with Ok t => Ok t | _ => Panic end);
       do lnd <- unwrap_opt (last_non_depot nw t);
       do ned <- find_best_end_depot lnd;
       do nt <- (match replace_end_depot nw t ned with Ok x => Ok x | _ => Panic end);
       do c <- z_sub_cost (costs + t_costs nt) (t_costs t);
       let tours' := vset v nt tours in
       do u' <- update_depot_usage u (s_vehicles s) tours' v;
       Ok (tours', u', c)) vehicles_iter_all (Ok (s_tours s, s_usage s, s_costs s));
  do (trans, viol) <- recompute_transitions (s_trans s) (s_viol s) (s_ids s) tours (type_ids nw);
  Ok (with_fields (s_vehicles s) tours trans (s_forms s) usage (s_dummies s) (s_counter s) (s_ids s) (s_dummy_ids s)
                  (s_unserved s) viol costs).

Definition recompute_transitions_for (types : option (list Z)) : res schedule :=
  do (trans, viol) <- recompute_transitions (s_trans s) (s_viol s) (s_ids s) (s_tours s)
                         (match types with Some l => l | None => type_ids nw end);
  Ok (with_fields (s_vehicles s) (s_tours s) trans (s_forms s) (s_usage s) (s_dummies s) (s_counter s) (s_ids s)
                  (s_dummy_ids s) (s_unserved s) viol (s_costs s)).

Definition reassign_end_depots_consistent : res schedule :=
  do (tours, usage, costs) <- fold_left (fun acc v =>
       do (tours, u, costs) <- acc;
       do t <- (match tour_of v with Ok t => Ok t | _ => Panic end);
       do ty <- (match vehicle_type_of v with Ok ty => Ok ty | _ => Panic end);
       do tr <- unwrap_opt (zget ty (s_trans s));
       do nx <- get_successor_of tr v;
       do tn <- (match tour_of nx with Ok t => Ok t | _ => Panic end);
       do sdn <- (match start_depot nw tn with Ok x => Ok x | _ => Panic end);
       let ned := get_end_depot_node nw (get_depot_idx nw sdn) in
       do nt <- (match replace_end_depot nw t ned with Ok x => Ok x | _ => Panic end);
       do c <- z_sub_cost (costs + t_costs nt) (t_costs t);
       let tours' := vset v nt tours in
       do u' <- update_depot_usage u (s_vehicles s) tours' v;
       Ok (tours', u', c)) vehicles_iter_all (Ok (s_tours s, s_usage s, s_costs s));
  do (trans, viol) <- update_transitions (s_trans s) (s_viol s) vehicles_iter_all (s_vehicles s) tours;
  Ok (with_fields (s_vehicles s) tours trans (s_forms s) usage (s_dummies s) (s_counter s) (s_ids s) (s_dummy_ids s)
                  (s_unserved s) viol costs).

Definition set_next_day_transitions (trans : list (Z * transition)) : schedule :=
  with_fields (s_vehicles s) (s_tours s) trans (s_forms s) (s_usage s) (s_dummies s) (s_counter s) (s_ids s)
              (s_dummy_ids s) (s_unserved s) (z_sum (map (fun '(_, t) => tr_viol t) trans)) (s_costs s).

Definition spawn_vehicle_to_replace_dummy_tour (d : vehicle_id) (ty : Z) : res (list node_id) :=
  (* returns the nodes to spawn for; the caller composes delete_dummy and spawn (two states) *)
  match vget d (s_dummies s) with
  | None => Err
  | Some t => if negb (forallb (fun n => compatible_with_vehicle_type nw n ty) (t_nodes t)) then Err else Ok (t_nodes t)
  end.
End Sched.

(* Schedule::empty *)
Definition empty_schedule (nw : network) : res schedule :=
  let forms := map (fun n => (n, [])) (coverable_nodes nw) in
  let uns := fold_left (fun '(a, b) n => (a + Z.max 0 (passengers_of nw n), b + Z.max 0 (seated_of nw n))) (all_service_nodes nw) (0, 0) in
  do trans <- fold_left (fun acc ty => do l <- acc; do t <- new_fast nw [] no_tours; Ok (l ++ [(ty, t)])) (type_ids nw) (Ok []);
  Ok {| s_vehicles := []; s_tours := []; s_trans := trans; s_forms := forms; s_usage := []; s_dummies := [];
        s_counter := 0; s_ids := map (fun ty => (ty, [])) (type_ids nw); s_dummy_ids := [];
        s_unserved := uns; s_viol := 0; s_costs := nw_nservice nw * c_staff (nw_params nw) |}.

(* the two-step public operation *)
Definition spawn_to_replace_dummy (nw : network) (s : schedule) (d : vehicle_id) (ty : Z) : res (schedule * vehicle_id) :=
  do nodes <- spawn_vehicle_to_replace_dummy_tour nw s d ty;
  do s1 <- delete_dummy s d;
  spawn_vehicle_for_path nw s1 ty nodes.
