(* SearchTermFacts.v — proofs of the statements of SearchTermStmts.v (C06: the schedule local search terminates and the
   whole modelled pipeline returns), exactly as stated:
     run_terminates_inv                  : generic, relative to an invariant closed under the neighbourhood
     schedule_search_terminates_loaded   : the LSInst loop from the start schedule of a loaded network
     whole_pipeline_returns_loaded       : search + transition optimisation + alignment + rendering
   The generic part is LSFacts.run_terminates with the invariant threaded through the accessibility induction on
   [lexR lb k] (strict lexicographic order on vectors of length k bounded below by lb). The instance uses the invariant
   [wreachable nw s /\ ls_path nw s1 s]; the four objective components are >= 0 on every wreachable schedule of a
   network with [net_fine], [net_extra_b] (non-negative cost rates) and finite distances:
     unserved_sum : UnservedOK, sums of Z.max 0 _
     s_viol       : ViolOK + TInv of every stored transition (ti_viol: sum of Z.max 0 _)
     count        : Z.of_nat
     s_costs      : CostsOK + ToursExact + NoPanicFactsA.exact_costs_nn + rates_nn (staff term). *)
From Coq Require Import Permutation Wellfounded.
From RS Require Import Base BaseFacts Network NetSpec NetFacts LoadStmts LoadFacts Tour TourStmts SchedObs Output.
From RS Require Import Transition TransSpec TransStmts Schedule SchedInv SchedStruct SchedCostsFacts SchedListFacts.
From RS Require Import SchedTransFacts Swaps SwapsStmts SwapsFacts SwapsStmts2 SwapsFacts2 PipelineSched PipelineSchedFacts.
From RS Require Import Render RenderStmts RenderFacts4 EndToEndStmts EndToEndFacts NoPanicStmts NoPanicFactsA NoPanicFactsB.
From RS Require Import PipelineTotalStmts PipelineTotalFacts LocalSearch LSStmts LSFacts LSInst TOpt TOptStmts TOptFacts.
From RS Require Import TOptStmts2 TOptFacts2 TOptFacts3 PipelineOptStmts PipelineOptFacts CoverStmts SearchTermStmts.
Local Open Scope Z_scope.

(** * 1. generic termination relative to an invariant *)
Section G.
Variable St : Type.
Variable obj : St -> list Z.
Variable nbs : St -> list St.
Variable pick : list St -> option St.

Local Notation improve := (improve St obj nbs pick).
Local Notation run := (run St obj nbs pick).

Theorem run_terminates_inv_sec k : stmt_run_terminates_inv St obj nbs pick k.
Proof.
  intros P lb PK Hlen Hcl Hlb.
  assert (Hmain : forall v, Acc (lexR lb k) v -> forall s, P s -> obj s = v ->
            exists fuel r steps, run fuel s = (r, steps, true) /\ P r).
  { intros v Hacc. induction Hacc as [v _ IH]. intros s Ps Hs.
    destruct (improve s) as [n|] eqn:E.
    - destruct (improve_some St obj nbs pick s n E) as [Hlt Hp].
      assert (Hin : In n (nbs s)).
      { pose proof (PK (nbs s)) as Q. rewrite Hp in Q. apply Q. }
      assert (Pn : P n) by (eapply Hcl; eassumption).
      destruct (IH (obj n)) with (s := n) as (f & r & steps & Hrun & Pr).
      + subst v. unfold lexR, bnd.
        split; [apply Hlen; exact Pn|]. split; [apply Hlen; exact Ps|].
        split; [intros x Hx; exact (Hlb n x Pn Hx)|].
        split; [intros x Hx; exact (Hlb s x Ps Hx)|exact Hlt].
      + exact Pn.
      + reflexivity.
      + exists (Datatypes.S f), r, (n :: steps). split; [|exact Pr].
        apply run_S_some; [exact E|exact Hrun].
    - exists 1%nat, s, []. split; [|exact Ps]. apply run_S_none. assumption. }
  intros s Ps. apply (Hmain (obj s)); [|exact Ps|reflexivity].
  apply lexR_acc; [apply Hlen; exact Ps|]. intros x Hx. apply (Hlb s x Ps Hx).
Qed.
End G.

Theorem run_terminates_inv : forall S obj neighbors pick k, stmt_run_terminates_inv S obj neighbors pick k.
Proof. exact run_terminates_inv_sec. Qed.

(** * 2. the objective of the schedule search is bounded below on the valid histories *)
Section B.
Variable nw : network.
Hypothesis NF : net_fine nw.
Hypothesis NX : net_extra_b nw = true.
Hypothesis DF : dists_finite_b nw = true.
Hypothesis DH : TourExactFacts.dh_dists_finite_b nw = true.

Lemma unserved_sum_nn s : UnservedOK nw s -> 0 <= unserved_sum s.
Proof.
  intros [_ E]. unfold unserved_sum. rewrite E. cbn [fst snd].
  assert (H1 : 0 <= z_sum (map (fun n => fst (unserved_at_node nw n (form_at s n))) (all_service_nodes nw))).
  { apply z_sum_map_nn. intros n _. unfold unserved_at_node. cbn [fst]. apply Z.le_max_l. }
  assert (H2 : 0 <= z_sum (map (fun n => snd (unserved_at_node nw n (form_at s n))) (all_service_nodes nw))).
  { apply z_sum_map_nn. intros n _. unfold unserved_at_node. cbn [snd]. apply Z.le_max_l. }
  lia.
Qed.

Lemma viol_nn s : dreachable nw s -> ViolOK s -> 0 <= s_viol s.
Proof.
  intros RD [ND E]. rewrite E. apply z_sum_map_nn. intros [ty t] Hin.
  pose proof (po_zget_of_in ty t (s_trans s) ND Hin) as G.
  pose proof (dreachable_trans_inv nw s RD ty t G) as I.
  rewrite (ti_viol _ _ _ _ I). apply z_sum_map_nn. intros c _. apply Z.le_max_l.
Qed.

Lemma costs_nn_s s : CostsOK nw s -> ToursExact nw s -> 0 <= s_costs s.
Proof.
  intros [ND E] [EX _]. rewrite E.
  assert (H1 : 0 <= tsum (s_tours s)).
  { apply tsum_nn. intros k t Hin. apply (exact_costs_nn nw NF NX). apply (EX k). apply in_vget; assumption. }
  unfold tsum in H1.
  destruct (rates_nn nw NX) as (_ & _ & _ & _ & R & _). lia.
Qed.

Lemma ls_obj_bounded s : wreachable nw s -> forall x, In x (ls_obj s) -> 0 <= x.
Proof.
  intros W x Hx.
  pose proof (wreachable_good nw NF DF DH NF DF DH s W) as G.
  unfold ls_obj in Hx. cbn [In] in Hx.
  destruct Hx as [<-|[<-|[<-|[<-|[]]]]].
  - apply unserved_sum_nn. exact (g_unserved _ _ G).
  - apply viol_nn; [apply wreachable_dreachable; exact W|exact (g_viol _ _ G)].
  - apply Nat2Z.is_nonneg.
  - apply costs_nn_s; [exact (g_costs _ _ G)|exact (g_exact _ _ G)].
Qed.

Lemma ls_path_snoc a b : ls_path nw a b ->
  forall l c n, neighbors nw b = Ok l -> In (c, n) l -> ls_path nw a n.
Proof.
  intros P. induction P as [s|s l0 c0 s1 s2 Hn Hin P IH]; intros l c n N I.
  - eapply lp_step; [exact N|exact I|apply lp_refl].
  - eapply lp_step; [exact Hn|exact Hin|]. eapply IH; eassumption.
Qed.

Lemma search_terminates_from s1 : wreachable nw s1 ->
  forall pick, pick_ok schedule ls_obj pick ->
    exists fuel r steps,
      run schedule ls_obj (ls_neighbors nw) pick fuel s1 = (r, steps, true) /\ ls_path nw s1 r.
Proof.
  intros W1 pick PK.
  pose proof NF as (OK & ML & _).
  destruct (run_terminates_inv schedule ls_obj (ls_neighbors nw) pick 4%nat
              (fun s => wreachable nw s /\ ls_path nw s1 s) 0 PK) with (s := s1)
    as (fuel & r & steps & Hrun & _ & LP).
  - intros s _. reflexivity.
  - intros s n [W LP] Hin. unfold ls_neighbors in Hin.
    destruct (neighbors nw s) as [l| | |] eqn:N; try (destruct Hin).
    apply in_map_iff in Hin. destruct Hin as [[c n'] [E Hin]]. cbn [snd] in E. subst n'.
    split.
    + eapply (ls_path_wreachable nw OK ML s n W). eapply lp_step; [exact N|exact Hin|apply lp_refl].
    + eapply ls_path_snoc; eassumption.
  - intros s x [W _] Hx. eapply ls_obj_bounded; eassumption.
  - split; [exact W1|apply lp_refl].
  - exists fuel, r, steps. split; assumption.
Qed.
End B.

(** * 3. for loaded networks *)
Theorem schedule_search_terminates_loaded : stmt_schedule_search_terminates_loaded.
Proof.
  intros i perm nw V U PC PO LD tours s0 s1 TP TK TT TL FF E0 E1 pick PK.
  pose proof (load_net_fine i perm nw V PO LD) as NF.
  pose proof (load_extra i perm nw V PC LD) as NX.
  destruct (load_wf_partial i perm nw V PO LD) as (_ & _ & DF).
  pose proof (load_dh_finite i perm nw LD) as DH.
  apply (search_terminates_from nw NF NX DF DH s1); [|exact PK].
  eapply wr_step; [eapply from_tours_wreachable; eassumption|]. eapply ws_improve; exact E1.
Qed.

Theorem whole_pipeline_returns_loaded : stmt_whole_pipeline_returns_loaded.
Proof.
  intros i perm nw V U PC PO LD DHN tours TP TK TT TL FF pick1 pick2 PK1 PK2.
  destruct (pipeline_opt_never_crashes_loaded i perm nw V U PC PO LD DHN tours TP TK TT TL FF)
    as (s0 & s1 & E0 & E1 & H).
  destruct (schedule_search_terminates_loaded i perm nw V U PC PO LD tours s0 s1 TP TK TT TL FF E0 E1 pick1 PK1)
    as (fuel1 & ls & steps & Hrun & LP).
  destruct (H ls LP) as (_ & N & C & HT).
  destruct (HT N C (le_n N) (le_n C) pick2 PK2) as (trans & final & out & O & C1 & RE).
  exists s0, s1, fuel1, ls, steps, N, C, trans, final, out.
  repeat split; assumption.
Qed.

Print Assumptions run_terminates_inv.
Print Assumptions schedule_search_terminates_loaded.
Print Assumptions whole_pipeline_returns_loaded.
