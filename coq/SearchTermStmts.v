(* SearchTermStmts.v — C06: the schedule local search terminates, and with it the WHOLE modelled pipeline returns an answer.
   LSFacts.run_terminates needs every objective component bounded below on ALL states; schedules are records, so the bound
   holds only on the states the search can visit. Generic version relative to an invariant, then the instance for the
   solve pipeline. Proofs in SearchTermFacts.v. *)
From RS Require Import Base Network NetSpec LoadStmts LoadFacts Tour TourStmts Transition TransSpec Schedule SchedInv SchedStruct
  Swaps SwapsStmts2 PipelineSched CoverStmts EndToEndStmts NoPanicStmts NoPanicFactsA PipelineTotalStmts LocalSearch LSStmts
  LSInst TOpt TOptStmts2 Render PipelineOptStmts.

(** generic: termination relative to an invariant closed under the neighbourhood *)
Section G.
Variable S : Type.
Variable obj : S -> list Z.
Variable neighbors : S -> list S.
Variable pick : list S -> option S.
Variable k : nat.
Definition stmt_run_terminates_inv : Prop :=
  forall (P : S -> Prop) (lb : Z),
    pick_ok S obj pick ->
    (forall s, P s -> length (obj s) = k) ->
    (forall s n, P s -> In n (neighbors s) -> P n) ->
    (forall s x, P s -> In x (obj s) -> lb <= x) ->
    forall s, P s -> exists fuel r steps, run S obj neighbors pick fuel s = (r, steps, true) /\ P r.
End G.

(** the schedule search of the pipeline: from the start schedule of a loaded network (start tours as in
    PipelineTotalStmts), for every pick honouring the min_by contract, the search loop of LSInst stops after finitely many
    accepted steps at a local optimum that is reachable by a trajectory through the enumerated neighbours *)
Definition stmt_schedule_search_terminates_loaded : Prop :=
  forall i perm nw,
    valid_instance_b i = true -> inst_unsigned i -> params_costs_nonneg (i_params i) -> perm_ok i perm ->
    load i perm = Ok nw ->
    forall tours s0 s1, tours_are_paths nw tours -> tours_known nw tours -> tours_typed nw tours ->
      tours_within_limits nw tours -> fleet_fits_overflow nw tours ->
      from_tours nw tours = Ok s0 -> improve_depots nw s0 None = Ok s1 ->
      forall pick, pick_ok schedule ls_obj pick ->
        exists fuel r steps,
          run schedule ls_obj (ls_neighbors nw) pick fuel s1 = (r, steps, true) /\ ls_path nw s1 r.

(** THE WHOLE MODELLED PIPELINE RETURNS: for every network loaded from a valid instance (no negative dead-head distance),
    every start solution as above and every pair of picks honouring the min_by contract there are fuel bounds with which
    the search stops, the transition optimisation returns, the end depots are aligned and the answer renders. No oracle is
    left between the flow tours and the JSON except the two picks. *)
Definition stmt_whole_pipeline_returns_loaded : Prop :=
  forall i perm nw,
    valid_instance_b i = true -> inst_unsigned i -> params_costs_nonneg (i_params i) -> perm_ok i perm ->
    load i perm = Ok nw -> dh_dists_nonneg_b nw = true ->
    forall tours, tours_are_paths nw tours -> tours_known nw tours -> tours_typed nw tours ->
      tours_within_limits nw tours -> fleet_fits_overflow nw tours ->
      forall pick1 pick2, pick_ok schedule ls_obj pick1 -> pick_ok transition topt_obj pick2 ->
        exists s0 s1 fuel1 ls steps fuel2 cfuel trans final out,
          from_tours nw tours = Ok s0 /\ improve_depots nw s0 None = Ok s1 /\
          run schedule ls_obj (ls_neighbors nw) pick1 fuel1 s1 = (ls, steps, true) /\
          optimised nw pick2 fuel2 cfuel ls trans /\
          reassign_end_depots_consistent nw (set_next_day_transitions ls trans) = Ok final /\
          render nw final = Ok out.
