(* Server.v — request/response model of server/src/main.rs (C18): GET /health and POST /solve handlers share no
   state; the server is a multiset of in-flight requests, events arrive and finish in any interleaving. *)
From RS Require Import Base.

Inductive body := BValid (inst : nat) | BMalformed | BInvalid.
Inductive request := Health | Solve (b : body).
(* 200 "Healthy" | 200 with a solution of that instance | an error status or a closed connection *)
Inductive response := RHealthy | RSolution (inst : nat) | RFailed.

Definition respond (r : request) : response :=
  match r with
  | Health => RHealthy
  | Solve (BValid i) => RSolution i        (* solve_instance on the body's own JSON value *)
  | Solve _ => RFailed                     (* extractor rejection, or a panic of that request's task *)
  end.

Inductive event := Arrive (id : nat) (r : request) | Finish (id : nat).
Definition ev_id (e : event) : nat := match e with Arrive id _ | Finish id => id end.
Definition sstate := list (nat * request).     (* in flight *)

Definition step (s : sstate) (e : event) : sstate * list (nat * response) :=
  match e with
  | Arrive id r => ((id, r) :: s, [])
  | Finish id =>
      match assoc Nat.eqb id s with
      | Some r => (filter (fun '(x, _) => negb (Nat.eqb x id)) s, [(id, respond r)])
      | None => (s, [])
      end
  end.

Fixpoint run (s : sstate) (evs : list event) : sstate * list (nat * response) :=
  match evs with
  | [] => (s, [])
  | e :: r => let '(s1, o1) := step s e in let '(s2, o2) := run s1 r in (s2, o1 ++ o2)
  end.

Definition arrivals (evs : list event) : list nat :=
  flat_map (fun e => match e with Arrive id _ => [id] | Finish _ => [] end) evs.

(* every answer depends on the answered request only *)
Definition stmt_isolation : Prop :=
  forall evs s' out, NoDup (arrivals evs) -> run [] evs = (s', out) ->
  forall id resp, In (id, resp) out -> exists r, In (Arrive id r) evs /\ resp = respond r.

(* a request (failing or not) leaves every other request's answer unchanged: deleting all its events from the
   history deletes exactly its own answers *)
Definition stmt_survives : Prop :=
  forall evs id0, NoDup (arrivals evs) ->
  snd (run [] (filter (fun e => negb (Nat.eqb (ev_id e) id0)) evs)) =
  filter (fun '(x, _) => negb (Nat.eqb x id0)) (snd (run [] evs)).

(* health is answered whenever it is asked, whatever else is in flight *)
Definition stmt_health : Prop :=
  forall s id, let '(s1, _) := step s (Arrive id Health) in
  snd (step s1 (Finish id)) = [(id, RHealthy)].
