From RS Require Import Base BaseFacts Server.
(* ServerFacts.v — proofs of the three Server.v statements (C18). All three hold as written; the
   NoDup hypothesis of stmt_isolation / stmt_survives is not needed by the proofs. *)

Definition keep (id0 : nat) : nat * request -> bool := fun '(x, _) => negb (Nat.eqb x id0).
Definition keepo (id0 : nat) : nat * response -> bool := fun '(x, _) => negb (Nat.eqb x id0).
Definition keepe (id0 : nat) : event -> bool := fun e => negb (Nat.eqb (ev_id e) id0).

Lemma assoc_nat_in (k : nat) (s : sstate) r : assoc Nat.eqb k s = Some r -> In (k, r) s.
Proof. apply assoc_in. intros a b. apply Nat.eqb_eq. Qed.

(** * Isolation *)

Lemma step_sub s e s1 o1 : step s e = (s1, o1) ->
  forall id r, In (id, r) s1 -> In (id, r) s \/ e = Arrive id r.
Proof.
  destruct e as [i q | i]; simpl.
  - intros H; inversion H; subst. intros id r [E | Hin]; [inversion E; subst|]; auto.
  - destruct (assoc Nat.eqb i s) as [q|]; intros H; inversion H; subst; intros id r Hin; auto.
    apply filter_In in Hin. tauto.
Qed.

Lemma step_out s e s1 o1 : step s e = (s1, o1) ->
  forall id resp, In (id, resp) o1 -> exists r, In (id, r) s /\ resp = respond r.
Proof.
  destruct e as [i q | i]; simpl.
  - intros H; inversion H; subst. intros id resp [].
  - destruct (assoc Nat.eqb i s) as [r|] eqn:E; intros H; inversion H; subst; intros id resp Hin.
    + destruct Hin as [Hin | []]. inversion Hin; subst. exists r. split; auto.
      apply assoc_nat_in; auto.
    + destruct Hin.
Qed.

Lemma isolation_gen : forall evs s s' out, run s evs = (s', out) ->
  forall id resp, In (id, resp) out ->
  exists r, (In (id, r) s \/ In (Arrive id r) evs) /\ resp = respond r.
Proof.
  induction evs as [|e evs IH]; simpl; intros s s' out H id resp Hin.
  - inversion H; subst. destruct Hin.
  - destruct (step s e) as [s1 o1] eqn:Es. destruct (run s1 evs) as [s2 o2] eqn:Er.
    inversion H; subst. apply in_app_or in Hin. destruct Hin as [Hin | Hin].
    + destruct (step_out _ _ _ _ Es _ _ Hin) as [r [Hr Hresp]]. exists r; auto.
    + destruct (IH _ _ _ Er _ _ Hin) as [r [[Hr | Hr] Hresp]].
      * destruct (step_sub _ _ _ _ Es _ _ Hr) as [H1 | H1]; exists r; subst; auto.
      * exists r; auto.
Qed.

Theorem isolation : stmt_isolation.
Proof.
  intros evs s' out _ H id resp Hin.
  destruct (isolation_gen _ _ _ _ H _ _ Hin) as [r [[[] | Hr] Hresp]]. exists r; auto.
Qed.
Print Assumptions isolation.

(** * Survives *)

Lemma filter_comm {A} (p q : A -> bool) l : filter p (filter q l) = filter q (filter p l).
Proof.
  induction l as [|a l IH]; simpl; auto.
  destruct (p a) eqn:Ep, (q a) eqn:Eq; simpl; rewrite ?Ep, ?Eq, IH; auto.
Qed.

Lemma filter_idem {A} (p : A -> bool) l : filter p (filter p l) = filter p l.
Proof.
  induction l as [|a l IH]; simpl; auto.
  destruct (p a) eqn:Ep; simpl; rewrite ?Ep, IH; auto.
Qed.

Lemma assoc_keep id id0 (s : sstate) : id <> id0 ->
  assoc Nat.eqb id (filter (keep id0) s) = assoc Nat.eqb id s.
Proof.
  intros Hne. induction s as [|[x r] s IH]; simpl; auto.
  destruct (Nat.eqb x id0) eqn:E; simpl.
  - apply Nat.eqb_eq in E; subst. rewrite (proj2 (Nat.eqb_neq id id0) Hne). auto.
  - rewrite IH. auto.
Qed.

Lemma run_cons_snd s e evs :
  snd (run s (e :: evs)) = snd (step s e) ++ snd (run (fst (step s e)) evs).
Proof.
  simpl. destruct (step s e) as [s1 o1]. simpl. destruct (run s1 evs) as [s2 o2]. reflexivity.
Qed.

Lemma filter_keepe_cons id0 e evs :
  filter (keepe id0) (e :: evs) =
  if Nat.eqb (ev_id e) id0 then filter (keepe id0) evs else e :: filter (keepe id0) evs.
Proof. simpl. unfold keepe at 1. destruct (Nat.eqb (ev_id e) id0); reflexivity. Qed.

Lemma survives_gen id0 : forall evs s,
  snd (run (filter (keep id0) s) (filter (keepe id0) evs)) =
  filter (keepo id0) (snd (run s evs)).
Proof.
  induction evs as [|e evs IH]; intros s; auto.
  rewrite (run_cons_snd s e evs), filter_app.
  rewrite filter_keepe_cons.
  destruct e as [i q | i]; simpl ev_id.
  - (* Arrive *)
    destruct (Nat.eqb i id0) eqn:E.
    + simpl. rewrite <- (IH ((i, q) :: s)). simpl. rewrite E. reflexivity.
    + rewrite run_cons_snd. simpl. rewrite <- IH. simpl. rewrite E. reflexivity.
  - (* Finish *)
    destruct (Nat.eqb i id0) eqn:E.
    + apply Nat.eqb_eq in E; subst i. simpl step. fold (keep id0).
      destruct (assoc Nat.eqb id0 s) as [r|]; simpl.
      * rewrite Nat.eqb_refl. simpl. rewrite <- IH, filter_idem. reflexivity.
      * apply IH.
    + assert (Hne : i <> id0) by (apply Nat.eqb_neq; auto).
      rewrite run_cons_snd. simpl step. fold (keep i). rewrite assoc_keep by auto.
      destruct (assoc Nat.eqb i s) as [r|]; simpl.
      * rewrite E. simpl. f_equal.
        rewrite (filter_comm (keep i) (keep id0)). apply IH.
      * apply IH.
Qed.

Theorem survives : stmt_survives.
Proof.
  intros evs id0 _. exact (survives_gen id0 evs []).
Qed.
Print Assumptions survives.

(** * Health *)

Theorem health : stmt_health.
Proof.
  intros s id. simpl. rewrite Nat.eqb_refl. reflexivity.
Qed.
Print Assumptions health.
