(* SlotDist.v — functional model of MinCostFlowSolver::distribute_maintenance_slots
   (solver/src/min_cost_flow_solver.rs): the maintenance tracks are handed out one by one to the vehicle type with the
   smallest priority counter (f32), ties by the smaller increment, then by the first in type order (std `min_by`
   keeps the first of equal minima); a type's counter grows by maximal_distance / total service distance of the type
   (f32 division of two `u64 as f32`), +infinity for a type without distance.  The inner loop over the tracks of one slot
   stops as soon as every counter is >= 1.0 (the outer loop over the slots does not).  Every `unwrap` is explicit:
   `in_meter().unwrap()` on an infinite distance, `partial_cmp(..).unwrap()` on NaN (evaluated for BOTH keys of the
   comparator, since `Ordering::then` takes its argument by value), `min_by(..).unwrap()` on an empty type list. *)
From RS Require Import Base Network F32.

Section SlotDist.
Variable nw : network.
Let P := nw_params nw.

(* Distance::sum = fold(ZERO, +); then in_meter().unwrap() *)
Definition type_total_distance (ty : Z) : dist :=
  fold_left dist_add (map (fun n => n_travel_dist (nd nw n)) (service_nodes nw ty)) (Dist 0).
Definition in_meter (d : dist) : res Z := match d with Dist m => Ok m | DistInf => Panic end.

Definition priority_increment (ty : Z) : res f32 :=
  do total <- in_meter (type_total_distance ty);
  let t := f_of_u64 total in
  if f_is_zero t then Ok FInf
  else Ok (f_div (f_of_u64 (p_maxdist P)) t).      (* 1.0 * a / b: the product with 1.0 is exact *)

Definition increments : res (list (Z * f32)) :=
  fold_right (fun ty acc => do l <- acc; do x <- priority_increment ty; Ok ((ty, x) :: l)) (Ok []) (type_ids nw).

Definition incr_of (incs : list (Z * f32)) (ty : Z) : res f32 := unwrap_opt (assoc Z.eqb ty incs).

(* the comparator of min_by: counter, then increment; both partial_cmp are evaluated and unwrapped *)
Definition entry_cmp (incs : list (Z * f32)) (a b : Z * f32) : res comparison :=
  do c1 <- unwrap_opt (f_cmp (snd a) (snd b));
  do ia <- incr_of incs (fst a);
  do ib <- incr_of incs (fst b);
  do c2 <- unwrap_opt (f_cmp ia ib);
  Ok (match c1 with Eq => c2 | _ => c1 end).

(* Iterator::min_by = reduce(|x, y| if compare(x, y) == Greater { y } else { x }); None on an empty iterator *)
Definition min_entry (incs : list (Z * f32)) (l : list (Z * f32)) : res (Z * f32) :=
  match l with
  | [] => Panic
  | x :: r => fold_left (fun acc y => do m <- acc; do c <- entry_cmp incs m y;
                                      Ok (match c with Gt => y | _ => m end)) r (Ok x)
  end.

Definition bump_counter (ty : Z) (inc : f32) (l : list (Z * f32)) : list (Z * f32) :=
  map (fun '(t, p) => if t =? ty then (t, f_add p inc) else (t, p)) l.

(* maintenance_slots[ty].entry(node).or_insert(0) += 1 *)
Fixpoint bump_slot (m : node_id) (l : list (node_id * Z)) : list (node_id * Z) :=
  match l with
  | [] => [(m, 1)]
  | (x, c) :: r => if nid_eqb x m then (x, c + 1) :: r else (x, c) :: bump_slot m r
  end.
Definition allot := list (Z * list (node_id * Z)).
Definition bump_allot (ty : Z) (m : node_id) (a : allot) : allot :=
  map (fun '(t, l) => if t =? ty then (t, bump_slot m l) else (t, l)) a.

Definition all_satisfied (l : list (Z * f32)) : bool := forallb (fun '(_, p) => f_ge p f_one) l.

Record dstate := { ds_counters : list (Z * f32); ds_allot : allot }.

(* one track of slot m; returns the new state and whether the inner loop breaks *)
Definition give_track (incs : list (Z * f32)) (m : node_id) (s : dstate) : res (dstate * bool) :=
  do e <- min_entry incs (ds_counters s);
  do inc <- incr_of incs (fst e);
  let cs := bump_counter (fst e) inc (ds_counters s) in
  Ok ({| ds_counters := cs; ds_allot := bump_allot (fst e) m (ds_allot s) |}, all_satisfied cs).

(* for _ in 0..tracks { ...; if all >= 1.0 { break } } *)
Fixpoint give_tracks (incs : list (Z * f32)) (m : node_id) (k : nat) (s : dstate) : res dstate :=
  match k with
  | O => Ok s
  | S k' => do sb <- give_track incs m s;
            if snd sb then Ok (fst sb) else give_tracks incs m k' (fst sb)
  end.

Definition distribute : res allot :=
  do incs <- increments;
  do s <- fold_left (fun acc m => do s <- acc; give_tracks incs m (Z.to_nat (track_count nw m)) s)
                    (nw_maint nw)
                    (Ok {| ds_counters := map (fun ty => (ty, f_zero)) (type_ids nw);
                           ds_allot := map (fun ty => (ty, [])) (type_ids nw) |});
  Ok (ds_allot s).

(* maintenance_slots.remove(&vehicle_type).unwrap() in solve() *)
Definition slots_of (a : allot) (ty : Z) : res (list (node_id * Z)) := unwrap_opt (assoc Z.eqb ty a).

End SlotDist.
