(* SlotDistFacts.v — proofs of the statements of SlotDistStmts.v. *)
From Coq Require Import List ZArith Bool Lia Permutation.
From RS Require Import Base BaseFacts Network NetSpec F32 SlotDist LoadStmts LoadFacts EndToEndStmts Tour Flow SlotDistStmts.
From RS Require FlowFacts3 RenderFacts4.
Import ListNotations.
Open Scope Z_scope.

(** * F32 *)

Theorem round_q_not_nan : stmt_round_q_not_nan.
Proof.
  intros p q. unfold round_q.
  destruct (p =? 0); [reflexivity|].
  set (e := Z.max emin (ilog2_q p q - 23)).
  set (m := if 0 <=? e then rne_div p (q * 2 ^ e) else rne_div (p * 2 ^ (- e)) q).
  destruct (m =? 2 ^ 24).
  - destruct (emax_e <? e + 1); reflexivity.
  - destruct (emax_e <? e); reflexivity.
Qed.

Lemma pow23 : 2 ^ 23 = 8388608. Proof. reflexivity. Qed.
Lemma pow24 : 2 ^ 24 = 16777216. Proof. reflexivity. Qed.

Lemma rne_div_bounds p q : 0 < q -> p / q <= rne_div p q <= p / q + 1.
Proof.
  intros Hq. unfold rne_div.
  destruct (2 * (p mod q) <? q); [lia|].
  destruct (q <? 2 * (p mod q)); [lia|].
  destruct (Z.even (p / q)); lia.
Qed.

Lemma ilog2_q_1 n : 0 < n -> ilog2_q n 1 = Z.log2 n.
Proof.
  intros Hn. unfold ilog2_q. rewrite Z.log2_1, Z.sub_0_r.
  pose proof (Z.log2_nonneg n) as HL.
  destruct (Z.leb_spec 0 (Z.log2 n)) as [_|C]; [|lia].
  pose proof (Z.log2_spec n Hn) as [Hlo _].
  destruct (Z.leb_spec (1 * 2 ^ Z.log2 n) n) as [_|C]; [reflexivity|lia].
Qed.

Lemma canon_intro m e :
  8388608 <= m < 16777216 -> -149 <= e <= 104 -> f_canon (FFin m e) = true.
Proof.
  intros Hm He. unfold f_canon, emin, emax_e. rewrite pow23, pow24.
  assert (H1 : (0 <=? m) = true) by (apply Z.leb_le; lia).
  assert (H2 : (m <? 16777216) = true) by (apply Z.ltb_lt; lia).
  assert (H3 : (-149 <=? e) = true) by (apply Z.leb_le; lia).
  assert (H4 : (e <=? 104) = true) by (apply Z.leb_le; lia).
  assert (H5 : (8388608 <=? m) = true) by (apply Z.leb_le; lia).
  rewrite H1, H2, H3, H4, H5. reflexivity.
Qed.

Theorem f_of_u64_finite : stmt_f_of_u64_finite.
Proof.
  intros n [Hn0 Hn64]. unfold f_of_u64, round_q.
  destruct (Z.eqb_spec n 0) as [->|Hnz].
  { exists 0, (-149). split; [reflexivity|]. split; [reflexivity|]. split; reflexivity. }
  assert (Hpos : 0 < n) by lia.
  rewrite (ilog2_q_1 n Hpos).
  pose proof (Z.log2_nonneg n) as HL0.
  assert (HL64 : Z.log2 n < 64) by (apply Z.log2_lt_pow2; assumption).
  destruct (Z.log2_spec n Hpos) as [Hlo Hhi].
  set (L := Z.log2 n) in *.
  unfold emin. rewrite (Z.max_r (-149) (L - 23)) by lia.
  (* the mantissa before renormalisation lies in [2^23, 2^24] *)
  assert (Hm : 8388608 <= (if 0 <=? L - 23 then rne_div n (1 * 2 ^ (L - 23)) else rne_div (n * 2 ^ (- (L - 23))) 1)
               <= 16777216).
  { destruct (Z.leb_spec 0 (L - 23)) as [He|He].
    - assert (Hq : 0 < 2 ^ (L - 23)) by (apply Z.pow_pos_nonneg; lia).
      assert (E1 : 2 ^ L = 8388608 * 2 ^ (L - 23)).
      { replace L with (23 + (L - 23)) at 1 by lia. rewrite Z.pow_add_r by lia. rewrite pow23. reflexivity. }
      assert (E2 : 2 ^ Z.succ L = 16777216 * 2 ^ (L - 23)).
      { replace (Z.succ L) with (24 + (L - 23)) by lia. rewrite Z.pow_add_r by lia. rewrite pow24. reflexivity. }
      rewrite Z.mul_1_l.
      pose proof (rne_div_bounds n (2 ^ (L - 23)) Hq) as [B1 B2].
      assert (D1 : 8388608 <= n / 2 ^ (L - 23)) by (apply Z.div_le_lower_bound; lia).
      assert (D2 : n / 2 ^ (L - 23) < 16777216) by (apply Z.div_lt_upper_bound; lia).
      lia.
    - assert (Hq : 0 < 2 ^ (- (L - 23))) by (apply Z.pow_pos_nonneg; lia).
      assert (E1 : 2 ^ L * 2 ^ (- (L - 23)) = 8388608).
      { rewrite <- Z.pow_add_r by lia. replace (L + - (L - 23)) with 23 by lia. reflexivity. }
      assert (E2 : 2 ^ Z.succ L * 2 ^ (- (L - 23)) = 16777216).
      { rewrite <- Z.pow_add_r by lia. replace (Z.succ L + - (L - 23)) with 24 by lia. reflexivity. }
      pose proof (rne_div_bounds (n * 2 ^ (- (L - 23))) 1 Z.lt_0_1) as [B1 B2].
      rewrite Z.div_1_r in B1, B2.
      unfold rne_div. rewrite Z.div_1_r, Z.mod_1_r. cbn [Z.mul Z.ltb Z.compare].
      nia. }
  set (m0 := if 0 <=? L - 23 then _ else _) in *. clearbody m0.
  rewrite pow24, pow23.
  destruct (Z.eqb_spec m0 16777216) as [Em|Em].
  - assert (Hf : (emax_e <? L - 23 + 1) = false) by (apply Z.ltb_ge; unfold emax_e; lia).
    rewrite Hf. exists 8388608, (L - 23 + 1). split; [reflexivity|]. split.
    + apply canon_intro; lia.
    + lia.
  - assert (Hf : (emax_e <? L - 23) = false) by (apply Z.ltb_ge; unfold emax_e; lia).
    rewrite Hf. exists m0, (L - 23). split; [reflexivity|]. split.
    + apply canon_intro; lia.
    + lia.
Qed.

(** * Concrete witnesses *)

Definition sd_params (maxdist : Z) : params :=
  {| p_forbid := false; p_min := 0; p_dht := 0; p_maxdist := maxdist;
     c_staff := 0; c_service := 0; c_maint := 0; c_dh := 0; c_idle := 0 |}.
Definition sd_slot : node :=
  NMaint {| ms_loc := Station 0; ms_start := Point 0; ms_end := Point 10; ms_tracks := 1 |}.
Definition sd_net (types : list vtype) (maint : list node_id) (maxdist : Z) : network :=
  {| nw_nodes := [(MT 0, sd_slot)]; nw_depots := []; nw_overflow := (0, SD 0, ED 1); nw_service := [];
     nw_maint := maint; nw_sdepots := []; nw_edepots := []; nw_all_by_start := [];
     nw_type_by_start := []; nw_type_by_end := []; nw_params := sd_params maxdist; nw_nlocs := 1%nat;
     nw_dh := []; nw_types := types; nw_nservice := 0; nw_planning := Len 86400 |}.
Definition sd_vt : vtype := {| vt_cap := 10; vt_seats := 10; vt_limit := None |}.

(* one type, the one-track slot MT 0 listed twice *)
Definition nw_dup : network := sd_net [sd_vt] [MT 0; MT 0] 1000.
(* no type, one slot with a track *)
Definition nw_notype : network := sd_net [] [MT 0] 1000.
(* one type without service distance, maximal distance 0 *)
Definition nw_zero : network := sd_net [sd_vt] [MT 0] 0.

Theorem distribute_within_tracks_needs_nodup : stmt_distribute_within_tracks_needs_nodup.
Proof.
  exists nw_dup, [(0, [(MT 0, 2)])]. split.
  - vm_compute. reflexivity.
  - intros (_ & _ & H3). specialize (H3 (MT 0)). vm_compute in H3. apply H3. reflexivity.
Qed.

Theorem distribute_no_type_panics : stmt_distribute_no_type_panics.
Proof.
  exists nw_notype. split.
  - split.
    + unfold u64. cbn [nw_notype sd_net nw_params sd_params p_maxdist]. split; [lia|reflexivity].
    + intros ty Hty. vm_compute in Hty. destruct Hty.
  - vm_compute. reflexivity.
Qed.

Theorem prefix_increment_nan : stmt_prefix_increment_nan.
Proof.
  exists nw_zero, 0. split; [|split; [|split]].
  - split.
    + unfold u64. cbn [nw_zero sd_net nw_params sd_params p_maxdist]. split; [lia|reflexivity].
    + intros ty Hty. exists 0. split.
      * vm_compute in Hty. destruct Hty as [<-|[]]. vm_compute. reflexivity.
      * unfold u64. split; [lia|reflexivity].
  - vm_compute. left. reflexivity.
  - vm_compute. reflexivity.
  - exists FInf. split; vm_compute; reflexivity.
Qed.

(** * Generic helpers *)

Lemma type_ids_nd nw : NoDup (type_ids nw).
Proof.
  unfold type_ids. apply FinFun.Injective_map_NoDup.
  - intros x y H. apply Nat2Z.inj. exact H.
  - apply seq_NoDup.
Qed.

Lemma assoc_z_in {B} k (l : list (Z * B)) :
  In k (map fst l) -> exists v, assoc Z.eqb k l = Some v /\ In (k, v) l.
Proof.
  induction l as [|[k' v'] l IH]; cbn [map fst In assoc]; intros H; [destruct H|].
  destruct (Z.eqb_spec k k') as [->|N].
  - exists v'. split; [reflexivity|left; reflexivity].
  - destruct H as [H|H]; [congruence|]. destruct (IH H) as (v & E & I). exists v. split; [exact E|right; exact I].
Qed.

Lemma assoc_z_some_in {B} k (l : list (Z * B)) v : assoc Z.eqb k l = Some v -> In (k, v) l.
Proof. apply assoc_in. intros a b. apply Z.eqb_eq. Qed.

Lemma assoc_nid_some_in {B} k (l : list (node_id * B)) v : assoc nid_eqb k l = Some v -> In (k, v) l.
Proof. apply assoc_in. exact nid_eqb_eq. Qed.

Lemma assoc_nid_none {B} k (l : list (node_id * B)) : ~ In k (map fst l) -> assoc nid_eqb k l = None.
Proof.
  induction l as [|[k' v'] l IH]; cbn [map fst In assoc]; intros H; [reflexivity|].
  destruct (nid_eqb k k') eqn:E.
  - apply nid_eqb_eq in E. subst k'. exfalso. apply H. left. reflexivity.
  - apply IH. intros I. apply H. right. exact I.
Qed.

Lemma assoc_nid_nodup_in {B} k (l : list (node_id * B)) v :
  NoDup (map fst l) -> In (k, v) l -> assoc nid_eqb k l = Some v.
Proof.
  induction l as [|[k' v'] l IH]; cbn [map fst In assoc]; intros ND H; [destruct H|].
  inversion ND as [|x xs Hx ND']; subst x xs.
  destruct H as [H|H].
  - inversion H; subst k' v'. rewrite nid_eqb_refl. reflexivity.
  - destruct (nid_eqb k k') eqn:E.
    + apply nid_eqb_eq in E. subst k'. exfalso. apply Hx. apply (in_map fst) in H. exact H.
    + apply IH; assumption.
Qed.

Lemma fold_res_ok {S A} (F : A -> S -> res S) (l : list A) (r : res S) s' :
  fold_left (fun acc m => do s <- acc; F m s) l r = Ok s' -> exists s0, r = Ok s0.
Proof.
  revert r. induction l as [|x l IH]; cbn [fold_left]; intros r H.
  - exists s'. exact H.
  - apply IH in H. destruct H as [s1 H]. destruct r as [s0| | |]; cbn [bind] in H; try discriminate H.
    exists s0. reflexivity.
Qed.

Lemma z_sum_all_zero l : (forall x, In x l -> x = 0) -> z_sum l = 0.
Proof.
  induction l as [|x l IH]; intros H; [reflexivity|].
  rewrite z_sum_cons. rewrite IH by (intros y Hy; apply H; right; exact Hy).
  rewrite (H x) by (left; reflexivity). reflexivity.
Qed.

Lemma z_sum_nonneg l : (forall x, In x l -> 0 <= x) -> 0 <= z_sum l.
Proof.
  induction l as [|x l IH]; intros H; [unfold z_sum; cbn [fold_left]; lia|].
  rewrite z_sum_cons. assert (0 <= x) by (apply H; left; reflexivity).
  assert (0 <= z_sum l) by (apply IH; intros y Hy; apply H; right; exact Hy). lia.
Qed.

Lemma z_sum_ge_member l x : (forall y, In y l -> 0 <= y) -> In x l -> x <= z_sum l.
Proof.
  induction l as [|y l IH]; intros H Hx; [destruct Hx|].
  rewrite z_sum_cons.
  assert (Hy : 0 <= y) by (apply H; left; reflexivity).
  assert (Hl : 0 <= z_sum l) by (apply z_sum_nonneg; intros z Hz; apply H; right; exact Hz).
  destruct Hx as [->|Hx]; [lia|].
  assert (x <= z_sum l) by (apply IH; [intros z Hz; apply H; right; exact Hz|exact Hx]). lia.
Qed.

(** * The allotment: structure kept by [bump_allot] *)

Definition total (m : node_id) (a : allot) : Z := z_sum (map (fun '(_, slots) => count_in m slots) a).

Definition slots_ok (D : list node_id) (a : allot) : Prop :=
  forall ty slots, In (ty, slots) a ->
    NoDup (map fst slots) /\ forall m c, In (m, c) slots -> In m D /\ 1 <= c.

Lemma bump_allot_keys ty m a : map fst (bump_allot ty m a) = map fst a.
Proof.
  unfold bump_allot. induction a as [|[t l] a IH]; cbn [map fst]; [reflexivity|].
  rewrite IH. destruct (t =? ty); reflexivity.
Qed.

Lemma bump_slot_keys_in m l x : In x (map fst (bump_slot m l)) -> x = m \/ In x (map fst l).
Proof.
  induction l as [|[y c] l IH]; cbn [bump_slot map fst In].
  - intros [H|[]]. left. symmetry. exact H.
  - destruct (nid_eqb y m); cbn [map fst In]; intros H.
    + right. exact H.
    + destruct H as [H|H]; [right; left; exact H|]. destruct (IH H) as [E|I]; [left; exact E|right; right; exact I].
Qed.

Lemma bump_slot_nodup m l : NoDup (map fst l) -> NoDup (map fst (bump_slot m l)).
Proof.
  induction l as [|[y c] l IH]; cbn [bump_slot map fst]; intros ND.
  - constructor; [intros []|constructor].
  - inversion ND as [|x xs Hx ND']; subst x xs.
    destruct (nid_eqb y m) eqn:E; cbn [map fst].
    + constructor; assumption.
    + constructor; [|apply IH; exact ND'].
      intros I. apply bump_slot_keys_in in I. destruct I as [I|I]; [|exact (Hx I)].
      subst y. rewrite nid_eqb_refl in E. discriminate E.
Qed.

Lemma bump_slot_ok D m l :
  In m D -> (forall m' c, In (m', c) l -> In m' D /\ 1 <= c) ->
  forall m' c, In (m', c) (bump_slot m l) -> In m' D /\ 1 <= c.
Proof.
  intros Hm. induction l as [|[y c0] l IH]; cbn [bump_slot]; intros H m' c I.
  - destruct I as [I|[]]. inversion I; subst m' c. split; [exact Hm|lia].
  - destruct (nid_eqb y m) eqn:E.
    + destruct I as [I|I].
      * inversion I; subst m' c. destruct (H y c0 (or_introl eq_refl)) as [H1 H2]. split; [exact H1|lia].
      * apply H. right. exact I.
    + destruct I as [I|I].
      * apply H. left. exact I.
      * apply IH; [|exact I]. intros m2 c2 I2. apply H. right. exact I2.
Qed.

Lemma slots_ok_bump D ty m a : In m D -> slots_ok D a -> slots_ok D (bump_allot ty m a).
Proof.
  intros Hm H t slots I. unfold bump_allot in I. apply in_map_iff in I. destruct I as ([t0 l0] & E & I).
  destruct (H t0 l0 I) as [ND Hs].
  destruct (t0 =? ty); inversion E; subst t slots.
  - split; [apply bump_slot_nodup; exact ND|apply bump_slot_ok; assumption].
  - split; assumption.
Qed.

Lemma slots_ok_mono D D' a : (forall m, In m D -> In m D') -> slots_ok D a -> slots_ok D' a.
Proof.
  intros Hsub H t slots I. destruct (H t slots I) as [ND Hs]. split; [exact ND|].
  intros m c Hmc. destruct (Hs m c Hmc) as [H1 H2]. split; [apply Hsub; exact H1|exact H2].
Qed.

Lemma count_in_bump_same m l : count_in m (bump_slot m l) = count_in m l + 1.
Proof.
  unfold count_in. induction l as [|[y c] l IH]; cbn [bump_slot assoc].
  - rewrite nid_eqb_refl. reflexivity.
  - destruct (nid_eqb y m) eqn:E.
    + apply nid_eqb_eq in E. subst y. cbn [assoc]. rewrite nid_eqb_refl. reflexivity.
    + cbn [assoc]. destruct (nid_eqb m y) eqn:E2.
      * apply nid_eqb_eq in E2. subst y. rewrite nid_eqb_refl in E. discriminate E.
      * exact IH.
Qed.

Lemma count_in_bump_other m m' l : m' <> m -> count_in m' (bump_slot m l) = count_in m' l.
Proof.
  intros N. unfold count_in. induction l as [|[y c] l IH]; cbn [bump_slot assoc].
  - destruct (nid_eqb m' m) eqn:E; [apply nid_eqb_eq in E; contradiction|reflexivity].
  - destruct (nid_eqb y m) eqn:E.
    + apply nid_eqb_eq in E. subst y. cbn [assoc].
      destruct (nid_eqb m' m) eqn:E2; [apply nid_eqb_eq in E2; contradiction|reflexivity].
    + cbn [assoc]. destruct (nid_eqb m' y); [reflexivity|exact IH].
Qed.

Lemma total_cons m t l a : total m ((t, l) :: a) = count_in m l + total m a.
Proof. unfold total. cbn [map]. apply z_sum_cons. Qed.

Lemma bump_allot_cons ty m t l a :
  bump_allot ty m ((t, l) :: a) = (if t =? ty then (t, bump_slot m l) else (t, l)) :: bump_allot ty m a.
Proof. reflexivity. Qed.

Lemma total_bump_other ty m m' a : m' <> m -> total m' (bump_allot ty m a) = total m' a.
Proof.
  intros N. induction a as [|[t l] a IH]; [reflexivity|].
  rewrite bump_allot_cons. destruct (t =? ty); rewrite !total_cons, IH; [|reflexivity].
  rewrite count_in_bump_other by exact N. reflexivity.
Qed.

Lemma bump_allot_notin ty m a : ~ In ty (map fst a) -> bump_allot ty m a = a.
Proof.
  induction a as [|[t l] a IH]; intros H; [reflexivity|].
  rewrite bump_allot_cons. cbn [map fst In] in H.
  destruct (Z.eqb_spec t ty) as [E|E]; [exfalso; apply H; left; exact E|].
  rewrite IH; [reflexivity|]. intros I. apply H. right. exact I.
Qed.

Lemma total_bump_same ty m a : NoDup (map fst a) -> total m (bump_allot ty m a) <= total m a + 1.
Proof.
  induction a as [|[t l] a IH]; intros ND.
  - unfold total, z_sum. cbn. lia.
  - cbn [map fst] in ND. inversion ND as [|x xs Hx ND']; subst x xs.
    rewrite bump_allot_cons. destruct (Z.eqb_spec t ty) as [E|E].
    + subst t. rewrite (bump_allot_notin ty m a Hx). rewrite !total_cons, count_in_bump_same. lia.
    + rewrite !total_cons. specialize (IH ND'). lia.
Qed.

Lemma count_in_nonneg D m slots :
  (forall m' c, In (m', c) slots -> In m' D /\ 1 <= c) -> 0 <= count_in m slots.
Proof.
  intros H. unfold count_in. destruct (assoc nid_eqb m slots) as [c|] eqn:E; [|lia].
  apply assoc_nid_some_in in E. destruct (H m c E) as [_ H1]. lia.
Qed.

Lemma total_zero_fresh D m a : slots_ok D a -> ~ In m D -> total m a = 0.
Proof.
  intros H N. unfold total. apply z_sum_all_zero. intros x I.
  apply in_map_iff in I. destruct I as ([t l] & E & I). subst x.
  destruct (H t l I) as [_ Hs]. unfold count_in. rewrite assoc_nid_none; [reflexivity|].
  intros J. apply in_map_iff in J. destruct J as ([m' c] & E & J). cbn [fst] in E. subst m'.
  destruct (Hs m c J) as [J1 _]. exact (N J1).
Qed.

(** * The two loops *)

Lemma give_track_allot incs m s s' b :
  give_track incs m s = Ok (s', b) -> exists ty, ds_allot s' = bump_allot ty m (ds_allot s).
Proof.
  unfold give_track. intros H.
  destruct (min_entry incs (ds_counters s)) as [e| | |]; cbn [bind] in H; try discriminate H.
  destruct (incr_of incs (fst e)) as [inc| | |]; cbn [bind] in H; try discriminate H.
  inversion H; subst s' b. exists (fst e). reflexivity.
Qed.

Lemma give_tracks_inv incs m D k : forall s s',
  In m D -> give_tracks incs m k s = Ok s' -> NoDup (map fst (ds_allot s)) ->
  map fst (ds_allot s') = map fst (ds_allot s) /\
  (slots_ok D (ds_allot s) -> slots_ok D (ds_allot s')) /\
  (forall m', m' <> m -> total m' (ds_allot s') = total m' (ds_allot s)) /\
  total m (ds_allot s') <= total m (ds_allot s) + Z.of_nat k.
Proof.
  induction k as [|k IH]; intros s s' Hm H ND.
  - cbn [give_tracks] in H. inversion H; subst s'.
    split; [reflexivity|]. split; [intros X; exact X|]. split; [intros m' _; reflexivity|lia].
  - cbn [give_tracks] in H.
    destruct (give_track incs m s) as [[s1 b]| | |] eqn:G; cbn [bind] in H; try discriminate H.
    destruct (give_track_allot _ _ _ _ _ G) as [ty Ea].
    assert (K1 : map fst (ds_allot s1) = map fst (ds_allot s)) by (rewrite Ea; apply bump_allot_keys).
    assert (K2 : slots_ok D (ds_allot s) -> slots_ok D (ds_allot s1)).
    { intros Hs. rewrite Ea. apply slots_ok_bump; assumption. }
    assert (K3 : forall m', m' <> m -> total m' (ds_allot s1) = total m' (ds_allot s)).
    { intros m' N. rewrite Ea. apply total_bump_other. exact N. }
    assert (K4 : total m (ds_allot s1) <= total m (ds_allot s) + 1).
    { rewrite Ea. apply total_bump_same. exact ND. }
    cbn [fst snd] in H. destruct b.
    + inversion H; subst s'.
      split; [exact K1|]. split; [exact K2|]. split; [exact K3|lia].
    + assert (ND1 : NoDup (map fst (ds_allot s1))) by (rewrite K1; exact ND).
      destruct (IH s1 s' Hm H ND1) as (J1 & J2 & J3 & J4).
      split; [congruence|]. split; [auto|]. split.
      * intros m' N. rewrite J3, K3 by exact N. reflexivity.
      * lia.
Qed.

Definition ainv (nw : network) (D : list node_id) (a : allot) : Prop :=
  map fst a = type_ids nw /\ slots_ok D a /\ forall m, total m a <= Z.max 0 (track_count nw m).

Lemma outer_inv nw incs : forall l D s0 s',
  NoDup l -> (forall m, In m l -> ~ In m D) -> ainv nw D (ds_allot s0) ->
  fold_left (fun acc m => do s <- acc; give_tracks incs m (Z.to_nat (track_count nw m)) s) l (Ok s0) = Ok s' ->
  ainv nw (rev l ++ D) (ds_allot s').
Proof.
  induction l as [|m l IH]; intros D s0 s' ND Hdis Hinv H.
  - cbn [fold_left] in H. inversion H; subst s'. exact Hinv.
  - cbn [fold_left] in H. cbn [bind] in H.
    destruct (fold_res_ok _ _ _ _ H) as [s1 G]. rewrite G in H.
    inversion ND as [|x xs Hx ND']; subst x xs.
    destruct Hinv as (I1 & I2 & I3).
    assert (Hm : In m (m :: D)) by (left; reflexivity).
    assert (NDk : NoDup (map fst (ds_allot s0))) by (rewrite I1; apply type_ids_nd).
    destruct (give_tracks_inv incs m (m :: D) _ s0 s1 Hm G NDk) as (J1 & J2 & J3 & J4).
    assert (Hinv1 : ainv nw (m :: D) (ds_allot s1)).
    { split; [congruence|]. split.
      - apply J2. apply (slots_ok_mono D); [intros y Hy; right; exact Hy|exact I2].
      - intros m'. destruct (nid_eq_dec m' m) as [->|N].
        + rewrite (total_zero_fresh D m (ds_allot s0) I2) in J4 by (apply Hdis; left; reflexivity). lia.
        + rewrite J3 by exact N. apply I3. }
    specialize (IH (m :: D) s1 s' ND').
    cbn [rev]. rewrite <- app_assoc. cbn [app]. apply IH; [|exact Hinv1|exact H].
    intros y Hy [E|I]; [subst y; exact (Hx Hy)|]. apply (Hdis y); [right; exact Hy|exact I].
Qed.

Lemma distribute_inv nw a :
  distribute nw = Ok a ->
  exists incs s, increments nw = Ok incs /\
    fold_left (fun acc m => do s <- acc; give_tracks incs m (Z.to_nat (track_count nw m)) s) (nw_maint nw)
      (Ok {| ds_counters := map (fun ty => (ty, f_zero)) (type_ids nw);
             ds_allot := map (fun ty => (ty, [])) (type_ids nw) |}) = Ok s /\
    a = ds_allot s.
Proof.
  unfold distribute. intros H.
  destruct (increments nw) as [incs| | |]; cbn [bind] in H; try discriminate H.
  match type of H with bind ?r _ = _ => destruct r as [s| | |] eqn:F end; cbn [bind] in H; try discriminate H.
  inversion H; subst a. exists incs, s. split; [reflexivity|]. split; [exact F|reflexivity].
Qed.

Lemma init_allot_keys (l : list Z) : map fst (map (fun ty => (ty, @nil (node_id * Z))) l) = l.
Proof. rewrite map_map. cbn [fst]. apply map_id. Qed.

Lemma distribute_ainv nw a : NoDup (nw_maint nw) -> distribute nw = Ok a -> ainv nw (nw_maint nw) a.
Proof.
  intros ND H. destruct (distribute_inv nw a H) as (incs & s & _ & F & ->).
  assert (I0 : slots_ok [] (map (fun ty => (ty, @nil (node_id * Z))) (type_ids nw))).
  { intros t slots I. apply in_map_iff in I. destruct I as (t0 & E & _). inversion E; subst t slots.
    split; [constructor|intros m c []]. }
  set (s0 := {| ds_counters := map (fun ty => (ty, f_zero)) (type_ids nw);
               ds_allot := map (fun ty => (ty, @nil (node_id * Z))) (type_ids nw) |}) in *.
  assert (Hinv0 : ainv nw [] (ds_allot s0)).
  { split; [apply init_allot_keys|]. split; [exact I0|].
    intros m. cbn [ds_allot s0]. rewrite (total_zero_fresh [] m _ I0) by (intros []). lia. }
  destruct (outer_inv nw incs (nw_maint nw) [] s0 s ND (fun _ _ X => X) Hinv0 F) as (A1 & A2 & A3).
  split; [exact A1|]. split; [|exact A3].
  apply (slots_ok_mono (rev (nw_maint nw) ++ [])); [|exact A2].
  intros m Hm. rewrite app_nil_r in Hm. apply in_rev. exact Hm.
Qed.

Theorem distribute_within_tracks : stmt_distribute_within_tracks.
Proof.
  intros nw a ND H. destruct (distribute_ainv nw a ND H) as (A1 & A2 & A3).
  split; [exact A1|]. split; [|exact A3].
  intros ty slots I. destruct (A2 ty slots I) as [NDs Hs]. split; [exact NDs|].
  intros m c Hmc. destruct (Hs m c Hmc) as [H1 H2]. split; [exact H1|]. split; [exact H2|].
  assert (Hc : count_in m slots = c).
  { unfold count_in. rewrite (assoc_nid_nodup_in m slots c NDs Hmc). reflexivity. }
  assert (Hle : c <= total m a).
  { unfold total. apply z_sum_ge_member.
    - intros y Hy. apply in_map_iff in Hy. destruct Hy as ([t l] & E & J). subst y.
      destruct (A2 t l J) as [_ Hl]. apply (count_in_nonneg (nw_maint nw)). exact Hl.
    - apply in_map_iff. exists (ty, slots). split; [exact Hc|exact I]. }
  specialize (A3 m). lia.
Qed.

Theorem slots_of_total : stmt_slots_of_total.
Proof.
  intros nw a ty H Hty. destruct (distribute_inv nw a H) as (incs & s & _ & F & ->).
  assert (K : forall l s0 s', 
    fold_left (fun acc m => do s <- acc; give_tracks incs m (Z.to_nat (track_count nw m)) s) l (Ok s0) = Ok s' ->
    map fst (ds_allot s') = map fst (ds_allot s0)).
  { induction l as [|m l IH]; intros s0 s' G; cbn [fold_left bind] in G.
    - inversion G; reflexivity.
    - destruct (fold_res_ok _ _ _ _ G) as [s1 G1]. rewrite G1 in G. rewrite (IH _ _ G).
      clear - G1. revert s0 s1 G1. induction (Z.to_nat (track_count nw m)) as [|k IHk]; intros s0 s1 G1; cbn [give_tracks] in G1.
      + inversion G1; reflexivity.
      + destruct (give_track incs m s0) as [[s2 b]| | |] eqn:G; cbn [bind] in G1; try discriminate G1.
        destruct (give_track_allot _ _ _ _ _ G) as [ty Ea]. cbn [fst snd] in G1.
        assert (E2 : map fst (ds_allot s2) = map fst (ds_allot s0)) by (rewrite Ea; apply bump_allot_keys).
        destruct b; [inversion G1; subst s1; exact E2|]. rewrite (IHk _ _ G1). exact E2. }
  specialize (K _ _ _ F). cbn [ds_allot] in K. rewrite init_allot_keys in K.
  unfold slots_of. destruct (assoc_z_in ty (ds_allot s)) as (v & E & _); [rewrite K; exact Hty|].
  exists v. rewrite E. reflexivity.
Qed.

(** * No panic *)

Lemma f_add_not_nan a b : f_not_nan a = true -> f_not_nan b = true -> f_not_nan (f_add a b) = true.
Proof.
  destruct a as [| |ma ea], b as [| |mb eb]; cbn [f_add f_not_nan]; intros Ha Hb;
    try discriminate; try reflexivity.
  apply round_q_not_nan.
Qed.

Lemma f_cmp_some a b : f_not_nan a = true -> f_not_nan b = true -> exists c, f_cmp a b = Some c.
Proof.
  destruct a as [| |ma ea], b as [| |mb eb]; cbn [f_cmp f_not_nan]; intros Ha Hb;
    try discriminate; eexists; reflexivity.
Qed.

Lemma priority_increment_ok nw ty :
  figures_u64 nw -> In ty (type_ids nw) -> exists x, priority_increment nw ty = Ok x /\ f_not_nan x = true.
Proof.
  intros [Hmax Hty] I. destruct (Hty ty I) as (t & Et & Ht).
  unfold priority_increment. rewrite Et. cbn [in_meter bind]. cbv zeta.
  destruct (f_of_u64_finite t Ht) as (mb & eb & Eb & _ & _).
  destruct (f_of_u64_finite _ Hmax) as (ma & ea & Ea & _ & _).
  rewrite Eb, Ea. cbn [f_is_zero].
  destruct (mb =? 0) eqn:Z0.
  - exists FInf. split; reflexivity.
  - exists (f_div (FFin ma ea) (FFin mb eb)). split; [reflexivity|].
    cbn [f_div]. rewrite Z0. apply round_q_not_nan.
Qed.

Definition incs_ok (incs : list (Z * f32)) : Prop := forall t x, In (t, x) incs -> f_not_nan x = true.

Lemma increments_ok nw : figures_u64 nw ->
  exists incs, increments nw = Ok incs /\ map fst incs = type_ids nw /\ incs_ok incs.
Proof.
  intros Hf. unfold increments.
  assert (G : forall l, (forall ty, In ty l -> In ty (type_ids nw)) ->
    exists incs, fold_right (fun ty acc => do l <- acc; do x <- priority_increment nw ty; Ok ((ty, x) :: l)) (Ok []) l
                 = Ok incs /\ map fst incs = l /\ incs_ok incs).
  { induction l as [|ty l IH]; intros Hl.
    - exists []. split; [reflexivity|]. split; [reflexivity|]. intros t x [].
    - destruct IH as (incs & E & K & O); [intros t Ht; apply Hl; right; exact Ht|].
      destruct (priority_increment_ok nw ty Hf (Hl ty (or_introl eq_refl))) as (x & Ex & Nx).
      exists ((ty, x) :: incs). cbn [fold_right]. rewrite E. cbn [bind]. rewrite Ex. cbn [bind].
      split; [reflexivity|]. split; [cbn [map fst]; rewrite K; reflexivity|].
      intros t y [J|J]; [inversion J; subst t y; exact Nx|exact (O t y J)]. }
  apply G. intros ty H. exact H.
Qed.

Lemma incr_of_ok incs ty : incs_ok incs -> In ty (map fst incs) ->
  exists x, incr_of incs ty = Ok x /\ f_not_nan x = true.
Proof.
  intros O I. destruct (assoc_z_in ty incs I) as (v & E & J).
  exists v. unfold incr_of. rewrite E. split; [reflexivity|exact (O ty v J)].
Qed.

Definition good (incs : list (Z * f32)) (e : Z * f32) : Prop :=
  In (fst e) (map fst incs) /\ f_not_nan (snd e) = true.

Lemma entry_cmp_ok incs a b : incs_ok incs -> good incs a -> good incs b -> exists c, entry_cmp incs a b = Ok c.
Proof.
  intros O [Ka Na] [Kb Nb]. unfold entry_cmp.
  destruct (f_cmp_some _ _ Na Nb) as [c1 E1]. rewrite E1. cbn [unwrap_opt bind].
  destruct (incr_of_ok incs (fst a) O Ka) as (ia & Ea & Nia). rewrite Ea. cbn [bind].
  destruct (incr_of_ok incs (fst b) O Kb) as (ib & Eb & Nib). rewrite Eb. cbn [bind].
  destruct (f_cmp_some _ _ Nia Nib) as [c2 E2]. rewrite E2. cbn [unwrap_opt bind].
  eexists. reflexivity.
Qed.

Lemma min_fold_ok incs : incs_ok incs -> forall r x, good incs x -> (forall y, In y r -> good incs y) ->
  exists e, fold_left (fun acc y => do m <- acc; do c <- entry_cmp incs m y;
                                    Ok (match c with Gt => y | _ => m end)) r (Ok x) = Ok e /\ good incs e.
Proof.
  intros O. induction r as [|y r IH]; intros x Gx Gr.
  - exists x. split; [reflexivity|exact Gx].
  - cbn [fold_left bind].
    assert (Gy : good incs y) by (apply Gr; left; reflexivity).
    destruct (entry_cmp_ok incs x y O Gx Gy) as [c Ec]. rewrite Ec. cbn [bind].
    apply IH; [destruct c; assumption|]. intros z Hz. apply Gr. right. exact Hz.
Qed.

Lemma min_entry_ok incs l : incs_ok incs -> l <> [] -> (forall y, In y l -> good incs y) ->
  exists e, min_entry incs l = Ok e /\ good incs e.
Proof.
  intros O Hne Gl. destruct l as [|x r]; [contradiction|]. cbn [min_entry].
  apply min_fold_ok; [exact O|apply Gl; left; reflexivity|]. intros y Hy. apply Gl. right. exact Hy.
Qed.

Definition cinv (incs : list (Z * f32)) (s : dstate) : Prop :=
  map fst (ds_counters s) = map fst incs /\ forall t p, In (t, p) (ds_counters s) -> f_not_nan p = true.

Lemma bump_counter_keys ty inc l : map fst (bump_counter ty inc l) = map fst l.
Proof.
  unfold bump_counter. induction l as [|[t p] l IH]; cbn [map fst]; [reflexivity|].
  rewrite IH. destruct (t =? ty); reflexivity.
Qed.

Lemma bump_counter_ok ty inc l : f_not_nan inc = true ->
  (forall t p, In (t, p) l -> f_not_nan p = true) ->
  forall t p, In (t, p) (bump_counter ty inc l) -> f_not_nan p = true.
Proof.
  intros Ni Hl t p I. unfold bump_counter in I. apply in_map_iff in I. destruct I as ([t0 p0] & E & I).
  specialize (Hl t0 p0 I). destruct (t0 =? ty); inversion E; subst t p; [|exact Hl].
  apply f_add_not_nan; assumption.
Qed.

Lemma cinv_good incs s : cinv incs s -> forall y, In y (ds_counters s) -> good incs y.
Proof.
  intros [K N] [t p] I. split; cbn [fst snd].
  - rewrite <- K. apply (in_map fst) in I. exact I.
  - exact (N t p I).
Qed.

Lemma give_track_ok incs m s : incs_ok incs -> cinv incs s -> map fst incs <> [] ->
  exists s' b, give_track incs m s = Ok (s', b) /\ cinv incs s'.
Proof.
  intros O C Hne. unfold give_track.
  assert (Hl : ds_counters s <> []).
  { intros E. destruct C as [K _]. rewrite E in K. cbn [map] in K. apply Hne. symmetry. exact K. }
  destruct (min_entry_ok incs (ds_counters s) O Hl (cinv_good incs s C)) as (e & Ee & [Ke Ne]).
  rewrite Ee. cbn [bind].
  destruct (incr_of_ok incs (fst e) O Ke) as (inc & Ei & Ni). rewrite Ei. cbn [bind].
  eexists. eexists. split; [reflexivity|].
  destruct C as [K N]. split; cbn [ds_counters].
  - rewrite bump_counter_keys. exact K.
  - apply bump_counter_ok; assumption.
Qed.

Lemma give_tracks_ok incs m k : incs_ok incs -> forall s, cinv incs s -> (map fst incs <> [] \/ k = O) ->
  exists s', give_tracks incs m k s = Ok s' /\ cinv incs s'.
Proof.
  intros O. induction k as [|k IH]; intros s C Hk.
  - exists s. split; [reflexivity|exact C].
  - destruct Hk as [Hne|Hk]; [|discriminate Hk].
    cbn [give_tracks]. destruct (give_track_ok incs m s O C Hne) as (s1 & b & E & C1).
    rewrite E. cbn [bind fst snd]. destruct b.
    + exists s1. split; [reflexivity|exact C1].
    + apply IH; [exact C1|left; exact Hne].
Qed.

Theorem distribute_total : stmt_distribute_total.
Proof.
  intros nw Hf Hty.
  destruct (increments_ok nw Hf) as (incs & Ei & Ki & Oi).
  unfold distribute. rewrite Ei. cbn [bind].
  assert (G : forall l s0, cinv incs s0 ->
     (type_ids nw <> [] \/ forall m, In m l -> track_count nw m <= 0) ->
     exists s', fold_left (fun acc m => do s <- acc; give_tracks incs m (Z.to_nat (track_count nw m)) s) l (Ok s0)
                = Ok s').
  { induction l as [|m l IH]; intros s0 C Hl.
    - exists s0. reflexivity.
    - cbn [fold_left bind].
      destruct (give_tracks_ok incs m (Z.to_nat (track_count nw m)) Oi s0 C) as (s1 & E1 & C1).
      { destruct Hl as [Hne|Hz]; [left; rewrite Ki; exact Hne|right].
        specialize (Hz m (or_introl eq_refl)). lia. }
      rewrite E1. apply IH; [exact C1|].
      destruct Hl as [Hne|Hz]; [left; exact Hne|right]. intros m' Hm'. apply Hz. right. exact Hm'. }
  destruct (G (nw_maint nw) {| ds_counters := map (fun ty => (ty, f_zero)) (type_ids nw);
                               ds_allot := map (fun ty => (ty, [])) (type_ids nw) |}) as [s' E].
  - split; cbn [ds_counters].
    + rewrite map_map. cbn [fst]. rewrite map_id. symmetry. exact Ki.
    + intros t p I. apply in_map_iff in I. destruct I as (t0 & E & _). inversion E. reflexivity.
  - exact Hty.
  - rewrite E. cbn [bind]. eexists. reflexivity.
Qed.

(** * Composition with the circulation *)

Theorem circulation_feasible_distributed : stmt_circulation_feasible_distributed.
Proof.
  intros i perm nw ty a slots V P U L Hty Hd Hs.
  assert (ND : NoDup (nw_maint nw)).
  { destruct (RenderFacts4.load_maint_coverable i perm nw L) as [_ N].
    unfold coverable_nodes in N. exact (RenderFacts4.nodup_app_r _ _ N). }
  destruct (distribute_within_tracks nw a ND Hd) as (_ & A2 & _).
  unfold slots_of in Hs. destruct (assoc Z.eqb ty a) as [sl|] eqn:E; cbn [unwrap_opt] in Hs; [|discriminate Hs].
  inversion Hs; subst sl. apply assoc_z_some_in in E.
  destruct (A2 ty slots E) as [NDs Hsl].
  apply (FlowFacts3.circulation_feasible_loaded i perm nw ty slots V P U L Hty NDs).
  intros m c I. destruct (Hsl m c I) as [H1 H2]. split; [exact H1|lia].
Qed.

Print Assumptions round_q_not_nan.
Print Assumptions f_of_u64_finite.
Print Assumptions distribute_within_tracks.
Print Assumptions distribute_within_tracks_needs_nodup.
Print Assumptions distribute_total.
Print Assumptions distribute_no_type_panics.
Print Assumptions prefix_increment_nan.
Print Assumptions slots_of_total.
Print Assumptions circulation_feasible_distributed.
