(* SlotDistStmts.v — statements about the modelled slot distribution (SlotDist.v, F32.v).  Proofs: SlotDistFacts.v.
   C02/C14: whatever the f32 arithmetic does, the allotment stays within the track counts, per (type, slot) and summed
   over the types of a slot.  C06: the distribution never panics (no NaN reaches `partial_cmp(..).unwrap()`, no infinite
   distance reaches `in_meter().unwrap()`, `min_by` never sees an empty list) for every network with at least one type and
   u64 figures; the pre-repair increment (0/0 for a fleet without distance) is refuted on a witness.  Composition: the
   circulation of every type is feasible for the distributed slots of every loaded network. *)
From RS Require Import Base Network NetSpec F32 SlotDist LoadStmts LoadFacts EndToEndStmts Tour Flow.

Definition count_in (m : node_id) (slots : list (node_id * Z)) : Z :=
  match assoc nid_eqb m slots with Some c => c | None => 0 end.

(* per type: distinct listed maintenance nodes, each at least once and at most its track count *)
Definition allot_within_tracks (nw : network) (a : allot) : Prop :=
  map fst a = type_ids nw /\
  (forall ty slots, In (ty, slots) a ->
     NoDup (map fst slots) /\
     forall m c, In (m, c) slots -> In m (nw_maint nw) /\ 1 <= c <= track_count nw m) /\
  (* summed over the types no slot is handed out more often than it has tracks *)
  (forall m, z_sum (map (fun '(_, slots) => count_in m slots) a) <= Z.max 0 (track_count nw m)).

Definition stmt_distribute_within_tracks : Prop :=
  forall nw a, NoDup (nw_maint nw) -> distribute nw = Ok a -> allot_within_tracks nw a.

(* without NoDup the per-slot bound is false (a slot listed twice is handed out twice) *)
Definition stmt_distribute_within_tracks_needs_nodup : Prop :=
  exists nw a, distribute nw = Ok a /\ ~ allot_within_tracks nw a.

(* u64 figures: what the machine types guarantee *)
Definition u64 (z : Z) : Prop := 0 <= z < 2^64.
Definition figures_u64 (nw : network) : Prop :=
  u64 (p_maxdist (nw_params nw)) /\
  forall ty, In ty (type_ids nw) -> exists t, type_total_distance nw ty = Dist t /\ u64 t.

Definition stmt_f_of_u64_finite : Prop :=
  forall n, u64 n -> exists m e, f_of_u64 n = FFin m e /\ f_canon (FFin m e) = true /\ (m = 0 <-> n = 0).

Definition stmt_round_q_not_nan : Prop := forall p q, f_not_nan (round_q p q) = true.

Definition stmt_distribute_total : Prop :=
  forall nw, figures_u64 nw -> (type_ids nw <> [] \/ forall m, In m (nw_maint nw) -> track_count nw m <= 0) ->
    exists a, distribute nw = Ok a.

(* every type is necessary: no type but a track to hand out -> min_by(..).unwrap() on None *)
Definition stmt_distribute_no_type_panics : Prop :=
  exists nw, figures_u64 nw /\ distribute nw = Panic.

(* the pre-repair increment (no test for a zero total): 0/0 = NaN, the comparator panics as soon as there are two types *)
Section Prefix.
Variable nw : network.
Definition priority_increment_prefix (ty : Z) : res f32 :=
  do total <- in_meter (type_total_distance nw ty);
  Ok (f_div (f_of_u64 (p_maxdist (nw_params nw))) (f_of_u64 total)).
End Prefix.
Definition stmt_prefix_increment_nan : Prop :=
  exists nw ty, figures_u64 nw /\ In ty (type_ids nw) /\ priority_increment_prefix nw ty = Ok FNaN /\
                exists x, priority_increment nw ty = Ok x /\ f_not_nan x = true.

(* composition with CircStmts: the circulation of every type is feasible for the DISTRIBUTED slots *)
Definition stmt_circulation_feasible_distributed : Prop :=
  forall i perm nw ty a slots,
    valid_instance_b i = true -> perm_ok i perm -> inst_unsigned i -> load i perm = Ok nw ->
    In ty (type_ids nw) -> distribute nw = Ok a -> slots_of a ty = Ok slots ->
    exists f, feasible (build_flow_network nw ty slots) f = true.

(* and slots_of never panics on a listed type *)
Definition stmt_slots_of_total : Prop :=
  forall nw a ty, distribute nw = Ok a -> In ty (type_ids nw) -> exists slots, slots_of a ty = Ok slots.
