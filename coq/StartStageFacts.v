(* StartStageFacts.v — proof of StartStageStmts.stmt_start_stage_returns: the stages before the flow solver compose.
   Pure composition of: RawLoadFacts.resolve_valid, LoadFacts.load_total / load_inv / valid_parts,
   SlotDistFacts.distribute_total / distribute_within_tracks / slots_of_total / circulation_feasible_distributed,
   RenderFacts4.load_maint_coverable / nodup_app_r. *)
From Coq Require Import List ZArith Bool Lia Permutation.
From RS Require Import Base Network NetSpec LoadStmts LoadFacts EndToEndStmts Tour Flow F32 SlotDist SlotDistStmts
                       RawLoad RawLoadStmts StartStageStmts.
From RS Require SlotDistFacts RawLoadFacts RenderFacts4.

(* a valid instance lists at least one vehicle type: some departure exists, its route exists, and the route's type
   is an index into the type list *)
Lemma valid_types_nonempty i : valid_instance_b i = true -> i_types i <> [].
Proof.
  intros V.
  destruct (LoadFacts.valid_parts i V) as (_ & VR & VD & VN & _).
  destruct (i_departures i) as [|d ds] eqn:ED.
  - exfalso. apply VN. reflexivity.
  - destruct (VD d (or_introl eq_refl)) as (r & Hr & _).
    apply nth_error_In in Hr. destruct (VR r Hr) as [Hb _].
    intros E. rewrite E in Hb. cbn [length] in Hb. lia.
Qed.

Lemma load_types i perm nw : valid_instance_b i = true -> load i perm = Ok nw -> nw_types nw = i_types i.
Proof.
  intros V L. destruct (LoadFacts.load_inv i perm nw V L) as (trips & n0 & p1 & -> & _). reflexivity.
Qed.

Lemma type_ids_nonempty nw : nw_types nw <> [] -> type_ids nw <> [].
Proof.
  intros H. unfold type_ids. destruct (nw_types nw) as [|t l]; [congruence|].
  cbn [length seq map]. discriminate.
Qed.

Theorem start_stage_returns : stmt_start_stage_returns.
Proof.
  intros r perm i RV RS P U.
  pose proof (RawLoadFacts.resolve_valid r i RV RS) as V.
  destruct (LoadFacts.load_total i perm V) as (nw & L).
  assert (HT : type_ids nw <> []).
  { apply type_ids_nonempty. rewrite (load_types i perm nw V L). apply valid_types_nonempty; exact V. }
  exists nw. split; [|split].
  - unfold load_raw. rewrite RS. cbn [bind]. exact L.
  - exact HT.
  - intros F.
    destruct (SlotDistFacts.distribute_total nw F (or_introl HT)) as (a & Hd).
    assert (ND : NoDup (nw_maint nw)).
    { destruct (RenderFacts4.load_maint_coverable i perm nw L) as [_ N].
      unfold coverable_nodes in N. exact (RenderFacts4.nodup_app_r _ _ N). }
    exists a. split; [exact Hd|]. split.
    + exact (SlotDistFacts.distribute_within_tracks nw a ND Hd).
    + intros ty Hty.
      destruct (SlotDistFacts.slots_of_total nw a ty Hd Hty) as (slots & Hs).
      destruct (SlotDistFacts.circulation_feasible_distributed i perm nw ty a slots V P U L Hty Hd Hs) as (f & Hf).
      exists slots, f. split; [exact Hs|exact Hf].
Qed.

Print Assumptions start_stage_returns.
