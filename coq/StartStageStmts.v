(* StartStageStmts.v — C06: the stages BEFORE the flow solver compose. For every listing that conforms to the documented
   format (raw_valid_b: references resolve, numbers in range), every arrangement of the default depots, unsigned limits and
   u64 totals: the listing resolves and loads, the slot distribution returns, every listed type finds its slots, and the
   covering circulation handed to the flow solver (whose answer the code unwraps) is feasible — so up to the call of the
   external solver nothing panics, and that call has an answer to give. The i64 guard of the network construction is the
   one exception and is stated separately (FlowGuardStmts.v, known finding F2). Proof: StartStageFacts.v. *)
From RS Require Import Base Network NetSpec LoadStmts LoadFacts EndToEndStmts Tour Flow F32 SlotDist SlotDistStmts RawLoad RawLoadStmts.

Definition stmt_start_stage_returns : Prop :=
  forall r perm i,
    raw_valid_b r = true -> resolve r = Ok i -> perm_ok i perm -> inst_unsigned i ->
    exists nw,
      load_raw r perm = Ok nw /\
      type_ids nw <> [] /\
      (figures_u64 nw ->
       exists a, distribute nw = Ok a /\ allot_within_tracks nw a /\
         forall ty, In ty (type_ids nw) ->
           exists slots f, slots_of a ty = Ok slots /\ feasible (build_flow_network nw ty slots) f = true).
