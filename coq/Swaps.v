(* Swaps.v — executable model of solver/src/local_search/neighborhood/{swaps.rs, swaps/*.rs, mod.rs}:
   the four swaps and the candidate enumeration of RSSchedParallelNeighborhood::neighbors_of (in the order in
   which rayon's collect() delivers it = sequential order). Definitions only. *)
From RS Require Export Base Network Tour Transition Schedule.

Section Sw.
Variable nw : network.

Definition dedup_z (l : list Z) : list Z :=   (* sort(); dedup() *)
  fold_right (fun x acc => match acc with y :: _ => if x =? y then acc else x :: acc | [] => [x] end) []
             (sort_by Z.leb l).
Fixpoint dedup_v (l : list vehicle_id) : list vehicle_id :=   (* Vec::dedup: consecutive duplicates *)
  match l with
  | a :: ((b :: _) as r) => if vid_eqb a b then dedup_v r else a :: dedup_v r
  | _ => l
  end.

(* improve_depot_and_recompute_transitions *)
Definition improve_and_recompute (s : schedule) (changed : list vehicle_id) : res schedule :=
  do tys <- fold_left (fun acc v => do l <- acc; do ty <- (match vehicle_type_of s v with Ok t => Ok t | _ => Panic end); Ok (l ++ [ty]))
                      changed (Ok []);
  do s1 <- improve_depots nw s (Some changed);
  do pos <- fold_left (fun acc ty => do l <- acc; do tr <- unwrap_opt (zget ty (s_trans s1));
                                     Ok (if 0 <? tr_viol tr then l ++ [ty] else l)) tys (Ok []);
  recompute_transitions_for nw s1 (Some (dedup_z pos)).

Definition is_vehicle_or_dummy (s : schedule) (v : vehicle_id) : bool := is_vehicle s v || is_dummy s v.

(* Err = the candidate is dropped; Panic = candidate generation panics *)
Definition path_exchange (s : schedule) (seg : node_id * node_id) (p r : vehicle_id) : res schedule :=
  do (first, newd) <- override_reassign nw s seg p r;
  let changed0 := if is_vehicle s r then [r] else [] in
  do (second, changed) <-
    (match newd with
     | None => Ok (first, changed0)
     | Some d =>
         if is_vehicle_or_dummy first p then
           do t <- (match tour_of first d with Ok t => Ok t | _ => Panic end);
           do s2 <- fit_reassign nw first (first_node t, last_node t) d p;
           Ok (s2, changed0 ++ [p])
         else if is_vehicle s p then
           do ty <- (match vehicle_type_of s p with Ok t => Ok t | _ => Panic end);
           do (s2, nv) <- spawn_to_replace_dummy nw first d ty;
           Ok (s2, changed0 ++ [nv])
         else Ok (first, changed0)
     end);
  let changed' := dedup_v (filter (fun v => is_vehicle second v) changed) in
  match improve_and_recompute second changed' with Err => Panic | x => x end.

Definition spawn_vehicle_for_maintenance (s : schedule) (m : node_id) (v : vehicle_id) : res schedule :=
  do t <- (match tour_of s v with Ok t => Ok t | _ => Panic end);
  if t_vm t then Err else
  do occ <- unwrap_opt (nget m (s_forms s));
  do ty <- (match vehicle_type_of s v with Ok t => Ok t | _ => Panic end);
  do (s1, ch1) <-
    (if track_count nw m <=? Z.of_nat (length occ) then
       do lo <- unwrap_opt (match occ with [] => None | f :: _ => Some (fst (last occ f)) end);
       do s1 <- remove_segment nw s (m, m) lo;
       Ok (s1, if is_vehicle s1 lo then [lo] else [])
     else Ok (s, []));
  do (s2, conflict) <- add_path_to_vehicle_tour nw s1 v [m];
  do (s3, ch3) <-
    (match conflict with
     | Some path => do (s3, nv) <- spawn_vehicle_for_path nw s2 ty path; Ok (s3, ch1 ++ [v; nv])
     | None => Ok (s2, ch1 ++ [v])
     end);
  match improve_and_recompute s3 ch3 with Err => Panic | x => x end.

Definition add_trip_for_hitch_hiking (s : schedule) (n : node_id) (v : vehicle_id) : res schedule :=
  do f <- unwrap_opt (nget n (s_forms s));
  if match maximal_formation_count_for nw n with Some l => l <=? Z.of_nat (length f) | None => false end then Err else
  do (s1, conflict) <- add_path_to_vehicle_tour nw s v [n];
  match conflict with
  | Some _ => Err
  | None => match improve_and_recompute s1 [v] with Err => Panic | x => x end
  end.

Definition remove_single_node (s : schedule) (n : node_id) (v : vehicle_id) : res schedule :=
  remove_segment nw s (n, n) v.

(** ** candidate enumeration *)
Definition SEGMENT_LIMIT : duration := Len 10800.      (* "3:00:00" *)
Definition OVERHEAD_THRESHOLD : duration := Len 600.   (* "0:10:00" *)

Inductive cand := CMaint (m : node_id) (v : vehicle_id) | CExch (seg : node_id * node_id) (p r : vehicle_id)
                | CHitch (n : node_id) (v : vehicle_id) | CRemove (n : node_id) (v : vehicle_id).

Definition apply_cand (s : schedule) (c : cand) : res schedule :=
  match c with
  | CMaint m v => spawn_vehicle_for_maintenance s m v
  | CExch seg p r => path_exchange s seg p r
  | CHitch n v => add_trip_for_hitch_hiking s n v
  | CRemove n v => remove_single_node s n v
  end.

(* segments(provider): Panic if an overhead cannot be computed (unwrap) *)
Definition segments (s : schedule) (p : vehicle_id) : res (list (node_id * node_id)) :=
  do t <- (match tour_of s p with Ok t => Ok t | _ => Panic end);
  let dummy := is_dummy s p in
  let nds := non_depots t in
  let ok_overhead (f : node_id -> res duration) (n : node_id) : res bool :=
      if dummy then Ok true
      else match f n with Ok d => Ok (dur_leb OVERHEAD_THRESHOLD d) | _ => Panic end in
  do segs <-
    fold_left (fun (acc : res (list (node_id * node_id))) '(i, seg_start) =>
      do l <- acc;
      do okp <- ok_overhead (preceding_overhead nw t) seg_start;
      if negb okp then Ok l else
      (* candidates for the end: nodes from position i on with enough subsequent overhead, while within the limit *)
      do ends <- fold_left (fun (acc2 : res (list node_id * bool)) n =>
                   do (es, stop) <- acc2;
                   if stop then Ok (es, true) else
                   do oks <- ok_overhead (subsequent_overhead nw t) n;
                   if negb oks then Ok (es, false) else
                   do len <- dt_diff (end_time nw n) (start_time nw seg_start);
                   if dur_leb len SEGMENT_LIMIT then Ok (es ++ [n], false) else Ok (es, true))
                 (skipn i nds) (Ok ([], false));
      Ok (l ++ map (fun e => (seg_start, e)) (fst ends ++ [last_node t])))
      (combine (seq 0 (length nds)) nds) (Ok []);
  Ok (filter (fun sg => match check_removable nw t sg with Ok _ => true | _ => false end) segs).

Definition candidates (s : schedule) : res (list cand) :=
  let reals := vehicles_iter_all nw s in
  let dums := s_dummy_ids s in
  (* maintenance slots that still have room, least loaded first (stable sort by count*10000/tracks) *)
  let count m := match nget m (s_forms s) with Some f => Z.of_nat (length f) | None => 0 end in
  let ms := sort_by (fun a b => (count a * 10000) / track_count nw a <=? (count b * 10000) / track_count nw b)
                    (filter (fun m => count m <? track_count nw m) (nw_maint nw)) in
  let c1 := flat_map (fun m => map (fun v => CMaint m v) reals) ms in
  do c2 <- fold_left (fun acc p =>
             do l <- acc;
             do sg <- segments s p;
             Ok (l ++ flat_map (fun seg => map (fun r => CExch seg p r)
                                               (filter (fun r => negb (vid_eqb r p)) (reals ++ dums))) sg))
           (dums ++ reals) (Ok []);
  do c3 <- fold_left (fun acc v =>
             do l <- acc;
             do ty <- (match vehicle_type_of s v with Ok t => Ok t | _ => Panic end);
             Ok (l ++ map (fun n => CHitch n v) (service_nodes nw ty))) reals (Ok []);
  do c4 <- fold_left (fun acc v =>
             do l <- acc;
             do t <- (match tour_of s v with Ok t => Ok t | _ => Panic end);
             Ok (l ++ map (fun n => CRemove n v) (non_depots t))) reals (Ok []);
  Ok (c1 ++ c2 ++ c3 ++ c4).

(* neighbors_of: the successfully applied candidates, in order; a Panic of any application is a Panic *)
Definition neighbors (s : schedule) : res (list (cand * schedule)) :=
  do cs <- candidates s;
  fold_left (fun acc c =>
    do l <- acc;
    match apply_cand s c with
    | Ok s' => Ok (l ++ [(c, s')])
    | Err => Ok l
    | Panic => Panic
    | OutOfFuel => OutOfFuel
    end) cs (Ok []).
End Sw.
