(* SwapsFacts.v — proofs of the statements of SwapsStmts.v: every swap of the neighbourhood (Swaps.v) is a
   composition of public modifications (constructors of [step], SchedInv.v), so [reachable] is closed under
   [apply_cand]; [neighbors] lists exactly successful applications of enumerated candidates to the base schedule;
   hence every neighbour inherits ViolOK / CostsOK / UnservedOK. *)
From RS Require Import Base Network Tour Transition Schedule SchedInv Swaps SwapsStmts.
From RS Require Import SchedCostsFacts SchedViolFacts SchedUnservedFacts.

Local Open Scope Z_scope.

(** * closure of [reachable] under the public modifications used by the swaps *)
Section Reach.
Variable nw : network.
Notation reach := (reachable nw).

Lemma reach_override s seg p r s' d :
  reach s -> override_reassign nw s seg p r = Ok (s', d) -> reach s'.
Proof. intros R H. eapply r_step; [exact R|]. eapply st_override; exact H. Qed.

Lemma reach_fit s seg p r s' : reach s -> fit_reassign nw s seg p r = Ok s' -> reach s'.
Proof. intros R H. eapply r_step; [exact R|]. eapply st_fit; exact H. Qed.

Lemma reach_spawn_dummy s d ty s' v : reach s -> spawn_to_replace_dummy nw s d ty = Ok (s', v) -> reach s'.
Proof. intros R H. eapply r_step; [exact R|]. eapply st_spawn_dummy; exact H. Qed.

Lemma reach_spawn s ty path s' v : reach s -> spawn_vehicle_for_path nw s ty path = Ok (s', v) -> reach s'.
Proof. intros R H. eapply r_step; [exact R|]. eapply st_spawn; exact H. Qed.

Lemma reach_remove_segment s seg v s' : reach s -> remove_segment nw s seg v = Ok s' -> reach s'.
Proof. intros R H. eapply r_step; [exact R|]. eapply st_remove_segment; exact H. Qed.

Lemma reach_add_path s v path s' c : reach s -> add_path_to_vehicle_tour nw s v path = Ok (s', c) -> reach s'.
Proof. intros R H. eapply r_step; [exact R|]. eapply st_add_path; exact H. Qed.

Lemma reach_improve s vs s' : reach s -> improve_depots nw s vs = Ok s' -> reach s'.
Proof. intros R H. eapply r_step; [exact R|]. eapply st_improve; exact H. Qed.

Lemma reach_recompute s ts s' : reach s -> recompute_transitions_for nw s ts = Ok s' -> reach s'.
Proof. intros R H. eapply r_step; [exact R|]. eapply st_recompute; exact H. Qed.

(** * the swaps *)
Lemma improve_and_recompute_reach s ch s' :
  reach s -> improve_and_recompute nw s ch = Ok s' -> reach s'.
Proof.
  intros R H. unfold improve_and_recompute in H.
  mon H. mon H. mon H.
  eapply reach_recompute; [|exact H].
  eapply reach_improve; [exact R|eassumption].
Qed.

Lemma improve_and_recompute_noerr_reach s ch s' :
  reach s ->
  match improve_and_recompute nw s ch with Err => Panic | x => x end = Ok s' -> reach s'.
Proof.
  intros R H. destruct (improve_and_recompute nw s ch) eqn:E; try discriminate H.
  inversion H; subst. eapply improve_and_recompute_reach; eassumption.
Qed.

Lemma path_exchange_reach s seg p r s' :
  reach s -> path_exchange nw s seg p r = Ok s' -> reach s'.
Proof.
  intros R H. unfold path_exchange in H.
  monp H. rename s0 into first, o into newd.
  assert (R1 : reach first) by (eapply reach_override; eassumption).
  monp H. rename s0 into second, l into changed.
  assert (R2 : reach second).
  { destruct newd as [d|].
    - destruct (is_vehicle_or_dummy first p).
      + mon E0. mon E0. inversion E0; subst. eapply reach_fit; eassumption.
      + destruct (is_vehicle s p).
        * mon E0. monp E0. inversion E0; subst. eapply reach_spawn_dummy; eassumption.
        * inversion E0; subst. exact R1.
    - inversion E0; subst. exact R1. }
  eapply improve_and_recompute_noerr_reach; eassumption.
Qed.

Lemma spawn_vehicle_for_maintenance_reach s m v s' :
  reach s -> spawn_vehicle_for_maintenance nw s m v = Ok s' -> reach s'.
Proof.
  intros R H. unfold spawn_vehicle_for_maintenance in H.
  mon H. destruct (t_vm a); [discriminate H|].
  mon H. mon H. monp H. rename s0 into s1, l into ch1.
  assert (R1 : reach s1).
  { destruct (track_count nw m <=? Z.of_nat (length a0)).
    - mon E2. mon E2. inversion E2; subst. eapply reach_remove_segment; eassumption.
    - inversion E2; subst. exact R. }
  monp H. rename s0 into s2, o into conflict.
  assert (R2 : reach s2) by (eapply reach_add_path; eassumption).
  monp H. rename s0 into s3, l into ch3.
  assert (R3 : reach s3).
  { destruct conflict as [path|].
    - monp E4. inversion E4; subst. eapply reach_spawn; eassumption.
    - inversion E4; subst. exact R2. }
  eapply improve_and_recompute_noerr_reach; eassumption.
Qed.

Lemma add_trip_for_hitch_hiking_reach s n v s' :
  reach s -> add_trip_for_hitch_hiking nw s n v = Ok s' -> reach s'.
Proof.
  intros R H. unfold add_trip_for_hitch_hiking in H.
  mon H.
  destruct (match maximal_formation_count_for nw n with
            | Some l => l <=? Z.of_nat (length a) | None => false end); [discriminate H|].
  monp H. rename s0 into s1.
  assert (R1 : reach s1) by (eapply reach_add_path; eassumption).
  destruct o; [discriminate H|].
  eapply improve_and_recompute_noerr_reach; eassumption.
Qed.

Lemma remove_single_node_reach s n v s' :
  reach s -> remove_single_node nw s n v = Ok s' -> reach s'.
Proof. intros R H. unfold remove_single_node in H. eapply reach_remove_segment; eassumption. Qed.
End Reach.

Theorem apply_cand_reachable : stmt_apply_cand_reachable.
Proof.
  intros nw s c s' R H. destruct c; cbn [apply_cand] in H.
  - eapply spawn_vehicle_for_maintenance_reach; eassumption.
  - eapply path_exchange_reach; eassumption.
  - eapply add_trip_for_hitch_hiking_reach; eassumption.
  - eapply remove_single_node_reach; eassumption.
Qed.

(** * the neighbourhood fold *)
Section Fold.
Context {C S : Type}.
Variable app : C -> res S.

Definition nb_step (acc : res (list (C * S))) (c : C) : res (list (C * S)) :=
  do l <- acc;
  match app c with
  | Ok s' => Ok (l ++ [(c, s')])
  | Err => Ok l
  | Panic => Panic
  | OutOfFuel => OutOfFuel
  end.

Lemma nb_fold_nonok cs : forall r, is_ok r = false -> fold_left nb_step cs r = r.
Proof.
  induction cs as [|c cs IH]; intros r Hr; cbn [fold_left]; auto.
  assert (E : nb_step r c = r) by (destruct r; [discriminate Hr|reflexivity..]).
  rewrite E. now apply IH.
Qed.

Lemma nb_fold_spec cs : forall l0 l,
  fold_left nb_step cs (Ok l0) = Ok l ->
  forall c s', In (c, s') l -> In (c, s') l0 \/ (In c cs /\ app c = Ok s').
Proof.
  induction cs as [|c0 cs IH]; intros l0 l H c s' Hin; cbn [fold_left] in H.
  - inversion H; subst. now left.
  - unfold nb_step at 2 in H. cbn [bind] in H.
    destruct (app c0) as [s0| | |] eqn:E.
    + destruct (IH _ _ H _ _ Hin) as [Hl|[Hc Ha]].
      * apply in_app_or in Hl. destruct Hl as [Hl|Hl]; [now left|].
        destruct Hl as [Hl|[]]. inversion Hl; subst. right. split; [now left|exact E].
      * right. split; [now right|exact Ha].
    + destruct (IH _ _ H _ _ Hin) as [Hl|[Hc Ha]]; [now left|].
      right. split; [now right|exact Ha].
    + rewrite nb_fold_nonok in H by reflexivity. discriminate H.
    + rewrite nb_fold_nonok in H by reflexivity. discriminate H.
Qed.
End Fold.

Lemma neighbors_unfold nw s :
  neighbors nw s = do cs <- candidates nw s; fold_left (nb_step (apply_cand nw s)) cs (Ok []).
Proof. reflexivity. Qed.

Theorem neighbors_are_applications : stmt_neighbors_are_applications.
Proof.
  intros nw s l H. rewrite neighbors_unfold in H.
  mon H. exists a. split; [reflexivity|].
  intros c s' Hin.
  destruct (nb_fold_spec _ _ _ _ H _ _ Hin) as [[]|HH]. exact HH.
Qed.

Theorem neighbors_reachable : stmt_neighbors_reachable.
Proof.
  intros nw s l R H c s' Hin.
  destruct (neighbors_are_applications nw s l H) as (cs & _ & Hcs).
  destruct (Hcs c s' Hin) as [_ Ha].
  eapply apply_cand_reachable; eassumption.
Qed.

Theorem neighbors_objective_truthful : stmt_neighbors_objective_truthful.
Proof.
  intros nw s l R H c s' Hin.
  assert (R' : reachable nw s') by (eapply neighbors_reachable; eassumption).
  split; [|split].
  - exact (reachable_viol nw s' R').
  - exact (reachable_costs nw s' R').
  - intros ND HM. exact (reachable_unserved nw ND HM s' R').
Qed.

Print Assumptions apply_cand_reachable.
Print Assumptions neighbors_reachable.
Print Assumptions neighbors_are_applications.
Print Assumptions neighbors_objective_truthful.
