(* SwapsFacts2.v — proofs of the statements of SwapsStmts2.v (C11): the candidates of the neighbourhood (Swaps.v)
   stay inside the histories [wreachable] (valid Path arguments, fit_reassign only between different tours), for
   which the structural invariants ToursOK / ListingOK / FormLimitsOK / UsageOK are proved.

   Structure:
     1. [wreachable_sub]: wreachable is contained in vreachable, dreachable and reachable.
     2. a small inductive invariant of all reachable schedules: the keys of s_forms are coverable nodes
        ([reachable_FK]); hence a node whose formation is looked up successfully is not a depot (under
        maint_listed_ok) and the one-node path made of it is a valid Path.
     3. the conflict path returned by add_path_to_vehicle_tour is a valid Path ([add_path_conflict_valid]).
     4. the dummy created by override_reassign differs from the provider ([override_newd_fresh]).
     5. closure of wreachable under every swap, for ALL candidates (not only the enumerated ones).
     6. the three theorems. *)
From Coq Require Import Sorted.
From RS Require Import SchedPeel Base BaseFacts Network NetSpec NetFacts Tour TourSpec TourStmts TourFacts TourValidFacts.
From RS Require Import Transition Schedule SchedInv SchedObs SchedStruct SchedCostsFacts SchedUnservedFacts.
From RS Require Import SchedListFacts SchedToursFacts SchedFormLimFacts SchedUsageFacts.
From RS Require Import Swaps SwapsStmts SwapsFacts SwapsStmts2.

Local Open Scope Z_scope.

(** * 1. wreachable is contained in the three other history classes *)
Lemma wstep_vstep nw s s' : wstep nw s s' -> vstep nw s s'.
Proof.
  destruct 1; [eapply vs_spawn | eapply vs_spawn_dummy | eapply vs_delete | eapply vs_add_path |
               eapply vs_remove_segment | eapply vs_fit | eapply vs_override | eapply vs_improve |
               eapply vs_greedy | eapply vs_recompute | eapply vs_consistent]; eauto.
Qed.

Lemma wstep_dstep nw s s' : wstep nw s s' -> dstep nw s s'.
Proof.
  destruct 1; [eapply ds_spawn | eapply ds_spawn_dummy | eapply ds_delete | eapply ds_add_path |
               eapply ds_remove_segment | eapply ds_fit | eapply ds_override | eapply ds_improve |
               eapply ds_greedy | eapply ds_recompute | eapply ds_consistent]; eauto.
Qed.

Lemma wreachable_vreachable nw s : wreachable nw s -> vreachable nw s.
Proof. induction 1; [now apply vr_empty | eapply vr_step; eauto using wstep_vstep]. Qed.

Lemma wreachable_dreachable nw s : wreachable nw s -> dreachable nw s.
Proof. induction 1; [now apply dr_empty | eapply dr_step; eauto using wstep_dstep]. Qed.

Lemma wreachable_reachable nw s : wreachable nw s -> reachable nw s.
Proof. intros R. apply dreachable_reachable. now apply wreachable_dreachable. Qed.

Theorem wreachable_sub : forall nw, stmt_wreachable_sub nw.
Proof.
  intros nw s R. split; [|split].
  - now apply wreachable_vreachable.
  - now apply wreachable_dreachable.
  - now apply wreachable_reachable.
Qed.

(** * 2. the keys of s_forms are coverable nodes, in every reachable schedule *)
Section FK.
Variable nw : network.
Notation formation := (list (vehicle_id * Z)).

Definition FK (fm : list (node_id * formation)) : Prop :=
  forall n f, nget n fm = Some f -> In n (coverable_nodes nw).

Lemma FK_nset n (f f' : formation) fm : nget n fm = Some f -> FK fm -> FK (nset n f' fm).
Proof.
  intros En HI m g Hm. rewrite (nset_key _ _ _ _ En), nget_nrepl in Hm.
  destruct (nid_eqb m n) eqn:E.
  - apply nid_eqb_eq in E; subst m. eapply HI; eauto.
  - eauto.
Qed.

Lemma utf_FK s prov recv moved : forall fm uns fm' uns',
  update_train_formation nw s fm uns prov recv moved = Ok (fm', uns') -> FK fm -> FK fm'.
Proof.
  unfold update_train_formation.
  induction moved as [|n l IH]; intros fm uns fm' uns' H HI.
  - cbn [fold_left] in H. inversion H; subst; auto.
  - cbn [fold_left] in H. destruct uns as [ua ub]. cbn [bind] in H.
    match type of H with fold_left ?G _ _ = _ =>
      assert (Hno : forall r, is_ok r = false -> fold_left G l r = r)
        by (apply fold_nonok; intros [] ? Hr; try discriminate Hr; reflexivity) end.
    destruct (is_depot (nd nw n)) eqn:Edep.
    + eapply IH; eauto.
    + destruct (nget n fm) as [f|] eqn:En; cbn [unwrap_opt bind] in H.
      2:{ rewrite Hno in H by reflexivity. discriminate. }
      destruct (replacement_in_formation nw s f prov recv n) as [f'| | |] eqn:Er; cbn [bind] in H;
        try (rewrite Hno in H by reflexivity; discriminate).
      eapply IH; [exact H|]. clear H IH Hno.
      eapply FK_nset; eauto.
Qed.

Lemma nget_init_in (l : list node_id) m (f : formation) :
  nget m (map (fun n => (n, @nil (vehicle_id * Z))) l) = Some f -> In m l.
Proof.
  unfold nget. induction l as [|a l IH]; cbn [map assoc]; [discriminate|].
  destruct (nid_eqb m a) eqn:E.
  - apply nid_eqb_eq in E. subst. intros _. now left.
  - intros H. right. auto.
Qed.

Lemma empty_FK s : empty_schedule nw = Ok s -> FK (s_forms s).
Proof.
  unfold empty_schedule. intros H.
  match type of H with bind ?x _ = _ => destruct x; cbn [bind] in H; try discriminate H end.
  inversion H; subst; clear H. cbn [s_forms].
  intros n f Hn. apply nget_init_in in Hn. exact Hn.
Qed.

Definition SFK (s : schedule) : Prop := FK (s_forms s).

Ltac step_bind H :=
  match type of H with
  | bind ?x _ = Ok _ => let E := fresh "E" in destruct x eqn:E; cbn [bind] in H; try discriminate H
  | (match ?x with _ => _ end) = Ok _ => let E := fresh "E" in destruct x eqn:E; try discriminate H
  end.

Ltac saturate :=
  repeat match goal with
  | E : update_train_formation nw _ ?fm _ _ _ _ = Ok (?fm', _), HI : FK ?fm |- _ =>
      pose proof (utf_FK _ _ _ _ _ _ _ _ E HI); clear E
  | E : (match ?c with _ => _ end) = Ok (_, _) |- _ =>
      is_var c; destruct c; try discriminate E
  | E : Ok (_, _) = Ok (_, _) |- _ => inversion E; subst; clear E
  end.

Ltac finish H :=
  inversion H; subst; clear H; unfold SFK in *; cbn [with_fields s_forms] in *; saturate; auto.

Ltac crunch H := cbv zeta in H; repeat step_bind H; finish H.

Lemma spawn_FK s ty path s' v : spawn_vehicle_for_path nw s ty path = Ok (s', v) -> SFK s -> SFK s'.
Proof. unfold spawn_vehicle_for_path. intros H HI. crunch H. Qed.

Lemma delete_dummy_FK s d s' : delete_dummy s d = Ok s' -> SFK s -> SFK s'.
Proof. unfold delete_dummy. intros H HI. crunch H. Qed.

Lemma spawn_dummy_FK s d ty s' v : spawn_to_replace_dummy nw s d ty = Ok (s', v) -> SFK s -> SFK s'.
Proof.
  unfold spawn_to_replace_dummy. intros H HI.
  step_bind H. step_bind H.
  eapply spawn_FK; [exact H|]. eapply delete_dummy_FK; eauto.
Qed.

Lemma delete_FK s v s' : replace_vehicle_by_dummy nw s v = Ok s' -> SFK s -> SFK s'.
Proof. unfold replace_vehicle_by_dummy. intros H HI. crunch H. Qed.

Lemma add_path_FK s v path s' c : add_path_to_vehicle_tour nw s v path = Ok (s', c) -> SFK s -> SFK s'.
Proof.
  unfold add_path_to_vehicle_tour. intros H HI. destruct path as [|pf path]; [discriminate|].
  cbv zeta in H.
  step_bind H. step_bind H.
  repeat step_bind H; finish H.
Qed.

Lemma remove_segment_FK s seg v s' : remove_segment nw s seg v = Ok s' -> SFK s -> SFK s'.
Proof.
  unfold remove_segment. intros H HI. cbv zeta in H.
  do 3 step_bind H.
  match type of H with (let '(_, _) := ?p in _) = _ => destruct p as [shr removed] end.
  destruct shr as [nt|]; [|eapply delete_FK; eauto].
  repeat step_bind H; finish H.
Qed.

Lemma update_tours_FK s veh tours forms usage dummies ids dids uns costs p ntp r ntr moved
      veh1 tours2 forms2 usage2 dummies2 ids1 dids1 uns2 costs2 :
  update_tours nw s veh tours forms usage dummies ids dids uns costs p ntp r ntr moved
    = Ok (veh1, tours2, forms2, usage2, dummies2, ids1, dids1, uns2, costs2) ->
  FK forms -> FK forms2.
Proof.
  intros H HI. apply update_tours_peel in H. unfold update_tours_prefix in H. cbv zeta in H.
  step_bind H.
  match goal with E : (match ntp with _ => _ end) = _ |- _ => clear E end.
  repeat step_bind H.
  inversion H; subst; clear H. saturate; auto.
Qed.

Lemma fit_FK s seg p r s' : fit_reassign nw s seg p r = Ok s' -> SFK s -> SFK s'.
Proof.
  unfold fit_reassign. intros H HI. cbv zeta in H.
  repeat step_bind H.
  inversion H; subst; clear H. unfold SFK in *. cbn [with_fields s_forms].
  eapply update_tours_FK; eauto.
Qed.

Lemma override_FK s seg p r s' d : override_reassign nw s seg p r = Ok (s', d) -> SFK s -> SFK s'.
Proof.
  unfold override_reassign. intros H HI. cbv zeta in H. destruct (vid_eqb p r) in H; [discriminate|].
  repeat step_bind H.
  all: inversion H; subst; clear H; unfold SFK in *; cbn [with_fields s_forms].
  all: match goal with E : update_tours _ _ _ _ _ _ _ _ _ _ _ _ _ _ _ _ = Ok _ |- _ =>
         pose proof (update_tours_FK _ _ _ _ _ _ _ _ _ _ _ _ _ _ _ _ _ _ _ _ _ _ _ _ E HI) end.
  all: repeat match goal with
       | E : bind _ _ = Ok _ |- _ => step_bind E
       | E : (match _ with _ => _ end) = Ok _ |- _ => step_bind E
       end.
  all: saturate; auto.
Qed.

Lemma improve_FK s vs s' : improve_depots nw s vs = Ok s' -> SFK s -> SFK s'.
Proof. unfold improve_depots. intros H HI. cbv zeta in H. do 3 step_bind H. step_bind H. step_bind H. step_bind H. finish H. Qed.

Lemma greedy_FK s s' : reassign_end_depots_greedily nw s = Ok s' -> SFK s -> SFK s'.
Proof. unfold reassign_end_depots_greedily. intros H HI. cbv zeta in H. do 3 step_bind H. do 2 step_bind H. finish H. Qed.

Lemma recompute_FK s ts s' : recompute_transitions_for nw s ts = Ok s' -> SFK s -> SFK s'.
Proof. unfold recompute_transitions_for. intros H HI. cbv zeta in H. do 2 step_bind H. finish H. Qed.

Lemma consistent_FK s s' : reassign_end_depots_consistent nw s = Ok s' -> SFK s -> SFK s'.
Proof. unfold reassign_end_depots_consistent. intros H HI. cbv zeta in H. do 3 step_bind H. do 2 step_bind H. finish H. Qed.

Lemma step_FK s s' : step nw s s' -> SFK s -> SFK s'.
Proof.
  intros Hs HI. destruct Hs;
    eauto using spawn_FK, spawn_dummy_FK, delete_FK, add_path_FK, remove_segment_FK, fit_FK, override_FK,
                improve_FK, greedy_FK, recompute_FK, consistent_FK.
Qed.

Lemma reachable_FK s : reachable nw s -> SFK s.
Proof.
  induction 1 as [s H|s s' _ IH Hs].
  - now apply empty_FK.
  - eapply step_FK; eauto.
Qed.

(** a node with a stored formation is not a depot; its one-node path is a valid Path *)
Lemma coverable_not_depot n : maint_listed_ok nw -> In n (coverable_nodes nw) -> node_is_depot nw n = false.
Proof.
  intros ML Hin. unfold coverable_nodes in Hin. apply in_app_or in Hin. unfold node_is_depot.
  destruct Hin as [Hin|Hin].
  - unfold all_service_nodes in Hin. apply filter_In in Hin. destruct Hin as [_ Hs].
    destruct (nd nw n); cbn in *; congruence.
  - apply ML in Hin. destruct (nd nw n); cbn in *; congruence.
Qed.

Lemma single_valid_path n : node_is_depot nw n = false -> valid_path nw [n].
Proof.
  intros H. split; [discriminate|]. split.
  - intros a b Hin. cbn in Hin. destruct Hin.
  - cbn [existsb]. rewrite H. reflexivity.
Qed.

Lemma formed_node_valid_path s n f :
  maint_listed_ok nw -> reachable nw s -> nget n (s_forms s) = Some f -> valid_path nw [n].
Proof.
  intros ML R G. apply single_valid_path. apply coverable_not_depot; [exact ML|].
  eapply (reachable_FK s R); eauto.
Qed.
End FK.

(** * 3.–5. closure of wreachable under the swaps *)
Section Cl.
Variable nw : network.
Hypothesis WF : net_wf_b nw = true.
Hypothesis DP : durations_pos_b nw = true.
Hypothesis ML : maint_listed_ok nw.
Notation wreach := (wreachable nw).

(** ** 3. the conflict path returned by add_path_to_vehicle_tour is a valid Path *)
Lemma add_path_conflict_valid s v path s' rp :
  Inv nw s -> TIs nw s -> valid_path nw path ->
  add_path_to_vehicle_tour nw s v path = Ok (s', Some rp) -> valid_path nw rp.
Proof.
  intros I T VP H. unfold add_path_to_vehicle_tour in H.
  destruct path as [|pf path'] eqn:EP; [discriminate|]. rewrite <- EP in *.
  match type of H with (if ?b then _ else _) = _ => destruct b eqn:CK; [discriminate|] end.
  mon H. mon H. monp H. mon H. monp H. monp H. mon H. mon H. monp H. inversion H; subst s' o; clear H.
  apply unwrap_opt_ok in E2.
  destruct T as [TR TD]. destruct (TR _ _ E2) as (ty & Gty & R).
  destruct (insert_path_valid nw WF DP a1 path t (Some rp) (RT_TV _ _ _ R) VP E3) as (_ & _ & _ & CN).
  destruct (insert_path_nodes _ _ _ _ _ E3) as (sp & ep & removed & p1 & _ & Er & _).
  symmetry in Er. apply path_new_trusted_some in Er. destruct Er as [-> F].
  split; [|split].
  - intros ->. discriminate F.
  - apply CN. reflexivity.
  - apply forallb_false_existsb. exact F.
Qed.

Lemma wreach_TIs s : wreach s -> TIs nw s.
Proof. intros R. apply vreachable_T; auto. now apply wreachable_vreachable. Qed.

Lemma wreach_Inv s : wreach s -> Inv nw s.
Proof. intros R. apply SchedCostsFacts.reachable_inv. now apply wreachable_reachable. Qed.

(** ** 4. the dummy created by override_reassign is fresh, in particular different from the provider *)
Lemma override_newd s seg p r s' d :
  override_reassign nw s seg p r = Ok (s', Some d) ->
  d = Dummy (s_counter s) /\ exists tp, tour_of s p = Ok tp.
Proof.
  intros H. unfold override_reassign in H.
  destruct (vid_eqb p r) eqn:Epr; [discriminate|].
  mon H. destruct (negb _) in H; [discriminate|].
  mon H. mon H. monp H. monp H. monp H.
  monp H. monp H. inversion H; subst; clear H.
  split.
  - destruct o0 as [np|]; [|discriminate E5].
    monp E5. destruct (tour_new_dummy nw np); cbn [add_dummy_tour] in E5; inversion E5; subst; reflexivity.
  - exists a0. now apply tour_of_panic_ok.
Qed.

Lemma has_tour_not_fresh s p tp : reachable nw s -> tour_of s p = Ok tp -> p <> Dummy (s_counter s).
Proof.
  intros R H Q. subst p.
  pose proof (SchedCostsFacts.reachable_inv nw s R) as I.
  pose proof (greachable_L nw false s (reachable_greachable nw s R)) as [_ D].
  unfold tour_of in H. destruct (vget (Dummy (s_counter s)) (s_tours s)) as [t0|] eqn:G.
  - destruct (inv_keys nw s I _ _ G) as (i & Q & _). discriminate Q.
  - destruct (vget (Dummy (s_counter s)) (s_dummies s)) as [t1|] eqn:G2; [|discriminate H].
    destruct (d_lt _ _ _ _ D _ _ G2) as (i & Q & Hi). inversion Q. lia.
Qed.

Lemma override_newd_fresh s seg p r s' d :
  reachable nw s -> override_reassign nw s seg p r = Ok (s', Some d) -> d <> p.
Proof.
  intros R H. destruct (override_newd _ _ _ _ _ _ H) as (-> & tp & Htp).
  intros Q. eapply has_tour_not_fresh; eauto.
Qed.

(** ** 5. the swaps *)
Lemma wreach_override s seg p r s' d : wreach s -> override_reassign nw s seg p r = Ok (s', d) -> wreach s'.
Proof. intros R H. eapply wr_step; [exact R|]. eapply ws_override; exact H. Qed.

Lemma wreach_fit s seg p r s' : wreach s -> p <> r -> fit_reassign nw s seg p r = Ok s' -> wreach s'.
Proof. intros R N H. eapply wr_step; [exact R|]. eapply ws_fit; eauto. Qed.

Lemma wreach_spawn_dummy s d ty s' v : wreach s -> spawn_to_replace_dummy nw s d ty = Ok (s', v) -> wreach s'.
Proof. intros R H. eapply wr_step; [exact R|]. eapply ws_spawn_dummy; exact H. Qed.

Lemma wreach_spawn s ty path s' v :
  wreach s -> valid_path nw path -> spawn_vehicle_for_path nw s ty path = Ok (s', v) -> wreach s'.
Proof. intros R V H. eapply wr_step; [exact R|]. eapply ws_spawn; eauto. Qed.

Lemma wreach_remove_segment s seg v s' : wreach s -> remove_segment nw s seg v = Ok s' -> wreach s'.
Proof. intros R H. eapply wr_step; [exact R|]. eapply ws_remove_segment; exact H. Qed.

Lemma wreach_add_path s v path s' c :
  wreach s -> valid_path nw path -> add_path_to_vehicle_tour nw s v path = Ok (s', c) -> wreach s'.
Proof. intros R V H. eapply wr_step; [exact R|]. eapply ws_add_path; eauto. Qed.

Lemma wreach_improve s vs s' : wreach s -> improve_depots nw s vs = Ok s' -> wreach s'.
Proof. intros R H. eapply wr_step; [exact R|]. eapply ws_improve; exact H. Qed.

Lemma wreach_recompute s ts s' : wreach s -> recompute_transitions_for nw s ts = Ok s' -> wreach s'.
Proof. intros R H. eapply wr_step; [exact R|]. eapply ws_recompute; exact H. Qed.

Lemma improve_and_recompute_wreach s ch s' :
  wreach s -> improve_and_recompute nw s ch = Ok s' -> wreach s'.
Proof.
  intros R H. unfold improve_and_recompute in H.
  mon H. mon H. mon H.
  eapply wreach_recompute; [|exact H].
  eapply wreach_improve; [exact R|eassumption].
Qed.

Lemma improve_and_recompute_noerr_wreach s ch s' :
  wreach s ->
  match improve_and_recompute nw s ch with Err => Panic | x => x end = Ok s' -> wreach s'.
Proof.
  intros R H. destruct (improve_and_recompute nw s ch) eqn:E; try discriminate H.
  inversion H; subst. eapply improve_and_recompute_wreach; eassumption.
Qed.

Lemma path_exchange_wreach s seg p r s' :
  wreach s -> path_exchange nw s seg p r = Ok s' -> wreach s'.
Proof.
  intros R H. unfold path_exchange in H.
  monp H. rename s0 into first, o into newd.
  assert (R1 : wreach first) by (eapply wreach_override; eassumption).
  monp H. rename s0 into second, l into changed.
  assert (R2 : wreach second).
  { destruct newd as [d|].
    - destruct (is_vehicle_or_dummy first p).
      + mon E0. mon E0. inversion E0; subst. eapply wreach_fit; [exact R1| |eassumption].
        eapply override_newd_fresh; [|exact E]. now apply wreachable_reachable.
      + destruct (is_vehicle s p).
        * mon E0. monp E0. inversion E0; subst. eapply wreach_spawn_dummy; eassumption.
        * inversion E0; subst. exact R1.
    - inversion E0; subst. exact R1. }
  eapply improve_and_recompute_noerr_wreach; eassumption.
Qed.

Lemma spawn_vehicle_for_maintenance_wreach s m v s' :
  wreach s -> spawn_vehicle_for_maintenance nw s m v = Ok s' -> wreach s'.
Proof.
  intros R H. unfold spawn_vehicle_for_maintenance in H.
  mon H. destruct (t_vm a); [discriminate H|].
  mon H. apply unwrap_opt_ok in E0.
  assert (VM : valid_path nw [m]).
  { eapply formed_node_valid_path; [exact ML| |exact E0]. now apply wreachable_reachable. }
  mon H. monp H. rename s0 into s1, l into ch1.
  assert (R1 : wreach s1).
  { destruct (track_count nw m <=? Z.of_nat (length a0)).
    - mon E2. mon E2. inversion E2; subst. eapply wreach_remove_segment; eassumption.
    - inversion E2; subst. exact R. }
  monp H. rename s0 into s2, o into conflict.
  assert (R2 : wreach s2) by (eapply wreach_add_path; eassumption).
  monp H. rename s0 into s3, l into ch3.
  assert (R3 : wreach s3).
  { destruct conflict as [path|].
    - monp E4. inversion E4; subst. eapply wreach_spawn; [exact R2| |eassumption].
      eapply add_path_conflict_valid; [apply wreach_Inv; exact R1|apply wreach_TIs; exact R1|exact VM|eassumption].
    - inversion E4; subst. exact R2. }
  eapply improve_and_recompute_noerr_wreach; eassumption.
Qed.

Lemma add_trip_for_hitch_hiking_wreach s n v s' :
  wreach s -> add_trip_for_hitch_hiking nw s n v = Ok s' -> wreach s'.
Proof.
  intros R H. unfold add_trip_for_hitch_hiking in H.
  mon H. apply unwrap_opt_ok in E.
  assert (VN : valid_path nw [n]).
  { eapply formed_node_valid_path; [exact ML| |exact E]. now apply wreachable_reachable. }
  destruct (match maximal_formation_count_for nw n with
            | Some l => l <=? Z.of_nat (length a) | None => false end); [discriminate H|].
  monp H. rename s0 into s1.
  assert (R1 : wreach s1) by (eapply wreach_add_path; eassumption).
  destruct o; [discriminate H|].
  eapply improve_and_recompute_noerr_wreach; eassumption.
Qed.

Lemma remove_single_node_wreach s n v s' :
  wreach s -> remove_single_node nw s n v = Ok s' -> wreach s'.
Proof. intros R H. unfold remove_single_node in H. eapply wreach_remove_segment; eassumption. Qed.

(** every candidate (enumerated or not) applied to a wreachable schedule gives a wreachable schedule *)
Lemma apply_cand_wreachable s c s' : wreach s -> apply_cand nw s c = Ok s' -> wreach s'.
Proof.
  intros R H. destruct c; cbn [apply_cand] in H.
  - eapply spawn_vehicle_for_maintenance_wreach; eassumption.
  - eapply path_exchange_wreach; eassumption.
  - eapply add_trip_for_hitch_hiking_wreach; eassumption.
  - eapply remove_single_node_wreach; eassumption.
Qed.
End Cl.

(** * 6. the theorems *)
Theorem apply_cand_wreachable_ok nw :
  net_ok_b nw = true -> maint_listed_ok nw ->
  forall s c s', wreachable nw s -> apply_cand nw s c = Ok s' -> wreachable nw s'.
Proof.
  intros OK ML s c s' R H. unfold net_ok_b in OK. apply andb_true_iff in OK. destruct OK as [WF DP].
  eapply apply_cand_wreachable; eauto.
Qed.

Theorem neighbors_wreachable : forall nw, stmt_neighbors_wreachable nw.
Proof.
  intros nw OK ML s l R H c s' Hin.
  destruct (neighbors_are_applications nw s l H) as (cs & _ & Hcs).
  destruct (Hcs c s' Hin) as [_ Ha].
  eapply apply_cand_wreachable_ok; eassumption.
Qed.

Theorem neighbors_structurally_valid : forall nw, stmt_neighbors_structurally_valid nw.
Proof.
  intros nw OK ML s l R H c s' Hin.
  assert (R' : wreachable nw s') by (eapply neighbors_wreachable; eassumption).
  destruct (wreachable_sub nw s' R') as (RV' & RD & RR).
  split; [|split; [|split]].
  - exact (vreachable_tours nw OK s' RV').
  - exact (reachable_listing_under_distinct nw s' RD).
  - exact (reachable_form_limits nw s' RR).
  - exact (reachable_usage nw s' RR).
Qed.

Print Assumptions wreachable_sub.
Print Assumptions neighbors_wreachable.
Print Assumptions neighbors_structurally_valid.
