(* SwapsRot.v — the one place where RSSchedParallelNeighborhood::neighbors_of looks at the LAST accepted swap: after a
   PathExchange the provider list of segment_exchange_iterator is rotated so that the last provider comes first
   (providers.rotate_left(position)). [candidates_from] / [neighbors_from] are Swaps.candidates / Swaps.neighbors with that
   rotation; with [None] (any other last swap, or a provider that has vanished) they are the unrotated functions. The
   search result of every theorem about [neighbors] carries over because the rotated enumeration is a permutation of the
   unrotated one (statements below, proofs in SwapsRotFacts.v). *)
From Coq Require Import Permutation.
From RS Require Import Base Network Tour Transition Schedule Swaps.

(* Vec::rotate_left(k), k <= len *)
Definition rotate_left {A} (k : nat) (l : list A) : list A := skipn k l ++ firstn k l.

Section R.
Variable nw : network.

Definition providers_from (s : schedule) (last : option vehicle_id) : list vehicle_id :=
  let ps := s_dummy_ids s ++ vehicles_iter_all nw s in
  match last with
  | Some p => match index_of (vid_eqb p) ps with Some k => rotate_left k ps | None => ps end
  | None => ps
  end.

Definition candidates_from (s : schedule) (last : option vehicle_id) : res (list cand) :=
  let reals := vehicles_iter_all nw s in
  let dums := s_dummy_ids s in
  let count m := match nget m (s_forms s) with Some f => Z.of_nat (length f) | None => 0 end in
  let ms := sort_by (fun a b => (count a * 10000) / track_count nw a <=? (count b * 10000) / track_count nw b)
                    (filter (fun m => count m <? track_count nw m) (nw_maint nw)) in
  let c1 := flat_map (fun m => map (fun v => CMaint m v) reals) ms in
  do c2 <- fold_left (fun acc p =>
             do l <- acc;
             do sg <- segments nw s p;
             Ok (l ++ flat_map (fun seg => map (fun r => CExch seg p r)
                                               (filter (fun r => negb (vid_eqb r p)) (reals ++ dums))) sg))
           (providers_from s last) (Ok []);
  do c3 <- fold_left (fun acc v =>
             do l <- acc;
             do ty <- (match vehicle_type_of s v with Ok t => Ok t | _ => Panic end);
             Ok (l ++ map (fun n => CHitch n v) (service_nodes nw ty))) reals (Ok []);
  do c4 <- fold_left (fun acc v =>
             do l <- acc;
             do t <- (match tour_of s v with Ok t => Ok t | _ => Panic end);
             Ok (l ++ map (fun n => CRemove n v) (non_depots t))) reals (Ok []);
  Ok (c1 ++ c2 ++ c3 ++ c4).

Definition neighbors_from (s : schedule) (last : option vehicle_id) : res (list (cand * schedule)) :=
  do cs <- candidates_from s last;
  fold_left (fun acc c =>
    do l <- acc;
    match apply_cand nw s c with
    | Ok s' => Ok (l ++ [(c, s')])
    | Err => Ok l
    | Panic => Panic
    | OutOfFuel => OutOfFuel
    end) cs (Ok []).

(** statements *)
Definition stmt_neighbors_from_none : Prop :=
  forall s, candidates_from s None = candidates nw s /\ neighbors_from s None = neighbors nw s.

(* whatever the last swap was, the neighbourhood is the same multiset of (candidate, schedule) pairs, and it fails
   (Panic / OutOfFuel) exactly when the unrotated one fails *)
Definition stmt_neighbors_from_perm : Prop :=
  forall s last,
    match neighbors_from s last, neighbors nw s with
    | Ok l, Ok l0 => Permutation l l0
    | Ok _, _ | _, Ok _ => False
    | _, _ => True
    end.

(* so a schedule is a local optimum / has a strictly better neighbour independently of the last swap *)
Definition stmt_rotation_keeps_improving_neighbours : Prop :=
  forall s last l l0 (better : schedule -> bool),
    neighbors_from s last = Ok l -> neighbors nw s = Ok l0 ->
    existsb (fun cs => better (snd cs)) l = existsb (fun cs => better (snd cs)) l0.
End R.
