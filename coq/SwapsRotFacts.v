(* SwapsRotFacts.v — proofs of the statements of SwapsRot.v: the rotated candidate enumeration
   (neighbors_of after a PathExchange) is a permutation of the unrotated one, and fails exactly when it fails. *)
From Coq Require Import Permutation.
From RS Require Import Base Network Tour Transition Schedule Swaps SwapsRot.

(** * generic list facts *)
Lemma rotate_left_perm : forall A (k : nat) (l : list A), Permutation (rotate_left k l) l.
Proof.
  intros A k l. unfold rotate_left.
  eapply Permutation_trans; [apply Permutation_app_comm|].
  rewrite firstn_skipn. apply Permutation_refl.
Qed.

Example rotate_left_ex : rotate_left 2%nat [1;2;3;4;5] = [3;4;5;1;2].
Proof. vm_compute. reflexivity. Qed.

Lemma forallb_perm : forall A (p : A -> bool) (l l' : list A),
  Permutation l l' -> forallb p l = forallb p l'.
Proof.
  intros A p l l' HP. induction HP as [|x l l' HP IH|x y l|l l' l'' HP1 IH1 HP2 IH2]; simpl.
  - reflexivity.
  - rewrite IH. reflexivity.
  - destruct (p x), (p y); reflexivity.
  - rewrite IH1. exact IH2.
Qed.

Lemma existsb_perm : forall A (p : A -> bool) (l l' : list A),
  Permutation l l' -> existsb p l = existsb p l'.
Proof.
  intros A p l l' HP. induction HP as [|x l l' HP IH|x y l|l l' l'' HP1 IH1 HP2 IH2]; simpl.
  - reflexivity.
  - rewrite IH. reflexivity.
  - destruct (p x), (p y); reflexivity.
  - rewrite IH1. exact IH2.
Qed.

Lemma flat_map_perm : forall A B (f : A -> list B) (l l' : list A),
  Permutation l l' -> Permutation (flat_map f l) (flat_map f l').
Proof.
  intros A B f l l' HP. induction HP as [|x l l' HP IH|x y l|l l' l'' HP1 IH1 HP2 IH2]; simpl.
  - apply Permutation_refl.
  - apply Permutation_app_head. exact IH.
  - rewrite !app_assoc. apply Permutation_app_tail. apply Permutation_app_comm.
  - eapply Permutation_trans; [exact IH1 | exact IH2].
Qed.

Lemma fold_left_ext : forall A B (F G : A -> B -> A),
  (forall a b, F a b = G a b) -> forall l a, fold_left F l a = fold_left G l a.
Proof.
  intros A B F G HFG l. induction l as [|b l IH]; intros a; simpl.
  - reflexivity.
  - rewrite HFG. apply IH.
Qed.

(** * the relation of the statement: both Ok with permuted lists, or both not Ok *)
Definition res_perm {A} (r r0 : res (list A)) : Prop :=
  match r, r0 with
  | Ok l, Ok l0 => Permutation l l0
  | Ok _, _ | _, Ok _ => False
  | _, _ => True
  end.

Lemma res_perm_bind : forall A B (r r0 : res (list A)) (k k0 : list A -> res (list B)),
  res_perm r r0 ->
  (forall l l0, Permutation l l0 -> res_perm (k l) (k0 l0)) ->
  res_perm (bind r k) (bind r0 k0).
Proof.
  intros A B r r0 k k0 Hr Hk.
  destruct r as [l| | |], r0 as [l0| | |]; simpl in *; try exact I; try contradiction.
  apply Hk. exact Hr.
Qed.

(** * the monadic accumulation fold *)
Section Fold.
Variables (P X C : Type).
Variable f : P -> res X.
Variable g : P -> X -> list C.

Definition stepF (acc : res (list C)) (p : P) : res (list C) :=
  do l <- acc; do x <- f p; Ok (l ++ g p x).
Definition okf (p : P) : bool := is_ok (f p).
Definition block (p : P) : list C := match f p with Ok x => g p x | _ => [] end.

Lemma fold_nonok : forall ps (r : res (list C)),
  (forall l, r <> Ok l) -> forall l, fold_left stepF ps r <> Ok l.
Proof.
  intros ps. induction ps as [|p ps IH]; intros r Hr l; simpl.
  - apply Hr.
  - apply IH. intros l1. destruct r as [l0| | |]; simpl; try discriminate.
    exfalso. apply (Hr l0). reflexivity.
Qed.

Lemma fold_ok_spec : forall ps l0,
  forallb okf ps = true -> fold_left stepF ps (Ok l0) = Ok (l0 ++ flat_map block ps).
Proof.
  intros ps. induction ps as [|p ps IH]; intros l0 Hall; simpl.
  - rewrite app_nil_r. reflexivity.
  - simpl in Hall. apply andb_prop in Hall. destruct Hall as [Hp Hps].
    unfold okf in Hp. unfold block at 1.
    destruct (f p) as [x| | |] eqn:Efp; simpl in Hp; try discriminate.
    simpl. rewrite (IH _ Hps). rewrite app_assoc. reflexivity.
Qed.

Lemma fold_fail_spec : forall ps l0,
  forallb okf ps = false -> forall l, fold_left stepF ps (Ok l0) <> Ok l.
Proof.
  intros ps. induction ps as [|p ps IH]; intros l0 Hall l; simpl.
  - simpl in Hall. discriminate.
  - simpl in Hall. unfold okf at 1 in Hall.
    destruct (f p) as [x| | |] eqn:Efp; simpl in Hall.
    + simpl. apply IH. exact Hall.
    + simpl. apply fold_nonok. intros l1. discriminate.
    + simpl. apply fold_nonok. intros l1. discriminate.
    + simpl. apply fold_nonok. intros l1. discriminate.
Qed.

Lemma fold_perm : forall ps ps',
  Permutation ps ps' ->
  res_perm (fold_left stepF ps (Ok [])) (fold_left stepF ps' (Ok [])).
Proof.
  intros ps ps' HP.
  destruct (forallb okf ps) eqn:Eall.
  - assert (Eall' : forallb okf ps' = true).
    { rewrite <- (forallb_perm _ okf _ _ HP). exact Eall. }
    rewrite (fold_ok_spec _ _ Eall), (fold_ok_spec _ _ Eall'). simpl.
    apply flat_map_perm. exact HP.
  - assert (Eall' : forallb okf ps' = false).
    { rewrite <- (forallb_perm _ okf _ _ HP). exact Eall. }
    destruct (fold_left stepF ps (Ok [])) as [l| | |] eqn:E1;
    destruct (fold_left stepF ps' (Ok [])) as [l'| | |] eqn:E2; simpl; try exact I;
    try (exfalso; apply (fold_fail_spec _ _ Eall _ E1));
    try (exfalso; apply (fold_fail_spec _ _ Eall' _ E2)).
Qed.
End Fold.

(** * the application fold of neighbors *)
Section Apply.
Variables (C S : Type).
Variable h : C -> res S.

Definition stepA (acc : res (list (C * S))) (c : C) : res (list (C * S)) :=
  do l <- acc;
  match h c with
  | Ok s' => Ok (l ++ [(c, s')])
  | Err => Ok l
  | Panic => Panic
  | OutOfFuel => OutOfFuel
  end.

Definition fA (c : C) : res (list (C * S)) :=
  match h c with
  | Ok s' => Ok [(c, s')]
  | Err => Ok []
  | Panic => Panic
  | OutOfFuel => OutOfFuel
  end.
Definition gA (c : C) (x : list (C * S)) : list (C * S) := x.

Lemma stepA_eq : forall acc c, stepA acc c = stepF C (list (C * S)) (C * S) fA gA acc c.
Proof.
  intros acc c. unfold stepA, stepF, fA, gA.
  destruct acc as [l| | |]; simpl; try reflexivity.
  destruct (h c) as [s'| | |]; simpl; try reflexivity.
  rewrite app_nil_r. reflexivity.
Qed.

Lemma foldA_perm : forall cs cs',
  Permutation cs cs' ->
  res_perm (fold_left stepA cs (Ok [])) (fold_left stepA cs' (Ok [])).
Proof.
  intros cs cs' HP.
  rewrite (fold_left_ext _ _ _ _ stepA_eq cs), (fold_left_ext _ _ _ _ stepA_eq cs').
  apply fold_perm. exact HP.
Qed.
End Apply.

(** * the three statements *)
Section R.
Variable nw : network.

Theorem neighbors_from_none : stmt_neighbors_from_none nw.
Proof.
  unfold stmt_neighbors_from_none. intros s. split; reflexivity.
Qed.

Lemma providers_from_perm : forall s last,
  Permutation (providers_from nw s last) (s_dummy_ids s ++ vehicles_iter_all nw s).
Proof.
  intros s last. unfold providers_from.
  destruct last as [p|].
  - destruct (index_of (vid_eqb p) (s_dummy_ids s ++ vehicles_iter_all nw s)) as [k|].
    + apply rotate_left_perm.
    + apply Permutation_refl.
  - apply Permutation_refl.
Qed.

Lemma candidates_from_perm : forall s last,
  res_perm (candidates_from nw s last) (candidates nw s).
Proof.
  intros s last. unfold candidates_from, candidates.
  apply res_perm_bind.
  - apply (fold_perm vehicle_id (list (node_id * node_id)) cand (segments nw s)
             (fun p sg => flat_map (fun seg => map (fun r => CExch seg p r)
                (filter (fun r => negb (vid_eqb r p)) (vehicles_iter_all nw s ++ s_dummy_ids s))) sg)).
    apply providers_from_perm.
  - intros c2 c2' Hc2.
    match goal with |- res_perm (bind ?r _) _ => destruct r as [c3| | |] end; simpl; try exact I.
    match goal with |- res_perm (bind ?r _) _ => destruct r as [c4| | |] end; simpl; try exact I.
    apply Permutation_app_head. apply Permutation_app_tail. exact Hc2.
Qed.

Theorem neighbors_from_perm : stmt_neighbors_from_perm nw.
Proof.
  unfold stmt_neighbors_from_perm. intros s last.
  change (res_perm (neighbors_from nw s last) (neighbors nw s)).
  unfold neighbors_from, neighbors.
  apply res_perm_bind.
  - apply candidates_from_perm.
  - intros cs cs' Hcs.
    apply (foldA_perm cand schedule (apply_cand nw s)). exact Hcs.
Qed.

Theorem rotation_keeps_improving_neighbours : stmt_rotation_keeps_improving_neighbours nw.
Proof.
  unfold stmt_rotation_keeps_improving_neighbours.
  intros s last l l0 better Hfrom Hnb.
  pose proof (neighbors_from_perm s last) as HP.
  rewrite Hfrom, Hnb in HP.
  apply existsb_perm. exact HP.
Qed.
End R.

Print Assumptions neighbors_from_none.
Print Assumptions neighbors_from_perm.
Print Assumptions rotation_keeps_improving_neighbours.
