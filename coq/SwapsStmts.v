(* SwapsStmts.v — C11 at the level of the model (Swaps.v): every candidate the neighbourhood produces from a
   reachable schedule is itself reachable (each swap is a composition of public modifications), hence inherits
   every invariant proved for reachable schedules; the base schedule is a value and cannot change. *)
From RS Require Import Base Network Tour Transition Schedule SchedInv Swaps.

Definition stmt_apply_cand_reachable : Prop :=
  forall nw s c s', reachable nw s -> apply_cand nw s c = Ok s' -> reachable nw s'.
Definition stmt_neighbors_reachable : Prop :=
  forall nw s l, reachable nw s -> neighbors nw s = Ok l -> forall c s', In (c, s') l -> reachable nw s'.
(* each listed neighbour is the application of an enumerated candidate to the base schedule *)
Definition stmt_neighbors_are_applications : Prop :=
  forall nw s l, neighbors nw s = Ok l ->
    exists cs, candidates nw s = Ok cs /\
      forall c s', In (c, s') l -> In c cs /\ apply_cand nw s c = Ok s'.
(* consequence: truthful objective components for every candidate *)
Definition stmt_neighbors_objective_truthful : Prop :=
  forall nw s l, reachable nw s -> neighbors nw s = Ok l -> forall c s', In (c, s') l ->
    ViolOK s' /\ CostsOK nw s' /\
    (NoDup (coverable_nodes nw) -> (forall n, In n (nw_maint nw) -> is_service (nd nw n) = false) -> UnservedOK nw s').
