(* SwapsStmts2.v — C11: candidates of the neighbourhood stay inside the histories for which the structural
   invariants are proved: valid Path arguments and fit_reassign only between different tours ([wreachable]). *)
From RS Require Import Base Network NetSpec Tour TourStmts Transition Schedule SchedInv SchedStruct SchedListFacts Swaps.

Section W.
Variable nw : network.
Inductive wstep : schedule -> schedule -> Prop :=
| ws_spawn s ty path s' v : valid_path nw path -> spawn_vehicle_for_path nw s ty path = Ok (s', v) -> wstep s s'
| ws_spawn_dummy s d ty s' v : spawn_to_replace_dummy nw s d ty = Ok (s', v) -> wstep s s'
| ws_delete s v s' : replace_vehicle_by_dummy nw s v = Ok s' -> wstep s s'
| ws_add_path s v path s' c : valid_path nw path -> add_path_to_vehicle_tour nw s v path = Ok (s', c) -> wstep s s'
| ws_remove_segment s seg v s' : remove_segment nw s seg v = Ok s' -> wstep s s'
| ws_fit s seg p r s' : p <> r -> fit_reassign nw s seg p r = Ok s' -> wstep s s'
| ws_override s seg p r s' d : override_reassign nw s seg p r = Ok (s', d) -> wstep s s'
| ws_improve s vs s' : improve_depots nw s vs = Ok s' -> wstep s s'
| ws_greedy s s' : reassign_end_depots_greedily nw s = Ok s' -> wstep s s'
| ws_recompute s ts s' : recompute_transitions_for nw s ts = Ok s' -> wstep s s'
| ws_consistent s s' : reassign_end_depots_consistent nw s = Ok s' -> wstep s s'.
Inductive wreachable : schedule -> Prop :=
| wr_empty s : empty_schedule nw = Ok s -> wreachable s
| wr_step s s' : wreachable s -> wstep s s' -> wreachable s'.

Definition stmt_wreachable_sub : Prop :=
  forall s, wreachable s -> vreachable nw s /\ dreachable nw s /\ reachable nw s.

(* the listed maintenance ids are maintenance nodes (true of every loaded network) *)
Definition maint_listed_ok : Prop := forall m, In m (nw_maint nw) -> is_maint (nd nw m) = true.

Definition stmt_neighbors_wreachable : Prop :=
  net_ok_b nw = true -> maint_listed_ok ->
  forall s l, wreachable s -> neighbors nw s = Ok l -> forall c s', In (c, s') l -> wreachable s'.

(* C11: "each candidate ... is itself a structurally valid schedule" — tours, listings, formation and track limits *)
Definition stmt_neighbors_structurally_valid : Prop :=
  net_ok_b nw = true -> maint_listed_ok ->
  forall s l, wreachable s -> neighbors nw s = Ok l -> forall c s', In (c, s') l ->
    ToursOK nw s' /\ ListingOK nw s' /\ FormLimitsOK nw s' /\ UsageOK nw s'.
End W.
