(* TOpt.v — executable model of the transition optimisation stage:
     solver/src/transition_cycle_tsp/{mod.rs, transition_cycle_neighborhood.rs, transition_cycle_objective.rs}
       (sequential LocalSearchSolver with the default Minimizer over the 3-opt neighbourhood of ONE rotation cycle,
        objective = the cycle's maintenance counter),
     solver/src/transition_local_search/{mod.rs, transition_neighborhood.rs, transition_objective.rs}
       (ParallelLocalSearchSolver with the ParallelMinimizer over "exchange / move a vehicle between two cycles, then run
        the cycle TSP on both", objective = (maintenance violation, maintenance counter)),
     and the loop over the vehicle types in server::solve_instance.
   rapid_solve's sequential Minimizer uses Iterator::min_by (the FIRST of the minimal elements: [first_min]); the
   parallel one uses rayon's min_by, whose choice among equal minima is unspecified: oracle [pick] with the contract
   LocalSearch.pick_ok.  Loops run on fuel; running out of fuel is the explicit result OutOfFuel.  Definitions only. *)
From RS Require Export Base Network Transition LocalSearch.

Fixpoint mapM {A B} (f : A -> res B) (l : list A) : res (list B) :=
  match l with
  | [] => Ok []
  | x :: r => do y <- f x; do ys <- mapM f r; Ok (y :: ys)
  end.

(* Iterator::min_by = reduce(|x, y| if compare(x, y) == Greater { y } else { x }) *)
Definition first_min {A} (key : A -> list Z) (l : list A) : option A :=
  fold_left (fun best x => match best with
                           | None => Some x
                           | Some b => if lex_lt (key x) (key b) then Some x else Some b
                           end) l None.

Section TOpt.
Variable nw : network.
Variable tours : tours_fn.

Definition cycle := (list vehicle_id * Z)%type.

(** ** the cycle TSP (3-opt local search on one cycle) *)
Definition cyc_obj (c : cycle) : list Z := [snd c].
Definition cyc_neighbors (c : cycle) : res (list cycle) :=
  mapM (fun '(i, j, k) => three_opt nw c i j k tours) (three_opt_indices (length (fst c))).

Fixpoint cyc_tsp (fuel : nat) (c : cycle) : res cycle :=
  match fuel with
  | O => OutOfFuel
  | S f =>
      do l <- cyc_neighbors c;
      match first_min cyc_obj l with
      | Some b => if lex_lt (cyc_obj b) (cyc_obj c) then cyc_tsp f b else Ok c
      | None => Ok c            (* "no swap possible" *)
      end
  end.

(** ** the neighbourhood of a transition *)
(* (first_cycle_idx, second_cycle_idx) with first < second, in the order of the nested enumerate().skip() *)
Definition cycle_pairs (n : nat) : list (nat * nat) :=
  flat_map (fun i => map (fun j => (i, j)) (seq (i + 1) (n - (i + 1)))) (seq 0 n).

Definition with_none (l : list vehicle_id) : list (option vehicle_id) := map Some l ++ [None].

Definition swap_t := (nat * nat * option vehicle_id * option vehicle_id)%type.
Definition swaps_of (t : transition) : list swap_t :=
  flat_map (fun '(i, j) =>
      let ci := nth i (tr_cycles t) ([], 0) in
      let cj := nth j (tr_cycles t) ([], 0) in
      flat_map (fun a => map (fun b => (i, j, a, b)) (with_none (fst cj))) (with_none (fst ci)))
    (cycle_pairs (length (tr_cycles t))).

Definition apply_swap (t : transition) (sw : swap_t) : res transition :=
  let '(i, j, a, b) := sw in
  match a, b with
  | Some x, Some y => do t1 <- move_vehicle nw t x j tours; move_vehicle nw t1 y i tours
  | Some x, None => move_vehicle nw t x j tours
  | None, Some y => move_vehicle nw t y i tours
  | None, None => Ok t
  end.

(* new_transition.get_cycle(idx) (unwrap), the TSP on it, replace_cycle *)
Definition tsp_on (cfuel : nat) (t : transition) (k : nat) : res transition :=
  do c <- unwrap_opt (nth_error (tr_cycles t) k);
  do c' <- cyc_tsp cfuel c;
  replace_cycle t k c'.

Definition neighbor_of (cfuel : nat) (t : transition) (sw : swap_t) : res transition :=
  let '(i, j, _, _) := sw in
  do t1 <- apply_swap t sw;
  do t2 <- tsp_on cfuel t1 i;
  tsp_on cfuel t2 j.

Definition topt_neighbors (cfuel : nat) (t : transition) : res (list transition) :=
  mapM (neighbor_of cfuel t) (swaps_of t).

(** ** the transition local search *)
Definition topt_obj (t : transition) : list Z := [tr_viol t; tr_count t].

Variable pick : list transition -> option transition.

(* (result, accepted steps in order) *)
Fixpoint topt_run (fuel cfuel : nat) (t : transition) : res (transition * list transition) :=
  match fuel with
  | O => OutOfFuel
  | S f =>
      do l <- topt_neighbors cfuel t;
      match pick l with
      | Some n =>
          if lex_lt (topt_obj n) (topt_obj t) then
            do (r, steps) <- topt_run f cfuel n; Ok (r, n :: steps)
          else Ok (t, [])
      | None => Ok (t, [])
      end
  end.
End TOpt.

(** ** the loop over the vehicle types in solve_instance: every type's transition of the search result is optimised
       against the tours of the search result *)
Definition optimise_all (nw : network) (tours : tours_fn) (pick : list transition -> option transition)
  (fuel cfuel : nat) (trans : list (Z * transition)) : res (list (Z * transition)) :=
  mapM (fun '(ty, t) => do (r, _) <- topt_run nw tours pick fuel cfuel t; Ok (ty, r)) trans.

(** ** executable reading of one recorded step of the transition search (evaluated by the driver on the recorded
       trajectory): the accepted transition is one of the model's neighbours, none of them is strictly better, and it is
       strictly better than the current one *)
Definition tr_eqb (a b : transition) : bool :=
  let ceq (x y : list vehicle_id * Z) :=
    (Nat.eqb (length (fst x)) (length (fst y))) && forallb (fun '(u, v) => vid_eqb u v) (combine (fst x) (fst y)) &&
    (snd x =? snd y) in
  Nat.eqb (length (tr_cycles a)) (length (tr_cycles b)) &&
  forallb (fun '(x, y) => ceq x y) (combine (tr_cycles a) (tr_cycles b)) &&
  (tr_viol a =? tr_viol b) && (tr_count a =? tr_count b).

Definition step_codes (l : list transition) (cur next : transition) : list Z :=
  (if existsb (tr_eqb next) l then [] else [1521]) ++
  (if forallb (fun m => negb (lex_lt (topt_obj m) (topt_obj next))) l then [] else [1522]) ++
  (if lex_lt (topt_obj next) (topt_obj cur) then [] else [1523]).
(* the search stopped at [cur]: no neighbour is strictly better *)
Definition stop_codes (l : list transition) (cur : transition) : list Z :=
  if forallb (fun m => negb (lex_lt (topt_obj m) (topt_obj cur))) l then [] else [1524].
