(* TOptFacts.v — proof of [stmt_topt_path_inv] (TOptStmts.v): every finite sequence of the transition optimiser's
   moves keeps the bookkeeping invariant [TInv] over the same vehicles. *)
From Coq Require Import Permutation.
From RS Require Import Base BaseFacts Network Transition TransSpec TransStmts TransFacts TOptStmts.

(* [TInv] depends on the member list only through membership *)
Lemma TInv_members_ext nw tours m m' t :
  (forall v, In v m <-> In v m') -> TInv nw tours m t -> TInv nw tours m' t.
Proof.
  intros E I. destruct I as [H1 H2 H3 H4 H5 H6 H7 H8].
  constructor; auto.
  intros v. rewrite H2. apply E.
Qed.

Lemma TInv_perm nw tours m m' t :
  Permutation m' m -> TInv nw tours m t -> TInv nw tours m' t.
Proof.
  intros P. apply TInv_members_ext. intros v. split; intros H.
  - eapply Permutation_in; [apply Permutation_sym|]; eauto.
  - eapply Permutation_in; eauto.
Qed.

Lemma tours_total_perm tours m m' : Permutation m' m -> tours_total tours m -> tours_total tours m'.
Proof. intros P H v Hv. apply H. eapply Permutation_in; eauto. Qed.

(* [move_vehicle] only succeeds on a vehicle of the transition: [remove_vehicle] unwraps its lookup entry *)
Lemma move_ok_member nw tours m t v k t' :
  TInv nw tours m t -> move_vehicle nw t v k tours = Ok t' -> In v m.
Proof.
  intros I H. unfold move_vehicle in H.
  destruct (remove_vehicle nw t v no_tours tours) as [t1| | |] eqn:E1; cbn [bind] in H; try discriminate.
  unfold remove_vehicle in E1.
  destruct (lookup_get v (tr_lookup t)) as [k0|] eqn:El; cbn [unwrap_opt bind] in E1; [|discriminate].
  apply (ti_lookup _ _ _ _ I) in El as (c & Hc & Hv).
  eapply inv_cycle_in; eauto.
Qed.

Lemma without_snoc_mem v (m : list vehicle_id) :
  In v m -> forall x, In x (without v m ++ [v]) <-> In x m.
Proof.
  intros Hv x. unfold without. rewrite in_app_iff, filter_In. cbn. split.
  - intros [[H _]|[<-|[]]]; auto.
  - intros H. destruct (vid_eqb x v) eqn:E.
    + apply vid_eqb_eq in E. subst. auto.
    + left. split; auto.
Qed.

(* one move keeps the invariant over the very same member list *)
Lemma topt_step_inv nw tours m t t' :
  TInv nw tours m t -> tours_total tours m -> topt_step nw tours t t' -> TInv nw tours m t'.
Proof.
  intros I Htot S. destruct S as [t v k t' H | t c ci i j k c' t' Hc Hij Hjk Hk H3 Hr].
  - assert (Hv : In v m) by (eapply move_ok_member; eauto).
    eapply TInv_members_ext; [apply (without_snoc_mem v m Hv)|].
    eapply move_inv; eauto.
  - assert (Hall : forall x, In x (fst c) -> tours x <> None).
    { intros x Hx. apply Htot. eapply inv_cycle_in; eauto. }
    destruct (three_opt_exact nw tours c i j k c' Hall Hij Hjk Hk (ti_counter _ _ _ _ I _ _ Hc) H3) as [P Hcnt].
    eapply replace_cycle_inv; eauto.
Qed.

Theorem topt_path_same_members nw tours m t t' :
  TInv nw tours m t -> tours_total tours m -> topt_path nw tours t t' -> TInv nw tours m t'.
Proof.
  intros I Htot P. induction P as [t | t t1 t2 S P IH]; auto.
  apply IH. eapply topt_step_inv; eauto.
Qed.

Theorem topt_path_inv : forall nw tours, stmt_topt_path_inv nw tours.
Proof.
  intros nw tours m t t' I Htot P. exists m. split; [apply Permutation_refl|].
  eapply topt_path_same_members; eauto.
Qed.
Print Assumptions topt_path_inv.
