(* TOptFacts2.v — proofs of the statements of TOptStmts2.v about the functional model of the transition optimisation
   (TOpt.v): every enumerated neighbour / every run is a path of optimiser moves, the run result is valid, not worse
   and locally optimal, and generating the neighbourhood never panics.  Termination: TOptFacts3.v. *)
From Coq Require Import Permutation ZifyBool.
From RS Require Import Base BaseFacts Network Transition TransSpec TransStmts TransFacts TOptStmts TOptFacts
  LocalSearch LSFacts TOpt TOptStmts2.

Local Open Scope Z_scope.

Ltac monE H E :=
  match type of H with
  | bind ?x _ = Ok _ => destruct x eqn:E; cbn [bind] in H; [| discriminate H ..]
  end.

(** * Generic: mapM, first_min, lex on short vectors *)
Lemma mapM_in {A B} (f : A -> res B) l : forall ys, mapM f l = Ok ys ->
  forall y, In y ys -> exists x, In x l /\ f x = Ok y.
Proof.
  induction l as [|x r IH]; intros ys H y Hy; cbn [mapM] in H.
  - inversion H; subst. destruct Hy.
  - monE H E1. monE H E2. inversion H; subst ys; clear H. destruct Hy as [<-|Hy].
    + exists x. split; [left; reflexivity | assumption].
    + destruct (IH _ eq_refl y Hy) as (x' & H1 & H2). exists x'. split; [right; assumption | assumption].
Qed.

Lemma mapM_ok {A B} (f : A -> res B) l :
  (forall x, In x l -> exists y, f x = Ok y) -> exists ys, mapM f l = Ok ys.
Proof.
  induction l as [|x r IH]; intros H; cbn [mapM].
  - eauto.
  - destruct (H x (or_introl eq_refl)) as (y & Hy). rewrite Hy. cbn [bind].
    destruct IH as (ys & Hys); [intros z Hz; apply H; right; assumption|].
    rewrite Hys. cbn [bind]. eauto.
Qed.

(* neither Panic nor Err *)
Definition np {A} (r : res A) : Prop := match r with Panic | Err => False | _ => True end.

Lemma np_bind {A B} (r : res A) (f : A -> res B) :
  np r -> (forall a, r = Ok a -> np (f a)) -> np (bind r f).
Proof. destruct r; cbn [bind np]; auto. Qed.

Lemma mapM_np {A B} (f : A -> res B) l : (forall x, In x l -> np (f x)) -> np (mapM f l).
Proof.
  induction l as [|x r IH]; intros H; cbn [mapM]; [exact I|].
  apply np_bind; [apply H; left; reflexivity|]. intros y _.
  apply np_bind; [apply IH; intros z Hz; apply H; right; assumption|]. intros ys _. exact I.
Qed.

Definition fm_step {A} (key : A -> list Z) (best : option A) (x : A) : option A :=
  match best with
  | None => Some x
  | Some b => if lex_lt (key x) (key b) then Some x else Some b
  end.

Lemma first_min_aux {A} (key : A -> list Z) (l : list A) : forall b0,
  exists b, fold_left (fm_step key) l (Some b0) = Some b /\ (b = b0 \/ In b l).
Proof.
  induction l as [|x r IH]; intros b0; cbn [fold_left].
  - exists b0. auto.
  - cbn [fm_step]. destruct (lex_lt (key x) (key b0)).
    + destruct (IH x) as (b & H1 & [H2|H2]); exists b; split; auto; right; [left; auto | right; auto].
    + destruct (IH b0) as (b & H1 & [H2|H2]); exists b; split; auto. right; right; auto.
Qed.

Lemma first_min_in {A} (key : A -> list Z) (l : list A) b : first_min key l = Some b -> In b l.
Proof.
  unfold first_min. change (fold_left (fm_step key) l None = Some b -> In b l).
  destruct l as [|x r]; cbn [fold_left fm_step]; [discriminate|].
  destruct (first_min_aux key r x) as (b' & H1 & H2). rewrite H1. intros E; inversion E; subst b'.
  destruct H2 as [->|H2]; [left; reflexivity | right; assumption].
Qed.

Lemma lex_lt1 x y : lex_lt [x] [y] = true <-> x < y.
Proof.
  unfold lex_lt. cbn [lex_cmp]. destruct (Z.compare_spec x y) as [E|E|E]; split; intros H; try lia; try discriminate; auto.
Qed.

Lemma lex_lt2 v1 c1 v2 c2 : lex_lt [v1; c1] [v2; c2] = true <-> v1 < v2 \/ (v1 = v2 /\ c1 < c2).
Proof.
  unfold lex_lt. cbn [lex_cmp].
  destruct (Z.compare_spec v1 v2) as [E|E|E]; destruct (Z.compare_spec c1 c2) as [F|F|F];
    split; intros H; try lia; try discriminate; auto.
Qed.

(** * set_nth, replace_cycle *)
Lemma set_nth_length {A} k (x : A) l : length (set_nth k x l) = length l.
Proof. revert k; induction l as [|y l IH]; intros [|k]; cbn [set_nth length]; auto. Qed.

Lemma set_nth_twice {A} k (x y : A) l : set_nth k y (set_nth k x l) = set_nth k y l.
Proof. revert k; induction l as [|z l IH]; intros [|k]; cbn [set_nth]; auto. now rewrite IH. Qed.

Lemma set_nth_same {A} k (x : A) l : nth_error l k = Some x -> set_nth k x l = l.
Proof.
  revert k; induction l as [|z l IH]; intros [|k] H; cbn [set_nth nth_error] in *; try discriminate.
  - inversion H; auto.
  - now rewrite IH.
Qed.

Lemma nth_error_set_nth {A} k (x : A) l : (k < length l)%nat -> nth_error (set_nth k x l) k = Some x.
Proof.
  revert k; induction l as [|z l IH]; intros [|k] H; cbn [set_nth nth_error length] in *; try lia; auto.
  apply IH. lia.
Qed.

Lemma nth_error_lt {A} (l : list A) k c : nth_error l k = Some c -> (k < length l)%nat.
Proof. intros H. apply nth_error_Some. congruence. Qed.

Lemma nth_error_ex {A} (l : list A) k : (k < length l)%nat -> exists c, nth_error l k = Some c.
Proof. intros H. destruct (nth_error l k) eqn:E; eauto. apply nth_error_None in E. lia. Qed.

Lemma replace_cycle_ok t k c b : nth_error (tr_cycles t) k = Some c ->
  exists t1, replace_cycle t k b = Ok t1 /\ nth_error (tr_cycles t1) k = Some b /\
             length (tr_cycles t1) = length (tr_cycles t).
Proof.
  intros H. unfold replace_cycle. rewrite H. cbn [unwrap_opt bind]. eexists. split; [reflexivity|].
  cbn [tr_cycles]. split; [apply nth_error_set_nth; eapply nth_error_lt; eauto | apply set_nth_length].
Qed.

Lemma replace_twice t k c b t1 c' : nth_error (tr_cycles t) k = Some c ->
  replace_cycle t k b = Ok t1 -> replace_cycle t1 k c' = replace_cycle t k c'.
Proof.
  intros H H1. unfold replace_cycle in *. rewrite H in *. cbn [unwrap_opt bind] in *.
  inversion H1; subst t1; clear H1. cbn [tr_cycles tr_viol tr_count tr_lookup tr_empty].
  rewrite nth_error_set_nth by (eapply nth_error_lt; eauto). cbn [unwrap_opt bind].
  rewrite set_nth_twice. f_equal. f_equal; lia.
Qed.

Lemma replace_self t k c : nth_error (tr_cycles t) k = Some c -> replace_cycle t k c = Ok t.
Proof.
  intros H. unfold replace_cycle. rewrite H. cbn [unwrap_opt bind]. rewrite (set_nth_same _ _ _ H).
  destruct t as [cs v n lk em]. cbn [tr_cycles tr_viol tr_count tr_lookup tr_empty]. f_equal. f_equal; lia.
Qed.

Section P.
Variable nw : network.
Variable tours : tours_fn.

Local Notation topt_path := (topt_path nw tours).
Local Notation topt_step := (topt_step nw tours).

Lemma topt_path_trans a b c : topt_path a b -> topt_path b c -> topt_path a c.
Proof. intros P Q. induction P as [t | t t1 t2 S P IH]; auto. eapply tp_step; eauto. Qed.

Lemma topt_path_one a b : topt_step a b -> topt_path a b.
Proof. intros S. eapply tp_step; [eassumption | apply tp_refl]. Qed.

(** * 1. every neighbour is reached by optimiser moves *)
Lemma cyc_neighbors_in c l b : cyc_neighbors nw tours c = Ok l -> In b l ->
  exists i j k, (i < j)%nat /\ (j < k)%nat /\ (k < length (fst c))%nat /\ three_opt nw c i j k tours = Ok b.
Proof.
  intros El Hb. unfold cyc_neighbors in El.
  destruct (mapM_in _ _ _ El b Hb) as ([[i j] k] & Hin & H3). cbv beta iota in H3.
  apply three_opt_indices_ok in Hin as (Hij & Hjk & Hkn). exists i, j, k. auto.
Qed.

Lemma cyc_tsp_chain fuel : forall c c' t k t',
  nth_error (tr_cycles t) k = Some c -> cyc_tsp nw tours fuel c = Ok c' -> replace_cycle t k c' = Ok t' ->
  topt_path t t'.
Proof.
  induction fuel as [|f IH]; intros c c' t k t' Hk H Hr; cbn [cyc_tsp] in H; [discriminate|].
  monE H El.
  assert (Stop : Ok c = Ok c' -> topt_path t t').
  { intros E. inversion E; subst c'. rewrite (replace_self _ _ _ Hk) in Hr. inversion Hr; subst. apply tp_refl. }
  destruct (first_min cyc_obj a) as [b|] eqn:Efm; [|auto].
  destruct (lex_lt (cyc_obj b) (cyc_obj c)) eqn:Elt; [|auto].
  apply first_min_in in Efm.
  destruct (cyc_neighbors_in _ _ _ El Efm) as (i & j & k0 & Hij & Hjk & Hkn & H3).
  destruct (replace_cycle_ok t k c b Hk) as (t1 & Ht1 & Hnth & _).
  eapply tp_step.
  - exact (to_three_opt nw tours t c k i j k0 b t1 Hk Hij Hjk Hkn H3 Ht1).
  - eapply IH; eauto. rewrite (replace_twice _ _ _ _ _ _ Hk Ht1). assumption.
Qed.

Lemma tsp_on_path cfuel t k t' : tsp_on nw tours cfuel t k = Ok t' -> topt_path t t'.
Proof.
  intros H. unfold tsp_on in H.
  destruct (nth_error (tr_cycles t) k) as [c|] eqn:Ek; cbn [unwrap_opt bind] in H; [|discriminate].
  monE H Ec. eapply cyc_tsp_chain; eauto.
Qed.

Lemma apply_swap_path t sw t' : apply_swap nw tours t sw = Ok t' -> topt_path t t'.
Proof.
  destruct sw as [[[i j] [x|]] [y|]]; cbn [apply_swap]; intros H.
  - monE H E1. eapply tp_step; [eapply to_move; eauto|]. apply topt_path_one. eapply to_move; eauto.
  - apply topt_path_one. eapply to_move; eauto.
  - apply topt_path_one. eapply to_move; eauto.
  - inversion H; subst. apply tp_refl.
Qed.

Lemma neighbor_of_path cfuel t sw t' : neighbor_of nw tours cfuel t sw = Ok t' -> topt_path t t'.
Proof.
  destruct sw as [[[i j] a] b]. cbn [neighbor_of]. intros H.
  monE H E1. monE H E2.
  eapply topt_path_trans; [eapply apply_swap_path; eauto|].
  eapply topt_path_trans; eapply tsp_on_path; eauto.
Qed.

Theorem topt_neighbors_path_sec : stmt_topt_neighbors_path nw tours.
Proof.
  intros cfuel t l H n Hn. unfold topt_neighbors in H.
  destruct (mapM_in _ _ _ H n Hn) as (sw & _ & Hsw). eapply neighbor_of_path; eauto.
Qed.

(** * 2. the run *)
Notation pick_contract := (pick_ok transition topt_obj).

Lemma topt_run_inv pick f cfuel t r steps :
  topt_run nw tours pick (S f) cfuel t = Ok (r, steps) ->
  exists l, topt_neighbors nw tours cfuel t = Ok l /\
    ((exists n st, pick l = Some n /\ lex_lt (topt_obj n) (topt_obj t) = true /\
                   topt_run nw tours pick f cfuel n = Ok (r, st) /\ steps = n :: st) \/
     (r = t /\ steps = [] /\ forall n, pick l = Some n -> lex_lt (topt_obj n) (topt_obj t) = false)).
Proof.
  cbn [topt_run]. intros H. monE H El. exists a. split; [reflexivity|].
  destruct (pick a) as [n|] eqn:Ep.
  - destruct (lex_lt (topt_obj n) (topt_obj t)) eqn:Elt.
    + left. monE H Er. destruct a0 as [r' st']. inversion H; subst. exists n, st'. auto.
    + right. inversion H; subst. repeat split; auto. intros n' E. inversion E; subst; auto.
  - right. inversion H; subst. repeat split; auto. discriminate.
Qed.

Theorem topt_run_path_sec : stmt_topt_run_path nw tours.
Proof.
  intros pick Hp fuel. induction fuel as [|f IH]; intros cfuel t r steps H; [discriminate|].
  apply topt_run_inv in H as (l & Hl & [(n & st & Hpk & Hlt & Hr & ->)|(-> & -> & _)]); [|apply tp_refl].
  specialize (Hp l). rewrite Hpk in Hp. destruct Hp as [Hin _].
  eapply topt_path_trans; [eapply topt_neighbors_path_sec; eauto | eapply IH; eauto].
Qed.

Lemma topt_obj_len t : length (topt_obj t) = 2%nat.
Proof. reflexivity. Qed.

Lemma topt_run_descends pick fuel : forall cfuel t r steps,
  topt_run nw tours pick fuel cfuel t = Ok (r, steps) ->
  lex_le (topt_obj r) (topt_obj t) = true /\
  strictly_descending (map topt_obj (t :: steps)) = true /\
  last steps t = r.
Proof.
  induction fuel as [|f IH]; intros cfuel t r steps H; [discriminate|].
  apply topt_run_inv in H as (l & Hl & [(n & st & Hpk & Hlt & Hr & ->)|(-> & -> & _)]).
  - destruct (IH _ _ _ _ Hr) as (Hle & Hd & Hlast). split; [|split].
    + apply lex_lt_le. apply (lex_le_lt_trans _ (topt_obj n)); auto.
    + change (lex_lt (topt_obj n) (topt_obj t) && strictly_descending (map topt_obj (n :: st)) = true).
      rewrite Hlt, Hd. reflexivity.
    + rewrite last_cons. assumption.
  - split; [apply lex_le_refl | split; reflexivity].
Qed.

Theorem topt_run_valid_sec : stmt_topt_run_valid nw tours.
Proof.
  intros pick Hp m fuel cfuel t r steps I Htot H. split.
  - eapply topt_path_inv; eauto. eapply topt_run_path_sec; eauto.
  - eapply topt_run_descends; eauto.
Qed.

Theorem topt_run_local_opt_sec : stmt_topt_run_local_opt nw tours.
Proof.
  intros pick Hp fuel. induction fuel as [|f IH]; intros cfuel t r steps l H Hl n Hn; [discriminate|].
  apply topt_run_inv in H as (l' & Hl' & [(n' & st & Hpk & Hlt & Hr & ->)|(-> & -> & Hstop)]).
  - eapply IH; eauto.
  - rewrite Hl in Hl'. inversion Hl'; subst l'. specialize (Hp l).
    destruct (pick l) as [b|].
    + destruct Hp as [_ Hmin]. specialize (Hstop b eq_refl).
      destruct (lex_lt (topt_obj n) (topt_obj t)) eqn:Ent; [|reflexivity].
      exfalso. specialize (Hmin n Hn). apply lex_lt_false_le in Hmin.
      assert (lex_lt (topt_obj b) (topt_obj t) = true) by (apply (lex_le_lt_trans _ (topt_obj n)); auto).
      congruence.
    + rewrite Hp in Hn. destruct Hn.
Qed.

End P.

Theorem topt_neighbors_path : forall nw tours, stmt_topt_neighbors_path nw tours.
Proof. exact topt_neighbors_path_sec. Qed.
Theorem topt_run_path : forall nw tours, stmt_topt_run_path nw tours.
Proof. exact topt_run_path_sec. Qed.
Theorem topt_run_valid : forall nw tours, stmt_topt_run_valid nw tours.
Proof. exact topt_run_valid_sec. Qed.
Theorem topt_run_local_opt : forall nw tours, stmt_topt_run_local_opt nw tours.
Proof. exact topt_run_local_opt_sec. Qed.

(** * 3. no panic *)
Section NP.
Variable nw : network.
Variable tours : tours_fn.

Definition total_c (c : cycle) : Prop := forall v, In v (fst c) -> tours v <> None.
Definition exact_c (c : cycle) : Prop := snd c = cycle_counter nw tours (fst c).

Lemma at_ok (l : list vehicle_id) p : (forall v, In v l -> tours v <> None) -> (p < length l)%nat ->
  exists ii, (do v <- unwrap_opt (nth_error l p); unwrap_opt (tours v)) = Ok ii.
Proof.
  intros Ht Hp. destruct (nth_error_ex l p Hp) as (v & Hv). rewrite Hv. cbn [unwrap_opt bind].
  destruct (tours v) as [ii|] eqn:E; [cbn [unwrap_opt]; eauto|].
  exfalso. eapply Ht; eauto. eapply nth_error_In; eauto.
Qed.

Lemma three_opt_ok c i j k : total_c c -> (i < j)%nat -> (j < k)%nat -> (k < length (fst c))%nat ->
  exists c', three_opt nw c i j k tours = Ok c'.
Proof.
  intros Ht Hij Hjk Hk. unfold three_opt. cbv zeta.
  assert (En0 : Nat.eqb (length (fst c)) 0 = false) by (apply Nat.eqb_neq; lia). rewrite En0.
  assert (Hmod : forall p, (Nat.modulo p (length (fst c)) < length (fst c))%nat)
    by (intros p; apply Nat.mod_upper_bound; lia).
  destruct (at_ok (fst c) i Ht) as (ii & ->); [lia|]. cbn [bind].
  destruct (at_ok (fst c) (Nat.modulo (i + 1) (length (fst c))) Ht) as (ii1 & ->); [apply Hmod|]. cbn [bind].
  destruct (at_ok (fst c) j Ht) as (ij & ->); [lia|]. cbn [bind].
  destruct (at_ok (fst c) (Nat.modulo (j + 1) (length (fst c))) Ht) as (ij1 & ->); [apply Hmod|]. cbn [bind].
  destruct (at_ok (fst c) k Ht) as (ik & ->); [lia|]. cbn [bind].
  destruct (at_ok (fst c) (Nat.modulo (k + 1) (length (fst c))) Ht) as (ik1 & ->); [apply Hmod|]. cbn [bind].
  match goal with |- exists _, (if ?b then _ else _) = _ => destruct b eqn:E end; [eauto|].
  exfalso. rewrite !andb_false_iff, !Nat.leb_gt in E. lia.
Qed.

Lemma cyc_neighbors_ok c : total_c c -> exists l, cyc_neighbors nw tours c = Ok l.
Proof.
  intros Ht. unfold cyc_neighbors. apply mapM_ok. intros [[i j] k] Hin.
  apply three_opt_indices_ok in Hin as (Hij & Hjk & Hkn). apply three_opt_ok; auto.
Qed.

Lemma cyc_step_spec c l b : total_c c -> exact_c c -> cyc_neighbors nw tours c = Ok l -> In b l ->
  Permutation (fst b) (fst c) /\ exact_c b /\ total_c b.
Proof.
  intros Ht Hx El Hb.
  destruct (cyc_neighbors_in _ _ _ _ _ El Hb) as (i & j & k & Hij & Hjk & Hkn & H3).
  destruct (three_opt_exact nw tours c i j k b Ht Hij Hjk Hkn Hx H3) as [P Hb'].
  split; [auto | split; [auto|]]. intros v Hv. apply Ht. eapply Permutation_in; eauto.
Qed.

Lemma cyc_tsp_spec fuel : forall c c', total_c c -> exact_c c -> cyc_tsp nw tours fuel c = Ok c' ->
  Permutation (fst c') (fst c) /\ exact_c c' /\ snd c' <= snd c.
Proof.
  induction fuel as [|f IH]; intros c c' Ht Hx H; cbn [cyc_tsp] in H; [discriminate|].
  monE H El.
  assert (Stop : Ok c = Ok c' -> Permutation (fst c') (fst c) /\ exact_c c' /\ snd c' <= snd c).
  { intros E. inversion E; subst c'. repeat split; auto. lia. }
  destruct (first_min cyc_obj a) as [b|] eqn:Efm; [|auto].
  destruct (lex_lt (cyc_obj b) (cyc_obj c)) eqn:Elt; [|auto].
  apply first_min_in in Efm. destruct (cyc_step_spec _ _ _ Ht Hx El Efm) as (P & Xb & Tb).
  destruct (IH b c' Tb Xb H) as (P' & X' & L').
  unfold cyc_obj in Elt. apply lex_lt1 in Elt.
  split; [eapply perm_trans; eauto | split; [auto | lia]].
Qed.

Lemma cyc_tsp_np fuel : forall c, total_c c -> exact_c c -> np (cyc_tsp nw tours fuel c).
Proof.
  induction fuel as [|f IH]; intros c Ht Hx; cbn [cyc_tsp]; [exact I|].
  destruct (cyc_neighbors_ok c Ht) as (l & El). rewrite El. cbn [bind].
  destruct (first_min cyc_obj l) as [b|] eqn:Efm; [|exact I].
  destruct (lex_lt (cyc_obj b) (cyc_obj c)); [|exact I].
  apply first_min_in in Efm. destruct (cyc_step_spec _ _ _ Ht Hx El Efm) as (P & Xb & Tb). apply IH; auto.
Qed.

(** totality of the vehicle moves *)
Lemma member_cycle (t : transition) v : In v (members_of t) ->
  exists k c, nth_error (tr_cycles t) k = Some c /\ In v (fst c).
Proof.
  unfold members_of. intros H. apply in_concat in H as (l & Hl & Hv).
  apply in_map_iff in Hl as (c & <- & Hc). apply In_nth_error in Hc as (k & Hk). eauto.
Qed.

Lemma last_in_or {A} (l : list A) d : In (last l d) l \/ last l d = d.
Proof. destruct l as [|a l]; [right; reflexivity|]. left. apply last_in. discriminate. Qed.
Lemma hd_in_or {A} (l : list A) d : In (hd d l) l \/ hd d l = d.
Proof. destruct l as [|a l]; [right; reflexivity|]. left. cbn. auto. Qed.

Lemma tour_info_some x i : tours x = Some i -> tour_info no_tours tours x = Ok i.
Proof. intros E. unfold tour_info, no_tours. rewrite E. reflexivity. Qed.

Lemma cycle_infos m t k c : TInv nw tours m t -> tours_total tours m -> nth_error (tr_cycles t) k = Some c ->
  forall x, In x (fst c) -> exists i, tours x = Some i.
Proof.
  intros I Htot Ek x Hx. destruct (tours x) as [i|] eqn:E; [eauto|].
  exfalso. eapply Htot; [eapply inv_cycle_in; eauto | eauto].
Qed.

Lemma remove_ok m t v : TInv nw tours m t -> tours_total tours m -> In v m ->
  exists t1, remove_vehicle nw t v no_tours tours = Ok t1 /\ length (tr_cycles t1) = length (tr_cycles t).
Proof.
  intros I Htot Hv.
  destruct (member_cycle t v) as (k & c & Ek & Hvc); [apply (ti_members _ _ _ _ I); auto|].
  pose proof (inv_lookup_k _ _ _ _ _ _ _ I Ek Hvc) as El.
  pose proof (inv_cycle_nodup _ _ _ _ _ _ I Ek) as Hnd.
  destruct (split_nodup _ _ Hvc Hnd) as (pre & suf & Ec & Hp & Hsf).
  pose proof (cycle_infos _ _ _ _ I Htot Ek) as Hin.
  unfold remove_vehicle. rewrite El. cbn [unwrap_opt bind]. rewrite Ek. cbn [unwrap_opt bind].
  rewrite Ec, (without_split pre v suf Hp Hsf).
  destruct (pre ++ suf) as [|a R'] eqn:ER.
  - cbn [bind]. eexists; split; [reflexivity|]. cbn [with_cycle tr_cycles]. apply set_nth_length.
  - assert (Eps : exists e s, pred_succ_depots t v no_tours tours = Ok (e, s)).
    { unfold pred_succ_depots. rewrite El. cbn [unwrap_opt bind]. rewrite Ek. cbn [unwrap_opt bind]. cbv zeta.
      rewrite Ec, index_of_split by auto. cbn [unwrap_opt bind]. rewrite pred_list, succ_list. cbn [unwrap_opt bind].
      assert (Hsub : forall x, In x (suf ++ pre) \/ x = v -> In x (fst c)).
      { intros x. rewrite Ec, !in_app_iff. cbn [In]. intuition. }
      destruct (Hin (last (suf ++ pre) v)) as (ip & Hip); [apply Hsub, last_in_or|].
      destruct (Hin (hd v (suf ++ pre))) as (isu & Hisu); [apply Hsub, hd_in_or|].
      rewrite (tour_info_some _ _ Hip). cbn [bind]. rewrite (tour_info_some _ _ Hisu). cbn [bind]. eauto. }
    destruct Eps as (e & s & Eps). rewrite Eps. cbn [bind].
    destruct (Hin v Hvc) as (iv & Hiv). rewrite Hiv. cbn [unwrap_opt bind].
    eexists; split; [reflexivity|]. cbn [with_cycle tr_cycles]. apply set_nth_length.
Qed.

Lemma add_end_ok m t v k : TInv nw tours m t -> tours_total tours m -> tours v <> None ->
  (k < length (tr_cycles t))%nat ->
  exists t', add_vehicle_at_the_end nw t v k no_tours tours = Ok t' /\ length (tr_cycles t') = length (tr_cycles t).
Proof.
  intros I Htot Hv Hk. destruct (nth_error_ex _ _ Hk) as (c & Ek).
  pose proof (cycle_infos _ _ _ _ I Htot Ek) as Hin.
  unfold add_vehicle_at_the_end. cbv zeta. rewrite Ek. cbn [unwrap_opt bind].
  destruct (tours v) as [iv|] eqn:Eiv; [|congruence].
  rewrite (tour_info_some _ _ Eiv). cbn [bind].
  destruct (fst c) as [|a l'] eqn:Ec.
  - cbn [app length Nat.eqb bind]. eexists; split; [reflexivity|]. cbn [with_cycle tr_cycles]. apply set_nth_length.
  - assert (Hl : a :: l' <> []) by discriminate. rewrite <- Ec in *.
    assert (E1 : Nat.eqb (length (fst c ++ [v])) 1 = false).
    { apply Nat.eqb_neq. rewrite app_length, Ec. cbn. lia. }
    rewrite E1. rewrite nth_error_penult by auto. cbn [unwrap_opt bind].
    destruct (Hin (last (fst c) v)) as (ip & Hip); [apply last_in; auto|].
    rewrite (tour_info_some _ _ Hip). cbn [bind].
    assert (Eh : hd_error (fst c ++ [v]) = Some (hd v (fst c))) by (rewrite Ec; reflexivity).
    rewrite Eh. cbn [unwrap_opt bind].
    destruct (Hin (hd v (fst c))) as (ifst & Hif); [apply hd_in; auto|].
    rewrite (tour_info_some _ _ Hif). cbn [bind].
    eexists; split; [reflexivity|]. cbn [with_cycle tr_cycles]. apply set_nth_length.
Qed.

Lemma move_ok m t v k : TInv nw tours m t -> tours_total tours m -> In v m -> (k < length (tr_cycles t))%nat ->
  exists t', move_vehicle nw t v k tours = Ok t' /\ TInv nw tours m t' /\
             length (tr_cycles t') = length (tr_cycles t).
Proof.
  intros I Htot Hv Hk.
  destruct (remove_ok m t v I Htot Hv) as (t1 & E1 & L1).
  assert (I1 : TInv nw tours (without v m) t1).
  { change tours with (eff no_tours tours) in I, Htot |- *. eapply remove_inv; eauto. }
  destruct (add_end_ok (without v m) t1 v k I1) as (t' & E2 & L2).
  - intros x Hx. apply Htot. unfold without in Hx. apply filter_In in Hx. tauto.
  - apply Htot; auto.
  - lia.
  - assert (Em : move_vehicle nw t v k tours = Ok t') by (unfold move_vehicle; rewrite E1; exact E2).
    exists t'. split; [exact Em|]. split; [|lia].
    eapply TInv_members_ext; [apply (without_snoc_mem v m Hv)|]. eapply move_inv; eauto.
Qed.

Lemma apply_swap_ok m t i j a b : TInv nw tours m t -> tours_total tours m ->
  (i < length (tr_cycles t))%nat -> (j < length (tr_cycles t))%nat ->
  (forall x, a = Some x -> In x m) -> (forall y, b = Some y -> In y m) ->
  exists t', apply_swap nw tours t (i, j, a, b) = Ok t' /\ TInv nw tours m t' /\
             length (tr_cycles t') = length (tr_cycles t).
Proof.
  intros I Htot Hi Hj Ha Hb. destruct a as [x|]; destruct b as [y|]; cbn [apply_swap].
  - destruct (move_ok m t x j I Htot (Ha x eq_refl) Hj) as (t1 & E1 & I1 & L1). rewrite E1. cbn [bind].
    destruct (move_ok m t1 y i I1 Htot (Hb y eq_refl)) as (t2 & E2 & I2 & L2); [lia|].
    exists t2. split; [auto | split; [auto | lia]].
  - apply move_ok; auto.
  - apply move_ok; auto.
  - eauto.
Qed.

Lemma tsp_on_ok m cfuel t k : TInv nw tours m t -> tours_total tours m -> (k < length (tr_cycles t))%nat ->
  np (tsp_on nw tours cfuel t k) /\
  forall t', tsp_on nw tours cfuel t k = Ok t' -> TInv nw tours m t' /\ length (tr_cycles t') = length (tr_cycles t).
Proof.
  intros I Htot Hk. destruct (nth_error_ex _ _ Hk) as (c & Ek).
  assert (Ht : total_c c) by (intros x Hx; apply Htot; eapply inv_cycle_in; eauto).
  assert (Hx : exact_c c) by (apply (ti_counter _ _ _ _ I _ _ Ek)).
  unfold tsp_on. rewrite Ek. cbn [unwrap_opt bind]. split.
  - apply np_bind; [apply cyc_tsp_np; auto|]. intros c' _.
    destruct (replace_cycle_ok t k c c' Ek) as (t1 & E1 & _). rewrite E1. exact Logic.I.
  - intros t' H. monE H Ec. destruct (cyc_tsp_spec _ _ _ Ht Hx Ec) as (P & X' & _).
    split; [eapply replace_cycle_inv; eauto|].
    destruct (replace_cycle_ok t k c a Ek) as (t1 & E1 & _ & L1). congruence.
Qed.

Lemma with_none_in (l : list vehicle_id) a : In a (with_none l) -> forall x, a = Some x -> In x l.
Proof.
  unfold with_none. rewrite in_app_iff. intros [H|[<-|[]]] x E; [|discriminate].
  subst a. apply in_map_iff in H as (x' & E' & Hx'). inversion E'; subst; auto.
Qed.

Lemma cycle_pairs_in n i j : In (i, j) (cycle_pairs n) -> (i < j)%nat /\ (j < n)%nat.
Proof.
  unfold cycle_pairs. intros H. apply in_flat_map in H as (i' & Hi & H).
  apply in_map_iff in H as (j' & E & Hj). inversion E; subst. apply in_seq in Hi, Hj. lia.
Qed.

Lemma swaps_of_in t i j a b : In (i, j, a, b) (swaps_of t) ->
  (i < j)%nat /\ (j < length (tr_cycles t))%nat /\
  (forall x, a = Some x -> In x (fst (nth i (tr_cycles t) ([], 0)))) /\
  (forall y, b = Some y -> In y (fst (nth j (tr_cycles t) ([], 0)))).
Proof.
  unfold swaps_of. intros H. apply in_flat_map in H as ([i' j'] & Hp & H). cbv beta iota zeta in H.
  apply in_flat_map in H as (a' & Ha & H). apply in_map_iff in H as (b' & E & Hb). inversion E; subst.
  apply cycle_pairs_in in Hp as [H1 H2]. split; [auto | split; [auto|]]. split.
  - apply with_none_in; auto.
  - apply with_none_in; auto.
Qed.

Lemma nth_cycle_in m t i x : TInv nw tours m t -> (i < length (tr_cycles t))%nat ->
  In x (fst (nth i (tr_cycles t) ([], 0))) -> In x m.
Proof.
  intros I Hi Hx. eapply inv_cycle_in; eauto. apply nth_error_nth'. exact Hi.
Qed.

Lemma neighbor_of_ok m cfuel t sw : TInv nw tours m t -> tours_total tours m -> In sw (swaps_of t) ->
  np (neighbor_of nw tours cfuel t sw) /\
  forall t', neighbor_of nw tours cfuel t sw = Ok t' -> TInv nw tours m t'.
Proof.
  intros I Htot Hsw. destruct sw as [[[i j] a] b].
  apply swaps_of_in in Hsw as (Hij & Hj & Ha & Hb).
  destruct (apply_swap_ok m t i j a b I Htot) as (t1 & E1 & I1 & L1); [lia | lia | | |].
  { intros x E. apply (nth_cycle_in m t i x I); [lia | auto]. }
  { intros y E. apply (nth_cycle_in m t j y I); [lia | auto]. }
  cbn [neighbor_of]. rewrite E1. cbn [bind].
  destruct (tsp_on_ok m cfuel t1 i I1 Htot) as [N2 S2]; [lia|]. split.
  - apply np_bind; [exact N2|]. intros t2 E2. destruct (S2 t2 E2) as [I2 L2].
    apply (tsp_on_ok m cfuel t2 j I2 Htot). lia.
  - intros t' H. monE H E2. destruct (S2 _ eq_refl) as [I2 L2].
    destruct (tsp_on_ok m cfuel a0 j I2 Htot) as [_ S3]; [lia|]. apply (S3 t' H).
Qed.

Theorem topt_neighbors_no_panic_sec : stmt_topt_neighbors_no_panic nw tours.
Proof.
  intros m cfuel t I Htot. change (np (topt_neighbors nw tours cfuel t)).
  unfold topt_neighbors. apply mapM_np. intros sw Hsw. eapply neighbor_of_ok; eauto.
Qed.

(* every enumerated neighbour keeps the invariant over the same member list *)
Lemma topt_neighbors_inv m cfuel t l n : TInv nw tours m t -> tours_total tours m ->
  topt_neighbors nw tours cfuel t = Ok l -> In n l -> TInv nw tours m n.
Proof.
  intros I Htot H Hn. eapply topt_path_same_members; eauto. eapply topt_neighbors_path_sec; eauto.
Qed.
End NP.

Theorem topt_neighbors_no_panic : forall nw tours, stmt_topt_neighbors_no_panic nw tours.
Proof. exact topt_neighbors_no_panic_sec. Qed.

Print Assumptions topt_neighbors_path.
Print Assumptions topt_run_path.
Print Assumptions topt_run_valid.
Print Assumptions topt_run_local_opt.
Print Assumptions topt_neighbors_no_panic.
