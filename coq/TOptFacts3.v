(* TOptFacts3.v — termination of the transition optimisation (statements of TOptStmts2.v): transfers are bounded on
   networks without negative distances, the cycle 3-opt ends within |cycle| * D + 1 iterations, and the transition
   local search ends — whatever the minimiser picks — within fuel bounds that depend only on the start transition. *)
From Coq Require Import Permutation ZifyBool.
From RS Require Import Base BaseFacts Network Transition TransSpec TransStmts TransFacts TransFacts2 TOptStmts TOptFacts
  LocalSearch LSFacts TOpt TOptStmts2 TOptFacts2.

Local Open Scope Z_scope.

(** * transfers are bounded *)
Definition row_max (row : list (dist * duration)) : Z :=
  fold_right (fun '(d, _) acc => Z.max (dist_m_or d 0) acc) 0 row.
Definition mat_max (mx : list (list (dist * duration))) : Z :=
  fold_right (fun row acc => Z.max (row_max row) acc) 0 mx.

Lemma row_max_in row d t : In (d, t) row -> dist_m_or d 0 <= row_max row.
Proof.
  induction row as [|[d' t'] row IH]; cbn [In row_max fold_right]; [tauto|].
  intros [E|H]; [inversion E; subst; lia|]. specialize (IH H). unfold row_max in IH. lia.
Qed.

Lemma mat_max_in mx row : In row mx -> row_max row <= mat_max mx.
Proof.
  induction mx as [|r mx IH]; cbn [In mat_max fold_right]; [tauto|].
  intros [->|H]; [lia|]. specialize (IH H). unfold mat_max in IH. lia.
Qed.

Theorem transfers_bounded_thm : stmt_transfers_bounded.
Proof.
  intros nw H. exists (Z.max INF_DISTANCE (mat_max (nw_dh nw))). intros a b.
  assert (HI : 0 <= INF_DISTANCE) by (unfold INF_DISTANCE; lia).
  unfold transfer_m, dead_head_distance_between.
  generalize (n_end_loc (nd nw a)) (n_start_loc (nd nw b)). intros la lb.
  unfold loc_distance. destruct la as [x|]; destruct lb as [y|]; cbn [dist_m_or]; try lia.
  unfold dh_entry. destruct (nth_error (nw_dh nw) (Z.to_nat x)) as [row|] eqn:Er; [|cbn [dist_m_or]; lia].
  destruct (nth_error row (Z.to_nat y)) as [[d t]|] eqn:Ee; [|cbn [dist_m_or]; lia].
  apply nth_error_In in Er, Ee.
  unfold dh_dists_nonneg_b in H. rewrite forallb_forall in H. specialize (H row Er).
  rewrite forallb_forall in H. specialize (H (d, t) Ee). cbv beta iota in H.
  pose proof (row_max_in row d t Ee) as H1. pose proof (mat_max_in _ _ Er) as H2.
  destruct d as [z|]; cbn [dist_m_or] in *; lia.
Qed.

(** * counters of cycles over the same vehicles lie in a bounded interval *)
Lemma z_sum_perm l l' : Permutation l l' -> z_sum l = z_sum l'.
Proof. intros P. induction P; rewrite ?z_sum_cons in *; lia. Qed.

Lemma windows_length {A} (l : list A) : length (windows l) = (length l - 1)%nat.
Proof.
  induction l as [|a [|b r] IH]; [reflexivity | reflexivity |].
  change (windows (a :: b :: r)) with ((a, b) :: windows (b :: r)). cbn [length] in *. lia.
Qed.

Lemma cyc_pairs_length (l : list vehicle_id) : length (cyc_pairs l) = length l.
Proof.
  unfold cyc_pairs. destruct l as [|f r]; [reflexivity|]. rewrite windows_length, app_length. cbn [length]. lia.
Qed.

Lemma msum_perm tours l l' : Permutation l l' -> msum tours l = msum tours l'.
Proof. intros P. unfold msum. apply z_sum_perm. now apply Permutation_map. Qed.

Definition pos (tours : tours_fn) (l : list vehicle_id) : Z := z_sum (map (fun v => Z.max 0 (mc_of_v tours v)) l).

Lemma pos_perm tours l l' : Permutation l l' -> pos tours l = pos tours l'.
Proof. intros P. unfold pos. apply z_sum_perm. now apply Permutation_map. Qed.
Lemma pos_app tours l1 l2 : pos tours (l1 ++ l2) = pos tours l1 + pos tours l2.
Proof. unfold pos. now rewrite map_app, z_sum_app. Qed.
Lemma msum_le_pos tours l : 0 <= pos tours l /\ msum tours l <= pos tours l.
Proof.
  induction l as [|a l IH]; [unfold pos, msum; cbn; lia|].
  unfold pos, msum in *. cbn [map]. rewrite !z_sum_cons. lia.
Qed.

Lemma mu_lt K v1 x1 v2 x2 : 0 <= v1 -> 0 <= x1 < K -> 0 <= x2 < K ->
  v1 < v2 \/ (v1 = v2 /\ x1 < x2) -> v1 * K + x1 < v2 * K + x2.
Proof.
  intros Hv H1 H2 [H|[-> H]]; [|lia].
  assert (v1 * K + K <= v2 * K) by nia. lia.
Qed.

Section Bounds.
Variable nw : network.
Variable tours : tours_fn.
Variable D : Z.
Hypothesis HD : transfers_bounded nw D.

Lemma D_nonneg : 0 <= D.
Proof. specialize (HD (SD 0) (SD 0)). lia. Qed.

Lemma z_sum_bounds l : (forall x, In x l -> 0 <= x <= D) -> 0 <= z_sum l <= Z.of_nat (length l) * D.
Proof.
  induction l as [|a l IH]; intros H.
  - unfold z_sum. cbn. lia.
  - rewrite z_sum_cons. cbn [length]. rewrite Nat2Z.inj_succ.
    pose proof (H a (or_introl eq_refl)). specialize (IH (fun x Hx => H x (or_intror Hx))). lia.
Qed.

Lemma cycp_bounds l : 0 <= cycp nw tours l <= Z.of_nat (length l) * D.
Proof.
  unfold cycp. rewrite <- (cyc_pairs_length l), <- (map_length (fun '(a, b) => T nw tours a b) (cyc_pairs l)).
  apply z_sum_bounds. intros x Hx. apply in_map_iff in Hx as ([a b] & <- & _). unfold T. apply HD.
Qed.

Lemma cc_bounds l : msum tours l <= cycle_counter nw tours l <= msum tours l + Z.of_nat (length l) * D.
Proof. rewrite cc_eq. pose proof (cycp_bounds l). lia. Qed.

(** * the cycle 3-opt terminates *)
Lemma cyc_tsp_total fuel : forall c, total_c tours c -> exact_c nw tours c ->
  (Z.to_nat (snd c - msum tours (fst c)) + 1 <= fuel)%nat ->
  exists c', cyc_tsp nw tours fuel c = Ok c'.
Proof.
  induction fuel as [|f IH]; intros c Ht Hx Hf; [lia|]. cbn [cyc_tsp].
  destruct (cyc_neighbors_ok nw tours c Ht) as (l & El). rewrite El. cbn [bind].
  destruct (first_min cyc_obj l) as [b|] eqn:Efm; [|eauto].
  destruct (lex_lt (cyc_obj b) (cyc_obj c)) eqn:Elt; [|eauto].
  apply first_min_in in Efm. destruct (cyc_step_spec nw tours _ _ _ Ht Hx El Efm) as (P & Xb & Tb).
  apply IH; auto. unfold cyc_obj in Elt. apply lex_lt1 in Elt.
  rewrite (msum_perm tours _ _ P). pose proof (cc_bounds (fst b)) as Hb. unfold exact_c in Xb.
  rewrite (msum_perm tours _ _ P) in Hb. lia.
Qed.

Lemma cyc_tsp_total_len fuel c : total_c tours c -> exact_c nw tours c ->
  (Z.to_nat (Z.of_nat (length (fst c)) * D) + 1 <= fuel)%nat ->
  exists c', cyc_tsp nw tours fuel c = Ok c'.
Proof.
  intros Ht Hx Hf. apply cyc_tsp_total; auto. pose proof (cc_bounds (fst c)) as Hb. unfold exact_c in Hx. lia.
Qed.

(** * bounds of the objective of a transition with exact bookkeeping *)
Definition mem (cs : list cycle) : list vehicle_id := concat (map fst cs).

Lemma count_bounds cs : (forall c, In c cs -> exact_c nw tours c) ->
  msum tours (mem cs) <= z_sum (map snd cs) <= msum tours (mem cs) + Z.of_nat (length (mem cs)) * D.
Proof.
  induction cs as [|c cs IH]; intros H.
  - unfold mem, msum, z_sum. cbn. lia.
  - unfold mem in *. cbn [map concat]. rewrite z_sum_cons, msum_app, app_length, Nat2Z.inj_add.
    specialize (IH (fun x Hx => H x (or_intror Hx))). pose proof (H c (or_introl eq_refl)) as Hc.
    unfold exact_c in Hc. pose proof (cc_bounds (fst c)). lia.
Qed.

Lemma viol_bounds cs : (forall c, In c cs -> exact_c nw tours c) ->
  0 <= z_sum (map (fun c : cycle => Z.max 0 (snd c)) cs) <= pos tours (mem cs) + Z.of_nat (length (mem cs)) * D.
Proof.
  induction cs as [|c cs IH]; intros H.
  - unfold mem, pos, z_sum. cbn. lia.
  - unfold mem in *. cbn [map concat]. rewrite z_sum_cons, pos_app, app_length, Nat2Z.inj_add.
    specialize (IH (fun x Hx => H x (or_intror Hx))). pose proof (H c (or_introl eq_refl)) as Hc.
    unfold exact_c in Hc. pose proof (cc_bounds (fst c)). pose proof (msum_le_pos tours (fst c)).
    pose proof D_nonneg. lia.
Qed.

Lemma TInv_exact m t c : TInv nw tours m t -> In c (tr_cycles t) -> exact_c nw tours c.
Proof. intros I Hc. apply In_nth_error in Hc as (k & Hk). apply (ti_counter _ _ _ _ I _ _ Hk). Qed.

Lemma TInv_members_perm m t t' : TInv nw tours m t -> TInv nw tours m t' ->
  Permutation (members_of t') (members_of t).
Proof.
  intros I I'. apply NoDup_Permutation; [apply (ti_nodup _ _ _ _ I') | apply (ti_nodup _ _ _ _ I) |].
  intros x. rewrite (ti_members _ _ _ _ I'), (ti_members _ _ _ _ I). tauto.
Qed.

Section Run.
Variable m : list vehicle_id.
Variable t0 : transition.
Hypothesis I0 : TInv nw tours m t0.
Hypothesis Htot : tours_total tours m.

Let n0 : Z := Z.of_nat (length (members_of t0)).
Let M : Z := msum tours (members_of t0).
Let P0 : Z := pos tours (members_of t0).
Let K : Z := n0 * D + 1.
Definition mu (t : transition) : Z := tr_viol t * K + (tr_count t - M).

Lemma obj_bounds t : TInv nw tours m t ->
  0 <= tr_viol t <= P0 + n0 * D /\ M <= tr_count t <= M + n0 * D.
Proof.
  intros I. pose proof (TInv_members_perm _ _ _ I0 I) as P.
  pose proof (count_bounds (tr_cycles t) (fun c => TInv_exact m t c I)) as Hc.
  pose proof (viol_bounds (tr_cycles t) (fun c => TInv_exact m t c I)) as Hv.
  assert (Ev : tr_viol t = z_sum (map (fun c : cycle => Z.max 0 (snd c)) (tr_cycles t))) by apply (ti_viol _ _ _ _ I).
  assert (Ec : tr_count t = z_sum (map snd (tr_cycles t))) by apply (ti_count _ _ _ _ I).
  rewrite <- Ev in Hv. rewrite <- Ec in Hc.
  change (mem (tr_cycles t)) with (members_of t) in Hc, Hv.
  rewrite (msum_perm tours _ _ P) in Hc. rewrite (pos_perm tours _ _ P) in Hv.
  rewrite (Permutation_length P) in Hc, Hv. subst n0 M P0. lia.
Qed.

Lemma mu_nonneg t : TInv nw tours m t -> 0 <= mu t.
Proof.
  intros I. destruct (obj_bounds t I) as [Hv Hc]. unfold mu. pose proof D_nonneg.
  assert (0 <= K) by (subst K n0; nia). assert (0 <= tr_viol t * K) by nia. lia.
Qed.

Lemma mu_descends t n : TInv nw tours m t -> TInv nw tours m n ->
  lex_lt (topt_obj n) (topt_obj t) = true -> mu n < mu t.
Proof.
  intros I In' Hlt. unfold topt_obj in Hlt. apply lex_lt2 in Hlt.
  destruct (obj_bounds t I) as [Hv Hc]. destruct (obj_bounds n In') as [Hv' Hc'].
  unfold mu. apply mu_lt; subst K; try lia.
Qed.

Lemma cycle_len t k c : TInv nw tours m t -> nth_error (tr_cycles t) k = Some c ->
  Z.of_nat (length (fst c)) <= n0.
Proof.
  intros I Hk. subst n0. rewrite <- (Permutation_length (TInv_members_perm _ _ _ I0 I)).
  apply inj_le. apply NoDup_incl_length; [eapply inv_cycle_nodup; eauto|].
  intros x Hx. eapply in_cycle_members; eauto.
Qed.

Definition Cfuel : nat := (Z.to_nat (n0 * D) + 1)%nat.

Lemma tsp_on_total cfuel t k : TInv nw tours m t -> (k < length (tr_cycles t))%nat -> (Cfuel <= cfuel)%nat ->
  exists t', tsp_on nw tours cfuel t k = Ok t'.
Proof.
  intros I Hk HC. destruct (nth_error_ex _ _ Hk) as (c & Ek).
  assert (Ht : total_c tours c) by (intros x Hx; apply Htot; eapply inv_cycle_in; eauto).
  assert (Hx : exact_c nw tours c) by (apply (ti_counter _ _ _ _ I _ _ Ek)).
  unfold tsp_on. rewrite Ek. cbn [unwrap_opt bind].
  destruct (cyc_tsp_total_len cfuel c Ht Hx) as (c' & Ec).
  { pose proof (cycle_len t k c I Ek) as Hl. pose proof D_nonneg as HD0. unfold Cfuel in HC.
    assert (Z.of_nat (length (fst c)) * D <= n0 * D) by nia. lia. }
  rewrite Ec. cbn [bind]. destruct (replace_cycle_ok t k c c' Ek) as (t1 & E1 & _). eauto.
Qed.

Lemma neighbor_of_total cfuel t sw : TInv nw tours m t -> In sw (swaps_of t) -> (Cfuel <= cfuel)%nat ->
  exists t', neighbor_of nw tours cfuel t sw = Ok t'.
Proof.
  intros I Hsw HC. destruct sw as [[[i j] a] b].
  apply swaps_of_in in Hsw as (Hij & Hj & Ha & Hb).
  destruct (apply_swap_ok nw tours m t i j a b I Htot) as (t1 & E1 & I1 & L1); [lia | lia | | |].
  { intros x E. apply (nth_cycle_in nw tours m t i x I); [lia | auto]. }
  { intros y E. apply (nth_cycle_in nw tours m t j y I); [lia | auto]. }
  cbn [neighbor_of]. rewrite E1. cbn [bind].
  destruct (tsp_on_total cfuel t1 i I1) as (t2 & E2); [lia | auto |].
  destruct (tsp_on_ok nw tours m cfuel t1 i I1 Htot) as [_ S2]; [lia|]. destruct (S2 t2 E2) as [I2 L2].
  rewrite E2. cbn [bind]. apply tsp_on_total; auto. lia.
Qed.

Lemma topt_neighbors_total cfuel t : TInv nw tours m t -> (Cfuel <= cfuel)%nat ->
  exists l, topt_neighbors nw tours cfuel t = Ok l.
Proof. intros I HC. unfold topt_neighbors. apply mapM_ok. intros sw Hsw. apply neighbor_of_total; auto. Qed.

Lemma run_total pick cfuel : pick_ok transition topt_obj pick -> (Cfuel <= cfuel)%nat ->
  forall fuel t, TInv nw tours m t -> (Z.to_nat (mu t) + 1 <= fuel)%nat ->
  exists r steps, topt_run nw tours pick fuel cfuel t = Ok (r, steps).
Proof.
  intros Hp HC fuel. induction fuel as [|f IH]; intros t I Hf; [lia|]. cbn [topt_run].
  destruct (topt_neighbors_total cfuel t I HC) as (l & El). rewrite El. cbn [bind].
  specialize (Hp l). destruct (pick l) as [n|]; [|eauto]. destruct Hp as [Hin _].
  destruct (lex_lt (topt_obj n) (topt_obj t)) eqn:Elt; [|eauto].
  assert (In' : TInv nw tours m n) by (eapply topt_neighbors_inv; eauto).
  destruct (IH n In') as (r & st & Hr).
  { pose proof (mu_descends t n I In' Elt). pose proof (mu_nonneg n In'). lia. }
  rewrite Hr. cbn [bind]. eauto.
Qed.

Definition Nfuel : nat := (Z.to_nat ((P0 + n0 * D) * K + n0 * D) + 1)%nat.

Lemma mu_t0 : mu t0 <= (P0 + n0 * D) * K + n0 * D.
Proof.
  destruct (obj_bounds t0 I0) as [Hv Hc]. unfold mu. pose proof D_nonneg.
  assert (0 <= K) by (subst K n0; nia). assert (tr_viol t0 * K <= (P0 + n0 * D) * K) by nia. lia.
Qed.
End Run.
End Bounds.

Theorem cyc_tsp_terminates : forall nw tours, stmt_cyc_tsp_terminates nw tours.
Proof.
  intros nw tours D c HD Ht Hx fuel Hf.
  destruct (cyc_tsp_total_len nw tours D HD fuel c Ht Hx Hf) as (c' & Ec).
  exists c'. split; [exact Ec|]. destruct (cyc_tsp_spec nw tours fuel c c' Ht Hx Ec) as (P & X' & L').
  auto.
Qed.

Theorem topt_run_total : forall nw tours, stmt_topt_run_total nw tours.
Proof.
  intros nw tours D m t HD I Htot.
  exists (Nfuel tours D t), (Cfuel D t). intros fuel cfuel HN HC pick Hp.
  apply (run_total nw tours D HD m t I Htot pick cfuel Hp HC fuel t I).
  pose proof (mu_t0 nw tours D HD m t I). pose proof (mu_nonneg nw tours D HD m t I t I).
  unfold Nfuel in HN. lia.
Qed.


(** * the first-minimum choice satisfies the contract of [pick] (so the contract is not vacuous) *)
Section FM.
Context {A : Type} (key : A -> list Z) (k : nat).
Hypothesis Hu : forall a, length (key a) = k.

Lemma lex_lt_asym a b : lex_lt a b = true -> lex_lt b a = false.
Proof. unfold lex_lt. rewrite (lex_cmp_antisym a b). destruct (lex_cmp a b); cbn [CompOpp]; congruence. Qed.

Lemma fm_aux l : forall b0, exists b, fold_left (fm_step key) l (Some b0) = Some b /\ (b = b0 \/ In b l) /\
  lex_lt (key b0) (key b) = false /\ forall m, In m l -> lex_lt (key m) (key b) = false.
Proof.
  induction l as [|x r IH]; intros b0; cbn [fold_left].
  - exists b0. split; [reflexivity|]. split; [auto|]. split; [apply lex_lt_irrefl | intros m []].
  - cbn [fm_step]. destruct (lex_lt (key x) (key b0)) eqn:E.
    + destruct (IH x) as (b & H1 & H2 & H3 & H4). exists b. split; [exact H1|].
      split; [destruct H2 as [->|H2]; [right; left; reflexivity | right; right; exact H2]|]. split.
      * apply lex_lt_asym. apply (lex_le_lt_trans _ (key x));
          [rewrite !Hu; reflexivity | rewrite !Hu; reflexivity | apply lex_lt_false_le; exact H3 | exact E].
      * intros m [<-|Hm]; auto.
    + destruct (IH b0) as (b & H1 & H2 & H3 & H4). exists b. split; [exact H1|].
      split; [destruct H2 as [->|H2]; [left; reflexivity | right; right; exact H2]|]. split; [exact H3|].
      intros m [<-|Hm]; auto.
      destruct (lex_lt (key x) (key b)) eqn:F; auto. exfalso.
      assert (lex_lt (key b0) (key b) = true).
      { apply (lex_le_lt_trans _ (key x));
          [rewrite !Hu; reflexivity | rewrite !Hu; reflexivity | apply lex_lt_false_le; exact E | exact F]. }
      congruence.
Qed.

Lemma first_min_pick_ok : pick_ok A key (first_min key).
Proof.
  intros l. unfold first_min. change (match fold_left (fm_step key) l None with
                                      | Some n => In n l /\ (forall m, In m l -> lex_lt (key m) (key n) = false)
                                      | None => l = [] end).
  destruct l as [|x r]; cbn [fold_left fm_step]; [reflexivity|].
  destruct (fm_aux r x) as (b & H1 & H2 & H3 & H4). rewrite H1. split.
  - destruct H2 as [->|H2]; [left; reflexivity | right; exact H2].
  - intros m [<-|Hm]; auto.
Qed.
End FM.

Lemma first_min_topt_pick_ok : pick_ok transition topt_obj (first_min topt_obj).
Proof. apply (first_min_pick_ok topt_obj 2). intros a. reflexivity. Qed.

(** * 5. non-vacuity: a concrete network (3 locations, pairwise 10 apart), a cycle the 3-opt improves, and a transition
      built by [new_fast] on which the transition search accepts a step *)
Definition dnX (l : Z) : depot_node := {| dn_depot := l; dn_loc := Station l |}.
Definition nwX : network :=
  {| nw_nodes := [(SD 0, NStart (dnX 0)); (SD 1, NStart (dnX 1)); (SD 2, NStart (dnX 2));
                  (ED 0, NEnd (dnX 0)); (ED 1, NEnd (dnX 1)); (ED 2, NEnd (dnX 2))];
     nw_depots := []; nw_overflow := (0, SD 0, ED 0); nw_service := []; nw_maint := [];
     nw_sdepots := []; nw_edepots := []; nw_all_by_start := []; nw_type_by_start := []; nw_type_by_end := [];
     nw_params := {| p_forbid := false; p_min := 0; p_dht := 0; p_maxdist := 0;
                     c_staff := 0; c_service := 0; c_maint := 0; c_dh := 0; c_idle := 0 |};
     nw_nlocs := 3;
     nw_dh := [[(Dist 0, Len 0); (Dist 10, Len 0); (Dist 10, Len 0)];
               [(Dist 10, Len 0); (Dist 0, Len 0); (Dist 10, Len 0)];
               [(Dist 10, Len 0); (Dist 10, Len 0); (Dist 0, Len 0)]];
     nw_types := []; nw_nservice := 0; nw_planning := Len 0 |}.
Definition viX (mc s e : Z) : vinfo := {| vi_mc := mc; vi_sd := SD s; vi_ed := ED e |}.
(* vehicles 0,1: fresh from maintenance (counter -50); 2,3: in service; 4,5,6: a 0->1, 1->2, 2->0 triangle *)
Definition toursX : tours_fn := fun v =>
  Some (match vid_idx v with
        | 0 => viX (-50) 0 1 | 1 => viX (-50) 1 0 | 2 => viX 10 0 1 | 3 => viX 5 1 0
        | 4 => viX 0 0 1 | 5 => viX 0 1 2 | _ => viX 0 2 0
        end).

Example ex_transfers_bounded : exists D, transfers_bounded nwX D.
Proof. apply transfers_bounded_thm. vm_compute. reflexivity. Qed.

(* the cycle TSP: the hypotheses of [stmt_cyc_tsp_terminates] hold and one 3-opt step is accepted *)
Definition cX : cycle := ([Veh 4; Veh 6; Veh 5], 30).
Example ex_cyc_exact : snd cX = cycle_counter nwX toursX (fst cX).
Proof. vm_compute. reflexivity. Qed.
Example ex_cyc_tsp : cyc_tsp nwX toursX 3 cX = Ok ([Veh 4; Veh 5; Veh 6], 0).
Proof. vm_compute. reflexivity. Qed.

(* the transition search *)
Definition vehX : list vehicle_id := [Veh 0; Veh 1; Veh 2; Veh 3].
Definition tX : transition :=
  Eval vm_compute in match new_fast nwX vehX toursX with Ok t => t | _ => t0 end.
Example ex_new_fast : new_fast nwX vehX toursX = Ok tX.
Proof. vm_compute. reflexivity. Qed.
Example ex_tX_inv : TInv nwX toursX vehX tX.
Proof.
  apply new_fast_inv; [|exact ex_new_fast].
  repeat constructor; cbn [In]; intros H; repeat (destruct H as [H|H]; [discriminate H|]); exact H.
Qed.
Example ex_total : tours_total toursX vehX.
Proof. intros v _. discriminate. Qed.

Definition runX := Eval vm_compute in topt_run nwX toursX (first_min topt_obj) 5 5 tX.
Example ex_run_accepts : exists r n steps,
  topt_run nwX toursX (first_min topt_obj) 5 5 tX = Ok (r, n :: steps) /\
  lex_lt (topt_obj r) (topt_obj tX) = true /\ tinv_codes nwX toursX vehX r = [].
Proof.
  destruct runX as [[r [|n steps]]| | |] eqn:E; try (vm_compute in E; discriminate E).
  exists r, n, steps. unfold runX in E. inversion E; subst. split; [vm_compute; reflexivity|].
  split; vm_compute; reflexivity.
Qed.
(* the theorems apply to this run *)
Example ex_run_valid : forall r steps, topt_run nwX toursX (first_min topt_obj) 5 5 tX = Ok (r, steps) ->
  (exists m', Permutation m' vehX /\ TInv nwX toursX m' r) /\ lex_le (topt_obj r) (topt_obj tX) = true.
Proof.
  intros r steps H.
  destruct (topt_run_valid nwX toursX _ first_min_topt_pick_ok vehX 5%nat 5%nat tX r steps ex_tX_inv ex_total H)
    as (H1 & H2 & _). auto.
Qed.

Print Assumptions transfers_bounded_thm.
Print Assumptions cyc_tsp_terminates.
Print Assumptions topt_run_total.
Print Assumptions first_min_topt_pick_ok.
Print Assumptions ex_run_accepts.
Print Assumptions ex_run_valid.
Print Assumptions ex_cyc_tsp.
