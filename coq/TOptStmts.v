(* TOptStmts.v — the transition optimiser as an oracle constrained by C15: whatever sequence of its two kinds of moves
   (move a vehicle to the end of another or a new cycle; replace a cycle by a 3-opt reordering of it) it performs,
   the result is a valid transition over the same vehicles — which is the hypothesis [trans_valid] of the pipeline
   theorems. Proofs in TOptFacts.v. *)
From Coq Require Import Permutation.
From RS Require Import Base Network Transition TransSpec TransStmts.

Section TO.
Variable nw : network.
Variable tours : tours_fn.

Inductive topt_step : transition -> transition -> Prop :=
| to_move t v k t' : move_vehicle nw t v k tours = Ok t' -> topt_step t t'
| to_three_opt t c ci i j k c' t' :
    nth_error (tr_cycles t) ci = Some c -> (i < j)%nat -> (j < k)%nat -> (k < length (fst c))%nat ->
    three_opt nw c i j k tours = Ok c' -> replace_cycle t ci c' = Ok t' -> topt_step t t'.
Inductive topt_path : transition -> transition -> Prop :=
| tp_refl t : topt_path t t
| tp_step t t1 t2 : topt_step t t1 -> topt_path t1 t2 -> topt_path t t2.

(* every move of the optimiser keeps the bookkeeping invariant over the same set of vehicles *)
Definition stmt_topt_path_inv : Prop :=
  forall m t t', TInv nw tours m t -> tours_total tours m -> topt_path t t' ->
    exists m', Permutation m' m /\ TInv nw tours m' t'.
End TO.
