(* TOptStmts2.v — statements about the functional model of the transition optimisation (TOpt.v). Proofs: TOptFacts2.v.
   With these the optimiser is no longer an oracle of the pipeline theorems: its result is [trans_valid] by theorem. *)
From Coq Require Import Permutation.
From RS Require Import Base Network Transition TransSpec TransStmts TOptStmts LocalSearch TOpt.

Section S.
Variable nw : network.
Variable tours : tours_fn.
Notation pick_contract := (pick_ok transition topt_obj).

(** every neighbour the model enumerates is reached by optimiser moves (vehicle moves, 3-opt replacements): the cycle TSP
    is a chain of 3-opt steps, and replacing a cycle once by the end of the chain equals replacing it step by step *)
Definition stmt_topt_neighbors_path : Prop :=
  forall cfuel t l, topt_neighbors nw tours cfuel t = Ok l -> forall n, In n l -> topt_path nw tours t n.

Definition stmt_topt_run_path : Prop :=
  forall pick, pick_contract pick ->
  forall fuel cfuel t r steps, topt_run nw tours pick fuel cfuel t = Ok (r, steps) -> topt_path nw tours t r.

(** C15: "The transition optimisation returns cycles over the same vehicles whose violation, then counter, is not worse
    than what it was given" — and the bookkeeping of the result is exact *)
Definition stmt_topt_run_valid : Prop :=
  forall pick, pick_contract pick ->
  forall m fuel cfuel t r steps,
    TInv nw tours m t -> tours_total tours m ->
    topt_run nw tours pick fuel cfuel t = Ok (r, steps) ->
    (exists m', Permutation m' m /\ TInv nw tours m' r) /\
    lex_le (topt_obj r) (topt_obj t) = true /\
    strictly_descending (map topt_obj (t :: steps)) = true /\
    last steps t = r.

(** the search stops only at a transition none of whose neighbours is strictly better *)
Definition stmt_topt_run_local_opt : Prop :=
  forall pick, pick_contract pick ->
  forall fuel cfuel t r steps l,
    topt_run nw tours pick fuel cfuel t = Ok (r, steps) ->
    topt_neighbors nw tours cfuel r = Ok l -> forall n, In n l -> lex_lt (topt_obj n) (topt_obj r) = false.

(** C06, no crash: on a transition with exact bookkeeping over vehicles that have tours, generating the neighbourhood
    (moves, cycle look-ups, 3-opt indexing, replace_cycle) never panics and never returns Err *)
Definition stmt_topt_neighbors_no_panic : Prop :=
  forall m cfuel t, TInv nw tours m t -> tours_total tours m ->
    match topt_neighbors nw tours cfuel t with Panic | Err => False | _ => True end.

(** C06, termination. Depot-to-depot transfer lengths are bounded: 0 <= transfer_m <= D (true of every network whose
    distances are not negative: the value is a matrix entry or INF_DISTANCE). *)
Definition transfers_bounded (D : Z) : Prop := forall a b, 0 <= transfer_m nw a b <= D.

(* the cycle 3-opt: with an exact counter the counter of every accepted step is exact again and strictly smaller, and it
   is bounded below by the sum of the tour counters: enough fuel exists, uniformly for all cycles over the members *)
Definition stmt_cyc_tsp_terminates : Prop :=
  forall D c, transfers_bounded D ->
    (forall v, In v (fst c) -> tours v <> None) -> snd c = cycle_counter nw tours (fst c) ->
    forall fuel, (Z.to_nat (Z.of_nat (length (fst c)) * D) + 1 <= fuel)%nat ->
      exists c', cyc_tsp nw tours fuel c = Ok c' /\ Permutation (fst c') (fst c) /\
                 snd c' = cycle_counter nw tours (fst c') /\ snd c' <= snd c.

(* the whole optimisation of one type: for every transition with exact bookkeeping there are fuel bounds beyond which no
   run — whatever the parallel minimiser picks — ends with OutOfFuel, Panic or Err *)
Definition stmt_topt_run_total : Prop :=
  forall D m t, transfers_bounded D -> TInv nw tours m t -> tours_total tours m ->
    exists N C, forall fuel cfuel, (N <= fuel)%nat -> (C <= cfuel)%nat ->
      forall pick, pick_contract pick ->
        exists r steps, topt_run nw tours pick fuel cfuel t = Ok (r, steps).
End S.

(** transfers are bounded on every network whose dead-head matrix holds no negative distance (distances are unsigned in
    the input format; the check is evaluated on every pipeline run: HYP3) *)
Definition dh_dists_nonneg_b (nw : network) : bool :=
  forallb (fun row => forallb (fun '(d, _) => match d with Dist x => 0 <=? x | DistInf => true end) row) (nw_dh nw).
Definition stmt_transfers_bounded : Prop :=
  forall nw, dh_dists_nonneg_b nw = true -> exists D, transfers_bounded nw D.
