(* TextLoad.v — the layer above RawLoad: the listing with its times still the STRINGS of the JSON.  The repaired loader
   (fix cca45b8) reads a time as `DateTime::new(s) + Duration::ZERO`; the model's times are the seconds between that point
   and a base point (the checks use 2000-01-01T00:00:00, and the harness prints `t - base` for the code's points).
   [to_raw] parses every time of the listing in the loader's order; a string DateTime::new refuses is a panic of the load. *)
From RS Require Import Base Network RawLoad Cal.

Definition read_time (base : timepoint) (s : list Z) : res Z :=
  do t <- parse_datetime s; Ok (tp_lin (tp_add t 0) - tp_lin base).

Record tdseg := { tds_rseg : Z; tds_dep : list Z; tds_pass : Z; tds_seated : Z }.
Record tdeparture := { tdp_route : Z; tdp_segs : list tdseg }.
Record tslot := { tsl_loc : Z; tsl_start : list Z; tsl_end : list Z; tsl_tracks : Z }.
(* [ti_rest]: everything of the listing that carries no time (its own departures / slots are ignored) *)
Record text_instance := { ti_rest : raw_instance; ti_departures : list tdeparture; ti_slots : option (list tslot) }.

Section ToRaw.
Variable base : timepoint.
Definition raw_dseg (g : tdseg) : res rdseg :=
  do t <- read_time base (tds_dep g);
  Ok {| rds_rseg := tds_rseg g; rds_dep := t; rds_pass := tds_pass g; rds_seated := tds_seated g |}.
Definition raw_departure (d : tdeparture) : res rdeparture :=
  do segs <- map_res raw_dseg (tdp_segs d); Ok {| rdp_route := tdp_route d; rdp_segs := segs |}.
Definition raw_slot (s : tslot) : res rslot :=
  do a <- read_time base (tsl_start s); do b <- read_time base (tsl_end s);
  Ok {| rsl_loc := tsl_loc s; rsl_start := a; rsl_end := b; rsl_tracks := tsl_tracks s |}.
Definition to_raw (t : text_instance) : res raw_instance :=
  do slots <- opt_map_res raw_slot (ti_slots t);
  do deps <- map_res raw_departure (ti_departures t);
  let r := ti_rest t in
  Ok {| ri_types := ri_types r; ri_locs := ri_locs r; ri_depots := ri_depots r; ri_routes := ri_routes r;
        ri_departures := deps; ri_slots := slots; ri_dh_indices := ri_dh_indices r; ri_dh_dur := ri_dh_dur r;
        ri_dh_dist := ri_dh_dist r; ri_params := ri_params r |}.
End ToRaw.

Definition load_text (base : timepoint) (t : text_instance) (perm : list Z) : res network :=
  do r <- to_raw base t; load_raw r perm.

(* every time string of the listing is one DateTime::new accepts *)
Definition time_ok_b (s : list Z) : bool := is_ok (parse_datetime s).
Definition times_ok_b (t : text_instance) : bool :=
  forallb (fun d => forallb (fun g => time_ok_b (tds_dep g)) (tdp_segs d)) (ti_departures t)
  && match ti_slots t with None => true
     | Some l => forallb (fun s => time_ok_b (tsl_start s) && time_ok_b (tsl_end s)) l end.
