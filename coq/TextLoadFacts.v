(* TextLoadFacts.v — proofs of the statements of TextLoadStmts.v. *)
From RS Require Import Base Network RawLoad RawLoadStmts RawLoadFacts Cal CalStmts CalFacts TextLoad TextLoadStmts.

(** * Results that are Ok or Panic only *)
Definition okp {A} (r : res A) : Prop := match r with Ok _ | Panic => True | _ => False end.

Lemma okp_bind {A B} (r : res A) (f : A -> res B) : okp r -> (forall a, okp (f a)) -> okp (bind r f).
Proof. destruct r; cbn [bind okp]; intros H Hf; try contradiction; [apply Hf | exact I]. Qed.
Lemma okp_expect {A} (o : option A) : okp (expect o).
Proof. destruct o; exact I. Qed.
Lemma okp_assert b : okp (assert b).
Proof. destruct b; exact I. Qed.
Lemma okp_ok {A} (a : A) : okp (Ok a).
Proof. exact I. Qed.

Lemma parse_okp s : okp (parse_datetime s).
Proof.
  unfold parse_datetime; cbv zeta.
  repeat (apply okp_bind; [first [apply okp_expect | apply okp_assert | idtac] | intros ?]).
  - destruct (Nat.eqb _ 6); [apply okp_expect | apply okp_ok].
  - apply okp_ok.
Qed.

Lemma okp_not_ok {A} (r : res A) : okp r -> is_ok r = false -> r = Panic.
Proof. destruct r; cbn; intros H E; try contradiction; [discriminate | reflexivity]. Qed.

Lemma read_time_okp base s : okp (read_time base s).
Proof. unfold read_time. apply okp_bind; [apply parse_okp | intros; apply okp_ok]. Qed.

Lemma read_time_ok base s : time_ok_b s = true -> exists z, read_time base s = Ok z.
Proof.
  unfold time_ok_b, read_time. destruct (parse_datetime s); cbn [is_ok bind]; try discriminate.
  intros _; eexists; reflexivity.
Qed.

Lemma read_time_bad base s : time_ok_b s = false -> read_time base s = Panic.
Proof.
  unfold time_ok_b, read_time. intros H. rewrite (okp_not_ok _ (parse_okp s) H). reflexivity.
Qed.

(** * map_res over Ok/Panic functions *)
Lemma map_res_okp {A B} (f : A -> res B) l : (forall a, okp (f a)) -> okp (map_res f l).
Proof.
  intros Hf. induction l as [|x l IH]; cbn [map_res]; [exact I|].
  apply okp_bind; [apply Hf | intros y]. apply okp_bind; [exact IH | intros; apply okp_ok].
Qed.

Lemma map_res_bad {A B} (f : A -> res B) (p : A -> bool) l :
  (forall a, okp (f a)) -> (forall a, p a = false -> f a = Panic) -> forallb p l = false -> map_res f l = Panic.
Proof.
  intros Hf Hp. induction l as [|x l IH]; cbn [forallb map_res]; [discriminate|].
  intros H. destruct (p x) eqn:Ex.
  - cbn [andb] in H. rewrite (IH H).
    pose proof (Hf x) as Hx. destruct (f x); cbn [okp] in Hx; try contradiction; reflexivity.
  - rewrite (Hp x Ex). reflexivity.
Qed.

Lemma map_res_good {A B} (f : A -> res B) (p : A -> bool) l :
  (forall a, p a = true -> exists b, f a = Ok b) -> forallb p l = true ->
  exists l', map_res f l = Ok l' /\ Forall2 (fun a b => f a = Ok b) l l'.
Proof.
  intros Hp. induction l as [|x l IH]; cbn [forallb map_res].
  - intros _. exists []. split; [reflexivity | constructor].
  - intros H. apply andb_true_iff in H. destruct H as [Hx Hl].
    destruct (Hp x Hx) as [y Ey]. destruct (IH Hl) as (l' & El & F).
    exists (y :: l'). rewrite Ey, El. cbn [bind]. split; [reflexivity | constructor; assumption].
Qed.

(** * The pieces of to_raw *)
Lemma raw_dseg_okp base g : okp (raw_dseg base g).
Proof. unfold raw_dseg. apply okp_bind; [apply read_time_okp | intros; apply okp_ok]. Qed.
Lemma raw_departure_okp base d : okp (raw_departure base d).
Proof.
  unfold raw_departure. apply okp_bind; [apply map_res_okp; apply raw_dseg_okp | intros; apply okp_ok].
Qed.
Lemma raw_slot_okp base s : okp (raw_slot base s).
Proof.
  unfold raw_slot. apply okp_bind; [apply read_time_okp | intros a].
  apply okp_bind; [apply read_time_okp | intros; apply okp_ok].
Qed.

Definition dseg_ok (g : tdseg) : bool := time_ok_b (tds_dep g).
Definition dep_ok (d : tdeparture) : bool := forallb dseg_ok (tdp_segs d).
Definition slot_ok (s : tslot) : bool := time_ok_b (tsl_start s) && time_ok_b (tsl_end s).

Lemma times_ok_b_eq t :
  times_ok_b t = forallb dep_ok (ti_departures t) && match ti_slots t with None => true | Some l => forallb slot_ok l end.
Proof. reflexivity. Qed.

Lemma raw_dseg_bad base g : dseg_ok g = false -> raw_dseg base g = Panic.
Proof. unfold dseg_ok, raw_dseg. intros H. rewrite (read_time_bad base _ H). reflexivity. Qed.
Lemma raw_departure_bad base d : dep_ok d = false -> raw_departure base d = Panic.
Proof.
  unfold dep_ok, raw_departure. intros H.
  rewrite (map_res_bad (raw_dseg base) dseg_ok _ (raw_dseg_okp base) (raw_dseg_bad base) H). reflexivity.
Qed.
Lemma raw_slot_bad base s : slot_ok s = false -> raw_slot base s = Panic.
Proof.
  unfold slot_ok, raw_slot. intros H. destruct (time_ok_b (tsl_start s)) eqn:E1.
  - cbn [andb] in H. rewrite (read_time_bad base _ H).
    destruct (read_time_ok base _ E1) as [a ->]. reflexivity.
  - rewrite (read_time_bad base _ E1). reflexivity.
Qed.

Lemma raw_dseg_good base g : dseg_ok g = true -> exists g', raw_dseg base g = Ok g'.
Proof.
  unfold dseg_ok, raw_dseg. intros H. destruct (read_time_ok base _ H) as [z ->]. cbn [bind]. eexists; reflexivity.
Qed.
Lemma raw_dseg_spec base g g' : raw_dseg base g = Ok g' ->
  rds_rseg g' = tds_rseg g /\ rds_pass g' = tds_pass g /\ rds_seated g' = tds_seated g /\
  read_time base (tds_dep g) = Ok (rds_dep g').
Proof.
  unfold raw_dseg. destruct (read_time base (tds_dep g)) as [z| | |]; cbn [bind]; try discriminate.
  intros H; injection H as <-. cbn. repeat split; reflexivity.
Qed.
Lemma raw_departure_good base d : dep_ok d = true ->
  exists d', raw_departure base d = Ok d' /\ rdp_route d' = tdp_route d /\
    Forall2 (fun g g' => raw_dseg base g = Ok g') (tdp_segs d) (rdp_segs d').
Proof.
  unfold dep_ok, raw_departure. intros H.
  destruct (map_res_good (raw_dseg base) dseg_ok _ (raw_dseg_good base) H) as (l' & -> & F).
  cbn [bind]. eexists. split; [reflexivity|]. cbn. split; [reflexivity | exact F].
Qed.
Lemma raw_slot_good base s : slot_ok s = true -> exists s', raw_slot base s = Ok s'.
Proof.
  unfold slot_ok, raw_slot. intros H. apply andb_true_iff in H. destruct H as [H1 H2].
  destruct (read_time_ok base _ H1) as [a ->]. destruct (read_time_ok base _ H2) as [b ->].
  cbn [bind]. eexists; reflexivity.
Qed.

Lemma Forall2_impl {A B} (P Q : A -> B -> Prop) l l' :
  (forall a b, P a b -> Q a b) -> Forall2 P l l' -> Forall2 Q l l'.
Proof. intros H F. induction F; constructor; auto. Qed.

(** * Theorems *)
Theorem read_time_is_rel_seconds : stmt_read_time_is_rel_seconds.
Proof.
  intros base s. unfold read_time, rel_seconds.
  destruct (parse_datetime s) as [t| | |] eqn:E; cbn [bind]; try reflexivity.
  destruct (parse_then_add_norm s t 0 E (Z.le_refl 0)) as [_ L]. rewrite L, Z.add_0_r. reflexivity.
Qed.

Theorem read_time_order : stmt_read_time_order.
Proof.
  intros base s1 s2 p1 p2 z1 z2 E1 E2 R1 R2. unfold read_time in R1, R2.
  rewrite E1 in R1; rewrite E2 in R2; cbn [bind] in R1, R2.
  injection R1 as <-. injection R2 as <-.
  destruct (parse_then_add_norm s1 p1 0 E1 (Z.le_refl 0)) as [N1 _].
  destruct (parse_then_add_norm s2 p2 0 E2 (Z.le_refl 0)) as [N2 _].
  rewrite (tp_cmp_lin _ _ N1 N2).
  generalize (tp_lin (tp_add p1 0)) (tp_lin (tp_add p2 0)) (tp_lin base); intros a b c.
  destruct (Z.compare_spec a b); symmetry;
    [apply Z.compare_eq_iff | apply Z.compare_lt_iff | apply Z.compare_gt_iff]; lia.
Qed.

Theorem read_time_add : stmt_read_time_add.
Proof.
  intros base s p z l E R Hl. unfold read_time in R. rewrite E in R; cbn [bind] in R. injection R as <-.
  destruct (parse_then_add_norm s p 0 E (Z.le_refl 0)) as [[Nd Ns] _].
  destruct (tp_add_lin (tp_add p 0) l (proj1 Ns) Hl) as [L N].
  split; [rewrite L; lia | apply N; exact Nd].
Qed.

Theorem to_raw_total : stmt_to_raw_total.
Proof.
  intros base t H. rewrite times_ok_b_eq in H. apply andb_true_iff in H. destruct H as [Hd Hs].
  assert (Es : exists sl, opt_map_res (raw_slot base) (ti_slots t) = Ok sl).
  { unfold opt_map_res. destruct (ti_slots t) as [l|]; [|eexists; reflexivity].
    destruct (map_res_good (raw_slot base) slot_ok l (raw_slot_good base) Hs) as (l' & -> & _).
    cbn [bind]. eexists; reflexivity. }
  destruct Es as [sl Es].
  destruct (map_res_good (raw_departure base) dep_ok _
              (fun d Hd => let '(ex_intro _ d' (conj E _)) := raw_departure_good base d Hd in ex_intro _ d' E) Hd)
    as (deps & Ed & F).
  unfold to_raw. rewrite Es, Ed. cbn [bind]. eexists. split; [reflexivity|].
  cbn [ri_types ri_locs ri_depots ri_routes ri_dh_indices ri_dh_dur ri_dh_dist ri_params ri_departures].
  repeat (split; [reflexivity|]).
  assert (Fd : Forall2 (fun d d' => dep_ok d = true /\ raw_departure base d = Ok d') (ti_departures t) deps).
  { clear Ed Es. revert Hd. induction F; intros Hd; constructor.
    - cbn [forallb] in Hd. apply andb_true_iff in Hd. tauto.
    - apply IHF. cbn [forallb] in Hd. apply andb_true_iff in Hd. tauto. }
  clear F Ed Hd. split.
  - induction Fd as [|d d' l l' [Ok1 E] _ IH]; [reflexivity|]. cbn [map]. f_equal; [|exact IH].
    destruct (raw_departure_good base d Ok1) as (d'' & E' & R & _). congruence.
  - eapply Forall2_impl; [|exact Fd]. intros d d' [Ok1 E]; cbv beta.
    destruct (raw_departure_good base d Ok1) as (d'' & E' & _ & G).
    assert (d'' = d') by congruence. subst d''.
    eapply Forall2_impl; [|exact G]. intros g g'; cbv beta. apply raw_dseg_spec.
Qed.

Theorem to_raw_bad_time : stmt_to_raw_bad_time.
Proof.
  intros base t H. rewrite times_ok_b_eq in H. unfold to_raw.
  assert (Os : okp (opt_map_res (raw_slot base) (ti_slots t))).
  { unfold opt_map_res. destruct (ti_slots t); [|exact I].
    apply okp_bind; [apply map_res_okp; apply raw_slot_okp | intros; apply okp_ok]. }
  destruct (match ti_slots t with None => true | Some l => forallb slot_ok l end) eqn:Es.
  - rewrite andb_true_r in H.
    rewrite (map_res_bad (raw_departure base) dep_ok _ (raw_departure_okp base) (raw_departure_bad base) H).
    destruct (opt_map_res (raw_slot base) (ti_slots t)); cbn [okp] in Os; try contradiction; reflexivity.
  - destruct (ti_slots t) as [l|]; [|discriminate]. unfold opt_map_res.
    rewrite (map_res_bad (raw_slot base) slot_ok l (raw_slot_okp base) (raw_slot_bad base) Es). reflexivity.
Qed.

Theorem load_text_total : stmt_load_text_total.
Proof.
  intros base t perm r _ E V. unfold load_text. rewrite E. cbn [bind]. apply load_raw_total; exact V.
Qed.

Print Assumptions read_time_is_rel_seconds.
Print Assumptions read_time_order.
Print Assumptions read_time_add.
Print Assumptions to_raw_total.
Print Assumptions to_raw_bad_time.
Print Assumptions load_text_total.

From RS Require Import StartStageStmts StartStageFacts.
Theorem text_start_stage_returns : stmt_text_start_stage_returns.
Proof.
  intros base t r perm i Ht Hr Hv Hres Hp Hu.
  destruct (start_stage_returns r perm i Hv Hres Hp Hu) as [nw [Hl [Hty Hrest]]].
  exists nw. split; [|split; assumption].
  unfold load_text. rewrite Hr. cbn [bind]. exact Hl.
Qed.
Print Assumptions text_start_stage_returns.
