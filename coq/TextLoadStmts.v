(* TextLoadStmts.v — statements about TextLoad.v.  Proofs: TextLoadFacts.v. *)
From RS Require Import Base Network RawLoad RawLoadStmts Cal CalStmts TextLoad.

(** the seconds the checks feed the model (Cal.rel_seconds, gen/timeconv.py) are the seconds of the repaired loader's point *)
Definition stmt_read_time_is_rel_seconds : Prop :=
  forall base s, read_time base s = rel_seconds base s.
(** the loader's point for an accepted string is normalised, so that comparing two loaded times in the derived order of
    (days, seconds) is comparing the model's seconds *)
Definition stmt_read_time_order : Prop :=
  forall base s1 s2 p1 p2 z1 z2,
    parse_datetime s1 = Ok p1 -> parse_datetime s2 = Ok p2 ->
    read_time base s1 = Ok z1 -> read_time base s2 = Ok z2 ->
    tp_cmp (tp_add p1 0) (tp_add p2 0) = Z.compare z1 z2.
(** arrival = departure + duration, on the code's points and on the model's seconds alike *)
Definition stmt_read_time_add : Prop :=
  forall base s p z l, parse_datetime s = Ok p -> read_time base s = Ok z -> 0 <= l ->
    tp_lin (tp_add (tp_add p 0) l) - tp_lin base = z + l /\ tp_norm (tp_add (tp_add p 0) l).
(** a listing all of whose time strings are accepted becomes a raw listing; nothing but the times changes *)
Definition stmt_to_raw_total : Prop :=
  forall base t, times_ok_b t = true ->
    exists r, to_raw base t = Ok r /\
      ri_types r = ri_types (ti_rest t) /\ ri_locs r = ri_locs (ti_rest t) /\ ri_depots r = ri_depots (ti_rest t) /\
      ri_routes r = ri_routes (ti_rest t) /\ ri_dh_indices r = ri_dh_indices (ti_rest t) /\
      ri_dh_dur r = ri_dh_dur (ti_rest t) /\ ri_dh_dist r = ri_dh_dist (ti_rest t) /\ ri_params r = ri_params (ti_rest t) /\
      map rdp_route (ri_departures r) = map tdp_route (ti_departures t) /\
      Forall2 (fun d d' => Forall2 (fun g g' => rds_rseg g' = tds_rseg g /\ rds_pass g' = tds_pass g /\
                                                rds_seated g' = tds_seated g /\ read_time base (tds_dep g) = Ok (rds_dep g'))
                                   (tdp_segs d) (rdp_segs d'))
              (ti_departures t) (ri_departures r).
(** a time string DateTime::new refuses makes the load panic *)
Definition stmt_to_raw_bad_time : Prop :=
  forall base t, times_ok_b t = false -> to_raw base t = Panic.
(** from the text to the network: accepted times and a valid listing load, whatever the depot permutation *)
Definition stmt_load_text_total : Prop :=
  forall base t perm r, times_ok_b t = true -> to_raw base t = Ok r -> raw_valid_b r = true ->
    exists nw, load_text base t perm = Ok nw.

(** the start stage from the TEXT of the listing (C06): accepted time strings, references that resolve and figures in range
    give a network, a slot distribution within the track counts and a feasible circulation for every type *)
From RS Require Import NetSpec LoadStmts LoadFacts EndToEndStmts Tour Flow F32 SlotDist SlotDistStmts StartStageStmts.
Definition stmt_text_start_stage_returns : Prop :=
  forall base t r perm i,
    times_ok_b t = true -> to_raw base t = Ok r ->
    raw_valid_b r = true -> resolve r = Ok i -> perm_ok i perm -> inst_unsigned i ->
    exists nw,
      load_text base t perm = Ok nw /\
      type_ids nw <> [] /\
      (figures_u64 nw ->
       exists a, distribute nw = Ok a /\ allot_within_tracks nw a /\
         forall ty, In ty (type_ids nw) ->
           exists slots f, slots_of a ty = Ok slots /\ feasible (build_flow_network nw ty slots) f = true).
