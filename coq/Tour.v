(* Tour.v — executable model of solution/src/{tour.rs, tour/modifications.rs, path.rs, segment.rs}.
   Definitions only. Same helper functions, same comparison operators, same delta formulas. *)
From RS Require Export Base Network.

Record tour := {
  t_nodes : list node_id;
  t_dummy : bool;
  t_vm : bool;            (* visits_maintenance *)
  t_useful : duration;    (* useful_duration *)
  t_sdist : dist;         (* service_distance *)
  t_ddist : dist;         (* dead_head_distance *)
  t_costs : Z }.

Section TourOps.
Variable nw : network.
Let P := nw_params nw.

Definition planning_sec : Z := dur_sec_or (nw_planning nw) 0.
Definition node_duration (n : node_id) : duration :=
  match n_duration (nd nw n) with Ok d => d | _ => Len 0 end.
Definition node_is_depot n := is_depot (nd nw n).
Definition node_is_maint n := is_maint (nd nw n).
Definition node_is_service n := is_service (nd nw n).

(** ** from-scratch computations (the compute functions of Tour) *)
Definition compute_useful (l : list node_id) : duration := dur_sum (map node_duration l).
Definition compute_sdist (l : list node_id) : dist := dist_sum (map (fun n => n_travel_dist (nd nw n)) l).
Definition compute_ddist (l : list node_id) : dist :=
  dist_sum (map (fun '(a, b) => dead_head_distance_between nw a b) (windows l)).
Definition sm_cost (n : node_id) : Z :=   (* service_and_maintenance_costs_by_id *)
  dur_sec_or (node_duration n) planning_sec *
  match nd nw n with NService _ => c_service P | NMaint _ => c_maint P | _ => 0 end.
Definition idle_sec (a b : node_id) : Z :=
  match idle_time_between nw a b with Ok d => dur_sec_or d planning_sec | _ => 0 end.
Definition dhi_cost (a b : node_id) : Z :=   (* dead_head_and_idle_costs_between_two_nodes *)
  dur_sec_or (dead_head_time_between nw a b) planning_sec * c_dh P + idle_sec a b * c_idle P.
Definition compute_costs (l : list node_id) : Z :=
  z_sum (map sm_cost l) + z_sum (map (fun '(a, b) => dhi_cost a b) (windows l)).
Definition compute_vm (l : list node_id) : bool := existsb node_is_maint l.

Definition new_computing (l : list node_id) (dummy : bool) : tour :=
  {| t_nodes := l; t_dummy := dummy; t_vm := compute_vm l; t_useful := compute_useful l;
     t_sdist := compute_sdist l; t_ddist := compute_ddist l; t_costs := compute_costs l |}.

(** ** Path (path.rs) *)
Definition path_new_trusted (l : list node_id) : option (list node_id) :=
  if forallb node_is_depot l then None else Some l.
Definition path_new (l : list node_id) : res (option (list node_id)) :=
  if forallb (fun '(a, b) => can_reach nw a b) (windows l) then Ok (path_new_trusted l) else Err.

(** ** constructors *)
Definition valid_tour_nodes (l : list node_id) : bool :=
  match l with
  | [] => false
  | f :: _ =>
      is_start_depot (nd nw f) && is_end_depot (nd nw (last l f)) && (3 <=? Z.of_nat (length l)) &&
      forallb (fun n => negb (node_is_depot n)) (removelast (tl l)) &&
      forallb (fun '(a, b) => can_reach nw a b) (windows l)
  end.
(* Tour::new; nodes[0] on an empty vector is an index panic *)
Definition tour_new (l : list node_id) : res tour :=
  match l with
  | [] => Panic
  | _ => if valid_tour_nodes l then Ok (new_computing l false) else Err
  end.
(* Tour::new_dummy: depots are dropped; maintenance nodes stay (since the repair "fix: dummy tours keep the
   maintenance nodes of their path"), so that the dummy tour remains a path in the network *)
Definition tour_new_dummy (path : list node_id) : res tour :=
  let l := filter (fun n => negb (node_is_depot n)) path in
  if existsb node_is_service l then Ok (new_computing l true) else Err.

(** ** queries *)
Definition nth_node (t : tour) (p : nat) : node_id := nth p (t_nodes t) (SD 0).
Definition tlen (t : tour) : nat := length (t_nodes t).
Definition first_node (t : tour) : node_id := nth_node t 0.
Definition last_node (t : tour) : node_id := nth_node t (tlen t - 1).
Definition non_depots (t : tour) : list node_id :=
  if t_dummy t then t_nodes t else removelast (tl (t_nodes t)).
Definition start_depot (t : tour) : res node_id :=
  if is_start_depot (nd nw (first_node t)) then Ok (first_node t) else Err.
Definition end_depot (t : tour) : res node_id :=
  if is_end_depot (nd nw (last_node t)) then Ok (last_node t) else Err.
Definition last_non_depot (t : tour) : option node_id :=
  find (fun n => negb (node_is_depot n)) (rev (t_nodes t)).
Definition first_non_depot (t : tour) : option node_id := hd_error (non_depots t).

Definition total_distance (t : tour) : dist := dist_add (t_sdist t) (t_ddist t).
Definition maintenance_counter (t : tour) : Z :=
  if t_vm t then dist_m_or (total_distance t) INF_DISTANCE - p_maxdist P   (* maximal_distance is never Infinity *)
  else dist_m_or (total_distance t) INF_DISTANCE.

(* position_of: binary_search_by cmp_start_time. Modelled as the index of the element comparing Equal
   (equal to the binary search on a strictly sorted vector, which tours are). *)
Definition position_of (t : tour) (n : node_id) : res nat :=
  ok_or_err (index_of (fun x => match cmp_start_time nw x n with Eq => true | _ => false end) (t_nodes t)).

(** the two binary searches, same recursion on (left, right), on fuel; strict comparisons since the
    repair "fix: tour position searches must not treat back-to-back nodes as unreachable" *)
Fixpoint earliest_arrival_after (fuel : nat) (l : list node_id) (time : datetime) (left right : nat)
  : res (option nat) :=
  match fuel with
  | O => OutOfFuel
  | S f =>
      if Nat.eqb (left + 1) right then
        Ok (if dt_ltb time (end_time nw (nth left l (SD 0))) then Some left else None)
      else
        let mid := (left + (right - left) / 2)%nat in
        if dt_ltb time (end_time nw (nth (mid - 1) l (SD 0)))
        then earliest_arrival_after f l time left mid
        else earliest_arrival_after f l time mid right
  end.
Fixpoint latest_departure_before (fuel : nat) (l : list node_id) (time : datetime) (left right : nat)
  : res (option nat) :=
  match fuel with
  | O => OutOfFuel
  | S f =>
      if Nat.eqb (left + 1) right then
        Ok (if dt_ltb (start_time nw (nth left l (SD 0))) time then Some left else None)
      else
        let mid := (left + (right - left) / 2)%nat in
        if dt_ltb (start_time nw (nth mid l (SD 0))) time
        then latest_departure_before f l time mid right
        else latest_departure_before f l time left mid
  end.

(* while pos > 0 && !can_reach(nodes[pos-1], node) { pos -= 1 } *)
Fixpoint scan_back (l : list node_id) (node : node_id) (pos : nat) : nat :=
  match pos with
  | O => O
  | S p => if can_reach nw (nth p l (SD 0)) node then pos else scan_back l node p
  end.
(* while pos < len-1 && !can_reach(node, nodes[pos+1]) { pos += 1 } *)
Fixpoint scan_fwd (fuel : nat) (l : list node_id) (node : node_id) (pos : nat) : nat :=
  match fuel with
  | O => pos
  | S f =>
      if Nat.ltb pos (length l - 1) && negb (can_reach nw node (nth (pos + 1) l (SD 0)))
      then scan_fwd f l node (pos + 1) else pos
  end.

Definition search_fuel (l : list node_id) : nat := S (S (length l)).

Definition latest_not_reaching_node_l (l : list node_id) (node : node_id) : res (option nat) :=
  if can_reach nw (last l (SD 0)) node then Ok None
  else
    do cand <- earliest_arrival_after (search_fuel l) l (start_time nw node) 0 (length l);
    let pos := match cand with Some p => p | None => (length l - 1)%nat end in
    Ok (Some (scan_back l node pos)).
Definition latest_not_reached_by_node_l (l : list node_id) (node : node_id) : res (option nat) :=
  if can_reach nw node (hd (SD 0) l) then Ok None
  else
    do cand <- latest_departure_before (search_fuel l) l (end_time nw node) 0 (length l);
    let pos := match cand with Some p => p | None => O end in
    Ok (Some (scan_fwd (length l) l node pos)).
Definition latest_not_reaching_node (t : tour) := latest_not_reaching_node_l (t_nodes t).

Definition get_insert_positions_l (l : list node_id) (first last_ : node_id) : res (nat * nat) :=
  do sp <- (if node_is_depot first then Ok O
            else do r <- latest_not_reaching_node_l l first;
                 Ok (match r with Some p => p | None => length l end));
  do ep <- (if node_is_depot last_ then Ok (length l)
            else do r <- latest_not_reached_by_node_l l last_;
                 Ok (match r with Some p => S p | None => O end));
  Ok (sp, ep).

(* slicing nodes[a..b] panics when a > b or b > len *)
Definition slice_res (l : list node_id) (a b : nat) : res (list node_id) :=
  if Nat.leb a b && Nat.leb b (length l) then Ok (slice a b l) else Panic.

Definition conflict (t : tour) (seg : node_id * node_id) : res (option (list node_id)) :=
  do (sp, ep) <- get_insert_positions_l (t_nodes t) (fst seg) (snd seg);
  do s <- slice_res (t_nodes t) sp ep;
  Ok (path_new_trusted s).

Definition sub_path (t : tour) (seg : node_id * node_id) : res (list node_id) :=
  let l := t_nodes t in
  do r1 <- latest_not_reaching_node_l l (fst seg);
  match r1 with
  | None => Err
  | Some sp =>
      if negb (nid_eqb (fst seg) (nth sp l (SD 0))) then Err else
      do r2 <- latest_not_reaching_node_l l (snd seg);
      match r2 with
      | None => Err
      | Some ep =>
          if negb (nid_eqb (snd seg) (nth ep l (SD 0))) then Err else
          if Nat.ltb ep sp then Err else
          do s <- slice_res l sp (ep + 1);
          match path_new_trusted s with Some p => Ok p | None => Panic end
      end
  end.

Definition check_if_sequence_is_removable (t : tour) (sp ep : nat) : res unit :=
  let len := tlen t in
  (* `len - 3` / `len - 1` are usize subtractions: they underflow (panic) on shorter vectors *)
  if negb (t_dummy t) && Nat.eqb sp 0 && Nat.ltb len 3 then Panic else
  if negb (t_dummy t) && Nat.eqb sp 0 && Nat.leb ep (len - 3) then Err else
  if Nat.eqb len 0 then Panic else
  if negb (t_dummy t) && Nat.eqb ep (len - 1) && Nat.leb 2 sp then Err else
  if Nat.ltb ep sp then Err else
  if Nat.ltb 0 sp && Nat.ltb ep (len - 1) &&
     negb (can_reach nw (nth_node t (sp - 1)) (nth_node t (ep + 1))) then Err
  else Ok tt.

Definition check_removable (t : tour) (seg : node_id * node_id) : res unit :=
  do sp <- position_of t (fst seg);
  do ep <- position_of t (snd seg);
  check_if_sequence_is_removable t sp ep.

Definition preceding_overhead (t : tour) (n : node_id) : res duration :=
  if nid_eqb n (first_node t) then Ok DurInf else
  do pos <- position_of t n;
  if Nat.eqb pos 0 then Panic (* pos - 1 underflow *) else
  dt_diff (start_time nw n) (end_time nw (nth_node t (pos - 1))).
Definition subsequent_overhead (t : tour) (n : node_id) : res duration :=
  if nid_eqb n (last_node t) then Ok DurInf else
  do pos <- position_of t n;
  if Nat.leb (tlen t) (pos + 1) then Err else
  dt_diff (start_time nw (nth_node t (pos + 1))) (end_time nw n).

(** ** delta helpers (tour/modifications.rs, private methods) *)
Definition range (a b : nat) : list nat := seq a (b - a).

Definition dead_head_distance_of_segment (t : tour) (sp ep : nat) : dist :=
  let l := t_nodes t in
  if Nat.leb ep sp then
    if Nat.eqb sp 0 || Nat.eqb sp (length l) then Dist 0
    else dead_head_distance_between nw (nth_node t (sp - 1)) (nth_node t sp)
  else
    dist_add
      (dist_add
         (if Nat.eqb sp 0 then Dist 0 else dead_head_distance_between nw (nth_node t (sp - 1)) (nth_node t sp))
         (dist_sum (map (fun '(i, j) => dead_head_distance_between nw (nth_node t i) (nth_node t j))
                        (windows (range sp ep)))))
      (if Nat.eqb ep (length l) then Dist 0
       else dead_head_distance_between nw (nth_node t (ep - 1)) (nth_node t ep)).

Definition dead_head_distance_of_new_nodes (t : tour) (new_nodes : list node_id) (sp ep : nat) : dist :=
  dist_add
    (dist_add
       (if Nat.eqb sp 0 then Dist 0
        else dead_head_distance_between nw (nth_node t (sp - 1)) (hd (SD 0) new_nodes))
       (dist_sum (map (fun '(a, b) => dead_head_distance_between nw a b) (windows new_nodes))))
    (if Nat.leb (tlen t) ep then Dist 0
     else dead_head_distance_between nw (last new_nodes (SD 0)) (nth_node t ep)).

Definition dhi_after_unchecked (t : tour) (pos : nat) : Z := dhi_cost (nth_node t pos) (nth_node t (pos + 1)).
Definition dhi_after (t : tour) (pos : nat) : Z :=
  if Nat.leb (tlen t - 1) pos then 0 else dhi_after_unchecked t pos.
Definition dhi_before (t : tour) (pos : nat) : Z := if Nat.eqb pos 0 then 0 else dhi_after t (pos - 1).

Definition costs_of_segment (t : tour) (sp ep : nat) : Z :=
  if Nat.leb ep sp then dhi_before t sp
  else
    dhi_before t sp
    + z_sum (map (dhi_after_unchecked t) (range sp (ep - 1)))
    + dhi_after t (ep - 1)
    + z_sum (map (fun i => sm_cost (nth_node t i)) (range sp ep)).

Definition costs_of_new_nodes (t : tour) (new_nodes : list node_id) (sp ep : nat) : Z :=
  (if Nat.eqb sp 0 then 0 else dhi_cost (nth_node t (sp - 1)) (hd (SD 0) new_nodes))
  + z_sum (map (fun '(a, b) => dhi_cost a b) (windows new_nodes))
  + (if Nat.leb (tlen t) ep then 0 else dhi_cost (last new_nodes (SD 0)) (nth_node t ep))
  + z_sum (map sm_cost new_nodes).

Definition z_sub_cost (a b : Z) : res Z := if b <=? a then Ok (a - b) else Panic.  (* u64 subtraction *)
Definition dur_sub_sum (d : duration) (l : list node_id) : res duration := dur_sub d (dur_sum (map node_duration l)).

(** ** modifications *)
Definition replace_start_depot (t : tour) (new_sd : node_id) : res tour :=
  if t_dummy t then Err else
  if negb (is_start_depot (nd nw new_sd)) then Err else
  match t_nodes t with
  | old :: ((fnd :: _) as rest) =>
      let nodes := new_sd :: rest in
      do dd <- (match t_ddist t with
                | DistInf => Ok (compute_ddist nodes)
                | d => do x <- dist_sub d (dead_head_distance_between nw old fnd);
                       Ok (dist_add x (dead_head_distance_between nw new_sd fnd))
                end);
      do c1 <- z_sub_cost (t_costs t) (dur_sec_or (dead_head_time_between nw old fnd) planning_sec * c_dh P);
      Ok {| t_nodes := nodes; t_dummy := t_dummy t; t_vm := t_vm t; t_useful := t_useful t;
            t_sdist := t_sdist t; t_ddist := dd;
            t_costs := c1 + dur_sec_or (dead_head_time_between nw new_sd fnd) planning_sec * c_dh P |}
  | _ => Panic
  end.

Definition replace_end_depot (t : tour) (new_ed : node_id) : res tour :=
  if t_dummy t then Err else
  if negb (is_end_depot (nd nw new_ed)) then Err else
  let l := t_nodes t in
  if Nat.ltb (length l) 2 then Panic else
  let old := last_node t in
  let lnd := nth_node t (length l - 2) in
  let nodes := removelast l ++ [new_ed] in
  do dd <- (match t_ddist t with
            | DistInf => Ok (compute_ddist nodes)
            | d => do x <- dist_sub d (dead_head_distance_between nw lnd old);
                   Ok (dist_add x (dead_head_distance_between nw lnd new_ed))
            end);
  do c1 <- z_sub_cost (t_costs t) (dur_sec_or (dead_head_time_between nw lnd old) planning_sec * c_dh P);
  Ok {| t_nodes := nodes; t_dummy := t_dummy t; t_vm := t_vm t; t_useful := t_useful t;
        t_sdist := t_sdist t; t_ddist := dd;
        t_costs := c1 + dur_sec_or (dead_head_time_between nw lnd new_ed) planning_sec * c_dh P |}.

(* node-level part of remove: (start_pos, end_pos, remaining nodes, removed nodes) *)
Definition remove_nodes (t : tour) (seg : node_id * node_id) : res (nat * nat * list node_id * list node_id) :=
  do sp <- position_of t (fst seg);
  do ep <- position_of t (snd seg);
  do _ <- check_if_sequence_is_removable t sp ep;
  let l := t_nodes t in
  Ok (sp, ep, firstn sp l ++ skipn (ep + 1) l, slice sp (ep + 1) l).

(* remove: Ok (None, path) = no tour left *)
Definition remove (t : tour) (seg : node_id * node_id) : res (option tour * list node_id) :=
  do (sp, ep, tour_nodes, removed) <- remove_nodes t seg;
  let l := t_nodes t in
  do nu <- dur_sub_sum (t_useful t) removed;
  do nsd <- dist_sub (t_sdist t) (dist_sum (map (fun n => n_travel_dist (nd nw n)) removed));
  do dd0 <- dist_sub (t_ddist t) (dead_head_distance_of_segment t sp (ep + 1));
  let gap := Nat.eqb sp 0 || Nat.eqb ep (length l - 1) in
  let ndd := dist_add dd0 (if gap then Dist 0
                           else dead_head_distance_between nw (nth_node t (sp - 1)) (nth_node t (ep + 1))) in
  do c0 <- z_sub_cost (t_costs t) (costs_of_segment t sp (ep + 1));
  let nc := c0 + (if gap then 0 else dhi_cost (nth_node t (sp - 1)) (nth_node t (ep + 1))) in
  match path_new_trusted removed with
  | None => Panic
  | Some rp =>
      if Nat.eqb (length tour_nodes) 0 || (negb (t_dummy t) && Nat.leb (length tour_nodes) 2) then Ok (None, rp)
      else
        let vm := t_vm t && (negb (existsb node_is_maint removed) || existsb node_is_maint tour_nodes) in
        Ok (Some {| t_nodes := tour_nodes; t_dummy := t_dummy t; t_vm := vm; t_useful := nu;
                    t_sdist := nsd; t_ddist := ndd; t_costs := nc |}, rp)
  end.

(* the path actually inserted: a dummy tour takes no depots (drop_first / drop_last, each an unwrap) *)
Definition effective_path (dummy : bool) (path : list node_id) : res (list node_id) :=
  if dummy then
    do a <- (match path with
             | f :: r => if node_is_depot f then unwrap_opt (path_new_trusted r) else Ok path
             | [] => Panic end);
    (match a with
     | [] => Panic
     | _ => if node_is_depot (last a (SD 0)) then unwrap_opt (path_new_trusted (removelast a)) else Ok a
     end)
  else Ok path.

(* node-level part of insert_path: (start_pos, end_pos, new node list, removed nodes) *)
Definition insert_nodes (dummy : bool) (l path : list node_id)
  : res (nat * nat * list node_id * list node_id * list node_id) :=
  do p1 <- effective_path dummy path;
  match p1 with
  | [] => Panic
  | f :: _ =>
      do (sp, ep) <- get_insert_positions_l l f (last p1 f);
      do removed <- slice_res l sp ep;
      Ok (sp, ep, firstn sp l ++ p1 ++ skipn ep l, removed, p1)
  end.

(* insert_path: returns (new tour, removed path option) *)
Definition insert_path (t : tour) (path : list node_id) : res (tour * option (list node_id)) :=
  do (sp, ep, new_tour_nodes, removed, new_nodes) <- insert_nodes (t_dummy t) (t_nodes t) path;
  let contains_m := existsb node_is_maint new_nodes in
  do u0 <- dur_sub_sum (t_useful t) removed;
  let nu := dur_add u0 (dur_sum (map node_duration new_nodes)) in
  do s0 <- dist_sub (t_sdist t) (dist_sum (map (fun n => n_travel_dist (nd nw n)) removed));
  let nsd := dist_add s0 (dist_sum (map (fun n => n_travel_dist (nd nw n)) new_nodes)) in
  do ndd <- (match t_ddist t with
             | DistInf => Ok (compute_ddist new_tour_nodes)
             | d => do d0 <- dist_sub d (dead_head_distance_of_segment t sp ep);
                    Ok (dist_add d0 (dead_head_distance_of_new_nodes t new_nodes sp ep))
             end);
  do c0 <- z_sub_cost (t_costs t) (costs_of_segment t sp ep);
  let nc := c0 + costs_of_new_nodes t new_nodes sp ep in
  let vm := contains_m ||
            (t_vm t && (negb (existsb node_is_maint removed) || existsb node_is_maint new_tour_nodes)) in
  Ok ({| t_nodes := new_tour_nodes; t_dummy := t_dummy t; t_vm := vm; t_useful := nu; t_sdist := nsd;
         t_ddist := ndd; t_costs := nc |}, path_new_trusted removed).

(* start_time / end_time of a tour (used by total_overhead_duration) *)
Definition tour_start_time (t : tour) : res datetime :=
  if t_dummy t then Ok (start_time nw (first_node t))
  else dt_sub_dur (start_time nw (nth_node t 1)) (dead_head_time_between nw (first_node t) (nth_node t 1)).
Definition tour_end_time (t : tour) : datetime :=
  if t_dummy t then end_time nw (last_node t)
  else dt_add (end_time nw (nth_node t (tlen t - 2))) (dead_head_time_between nw (nth_node t (tlen t - 2)) (last_node t)).
End TourOps.
