From RS Require Import Base BaseFacts Network NetSpec NetFacts Tour TourExactStmts.
(* TourExactFacts.v — C09 at tour level: the delta updates of the cached figures equal recomputation. *)

(** * Arithmetic of the three sums *)
Lemma dist_add_assoc a b c : dist_add (dist_add a b) c = dist_add a (dist_add b c).
Proof. destruct a, b, c; cbn [dist_add]; auto. f_equal; lia. Qed.
Lemma dist_add_0_l a : dist_add (Dist 0) a = a.
Proof. destruct a; cbn [dist_add]; auto. Qed.
Lemma dist_add_0_r a : dist_add a (Dist 0) = a.
Proof. destruct a; cbn [dist_add]; auto. f_equal; lia. Qed.
Lemma dur_add_0_l a : dur_add (Len 0) a = a.
Proof. destruct a; cbn [dur_add]; auto. Qed.
Lemma dur_add_assoc a b c : dur_add (dur_add a b) c = dur_add a (dur_add b c).
Proof. destruct a, b, c; cbn [dur_add]; auto. f_equal; lia. Qed.

Lemma dist_fold l a : fold_left dist_add l a = dist_add a (fold_left dist_add l (Dist 0)).
Proof.
  revert a; induction l as [|x l IH]; intros a; cbn [fold_left].
  - now rewrite dist_add_0_r.
  - rewrite IH, (IH (dist_add (Dist 0) x)), dist_add_0_l. apply dist_add_assoc.
Qed.
Lemma dist_sum_app l1 l2 : dist_sum (l1 ++ l2) = dist_add (dist_sum l1) (dist_sum l2).
Proof. unfold dist_sum. rewrite fold_left_app. apply dist_fold. Qed.
Lemma dist_sum_cons x l : dist_sum (x :: l) = dist_add x (dist_sum l).
Proof. unfold dist_sum. cbn [fold_left]. rewrite dist_fold, dist_add_0_l. reflexivity. Qed.
Lemma dist_sum_nil : dist_sum [] = Dist 0.
Proof. reflexivity. Qed.
Lemma dist_sum_one x : dist_sum [x] = x.
Proof. rewrite dist_sum_cons. apply dist_add_0_r. Qed.

Lemma dur_fold l a : fold_left dur_add l a = dur_add a (fold_left dur_add l (Len 0)).
Proof.
  revert a; induction l as [|x l IH]; intros a; cbn [fold_left].
  - destruct a; cbn [dur_add]; auto. f_equal; lia.
  - rewrite IH, (IH (dur_add (Len 0) x)), dur_add_0_l. apply dur_add_assoc.
Qed.
Lemma dur_sum_app l1 l2 : dur_sum (l1 ++ l2) = dur_add (dur_sum l1) (dur_sum l2).
Proof. unfold dur_sum. rewrite fold_left_app. apply dur_fold. Qed.
Lemma dur_sum_cons x l : dur_sum (x :: l) = dur_add x (dur_sum l).
Proof. unfold dur_sum. cbn [fold_left]. rewrite dur_fold, dur_add_0_l. reflexivity. Qed.

Lemma z_sum_nil : z_sum [] = 0.
Proof. reflexivity. Qed.
Lemma z_sum_one x : z_sum [x] = x.
Proof. rewrite z_sum_cons. unfold z_sum; cbn [fold_left]. lia. Qed.

(* the delta formulas on the three kinds of figure *)
Lemma dist_delta a b c n old x :
  old = dist_add (dist_add a b) c -> old <> DistInf -> dist_sub old b = Ok x ->
  dist_add x n = dist_add (dist_add a n) c.
Proof.
  intros -> Hf. destruct a, b, c; cbn [dist_add] in *; try congruence.
  unfold dist_sub. destruct (m0 <=? m + m0 + m1); [|discriminate]. intros H; inversion H; subst.
  destruct n; cbn [dist_add]; auto. f_equal; lia.
Qed.
Lemma dist_delta_r a b n old x :
  old = dist_add a b -> old <> DistInf -> dist_sub old b = Ok x -> dist_add x n = dist_add a n.
Proof.
  intros E Hf Hs. rewrite <- (dist_add_0_r (dist_add a n)).
  eapply dist_delta; [|exact Hf|exact Hs]. now rewrite dist_add_0_r.
Qed.
Lemma dist_delta_inf a b c n x :
  dist_add (dist_add a b) c = DistInf -> dist_sub DistInf b = Ok x -> dist_add x n = DistInf.
Proof. intros _ H. cbn [dist_sub] in H. inversion H; subst. reflexivity. Qed.
Lemma dur_delta a b c n old x :
  old = dur_add (dur_add a b) c -> old <> DurInf -> dur_sub old b = Ok x ->
  dur_add x n = dur_add (dur_add a n) c.
Proof.
  intros -> Hf. destruct a, b, c; cbn [dur_add] in *; try congruence.
  unfold dur_sub. destruct (dur_leb (Len n1) (Len (n0 + n1 + n2))); [|discriminate]. intros H; inversion H; subst.
  destruct n; cbn [dur_add]; auto. f_equal; lia.
Qed.
Lemma z_delta old b x : z_sub_cost old b = Ok x -> x = old - b.
Proof. unfold z_sub_cost. destruct (b <=? old); [|discriminate]. intros H; inversion H; auto. Qed.

(** * Windows of a concatenation *)
Definition bridge {A} (d : A) (l1 l2 : list A) : list (A * A) :=
  match l1, l2 with
  | [], _ => []
  | _, [] => []
  | _ :: _, b :: _ => [(last l1 d, b)]
  end.

Lemma windows_app {A} (d : A) l1 l2 : windows (l1 ++ l2) = windows l1 ++ bridge d l1 l2 ++ windows l2.
Proof.
  induction l1 as [|a l1 IH]; [reflexivity|].
  destruct l1 as [|a' r].
  - destruct l2 as [|b l2]; reflexivity.
  - change (windows ((a :: a' :: r) ++ l2)) with ((a, a') :: windows ((a' :: r) ++ l2)).
    rewrite IH. change (windows (a :: a' :: r)) with ((a, a') :: windows (a' :: r)).
    destruct l2; reflexivity.
Qed.

Lemma bridge_app_r {A} (d : A) l1 l2 l3 : l2 <> [] -> bridge d l1 (l2 ++ l3) = bridge d l1 l2.
Proof. destruct l2 as [|b l2]; [congruence|]. intros _. destruct l1; reflexivity. Qed.
Lemma last_app_ne {A} (d : A) l1 l2 : l2 <> [] -> last (l1 ++ l2) d = last l2 d.
Proof.
  intros Hn. induction l1 as [|a l1 IH]; [reflexivity|].
  cbn [app]. destruct (l1 ++ l2) eqn:E.
  - apply app_eq_nil in E. destruct E; congruence.
  - rewrite <- E in *. cbn [last]. rewrite E, <- E. exact IH.
Qed.
Lemma bridge_app_l {A} (d : A) l0 l1 l2 : l1 <> [] -> bridge d (l0 ++ l1) l2 = bridge d l1 l2.
Proof.
  intros Hn. destruct l2 as [|b l2].
  - destruct (l0 ++ l1), l1; reflexivity.
  - destruct l1 as [|a l1]; [congruence|]. unfold bridge.
    destruct (l0 ++ a :: l1) eqn:E; [apply app_eq_nil in E; destruct E; discriminate|].
    rewrite <- E. rewrite last_app_ne by discriminate. reflexivity.
Qed.

Lemma bridge_one {A} (d : A) l x : l <> [] -> bridge d l [x] = [(last l d, x)].
Proof. destruct l; [congruence|reflexivity]. Qed.

(* three-part decomposition: windows (pre ++ mid ++ suf) *)
Definition seg_pairs {A} (d : A) (pre mid suf : list A) : list (A * A) :=
  bridge d pre (mid ++ suf) ++ windows mid ++ bridge d mid suf.
Lemma windows_3 {A} (d : A) pre mid suf :
  windows (pre ++ mid ++ suf) = windows pre ++ seg_pairs d pre mid suf ++ windows suf.
Proof. unfold seg_pairs. rewrite (windows_app d pre), (windows_app d mid). now rewrite <- !app_assoc. Qed.

(** * nth on concatenations *)
Lemma nth_last_of {A} (d : A) pre rest : pre <> [] -> nth (length pre - 1) (pre ++ rest) d = last pre d.
Proof.
  intros Hn. rewrite app_nth1 by (destruct pre; [congruence | cbn [length]; lia]).
  induction pre as [|a pre IH]; [congruence|].
  destruct pre as [|b pre]; [reflexivity|].
  cbn [length] in *. replace (S (S (length pre)) - 1)%nat with (S (length pre)) by lia.
  change (nth (S (length pre)) (a :: b :: pre) d) with (nth (length pre) (b :: pre) d).
  change (last (a :: b :: pre) d) with (last (b :: pre) d).
  rewrite <- IH by discriminate. f_equal. lia.
Qed.
Lemma nth_hd_of {A} (d : A) pre rest : nth (length pre) (pre ++ rest) d = hd d rest.
Proof. rewrite app_nth2 by lia. rewrite Nat.sub_diag. destruct rest; reflexivity. Qed.

Lemma map_nth_seq {A} (d : A) pre mid suf :
  map (fun i => nth i (pre ++ mid ++ suf) d) (seq (length pre) (length mid)) = mid.
Proof.
  revert pre; induction mid as [|m mid IH]; intros pre; [reflexivity|].
  cbn [length seq map]. f_equal.
  - rewrite nth_hd_of. reflexivity.
  - specialize (IH (pre ++ [m])). rewrite app_length in IH. cbn [length] in IH.
    rewrite Nat.add_1_r in IH. rewrite <- app_assoc in IH. exact IH.
Qed.

Lemma windows_map {A B} (f : A -> B) l : windows (map f l) = map (fun '(a, b) => (f a, f b)) (windows l).
Proof.
  induction l as [|a l IH]; [reflexivity|]. destruct l as [|b l]; [reflexivity|].
  change (windows (map f (a :: b :: l))) with ((f a, f b) :: windows (map f (b :: l))).
  rewrite IH. reflexivity.
Qed.
Lemma windows_seq a n : windows (seq a n) = map (fun i => (i, (i + 1)%nat)) (seq a (n - 1)).
Proof.
  revert a; induction n as [|n IH]; intros a; [reflexivity|].
  destruct n as [|n]; [reflexivity|].
  change (windows (seq a (S (S n)))) with ((a, S a) :: windows (seq (S a) (S n))).
  rewrite IH. replace (S (S n) - 1)%nat with (S n) by lia. replace (S n - 1)%nat with n by lia.
  cbn [seq map]. now rewrite Nat.add_1_r.
Qed.

(* index-based window sums equal list-based ones *)
Lemma idx_windows {A X} (d : A) (g : A -> A -> X) pre mid suf :
  map (fun '(i, j) => g (nth i (pre ++ mid ++ suf) d) (nth j (pre ++ mid ++ suf) d))
      (windows (seq (length pre) (length mid)))
  = map (fun '(a, b) => g a b) (windows mid).
Proof.
  pose proof (map_nth_seq d pre mid suf) as E.
  set (f := fun i => nth i (pre ++ mid ++ suf) d) in *.
  rewrite <- E at 2. rewrite windows_map, map_map.
  apply map_ext. intros [i j]. reflexivity.
Qed.
Lemma idx_succ {A X} (d : A) (g : A -> A -> X) pre mid suf :
  map (fun i => g (nth i (pre ++ mid ++ suf) d) (nth (i + 1) (pre ++ mid ++ suf) d))
      (seq (length pre) (length mid - 1))
  = map (fun '(a, b) => g a b) (windows mid).
Proof.
  rewrite <- idx_windows with (d := d) (pre := pre) (suf := suf). rewrite windows_seq, map_map. reflexivity.
Qed.
Lemma idx_nodes {A X} (d : A) (f : A -> X) pre mid suf :
  map (fun i => f (nth i (pre ++ mid ++ suf) d)) (seq (length pre) (length mid)) = map f mid.
Proof.
  pose proof (map_nth_seq d pre mid suf) as E.
  set (h := fun i => nth i (pre ++ mid ++ suf) d) in *.
  rewrite <- E at 2. now rewrite map_map.
Qed.

Lemma skipn_skipn' {A} x y (l : list A) : skipn x (skipn y l) = skipn (y + x) l.
Proof.
  revert l; induction y as [|y IH]; intros l; [reflexivity|].
  destruct l as [|a l]; [now rewrite !skipn_nil|]. cbn [skipn plus]. apply IH.
Qed.
Lemma split3 {A} (l : list A) sp ep : (sp <= ep)%nat -> (ep <= length l)%nat ->
  l = firstn sp l ++ slice sp ep l ++ skipn ep l /\
  length (firstn sp l) = sp /\ length (slice sp ep l) = (ep - sp)%nat.
Proof.
  intros H1 H2. unfold slice. split; [|split].
  - rewrite <- (firstn_skipn sp l) at 1. f_equal.
    rewrite <- (firstn_skipn (ep - sp) (skipn sp l)) at 1. f_equal.
    rewrite skipn_skipn'. f_equal. lia.
  - apply firstn_length_le. lia.
  - rewrite firstn_length, skipn_length. lia.
Qed.

(* nth of a three-part list at the four border positions *)
Lemma n3_a {A} (d : A) pre mid suf i : pre <> [] -> i = (length pre - 1)%nat ->
  nth i (pre ++ mid ++ suf) d = last pre d.
Proof. intros H ->. now apply nth_last_of. Qed.
Lemma n3_b {A} (d : A) pre mid suf i : i = length pre -> nth i (pre ++ mid ++ suf) d = hd d (mid ++ suf).
Proof. intros ->. apply nth_hd_of. Qed.
Lemma n3_c {A} (d : A) pre mid suf i : mid <> [] -> i = (length pre + length mid - 1)%nat ->
  nth i (pre ++ mid ++ suf) d = last mid d.
Proof.
  intros H ->. rewrite app_assoc. rewrite <- app_length.
  rewrite nth_last_of by (intros E; apply app_eq_nil in E; destruct E; congruence).
  now apply last_app_ne.
Qed.
Lemma n3_d {A} (d : A) pre mid suf i : i = (length pre + length mid)%nat ->
  nth i (pre ++ mid ++ suf) d = hd d suf.
Proof. intros ->. rewrite app_assoc. rewrite <- app_length. apply nth_hd_of. Qed.

Ltac brk :=
  repeat match goal with
  | |- context [Nat.eqb ?a ?b] => destruct (Nat.eqb_spec a b)
  | |- context [Nat.leb ?a ?b] => destruct (Nat.leb_spec a b)
  end; cbn [orb andb negb].
Ltac lens := cbn [length] in *; rewrite ?app_length in *; cbn [length] in *.

(* sums over a bridge, in the index form the delta helpers use *)
Section BridgeIdx.
Context {X : Type} (z : X) (g : node_id -> node_id -> X) (S : list (node_id * node_id) -> X).
Hypothesis S_nil : S [] = z.
Hypothesis S_one : forall a b, S [(a, b)] = g a b.
Let d := SD 0.

Lemma br_pre pre mid suf i j : i = (length pre - 1)%nat -> j = length pre ->
  S (bridge d pre (mid ++ suf)) =
  if Nat.eqb (length pre) 0 || Nat.eqb (length pre) (length (pre ++ mid ++ suf)) then z
  else g (nth i (pre ++ mid ++ suf) d) (nth j (pre ++ mid ++ suf) d).
Proof.
  intros -> ->. destruct pre as [|p pre]; [exact S_nil|].
  rewrite n3_a, n3_b by (auto; discriminate).
  rewrite app_length. destruct (mid ++ suf) as [|b r]; brk; try (exfalso; lens; lia); auto.
  cbn [bridge hd]. apply S_one.
Qed.
Lemma br_suf pre mid suf i j : mid <> [] -> i = (length pre + length mid - 1)%nat -> j = (length pre + length mid)%nat ->
  S (bridge d mid suf) =
  if Nat.eqb (length pre + length mid) (length (pre ++ mid ++ suf)) then z
  else g (nth i (pre ++ mid ++ suf) d) (nth j (pre ++ mid ++ suf) d).
Proof.
  intros Hm -> ->. rewrite n3_c, n3_d by auto. rewrite !app_length.
  destruct mid as [|m mid]; [congruence|].
  destruct suf as [|b r]; brk; try (exfalso; lens; lia); auto.
  cbn [bridge hd]. apply S_one.
Qed.
Lemma br_gap pre mid suf i j : i = (length pre - 1)%nat -> j = (length pre + length mid)%nat ->
  S (bridge d pre suf) =
  if Nat.eqb (length pre) 0 || Nat.eqb (length pre + length mid) (length (pre ++ mid ++ suf)) then z
  else g (nth i (pre ++ mid ++ suf) d) (nth j (pre ++ mid ++ suf) d).
Proof.
  intros -> ->. destruct pre as [|p pre]; [exact S_nil|].
  rewrite n3_a, n3_d by (auto; discriminate). rewrite !app_length.
  destruct suf as [|b r]; brk; try (exfalso; lens; lia); auto.
  cbn [bridge hd]. apply S_one.
Qed.
Lemma br_new_pre pre mid suf new i : new <> [] -> i = (length pre - 1)%nat ->
  S (bridge d pre (new ++ suf)) =
  if Nat.eqb (length pre) 0 then z else g (nth i (pre ++ mid ++ suf) d) (hd d new).
Proof.
  intros Hn ->. destruct pre as [|p pre]; [exact S_nil|].
  rewrite n3_a by (auto; discriminate). destruct new as [|a new]; [congruence|].
  cbn [length Nat.eqb app bridge hd]. apply S_one.
Qed.
Lemma br_new_suf pre mid suf new j : new <> [] -> j = (length pre + length mid)%nat ->
  S (bridge d new suf) =
  if Nat.eqb (length pre + length mid) (length (pre ++ mid ++ suf)) then z
  else g (last new d) (nth j (pre ++ mid ++ suf) d).
Proof.
  intros Hn ->. rewrite n3_d by auto. rewrite !app_length.
  destruct new as [|a new]; [congruence|].
  destruct suf as [|b r]; brk; try (exfalso; lens; lia); auto.
  cbn [bridge hd]. apply S_one.
Qed.
End BridgeIdx.

(** * Tours *)
Ltac bind_ok H v E :=
  match type of H with
  | bind ?x _ = _ => destruct x as [v| | |] eqn:E; cbn [bind] in H; try discriminate H
  end.

(* the capped dead-head matrix holds finite distances (load builds [Dist _] entries only) *)
Definition dh_dists_finite_b (nw : network) : bool :=
  forallb (fun row => forallb (fun '(d, _) => match d with Dist _ => true | DistInf => false end) row) (nw_dh nw).

Section Exact.
Variable nw : network.
Hypothesis WF : net_wf_b nw = true.

Definition DS (ps : list (node_id * node_id)) : dist :=
  dist_sum (map (fun '(a, b) => dead_head_distance_between nw a b) ps).
Definition CS (ps : list (node_id * node_id)) : Z :=
  z_sum (map (fun '(a, b) => dhi_cost nw a b) ps).
Definition SM (l : list node_id) : Z := z_sum (map (sm_cost nw) l).

Lemma DS_app p q : DS (p ++ q) = dist_add (DS p) (DS q).
Proof. unfold DS. now rewrite map_app, dist_sum_app. Qed.
Lemma CS_app p q : CS (p ++ q) = CS p + CS q.
Proof. unfold CS. now rewrite map_app, z_sum_app. Qed.
Lemma SM_app p q : SM (p ++ q) = SM p + SM q.
Proof. unfold SM. now rewrite map_app, z_sum_app. Qed.
Lemma DS_one a b : DS [(a, b)] = dead_head_distance_between nw a b.
Proof. unfold DS. cbn [map]. apply dist_sum_one. Qed.
Lemma CS_one a b : CS [(a, b)] = dhi_cost nw a b.
Proof. unfold CS. cbn [map]. apply z_sum_one. Qed.

Lemma ddist_DS l : compute_ddist nw l = DS (windows l).
Proof. reflexivity. Qed.
Lemma costs_CS l : compute_costs nw l = SM l + CS (windows l).
Proof. reflexivity. Qed.

Lemma exact_proj t : tour_exact nw t ->
  t_vm t = compute_vm nw (t_nodes t) /\ t_useful t = compute_useful nw (t_nodes t) /\
  t_sdist t = compute_sdist nw (t_nodes t) /\ t_ddist t = compute_ddist nw (t_nodes t) /\
  t_costs t = compute_costs nw (t_nodes t).
Proof. intros H. repeat split; rewrite H at 1; reflexivity. Qed.

Lemma useful_app l1 l2 : compute_useful nw (l1 ++ l2) = dur_add (compute_useful nw l1) (compute_useful nw l2).
Proof. unfold compute_useful. now rewrite map_app, dur_sum_app. Qed.
Lemma sdist_app l1 l2 : compute_sdist nw (l1 ++ l2) = dist_add (compute_sdist nw l1) (compute_sdist nw l2).
Proof. unfold compute_sdist. now rewrite map_app, dist_sum_app. Qed.
Lemma vm_app l1 l2 : compute_vm nw (l1 ++ l2) = compute_vm nw l1 || compute_vm nw l2.
Proof. apply existsb_app. Qed.
Lemma ddist_app l1 l2 :
  compute_ddist nw (l1 ++ l2) = dist_add (DS (windows l1)) (dist_add (DS (bridge (SD 0) l1 l2)) (DS (windows l2))).
Proof. rewrite ddist_DS, (windows_app (SD 0)), !DS_app. reflexivity. Qed.
Lemma costs_app l1 l2 :
  compute_costs nw (l1 ++ l2) = SM l1 + SM l2 + CS (windows l1) + CS (bridge (SD 0) l1 l2) + CS (windows l2).
Proof. rewrite costs_CS, (windows_app (SD 0)), !CS_app, SM_app. lia. Qed.

Lemma useful_one n : compute_useful nw [n] = node_duration nw n.
Proof. unfold compute_useful. cbn [map]. rewrite dur_sum_cons. destruct (node_duration nw n); cbn [dur_sum fold_left dur_add]; auto. f_equal; lia. Qed.
Lemma sdist_one n : compute_sdist nw [n] = n_travel_dist (nd nw n).
Proof. unfold compute_sdist. cbn [map]. apply dist_sum_one. Qed.
Lemma vm_one n : compute_vm nw [n] = node_is_maint nw n.
Proof. unfold compute_vm. cbn [existsb]. apply orb_false_r. Qed.
Lemma SM_one n : SM [n] = sm_cost nw n.
Proof. unfold SM. cbn [map]. apply z_sum_one. Qed.

Lemma ddist_cons2 a b l :
  compute_ddist nw (a :: b :: l) = dist_add (dead_head_distance_between nw a b) (compute_ddist nw (b :: l)).
Proof.
  unfold compute_ddist. change (windows (a :: b :: l)) with ((a, b) :: windows (b :: l)).
  cbn [map]. apply dist_sum_cons.
Qed.
Lemma costs_cons2 a b l :
  compute_costs nw (a :: b :: l) = sm_cost nw a + dhi_cost nw a b + compute_costs nw (b :: l).
Proof.
  unfold compute_costs. change (windows (a :: b :: l)) with ((a, b) :: windows (b :: l)).
  cbn [map]. rewrite !z_sum_cons. lia.
Qed.

Lemma node_duration_len n : exists z, node_duration nw n = Len z.
Proof.
  unfold node_duration, n_duration. pose proof (nd_wf nw WF n) as W.
  destruct (nd nw n) as [dn|s|m|dn]; cbn [node_wf n_end_time n_start_time] in *; try (eexists; reflexivity).
  - destruct (st_dep s), (st_arr s); try discriminate. unfold dt_diff.
    destruct (dt_leb (Point s0) (Point s1)); eexists; reflexivity.
  - destruct (ms_start m), (ms_end m); try discriminate. unfold dt_diff.
    destruct (dt_leb (Point s) (Point s0)); eexists; reflexivity.
Qed.
Lemma useful_len l : exists z, compute_useful nw l = Len z.
Proof.
  induction l as [|a l [z IH]]; [exists 0; reflexivity|].
  change (a :: l) with ([a] ++ l). rewrite useful_app, useful_one, IH.
  destruct (node_duration_len a) as [y ->]. eexists; reflexivity.
Qed.
Lemma useful_fin l : compute_useful nw l <> DurInf.
Proof. destruct (useful_len l) as [z ->]. discriminate. Qed.

Lemma depot_facts n : is_depot (nd nw n) = true ->
  node_duration nw n = Len 0 /\ n_travel_dist (nd nw n) = Dist 0 /\ node_is_maint nw n = false /\ sm_cost nw n = 0.
Proof.
  unfold node_duration, node_is_maint, sm_cost.
  destruct (nd nw n); cbn; try discriminate; intros _; repeat split; lia.
Qed.
Lemma start_is_depot x : is_start_depot x = true -> is_depot x = true.
Proof. unfold is_depot. now intros ->. Qed.
Lemma end_is_depot x : is_end_depot x = true -> is_depot x = true.
Proof. unfold is_depot. intros ->. apply orb_true_r. Qed.

Lemma dhi_start a b : is_start_depot (nd nw a) = true ->
  dhi_cost nw a b = dur_sec_or (dead_head_time_between nw a b) (planning_sec nw) * c_dh (nw_params nw).
Proof. intros H. unfold dhi_cost, idle_sec, idle_time_between. rewrite H. cbn. lia. Qed.
Lemma dhi_end a b : is_end_depot (nd nw b) = true ->
  dhi_cost nw a b = dur_sec_or (dead_head_time_between nw a b) (planning_sec nw) * c_dh (nw_params nw).
Proof. intros H. unfold dhi_cost, idle_sec, idle_time_between. rewrite H, orb_true_r. cbn. lia. Qed.

Lemma replace_start_depot_exact' t d t' : tour_exact nw t ->
  is_start_depot (nd nw (first_node t)) = true ->
  replace_start_depot nw t d = Ok t' -> tour_exact nw t'.
Proof.
  intros Hex Hsd H.
  destruct (exact_proj t Hex) as (Evm & Eu & Es & Ed & Ec).
  unfold replace_start_depot in H.
  destruct (t_dummy t) eqn:Edm; [discriminate|].
  destruct (is_start_depot (nd nw d)) eqn:Enew; cbn [negb] in H; [|discriminate].
  destruct (t_nodes t) as [|old [|fnd rest]] eqn:El; try discriminate.
  unfold first_node, nth_node in Hsd. rewrite El in Hsd. cbn [nth] in Hsd.
  destruct (depot_facts old (start_is_depot _ Hsd)) as (O1 & O2 & O3 & O4).
  destruct (depot_facts d (start_is_depot _ Enew)) as (N1 & N2 & N3 & N4).
  bind_ok H dd Edd. bind_ok H c1 Ec1. injection H as <-.
  change (old :: fnd :: rest) with ([old] ++ fnd :: rest) in *.
  unfold tour_exact, new_computing. cbn [t_nodes t_dummy].
  change (d :: fnd :: rest) with ([d] ++ fnd :: rest).
  f_equal.
  - rewrite Evm, !vm_app, !vm_one, O3, N3. reflexivity.
  - rewrite Eu, !useful_app, !useful_one, O1, N1. reflexivity.
  - rewrite Es, !sdist_app, !sdist_one, O2, N2. reflexivity.
  - destruct (t_ddist t) as [m|] eqn:Em.
    + bind_ok Edd x Ex. injection Edd as <-.
      change ([old] ++ fnd :: rest) with (old :: fnd :: rest) in Ed.
      change ([d] ++ fnd :: rest) with (d :: fnd :: rest).
      rewrite ddist_cons2 in *.
      rewrite <- (dist_add_0_l (dead_head_distance_between nw d fnd)) at 2.
      eapply dist_delta; [| |exact Ex]; [rewrite dist_add_0_l; exact Ed | discriminate].
    + injection Edd as <-. reflexivity.
  - apply z_delta in Ec1.
    change ([old] ++ fnd :: rest) with (old :: fnd :: rest) in Ec.
    change ([d] ++ fnd :: rest) with (d :: fnd :: rest).
    rewrite costs_cons2 in *. rewrite dhi_start in * by assumption. lia.
Qed.
Lemma replace_end_depot_exact' t d t' : tour_exact nw t ->
  is_end_depot (nd nw (last_node t)) = true ->
  replace_end_depot nw t d = Ok t' -> tour_exact nw t'.
Proof.
  intros Hex Hed H.
  destruct (exact_proj t Hex) as (Evm & Eu & Es & Ed & Ec).
  unfold replace_end_depot in H.
  destruct (t_dummy t) eqn:Edm; [discriminate|].
  destruct (is_end_depot (nd nw d)) eqn:Enew; cbn [negb] in H; [|discriminate].
  destruct (Nat.ltb (length (t_nodes t)) 2) eqn:Elen; [discriminate|].
  apply Nat.ltb_ge in Elen.
  assert (exists l' old, t_nodes t = l' ++ [old] /\ l' <> []) as (l' & old & El & Hne).
  { destruct (exists_last (l := t_nodes t)) as (l' & old & E).
    - intros E; rewrite E in Elen; cbn in Elen; lia.
    - exists l', old; split; auto. intros ->. rewrite E in Elen. cbn in Elen. lia. }
  unfold last_node, nth_node, tlen in *. rewrite El in *.
  rewrite removelast_last in H.
  rewrite app_length in *. cbn [length] in *.
  replace (length l' + 1 - 1)%nat with (length l') in * by lia.
  replace (length l' + 1 - 2)%nat with (length l' - 1)%nat in * by lia.
  rewrite nth_hd_of in *. cbn [hd] in *.
  rewrite nth_last_of in * by assumption.
  destruct (depot_facts old (end_is_depot _ Hed)) as (O1 & O2 & O3 & O4).
  destruct (depot_facts d (end_is_depot _ Enew)) as (N1 & N2 & N3 & N4).
  bind_ok H dd Edd. bind_ok H c1 Ec1. injection H as <-.
  unfold tour_exact, new_computing. cbn [t_nodes t_dummy].
  f_equal.
  - rewrite Evm, !vm_app, !vm_one, O3, N3. reflexivity.
  - rewrite Eu, !useful_app, !useful_one, O1, N1. reflexivity.
  - rewrite Es, !sdist_app, !sdist_one, O2, N2. reflexivity.
  - destruct (t_ddist t) as [m|] eqn:Em.
    + bind_ok Edd x Ex. injection Edd as <-.
      rewrite ddist_app in *. rewrite bridge_one in * by assumption. rewrite DS_one in *.
      change (DS (windows [old])) with (Dist 0) in Ed. change (DS (windows [d])) with (Dist 0).
      rewrite dist_add_0_r in *.
      eapply dist_delta_r; [exact Ed|discriminate|exact Ex].
    + injection Edd as <-. reflexivity.
  - apply z_delta in Ec1.
    rewrite costs_app in *. rewrite bridge_one in * by assumption. rewrite CS_one, SM_one in *.
    change (CS (windows [old])) with 0 in Ec. change (CS (windows [d])) with 0.
    rewrite dhi_end in * by assumption. lia.
Qed.
Lemma DS_nil : DS [] = Dist 0.
Proof. reflexivity. Qed.
Lemma CS_nil : CS [] = 0.
Proof. reflexivity. Qed.

Lemma ddseg_eq t pre mid suf : t_nodes t = pre ++ mid ++ suf ->
  dead_head_distance_of_segment nw t (length pre) (length pre + length mid) = DS (seg_pairs (SD 0) pre mid suf).
Proof.
  intros El. unfold dead_head_distance_of_segment, seg_pairs, nth_node, range. rewrite El. rewrite !DS_app.
  replace (length pre + length mid - length pre)%nat with (length mid) by lia.
  rewrite (idx_windows (SD 0) (dead_head_distance_between nw)). fold (DS (windows mid)).
  destruct mid as [|m mid'].
  - rewrite (br_pre (Dist 0) (dead_head_distance_between nw) DS DS_nil DS_one pre [] suf (length pre - 1) (length pre)) by lia.
    change (DS (windows [])) with (Dist 0). change (DS (bridge (SD 0) [] suf)) with (Dist 0).
    cbn [length]. rewrite Nat.add_0_r, Nat.leb_refl, !dist_add_0_r. reflexivity.
  - rewrite (br_pre (Dist 0) (dead_head_distance_between nw) DS DS_nil DS_one pre (m :: mid') suf (length pre - 1) (length pre)) by lia.
    rewrite (br_suf (Dist 0) (dead_head_distance_between nw) DS DS_nil DS_one pre (m :: mid') suf
               (length pre + length (m :: mid') - 1) (length pre + length (m :: mid'))) by (discriminate || lia).
    brk; try (exfalso; lens; lia); rewrite ?dist_add_assoc; reflexivity.
Qed.
Lemma ddnew_eq t pre mid suf new : t_nodes t = pre ++ mid ++ suf -> new <> [] ->
  dead_head_distance_of_new_nodes nw t new (length pre) (length pre + length mid) = DS (seg_pairs (SD 0) pre new suf).
Proof.
  intros El Hn. unfold dead_head_distance_of_new_nodes, seg_pairs, nth_node, tlen. rewrite El. rewrite !DS_app.
  fold (DS (windows new)).
  rewrite (br_new_pre (Dist 0) (dead_head_distance_between nw) DS DS_nil DS_one pre mid suf new (length pre - 1)) by auto.
  rewrite (br_new_suf (Dist 0) (dead_head_distance_between nw) DS DS_nil DS_one pre mid suf new (length pre + length mid)) by auto.
  brk; try (exfalso; lens; lia); rewrite ?dist_add_assoc; reflexivity.
Qed.

Lemma cseg_eq t pre mid suf : t_nodes t = pre ++ mid ++ suf ->
  costs_of_segment nw t (length pre) (length pre + length mid) = CS (seg_pairs (SD 0) pre mid suf) + SM mid.
Proof.
  intros El. unfold costs_of_segment, dhi_before, dhi_after, dhi_after_unchecked, seg_pairs, nth_node, tlen, range.
  rewrite El. rewrite !CS_app.
  replace (length pre + length mid - length pre)%nat with (length mid) by lia.
  replace (length pre + length mid - 1 - length pre)%nat with (length mid - 1)%nat by lia.
  rewrite (idx_succ (SD 0) (dhi_cost nw)). fold (CS (windows mid)).
  rewrite (idx_nodes (SD 0) (sm_cost nw)). fold (SM mid).
  destruct pre as [|p pre0].
  - change (CS (bridge (SD 0) [] (mid ++ suf))) with 0. cbn [length Nat.eqb plus].
    destruct mid as [|m mid'].
    + reflexivity.
    + rewrite (br_suf 0 (dhi_cost nw) CS CS_nil CS_one [] (m :: mid') suf
               (length (m :: mid') - 1) (length (m :: mid') - 1 + 1)) by (discriminate || (cbn [length]; lia)).
      cbn [length plus]. brk; try (exfalso; lens; lia); lia.
  - rewrite (br_pre 0 (dhi_cost nw) CS CS_nil CS_one (p :: pre0) mid suf
               (length (p :: pre0) - 1) (length (p :: pre0) - 1 + 1)) by (cbn [length]; lia).
    destruct mid as [|m mid'].
    + change (CS (windows [])) with 0. change (CS (bridge (SD 0) [] suf)) with 0. change (SM []) with 0.
      brk; try (exfalso; lens; lia); lia.
    + rewrite (br_suf 0 (dhi_cost nw) CS CS_nil CS_one (p :: pre0) (m :: mid') suf
               (length (p :: pre0) + length (m :: mid') - 1) (length (p :: pre0) + length (m :: mid') - 1 + 1))
        by (discriminate || (cbn [length]; lia)).
      brk; try (exfalso; lens; lia); lia.
Qed.

Lemma cnew_eq t pre mid suf new : t_nodes t = pre ++ mid ++ suf -> new <> [] ->
  costs_of_new_nodes nw t new (length pre) (length pre + length mid) = CS (seg_pairs (SD 0) pre new suf) + SM new.
Proof.
  intros El Hn. unfold costs_of_new_nodes, seg_pairs, nth_node, tlen. rewrite El. rewrite !CS_app.
  fold (CS (windows new)). fold (SM new).
  rewrite (br_new_pre 0 (dhi_cost nw) CS CS_nil CS_one pre mid suf new (length pre - 1)) by auto.
  rewrite (br_new_suf 0 (dhi_cost nw) CS CS_nil CS_one pre mid suf new (length pre + length mid)) by auto.
  brk; try (exfalso; lens; lia); lia.
Qed.
Lemma travel_fin n : dists_finite_b nw = true -> exists m, n_travel_dist (nd nw n) = Dist m.
Proof.
  intros DF. unfold nd. destruct (assoc nid_eqb n (nw_nodes nw)) as [x|] eqn:E.
  - apply (assoc_in _ nid_eqb_eq) in E. unfold dists_finite_b in DF. rewrite forallb_forall in DF.
    specialize (DF _ E). cbn in DF. destruct (n_travel_dist x); [eexists; reflexivity|discriminate].
  - exists 0. reflexivity.
Qed.
Lemma sdist_fin l : dists_finite_b nw = true -> compute_sdist nw l <> DistInf.
Proof.
  intros DF. induction l as [|a l IH]; [discriminate|].
  change (a :: l) with ([a] ++ l). rewrite sdist_app, sdist_one.
  destruct (travel_fin a DF) as [m ->]. destruct (compute_sdist nw l); [discriminate|congruence].
Qed.

Lemma insert_nodes_inv dummy l path sp ep newl removed p1 :
  insert_nodes nw dummy l path = Ok (sp, ep, newl, removed, p1) ->
  p1 <> [] /\ (sp <= ep)%nat /\ (ep <= length l)%nat /\ removed = slice sp ep l /\
  newl = firstn sp l ++ p1 ++ skipn ep l.
Proof.
  unfold insert_nodes. intros H. bind_ok H q E1. destruct q as [|f q']; [discriminate|].
  bind_ok H pr E2. destruct pr as [sp' ep']. bind_ok H rem E3. injection H as <- <- <- <- <-.
  unfold slice_res in E3. destruct (Nat.leb sp' ep' && Nat.leb ep' (length l)) eqn:Eb; [|discriminate].
  apply andb_true_iff in Eb. destruct Eb as [B1 B2]. apply Nat.leb_le in B1, B2.
  injection E3 as <-. repeat split; auto. discriminate.
Qed.

Lemma insert_path_exact' t p t' r : dists_finite_b nw = true -> tour_exact nw t ->
  insert_path nw t p = Ok (t', r) -> tour_exact nw t'.
Proof.
  intros DF Hex H.
  destruct (exact_proj t Hex) as (Evm & Eu & Es & Ed & Ec).
  unfold insert_path in H. bind_ok H q Ein. destruct q as [[[[sp ep] newl] removed] new].
  apply insert_nodes_inv in Ein. destruct Ein as (Hn & H1 & H2 & -> & ->).
  destruct (split3 (t_nodes t) sp ep H1 H2) as (El & Lp & Lm).
  set (pre := firstn sp (t_nodes t)) in *. set (mid := slice sp ep (t_nodes t)) in *.
  set (suf := skipn ep (t_nodes t)) in *. clearbody pre mid suf.
  assert (Hep : ep = (length pre + length mid)%nat) by lia. subst sp. subst ep. clear H1 H2 Lm.
  bind_ok H u0 Eu0. bind_ok H s0 Es0. bind_ok H ndd Edd. bind_ok H c0 Ec0. injection H as <- <-.
  unfold tour_exact, new_computing. cbn [t_nodes t_dummy]. f_equal.
  - rewrite Evm, El. unfold compute_vm. rewrite !existsb_app.
    repeat match goal with |- context [existsb ?f ?l] => destruct (existsb f l) end; reflexivity.
  - unfold dur_sub_sum in Eu0. fold (compute_useful nw mid) in Eu0. fold (compute_useful nw new).
    rewrite !useful_app, <- dur_add_assoc.
    eapply dur_delta; [| |exact Eu0].
    + rewrite Eu, El, !useful_app, dur_add_assoc. reflexivity.
    + rewrite Eu. apply useful_fin.
  - fold (compute_sdist nw mid) in Es0. fold (compute_sdist nw new).
    rewrite !sdist_app, <- dist_add_assoc.
    eapply dist_delta; [| |exact Es0].
    + rewrite Es, El, !sdist_app, dist_add_assoc. reflexivity.
    + rewrite Es. now apply sdist_fin.
  - destruct (t_ddist t) as [m|] eqn:Em.
    + bind_ok Edd d0 Ed0. injection Edd as <-.
      rewrite (ddseg_eq t pre mid suf El) in Ed0. rewrite (ddnew_eq t pre mid suf new El Hn).
      rewrite ddist_DS, (windows_3 (SD 0)), !DS_app, <- dist_add_assoc.
      eapply dist_delta; [| |exact Ed0]; [|discriminate].
      rewrite Ed, El, ddist_DS, (windows_3 (SD 0)), !DS_app, dist_add_assoc. reflexivity.
    + injection Edd as <-. reflexivity.
  - apply z_delta in Ec0. rewrite (cseg_eq t pre mid suf El) in Ec0. rewrite (cnew_eq t pre mid suf new El Hn).
    rewrite Ec, El in Ec0. rewrite !costs_CS, !(windows_3 (SD 0)), !CS_app, !SM_app in *. lia.
Qed.
Lemma index_of_lt' {A} (p : A -> bool) l i : index_of p l = Some i -> (i < length l)%nat.
Proof.
  revert i; induction l as [|x l IH]; intros i; cbn [index_of length]; [discriminate|].
  destruct (p x); [intros H; injection H as <-; lia|].
  destruct (index_of p l) as [k|]; [|discriminate]. intros H; injection H as <-.
  specialize (IH k eq_refl). lia.
Qed.

Lemma remove_nodes_inv t seg sp ep tn removed :
  remove_nodes nw t seg = Ok (sp, ep, tn, removed) ->
  (sp <= ep)%nat /\ (ep < length (t_nodes t))%nat /\
  tn = firstn sp (t_nodes t) ++ skipn (ep + 1) (t_nodes t) /\ removed = slice sp (ep + 1) (t_nodes t) /\
  (t_dummy t = false -> sp = 0%nat -> (length (t_nodes t) - 3 < ep)%nat) /\
  (t_dummy t = false -> ep = (length (t_nodes t) - 1)%nat -> (sp < 2)%nat).
Proof.
  unfold remove_nodes. intros H. bind_ok H a Ea. bind_ok H b Eb. bind_ok H u Eu.
  injection H as <- <- <- <-.
  unfold position_of, ok_or_err in Ea, Eb.
  destruct (index_of _ (t_nodes t)) as [i|] eqn:Ei in Ea; [|discriminate]. injection Ea as <-.
  destruct (index_of _ (t_nodes t)) as [j|] eqn:Ej in Eb; [|discriminate]. injection Eb as <-.
  apply index_of_lt' in Ej.
  unfold check_if_sequence_is_removable, tlen in Eu.
  destruct (negb (t_dummy t) && Nat.eqb i 0 && Nat.ltb (length (t_nodes t)) 3) eqn:K1; [discriminate|].
  destruct (negb (t_dummy t) && Nat.eqb i 0 && Nat.leb j (length (t_nodes t) - 3)) eqn:K2; [discriminate|].
  destruct (Nat.eqb (length (t_nodes t)) 0) eqn:K3; [discriminate|].
  destruct (negb (t_dummy t) && Nat.eqb j (length (t_nodes t) - 1) && Nat.leb 2 i) eqn:K4; [discriminate|].
  destruct (Nat.ltb j i) eqn:K5; [discriminate|]. apply Nat.ltb_ge in K5.
  repeat split; auto.
  - intros Hd ->. rewrite Hd in K2. cbn [negb Nat.eqb andb] in K2. now apply Nat.leb_gt in K2.
  - intros Hd ->. rewrite Hd, Nat.eqb_refl in K4. cbn [negb andb] in K4. now apply Nat.leb_gt in K4.
Qed.

Lemma remove_exact_partial' t seg t' r : dists_finite_b nw = true -> tour_exact nw t ->
  (t_ddist t = DistInf -> compute_ddist nw (t_nodes t') = DistInf) ->
  remove nw t seg = Ok (Some t', r) -> tour_exact nw t'.
Proof.
  intros DF Hex Hinf H.
  destruct (exact_proj t Hex) as (Evm & Eu & Es & Ed & Ec).
  unfold remove in H. bind_ok H q Ein. destruct q as [[[sp ep] tn] removed].
  apply remove_nodes_inv in Ein. destruct Ein as (H1 & H2 & -> & -> & _ & _).
  destruct (split3 (t_nodes t) sp (ep + 1)) as (El & Lp & Lm); [lia|lia|].
  set (pre := firstn sp (t_nodes t)) in *. set (mid := slice sp (ep + 1) (t_nodes t)) in *.
  set (suf := skipn (ep + 1) (t_nodes t)) in *. clearbody pre mid suf.
  assert (Hep : (ep + 1 = length pre + length mid)%nat) by lia. subst sp. rewrite Hep in *.
  assert (Hm : mid <> []) by (intros ->; cbn [length] in *; lia).
  bind_ok H u0 Eu0. bind_ok H s0 Es0. bind_ok H d0 Ed0. bind_ok H c0 Ec0.
  destruct (path_new_trusted nw mid) as [rp|]; [|discriminate].
  match type of H with (if ?c then _ else _) = _ => destruct c; [discriminate|] end.
  injection H as <- <-. cbn [t_nodes] in Hinf.
  unfold tour_exact, new_computing. cbn [t_nodes t_dummy]. f_equal.
  - rewrite Evm, El. unfold compute_vm. rewrite !existsb_app.
    repeat match goal with |- context [existsb ?f ?l] => destruct (existsb f l) end; reflexivity.
  - unfold dur_sub_sum in Eu0. fold (compute_useful nw mid) in Eu0.
    rewrite useful_app. rewrite <- (dur_add_0_l (compute_useful nw suf)), <- dur_add_assoc.
    replace u0 with (dur_add u0 (Len 0)).
    + eapply dur_delta; [| |exact Eu0].
      * rewrite Eu, El, !useful_app, dur_add_assoc. reflexivity.
      * rewrite Eu. apply useful_fin.
    + destruct (useful_len (t_nodes t)) as [z Ez]. rewrite Eu, Ez in Eu0.
      destruct (useful_len mid) as [y Ey]. rewrite Ey in Eu0. unfold dur_sub in Eu0.
      destruct (dur_leb (Len y) (Len z)); [|discriminate]. injection Eu0 as <-. cbn [dur_add]. f_equal. lia.
  - fold (compute_sdist nw mid) in Es0.
    rewrite sdist_app. rewrite <- (dist_add_0_l (compute_sdist nw suf)), <- dist_add_assoc.
    rewrite <- (dist_add_0_r s0).
    eapply dist_delta; [| |exact Es0].
    + rewrite Es, El, !sdist_app, dist_add_assoc. reflexivity.
    + rewrite Es. now apply sdist_fin.
  - rewrite (ddseg_eq t pre mid suf El) in Ed0.
    match goal with |- dist_add d0 ?g = _ => assert (Hg : g = DS (bridge (SD 0) pre suf)) end.
    { unfold nth_node. rewrite El.
      rewrite (br_gap (Dist 0) (dead_head_distance_between nw) DS DS_nil DS_one pre mid suf
                 (length pre - 1) (length pre + length mid)) by lia.
      brk; try (exfalso; lens; lia); reflexivity. }
    rewrite Hg. clear Hg.
    destruct (t_ddist t) as [m|] eqn:Em.
    + rewrite ddist_app, <- dist_add_assoc.
      eapply dist_delta; [| |exact Ed0]; [|discriminate].
      rewrite Ed, El, ddist_DS, (windows_3 (SD 0)), !DS_app, dist_add_assoc. reflexivity.
    + cbn [dist_sub] in Ed0. injection Ed0 as <-. rewrite Hinf by reflexivity. reflexivity.
  - apply z_delta in Ec0. rewrite (cseg_eq t pre mid suf El) in Ec0.
    match goal with |- c0 + ?g = _ => assert (Hg : g = CS (bridge (SD 0) pre suf)) end.
    { unfold nth_node. rewrite El.
      rewrite (br_gap 0 (dhi_cost nw) CS CS_nil CS_one pre mid suf (length pre - 1) (length pre + length mid)) by lia.
      brk; try (exfalso; lens; lia); reflexivity. }
    rewrite Hg. clear Hg.
    rewrite Ec, El in Ec0. rewrite costs_app. rewrite !costs_CS, !(windows_3 (SD 0)), !CS_app, !SM_app in *. lia.
Qed.
(** ** remove with an infinite cached dead-head distance *)
Lemma remove_shape t seg t' r : remove nw t seg = Ok (Some t', r) ->
  exists pre mid suf, t_nodes t = pre ++ mid ++ suf /\ mid <> [] /\ t_nodes t' = pre ++ suf /\
    (t_dummy t = false -> pre <> [] /\ suf <> []).
Proof.
  intros H. unfold remove in H. bind_ok H q Ein. destruct q as [[[sp ep] tn] removed].
  apply remove_nodes_inv in Ein. destruct Ein as (H1 & H2 & -> & -> & C1 & C2).
  destruct (split3 (t_nodes t) sp (ep + 1)) as (El & Lp & Lm); [lia|lia|].
  set (pre := firstn sp (t_nodes t)) in *. set (mid := slice sp (ep + 1) (t_nodes t)) in *.
  set (suf := skipn (ep + 1) (t_nodes t)) in *. clearbody pre mid suf.
  bind_ok H u0 Eu0. bind_ok H s0 Es0. bind_ok H d0 Ed0. bind_ok H c0 Ec0.
  destruct (path_new_trusted nw mid) as [rp|]; [|discriminate].
  match type of H with (if ?c then _ else _) = _ => destruct c eqn:Ec; [discriminate|] end.
  injection H as <- <-. cbn [t_nodes].
  exists pre, mid, suf. split; [exact El|]. split; [intros ->; cbn [length] in *; lia|]. split; [reflexivity|].
  intros Hd. rewrite Hd in Ec. cbn [negb andb] in Ec. apply orb_false_iff in Ec. destruct Ec as [_ Ec].
  apply Nat.leb_gt in Ec. specialize (C1 Hd). specialize (C2 Hd).
  assert (Hl : length (t_nodes t) = (length pre + length mid + length suf)%nat)
    by (rewrite El, !app_length; lia).
  rewrite app_length in Ec.
  split; intros ->; cbn [length] in *; lia.
Qed.

Lemma nondepot_locs n : node_is_depot nw n = false ->
  exists x y, n_start_loc (nd nw n) = Station x /\ n_end_loc (nd nw n) = Station y.
Proof.
  unfold node_is_depot. pose proof (nd_wf nw WF n) as W.
  destruct (nd nw n) as [dn|s|m|dn]; cbn in *; try discriminate; intros _.
  - destruct (st_dep s), (st_arr s), (st_origin s), (st_dest s); try discriminate. eauto.
  - destruct (ms_start m), (ms_end m), (ms_loc m); try discriminate. eauto.
Qed.
Lemma dh_station_fin a b x y : dh_dists_finite_b nw = true ->
  n_end_loc (nd nw a) = Station x -> n_start_loc (nd nw b) = Station y ->
  dead_head_distance_between nw a b <> DistInf.
Proof.
  intros DH Ea Eb. unfold dead_head_distance_between, loc_distance, dh_entry. rewrite Ea, Eb.
  destruct (nth_error (nw_dh nw) (Z.to_nat x)) as [row|] eqn:Er; [|discriminate].
  destruct (nth_error row (Z.to_nat y)) as [[dd tv]|] eqn:Ee; [|discriminate].
  unfold dh_dists_finite_b in DH. rewrite forallb_forall in DH.
  apply nth_error_In in Er. specialize (DH row Er). rewrite forallb_forall in DH.
  apply nth_error_In in Ee. specialize (DH _ Ee). cbn in DH. destruct dd; [discriminate|discriminate].
Qed.
Lemma dh_nowhere_l a b : n_end_loc (nd nw a) = Nowhere -> dead_head_distance_between nw a b = DistInf.
Proof. intros E. unfold dead_head_distance_between, loc_distance. rewrite E. reflexivity. Qed.
Lemma dh_nowhere_r a b : n_start_loc (nd nw b) = Nowhere -> dead_head_distance_between nw a b = DistInf.
Proof. intros E. unfold dead_head_distance_between, loc_distance. rewrite E. destruct (n_end_loc (nd nw a)); reflexivity. Qed.

Lemma dist_add_inf a b : dist_add a b = DistInf -> a = DistInf \/ b = DistInf.
Proof. destruct a, b; cbn; auto; discriminate. Qed.
Lemma DS_fin ps : (forall a b, In (a, b) ps -> dead_head_distance_between nw a b <> DistInf) -> DS ps <> DistInf.
Proof.
  induction ps as [|[a b] ps IH]; intros H; [discriminate|].
  change ((a, b) :: ps) with ([(a, b)] ++ ps). rewrite DS_app, DS_one. intros E.
  apply dist_add_inf in E. destruct E as [E|E].
  - apply (H a b); [left; reflexivity|exact E].
  - apply IH; [|exact E]. intros a' b' Hin. apply H. right; exact Hin.
Qed.
Lemma windows_in {A} (l : list A) a b : In (a, b) (windows l) -> In a l /\ In b l.
Proof.
  induction l as [|x l IH]; [contradiction|]. destruct l as [|y l]; [contradiction|].
  change (windows (x :: y :: l)) with ((x, y) :: windows (y :: l)). intros [E|Hin].
  - injection E as <- <-. split; [left; reflexivity|right; left; reflexivity].
  - destruct (IH Hin) as [I1 I2]. split; right; assumption.
Qed.
Lemma hd_in {A} (d : A) l : l <> [] -> In (hd d l) l.
Proof. destruct l; [congruence|]. intros _. left; reflexivity. Qed.
Lemma last_in {A} (d : A) l : l <> [] -> In (last l d) l.
Proof.
  induction l as [|a l IH]; [congruence|]. intros _. destruct l as [|b l]; [left; reflexivity|].
  right. apply IH. discriminate.
Qed.

(* removing non-depots between two kept nodes cannot make an infinite dead-head distance finite *)
Lemma ddist_inf_kept pre mid suf : dh_dists_finite_b nw = true ->
  pre <> [] -> mid <> [] -> suf <> [] ->
  (forall n, In n mid -> node_is_depot nw n = false) ->
  compute_ddist nw (pre ++ mid ++ suf) = DistInf -> compute_ddist nw (pre ++ suf) = DistInf.
Proof.
  intros DH Hp Hm Hs Hnd Hinf.
  rewrite ddist_DS, (windows_3 (SD 0)), !DS_app in Hinf. rewrite ddist_app.
  destruct (DS (windows pre)) as [x|]; [|reflexivity].
  destruct (DS (windows suf)) as [y|]; [|destruct (DS (bridge (SD 0) pre suf)); reflexivity].
  assert (Hb : DS (bridge (SD 0) pre suf) = DistInf); [|rewrite Hb; reflexivity].
  apply dist_add_inf in Hinf. destruct Hinf as [Hinf|Hinf]; [discriminate|].
  apply dist_add_inf in Hinf. destruct Hinf as [Hinf|Hinf]; [|discriminate].
  unfold seg_pairs in Hinf. rewrite !DS_app in Hinf.
  destruct pre as [|p pre']; [congruence|]. destruct suf as [|s suf']; [congruence|].
  destruct mid as [|m mid']; [congruence|].
  cbn [bridge app] in *. rewrite !DS_one in *.
  set (lp := last (p :: pre') (SD 0)) in *. set (lm := last (m :: mid') (SD 0)) in *.
  assert (Hm0 : node_is_depot nw m = false) by (apply Hnd; left; reflexivity).
  assert (Hm1 : node_is_depot nw lm = false) by (apply Hnd; apply last_in; discriminate).
  destruct (nondepot_locs m Hm0) as (x0 & _ & Ex0 & _).
  destruct (nondepot_locs lm Hm1) as (_ & y1 & _ & Ey1).
  apply dist_add_inf in Hinf. destruct Hinf as [Hinf|Hinf]; [|apply dist_add_inf in Hinf; destruct Hinf as [Hinf|Hinf]].
  - destruct (n_end_loc (nd nw lp)) as [z|] eqn:El.
    + exfalso. exact (dh_station_fin lp m z x0 DH El Ex0 Hinf).
    + now apply dh_nowhere_l.
  - exfalso. revert Hinf. apply DS_fin. intros a b Hin. apply windows_in in Hin. destruct Hin as [Ia Ib].
    destruct (nondepot_locs a (Hnd a Ia)) as (_ & ya & _ & Eya).
    destruct (nondepot_locs b (Hnd b Ib)) as (xb & _ & Exb & _).
    exact (dh_station_fin a b ya xb DH Eya Exb).
  - destruct (n_start_loc (nd nw s)) as [z|] eqn:El.
    + exfalso. exact (dh_station_fin lm s y1 z DH Ey1 El Hinf).
    + now apply dh_nowhere_r.
Qed.
Lemma remove_inf_kept t seg t' r : dh_dists_finite_b nw = true -> tour_exact nw t ->
  forallb (fun n => negb (node_is_depot nw n)) (non_depots t) = true ->
  remove nw t seg = Ok (Some t', r) ->
  t_ddist t = DistInf -> compute_ddist nw (t_nodes t') = DistInf.
Proof.
  intros DH Hex Hnd H Hinf.
  destruct (remove_shape _ _ _ _ H) as (pre & mid & suf & El & Hm & El' & Hd).
  rewrite El'. destruct (exact_proj t Hex) as (_ & _ & _ & Ed & _). rewrite Ed, El in Hinf.
  unfold non_depots in Hnd. rewrite forallb_forall in Hnd.
  destruct (t_dummy t) eqn:Edm.
  - exfalso. revert Hinf. rewrite ddist_DS. apply DS_fin. intros a b Hin. apply windows_in in Hin.
    rewrite El in Hnd. destruct Hin as [Ia Ib].
    apply Hnd in Ia. apply Hnd in Ib. apply negb_true_iff in Ia, Ib.
    destruct (nondepot_locs a Ia) as (_ & ya & _ & Eya).
    destruct (nondepot_locs b Ib) as (xb & _ & Exb & _).
    exact (dh_station_fin a b ya xb DH Eya Exb).
  - destruct (Hd eq_refl) as [Hp Hs]. apply ddist_inf_kept with mid; auto.
    intros n Hin. apply negb_true_iff. apply Hnd. rewrite El.
    destruct pre as [|p pre']; [congruence|].
    destruct (exists_last Hs) as (suf' & e & ->).
    cbn [app tl]. replace (pre' ++ mid ++ suf' ++ [e]) with ((pre' ++ mid ++ suf') ++ [e])
      by (now rewrite <- !app_assoc).
    rewrite removelast_last. apply in_or_app. right. apply in_or_app. left. exact Hin.
Qed.

Lemma remove_exact_depots' t seg t' r : dists_finite_b nw = true -> dh_dists_finite_b nw = true ->
  tour_exact nw t -> forallb (fun n => negb (node_is_depot nw n)) (non_depots t) = true ->
  remove nw t seg = Ok (Some t', r) -> tour_exact nw t'.
Proof.
  intros DF DH Hex Hnd H. apply (remove_exact_partial' t seg t' r DF Hex); [|exact H].
  now apply (remove_inf_kept t seg t' r).
Qed.
End Exact.

Theorem replace_start_depot_exact : stmt_replace_start_depot_exact.
Proof. intros nw t d t' WF. apply replace_start_depot_exact'. Qed.
Print Assumptions replace_start_depot_exact.

Theorem replace_end_depot_exact : stmt_replace_end_depot_exact.
Proof. intros nw t d t' WF. apply replace_end_depot_exact'. Qed.
Print Assumptions replace_end_depot_exact.

Theorem insert_path_exact : stmt_insert_path_exact.
Proof. intros nw t p t' r WF DF. now apply insert_path_exact'. Qed.
Print Assumptions insert_path_exact.

(* [stmt_remove_exact] is false as written (see [remove_exact_false] below): when the cached dead-head
   distance is infinite, [remove] keeps it infinite (Infinity - x = Infinity) also when the removed segment
   carried the only infinite window. Three true variants: *)

(* (1) the general form: if the old dead-head distance is infinite, so is the recomputed new one *)
Theorem remove_exact_partial :
  forall nw t seg t' r, net_wf_b nw = true -> dists_finite_b nw = true -> tour_exact nw t ->
    (t_ddist t = DistInf -> compute_ddist nw (t_nodes t') = DistInf) ->
    remove nw t seg = Ok (Some t', r) -> tour_exact nw t'.
Proof. intros nw t seg t' r WF. now apply remove_exact_partial'. Qed.
Print Assumptions remove_exact_partial.

(* (2) finite cached dead-head distance *)
Theorem remove_exact_finite :
  forall nw t seg t' r, net_wf_b nw = true -> dists_finite_b nw = true -> tour_exact nw t ->
    t_ddist t <> DistInf ->
    remove nw t seg = Ok (Some t', r) -> tour_exact nw t'.
Proof. intros nw t seg t' r WF DF Hex Hf. apply remove_exact_partial; auto. intros E; congruence. Qed.
Print Assumptions remove_exact_finite.

(* (3) structural: the dead-head matrix is finite and the nodes the tour calls non-depots (all nodes of a
   dummy tour, all but the first and last of a real tour) are no depots — true for every tour built by
   [tour_new] / [tour_new_dummy]; covers tours at the overflow depot (located Nowhere) *)
Theorem remove_exact_depots :
  forall nw t seg t' r, net_wf_b nw = true -> dists_finite_b nw = true -> dh_dists_finite_b nw = true ->
    tour_exact nw t ->
    forallb (fun n => negb (node_is_depot nw n)) (non_depots t) = true ->
    remove nw t seg = Ok (Some t', r) -> tour_exact nw t'.
Proof. intros nw t seg t' r WF. now apply remove_exact_depots'. Qed.
Print Assumptions remove_exact_depots.

(** * The unrestricted statement about [remove] does not hold *)
(* Three trips at one station and, between the second and the third, a depot node located Nowhere (an id the
   network does not know, which [nd] reads as a depot at Nowhere, does the same).
   The cached dead-head distance is infinite; removing (SV 2 .. SD 9) leaves [SV 1; SV 3] with dead-head
   distance 0, but the delta formula keeps Infinity. *)
Module Counterexample.
Definition trip (dep arr : Z) : node :=
  NService {| st_type := 0; st_origin := Station 0; st_dest := Station 0; st_dep := Point dep; st_arr := Point arr;
              st_dist := Dist 5; st_pass := 1; st_seated := 0; st_limit := None |}.
Definition nw0 : network :=
  {| nw_nodes := [(SD 9, NStart {| dn_depot := 0; dn_loc := Nowhere |});
                  (SV 1, trip 0 10); (SV 2, trip 20 30); (SV 3, trip 40 50)];
     nw_depots := []; nw_overflow := (0, SD 0, ED 0); nw_service := []; nw_maint := []; nw_sdepots := [];
     nw_edepots := []; nw_all_by_start := []; nw_type_by_start := []; nw_type_by_end := [];
     nw_params := {| p_forbid := false; p_min := 0; p_dht := 0; p_maxdist := 0; c_staff := 0; c_service := 0;
                     c_maint := 0; c_dh := 0; c_idle := 0 |};
     nw_nlocs := 1%nat; nw_dh := []; nw_types := []; nw_nservice := 3; nw_planning := Len 86400 |}.
Definition t0 : tour := new_computing nw0 [SV 1; SV 2; SD 9; SV 3] true.
Definition seg0 : node_id * node_id := (SV 2, SD 9).
End Counterexample.

Theorem remove_exact_false : ~ stmt_remove_exact.
Proof.
  intros H.
  assert (E : exists t' r, remove Counterexample.nw0 Counterexample.t0 Counterexample.seg0 = Ok (Some t', r) /\
                           t_ddist t' = DistInf /\ compute_ddist Counterexample.nw0 (t_nodes t') = Dist 0).
  { vm_compute. eexists. eexists. split; [reflexivity|]. split; reflexivity. }
  destruct E as (t' & r & E1 & E2 & E3).
  specialize (H Counterexample.nw0 Counterexample.t0 Counterexample.seg0 t' r eq_refl eq_refl eq_refl E1).
  assert (E4 : t_ddist t' = compute_ddist Counterexample.nw0 (t_nodes t')) by (rewrite H at 1; reflexivity).
  congruence.
Qed.
Print Assumptions remove_exact_false.
