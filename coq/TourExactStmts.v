(* TourExactStmts.v — C09 at tour level: every tour operation keeps the five cached figures equal to
   their from-scratch values (full statements; proofs in TourExactFacts.v). *)
From RS Require Import Base Network NetSpec Tour.

(* all five caches equal recomputation from the node list *)
Definition tour_exact (nw : network) (t : tour) : Prop :=
  t = new_computing nw (t_nodes t) (t_dummy t).

(* constructors are exact by definition; each modification preserves exactness whenever it returns a tour
   (Err/Panic results carry no tour) — also for tours at the infinitely distant overflow depot *)
Definition stmt_replace_start_depot_exact : Prop :=
  forall nw t d t', net_wf_b nw = true -> tour_exact nw t ->
    is_start_depot (nd nw (first_node t)) = true ->
    replace_start_depot nw t d = Ok t' -> tour_exact nw t'.
Definition stmt_replace_end_depot_exact : Prop :=
  forall nw t d t', net_wf_b nw = true -> tour_exact nw t ->
    is_end_depot (nd nw (last_node t)) = true ->
    replace_end_depot nw t d = Ok t' -> tour_exact nw t'.
Definition stmt_remove_exact : Prop :=
  forall nw t seg t' r, net_wf_b nw = true -> dists_finite_b nw = true -> tour_exact nw t ->
    remove nw t seg = Ok (Some t', r) -> tour_exact nw t'.
Definition stmt_insert_path_exact : Prop :=
  forall nw t p t' r, net_wf_b nw = true -> dists_finite_b nw = true -> tour_exact nw t ->
    insert_path nw t p = Ok (t', r) -> tour_exact nw t'.
