(* TourFacts.v — proofs of the C12 statements of TourStmts.v. *)
From RS Require Import Base BaseFacts Network NetSpec NetFacts Tour TourSpec TourStmts.
From Coq Require Import Arith.
Local Open Scope nat_scope.

(** * Generic list facts *)
Lemma windows_nth {A} (l : list A) d i :
  S i < length l -> In (nth i l d, nth (S i) l d) (windows l).
Proof.
  revert i; induction l as [|a l IH]; intros i H; [simpl in H; lia|].
  destruct l as [|b r]; [simpl in H; lia|].
  destruct i as [|i].
  - left; reflexivity.
  - right. apply (IH i). simpl in *; lia.
Qed.

Lemma windows_tl {A} (a : A) r w : In w (windows r) -> In w (windows (a :: r)).
Proof. destruct r as [|b r]; [simpl; tauto|]. intros H. right. exact H. Qed.

Lemma windows_removelast {A} (l : list A) w : In w (windows (removelast l)) -> In w (windows l).
Proof.
  induction l as [|a l IH]; [simpl; tauto|].
  destruct l as [|b r]; [simpl; tauto|].
  destruct r as [|c r]; [simpl; tauto|].
  change (removelast (a :: b :: c :: r)) with (a :: b :: removelast (c :: r)).
  change (removelast (b :: c :: r)) with (b :: removelast (c :: r)) in IH.
  intros [H|H]; [left; exact H|]. right. apply IH. exact H.
Qed.

Lemma last_nth {A} (l : list A) d : last l d = nth (length l - 1) l d.
Proof.
  induction l as [|a l IH]; [reflexivity|].
  destruct l as [|b r]; [reflexivity|].
  change (last (a :: b :: r) d) with (last (b :: r) d). rewrite IH.
  simpl length. replace (S (S (length r)) - 1) with (S (S (length r) - 1)) by lia. reflexivity.
Qed.

Lemma last_indep {A} (l : list A) d d' : l <> [] -> last l d = last l d'.
Proof.
  induction l as [|a l IH]; [congruence|]. intros _.
  destruct l as [|b r]; [reflexivity|].
  change (last (b :: r) d = last (b :: r) d'). apply IH. discriminate.
Qed.

Lemma hd_nth0 {A} (l : list A) d : hd d l = nth 0 l d.
Proof. destruct l; reflexivity. Qed.

Lemma length_pos {A} (l : list A) : l <> [] -> 0 < length l.
Proof. destruct l; [congruence|simpl; lia]. Qed.

Lemma index_of_ext {A} (p q : A -> bool) l : (forall x, p x = q x) -> index_of p l = index_of q l.
Proof. intros H. induction l as [|x l IH]; simpl; auto. rewrite H, IH. reflexivity. Qed.

Lemma index_of_lt {A} (p : A -> bool) l i : index_of p l = Some i -> i < length l.
Proof.
  revert i; induction l as [|x l IH]; simpl; intros i; [discriminate|].
  destruct (p x); [intros H; inversion H; lia|].
  destruct (index_of p l) as [k|]; [|discriminate]. intros H; inversion H. specialize (IH k eq_refl). lia.
Qed.

(** * Order facts on datetime *)
Lemma dt_ltb_true_leb a b : dt_ltb a b = true -> dt_leb a b = true.
Proof. unfold dt_ltb, dt_leb. destruct (dt_cmp a b); auto; discriminate. Qed.

Lemma dt_lt_le_trans a b c : dt_ltb a b = true -> dt_leb b c = true -> dt_ltb a c = true.
Proof.
  rewrite !dt_ltb_leb, !negb_true_iff. intros H1 H2.
  destruct (dt_leb c a) eqn:E; auto. rewrite (dt_leb_trans _ _ _ H2 E) in H1. discriminate.
Qed.

Lemma dt_le_lt_trans a b c : dt_leb a b = true -> dt_ltb b c = true -> dt_ltb a c = true.
Proof.
  rewrite !dt_ltb_leb, !negb_true_iff. intros H1 H2.
  destruct (dt_leb c a) eqn:E; auto. rewrite (dt_leb_trans _ _ _ E H1) in H2. discriminate.
Qed.

(** * Facts that need no hypothesis on the network *)
Section Plain.
Variable nw : network.
Notation d0 := (SD 0).
Notation st := (start_time nw).
Notation en := (end_time nw).
Notation cr := (can_reach nw).
Notation lpr := (longest_prefix_reaching nw).
Notation frb := (first_reached_by nw).

(** ** the reference functions *)
Lemma lpr_le l x : lpr l x <= length l.
Proof.
  induction l as [|z r IH]; cbn [longest_prefix_reaching length]; [lia|].
  destruct (lpr r x); [destruct (cr z x); lia | lia].
Qed.

Lemma lpr_reach l x : forall k, lpr l x = S k -> cr (nth k l d0) x = true.
Proof.
  induction l as [|z r IH]; cbn [longest_prefix_reaching]; intros k; [discriminate|].
  destruct (lpr r x) as [|k'] eqn:E.
  - destruct (cr z x) eqn:C; [|discriminate]. intros H; inversion H; subst. exact C.
  - intros H; inversion H; subst. cbn [nth]. apply IH. reflexivity.
Qed.

Lemma lpr_after l x : forall j, lpr l x <= j -> j < length l -> cr (nth j l d0) x = false.
Proof.
  induction l as [|z r IH]; cbn [longest_prefix_reaching length]; intros j H1 H2; [lia|].
  destruct (lpr r x) as [|k'] eqn:E.
  - destruct j as [|j].
    + cbn [nth]. destruct (cr z x); [lia|reflexivity].
    + cbn [nth]. apply IH; lia.
  - destruct j as [|j]; [lia|]. cbn [nth]. apply IH; lia.
Qed.

Lemma lpr_unique l x k :
  k <= length l -> (k = 0 \/ cr (nth (k - 1) l d0) x = true) ->
  (forall j, k <= j -> j < length l -> cr (nth j l d0) x = false) -> k = lpr l x.
Proof.
  intros H1 H2 H3. pose proof (lpr_le l x) as L.
  destruct (lt_eq_lt_dec k (lpr l x)) as [[Hlt|Heq]|Hgt]; auto; exfalso.
  - destruct (lpr l x) as [|m] eqn:E; [lia|].
    pose proof (lpr_reach l x m E) as R. rewrite H3 in R by lia. discriminate.
  - destruct H2 as [H2|H2]; [lia|]. rewrite (lpr_after l x (k - 1)) in H2 by lia. discriminate.
Qed.

Lemma frb_le l y : frb l y <= length l.
Proof.
  induction l as [|z r IH]; cbn [first_reached_by length]; [lia|]. destruct (cr y z); lia.
Qed.

Lemma frb_reach l y : frb l y < length l -> cr y (nth (frb l y) l d0) = true.
Proof.
  induction l as [|z r IH]; cbn [first_reached_by length]; [lia|].
  destruct (cr y z) eqn:C; [intros _; exact C|]. intros H. cbn [nth]. apply IH. lia.
Qed.

Lemma frb_before l y : forall j, j < frb l y -> cr y (nth j l d0) = false.
Proof.
  induction l as [|z r IH]; cbn [first_reached_by]; intros j H; [lia|].
  destruct (cr y z) eqn:C; [lia|]. destruct j as [|j]; cbn [nth]; [exact C|]. apply IH. lia.
Qed.

Lemma frb_unique l y k :
  k <= length l -> (k = length l \/ cr y (nth k l d0) = true) ->
  (forall j, j < k -> cr y (nth j l d0) = false) -> k = frb l y.
Proof.
  intros H1 H2 H3. pose proof (frb_le l y) as L.
  destruct (lt_eq_lt_dec k (frb l y)) as [[Hlt|Heq]|Hgt]; auto; exfalso.
  - destruct H2 as [H2|H2]; [lia|]. rewrite (frb_before l y k Hlt) in H2. discriminate.
  - pose proof (frb_reach l y ltac:(lia)) as R. rewrite H3 in R by lia. discriminate.
Qed.

(** ** the two scans *)
Lemma scan_back_spec l x pos :
  scan_back nw l x pos <= pos /\
  (scan_back nw l x pos = 0 \/ cr (nth (scan_back nw l x pos - 1) l d0) x = true) /\
  forall j, scan_back nw l x pos <= j -> j < pos -> cr (nth j l d0) x = false.
Proof.
  induction pos as [|p IH]; cbn [scan_back].
  - split; [lia|]. split; [auto|]. intros; lia.
  - destruct (cr (nth p l d0) x) eqn:E.
    + split; [lia|]. split; [|intros; lia]. right. replace (S p - 1) with p by lia. exact E.
    + destruct IH as (A & B & C). split; [lia|]. split; [exact B|].
      intros j H1 H2. destruct (Nat.eq_dec j p) as [->|Hne]; [exact E|]. apply C; lia.
Qed.

Lemma scan_fwd_spec l y : forall fuel pos, pos < length l -> length l - 1 - pos <= fuel ->
  (pos <= scan_fwd nw fuel l y pos /\ scan_fwd nw fuel l y pos < length l) /\
  (forall j, pos < j -> j <= scan_fwd nw fuel l y pos -> cr y (nth j l d0) = false) /\
  (S (scan_fwd nw fuel l y pos) = length l \/ cr y (nth (S (scan_fwd nw fuel l y pos)) l d0) = true).
Proof.
  induction fuel as [|f IH]; intros pos H1 H2; cbn [scan_fwd].
  - split; [lia|]. split; [intros; lia|]. left; lia.
  - destruct (Nat.ltb pos (length l - 1)) eqn:E1; cbn [andb].
    + apply Nat.ltb_lt in E1. destruct (cr y (nth (pos + 1) l d0)) eqn:E2; cbn [negb].
      * split; [lia|]. split; [intros; lia|]. right. replace (S pos) with (pos + 1) by lia. exact E2.
      * destruct (IH (pos + 1) ltac:(lia) ltac:(lia)) as (A & B & C). split; [lia|]. split; [|exact C].
        intros j J1 J2. destruct (Nat.eq_dec j (pos + 1)) as [->|Hne]; [exact E2|]. apply B; lia.
    + apply Nat.ltb_ge in E1. split; [lia|]. split; [intros; lia|]. left; lia.
Qed.

(** ** the two binary searches: they terminate within the fuel and a returned candidate satisfies the
       search predicate (all that the callers need: the scans do the rest) *)
Lemma half_bounds n : 2 <= n -> 1 <= n / 2 /\ n / 2 < n.
Proof.
  intros H. pose proof (Nat.div_mod n 2 ltac:(lia)) as E.
  pose proof (Nat.mod_upper_bound n 2 ltac:(lia)) as U. lia.
Qed.

Lemma eaa_ok l time : forall fuel left right, left < right -> right - left <= fuel ->
  exists r, earliest_arrival_after nw fuel l time left right = Ok r /\
    forall i, r = Some i -> (left <= i /\ i < right) /\ dt_ltb time (en (nth i l d0)) = true.
Proof.
  induction fuel as [|f IH]; intros left right H1 H2; [lia|].
  cbn [earliest_arrival_after].
  destruct (Nat.eqb (left + 1) right) eqn:E.
  - apply Nat.eqb_eq in E. destruct (dt_ltb time (en (nth left l d0))) eqn:Pl.
    + eexists; split; [reflexivity|]. intros i Hi; inversion Hi; subst. split; [lia|exact Pl].
    + eexists; split; [reflexivity|]. intros i Hi; discriminate.
  - apply Nat.eqb_neq in E.
    destruct (half_bounds (right - left) ltac:(lia)) as [Q1 Q2].
    set (q := (right - left) / 2) in *.
    destruct (dt_ltb time (en (nth (left + q - 1) l d0))).
    + destruct (IH left (left + q) ltac:(lia) ltac:(lia)) as (r & Hr & Hs). exists r; split; [exact Hr|].
      intros i Hi. destruct (Hs i Hi) as [B Pi]. split; [lia|exact Pi].
    + destruct (IH (left + q) right ltac:(lia) ltac:(lia)) as (r & Hr & Hs). exists r; split; [exact Hr|].
      intros i Hi. destruct (Hs i Hi) as [B Pi]. split; [lia|exact Pi].
Qed.

Lemma ldb_ok l time : forall fuel left right, left < right -> right - left <= fuel ->
  exists r, latest_departure_before nw fuel l time left right = Ok r /\
    forall i, r = Some i -> (left <= i /\ i < right) /\ dt_ltb (st (nth i l d0)) time = true.
Proof.
  induction fuel as [|f IH]; intros left right H1 H2; [lia|].
  cbn [latest_departure_before].
  destruct (Nat.eqb (left + 1) right) eqn:E.
  - apply Nat.eqb_eq in E. destruct (dt_ltb (st (nth left l d0)) time) eqn:Pl.
    + eexists; split; [reflexivity|]. intros i Hi; inversion Hi; subst. split; [lia|exact Pl].
    + eexists; split; [reflexivity|]. intros i Hi; discriminate.
  - apply Nat.eqb_neq in E.
    destruct (half_bounds (right - left) ltac:(lia)) as [Q1 Q2].
    set (q := (right - left) / 2) in *.
    destruct (dt_ltb (st (nth (left + q) l d0)) time).
    + destruct (IH (left + q) right ltac:(lia) ltac:(lia)) as (r & Hr & Hs). exists r; split; [exact Hr|].
      intros i Hi. destruct (Hs i Hi) as [B Pi]. split; [lia|exact Pi].
    + destruct (IH left (left + q) ltac:(lia) ltac:(lia)) as (r & Hr & Hs). exists r; split; [exact Hr|].
      intros i Hi. destruct (Hs i Hi) as [B Pi]. split; [lia|exact Pi].
Qed.

(** ** connected lists *)
Lemma connected_tl a r : connected nw (a :: r) -> connected nw r.
Proof. unfold connected. intros H x y Hin. apply H. apply windows_tl. exact Hin. Qed.

Lemma connected_removelast p : connected nw p -> connected nw (removelast p).
Proof. unfold connected. intros H x y Hin. apply H. apply windows_removelast. exact Hin. Qed.

Lemma connected_nth l i : connected nw l -> S i < length l -> cr (nth i l d0) (nth (S i) l d0) = true.
Proof. intros H Hi. apply H. apply windows_nth. exact Hi. Qed.

(** ** position_of = pos_of *)
Lemma cmp_start_eq x n :
  (match cmp_start_time nw x n with Eq => true | _ => false end) = nid_eqb n x.
Proof.
  destruct (nid_eq_dec x n) as [->|Hne].
  - unfold cmp_start_time. rewrite !dt_cmp_refl, nid_cmp_refl, nid_eqb_refl. reflexivity.
  - assert (F : nid_eqb n x = false).
    { destruct (nid_eqb n x) eqn:E; auto. apply nid_eqb_eq in E. congruence. }
    rewrite F. unfold cmp_start_time, cmp_then.
    destruct (dt_cmp (st x) (st n)); auto. destruct (dt_cmp (en x) (en n)); auto.
    destruct (nid_cmp x n) eqn:E; auto. apply nid_cmp_eq in E. congruence.
Qed.

Lemma position_of_pos_of t n : position_of nw t n = ok_or_err (pos_of (t_nodes t) n).
Proof. unfold position_of, pos_of. f_equal. apply index_of_ext. intros x. apply cmp_start_eq. Qed.

(** ** effective_path = strip_depots on valid paths *)
Notation nondep := (fun n => negb (node_is_depot nw n)).

Lemma exists_nondep_forall l : existsb nondep l = true -> forallb (node_is_depot nw) l = false.
Proof.
  induction l as [|a l IH]; simpl; [discriminate|].
  destruct (node_is_depot nw a); simpl; auto.
Qed.

Lemma exists_nondep_ne l : existsb nondep l = true -> l <> [].
Proof. destruct l; [discriminate|discriminate]. Qed.

Lemma effective_path_ok dummy p : valid_path nw p ->
  effective_path nw dummy p = Ok (if dummy then strip_depots nw p else p) /\
  (if dummy then strip_depots nw p else p) <> [] /\
  connected nw (if dummy then strip_depots nw p else p).
Proof.
  intros (NE & CN & EX). destruct dummy; [|cbn; auto].
  unfold effective_path, strip_depots. change (nid_is_depot nw) with (node_is_depot nw).
  destruct p as [|f r]; [congruence|].
  (* first stage *)
  assert (S1 : exists a,
     (if node_is_depot nw f then unwrap_opt (path_new_trusted nw r) else Ok (f :: r)) = Ok a /\
     (if node_is_depot nw f then r else f :: r) = a /\ connected nw a /\ existsb nondep a = true).
  { destruct (node_is_depot nw f) eqn:Df.
    - cbn [existsb] in EX. rewrite Df in EX. cbn in EX.
      exists r. unfold path_new_trusted. rewrite (exists_nondep_forall _ EX). cbn.
      repeat split; auto. eapply connected_tl; eauto.
    - exists (f :: r). repeat split; auto. }
  destruct S1 as (a & E1 & E2 & Ca & Xa). rewrite E1, E2. cbn [bind].
  pose proof (exists_nondep_ne _ Xa) as Na.
  destruct a as [|a0 ar] eqn:Ea; [congruence|]. rewrite <- Ea in *.
  destruct (node_is_depot nw (last a d0)) eqn:Dl.
  - assert (Xr : existsb nondep (removelast a) = true).
    { rewrite (app_removelast_last d0 Na) in Xa. rewrite existsb_app in Xa.
      cbn in Xa. rewrite Dl in Xa. cbn in Xa. rewrite orb_false_r in Xa. exact Xa. }
    unfold path_new_trusted. rewrite (exists_nondep_forall _ Xr). cbn.
    repeat split; auto using connected_removelast, exists_nondep_ne.
  - repeat split; auto.
Qed.

(** * Theorem: connectable nodes are never dropped *)
Lemma lpr_ge l x k z : nth_error l k = Some z -> cr z x = true -> S k <= lpr l x.
Proof.
  intros Hk Hc. destruct (le_lt_dec (S k) (lpr l x)) as [|Hlt]; auto. exfalso.
  assert (Hlen : k < length l) by (apply nth_error_Some; congruence).
  rewrite <- (nth_error_nth _ _ d0 Hk) in Hc. rewrite lpr_after in Hc by lia. discriminate.
Qed.

Lemma frb_le_k l y k z : nth_error l k = Some z -> cr y z = true -> frb l y <= k.
Proof.
  intros Hk Hc. destruct (le_lt_dec (frb l y) k) as [|Hlt]; auto. exfalso.
  rewrite <- (nth_error_nth _ _ d0 Hk) in Hc. rewrite frb_before in Hc by lia. discriminate.
Qed.

Lemma firstn_split_ge {A} (l : list A) k a : k <= a -> firstn a l = firstn k l ++ skipn k (firstn a l).
Proof.
  intros H. rewrite <- (firstn_skipn k (firstn a l)) at 1. rewrite firstn_firstn.
  replace (Nat.min k a) with k by lia. reflexivity.
Qed.

Lemma skipn_skipn' {A} (l : list A) : forall y x, skipn x (skipn y l) = skipn (x + y) l.
Proof.
  induction l as [|a l IH]; intros y x.
  - rewrite !skipn_nil. reflexivity.
  - destruct y as [|y]; [rewrite Nat.add_0_r; reflexivity|].
    rewrite Nat.add_succ_r. cbn [skipn]. apply IH.
Qed.

Lemma skipn_split_le {A} (l : list A) b k : b <= k -> skipn b l = firstn (k - b) (skipn b l) ++ skipn k l.
Proof.
  intros H. rewrite <- (firstn_skipn (k - b) (skipn b l)) at 1. rewrite skipn_skipn'.
  replace (k - b + b) with k by lia. reflexivity.
Qed.

Theorem insert_keeps_connectable_at : stmt_insert_keeps_connectable nw.
Proof.
  intros dummy l p k z Hk p'. unfold ref_insert. fold p'. cbn [fst]. split.
  - intros Dx Cx. rewrite Dx. pose proof (lpr_ge _ _ _ _ Hk Cx) as G.
    rewrite (firstn_split_ge l (S k) _ G). rewrite <- app_assoc. eexists; reflexivity.
  - intros Dy Cy. rewrite Dy. pose proof (frb_le_k _ _ _ _ Hk Cy) as G.
    rewrite (skipn_split_le l _ k G). rewrite !app_assoc. eexists; reflexivity.
Qed.

(** * Theorem: removal *)
Theorem remove_nodes_ref_at : stmt_remove_nodes_ref nw.
Proof.
  intros t a b H3 NE. unfold remove_nodes. cbn [fst snd]. rewrite !position_of_pos_of.
  pose proof (length_pos _ NE) as L.
  destruct (pos_of (t_nodes t) a) as [i|] eqn:Ei; cbn [ok_or_err bind]; [|reflexivity].
  destruct (pos_of (t_nodes t) b) as [j|] eqn:Ej; cbn [ok_or_err bind]; [|reflexivity].
  apply index_of_lt in Ei, Ej.
  unfold check_if_sequence_is_removable, ref_removable, ref_remove, tlen, nth_node, slice.
  cbn [fst snd].
  set (l := t_nodes t) in *. set (c := can_reach nw (nth (i - 1) l d0) (nth (j + 1) l d0)).
  destruct (t_dummy t); cbn [negb andb].
  - destruct (Nat.eqb_spec (length l) 0); [lia|].
    destruct (Nat.ltb_spec j i); destruct (Nat.leb_spec i j); try lia; cbn [andb bind negb]; [reflexivity|].
    destruct (Nat.ltb_spec 0 i); destruct (Nat.ltb_spec j (length l - 1)); destruct (Nat.ltb_spec (j + 1) (length l));
      try lia; cbn [andb negb bind]; try reflexivity.
    destruct c; reflexivity.
  - specialize (H3 eq_refl).
    destruct (Nat.eqb_spec i 0); cbn [andb].
    + destruct (Nat.ltb_spec (length l) 3); [lia|].
      destruct (Nat.leb_spec j (length l - 3)); destruct (Nat.leb_spec (j + 3) (length l)); try lia;
        cbn [negb andb bind]; [reflexivity|].
      destruct (Nat.eqb_spec (length l) 0); [lia|].
      destruct (Nat.eqb_spec j (length l - 1)); destruct (Nat.eqb_spec (j + 1) (length l)); try lia; cbn [andb negb];
      destruct (Nat.leb_spec 2 i); try lia; cbn [andb negb];
      destruct (Nat.ltb_spec j i); destruct (Nat.leb_spec i j); try lia; cbn [andb bind negb];
      destruct (Nat.ltb_spec 0 i); try lia; cbn [andb negb bind]; reflexivity.
    + destruct (Nat.eqb_spec (length l) 0); [lia|].
      destruct (Nat.eqb_spec j (length l - 1)); destruct (Nat.eqb_spec (j + 1) (length l)); try lia; cbn [andb negb];
      destruct (Nat.leb_spec 2 i); cbn [andb negb bind]; try reflexivity;
      destruct (Nat.ltb_spec j i); destruct (Nat.leb_spec i j); try lia; cbn [andb bind negb]; try reflexivity;
      destruct (Nat.ltb_spec 0 i); destruct (Nat.ltb_spec j (length l - 1)); destruct (Nat.ltb_spec (j + 1) (length l));
      try lia; cbn [andb negb bind]; try reflexivity; destruct c; reflexivity.
Qed.
End Plain.

(** * Facts that need a well-formed network with positive activity durations *)
Section Timed.
Variable nw : network.
Hypothesis WF : net_wf_b nw = true.
Hypothesis DP : durations_pos_b nw = true.
Notation d0 := (SD 0).
Notation st := (start_time nw).
Notation en := (end_time nw).
Notation cr := (can_reach nw).
Notation lpr := (longest_prefix_reaching nw).
Notation frb := (first_reached_by nw).

Lemma dur_pos n : is_depot (nd nw n) = true \/ dt_ltb (st n) (en n) = true.
Proof.
  unfold start_time, end_time, nd. destruct (assoc nid_eqb n (nw_nodes nw)) as [x|] eqn:E.
  - apply (assoc_in _ nid_eqb_eq) in E. unfold durations_pos_b in DP. rewrite forallb_forall in DP.
    specialize (DP _ E). cbn in DP. apply orb_true_iff in DP. exact DP.
  - left; reflexivity.
Qed.

Lemma st_le_en n : dt_leb (st n) (en n) = true.
Proof.
  destruct (dur_pos n) as [H|H]; [|now apply dt_ltb_true_leb].
  unfold start_time, end_time. destruct (nd nw n); simpl in H; try discriminate; reflexivity.
Qed.

Lemma cr_lt_false z x : dt_ltb (st x) (en z) = true -> cr z x = false.
Proof.
  intros H. destruct (cr z x) eqn:E; auto. apply (can_reach_le nw WF) in E.
  rewrite dt_ltb_leb, E in H. discriminate.
Qed.

(** ** chronological lists, index form *)
Section Chrono.
Variable l : list node_id.
Hypothesis CH : chrono nw l.

Lemma ch_step i : S i < length l -> dt_leb (en (nth i l d0)) (st (nth (S i) l d0)) = true.
Proof. intros H. apply (proj2 CH). now apply windows_nth. Qed.

Lemma ch_mono j : j < length l -> forall i, i <= j ->
  dt_leb (en (nth i l d0)) (en (nth j l d0)) = true /\ dt_leb (st (nth i l d0)) (st (nth j l d0)) = true.
Proof.
  induction j as [|j IH]; intros Hj i Hi.
  - assert (i = 0) by lia; subst. split; apply dt_leb_refl.
  - destruct (Nat.eq_dec i (S j)) as [->|Hne]; [split; apply dt_leb_refl|].
    destruct (IH ltac:(lia) i ltac:(lia)) as [E S0].
    pose proof (ch_step j Hj) as A. pose proof (st_le_en (nth j l d0)) as B.
    pose proof (st_le_en (nth (S j) l d0)) as C. split.
    + eapply dt_leb_trans; [exact E|]. eapply dt_leb_trans; [exact A|exact C].
    + eapply dt_leb_trans; [exact S0|]. eapply dt_leb_trans; [exact B|exact A].
Qed.

(** the start position computed by the code is the reference one *)
Lemma sp_correct x : l <> [] ->
  exists r, latest_not_reaching_node_l nw l x = Ok r /\
    match r with Some p => p | None => length l end = lpr l x /\
    (r = None -> cr (last l d0) x = true).
Proof.
  intros NE. unfold latest_not_reaching_node_l. pose proof (length_pos _ NE) as L.
  destruct (cr (last l d0) x) eqn:EL.
  - eexists; split; [reflexivity|]. split; [|auto].
    apply lpr_unique; [lia| right; rewrite <- last_nth; exact EL | intros; lia].
  - destruct (eaa_ok nw l (st x) (search_fuel l) 0 (length l) L ltac:(unfold search_fuel; lia)) as (r & Hr & Hs).
    rewrite Hr. cbn [bind]. eexists; split; [reflexivity|]. split; [|discriminate].
    set (pos := match r with Some p => p | None => length l - 1 end).
    assert (Hpos : pos < length l /\ forall j, pos <= j -> j < length l -> cr (nth j l d0) x = false).
    { subst pos. destruct r as [i|].
      - destruct (Hs i eq_refl) as [Hi Hp]. split; [lia|]. intros j H1 H2. apply cr_lt_false.
        eapply dt_lt_le_trans; [exact Hp|]. apply (ch_mono j H2 i H1).
      - split; [lia|]. intros j H1 H2. assert (j = length l - 1) by lia. subst j.
        rewrite <- last_nth. exact EL. }
    destruct (scan_back_spec nw l x pos) as (A & B & C). apply lpr_unique; [lia|exact B|].
    intros j H1 H2. destruct (le_lt_dec pos j); [apply Hpos; auto| apply C; auto].
Qed.

(** the end position computed by the code is the reference one *)
Lemma ep_correct y : l <> [] ->
  exists r, latest_not_reached_by_node_l nw l y = Ok r /\
    match r with Some p => S p | None => 0 end = frb l y.
Proof.
  intros NE. unfold latest_not_reached_by_node_l. pose proof (length_pos _ NE) as L.
  destruct (cr y (hd d0 l)) eqn:EH.
  - exists None; split; [reflexivity|]. destruct l as [|z r]; [congruence|].
    cbn [hd] in EH. cbn [first_reached_by]. rewrite EH. reflexivity.
  - destruct (ldb_ok nw l (en y) (search_fuel l) 0 (length l) L ltac:(unfold search_fuel; lia)) as (r & Hr & Hs).
    rewrite Hr. cbn [bind]. eexists; split; [reflexivity|].
    set (pos := match r with Some p => p | None => 0 end).
    assert (Hpos : pos < length l /\ forall j, j <= pos -> cr y (nth j l d0) = false).
    { subst pos. destruct r as [i|].
      - destruct (Hs i eq_refl) as [Hi Hp]. split; [lia|]. intros j H1. apply cr_lt_false.
        eapply dt_le_lt_trans; [|exact Hp]. apply (ch_mono i ltac:(lia) j H1).
      - split; [lia|]. intros j H1. assert (j = 0) by lia. subst j. rewrite <- hd_nth0. exact EH. }
    destruct Hpos as [P1 P2].
    destruct (scan_fwd_spec nw l y (length l) pos P1 ltac:(lia)) as (A & B & C).
    apply frb_unique; [lia| |].
    + destruct C as [C|C]; [left; exact C|right; exact C].
    + intros j Hj. destruct (le_lt_dec j pos); [apply P2; auto| apply B; lia].
Qed.

Lemma lpr_le_frb x y : dt_ltb (st x) (en y) = true -> lpr l x <= frb l y.
Proof.
  intros H. destruct (le_lt_dec (lpr l x) (frb l y)) as [|Hlt]; auto. exfalso.
  pose proof (frb_le nw l y) as F. pose proof (lpr_le nw l x) as P.
  destruct (lpr l x) as [|m] eqn:Em; [lia|].
  pose proof (lpr_reach nw l x m Em) as R1.
  pose proof (frb_reach nw l y ltac:(lia)) as R2.
  apply (can_reach_le nw WF) in R1. apply (can_reach_le nw WF) in R2.
  destruct (ch_mono m ltac:(lia) (frb l y) ltac:(lia)) as [M _].
  pose proof (st_le_en (nth (frb l y) l d0)) as S0.
  assert (T : dt_leb (en y) (st x) = true).
  { eapply dt_leb_trans; [exact R2|]. eapply dt_leb_trans; [exact S0|]. eapply dt_leb_trans; [exact M|exact R1]. }
  rewrite dt_ltb_leb, T in H. discriminate.
Qed.

Lemma gip_ok x y : l <> [] ->
  (nid_is_depot nw x = false -> dt_ltb (st x) (en y) = true) ->
  let a := if nid_is_depot nw x then 0 else lpr l x in
  let b := if nid_is_depot nw y then length l else frb l y in
  get_insert_positions_l nw l x y = Ok (a, b) /\ a <= b /\ b <= length l.
Proof.
  intros NE H a b. unfold get_insert_positions_l. change (node_is_depot nw) with (nid_is_depot nw).
  subst a b. pose proof (frb_le nw l y) as F. pose proof (lpr_le nw l x) as P.
  destruct (nid_is_depot nw x) eqn:Dx; cbn [bind].
  - destruct (nid_is_depot nw y) eqn:Dy; cbn [bind].
    + split; [reflexivity|lia].
    + destruct (ep_correct y NE) as (r & Hr & He). rewrite Hr. cbn [bind]. rewrite He. split; [reflexivity|lia].
  - destruct (sp_correct x NE) as (r & Hr & He & _). rewrite Hr. cbn [bind]. rewrite He.
    destruct (nid_is_depot nw y) eqn:Dy; cbn [bind].
    + split; [reflexivity|lia].
    + destruct (ep_correct y NE) as (r' & Hr' & He'). rewrite Hr'. cbn [bind]. rewrite He'.
      split; [reflexivity|]. split; [|lia]. apply lpr_le_frb. apply H. reflexivity.
Qed.
End Chrono.

(** along a connected path end times do not decrease *)
Lemma conn_end_mono p : p <> [] -> connected nw p -> dt_leb (en (hd d0 p)) (en (last p d0)) = true.
Proof.
  induction p as [|a p IH]; [congruence|]. intros _ CN.
  destruct p as [|b r]; [apply dt_leb_refl|].
  change (last (a :: b :: r) d0) with (last (b :: r) d0). cbn [hd].
  assert (R : cr a b = true) by (apply CN; left; reflexivity).
  apply (can_reach_le nw WF) in R.
  specialize (IH ltac:(discriminate) (connected_tl nw _ _ CN)). cbn [hd] in IH.
  eapply dt_leb_trans; [exact R|]. eapply dt_leb_trans; [apply st_le_en|exact IH].
Qed.

Theorem insert_nodes_ref_at dummy l p :
  l <> [] -> chrono nw l -> valid_path nw p ->
  exists sp ep p1,
    insert_nodes nw dummy l p =
      Ok (sp, ep, fst (ref_insert nw dummy l p), snd (ref_insert nw dummy l p), p1).
Proof.
  intros NE CH VP. destruct (effective_path_ok nw dummy p VP) as (EP & NE' & CN').
  unfold insert_nodes, ref_insert. rewrite EP. cbn [bind].
  set (p' := if dummy then strip_depots nw p else p) in *.
  destruct p' as [|f r] eqn:Ep; [congruence|]. rewrite <- Ep in *.
  assert (Hx : hd d0 p' = f) by (rewrite Ep; reflexivity).
  assert (Hy : last p' f = last p' d0) by (apply last_indep; exact NE').
  rewrite Hx, Hy.
  assert (LT : nid_is_depot nw f = false -> dt_ltb (st f) (en (last p' d0)) = true).
  { intros Df. destruct (dur_pos f) as [D|D]; [unfold nid_is_depot in Df; congruence|].
    eapply dt_lt_le_trans; [exact D|]. rewrite <- Hx. apply conn_end_mono; assumption. }
  destruct (gip_ok l CH f (last p' d0) NE LT) as (G & A & B). rewrite G. cbn [bind].
  unfold slice_res.
  rewrite (proj2 (Nat.leb_le _ _) A), (proj2 (Nat.leb_le _ _) B). cbn [andb bind fst snd].
  do 3 eexists. reflexivity.
Qed.

(** ** sub_path *)
Lemma no_later_reaches l i j a :
  chrono nw l -> connected nw l -> nth_error l i = Some a -> i <= j -> j < length l ->
  cr (nth j l d0) a = false.
Proof.
  intros CH CN Hi Hij Hj. pose proof (nth_error_nth _ _ d0 Hi) as Ni.
  destruct (dur_pos a) as [D|D].
  - destruct (nd nw a) eqn:Na; simpl in D; try discriminate.
    + unfold can_reach, can_reach_nodes. rewrite Na. reflexivity.
    + assert (j = i).
      { destruct (Nat.eq_dec j i); auto. exfalso.
        pose proof (connected_nth nw l i CN ltac:(lia)) as R. rewrite Ni in R.
        unfold can_reach, can_reach_nodes in R. rewrite Na in R. cbn in R. rewrite orb_true_r in R. discriminate. }
      subst j. rewrite Ni. unfold can_reach, can_reach_nodes. rewrite Na. cbn. rewrite ?orb_true_r. reflexivity.
  - apply cr_lt_false. eapply dt_lt_le_trans; [exact D|]. rewrite <- Ni. apply (ch_mono l CH j Hj i Hij).
Qed.

Lemma lnr_self l i a :
  chrono nw l -> connected nw l -> nth_error l i = Some a ->
  latest_not_reaching_node_l nw l a = Ok (Some i).
Proof.
  intros CH CN Hi.
  assert (Hlen : i < length l) by (apply nth_error_Some; congruence).
  assert (NE : l <> []) by (destruct l; [simpl in Hlen; lia|discriminate]).
  assert (E : i = lpr l a).
  { apply lpr_unique; [lia| |].
    - destruct i as [|i]; [left; reflexivity|right].
      replace (S i - 1) with i by lia. rewrite <- (nth_error_nth _ _ d0 Hi).
      apply connected_nth; assumption.
    - intros j H1 H2. eapply no_later_reaches; eauto. }
  destruct (sp_correct l CH a NE) as (r & Hr & He & Hn). rewrite Hr.
  destruct r as [k|]; [congruence|]. exfalso.
  specialize (Hn eq_refl). rewrite last_nth in Hn.
  rewrite (no_later_reaches l i (length l - 1) a) in Hn by (auto; lia). discriminate.
Qed.

Theorem sub_path_total_at t i j a b :
  chrono nw (t_nodes t) -> connected nw (t_nodes t) ->
  nth_error (t_nodes t) i = Some a -> nth_error (t_nodes t) j = Some b -> i <= j ->
  all_depots nw (ref_sub_path (t_nodes t) i j) = false ->
  sub_path nw t (a, b) = Ok (ref_sub_path (t_nodes t) i j).
Proof.
  intros CH CN Hi Hj Hij AD. unfold sub_path. cbn [fst snd].
  assert (Hlen : j < length (t_nodes t)) by (apply nth_error_Some; congruence).
  rewrite (lnr_self _ i a CH CN Hi). cbn [bind].
  rewrite (nth_error_nth _ _ d0 Hi), nid_eqb_refl. cbn [negb].
  rewrite (lnr_self _ j b CH CN Hj). cbn [bind].
  rewrite (nth_error_nth _ _ d0 Hj), nid_eqb_refl. cbn [negb].
  rewrite (proj2 (Nat.ltb_ge _ _) Hij).
  unfold slice_res.
  rewrite (proj2 (Nat.leb_le i (j + 1)) ltac:(lia)), (proj2 (Nat.leb_le (j + 1) (length (t_nodes t))) ltac:(lia)).
  cbn [andb bind]. unfold path_new_trusted, slice.
  unfold all_depots, ref_sub_path in AD. change (nid_is_depot nw) with (node_is_depot nw) in AD.
  rewrite AD. reflexivity.
Qed.
End Timed.

(** * The four theorems *)
Theorem insert_nodes_ref : forall nw, stmt_insert_nodes_ref nw.
Proof.
  intros nw dummy l p OK NE CH VP. unfold net_ok_b in OK. apply andb_true_iff in OK. destruct OK as [WF DP].
  apply insert_nodes_ref_at; assumption.
Qed.
Print Assumptions insert_nodes_ref.

Theorem insert_keeps_connectable : forall nw, stmt_insert_keeps_connectable nw.
Proof. exact insert_keeps_connectable_at. Qed.
Print Assumptions insert_keeps_connectable.

Theorem remove_nodes_ref : forall nw, stmt_remove_nodes_ref nw.
Proof. exact remove_nodes_ref_at. Qed.
Print Assumptions remove_nodes_ref.

Theorem sub_path_total : forall nw, stmt_sub_path_total nw.
Proof.
  intros nw t i j a b OK CH CN _ Hi Hj Hij AD. unfold net_ok_b in OK. apply andb_true_iff in OK. destruct OK as [WF DP].
  apply sub_path_total_at; assumption.
Qed.
Print Assumptions sub_path_total.

(* insert_path returns the node-level result of insert_nodes *)
Lemma insert_path_nodes :
  forall nw t p t' r, insert_path nw t p = Ok (t', r) ->
  exists sp ep removed p1,
    insert_nodes nw (t_dummy t) (t_nodes t) p = Ok (sp, ep, t_nodes t', removed, p1) /\
    r = path_new_trusted nw removed /\ t_dummy t' = t_dummy t.
Proof.
  intros nw t p t' r H. unfold insert_path in H.
  destruct (insert_nodes nw (t_dummy t) (t_nodes t) p) as [[[[[sp ep] ntn] removed] p1]| | |] eqn:E;
    cbn [bind] in H; try discriminate.
  repeat match type of H with
  | bind ?x _ = _ => destruct x; cbn [bind] in H; try discriminate
  end.
  inversion H; subst. exists sp, ep, removed, p1. cbn. auto.
Qed.
