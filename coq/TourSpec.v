(* TourSpec.v — reference semantics of tour edits (property C12), written independently of the
   model's search functions: plain recursion over the node list and [can_reach] only. *)
From RS Require Import Base Network.

Section Ref.
Variable nw : network.

(* largest k such that k = 0 or l[k-1] can reach x: the length of the longest prefix whose last node
   can reach x *)
Fixpoint longest_prefix_reaching (l : list node_id) (x : node_id) : nat :=
  match l with
  | [] => O
  | z :: r =>
      match longest_prefix_reaching r x with
      | O => if can_reach nw z x then 1%nat else O
      | S k => S (S k)
      end
  end.

(* smallest k such that k = length l or y can reach l[k]: the start of the longest suffix whose first
   node y can reach *)
Fixpoint first_reached_by (l : list node_id) (y : node_id) : nat :=
  match l with
  | [] => O
  | z :: r => if can_reach nw y z then O else S (first_reached_by r y)
  end.

Definition nid_is_depot (n : node_id) : bool := is_depot (nd nw n).

Definition strip_depots (p : list node_id) : list node_id :=
  let p1 := match p with f :: r => if nid_is_depot f then r else p | [] => [] end in
  match p1 with
  | [] => []
  | _ => if nid_is_depot (last p1 (SD 0)) then removelast p1 else p1
  end.

(* insert: (new node list, dropped nodes in order) *)
Definition ref_insert (dummy : bool) (l p : list node_id) : list node_id * list node_id :=
  let p' := if dummy then strip_depots p else p in
  let x := hd (SD 0) p' in
  let y := last p' (SD 0) in
  let a := if nid_is_depot x then O else longest_prefix_reaching l x in
  let b := if nid_is_depot y then length l else first_reached_by l y in
  (firstn a l ++ p' ++ skipn b l, firstn (b - a) (skipn a l)).

Definition all_depots (l : list node_id) : bool := forallb nid_is_depot l.

(* removal of positions i..j (inclusive) of a tour: the three documented refusals *)
Definition ref_removable (dummy : bool) (l : list node_id) (i j : nat) : bool :=
  let len := length l in
  negb (negb dummy && Nat.eqb i 0 && Nat.leb (j + 3) len) &&      (* start depot without all non-depots *)
  negb (negb dummy && Nat.eqb (j + 1) len && Nat.leb 2 i) &&       (* end depot without all non-depots *)
  Nat.leb i j &&
  negb (Nat.ltb 0 i && Nat.ltb (j + 1) len &&
        negb (can_reach nw (nth (i - 1) l (SD 0)) (nth (j + 1) l (SD 0)))).   (* unconnectable gap *)

Definition ref_remove (l : list node_id) (i j : nat) : list node_id * list node_id :=
  (firstn i l ++ skipn (j + 1) l, firstn (j + 1 - i) (skipn i l)).

Definition ref_sub_path (l : list node_id) (i j : nat) : list node_id := firstn (j + 1 - i) (skipn i l).

(* position of a node id in a list *)
Definition pos_of (l : list node_id) (n : node_id) : option nat := index_of (nid_eqb n) l.
End Ref.
