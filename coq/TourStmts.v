(* TourStmts.v — full statements of the C12 theorems (as Props, so that they are pinned independently
   of their proofs, which live in TourFacts.v). *)
From RS Require Import Base Network NetSpec Tour TourSpec.

Section Stmts.
Variable nw : network.

(* chronological node list: every node starts no later than it ends and ends no later than the next starts *)
Definition chrono (l : list node_id) : Prop :=
  (forall n, In n l -> dt_leb (start_time nw n) (end_time nw n) = true) /\
  (forall a b, In (a, b) (windows l) -> dt_leb (end_time nw a) (start_time nw b) = true).

(* consecutive nodes are connectable (holds for every real tour; a dummy tour need not satisfy it) *)
Definition connected (l : list node_id) : Prop :=
  forall a b, In (a, b) (windows l) -> can_reach nw a b = true.

(* a valid Path: non-empty, consecutive nodes connectable, at least one non-depot (Path::new) *)
Definition valid_path (p : list node_id) : Prop :=
  p <> [] /\ connected p /\ existsb (fun n => negb (node_is_depot nw n)) p = true.

(* C12, insertion: for every chronological tour node list and every valid path, insert_path's node-level
   computation succeeds and equals the reference: longest prefix whose last node can reach the path, the
   whole path, longest suffix whose first node the path can reach; the removed nodes are exactly the rest. *)
Definition stmt_insert_nodes_ref : Prop :=
  forall (dummy : bool) (l p : list node_id),
    net_ok_b nw = true -> l <> [] -> chrono l -> valid_path p ->
    exists sp ep p1,
      insert_nodes nw dummy l p =
        Ok (sp, ep, fst (ref_insert nw dummy l p), snd (ref_insert nw dummy l p), p1).

(* C12, "connectable nodes are never dropped": every old node before the path that can reach its first
   node is kept, together with everything before it (also at equal times with zero turnaround); dually
   for the nodes after the path. *)
Definition stmt_insert_keeps_connectable : Prop :=
  forall (dummy : bool) (l p : list node_id) (k : nat) (z : node_id),
    nth_error l k = Some z ->
    let p' := if dummy then strip_depots nw p else p in
    (nid_is_depot nw (hd (SD 0) p') = false -> can_reach nw z (hd (SD 0) p') = true ->
       exists suf, fst (ref_insert nw dummy l p) = firstn (S k) l ++ suf) /\
    (nid_is_depot nw (last p' (SD 0)) = false -> can_reach nw (last p' (SD 0)) z = true ->
       exists pre, fst (ref_insert nw dummy l p) = pre ++ skipn k l).

(* C12, removal: node-level result of remove = reference (three documented refusals), for all tours in
   which real tours have at least three nodes *)
Definition stmt_remove_nodes_ref : Prop :=
  forall (t : tour) (a b : node_id),
    (t_dummy t = false -> (3 <= length (t_nodes t))%nat) -> t_nodes t <> [] ->
    remove_nodes nw t (a, b) =
      match pos_of (t_nodes t) a, pos_of (t_nodes t) b with
      | Some i, Some j =>
          if ref_removable nw (t_dummy t) (t_nodes t) i j
          then Ok (i, j, fst (ref_remove (t_nodes t) i j), snd (ref_remove (t_nodes t) i j))
          else Err
      | _, _ => Err
      end.

(* C12, sub-path: extracting the sub-path of an existing segment (positions i <= j, at least one
   non-depot inside) of a chronological, connected tour always succeeds and returns exactly l[i..j] *)
Definition stmt_sub_path_total : Prop :=
  forall (t : tour) (i j : nat) (a b : node_id),
    net_ok_b nw = true -> chrono (t_nodes t) -> connected (t_nodes t) -> NoDup (t_nodes t) ->
    nth_error (t_nodes t) i = Some a -> nth_error (t_nodes t) j = Some b -> (i <= j)%nat ->
    all_depots nw (ref_sub_path (t_nodes t) i j) = false ->
    sub_path nw t (a, b) = Ok (ref_sub_path (t_nodes t) i j).
End Stmts.
