(* TourValidFacts.v — tour-level preservation of validity (C10, tours): insert_path, remove, replace_start_depot,
   replace_end_depot, sub_path and tour_new_dummy keep
     RV l : "l is the node list of a valid real tour"  (equivalent to [valid_tour_nodes nw l = true]) and
     DV l : "l is the node list of a fine dummy tour"  (non-empty, no depots, consecutive nodes connectable).
   Everything is derived from the reference semantics of TourFacts.v ([insert_nodes_ref_at], [remove_nodes_ref_at]).
   Network hypotheses: [net_wf_b] and [durations_pos_b] (the two halves of [net_ok_b]), and only where times
   matter. [tour_new_dummy] drops the depots only, which keeps a connected list connected. *)
From RS Require Import Base BaseFacts Network NetSpec NetFacts Tour TourSpec TourStmts TourFacts.
From Coq Require Import Arith.
Local Open Scope nat_scope.

(** * Generic list facts *)
Section Chain.
Context {A : Type} (R : A -> A -> Prop).

Fixpoint chain (l : list A) : Prop :=
  match l with
  | a :: r => match r with b :: _ => R a b /\ chain r | [] => True end
  | [] => True
  end.

Lemma chain_cons2 a b r : chain (a :: b :: r) <-> R a b /\ chain (b :: r).
Proof. reflexivity. Qed.

Lemma chain_tl a r : chain (a :: r) -> chain r.
Proof. destruct r as [|b r]; [intros; exact I|]. intros [_ H]; exact H. Qed.

Lemma chain_app l1 l2 d :
  chain (l1 ++ l2) <-> chain l1 /\ chain l2 /\ (l1 <> [] -> l2 <> [] -> R (last l1 d) (hd d l2)).
Proof.
  induction l1 as [|a l1 IH].
  - cbn [app chain]. split; [intros H; repeat split; auto; congruence | tauto].
  - destruct l1 as [|a' r1].
    + cbn [app last]. destruct l2 as [|b r2].
      * cbn. split; [intros _; repeat split; auto; congruence | auto].
      * rewrite chain_cons2. cbn [hd chain]. split.
        -- intros [H1 H2]. repeat split; auto.
        -- intros (_ & H2 & H3). split; [apply H3; discriminate | exact H2].
    + change ((a :: a' :: r1) ++ l2) with (a :: a' :: (r1 ++ l2)).
      rewrite !chain_cons2. change (a' :: r1 ++ l2) with ((a' :: r1) ++ l2). rewrite IH.
      change (last (a :: a' :: r1) d) with (last (a' :: r1) d).
      split.
      * intros (H1 & H2 & H3 & H4). repeat split; auto. intros _. apply H4. discriminate.
      * intros ((H1 & H2) & H3 & H4). repeat split; auto. intros _. apply H4. discriminate.
Qed.

Lemma chain_firstn l n : chain l -> chain (firstn n l).
Proof.
  destruct l as [|a r]; [rewrite firstn_nil; auto|]. intros H.
  rewrite <- (firstn_skipn n (a :: r)) in H. apply (chain_app _ _ a) in H. tauto.
Qed.

Lemma chain_skipn l n : chain l -> chain (skipn n l).
Proof.
  destruct l as [|a r]; [rewrite skipn_nil; auto|]. intros H.
  rewrite <- (firstn_skipn n (a :: r)) in H. apply (chain_app _ _ a) in H. tauto.
Qed.
End Chain.

Lemma hd_skipn {A} (l : list A) : forall n d, hd d (skipn n l) = nth n l d.
Proof.
  induction l as [|a l IH]; intros n d.
  - rewrite skipn_nil. destruct n; reflexivity.
  - destruct n as [|n]; [reflexivity|]. cbn [skipn nth]. apply IH.
Qed.

Lemma last_firstn {A} (l : list A) : forall n d, 0 < n -> n <= length l -> last (firstn n l) d = nth (n - 1) l d.
Proof.
  induction l as [|a l IH]; intros n d H1 H2; [simpl in H2; lia|].
  destruct n as [|n]; [lia|]. cbn [firstn]. destruct n as [|n].
  - rewrite firstn_O. reflexivity.
  - simpl in H2. destruct l as [|b r]; [simpl in H2; lia|].
    change (firstn (S n) (b :: r)) with (b :: firstn n r).
    change (last (a :: b :: firstn n r) d) with (last (b :: firstn n r) d).
    change (b :: firstn n r) with (firstn (S n) (b :: r)).
    cbn [length] in H2. rewrite IH by (cbn [length]; lia). replace (S (S n) - 1) with (S (S n - 1)) by lia. reflexivity.
Qed.

Lemma skipn_nonempty {A} (l : list A) n : skipn n l <> [] -> n < length l.
Proof.
  intros H. destruct (le_lt_dec (length l) n) as [L|L]; auto. rewrite skipn_all2 in H by exact L. congruence.
Qed.

Lemma firstn_nonempty {A} (l : list A) n : firstn n l <> [] -> 0 < n /\ l <> [].
Proof. destruct n; destruct l; cbn; try congruence. intros _. split; [lia|discriminate]. Qed.

Lemma last_app_ne {A} (l1 l2 : list A) d : l2 <> [] -> last (l1 ++ l2) d = last l2 d.
Proof.
  intros H. induction l1 as [|a l1 IH]; [reflexivity|].
  cbn [app]. destruct (l1 ++ l2) eqn:E.
  - apply app_eq_nil in E. tauto.
  - exact IH.
Qed.

Lemma hd_app_ne {A} (l1 l2 : list A) d : l1 <> [] -> hd d (l1 ++ l2) = hd d l1.
Proof. destruct l1; [congruence|reflexivity]. Qed.

Lemma last_skipn {A} (l : list A) n d : n < length l -> last (skipn n l) d = last l d.
Proof.
  intros H. rewrite <- (firstn_skipn n l) at 2. symmetry. apply last_app_ne.
  intros E. apply (f_equal (@length A)) in E. rewrite skipn_length in E. simpl in E. lia.
Qed.

Lemma in_firstn_nth {A} (l : list A) : forall n k x, k < n -> nth_error l k = Some x -> In x (firstn n l).
Proof.
  induction l as [|a l IH]; intros n k x H1 H2; [destruct k; discriminate|].
  destruct n as [|n]; [lia|]. cbn [firstn]. destruct k as [|k].
  - inversion H2; subst. left; reflexivity.
  - right. apply (IH n k); [lia|exact H2].
Qed.

Lemma in_slice_nth {A} (l : list A) : forall i n k x, i <= k -> k < i + n -> nth_error l k = Some x ->
  In x (firstn n (skipn i l)).
Proof.
  induction l as [|a l IH]; intros i n k x H1 H2 H3; [destruct k; discriminate|].
  destruct i as [|i].
  - cbn [skipn]. apply (in_firstn_nth _ n k); [lia|exact H3].
  - destruct k as [|k]; [lia|]. cbn [skipn]. apply (IH i n k); [lia|lia|exact H3].
Qed.

Lemma firstn_in_nth {A} (l : list A) : forall n x, In x (firstn n l) -> exists k, k < n /\ nth_error l k = Some x.
Proof.
  induction l as [|a l IH]; intros n x H; [rewrite firstn_nil in H; destruct H|].
  destruct n as [|n]; [destruct H|]. cbn [firstn] in H. destruct H as [H|H].
  - subst. exists 0. split; [lia|reflexivity].
  - destruct (IH n x H) as (k & K1 & K2). exists (S k). split; [lia|exact K2].
Qed.

Lemma slice_in_nth {A} (l : list A) : forall i n x, In x (firstn n (skipn i l)) ->
  exists k, i <= k /\ k < i + n /\ nth_error l k = Some x.
Proof.
  induction l as [|a l IH]; intros i n x H.
  - rewrite skipn_nil, firstn_nil in H. destruct H.
  - destruct i as [|i].
    + cbn [skipn] in H. destruct (firstn_in_nth _ _ _ H) as (k & K1 & K2). exists k. repeat split; auto; lia.
    + cbn [skipn] in H. destruct (IH i n x H) as (k & K1 & K2 & K3). exists (S k). repeat split; auto; lia.
Qed.

Lemma index_of_spec {A} (p : A -> bool) (l : list A) : forall i, index_of p l = Some i ->
  exists x, nth_error l i = Some x /\ p x = true.
Proof.
  induction l as [|a l IH]; intros i H; [discriminate|]. cbn [index_of] in H.
  destruct (p a) eqn:E.
  - inversion H; subst. exists a. split; [reflexivity|exact E].
  - destruct (index_of p l) as [k|]; [|discriminate]. inversion H; subst.
    destruct (IH k eq_refl) as (x & X1 & X2). exists x. split; [exact X1|exact X2].
Qed.

(** order-preserving sub-lists *)
Inductive Sub {A} : list A -> list A -> Prop :=
| Sub_nil : Sub [] []
| Sub_skip a s l : Sub s l -> Sub s (a :: l)
| Sub_keep a s l : Sub s l -> Sub (a :: s) (a :: l).

Lemma Sub_refl {A} (l : list A) : Sub l l.
Proof. induction l; [constructor | apply Sub_keep; auto]. Qed.

Lemma Sub_nil_l {A} (l : list A) : Sub [] l.
Proof. induction l; [constructor | apply Sub_skip; auto]. Qed.

Lemma Sub_in {A} (s l : list A) x : Sub s l -> In x s -> In x l.
Proof. induction 1; cbn [In]; intuition. Qed.

Lemma Sub_trans {A} (a b c : list A) : Sub a b -> Sub b c -> Sub a c.
Proof.
  intros H1 H2. revert a H1. induction H2; intros s0 H1.
  - exact H1.
  - apply Sub_skip. apply IHSub. exact H1.
  - inversion H1; subst.
    + apply Sub_skip. apply IHSub. assumption.
    + apply Sub_keep. apply IHSub. assumption.
Qed.

Lemma Sub_app {A} (a b c d : list A) : Sub a b -> Sub c d -> Sub (a ++ c) (b ++ d).
Proof. induction 1; cbn [app]; intros H0; [exact H0 | apply Sub_skip; auto | apply Sub_keep; auto]. Qed.

Lemma Sub_firstn {A} (l : list A) n : Sub (firstn n l) l.
Proof.
  revert n. induction l as [|a l IH]; intros n; [rewrite firstn_nil; constructor|].
  destruct n; cbn [firstn]; [apply Sub_nil_l | apply Sub_keep; apply IH].
Qed.

Lemma Sub_skipn {A} (l : list A) n : Sub (skipn n l) l.
Proof.
  revert n. induction l as [|a l IH]; intros n; [rewrite skipn_nil; constructor|].
  destruct n; cbn [skipn]; [apply Sub_refl | apply Sub_skip; apply IH].
Qed.

Lemma Sub_cut {A} (l : list A) i j : i <= j -> Sub (firstn i l ++ skipn j l) l.
Proof.
  intros H. rewrite <- (firstn_skipn i l) at 3. apply Sub_app; [apply Sub_refl|].
  replace j with ((j - i) + i) by lia. rewrite <- skipn_skipn'. apply Sub_skipn.
Qed.

(* x occurs at or before y *)
Definition ordi {A} (l : list A) (x y : A) : Prop :=
  exists i j, i <= j /\ nth_error l i = Some x /\ nth_error l j = Some y.

Lemma Sub_ordi {A} (s l : list A) x y : Sub s l -> ordi s x y -> ordi l x y.
Proof.
  induction 1; intros (i & j & L & X & Y).
  - destruct i; discriminate.
  - destruct IHSub as (i' & j' & L' & X' & Y'); [exists i, j; auto|].
    exists (S i'), (S j'). repeat split; auto; lia.
  - destruct i as [|i].
    + cbn in X. inversion X; subst. destruct j as [|j].
      * cbn in Y. inversion Y; subst. exists 0, 0. repeat split; auto.
      * cbn in Y. apply nth_error_In in Y. apply (Sub_in _ _ _ H) in Y.
        apply In_nth_error in Y. destruct Y as [k Y]. exists 0, (S k). repeat split; auto; lia.
    + destruct j as [|j]; [lia|]. cbn in X, Y.
      destruct IHSub as (i' & j' & L' & X' & Y'); [exists i, j; repeat split; auto; lia|].
      exists (S i'), (S j'). repeat split; auto; lia.
Qed.

Lemma ordi_between {A} (l : list A) s e x k1 k2 :
  NoDup l -> nth_error l k1 = Some s -> nth_error l k2 = Some e -> ordi l s x -> ordi l x e ->
  exists k, k1 <= k /\ k <= k2 /\ nth_error l k = Some x.
Proof.
  intros N S0 E0 (i & j & L1 & X1 & Y1) (i' & j' & L2 & X2 & Y2).
  assert (Hi : i = k1).
  { apply (proj1 (NoDup_nth_error l) N); [apply nth_error_Some; congruence | congruence]. }
  assert (Hj : j' = k2).
  { apply (proj1 (NoDup_nth_error l) N); [apply nth_error_Some; congruence | congruence]. }
  assert (Hx : j = i').
  { apply (proj1 (NoDup_nth_error l) N); [apply nth_error_Some; congruence | congruence]. }
  subst. exists i'. repeat split; auto.
Qed.

(** * Depots and reachability (no hypothesis on the network) *)
Section Valid.
Variable nw : network.
Notation d0 := (SD 0).
Notation cr := (can_reach nw).
Definition crR (a b : node_id) : Prop := can_reach nw a b = true.
Definition sdep (n : node_id) : bool := is_start_depot (nd nw n).
Definition edep (n : node_id) : bool := is_end_depot (nd nw n).
Notation dep := (node_is_depot nw).

Lemma dep_split n : dep n = sdep n || edep n.
Proof. reflexivity. Qed.

Lemma sdep_not_edep n : sdep n = true -> edep n = false.
Proof. unfold sdep, edep. destruct (nd nw n); cbn; congruence. Qed.

Lemma edep_not_sdep n : edep n = true -> sdep n = false.
Proof. unfold sdep, edep. destruct (nd nw n); cbn; congruence. Qed.

Lemma nondep_split n : dep n = false -> sdep n = false /\ edep n = false.
Proof. rewrite dep_split. apply orb_false_iff. Qed.

Lemma cr_ends a b : cr a b = true -> sdep b = false /\ edep a = false.
Proof.
  unfold can_reach, can_reach_nodes, sdep, edep.
  destruct (is_start_depot (nd nw b)); destruct (is_end_depot (nd nw a)); cbn [orb]; try discriminate; auto.
Qed.

Lemma cr_from_sdep a b : sdep a = true -> sdep b = false -> cr a b = true.
Proof.
  intros H1 H2. pose proof (sdep_not_edep _ H1) as H3. unfold sdep, edep in *.
  unfold can_reach, can_reach_nodes. rewrite H2, H3, H1. reflexivity.
Qed.

Lemma cr_to_edep a b : edep b = true -> edep a = false -> cr a b = true.
Proof.
  intros H1 H2. pose proof (edep_not_sdep _ H1) as H3. unfold sdep, edep in *.
  unfold can_reach, can_reach_nodes. rewrite H2, H3, H1. cbn [orb]. rewrite orb_true_r. reflexivity.
Qed.

(** ** connected = chain of can_reach *)
Lemma connected_chain l : connected nw l <-> chain crR l.
Proof.
  induction l as [|a l IH]; [split; [intros _; exact I | intros _ x y []]|].
  destruct l as [|b r].
  - split; [intros _; exact I | intros _ x y []].
  - rewrite chain_cons2, <- IH. unfold connected, crR.
    change (windows (a :: b :: r)) with ((a, b) :: windows (b :: r)). split.
    + intros H. split; [apply H; left; reflexivity | intros x y Hin; apply H; right; exact Hin].
    + intros [H1 H2] x y [E|Hin]; [inversion E; subst; exact H1 | apply H2; exact Hin].
Qed.

Lemma windows_forallb l :
  forallb (fun '(a, b) => can_reach nw a b) (windows l) = true <-> connected nw l.
Proof.
  rewrite forallb_forall. unfold connected. split.
  - intros H a b Hin. apply (H (a, b) Hin).
  - intros H [a b] Hin. apply H. exact Hin.
Qed.

Lemma connected_app l1 l2 :
  connected nw (l1 ++ l2) <->
  connected nw l1 /\ connected nw l2 /\ (l1 <> [] -> l2 <> [] -> cr (last l1 d0) (hd d0 l2) = true).
Proof. rewrite !connected_chain. exact (chain_app crR l1 l2 d0). Qed.

Lemma connected_firstn l n : connected nw l -> connected nw (firstn n l).
Proof. rewrite !connected_chain. apply chain_firstn. Qed.

Lemma connected_skipn l n : connected nw l -> connected nw (skipn n l).
Proof. rewrite !connected_chain. apply chain_skipn. Qed.

Lemma connected_slice l i n : connected nw l -> connected nw (firstn n (skipn i l)).
Proof. intros H. apply connected_firstn, connected_skipn, H. Qed.

Lemma conn_tl_no_sdep r : forall a x, connected nw (a :: r) -> In x r -> sdep x = false.
Proof.
  induction r as [|b r IH]; intros a x C Hin; [destruct Hin|].
  destruct Hin as [->|Hin].
  - apply (cr_ends a x). apply C. left; reflexivity.
  - apply (IH b); [eapply connected_tl; eauto | exact Hin].
Qed.

Lemma conn_removelast_no_edep l : forall x, connected nw l -> In x (removelast l) -> edep x = false.
Proof.
  induction l as [|a l IH]; intros x C Hin; [destruct Hin|].
  destruct l as [|b r]; [destruct Hin|].
  change (removelast (a :: b :: r)) with (a :: removelast (b :: r)) in Hin.
  destruct Hin as [->|Hin].
  - apply (cr_ends x b). apply C. left; reflexivity.
  - apply IH; [eapply connected_tl; eauto | exact Hin].
Qed.

Lemma removelast_tl_incl {A} (a : A) t x : In x (removelast t) -> In x (removelast (a :: t)).
Proof. destruct t as [|b r]; [intros []|]. intros H. right. exact H. Qed.

Lemma in_removelast {A} (l : list A) x : In x (removelast l) -> In x l.
Proof.
  induction l as [|a l IH]; [intros []|]. destruct l as [|b r]; [intros []|].
  change (removelast (a :: b :: r)) with (a :: removelast (b :: r)). intros [->|H]; [left; reflexivity|right; auto].
Qed.

(** ** valid real node lists *)
Definition RV (l : list node_id) : Prop :=
  l <> [] /\ connected nw l /\ sdep (hd d0 l) = true /\ edep (last l d0) = true /\
  exists x, In x l /\ dep x = false.

Definition DV (l : list node_id) : Prop :=
  l <> [] /\ connected nw l /\ forall x, In x l -> dep x = false.

Lemma RV_length l : RV l -> 3 <= length l.
Proof.
  intros (NE & C & S & E & x & Hin & Dx).
  destruct l as [|f [|g [|h r]]]; cbn [length]; try lia; try congruence.
  - cbn in S, E. apply sdep_not_edep in S. congruence.
  - cbn [hd] in S. change (last [f; g] d0) with g in E. apply nondep_split in Dx.
    destruct Hin as [->|[->|[]]]; destruct Dx; congruence.
Qed.

Lemma RV_inner l x : RV l -> In x (removelast (tl l)) -> dep x = false.
Proof.
  intros (NE & C & S & E & _) Hin. destruct l as [|f t]; [congruence|]. cbn [tl] in Hin.
  rewrite dep_split. apply orb_false_iff. split.
  - apply (conn_tl_no_sdep t f); [exact C | apply in_removelast; exact Hin].
  - apply (conn_removelast_no_edep (f :: t)); [exact C | apply removelast_tl_incl; exact Hin].
Qed.

Lemma valid_tour_nodes_RV l : valid_tour_nodes nw l = true <-> RV l.
Proof.
  split.
  - intros H. destruct l as [|f t]; [discriminate|]. unfold valid_tour_nodes in H.
    rewrite !andb_true_iff in H. destruct H as ((((S & E) & L) & ND) & W).
    apply windows_forallb in W. apply Z.leb_le in L.
    assert (L' : 3 <= length (f :: t)) by lia. clear L.
    split; [discriminate|]. split; [exact W|]. split; [exact S|].
    split; [rewrite (last_indep _ d0 f) by discriminate; exact E|].
    destruct t as [|g [|h r]]; cbn [length] in L'; try lia.
    exists g. split; [right; left; reflexivity|].
    cbn [tl] in ND. change (removelast (g :: h :: r)) with (g :: removelast (h :: r)) in ND.
    cbn [forallb] in ND. apply andb_true_iff in ND. destruct ND as [ND _].
    apply negb_true_iff in ND. exact ND.
  - intros R. pose proof (RV_length _ R) as L. pose proof R as (NE & C & S & E & _).
    destruct l as [|f t]; [congruence|]. unfold valid_tour_nodes.
    rewrite !andb_true_iff. repeat split.
    + exact S.
    + rewrite (last_indep _ f d0) by discriminate. exact E.
    + apply Z.leb_le. lia.
    + apply forallb_forall. intros x Hin. apply negb_true_iff. apply (RV_inner _ _ R Hin).
    + apply windows_forallb. exact C.
Qed.

(** ** the reference insertion keeps validity *)
Notation lpr := (longest_prefix_reaching nw).
Notation frb := (first_reached_by nw).

Lemma last_in {A} (l : list A) d : l <> [] -> In (last l d) l.
Proof.
  induction l as [|a l IH]; [congruence|]. intros _. destruct l as [|b r]; [left; reflexivity|].
  right. apply IH. discriminate.
Qed.

Lemma nth_error_last {A} (l : list A) d : l <> [] -> nth_error l (length l - 1) = Some (last l d).
Proof.
  intros NE. rewrite (last_nth l d). apply nth_error_nth'. pose proof (length_pos _ NE). lia.
Qed.

Lemma nth_error_hd {A} (l : list A) d : l <> [] -> nth_error l 0 = Some (hd d l).
Proof. destruct l; [congruence|reflexivity]. Qed.

Lemma ins_connected l p' :
  connected nw l -> connected nw p' -> p' <> [] ->
  connected nw (firstn (if dep (hd d0 p') then 0 else lpr l (hd d0 p')) l ++ p' ++
                skipn (if dep (last p' d0) then length l else frb l (last p' d0)) l).
Proof.
  intros CL CP NE.
  set (x := hd d0 p'). set (y := last p' d0).
  set (a := if dep x then 0 else lpr l x). set (b := if dep y then length l else frb l y).
  apply connected_app. split; [apply connected_firstn; exact CL|]. split.
  - apply connected_app. split; [exact CP|]. split; [apply connected_skipn; exact CL|].
    intros _ NE2. rewrite hd_skipn. apply skipn_nonempty in NE2. subst b. fold y.
    destruct (dep y); [lia|]. apply frb_reach. exact NE2.
  - intros NE1 _. rewrite hd_app_ne by exact NE. fold x.
    apply firstn_nonempty in NE1. destruct NE1 as [A0 _]. subst a.
    destruct (dep x); [lia|]. pose proof (lpr_le nw l x) as LE.
    rewrite last_firstn by lia. destruct (lpr l x) as [|k] eqn:E; [lia|].
    replace (S k - 1) with k by lia. apply lpr_reach. exact E.
Qed.

(* on a valid path a depot at the front is a start depot and a depot at the back an end depot *)
Lemma path_front_depot p : valid_path nw p -> dep (hd d0 p) = true -> sdep (hd d0 p) = true.
Proof.
  intros (NE & CN & EX) D. destruct p as [|f r]; [congruence|]. cbn [hd] in *.
  rewrite dep_split in D. apply orb_true_iff in D. destruct D as [D|D]; [exact D|exfalso].
  destruct r as [|b r].
  - cbn in EX. rewrite dep_split, D, orb_true_r in EX. discriminate.
  - assert (C : cr f b = true) by (apply CN; left; reflexivity).
    apply cr_ends in C. destruct C. congruence.
Qed.

Lemma path_back_depot p : valid_path nw p -> dep (last p d0) = true -> edep (last p d0) = true.
Proof.
  intros (NE & CN & EX) D. destruct p as [|f r]; [congruence|].
  rewrite dep_split in D. apply orb_true_iff in D. destruct D as [D|D]; [exfalso|exact D].
  destruct r as [|b r].
  - cbn in D, EX. rewrite dep_split, D in EX. discriminate.
  - assert (Hin : In (last (f :: b :: r) d0) (b :: r)).
    { change (last (f :: b :: r) d0) with (last (b :: r) d0). apply last_in. discriminate. }
    apply (conn_tl_no_sdep _ f _ CN) in Hin. congruence.
Qed.

Lemma ref_insert_real l p : RV l -> valid_path nw p -> RV (fst (ref_insert nw false l p)).
Proof.
  intros R VP. pose proof VP as (NE & CN & EX). pose proof R as (NEl & CL & Hs & He & _).
  unfold ref_insert. cbn [fst]. change (nid_is_depot nw) with dep.
  pose proof (ins_connected l p CL CN NE) as CONN.
  set (x := hd d0 p) in *. set (y := last p d0) in *.
  set (a := if dep x then 0 else lpr l x) in *. set (b := if dep y then length l else frb l y) in *.
  split; [|split; [exact CONN|split; [|split]]].
  - intros H. apply app_eq_nil in H. destruct H as [_ H]. apply app_eq_nil in H. tauto.
  - subst a. destruct (dep x) eqn:Dx.
    + cbn [firstn app]. rewrite hd_app_ne by exact NE. apply path_front_depot; assumption.
    + assert (G : 1 <= lpr l x).
      { apply (lpr_ge nw l x 0 (hd d0 l)); [apply nth_error_hd; exact NEl|].
        apply cr_from_sdep; [exact Hs|]. apply nondep_split in Dx. tauto. }
      destruct l as [|f t]; [congruence|]. destruct (lpr (f :: t) x) as [|k]; [lia|]. cbn [firstn app hd]. exact Hs.
  - subst b. destruct (dep y) eqn:Dy.
    + rewrite skipn_all, app_nil_r. rewrite last_app_ne by exact NE. apply path_back_depot; assumption.
    + assert (G : frb l y <= length l - 1).
      { apply (frb_le_k nw l y _ (last l d0)); [apply nth_error_last; exact NEl|].
        apply cr_to_edep; [exact He|]. apply nondep_split in Dy. tauto. }
      pose proof (length_pos _ NEl) as LP.
      rewrite app_assoc. rewrite last_app_ne.
      * rewrite last_skipn by lia. exact He.
      * intros H. apply (f_equal (@length node_id)) in H. rewrite skipn_length in H. simpl in H. lia.
  - apply existsb_exists in EX. destruct EX as (z & Hin & Dz). apply negb_true_iff in Dz.
    exists z. split; [|exact Dz]. apply in_or_app. right. apply in_or_app. left. exact Hin.
Qed.

Lemma ref_insert_incl dummy l p z :
  In z (fst (ref_insert nw dummy l p)) -> In z l \/ In z (if dummy then strip_depots nw p else p).
Proof.
  unfold ref_insert. cbn [fst]. intros H. apply in_app_or in H. destruct H as [H|H].
  - left. eapply Sub_in; [apply Sub_firstn|exact H].
  - apply in_app_or in H. destruct H as [H|H]; [right; exact H|].
    left. eapply Sub_in; [apply Sub_skipn|exact H].
Qed.

Lemma strip_depots_incl p z : In z (strip_depots nw p) -> In z p.
Proof.
  unfold strip_depots. destruct p as [|f r]; [intros []|].
  set (p1 := if nid_is_depot nw f then r else f :: r).
  assert (I1 : forall u, In u p1 -> In u (f :: r)).
  { subst p1. destruct (nid_is_depot nw f); intros u Hu; [right; exact Hu|exact Hu]. }
  destruct p1 as [|g s] eqn:E; [intros []|]. rewrite <- E in *.
  destruct (nid_is_depot nw (last p1 d0)); intros H; apply I1; [apply in_removelast|]; exact H.
Qed.

Lemma ref_insert_incl' dummy l p z :
  In z (fst (ref_insert nw dummy l p)) -> In z l \/ In z p.
Proof.
  intros H. apply ref_insert_incl in H. destruct H as [H|H]; [left; exact H|right].
  destruct dummy; [apply strip_depots_incl|]; exact H.
Qed.

Lemma strip_nondep p z : connected nw p -> In z (strip_depots nw p) -> dep z = false.
Proof.
  intros CN. unfold strip_depots. change (nid_is_depot nw) with dep.
  destruct p as [|f r]; [intros []|].
  set (p1 := if dep f then r else f :: r).
  assert (A1 : forall u, In u p1 -> sdep u = false).
  { subst p1. destruct (dep f) eqn:Df; intros u Hu.
    - apply (conn_tl_no_sdep r f); assumption.
    - destruct Hu as [->|Hu]; [apply nondep_split in Df; tauto | apply (conn_tl_no_sdep r f); assumption]. }
  assert (B1 : connected nw p1).
  { subst p1. destruct (dep f); [eapply connected_tl; eauto | exact CN]. }
  destruct p1 as [|g s] eqn:E; [intros []|]. rewrite <- E in *.
  assert (NE1 : p1 <> []) by (rewrite E; discriminate).
  destruct (dep (last p1 d0)) eqn:Dl; intros H; rewrite dep_split; apply orb_false_iff.
  - split; [apply A1; apply in_removelast; exact H | apply (conn_removelast_no_edep p1); assumption].
  - split; [apply A1; exact H|].
    rewrite (app_removelast_last d0 NE1) in H. apply in_app_or in H. destruct H as [H|[<-|[]]].
    + apply (conn_removelast_no_edep p1); assumption.
    + apply nondep_split in Dl. tauto.
Qed.

Lemma ref_insert_dummy l p : DV l -> valid_path nw p -> DV (fst (ref_insert nw true l p)).
Proof.
  intros (NEl & CL & ND) VP. destruct (effective_path_ok nw true p VP) as (_ & NE' & CN').
  pose proof VP as (_ & CN & _).
  unfold ref_insert. cbn [fst]. change (nid_is_depot nw) with dep.
  split; [|split].
  - intros H. apply app_eq_nil in H. destruct H as [_ H]. apply app_eq_nil in H. tauto.
  - apply ins_connected; assumption.
  - intros z H. apply in_app_or in H. destruct H as [H|H].
    + apply ND. eapply Sub_in; [apply Sub_firstn|exact H].
    + apply in_app_or in H. destruct H as [H|H]; [eapply strip_nondep; eauto|].
      apply ND. eapply Sub_in; [apply Sub_skipn|exact H].
Qed.

Lemma ref_insert_removed_connected dummy l p : connected nw l -> connected nw (snd (ref_insert nw dummy l p)).
Proof. intros H. unfold ref_insert. cbn [snd]. apply connected_slice. exact H. Qed.

(** ** removal *)
Ltac tmon H :=
  match type of H with
  | bind ?x _ = Ok _ =>
      let E := fresh "E" in destruct x eqn:E; cbn [bind] in H; [| discriminate H ..]
  end.

Definition TV (t : tour) : Prop := if t_dummy t then DV (t_nodes t) else RV (t_nodes t).

Lemma TV_connected t : TV t -> connected nw (t_nodes t).
Proof. unfold TV. destruct (t_dummy t); [intros (_ & C & _) | intros (_ & C & _)]; exact C. Qed.

Lemma TV_nonempty t : TV t -> t_nodes t <> [].
Proof. unfold TV. destruct (t_dummy t); [intros (C & _) | intros (C & _)]; exact C. Qed.

Lemma forallb_false_existsb {A} (f : A -> bool) l : forallb f l = false -> existsb (fun x => negb (f x)) l = true.
Proof.
  induction l as [|a l IH]; cbn [forallb existsb]; [discriminate|].
  destruct (f a); cbn [negb andb orb]; auto.
Qed.

Lemma path_new_trusted_some l rp : path_new_trusted nw l = Some rp -> rp = l /\ forallb dep l = false.
Proof. unfold path_new_trusted. destruct (forallb dep l); [discriminate|]. intros H; inversion H; auto. Qed.

Lemma slice_valid_path l i n :
  connected nw l -> forallb dep (firstn n (skipn i l)) = false -> valid_path nw (firstn n (skipn i l)).
Proof.
  intros C F. split; [|split].
  - intros H. rewrite H in F. discriminate.
  - apply connected_slice. exact C.
  - apply forallb_false_existsb. exact F.
Qed.

Lemma ref_removable_facts dummy l i j : ref_removable nw dummy l i j = true ->
  i <= j /\
  (0 < i -> j + 1 < length l -> cr (nth (i - 1) l d0) (nth (j + 1) l d0) = true) /\
  (dummy = false -> ~ (i = 0 /\ j + 3 <= length l) /\ ~ (j + 1 = length l /\ 2 <= i)).
Proof.
  unfold ref_removable. rewrite !andb_true_iff, !negb_true_iff. intros (((A & B) & C) & D).
  apply Nat.leb_le in C. split; [exact C|]. split.
  - intros H1 H2. destruct (cr (nth (i - 1) l d0) (nth (j + 1) l d0)) eqn:EC; auto. exfalso.
    rewrite (proj2 (Nat.ltb_lt _ _) H1), (proj2 (Nat.ltb_lt _ _) H2) in D. cbn in D. discriminate.
  - intros ->. cbn [negb andb] in A, B. split; intros [P Q].
    + rewrite (proj2 (Nat.eqb_eq _ _) P), (proj2 (Nat.leb_le _ _) Q) in A. discriminate.
    + rewrite (proj2 (Nat.eqb_eq _ _) P), (proj2 (Nat.leb_le _ _) Q) in B. discriminate.
Qed.

Lemma remove_nodes_facts t a b sp ep tn rm :
  (t_dummy t = false -> 3 <= length (t_nodes t)) -> t_nodes t <> [] ->
  remove_nodes nw t (a, b) = Ok (sp, ep, tn, rm) ->
  pos_of (t_nodes t) a = Some sp /\ pos_of (t_nodes t) b = Some ep /\
  ref_removable nw (t_dummy t) (t_nodes t) sp ep = true /\
  tn = firstn sp (t_nodes t) ++ skipn (ep + 1) (t_nodes t) /\
  rm = firstn (ep + 1 - sp) (skipn sp (t_nodes t)).
Proof.
  intros H3 NE H. rewrite (remove_nodes_ref_at nw t a b H3 NE) in H.
  destruct (pos_of (t_nodes t) a) as [i|]; [|discriminate].
  destruct (pos_of (t_nodes t) b) as [j|]; [|discriminate].
  destruct (ref_removable nw (t_dummy t) (t_nodes t) i j) eqn:RR; [|discriminate].
  unfold ref_remove in H. cbn [fst snd] in H. inversion H; subst. auto.
Qed.

Lemma len3_nondep l : connected nw l -> 3 <= length l -> exists x, In x l /\ dep x = false.
Proof.
  intros C L. destruct l as [|f [|g [|h r]]]; cbn [length] in L; try lia.
  exists g. split; [right; left; reflexivity|]. rewrite dep_split. apply orb_false_iff. split.
  - apply (cr_ends f g). apply C. left; reflexivity.
  - apply (cr_ends g h). apply C. right; left; reflexivity.
Qed.

Lemma cut_connected l i j :
  connected nw l -> (0 < i -> j + 1 < length l -> cr (nth (i - 1) l d0) (nth (j + 1) l d0) = true) ->
  i <= length l -> connected nw (firstn i l ++ skipn (j + 1) l).
Proof.
  intros C G L. apply connected_app. split; [apply connected_firstn; exact C|].
  split; [apply connected_skipn; exact C|]. intros N1 N2.
  apply firstn_nonempty in N1. destruct N1 as [N1 _]. apply skipn_nonempty in N2.
  rewrite last_firstn by lia. rewrite hd_skipn. apply G; assumption.
Qed.

Lemma TV_len3 t : TV t -> t_dummy t = false -> 3 <= length (t_nodes t).
Proof. unfold TV. intros H E. rewrite E in H. apply RV_length. exact H. Qed.

Lemma remove_valid t seg shr rp : TV t -> remove nw t seg = Ok (shr, rp) ->
  exists i j, pos_of (t_nodes t) (fst seg) = Some i /\ pos_of (t_nodes t) (snd seg) = Some j /\
    i <= j /\ j < length (t_nodes t) /\ rp = firstn (j + 1 - i) (skipn i (t_nodes t)) /\ valid_path nw rp /\
    match shr with
    | Some t' => t_dummy t' = t_dummy t /\ TV t' /\ t_nodes t' = firstn i (t_nodes t) ++ skipn (j + 1) (t_nodes t)
    | None => True
    end.
Proof.
  intros V H. destruct seg as [a b]. unfold remove in H.
  destruct (remove_nodes nw t (a, b)) as [[[[sp ep] tn] rm]| | |] eqn:RN; cbn [bind] in H; try discriminate H.
  tmon H. tmon H. tmon H. tmon H.
  destruct (path_new_trusted nw rm) as [rp'|] eqn:PT; [|discriminate H].
  apply path_new_trusted_some in PT. destruct PT as [-> FD].
  pose proof (TV_connected _ V) as C. pose proof (TV_nonempty _ V) as NE.
  apply (remove_nodes_facts t a b sp ep tn rm (TV_len3 t V) NE) in RN.
  destruct RN as (P1 & P2 & RR & -> & ->). set (l := t_nodes t) in *.
  apply ref_removable_facts in RR. destruct RR as (Lij & G & RD).
  pose proof (index_of_lt _ _ _ P1) as Li. pose proof (index_of_lt _ _ _ P2) as Lj.
  exists sp, ep. cbn [fst snd].
  assert (VP : valid_path nw (firstn (ep + 1 - sp) (skipn sp l))) by (apply slice_valid_path; assumption).
  destruct (Nat.eqb (length (firstn sp l ++ skipn (ep + 1) l)) 0 ||
            negb (t_dummy t) && Nat.leb (length (firstn sp l ++ skipn (ep + 1) l)) 2) eqn:K.
  - inversion H; subst. do 5 (split; [auto|]). split; [exact VP|exact I].
  - inversion H; subst. clear H. do 5 (split; [auto|]). split; [exact VP|].
    split; [reflexivity|]. split; [|reflexivity]. cbn [t_dummy t_nodes].
    apply orb_false_iff in K. destruct K as [K1 K2]. apply Nat.eqb_neq in K1.
    assert (CC : connected nw (firstn sp l ++ skipn (ep + 1) l)) by (apply cut_connected; auto; lia).
    unfold TV in *. cbn [t_dummy t_nodes]. destruct (t_dummy t) eqn:Dm.
    + destruct V as (_ & _ & ND). split; [|split; [exact CC|]].
      * intros Hn. rewrite Hn in K1. cbn in K1. lia.
      * intros z Hz. apply ND. eapply Sub_in; [apply (Sub_cut l sp (ep + 1)); lia | exact Hz].
    + cbn [negb andb] in K2. apply Nat.leb_gt in K2.
      destruct (RD eq_refl) as [R1 R2]. rewrite app_length, firstn_length, skipn_length in K2.
      assert (S1 : 1 <= sp) by lia. assert (S2 : ep + 1 < length l) by lia.
      destruct V as (_ & _ & Hs & He & _). change (t_nodes t) with l in Hs, He.
      split; [intros Hn; rewrite Hn in K1; cbn in K1; lia|]. split; [exact CC|]. split; [|split].
      * destruct l as [|f t0]; [congruence|]. destruct sp as [|k]; [lia|]. cbn [firstn app hd]. exact Hs.
      * rewrite last_app_ne.
        -- rewrite last_skipn by lia. exact He.
        -- intros Hn. apply (f_equal (@length node_id)) in Hn. rewrite skipn_length in Hn. simpl in Hn. lia.
      * apply len3_nondep; [exact CC|]. rewrite app_length, firstn_length, skipn_length. lia.
Qed.

Lemma remove_sub t seg t' rp : TV t -> remove nw t seg = Ok (Some t', rp) -> Sub (t_nodes t') (t_nodes t).
Proof.
  intros V H. destruct (remove_valid _ _ _ _ V H) as (i & j & _ & _ & L & _ & _ & _ & _ & _ & ->).
  apply Sub_cut. lia.
Qed.

(** ** replacing the depots *)
Lemma replace_start_depot_valid t sd t' : RV (t_nodes t) -> replace_start_depot nw t sd = Ok t' ->
  t_dummy t' = t_dummy t /\ RV (t_nodes t') /\ sdep sd = true /\
  forall z, In z (t_nodes t') -> z = sd \/ In z (t_nodes t).
Proof.
  intros R H. unfold replace_start_depot in H.
  destruct (t_dummy t) eqn:Dm; [discriminate|].
  destruct (negb (is_start_depot (nd nw sd))) eqn:SD0; [discriminate|].
  apply negb_false_iff in SD0.
  destruct (t_nodes t) as [|old [|fnd r]] eqn:EN; try discriminate.
  tmon H. tmon H. inversion H; subst; clear H. cbn [t_dummy t_nodes].
  destruct R as (_ & C & Hs & He & x & Hin & Dx).
  split; [auto|]. split; [|split; [exact SD0|]].
  - split; [discriminate|]. split; [|split; [exact SD0|split]].
    + apply connected_chain. apply chain_cons2. split.
      * apply cr_from_sdep; [exact SD0|]. apply (cr_ends old fnd). apply C. left; reflexivity.
      * apply connected_chain. eapply connected_tl; eauto.
    + exact He.
    + exists x. split; [|exact Dx]. destruct Hin as [<-|Hin]; [|right; exact Hin].
      cbn [hd] in Hs. rewrite dep_split in Dx. unfold sdep in *. rewrite Hs in Dx. discriminate.
  - intros z [<-|Hz]; [left; reflexivity|right; right; exact Hz].
Qed.

Lemma replace_end_depot_valid t ed t' : RV (t_nodes t) -> replace_end_depot nw t ed = Ok t' ->
  t_dummy t' = t_dummy t /\ RV (t_nodes t') /\ edep ed = true /\
  forall z, In z (t_nodes t') -> z = ed \/ In z (t_nodes t).
Proof.
  intros R H. unfold replace_end_depot in H.
  destruct (t_dummy t) eqn:Dm; [discriminate|].
  destruct (negb (is_end_depot (nd nw ed))) eqn:ED0; [discriminate|].
  apply negb_false_iff in ED0.
  destruct (Nat.ltb (length (t_nodes t)) 2); [discriminate|].
  tmon H. tmon H. inversion H; subst; clear H. cbn [t_dummy t_nodes].
  pose proof (RV_length _ R) as L3.
  destruct R as (NE & C & Hs & He & x & Hin & Dx).
  set (l := t_nodes t) in *. set (m := removelast l).
  assert (EL : l = m ++ [last l d0]) by (apply app_removelast_last; exact NE).
  assert (NM : m <> []).
  { intros Hm. rewrite Hm in EL. rewrite EL in L3. cbn in L3. lia. }
  rewrite EL in C. apply connected_app in C. destruct C as (C1 & _ & C3).
  specialize (C3 NM ltac:(discriminate)). cbn [hd] in C3.
  split; [auto|]. split; [|split; [exact ED0|]].
  - split; [intros Hn; apply app_eq_nil in Hn; destruct Hn; discriminate|].
    split; [|split; [|split]].
    + apply connected_app. split; [exact C1|]. split; [intros u v []|]. intros _ _. cbn [hd].
      apply cr_to_edep; [exact ED0|]. apply (cr_ends _ _ C3).
    + rewrite hd_app_ne by exact NM. rewrite EL in Hs. rewrite hd_app_ne in Hs by exact NM. exact Hs.
    + rewrite last_app_ne by discriminate. exact ED0.
    + exists x. split; [|exact Dx]. rewrite EL in Hin. apply in_app_or in Hin. apply in_or_app.
      destruct Hin as [Hin|[<-|[]]]; [left; exact Hin|].
      rewrite dep_split in Dx. unfold edep in *. rewrite He, orb_true_r in Dx. discriminate.
  - intros z Hz. apply in_app_or in Hz. destruct Hz as [Hz|[<-|[]]]; [right|left; reflexivity].
    apply in_removelast. exact Hz.
Qed.

(** ** sub_path returns a contiguous slice *)
Lemma sub_path_slice t seg sp : sub_path nw t seg = Ok sp ->
  exists i j, i <= j /\ j < length (t_nodes t) /\ sp = firstn (j + 1 - i) (skipn i (t_nodes t)) /\
    latest_not_reaching_node_l nw (t_nodes t) (fst seg) = Ok (Some i) /\
    latest_not_reaching_node_l nw (t_nodes t) (snd seg) = Ok (Some j) /\
    forallb dep sp = false.
Proof.
  intros H. unfold sub_path in H. tmon H. destruct a as [i|]; [|discriminate].
  destruct (negb (nid_eqb (fst seg) (nth i (t_nodes t) d0))); [discriminate|].
  tmon H. destruct a as [j|]; [|discriminate].
  destruct (negb (nid_eqb (snd seg) (nth j (t_nodes t) d0))); [discriminate|].
  destruct (Nat.ltb j i) eqn:Lt; [discriminate|]. apply Nat.ltb_ge in Lt.
  tmon H. unfold slice_res in E1.
  destruct (Nat.leb i (j + 1) && Nat.leb (j + 1) (length (t_nodes t))) eqn:B; [|discriminate].
  apply andb_true_iff in B. destruct B as [_ B]. apply Nat.leb_le in B.
  inversion E1; subst a; clear E1. unfold slice in H.
  destruct (path_new_trusted nw (firstn (j + 1 - i) (skipn i (t_nodes t)))) as [q|] eqn:PT; [|discriminate].
  apply path_new_trusted_some in PT. destruct PT as [-> FD]. inversion H; subst sp.
  exists i, j. repeat split; auto. lia.
Qed.

Lemma sub_path_valid t seg sp : connected nw (t_nodes t) -> sub_path nw t seg = Ok sp ->
  valid_path nw sp /\ exists i n, sp = firstn n (skipn i (t_nodes t)).
Proof.
  intros C H. destruct (sub_path_slice _ _ _ H) as (i & j & _ & _ & -> & _ & _ & FD).
  split; [apply slice_valid_path; assumption|]. eexists _, _. reflexivity.
Qed.

(** ** dummy tours made from a removed path (Tour::new_dummy drops the depots only, since the repair
       "fix: Tour::new_dummy must keep maintenance nodes") *)
Notation nondepb := (fun n => negb (node_is_depot nw n)).

Lemma tour_new_dummy_nodes path dt : tour_new_dummy nw path = Ok dt ->
  t_nodes dt = filter nondepb path /\ t_dummy dt = true /\ t_nodes dt <> [].
Proof.
  unfold tour_new_dummy. destruct (existsb (node_is_service nw) (filter nondepb path)) eqn:E; [|discriminate].
  intros H. inversion H; subst. cbn [new_computing t_nodes t_dummy]. repeat split; auto.
  intros N. rewrite N in E. discriminate.
Qed.

(* a start depot can only be the first and an end depot only the last node of a connected list, so dropping the
   depots keeps it connected *)
Lemma reach_first_kept r : forall a b r', connected nw (a :: r) ->
  filter nondepb r = b :: r' -> cr a b = true.
Proof.
  induction r as [|x r IH]; intros a b r' C F; [discriminate|].
  assert (Cax : cr a x = true) by (apply C; left; reflexivity).
  cbn [filter] in F. destruct (dep x) eqn:Dx; cbn [negb] in F.
  - pose proof (IH x b r' (connected_tl nw _ _ C) F) as Cxb.
    exfalso. rewrite dep_split in Dx. apply orb_true_iff in Dx.
    destruct (cr_ends _ _ Cax) as [Q1 _]. destruct (cr_ends _ _ Cxb) as [_ Q2]. destruct Dx; congruence.
  - inversion F; subst. exact Cax.
Qed.

Lemma filter_nondep_connected l : connected nw l -> connected nw (filter nondepb l).
Proof.
  induction l as [|a l IH]; intros C; [intros x y []|].
  specialize (IH (connected_tl nw _ _ C)). cbn [filter].
  destruct (negb (dep a)); [|exact IH].
  destruct (filter nondepb l) as [|b r'] eqn:F; [intros x y []|].
  apply connected_chain. apply chain_cons2. split; [|apply connected_chain; exact IH].
  eapply reach_first_kept; eauto.
Qed.

Lemma tour_new_dummy_valid path dt : connected nw path -> tour_new_dummy nw path = Ok dt ->
  t_dummy dt = true /\ DV (t_nodes dt).
Proof.
  intros C H. destruct (tour_new_dummy_nodes _ _ H) as (EN & D & NE). split; [exact D|].
  split; [exact NE|]. rewrite EN. split; [apply filter_nondep_connected; exact C|].
  intros z Hz. apply filter_In in Hz. destruct Hz as [_ Hz]. apply negb_true_iff in Hz. exact Hz.
Qed.

(** * Facts that need a well-formed network with positive activity durations *)
Hypothesis WF : net_wf_b nw = true.
Hypothesis DP : durations_pos_b nw = true.

Lemma connected_chrono l : connected nw l -> chrono nw l.
Proof.
  intros C. split; [intros n _; apply st_le_en; exact DP|].
  intros a b Hin. apply (can_reach_le nw WF). apply C. exact Hin.
Qed.

Lemma connected_ordered l i j : connected nw l -> i < j -> j < length l ->
  dt_leb (end_time nw (nth i l d0)) (start_time nw (nth j l d0)) = true.
Proof.
  intros C Lij Lj. pose proof (connected_chrono _ C) as CH. destruct j as [|j]; [lia|].
  destruct (ch_mono nw DP l CH j ltac:(lia) i ltac:(lia)) as [M _].
  eapply dt_leb_trans; [exact M|]. apply (ch_step nw l CH). exact Lj.
Qed.

Lemma connected_nodup l : connected nw l -> NoDup l.
Proof.
  induction l as [|a r IH]; intros C; [constructor|]. constructor; [|apply IH; eapply connected_tl; eauto].
  intros Hin. pose proof (conn_tl_no_sdep r a a C Hin) as NS.
  destruct r as [|b r]; [destruct Hin|].
  assert (NE : edep a = false) by (apply (cr_ends a b); apply C; left; reflexivity).
  destruct (In_nth _ _ d0 Hin) as (k & Lk & Ek).
  pose proof (connected_ordered (a :: b :: r) 0 (S k) C ltac:(lia) ltac:(cbn [length] in *; lia)) as O.
  change (nth (S k) (a :: b :: r) d0) with (nth k (b :: r) d0) in O.
  change (nth 0 (a :: b :: r) d0) with a in O. rewrite Ek in O.
  destruct (dur_pos nw DP a) as [D|D].
  - change (is_depot (nd nw a)) with (dep a) in D. rewrite dep_split, NS, NE in D. discriminate.
  - rewrite dt_ltb_leb, O in D. discriminate.
Qed.

(** ** insert_path keeps validity *)
Lemma insert_path_valid t p t' r : TV t -> valid_path nw p -> insert_path nw t p = Ok (t', r) ->
  t_dummy t' = t_dummy t /\ TV t' /\
  (forall z, In z (t_nodes t') -> In z (t_nodes t) \/ In z p) /\
  (forall rp, r = Some rp -> connected nw rp).
Proof.
  intros V VP H. pose proof (TV_connected _ V) as C. pose proof (TV_nonempty _ V) as NE.
  destruct (insert_path_nodes _ _ _ _ _ H) as (sp & ep & removed & p1 & IN & Er & Ed).
  destruct (insert_nodes_ref_at nw WF DP (t_dummy t) (t_nodes t) p NE (connected_chrono _ C) VP)
    as (sp' & ep' & p1' & IN').
  rewrite IN in IN'. injection IN' as _ _ Q1 Q2 _.
  split; [exact Ed|]. split; [|split].
  - unfold TV in *. rewrite Ed, Q1. destruct (t_dummy t).
    + apply ref_insert_dummy; assumption.
    + apply ref_insert_real; assumption.
  - intros z Hz. rewrite Q1 in Hz. eapply ref_insert_incl'. exact Hz.
  - intros rp Hr. rewrite Er in Hr. apply path_new_trusted_some in Hr. destruct Hr as [-> _].
    rewrite Q2. apply ref_insert_removed_connected. exact C.
Qed.

(** ** the sub-path of a segment is what remove takes out *)
Lemma sub_path_is_removed t seg sp shr rp : TV t ->
  sub_path nw t seg = Ok sp -> remove nw t seg = Ok (shr, rp) -> sp = rp.
Proof.
  intros V HS HR. pose proof (TV_connected _ V) as C. pose proof (connected_chrono _ C) as CH.
  destruct (sub_path_slice _ _ _ HS) as (i & j & _ & _ & -> & L1 & L2 & _).
  destruct (remove_valid _ _ _ _ V HR) as (i' & j' & P1 & P2 & _ & _ & -> & _).
  destruct (index_of_spec _ _ _ P1) as (x & X1 & X2). apply nid_eqb_eq in X2. subst x.
  destruct (index_of_spec _ _ _ P2) as (y & Y1 & Y2). apply nid_eqb_eq in Y2. subst y.
  rewrite (lnr_self nw WF DP _ i' _ CH C X1) in L1. rewrite (lnr_self nw WF DP _ j' _ CH C Y1) in L2.
  inversion L1; inversion L2; subst. reflexivity.
Qed.
End Valid.

Print Assumptions valid_tour_nodes_RV.
Print Assumptions insert_path_valid.
Print Assumptions remove_valid.
Print Assumptions replace_start_depot_valid.
Print Assumptions replace_end_depot_valid.
Print Assumptions sub_path_is_removed.
Print Assumptions tour_new_dummy_valid.
Print Assumptions connected_nodup.
