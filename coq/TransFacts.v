From Coq Require Import Permutation.
From RS Require Import Base BaseFacts Network Transition TransSpec TransStmts.
(* TransFacts.v — C15: proofs of the statements of TransStmts.v (rotation-cycle bookkeeping keeps [TInv]). *)

(** * Generic list lemmas *)
Lemma nodup_app {A} (l1 l2 : list A) :
  NoDup (l1 ++ l2) <-> NoDup l1 /\ NoDup l2 /\ (forall x, In x l1 -> ~ In x l2).
Proof.
  induction l1 as [|a l1 IH]; cbn.
  - split; [intros H; repeat split; auto; constructor | tauto].
  - split.
    + intros H; inversion H as [|? ? Hn Hd]; subst. apply IH in Hd as (H1 & H2 & H3).
      rewrite in_app_iff in Hn. repeat split; auto.
      * constructor; tauto.
      * intros x [<-|Hx]; [tauto | auto].
    + intros (H1 & H2 & H3). inversion H1; subst. constructor.
      * rewrite in_app_iff. intros [?|?]; [tauto | eapply H3; eauto].
      * apply IH. repeat split; auto.
Qed.

Lemma set_nth_split {A} k (x old : A) l : nth_error l k = Some old ->
  exists l1 l2, l = l1 ++ old :: l2 /\ length l1 = k /\ set_nth k x l = l1 ++ x :: l2.
Proof.
  revert k; induction l as [|y l IH]; intros [|k] H; cbn in H; try discriminate.
  - inversion H; subst. exists [], l. auto.
  - destruct (IH _ H) as (l1 & l2 & E1 & E2 & E3). exists (y :: l1), l2. cbn. rewrite E3, E2. subst l. auto.
Qed.

Lemma nth_error_mid_eq {A} (l1 l2 : list A) x : nth_error (l1 ++ x :: l2) (length l1) = Some x.
Proof. induction l1; cbn; auto. Qed.

Lemma nth_error_mid_neq {A} (l1 l2 : list A) x y k :
  k <> length l1 -> nth_error (l1 ++ x :: l2) k = nth_error (l1 ++ y :: l2) k.
Proof.
  revert k; induction l1 as [|a l1 IH]; intros [|k] H; cbn in *; auto; try congruence.
Qed.

Lemma members_split (l1 l2 : list (list vehicle_id * Z)) c :
  concat (map fst (l1 ++ c :: l2)) = concat (map fst l1) ++ fst c ++ concat (map fst l2).
Proof. rewrite map_app, concat_app. reflexivity. Qed.

Lemma in_cycle_members (cycles : list (list vehicle_id * Z)) k c x :
  nth_error cycles k = Some c -> In x (fst c) -> In x (concat (map fst cycles)).
Proof.
  intros H Hx. apply in_concat. exists (fst c). split; auto. apply in_map. eapply nth_error_In; eauto.
Qed.

Lemma z_sum_mid (f : (list vehicle_id * Z) -> Z) l1 l2 c :
  z_sum (map f (l1 ++ c :: l2)) = z_sum (map f l1) + f c + z_sum (map f l2).
Proof. rewrite map_app, z_sum_app. cbn [map]. rewrite z_sum_cons. lia. Qed.

(** lookup table *)
Lemma assoc_filter_neq x v (l : list (vehicle_id * nat)) : vid_eqb x v = false ->
  assoc vid_eqb x (filter (fun '(y, _) => negb (vid_eqb y v)) l) = assoc vid_eqb x l.
Proof.
  intros H. induction l as [|[y n] l IH]; cbn; auto.
  destruct (vid_eqb y v) eqn:E; cbn.
  - apply vid_eqb_eq in E; subst y. rewrite H. auto.
  - rewrite IH. auto.
Qed.

Lemma assoc_filter_eq v (l : list (vehicle_id * nat)) :
  assoc vid_eqb v (filter (fun '(y, _) => negb (vid_eqb y v)) l) = None.
Proof.
  induction l as [|[y n] l IH]; cbn; auto.
  destruct (vid_eqb y v) eqn:E; cbn; auto.
  assert (vid_eqb v y = false) as ->; auto.
  apply vid_eqb_neq. apply vid_eqb_neq in E. congruence.
Qed.

Lemma lookup_get_set x v k l :
  lookup_get x (lookup_set v k l) = if vid_eqb x v then Some k else lookup_get x l.
Proof.
  unfold lookup_get, lookup_set. cbn [assoc]. destruct (vid_eqb x v) eqn:E; auto.
  apply assoc_filter_neq; auto.
Qed.

Lemma lookup_get_remove x v l :
  lookup_get x (lookup_remove v l) = if vid_eqb x v then None else lookup_get x l.
Proof.
  unfold lookup_get, lookup_remove. destruct (vid_eqb x v) eqn:E.
  - apply vid_eqb_eq in E; subst. apply assoc_filter_eq.
  - apply assoc_filter_neq; auto.
Qed.

Section Facts.
Variable nw : network.

(** * The master lemma: one cycle replaced *)
Lemma windows_in {A} (l : list A) a b : In (a, b) (windows l) -> In a l /\ In b l.
Proof.
  induction l as [|x [|y r] IH]; cbn [windows]; [intros [] | intros [] |].
  intros [E|H]; [inversion E; subst; cbn; auto|].
  destruct (IH H) as [H1 H2]. split; right; auto.
Qed.

Lemma cyc_pairs_in (l : list vehicle_id) a b : In (a, b) (cyc_pairs l) -> In a l /\ In b l.
Proof.
  unfold cyc_pairs. destruct l as [|f r]; [intros []|]. intros H. apply windows_in in H.
  destruct H as [H1 H2]. rewrite in_app_iff in H1, H2. cbn in *. intuition.
Qed.

Lemma cycle_counter_ext (f g : tours_fn) l : (forall x, In x l -> f x = g x) ->
  cycle_counter nw f l = cycle_counter nw g l.
Proof.
  intros H. unfold cycle_counter. f_equal; f_equal.
  - apply map_ext_in. intros x Hx. unfold mc_of_v. rewrite (H x Hx). auto.
  - apply map_ext_in. intros [a b] Hab. apply cyc_pairs_in in Hab. destruct Hab as [Ha Hb].
    unfold ed_of_v, sd_of_v. rewrite (H a Ha), (H b Hb). auto.
Qed.

Lemma master tours tours' m m' t t' k oldc newc :
  TInv nw tours m t ->
  nth_error (tr_cycles t) k = Some oldc ->
  tr_cycles t' = set_nth k newc (tr_cycles t) ->
  tr_viol t' = tr_viol t + Z.max 0 (snd newc) - Z.max 0 (snd oldc) ->
  tr_count t' = tr_count t + snd newc - snd oldc ->
  NoDup (fst newc) ->
  (forall x, In x (fst newc) -> In x (fst oldc) \/ ~ In x m) ->
  (forall x, In x m' <-> (In x m /\ ~ In x (fst oldc)) \/ In x (fst newc)) ->
  (forall x k', lookup_get x (tr_lookup t') = Some k' <->
      (In x (fst newc) /\ k' = k) \/
      (~ In x (fst newc) /\ ~ In x (fst oldc) /\ lookup_get x (tr_lookup t) = Some k')) ->
  NoDup (tr_empty t') ->
  (In k (tr_empty t') <-> fst newc = []) ->
  (forall k', k' <> k -> (In k' (tr_empty t') <-> In k' (tr_empty t))) ->
  (forall x, ~ In x (fst oldc) -> tours' x = tours x) ->
  snd newc = cycle_counter nw tours' (fst newc) ->
  TInv nw tours' m' t'.
Proof.
  intros I Hk Hc Hv Hn Hnd Hnew Hm Hl Hend Hek Heo Ht Hcnt.
  destruct (set_nth_split k newc oldc _ Hk) as (l1 & l2 & E1 & E2 & E3).
  rewrite E3 in Hc. clear E3.
  destruct I as [I1 I2 I3 I4 I5 I6 I7 I8].
  unfold members_of in *. rewrite E1 in *.
  rewrite members_split in I1, I2.
  set (A := concat (map fst l1)) in *. set (B := concat (map fst l2)) in *.
  (* uniqueness of the cycle of a vehicle *)
  assert (U : forall x k1 c1, nth_error (l1 ++ oldc :: l2) k1 = Some c1 -> In x (fst c1) ->
                              In x (fst oldc) -> k1 = k).
  { intros x k1 c1 H1 H2 H3.
    assert (G1 : lookup_get x (tr_lookup t) = Some k1) by (apply I3; eauto).
    assert (G2 : lookup_get x (tr_lookup t) = Some k) by (apply I3; eauto).
    congruence. }
  assert (K' : nth_error (l1 ++ newc :: l2) k = Some newc) by (rewrite <- E2; apply nth_error_mid_eq).
  assert (Ko : forall k1, k1 <> k -> nth_error (l1 ++ newc :: l2) k1 = nth_error (l1 ++ oldc :: l2) k1).
  { intros k1 H. apply nth_error_mid_neq. congruence. }
  assert (MA : forall x, In x m <-> In x A \/ In x (fst oldc) \/ In x B).
  { intros x. rewrite <- I2, !in_app_iff. tauto. }
  apply nodup_app in I1 as (NA & NoB & DA).
  apply nodup_app in NoB as (No & NB & DB).
  constructor; unfold members_of; rewrite ?Hc, ?members_split; fold A; fold B.
  - apply nodup_app. split; [auto|]. split.
    + apply nodup_app. split; [auto|]. split; [auto|].
      intros x Hx HB. destruct (Hnew x Hx) as [H|H].
      * eapply DB; eauto.
      * apply H, MA. auto.
    + intros x Hx. rewrite in_app_iff. intros [H|H].
      * destruct (Hnew x H) as [H'|H'].
        -- eapply DA; eauto. rewrite in_app_iff; auto.
        -- apply H', MA. auto.
      * eapply DA; eauto. rewrite in_app_iff; auto.
  - intros x. rewrite Hm, MA, !in_app_iff. split.
    + intros [H|[H|H]]; auto.
      * left. split; auto. intros H'. eapply DA; eauto. rewrite in_app_iff; auto.
      * left. split; auto. intros H'. eapply DB; eauto.
    + tauto.
  - intros x k1. rewrite Hl. split.
    + intros [[H1 ->]|(H1 & H2 & H3)]; [eauto|].
      apply I3 in H3 as (c & Hc1 & Hc2). exists c. split; auto.
      rewrite Ko; auto. intros ->. rewrite Hk in Hc1. inversion Hc1; subst. auto.
    + intros (c & Hc1 & Hc2). destruct (Nat.eq_dec k1 k) as [->|Hne].
      * rewrite K' in Hc1. inversion Hc1; subst. auto.
      * rewrite Ko in Hc1; auto. right.
        assert (Hno : ~ In x (fst oldc)) by (intros H; apply Hne; eapply U; eauto).
        split; [|split; auto].
        -- intros H. destruct (Hnew x H) as [H'|H']; [auto|].
           apply H'. apply I2. unfold A, B. rewrite <- members_split. eapply in_cycle_members; eauto.
        -- apply I3; eauto.
  - auto.
  - intros k1. destruct (Nat.eq_dec k1 k) as [->|Hne].
    + rewrite Hek. split; [eauto|]. intros (c & Hc1 & Hc2). rewrite K' in Hc1. inversion Hc1; subst; auto.
    + rewrite Heo, I5, Ko; tauto.
  - intros k1 c Hc1. destruct (Nat.eq_dec k1 k) as [->|Hne].
    + rewrite K' in Hc1. inversion Hc1; subst; auto.
    + rewrite Ko in Hc1; auto. rewrite (I6 _ _ Hc1). symmetry. apply cycle_counter_ext.
      intros x Hx. apply Ht. intros H. apply Hne. eapply U; eauto.
  - rewrite Hv, I7, !z_sum_mid. lia.
  - rewrite Hn, I8, !z_sum_mid. lia.
Qed.

(** * Consequences of the invariant for one cycle *)
Lemma nodup_concat_in {A} (ll : list (list A)) l : NoDup (concat ll) -> In l ll -> NoDup l.
Proof.
  induction ll as [|a ll IH]; cbn; [tauto|]. intros H [->|H']; apply nodup_app in H; tauto.
Qed.

Lemma inv_cycle_nodup tours m t k c :
  TInv nw tours m t -> nth_error (tr_cycles t) k = Some c -> NoDup (fst c).
Proof.
  intros I H. eapply nodup_concat_in; [apply (ti_nodup _ _ _ _ I)|]. apply in_map. eapply nth_error_In; eauto.
Qed.

Lemma inv_cycle_in tours m t k c x :
  TInv nw tours m t -> nth_error (tr_cycles t) k = Some c -> In x (fst c) -> In x m.
Proof. intros I H Hx. apply (ti_members _ _ _ _ I). eapply in_cycle_members; eauto. Qed.

Lemma inv_empty_k tours m t k c :
  TInv nw tours m t -> nth_error (tr_cycles t) k = Some c -> (In k (tr_empty t) <-> fst c = []).
Proof.
  intros I H. rewrite (ti_empty _ _ _ _ I). split; [|eauto].
  intros (c' & H1 & H2). congruence.
Qed.

Lemma inv_lookup_k tours m t k c x :
  TInv nw tours m t -> nth_error (tr_cycles t) k = Some c -> In x (fst c) ->
  lookup_get x (tr_lookup t) = Some k.
Proof. intros I H Hx. apply (ti_lookup _ _ _ _ I). eauto. Qed.

Lemma lookup_cond_same tours m t k oldc (newl : list vehicle_id) :
  TInv nw tours m t -> nth_error (tr_cycles t) k = Some oldc ->
  (forall x, In x newl <-> In x (fst oldc)) ->
  forall x k', lookup_get x (tr_lookup t) = Some k' <->
      (In x newl /\ k' = k) \/ (~ In x newl /\ ~ In x (fst oldc) /\ lookup_get x (tr_lookup t) = Some k').
Proof.
  intros I Hk Hs x k'. split.
  - intros H. destruct (in_dec vid_eq_dec x (fst oldc)) as [Hi|Hi].
    + left. split; [apply Hs; auto|]. rewrite (inv_lookup_k _ _ _ _ _ _ I Hk Hi) in H. congruence.
    + right. rewrite Hs. auto.
  - intros [[H ->]|(_ & _ & H)]; auto. apply Hs in H. eapply inv_lookup_k; eauto.
Qed.

Lemma lookup_cond_set tours m t k oldc (newl : list vehicle_id) v :
  TInv nw tours m t -> nth_error (tr_cycles t) k = Some oldc ->
  (forall x, In x newl <-> In x (fst oldc) \/ x = v) ->
  forall x k', lookup_get x (lookup_set v k (tr_lookup t)) = Some k' <->
      (In x newl /\ k' = k) \/ (~ In x newl /\ ~ In x (fst oldc) /\ lookup_get x (tr_lookup t) = Some k').
Proof.
  intros I Hk Hs x k'. rewrite lookup_get_set. destruct (vid_eqb x v) eqn:E.
  - apply vid_eqb_eq in E. subst x. split.
    + intros H. left. split; [apply Hs; auto | congruence].
    + intros [[_ ->]|(H & _)]; auto. exfalso. apply H, Hs. auto.
  - apply vid_eqb_neq in E. split.
    + intros H. destruct (in_dec vid_eq_dec x (fst oldc)) as [Hi|Hi].
      * left. split; [apply Hs; auto|]. rewrite (inv_lookup_k _ _ _ _ _ _ I Hk Hi) in H. congruence.
      * right. rewrite Hs. tauto.
    + intros [[H ->]|(_ & _ & H)]; auto. apply Hs in H. destruct H as [H|H]; [|contradiction].
      eapply inv_lookup_k; eauto.
Qed.

(** * Counters *)
Definition dv : vehicle_id := Veh 0.
Definition T (tours : tours_fn) a b := transfer_m nw (ed_of_v tours a) (sd_of_v tours b).
Definition psum tours (l : list vehicle_id) := z_sum (map (fun '(a, b) => T tours a b) (windows l)).
Definition msum tours (l : list vehicle_id) := z_sum (map (mc_of_v tours) l).
Definition cycp tours (l : list vehicle_id) := z_sum (map (fun '(a, b) => T tours a b) (cyc_pairs l)).

Lemma cc_eq tours l : cycle_counter nw tours l = msum tours l + cycp tours l.
Proof. reflexivity. Qed.

Lemma last_indep {A} (l : list A) d d' : l <> [] -> last l d = last l d'.
Proof.
  intros H. destruct (exists_last H) as (l' & z & ->). now rewrite !last_last.
Qed.
Lemma last_app_ne {A} (X Y : list A) d : Y <> [] -> last (X ++ Y) d = last Y d.
Proof.
  intros H. destruct (exists_last H) as (l' & z & ->). now rewrite app_assoc, !last_last.
Qed.
Lemma hd_app_ne {A} (X Y : list A) d : X <> [] -> hd d (X ++ Y) = hd d X.
Proof. destruct X; cbn; congruence. Qed.

Lemma windows_app {A} (l1 l2 : list A) a : windows (l1 ++ a :: l2) = windows (l1 ++ [a]) ++ windows (a :: l2).
Proof.
  induction l1 as [|x l1 IH]; [reflexivity|].
  destruct l1 as [|y r]; [reflexivity|].
  change (windows ((x :: y :: r) ++ a :: l2)) with ((x, y) :: windows ((y :: r) ++ a :: l2)).
  rewrite IH. reflexivity.
Qed.

Lemma msum_app tours l1 l2 : msum tours (l1 ++ l2) = msum tours l1 + msum tours l2.
Proof. unfold msum. now rewrite map_app, z_sum_app. Qed.
Lemma msum_cons tours a l : msum tours (a :: l) = mc_of_v tours a + msum tours l.
Proof. unfold msum. cbn [map]. now rewrite z_sum_cons. Qed.
Lemma msum_nil tours : msum tours [] = 0.
Proof. reflexivity. Qed.

Lemma psum_mid tours l1 l2 a : psum tours (l1 ++ a :: l2) = psum tours (l1 ++ [a]) + psum tours (a :: l2).
Proof. unfold psum. now rewrite windows_app, map_app, z_sum_app. Qed.
Lemma psum_two tours a b : psum tours [a; b] = T tours a b.
Proof. unfold psum. cbn [windows map]. rewrite z_sum_cons. change (z_sum []) with 0. lia. Qed.
Lemma psum_one tours a : psum tours [a] = 0.
Proof. reflexivity. Qed.
Lemma psum_nil tours : psum tours [] = 0.
Proof. reflexivity. Qed.
Lemma psum_snoc tours l y : l <> [] -> psum tours (l ++ [y]) = psum tours l + T tours (last l dv) y.
Proof.
  intros H. destruct (exists_last H) as (l' & z & ->).
  rewrite <- app_assoc. cbn [app]. rewrite psum_mid, psum_two, last_last. lia.
Qed.
Lemma psum_app tours X Y : X <> [] -> Y <> [] ->
  psum tours (X ++ Y) = psum tours X + T tours (last X dv) (hd dv Y) + psum tours Y.
Proof.
  intros HX HY. destruct Y as [|y Y]; [congruence|]. rewrite psum_mid, psum_snoc; auto.
Qed.
Lemma cycp_nil tours : cycp tours [] = 0.
Proof. reflexivity. Qed.
Lemma cycp_ne tours l : l <> [] -> cycp tours l = psum tours l + T tours (last l dv) (hd dv l).
Proof.
  intros H. destruct l as [|f r]; [congruence|].
  change (cycp tours (f :: r)) with (psum tours ((f :: r) ++ [f])). rewrite psum_snoc; auto.
Qed.
Lemma cycp_rot tours l1 l2 : cycp tours (l1 ++ l2) = cycp tours (l2 ++ l1).
Proof.
  destruct l1 as [|a l1]; [now rewrite app_nil_r|].
  destruct l2 as [|b l2]; [now rewrite app_nil_r|].
  rewrite !cycp_ne by (cbn; congruence).
  rewrite !psum_app by congruence.
  rewrite !last_app_ne by congruence. rewrite !hd_app_ne by congruence. lia.
Qed.
Lemma cycp_one tours v : cycp tours [v] = T tours v v.
Proof. rewrite cycp_ne by congruence. cbn [last hd]. rewrite psum_one. lia. Qed.
(* v followed by a non-empty rest *)
Lemma cycp_cons tours v R : R <> [] ->
  cycp tours (v :: R) = T tours v (hd dv R) + psum tours R + T tours (last R dv) v.
Proof.
  intros H. rewrite cycp_ne by congruence. change (v :: R) with ([v] ++ R).
  rewrite psum_app by congruence. rewrite last_app_ne by auto. cbn [last hd app]. rewrite psum_one. lia.
Qed.

Lemma msum_ext f g l : (forall x, In x l -> f x = g x) -> msum f l = msum g l.
Proof. intros H. unfold msum. f_equal. apply map_ext_in. intros x Hx. unfold mc_of_v. now rewrite H. Qed.
Lemma psum_ext f g l : (forall x, In x l -> f x = g x) -> psum f l = psum g l.
Proof.
  intros H. unfold psum. f_equal. apply map_ext_in. intros [a b] Hab. apply windows_in in Hab.
  unfold T, ed_of_v, sd_of_v. destruct Hab as [Ha Hb]. now rewrite (H a Ha), (H b Hb).
Qed.

End Facts.

(** * The theorems *)
Theorem three_opt_indices_ok : stmt_three_opt_indices_ok.
Proof.
  intros n i j k H. unfold three_opt_indices in H.
  apply in_flat_map in H as (i' & Hi & H).
  apply in_flat_map in H as (j' & Hj & H).
  apply in_map_iff in H as (k' & E & Hk). inversion E; subst.
  apply in_seq in Hi, Hj, Hk. lia.
Qed.
Print Assumptions three_opt_indices_ok.

Theorem empty_inv : stmt_empty_inv.
Proof.
  intros nw tours. constructor; cbn.
  - constructor.
  - tauto.
  - intros v k. split; [discriminate|]. intros (c & H & _). destruct k; discriminate.
  - constructor.
  - intros k; split; [tauto|]. intros (c & H & _). destruct k; discriminate.
  - intros k c H. destruct k; discriminate.
  - reflexivity.
  - reflexivity.
Qed.
Print Assumptions empty_inv.

Theorem replace_cycle_inv : stmt_replace_cycle_inv.
Proof.
  intros nw tours m t k oldc newc t' I Hk HP Hc H.
  unfold replace_cycle in H. rewrite Hk in H. cbn [unwrap_opt bind] in H. inversion H; subst t'; clear H.
  assert (Hs : forall x, In x (fst newc) <-> In x (fst oldc)).
  { intros x; split; apply Permutation_in; auto. now apply Permutation_sym. }
  eapply (master nw tours tours m m t _ k oldc newc); cbn; eauto.
  - eapply Permutation_NoDup; [apply Permutation_sym; eauto|]. eapply inv_cycle_nodup; eauto.
  - intros x Hx. left. now apply Hs.
  - intros x. rewrite Hs. split.
    + intros Hx. destruct (in_dec vid_eq_dec x (fst oldc)); auto.
    + intros [[Hx _]|Hx]; auto. eapply inv_cycle_in; eauto.
  - eapply lookup_cond_same; eauto.
  - apply (ti_empty_nodup _ _ _ _ I).
  - rewrite (inv_empty_k _ _ _ _ _ _ I Hk). split; intros E.
    + rewrite E in HP. apply Permutation_sym in HP. now apply Permutation_nil in HP.
    + rewrite E in HP. now apply Permutation_nil in HP.
  - tauto.
Qed.
Print Assumptions replace_cycle_inv.

Lemma nth_error_snoc {A} (l : list A) x k c :
  nth_error (l ++ [x]) k = Some c <-> nth_error l k = Some c \/ (k = length l /\ c = x).
Proof.
  destruct (lt_dec k (length l)) as [Hlt|Hge].
  - rewrite nth_error_app1 by auto. split; auto. intros [H|[H _]]; auto. lia.
  - rewrite nth_error_app2 by lia. split.
    + destruct (k - length l)%nat as [|[|n]] eqn:E; cbn; try discriminate.
      intros H; inversion H; subst. right. split; auto. lia.
    + intros [H|[-> ->]].
      * assert (nth_error l k <> None) by congruence. apply nth_error_Some in H0. lia.
      * now rewrite Nat.sub_diag.
Qed.

Theorem add_own_inv : stmt_add_own_inv.
Proof.
  intros nw tours m t v i t' I Hv Hi H.
  unfold add_vehicle_to_own_cycle in H.
  assert (Hm1 : vi_mc i + transfer_m nw (vi_ed i) (vi_sd i) = cycle_counter nw tours [v]).
  { rewrite cc_eq, cycp_one, msum_cons, msum_nil. unfold T, mc_of_v, ed_of_v, sd_of_v. rewrite Hi. lia. }
  set (mm := vi_mc i + transfer_m nw (vi_ed i) (vi_sd i)) in *.
  destruct (rev (tr_empty t)) as [|k rest] eqn:Er.
  - assert (Ee : tr_empty t = []) by (rewrite <- (rev_involutive (tr_empty t)), Er; reflexivity).
    inversion H; subst t'; clear H.
    destruct I as [I1 I2 I3 I4 I5 I6 I7 I8].
    constructor; unfold members_of in *; cbn [tr_cycles tr_viol tr_count tr_lookup tr_empty].
    + rewrite map_app, concat_app. cbn [map concat fst]. rewrite app_nil_r. apply nodup_app.
      split; auto. split; [repeat constructor; cbn; tauto|]. intros x Hx [<-|[]]. apply Hv, I2; auto.
    + intros x. rewrite map_app, concat_app. cbn [map concat fst]. rewrite app_nil_r, !in_app_iff, I2. tauto.
    + intros x k. rewrite lookup_get_set. destruct (vid_eqb x v) eqn:E.
      * apply vid_eqb_eq in E; subst x. split.
        -- intros E; inversion E; subst. exists ([v], mm). split; [|cbn; auto].
           apply nth_error_snoc. auto.
        -- intros (c & Hc1 & Hc2). apply nth_error_snoc in Hc1 as [Hc1|[-> _]]; auto.
           exfalso. apply Hv, I2. eapply in_cycle_members; eauto.
      * apply vid_eqb_neq in E. rewrite I3. split; intros (c & Hc1 & Hc2).
        -- exists c. split; auto. apply nth_error_snoc. auto.
        -- apply nth_error_snoc in Hc1 as [Hc1|[_ ->]]; eauto.
           cbn in Hc2. destruct Hc2 as [->|[]]. congruence.
    + constructor.
    + intros k. split; [intros []|]. intros (c & Hc1 & Hc2).
      apply nth_error_snoc in Hc1 as [Hc1|[_ ->]]; [|discriminate].
      assert (Hin : In k (tr_empty t)) by (apply I5; eauto). rewrite Ee in Hin. auto.
    + intros k c Hc1. apply nth_error_snoc in Hc1 as [Hc1|[_ ->]]; eauto.
    + rewrite I7, map_app, z_sum_app. cbn [map snd]. rewrite z_sum_cons. change (z_sum []) with 0. lia.
    + rewrite I8, map_app, z_sum_app. cbn [map snd]. rewrite z_sum_cons. change (z_sum []) with 0. lia.
  - assert (Ee : tr_empty t = rev rest ++ [k]) by (rewrite <- (rev_involutive (tr_empty t)), Er; reflexivity).
    destruct (Nat.ltb k (length (tr_cycles t))) eqn:Elt; [|discriminate]. inversion H; subst t'; clear H.
    assert (Hin : In k (tr_empty t)) by (rewrite Ee, in_app_iff; cbn; auto).
    apply (ti_empty _ _ _ _ I) in Hin as (oldc & Hk & Hemp).
    assert (Hs : snd oldc = 0) by (rewrite (ti_counter _ _ _ _ I _ _ Hk), Hemp; reflexivity).
    pose proof (ti_empty_nodup _ _ _ _ I) as Hnd. rewrite Ee in Hnd. apply nodup_app in Hnd as (N1 & _ & N3).
    apply (master nw tours tours m (m ++ [v]) t _ k oldc ([v], mm));
      cbn [fst snd tr_cycles tr_viol tr_count tr_lookup tr_empty]; auto.
    + rewrite Hs. lia.
    + rewrite Hs. lia.
    + repeat constructor; cbn; tauto.
    + intros x [<-|[]]; auto.
    + intros x. rewrite Hemp, in_app_iff. cbn. tauto.
    + eapply lookup_cond_set; eauto. intros x. rewrite Hemp. cbn.
      split; [intros [->|[]]; auto | intros [[]| ->]; auto].
    + split; [|discriminate]. intros Hx. exfalso. eapply N3; eauto. cbn; auto.
    + intros k' Hne. rewrite Ee, in_app_iff. cbn. intuition congruence.
Qed.
Print Assumptions add_own_inv.

(** * Removing / inserting one vehicle: the counter *)
Lemma hd_indep {A} (l : list A) d d' : l <> [] -> hd d l = hd d' l.
Proof. destruct l; cbn; congruence. Qed.

Lemma counter_remove nw tours pre v suf : pre ++ suf <> [] ->
  cycle_counter nw tours (pre ++ v :: suf) =
  cycle_counter nw tours (pre ++ suf) + mc_of_v tours v
  + T nw tours (last (suf ++ pre) v) v + T nw tours v (hd v (suf ++ pre))
  - T nw tours (last (suf ++ pre) v) (hd v (suf ++ pre)).
Proof.
  intros H.
  assert (HR : suf ++ pre <> []).
  { intros E. apply app_eq_nil in E as [-> ->]. auto. }
  rewrite !cc_eq, !msum_app, msum_cons.
  rewrite (cycp_rot nw tours pre (v :: suf)), (cycp_rot nw tours pre suf).
  change ((v :: suf) ++ pre) with (v :: (suf ++ pre)).
  rewrite cycp_cons by auto. rewrite (cycp_ne nw tours (suf ++ pre)) by auto.
  rewrite (last_indep (suf ++ pre) v dv) by auto. rewrite (hd_indep (suf ++ pre) v dv) by auto.
  lia.
Qed.

Lemma split_nodup (l : list vehicle_id) v : In v l -> NoDup l ->
  exists pre suf, l = pre ++ v :: suf /\ ~ In v pre /\ ~ In v suf.
Proof.
  intros Hi Hn. apply in_split in Hi as (pre & suf & ->). exists pre, suf. split; auto.
  apply NoDup_remove_2 in Hn. rewrite in_app_iff in Hn. tauto.
Qed.

Lemma filter_notin v (l : list vehicle_id) : ~ In v l -> filter (fun x => negb (vid_eqb x v)) l = l.
Proof.
  induction l as [|a l IH]; cbn; auto. intros H.
  assert (vid_eqb a v = false) as -> by (apply vid_eqb_neq; intros ->; tauto).
  cbn. rewrite IH; tauto.
Qed.

Lemma without_split pre v suf : ~ In v pre -> ~ In v suf ->
  filter (fun x => negb (vid_eqb x v)) (pre ++ v :: suf) = pre ++ suf.
Proof.
  intros H1 H2. rewrite filter_app. cbn [filter]. rewrite vid_eqb_refl. cbn.
  now rewrite !filter_notin.
Qed.

Lemma index_of_split pre v suf : ~ In v pre -> index_of (vid_eqb v) (pre ++ v :: suf) = Some (length pre).
Proof.
  induction pre as [|a pre IH]; cbn; intros H.
  - now rewrite vid_eqb_refl.
  - assert (vid_eqb v a = false) as -> by (apply vid_eqb_neq; intros ->; tauto).
    rewrite IH by tauto. auto.
Qed.

Lemma pred_list (pre suf : list vehicle_id) v :
  (if Nat.eqb (length pre) 0 then (match pre ++ v :: suf with [] => None | f :: _ => Some (last (pre ++ v :: suf) f) end)
   else nth_error (pre ++ v :: suf) (length pre - 1)) = Some (last (suf ++ pre) v).
Proof.
  destruct pre as [|a pre'] eqn:E.
  - cbn [length Nat.eqb app]. rewrite app_nil_r. destruct suf; reflexivity.
  - rewrite <- E. assert (Hne : pre <> []) by (subst; discriminate).
    destruct (exists_last Hne) as (p' & z & ->).
    rewrite app_length. cbn [length]. replace (length p' + 1 =? 0)%nat with false by (symmetry; apply Nat.eqb_neq; lia).
    replace (length p' + 1 - 1)%nat with (length p') by lia.
    rewrite <- app_assoc. cbn [app]. rewrite nth_error_mid_eq.
    now rewrite app_assoc, last_last.
Qed.

Lemma succ_list (pre suf : list vehicle_id) v :
  (if Nat.eqb (length pre) (length (pre ++ v :: suf) - 1) then hd_error (pre ++ v :: suf)
   else nth_error (pre ++ v :: suf) (length pre + 1)) = Some (hd v (suf ++ pre)).
Proof.
  rewrite app_length. cbn [length]. destruct suf as [|s suf'].
  - cbn [length app]. replace (length pre + 1 - 1)%nat with (length pre) by lia. rewrite Nat.eqb_refl.
    destruct pre; reflexivity.
  - cbn [length]. replace (length pre =? length pre + S (S (length suf')) - 1)%nat with false
      by (symmetry; apply Nat.eqb_neq; lia).
    change (pre ++ v :: s :: suf') with (pre ++ [v] ++ s :: suf'). rewrite app_assoc.
    replace (length pre + 1)%nat with (length (pre ++ [v])) by (rewrite app_length; reflexivity).
    rewrite nth_error_mid_eq. reflexivity.
Qed.

Lemma tour_info_eff upd old x i : tour_info upd old x = Ok i <-> eff upd old x = Some i.
Proof.
  unfold tour_info, eff. destruct (upd x); [split; congruence|].
  destruct (old x); cbn; split; congruence.
Qed.

Lemma pred_succ_spec t v upd old k c pre suf edp sds :
  lookup_get v (tr_lookup t) = Some k -> nth_error (tr_cycles t) k = Some c ->
  fst c = pre ++ v :: suf -> ~ In v pre ->
  pred_succ_depots t v upd old = Ok (edp, sds) ->
  exists ip isu, eff upd old (last (suf ++ pre) v) = Some ip /\ eff upd old (hd v (suf ++ pre)) = Some isu /\
                 edp = vi_ed ip /\ sds = vi_sd isu.
Proof.
  intros Hl Hk Hc Hp H. unfold pred_succ_depots in H.
  rewrite Hl in H. cbn [unwrap_opt bind] in H. rewrite Hk in H. cbn [unwrap_opt bind] in H.
  rewrite Hc in H. rewrite index_of_split in H by auto. cbn [unwrap_opt bind] in H.
  rewrite pred_list, succ_list in H. cbn [unwrap_opt bind] in H.
  destruct (tour_info upd old (last (suf ++ pre) v)) as [ip| | |] eqn:E1; cbn [bind] in H; try discriminate.
  destruct (tour_info upd old (hd v (suf ++ pre))) as [isu| | |] eqn:E2; cbn [bind] in H; try discriminate.
  inversion H; subst. apply tour_info_eff in E1, E2. exists ip, isu. auto.
Qed.

Theorem remove_inv : stmt_remove_inv.
Proof.
  intros nw upd old m t v t' I Htot Hv Hu H.
  assert (Htv : eff upd old v = old v) by (unfold eff; now rewrite Hu).
  set (tours := eff upd old) in *.
  unfold remove_vehicle in H.
  destruct (lookup_get v (tr_lookup t)) as [k|] eqn:El; cbn [unwrap_opt bind] in H; [|discriminate].
  destruct (nth_error (tr_cycles t) k) as [c|] eqn:Ek; cbn [unwrap_opt bind] in H; [|discriminate].
  assert (Hvc : In v (fst c)).
  { apply (ti_lookup _ _ _ _ I) in El as (c' & H1 & H2). congruence. }
  pose proof (inv_cycle_nodup _ _ _ _ _ _ I Ek) as Hnd.
  destruct (split_nodup _ _ Hvc Hnd) as (pre & suf & Ec & Hp & Hsf).
  rewrite Ec in H. rewrite (without_split pre v suf Hp Hsf) in H.
  match type of H with bind ?X _ = _ => destruct X as [r| | |] eqn:Er end; cbn [bind] in H; try discriminate.
  inversion H; subst t'; clear H.
  assert (Hne : ~ In k (tr_empty t)).
  { rewrite (inv_empty_k _ _ _ _ _ _ I Ek), Ec. destruct pre; discriminate. }
  assert (R : NoDup (snd r) /\ (In k (snd r) <-> pre ++ suf = []) /\
              (forall k', k' <> k -> (In k' (snd r) <-> In k' (tr_empty t))) /\
              fst r = cycle_counter nw tours (pre ++ suf)).
  { destruct (pre ++ suf) as [|a R'] eqn:ER.
    - inversion Er; subst r; clear Er. cbn [fst snd]. repeat split; auto.
      + apply nodup_app. split; [apply (ti_empty_nodup _ _ _ _ I)|]. split; [repeat constructor; cbn; tauto|].
        intros x Hx [<-|[]]. auto.
      + rewrite in_app_iff; cbn; auto.
      + rewrite in_app_iff; cbn. intuition congruence.
      + rewrite in_app_iff; cbn. intuition congruence.
    - destruct (pred_succ_depots t v upd old) as [[edp sds]| | |] eqn:Eps; cbn [bind] in Er; try discriminate.
      destruct (old v) as [oldi|] eqn:Eo; cbn [unwrap_opt bind] in Er; try discriminate.
      inversion Er; subst r; clear Er. cbn [fst snd].
      destruct (pred_succ_spec _ _ _ _ _ _ _ _ _ _ El Ek Ec Hp Eps) as (ip & isu & Hip & Hisu & -> & ->).
      repeat split; auto; try tauto.
      + apply (ti_empty_nodup _ _ _ _ I).
      + discriminate.
      + rewrite <- ER. rewrite (ti_counter _ _ _ _ I _ _ Ek), Ec. rewrite counter_remove by (rewrite ER; discriminate).
        fold tours in Hip, Hisu. unfold T, mc_with_trips, mc_of_v, ed_of_v, sd_of_v.
        rewrite Hip, Hisu, Htv. lia. }
  destruct R as (R1 & R2 & R3 & R4).
  apply (master nw tours tours m (without v m) t _ k c (pre ++ suf, fst r));
    cbn [fst snd with_cycle tr_cycles tr_viol tr_count tr_lookup tr_empty]; auto.
  - rewrite Ec in Hnd. now apply NoDup_remove_1 in Hnd.
  - intros x Hx. left. rewrite Ec. rewrite in_app_iff in *. cbn. tauto.
  - intros x. unfold without. rewrite filter_In, Ec, negb_true_iff, vid_eqb_neq, !in_app_iff. cbn [In]. split.
    + intros [H1 H2]. destruct (in_dec vid_eq_dec x (pre ++ suf)) as [Hi|Hi].
      * rewrite in_app_iff in Hi. tauto.
      * left. split; auto. rewrite in_app_iff in Hi. intuition congruence.
    + intros [[H1 H2]|H1].
      * split; auto; intros ->; tauto.
      * split.
        -- eapply inv_cycle_in; eauto. rewrite Ec, in_app_iff. cbn. tauto.
        -- intros ->. tauto.
  - intros x k'. rewrite lookup_get_remove. destruct (vid_eqb x v) eqn:E.
    + apply vid_eqb_eq in E. subst x. split; [discriminate|]. rewrite in_app_iff. tauto.
    + apply vid_eqb_neq in E. rewrite Ec, !in_app_iff. cbn [In]. split.
      * intros H. destruct (in_dec vid_eq_dec x (fst c)) as [Hi|Hi].
        -- left. rewrite (inv_lookup_k _ _ _ _ _ _ _ I Ek Hi) in H. rewrite Ec, in_app_iff in Hi. cbn in Hi.
           split; [intuition congruence | congruence].
        -- right. rewrite Ec, in_app_iff in Hi. cbn in Hi. tauto.
      * intros [[H ->]|(_ & _ & H)]; auto. eapply inv_lookup_k; eauto. rewrite Ec, in_app_iff. cbn. tauto.
Qed.
Print Assumptions remove_inv.

Lemma counter_snoc nw tours l v : l <> [] ->
  cycle_counter nw tours (l ++ [v]) =
  cycle_counter nw tours l + mc_of_v tours v + T nw tours (last l v) v + T nw tours v (hd v l)
  - T nw tours (last l v) (hd v l).
Proof.
  intros H. rewrite (counter_remove nw tours l v []) by (now rewrite app_nil_r).
  rewrite app_nil_r. reflexivity.
Qed.

Lemma nth_error_penult (l : list vehicle_id) v : l <> [] ->
  nth_error (l ++ [v]) (length (l ++ [v]) - 2) = Some (last l v).
Proof.
  intros H. destruct (exists_last H) as (l' & z & ->). rewrite last_last.
  rewrite !app_length. cbn [length]. replace (length l' + 1 + 1 - 2)%nat with (length l') by lia.
  rewrite <- app_assoc. cbn [app]. apply nth_error_mid_eq.
Qed.

Theorem add_end_inv : stmt_add_end_inv.
Proof.
  intros nw upd old m t v k t' I Htot Hv Hev H.
  set (tours := eff upd old) in *.
  unfold add_vehicle_at_the_end in H. cbv zeta in H.
  destruct (nth_error (tr_cycles t) k) as [c|] eqn:Ek; cbn [unwrap_opt bind] in H; [|discriminate].
  destruct (tour_info upd old v) as [iv| | |] eqn:Eiv; cbn [bind] in H; try discriminate.
  apply tour_info_eff in Eiv. fold tours in Eiv.
  match type of H with bind ?X _ = _ => destruct X as [newc| | |] eqn:En end; cbn [bind] in H; try discriminate.
  inversion H; subst t'; clear H.
  assert (Hvc : ~ In v (fst c)) by (intros Hx; apply Hv; eapply inv_cycle_in; eauto).
  pose proof (inv_empty_k _ _ _ _ _ _ I Ek) as Hemp.
  pose proof (ti_empty_nodup _ _ _ _ I) as Hnd.
  match goal with |- TInv _ _ _ (with_cycle _ _ _ _ _ ?e) => set (em := e) in * end.
  assert (R : newc = cycle_counter nw tours (fst c ++ [v]) /\ NoDup em /\ ~ In k em /\
              (forall k', k' <> k -> (In k' em <-> In k' (tr_empty t)))).
  { subst em. destruct (fst c) as [|a l'] eqn:Ec.
    - cbn [app length Nat.eqb] in *. inversion En; subst newc.
      split; [|split; [|split]].
      + rewrite cc_eq, cycp_one, msum_cons, msum_nil. unfold T, mc_of_v, ed_of_v, sd_of_v. rewrite Eiv. lia.
      + now apply NoDup_filter.
      + rewrite filter_In, Nat.eqb_refl. cbn. intuition discriminate.
      + intros k' Hne. rewrite filter_In, negb_true_iff, Nat.eqb_neq. tauto.
    - assert (Hl : a :: l' <> []) by discriminate. rewrite <- Ec in *.
      assert (E1 : Nat.eqb (length (fst c ++ [v])) 1 = false).
      { apply Nat.eqb_neq. rewrite app_length, Ec. cbn. lia. }
      rewrite E1 in *. rewrite nth_error_penult in En by auto. cbn [unwrap_opt bind] in En.
      destruct (tour_info upd old (last (fst c) v)) as [ip| | |] eqn:Eip; cbn [bind] in En; try discriminate.
      assert (Eh : hd_error (fst c ++ [v]) = Some (hd v (fst c))) by (rewrite Ec; reflexivity).
      rewrite Eh in En. cbn [unwrap_opt bind] in En.
      destruct (tour_info upd old (hd v (fst c))) as [ifst| | |] eqn:Eif; cbn [bind] in En; try discriminate.
      apply tour_info_eff in Eip, Eif. fold tours in Eip, Eif.
      inversion En; subst newc. split; [|split; [|split]]; auto; try tauto.
      rewrite counter_snoc by auto. rewrite (ti_counter _ _ _ _ I _ _ Ek).
        unfold T, mc_with_trips, mc_of_v, ed_of_v, sd_of_v. rewrite Eip, Eif, Eiv. lia. }
  destruct R as (R1 & R2 & R3 & R4).
  apply (master nw tours tours m (m ++ [v]) t _ k c (fst c ++ [v], newc));
    cbn [fst snd with_cycle tr_cycles tr_viol tr_count tr_lookup tr_empty]; auto.
  - apply nodup_app. split; [eapply inv_cycle_nodup; eauto|]. split; [repeat constructor; cbn; tauto|].
    intros x Hx [<-|[]]. auto.
  - intros x. rewrite in_app_iff. cbn. intros [Hx|[<-|[]]]; auto.
  - intros x. rewrite !in_app_iff. cbn. split.
    + intros [Hx|[<-|[]]]; auto. destruct (in_dec vid_eq_dec x (fst c)); auto.
    + intros [[Hx _]|[Hx|[<-|[]]]]; auto. left. eapply inv_cycle_in; eauto.
  - eapply lookup_cond_set; eauto. intros x. rewrite in_app_iff. cbn. intuition.
  - split; [tauto|]. destruct (fst c); discriminate.
Qed.
Print Assumptions add_end_inv.

Theorem move_inv : stmt_move_inv.
Proof.
  intros nw tours m t v k t' I Htot Hv H.
  unfold move_vehicle in H.
  destruct (remove_vehicle nw t v no_tours tours) as [t1| | |] eqn:E1; cbn [bind] in H; try discriminate.
  change tours with (eff no_tours tours) in I, Htot |- *.
  assert (I1 : TInv nw (eff no_tours tours) (without v m) t1).
  { eapply remove_inv; eauto. }
  eapply add_end_inv; eauto.
  - intros x Hx. apply Htot. unfold without in Hx. apply filter_In in Hx. tauto.
  - unfold without. rewrite filter_In, vid_eqb_refl. cbn. intuition discriminate.
Qed.
Print Assumptions move_inv.

Lemma last_in {A} (l : list A) d : l <> [] -> In (last l d) l.
Proof.
  intros H. destruct (exists_last H) as (l' & z & ->). rewrite last_last, in_app_iff. cbn. auto.
Qed.
Lemma hd_in {A} (l : list A) d : l <> [] -> In (hd d l) l.
Proof. destruct l; cbn; [congruence | auto]. Qed.

Theorem update_inv : stmt_update_inv.
Proof.
  intros nw upd old m t v newi t' I Htot Hv Hu H.
  assert (Htv : eff upd old v = old v) by (unfold eff; now rewrite Hu).
  set (tours := eff upd old) in *.
  unfold update_vehicle in H.
  destruct (old v) as [oldi|] eqn:Eo; cbn [unwrap_opt bind] in H; [|discriminate].
  destruct (lookup_get v (tr_lookup t)) as [k|] eqn:El; cbn [unwrap_opt bind] in H; [|discriminate].
  destruct (nth_error (tr_cycles t) k) as [c|] eqn:Ek; cbn [unwrap_opt bind] in H; [|discriminate].
  assert (Hvc : In v (fst c)).
  { apply (ti_lookup _ _ _ _ I) in El as (c' & H1 & H2). congruence. }
  pose proof (inv_cycle_nodup _ _ _ _ _ _ I Ek) as Hnd.
  destruct (split_nodup _ _ Hvc Hnd) as (pre & suf & Ec & Hp & Hsf).
  match type of H with bind ?X _ = _ => destruct X as [newc| | |] eqn:En end; cbn [bind] in H; try discriminate.
  inversion H; subst t'; clear H.
  set (tours' := override tours v newi).
  assert (Hov : tours' v = Some newi) by (unfold tours', override; now rewrite vid_eqb_refl).
  assert (Hox : forall x, x <> v -> tours' x = tours x).
  { unfold tours', override; intros x Hx. apply vid_eqb_neq in Hx. now rewrite Hx. }
  assert (R : newc = cycle_counter nw tours' (fst c)).
  { destruct (pre ++ suf) as [|a R'] eqn:ER.
    - apply app_eq_nil in ER as [-> ->]. rewrite Ec in *. cbn [app length Nat.eqb] in En. inversion En. cbn [app].
      rewrite cc_eq, cycp_one, msum_cons, msum_nil. unfold T, mc_of_v, ed_of_v, sd_of_v. rewrite Hov. lia.
    - assert (Hne : pre ++ suf <> []) by (rewrite ER; discriminate).
      assert (HR : suf ++ pre <> []) by (intros E; apply app_eq_nil in E as [-> ->]; auto).
      assert (E1 : Nat.eqb (length (fst c)) 1 = false).
      { apply Nat.eqb_neq. apply (f_equal (@length _)) in ER. rewrite Ec. rewrite app_length in *. cbn in *. lia. }
      rewrite E1 in En.
      destruct (pred_succ_depots t v upd old) as [[edp sds]| | |] eqn:Eps; cbn [bind] in En; try discriminate.
      destruct (pred_succ_spec _ _ _ _ _ _ _ _ _ _ El Ek Ec Hp Eps) as (ip & isu & Hip & Hisu & -> & ->).
      fold tours in Hip, Hisu. inversion En; subst newc; clear En.
      assert (Hin : forall x, In x (suf ++ pre) -> x <> v).
      { intros x Hx ->. rewrite in_app_iff in Hx. tauto. }
      assert (Hl : tours' (last (suf ++ pre) v) = Some ip).
      { rewrite Hox; auto. apply Hin, last_in; auto. }
      assert (Hh : tours' (hd v (suf ++ pre)) = Some isu).
      { rewrite Hox; auto. apply Hin, hd_in; auto. }
      rewrite (ti_counter _ _ _ _ I _ _ Ek), Ec. rewrite !counter_remove by auto.
      rewrite (cycle_counter_ext nw tours' tours (pre ++ suf)).
      + unfold T, mc_with_trips, mc_of_v, ed_of_v, sd_of_v. rewrite Hip, Hisu, Hl, Hh, Hov, Htv. lia.
      + intros x Hx. apply Hox. intros ->. rewrite in_app_iff in Hx. tauto. }
  apply (master nw tours tours' m m t _ k c (fst c, newc));
    cbn [fst snd with_cycle tr_cycles tr_viol tr_count tr_lookup tr_empty]; auto.
  - intros x. split; [|intros [[? _]|?]; auto; eapply inv_cycle_in; eauto].
    intros Hx. destruct (in_dec vid_eq_dec x (fst c)); auto.
  - eapply lookup_cond_same; eauto. tauto.
  - apply (ti_empty_nodup _ _ _ _ I).
  - eapply inv_empty_k; eauto.
  - tauto.
  - intros x Hx. apply Hox. intros ->. auto.
Qed.
Print Assumptions update_inv.

(** the pre-repair function: a concrete refutation *)
Definition nw0 : network :=
  {| nw_nodes := []; nw_depots := []; nw_overflow := (0, SD 0, ED 0); nw_service := []; nw_maint := [];
     nw_sdepots := []; nw_edepots := []; nw_all_by_start := []; nw_type_by_start := []; nw_type_by_end := [];
     nw_params := {| p_forbid := false; p_min := 0; p_dht := 0; p_maxdist := 0;
                     c_staff := 0; c_service := 0; c_maint := 0; c_dh := 0; c_idle := 0 |};
     nw_nlocs := 0; nw_dh := []; nw_types := []; nw_nservice := 0; nw_planning := Len 0 |}.
Definition t0 : transition :=
  {| tr_cycles := [([], 0)]; tr_viol := 0; tr_count := 0; tr_lookup := []; tr_empty := [0%nat] |}.
Definition old0 : tours_fn := fun _ => Some {| vi_mc := 0; vi_sd := SD 0; vi_ed := ED 0 |}.

Theorem add_end_prefix_refuted : stmt_add_end_prefix_refuted.
Proof.
  exists nw0, no_tours, old0, [], t0, (Veh 0), 0%nat.
  exists (match add_vehicle_at_the_end_prefix nw0 t0 (Veh 0) 0 no_tours old0 with Ok x => x | _ => t0 end).
  split; [|split; [|split; [|split; [|split]]]].
  - constructor; cbn.
    + constructor.
    + tauto.
    + intros v k. split; [discriminate|]. intros (c & H & Hc).
      destruct k as [|k]; cbn in H; [inversion H; subst; destruct Hc | destruct k; discriminate].
    + repeat constructor. cbn. tauto.
    + intros k. split.
      * intros [<-|[]]. exists ([], 0). auto.
      * intros (c & H & Hc). destruct k as [|k]; auto. destruct k; discriminate.
    + intros k c H. destruct k as [|k]; cbn in H; [inversion H; subst; reflexivity | destruct k; discriminate].
    + reflexivity.
    + reflexivity.
  - intros x [].
  - intros [].
  - discriminate.
  - vm_compute. reflexivity.
  - intros I. pose proof (ti_empty _ _ _ _ I 0%nat) as H1. vm_compute in H1.
    destruct H1 as [H1 _]. destruct H1 as (c & Hc & Hn); [left; reflexivity|].
    inversion Hc; subst. discriminate.
Qed.
Print Assumptions add_end_prefix_refuted.

(** * 3-opt *)
Lemma skipn_app_len {A} (X Y : list A) a : length X = a -> skipn a (X ++ Y) = Y.
Proof. intros <-. induction X; cbn; auto. Qed.
Lemma firstn_app_len {A} (X Y : list A) a : length X = a -> firstn a (X ++ Y) = X.
Proof. intros <-. induction X; cbn; f_equal; auto. Qed.

Lemma three_split {A} (l : list A) i j k : (i < j)%nat -> (j < k)%nat -> (k < length l)%nat ->
  exists X Y Z W, l = X ++ Y ++ Z ++ W /\ length X = (i + 1)%nat /\ length Y = (j - i)%nat /\
                  length Z = (k - j)%nat.
Proof.
  intros Hij Hjk Hk.
  pose proof (firstn_skipn (i + 1) l) as E1.
  pose proof (firstn_skipn (j - i) (skipn (i + 1) l)) as E2.
  pose proof (firstn_skipn (k - j) (skipn (j - i) (skipn (i + 1) l))) as E3.
  exists (firstn (i + 1) l), (firstn (j - i) (skipn (i + 1) l)),
         (firstn (k - j) (skipn (j - i) (skipn (i + 1) l))), (skipn (k - j) (skipn (j - i) (skipn (i + 1) l))).
  split; [now rewrite E3, E2, E1|].
  split; [apply firstn_length_le; lia|].
  split; [apply firstn_length_le; rewrite skipn_length; lia|].
  apply firstn_length_le. rewrite !skipn_length. lia.
Qed.

Lemma nth_error_last_app {A} (X Y : list A) i d : length X = S i -> nth_error (X ++ Y) i = Some (last X d).
Proof.
  intros H. assert (Hne : X <> []) by (destruct X; [discriminate|congruence]).
  destruct (exists_last Hne) as (X' & z & ->). rewrite last_last.
  rewrite app_length in H. cbn in H. replace i with (length X') by lia.
  rewrite <- app_assoc. cbn [app]. apply nth_error_mid_eq.
Qed.
Lemma nth_error_hd_app {A} (X Y : list A) a d : length X = a -> Y <> [] -> nth_error (X ++ Y) a = Some (hd d Y).
Proof. intros <- H. destruct Y as [|y Y']; [congruence|]. cbn [hd]. apply nth_error_mid_eq. Qed.
Lemma nth_error_hd_app3 {A} (X Y Z : list A) a d :
  length X = a -> Y <> [] -> nth_error (X ++ Y ++ Z) a = Some (hd d Y).
Proof. intros H1 H2. rewrite (nth_error_hd_app X (Y ++ Z) a d); auto; [now rewrite hd_app_ne | destruct Y; [congruence|discriminate]]. Qed.

Lemma cycp3 nw tours X Y Z : X <> [] -> Y <> [] -> Z <> [] ->
  cycp nw tours (X ++ Y ++ Z) =
  psum nw tours X + psum nw tours Y + psum nw tours Z
  + T nw tours (last X dv) (hd dv Y) + T nw tours (last Y dv) (hd dv Z) + T nw tours (last Z dv) (hd dv X).
Proof.
  intros HX HY HZ.
  assert (HYZ : Y ++ Z <> []) by (destruct Y; [congruence|discriminate]).
  assert (HXYZ : X ++ Y ++ Z <> []) by (destruct X; [congruence|discriminate]).
  rewrite cycp_ne by auto. rewrite !psum_app by auto.
  rewrite !last_app_ne by auto. rewrite !hd_app_ne by auto. lia.
Qed.

Theorem three_opt_exact : stmt_three_opt_exact.
Proof.
  intros nw tours c i j k c' Htot Hij Hjk Hk Hc H.
  destruct (three_split (fst c) i j k Hij Hjk Hk) as (A & B & C & D & El & LA & LB & LC).
  assert (HA : A <> []) by (destruct A; [cbn in LA; lia | discriminate]).
  assert (HB : B <> []) by (destruct B; [cbn in LB; lia | discriminate]).
  assert (HC : C <> []) by (destruct C; [cbn in LC; lia | discriminate]).
  assert (Ln : length (fst c) = (k + 1 + length D)%nat) by (rewrite El, !app_length; lia).
  set (E := D ++ A).
  assert (HE : E <> []) by (subst E; destruct D; [auto | discriminate]).
  unfold three_opt in H. cbv zeta in H.
  assert (En0 : Nat.eqb (length (fst c)) 0 = false) by (apply Nat.eqb_neq; lia).
  rewrite En0 in H.
  assert (Ni : nth_error (fst c) i = Some (last A dv)).
  { rewrite El. apply nth_error_last_app. lia. }
  assert (Ni1 : nth_error (fst c) (Nat.modulo (i + 1) (length (fst c))) = Some (hd dv B)).
  { rewrite Nat.mod_small by lia. rewrite El. apply nth_error_hd_app3; auto. }
  assert (Nj : nth_error (fst c) j = Some (last B dv)).
  { rewrite El, app_assoc. rewrite (nth_error_last_app _ _ j dv) by (rewrite app_length; lia).
    now rewrite last_app_ne. }
  assert (Nj1 : nth_error (fst c) (Nat.modulo (j + 1) (length (fst c))) = Some (hd dv C)).
  { rewrite Nat.mod_small by lia. rewrite El, app_assoc. apply nth_error_hd_app3; auto. rewrite app_length; lia. }
  assert (Nk : nth_error (fst c) k = Some (last C dv)).
  { rewrite El, !app_assoc. rewrite (nth_error_last_app _ _ k dv) by (rewrite !app_length; lia).
    now rewrite last_app_ne. }
  assert (Nk1 : nth_error (fst c) (Nat.modulo (k + 1) (length (fst c))) = Some (hd dv E)).
  { subst E. destruct D as [|d D'].
    - cbn [length] in Ln. replace (length (fst c)) with (k + 1)%nat by lia.
      rewrite Nat.mod_same by lia. rewrite El. destruct A; [congruence|reflexivity].
    - rewrite Nat.mod_small by (cbn [length] in Ln; lia).
      rewrite El, !app_assoc. cbn [app hd].
      rewrite (nth_error_hd_app _ _ (k + 1)%nat dv); auto; [|discriminate].
      rewrite !app_length; lia. }
  rewrite Ni, Ni1, Nj, Nj1, Nk, Nk1 in H. cbn [unwrap_opt bind] in H.
  destruct (tours (last A dv)) as [ii|] eqn:Ti; cbn [unwrap_opt bind] in H; [|discriminate].
  destruct (tours (hd dv B)) as [ii1|] eqn:Ti1; cbn [unwrap_opt bind] in H; [|discriminate].
  destruct (tours (last B dv)) as [ij|] eqn:Tj; cbn [unwrap_opt bind] in H; [|discriminate].
  destruct (tours (hd dv C)) as [ij1|] eqn:Tj1; cbn [unwrap_opt bind] in H; [|discriminate].
  destruct (tours (last C dv)) as [ik|] eqn:Tk; cbn [unwrap_opt bind] in H; [|discriminate].
  destruct (tours (hd dv E)) as [ik1|] eqn:Tk1; cbn [unwrap_opt bind] in H; [|discriminate].
  match type of H with (if ?b then _ else _) = _ => destruct b end; [|discriminate].
  inversion H; subst c'; clear H. cbn [fst snd].
  assert (S1 : firstn (i + 1) (fst c) = A) by (rewrite El; now apply firstn_app_len).
  assert (S2 : slice (j + 1) (k + 1) (fst c) = C).
  { unfold slice. rewrite El, app_assoc. rewrite skipn_app_len by (rewrite app_length; lia).
    apply firstn_app_len. lia. }
  assert (S3 : slice (i + 1) (j + 1) (fst c) = B).
  { unfold slice. rewrite El. rewrite skipn_app_len by lia. apply firstn_app_len. lia. }
  assert (S4 : skipn (k + 1) (fst c) = D).
  { rewrite El, !app_assoc. apply skipn_app_len. rewrite !app_length. lia. }
  rewrite S1, S2, S3, S4. split.
  - rewrite El. apply Permutation_app_head. rewrite !app_assoc. apply Permutation_app_tail.
    apply Permutation_app_comm.
  - rewrite Hc, El, !cc_eq, !msum_app.
    rewrite (cycp_rot nw tours A (B ++ C ++ D)), (cycp_rot nw tours A (C ++ B ++ D)).
    rewrite <- !app_assoc. fold E. rewrite !cycp3 by auto.
    assert (LE : last E dv = last A dv) by (subst E; now apply last_app_ne).
    rewrite LE. unfold T, ed_of_v, sd_of_v. rewrite Ti, Ti1, Tj, Tj1, Tk, Tk1. lia.
Qed.
Print Assumptions three_opt_exact.
