From Coq Require Import Permutation.
From RS Require Import Base BaseFacts Network Transition TransSpec TransStmts TransFacts.
(* TransFacts2.v — C15: the greedy construction [new_fast] yields a transition satisfying [TInv]. *)

(** * Generic helpers *)
Lemma fold_not_ok {A B} (f : res A -> B -> res A) :
  (forall b x, is_ok x = false -> is_ok (f x b) = false) ->
  forall l x, is_ok x = false -> is_ok (fold_left f l x) = false.
Proof.
  intros Hf l. induction l as [|b l IH]; intros x Hx; cbn [fold_left]; auto.
Qed.

Lemma fold_ok_start {A B} (f : res A -> B -> res A) :
  (forall b x, is_ok x = false -> is_ok (f x b) = false) ->
  forall l x r, fold_left f l x = Ok r -> is_ok x = true.
Proof.
  intros Hf l x r H. destruct (is_ok x) eqn:E; auto.
  pose proof (fold_not_ok f Hf l x E) as H'. rewrite H in H'. discriminate.
Qed.

Lemma perm_concat {A} (l l' : list (list A)) : Permutation l l' -> Permutation (concat l) (concat l').
Proof.
  induction 1; cbn [concat].
  - constructor.
  - now apply Permutation_app_head.
  - rewrite !app_assoc. apply Permutation_app_tail, Permutation_app_comm.
  - eapply Permutation_trans; eauto.
Qed.

Lemma perm_members (l l' : list (list vehicle_id * Z)) :
  Permutation l l' -> Permutation (concat (map fst l)) (concat (map fst l')).
Proof. intros H. apply perm_concat, Permutation_map, H. Qed.

Lemma filter_split_perm {A} (p q : A -> bool) (l : list A) :
  (forall x, q x = negb (p x)) -> Permutation (filter p l ++ filter q l) l.
Proof.
  intros Hq. induction l as [|a l IH]; cbn [filter app]; [constructor|].
  rewrite Hq. destruct (p a); cbn [negb app].
  - now constructor.
  - apply Permutation_sym. eapply Permutation_trans; [|apply Permutation_middle].
    constructor. now apply Permutation_sym.
Qed.

Lemma index_of_some {A} (p : A -> bool) l k : index_of p l = Some k -> exists x, nth_error l k = Some x.
Proof.
  revert k; induction l as [|a l IH]; intros k H; cbn [index_of] in H; [discriminate|].
  destruct (p a).
  - inversion H; subst. exists a. reflexivity.
  - destruct (index_of p l) as [i|] eqn:E; [|discriminate]. inversion H; subst.
    destruct (IH _ eq_refl) as (x & Hx). exists x. exact Hx.
Qed.

Lemma nth_error_lt_some {A} (l : list A) k : (k < length l)%nat -> exists x, nth_error l k = Some x.
Proof.
  intros H. destruct (nth_error l k) as [x|] eqn:E; [eauto|].
  apply nth_error_None in E. lia.
Qed.

Lemma assoc_app_v (v : vehicle_id) (l1 l2 : list (vehicle_id * nat)) :
  assoc vid_eqb v (l1 ++ l2) =
  match assoc vid_eqb v l1 with Some x => Some x | None => assoc vid_eqb v l2 end.
Proof.
  induction l1 as [|[y n] l1 IH]; cbn [app assoc]; auto. destruct (vid_eqb v y); auto.
Qed.

Lemma assoc_map_in v (s : nat) (l : list vehicle_id) :
  In v l -> assoc vid_eqb v (map (fun x => (x, s)) l) = Some s.
Proof.
  induction l as [|a l IH]; cbn [map assoc In]; [tauto|].
  intros H. destruct (vid_eqb v a) eqn:E; auto. apply vid_eqb_neq in E.
  apply IH. destruct H; [congruence|auto].
Qed.

Lemma assoc_map_notin v (s : nat) (l : list vehicle_id) :
  ~ In v l -> assoc vid_eqb v (map (fun x => (x, s)) l) = None.
Proof.
  induction l as [|a l IH]; cbn [map assoc In]; auto.
  intros H. assert (vid_eqb v a = false) as -> by (apply vid_eqb_neq; intros ->; tauto).
  apply IH. tauto.
Qed.

(** * The lookup table built by new_fast *)
Definition lk (s : nat) (cycles : list (list vehicle_id * Z)) : list (vehicle_id * nat) :=
  flat_map (fun '(k, c) => map (fun v => (v, k)) (fst c)) (combine (seq s (length cycles)) cycles).

Lemma lk_cons s c r : lk s (c :: r) = map (fun v => (v, s)) (fst c) ++ lk (S s) r.
Proof. reflexivity. Qed.

Lemma lk_spec cycles : NoDup (concat (map fst cycles)) ->
  forall s v k, assoc vid_eqb v (lk s cycles) = Some k <->
                exists c, (s <= k)%nat /\ nth_error cycles (k - s) = Some c /\ In v (fst c).
Proof.
  induction cycles as [|c r IH]; intros Hnd s v k.
  - cbn. split; [discriminate|]. intros (c & _ & H & _). destruct (k - s)%nat; discriminate.
  - cbn [map concat] in Hnd. apply nodup_app in Hnd as (N1 & N2 & N3).
    rewrite lk_cons, assoc_app_v. destruct (in_dec vid_eq_dec v (fst c)) as [Hi|Hi].
    + rewrite (assoc_map_in v s (fst c) Hi). split.
      * intros E; inversion E; subst. exists c. split; [lia|]. rewrite Nat.sub_diag. cbn. auto.
      * intros (c' & Hle & Hn & Hv). destruct (k - s)%nat as [|j] eqn:Ej.
        -- f_equal. lia.
        -- cbn [nth_error] in Hn. exfalso. apply (N3 v Hi). apply in_concat. exists (fst c').
           split; auto. apply in_map. eapply nth_error_In; eauto.
    + rewrite (assoc_map_notin v s (fst c) Hi). rewrite (IH N2 (S s) v k). split.
      * intros (c' & Hle & Hn & Hv). exists c'. split; [lia|]. split; auto.
        replace (k - s)%nat with (S (k - S s)) by lia. exact Hn.
      * intros (c' & Hle & Hn & Hv). destruct (k - s)%nat as [|j] eqn:Ej.
        -- cbn [nth_error] in Hn. inversion Hn; subst. contradiction.
        -- cbn [nth_error] in Hn. exists c'. split; [lia|]. split; auto.
           replace (k - S s)%nat with j by lia. auto.
Qed.

Section NF.
Variable nw : network.
Variable tours : tours_fn.

(** * The pieces of new_fast *)
Definition finfo (acc : res (list (vehicle_id * vinfo))) (v : vehicle_id) : res (list (vehicle_id * vinfo)) :=
  do l <- acc; do i <- unwrap_opt (tours v); Ok (l ++ [(v, i)]).
Definition fassign (acc : res (list cluster)) (v : vehicle_id) : res (list cluster) :=
  do cl <- acc; do cl' <- assign_vehicle nw tours cl v; Ok (sort_by_key (fun c : cluster => snd c) cl').
Definition fclose (acc : res (list cluster)) (c : cluster) : res (list cluster) :=
  do l <- acc;
  match fst c with
  | [] => Panic
  | f :: _ =>
      do il <- unwrap_opt (tours (last (fst c) f));
      do ifst <- unwrap_opt (tours f);
      Ok (l ++ [(fst c, snd c + transfer_m nw (vi_ed il) (vi_sd ifst))])
  end.
Definition mkc (p : vehicle_id * vinfo) : cluster := let '(v, i) := p in ([v], vi_mc i).
Definition pneg (p : vehicle_id * vinfo) : bool := let '(_, i) := p in vi_mc i <? 0.
Definition pnn (p : vehicle_id * vinfo) : bool := let '(_, i) := p in negb (vi_mc i <? 0).
Definition kinfo (p : vehicle_id * vinfo) : Z := let '(_, i) := p in - vi_mc i.

Lemma new_fast_eq vehicles :
  new_fast nw vehicles tours =
  (do infos <- fold_left finfo vehicles (Ok []);
   do clusters <- fold_left fassign (map fst (sort_by_key kinfo (filter pnn infos)))
                    (Ok (sort_by_key (fun c : cluster => - snd c) (map mkc (filter pneg infos))));
   do cycles <- fold_left fclose clusters (Ok []);
   Ok {| tr_cycles := cycles;
         tr_viol := z_sum (map (fun c => Z.max 0 (snd c)) cycles);
         tr_count := z_sum (map snd cycles);
         tr_lookup := lk 0 cycles; tr_empty := [] |}).
Proof. reflexivity. Qed.

Lemma finfo_nok b x : is_ok x = false -> is_ok (finfo x b) = false.
Proof. destruct x; cbn; auto; discriminate. Qed.
Lemma fassign_nok b x : is_ok x = false -> is_ok (fassign x b) = false.
Proof. destruct x; cbn; auto; discriminate. Qed.
Lemma fclose_nok b x : is_ok x = false -> is_ok (fclose x b) = false.
Proof. destruct x; cbn; auto; discriminate. Qed.

(** * Stage 1: the infos *)
Definition info_ok (p : vehicle_id * vinfo) : Prop := tours (fst p) = Some (snd p).

Lemma infos_spec vs : forall acc infos, fold_left finfo vs (Ok acc) = Ok infos ->
  exists new, infos = acc ++ new /\ map fst new = vs /\ Forall info_ok new.
Proof.
  induction vs as [|v vs IH]; intros acc infos H; cbn [fold_left] in H.
  - inversion H; subst. exists []. rewrite app_nil_r. auto.
  - unfold finfo at 2 in H. cbn [bind] in H. destruct (tours v) as [i|] eqn:Ev; cbn [unwrap_opt bind] in H.
    + destruct (IH _ _ H) as (new & E1 & E2 & E3). exists ((v, i) :: new). split; [|split].
      * rewrite E1, <- app_assoc. reflexivity.
      * cbn [map fst]. now rewrite E2.
      * constructor; auto.
    + apply (fold_ok_start finfo finfo_nok) in H. discriminate.
Qed.

(** * Clusters *)
Definition good (c : cluster) : Prop :=
  fst c <> [] /\ (forall v, In v (fst c) -> tours v <> None) /\
  snd c = msum tours (fst c) + psum nw tours (fst c).

Lemma mkc_good p : info_ok p -> good (mkc p).
Proof.
  destruct p as [v i]. unfold info_ok, good, mkc. cbn [fst snd]. intros H. split; [discriminate|]. split.
  - intros x [<-|[]]. congruence.
  - rewrite msum_cons, msum_nil, psum_one. unfold mc_of_v. rewrite H. lia.
Qed.

Lemma mkc_members l : concat (map fst (map mkc l)) = map fst l.
Proof.
  induction l as [|[v i] l IH]; cbn [map concat]; auto. cbn [mkc fst app]. now rewrite IH.
Qed.

Lemma push_good c v c' : good c -> push_to_cluster nw tours c v = Ok c' ->
  good c' /\ fst c' = fst c ++ [v].
Proof.
  intros (Hne & Ht & Hs) H. unfold push_to_cluster in H.
  destruct (tours v) as [iv|] eqn:Ev; cbn [unwrap_opt bind] in H; [|discriminate].
  destruct c as [l m]. cbn [fst snd] in *. destruct l as [|f r]; [congruence|].
  destruct (tours (last (f :: r) f)) as [il|] eqn:El; cbn [unwrap_opt bind] in H; [|discriminate].
  inversion H; subst c'; clear H. unfold good. cbn [fst snd].
  change (f :: r ++ [v]) with ((f :: r) ++ [v]). split; auto. split; [|split].
  - destruct r; discriminate.
  - intros x Hx. apply in_app_iff in Hx as [Hx|[<-|[]]]; [auto | congruence].
  - rewrite msum_app, (msum_cons tours v []), msum_nil. rewrite psum_snoc by discriminate.
    rewrite (last_indep (f :: r) dv f) by discriminate.
    unfold T, mc_of_v, ed_of_v, sd_of_v. rewrite El, Ev. lia.
Qed.

Lemma replace_good cl k old v c' :
  Forall good cl -> nth_error cl k = Some old ->
  push_to_cluster nw tours (nth k cl ([], 0)) v = Ok c' ->
  Forall good (set_nth k c' cl) /\
  Permutation (concat (map fst (set_nth k c' cl))) (concat (map fst cl) ++ [v]).
Proof.
  intros HG Hk H. rewrite (nth_error_nth cl k _ Hk) in H.
  destruct (set_nth_split k c' old cl Hk) as (l1 & l2 & E1 & E2 & E3). rewrite E3. subst cl.
  apply Forall_app in HG as (G1 & G2). inversion G2 as [|? ? Go G3]; subst.
  destruct (push_good _ _ _ Go H) as (Gc & Ec). split.
  - apply Forall_app. split; auto.
  - rewrite !members_split, Ec. rewrite <- !app_assoc. apply Permutation_app_head.
    apply Permutation_app_head. apply Permutation_app_comm.
Qed.

Lemma assign_good cl v cl' : Forall good cl -> assign_vehicle nw tours cl v = Ok cl' ->
  Forall good cl' /\ Permutation (concat (map fst cl')) (concat (map fst cl) ++ [v]).
Proof.
  intros HG H. unfold assign_vehicle in H.
  destruct (tours v) as [iv|] eqn:Ev; cbn [unwrap_opt bind] in H; [|discriminate].
  match type of H with match ?X with _ => _ end = _ => destruct X as [k|] eqn:Ei end.
  - destruct (index_of_some _ _ _ Ei) as (old & Hk).
    destruct (push_to_cluster nw tours (nth k cl ([], 0)) v) as [c'| | |] eqn:Ep; cbn [bind] in H; try discriminate.
    injection H as <-. eapply replace_good; eauto.
  - destruct cl as [|c0 r] eqn:Ecl.
    + injection H as <-. split.
      * constructor; [|constructor]. change ([v], vi_mc iv) with (mkc (v, iv)). apply mkc_good. exact Ev.
      * cbn. apply Permutation_refl.
    + rewrite <- Ecl in *.
      destruct (nth_error_lt_some cl (length cl - 1)) as (old & Hk); [rewrite Ecl; cbn; lia|].
      destruct (push_to_cluster nw tours (nth (length cl - 1) cl ([], 0)) v) as [c'| | |] eqn:Ep;
        cbn [bind] in H; try discriminate.
      injection H as <-. eapply replace_good; eauto.
Qed.

Lemma sort_good (key : cluster -> Z) cl : Forall good cl -> Forall good (sort_by_key key cl).
Proof.
  intros H. apply Forall_forall. intros c Hc. unfold sort_by_key in Hc. apply sort_by_in in Hc.
  rewrite Forall_forall in H. auto.
Qed.

Lemma sort_members (key : cluster -> Z) cl :
  Permutation (concat (map fst (sort_by_key key cl))) (concat (map fst cl)).
Proof. apply perm_members. unfold sort_by_key. apply sort_by_perm. Qed.

Lemma assign_fold U : forall cl0 clF, fold_left fassign U (Ok cl0) = Ok clF -> Forall good cl0 ->
  Forall good clF /\ Permutation (concat (map fst clF)) (concat (map fst cl0) ++ U).
Proof.
  induction U as [|v U IH]; intros cl0 clF H HG; cbn [fold_left] in H.
  - inversion H; subst. rewrite app_nil_r. split; auto.
  - unfold fassign at 2 in H. cbn [bind] in H.
    destruct (assign_vehicle nw tours cl0 v) as [cl'| | |] eqn:Ea; cbn [bind] in H;
      try (apply (fold_ok_start fassign fassign_nok) in H; discriminate).
    destruct (assign_good _ _ _ HG Ea) as (G' & P').
    destruct (IH _ _ H (sort_good _ _ G')) as (GF & PF). split; auto.
    eapply Permutation_trans; [exact PF|].
    change (v :: U) with ([v] ++ U). rewrite app_assoc. apply Permutation_app_tail.
    eapply Permutation_trans; [apply sort_members | exact P'].
Qed.

(** * Closing the clusters *)
Definition cyc_ok (c : list vehicle_id * Z) : Prop := fst c <> [] /\ snd c = cycle_counter nw tours (fst c).

Lemma close_fold cls : forall acc cycles, fold_left fclose cls (Ok acc) = Ok cycles -> Forall good cls ->
  exists new, cycles = acc ++ new /\ map fst new = map fst cls /\ Forall cyc_ok new.
Proof.
  induction cls as [|c cls IH]; intros acc cycles H HG; cbn [fold_left] in H.
  - inversion H; subst. exists []. rewrite app_nil_r. auto.
  - inversion HG as [|? ? Gc G']; subst. destruct Gc as (Hne & Ht & Hs).
    unfold fclose at 2 in H. cbn [bind] in H.
    destruct c as [l m]. cbn [fst snd] in *. destruct l as [|f r]; [congruence|].
    destruct (tours (last (f :: r) f)) as [il|] eqn:El; cbn [unwrap_opt bind] in H;
      [|apply (fold_ok_start fclose fclose_nok) in H; discriminate].
    destruct (tours f) as [ifst|] eqn:Ef; cbn [unwrap_opt bind] in H;
      [|apply (fold_ok_start fclose fclose_nok) in H; discriminate].
    destruct (IH _ _ H G') as (new & E1 & E2 & E3).
    exists ((f :: r, m + transfer_m nw (vi_ed il) (vi_sd ifst)) :: new). split; [|split].
    + rewrite E1, <- app_assoc. reflexivity.
    + cbn [map fst]. now rewrite E2.
    + constructor; auto. split; cbn [fst snd]; [discriminate|].
      rewrite cc_eq, cycp_ne by discriminate. rewrite Hs. cbn [hd].
      rewrite (last_indep (f :: r) dv f) by discriminate.
      unfold T, ed_of_v, sd_of_v. rewrite El, Ef. lia.
Qed.

(** * The invariant of the final record *)
Lemma final_inv vehicles cycles :
  NoDup vehicles -> Permutation (concat (map fst cycles)) vehicles -> Forall cyc_ok cycles ->
  TInv nw tours vehicles
    {| tr_cycles := cycles;
       tr_viol := z_sum (map (fun c => Z.max 0 (snd c)) cycles);
       tr_count := z_sum (map snd cycles);
       tr_lookup := lk 0 cycles; tr_empty := [] |}.
Proof.
  intros Hnd HP HC.
  assert (Hnd' : NoDup (concat (map fst cycles))).
  { eapply Permutation_NoDup; [apply Permutation_sym; exact HP | exact Hnd]. }
  constructor; unfold members_of; cbn [tr_cycles tr_viol tr_count tr_lookup tr_empty]; auto.
  - intros v. split; apply Permutation_in; [exact HP | apply Permutation_sym; exact HP].
  - intros v k. unfold lookup_get. rewrite (lk_spec cycles Hnd' 0%nat v k). rewrite Nat.sub_0_r. split.
    + intros (c & _ & H1 & H2). eauto.
    + intros (c & H1 & H2). exists c. split; [lia|]. auto.
  - constructor.
  - intros k. split; [intros []|]. intros (c & H1 & H2).
    rewrite Forall_forall in HC. apply nth_error_In in H1. destruct (HC c H1) as (Hne & _). contradiction.
  - intros k c H1. rewrite Forall_forall in HC. apply nth_error_In in H1. destruct (HC c H1) as (_ & Hs). exact Hs.
Qed.

End NF.

(** * The theorem *)
Theorem new_fast_inv : stmt_new_fast_inv.
Proof.
  intros nw vehicles tours t Hnd H. rewrite new_fast_eq in H.
  destruct (fold_left (finfo tours) vehicles (Ok [])) as [infos| | |] eqn:E1; cbn [bind] in H; try discriminate.
  match type of H with bind ?X _ = _ => destruct X as [clusters| | |] eqn:E2 end; cbn [bind] in H; try discriminate.
  destruct (fold_left (fclose nw tours) clusters (Ok [])) as [cycles| | |] eqn:E3; cbn [bind] in H; try discriminate.
  inversion H; subst t; clear H.
  destruct (infos_spec tours _ _ _ E1) as (new & En & Ev & Hi). cbn [app] in En. subst new.
  assert (G0 : Forall (good nw tours) (map (mkc) (filter pneg infos))).
  { apply Forall_forall. intros c Hc. apply in_map_iff in Hc as (p & <- & Hp). apply filter_In in Hp as (Hp & _).
    apply mkc_good. rewrite Forall_forall in Hi. auto. }
  destruct (assign_fold nw tours _ _ _ E2 (sort_good nw tours _ _ G0)) as (G1 & P1).
  destruct (close_fold nw tours _ _ _ E3 G1) as (new & En & Em & Hc). cbn [app] in En. subst new.
  apply final_inv; auto.
  rewrite Em. eapply Permutation_trans; [exact P1|].
  eapply Permutation_trans.
  { apply Permutation_app; [apply sort_members | apply Permutation_map; unfold sort_by_key; apply sort_by_perm]. }
  rewrite mkc_members, <- map_app, <- Ev. apply Permutation_map.
  apply filter_split_perm. intros [v i]. reflexivity.
Qed.
Print Assumptions new_fast_inv.
