(* TransSpec.v — what C15 demands of rotation-cycle bookkeeping: the invariant [TInv] (declarative) and its
   executable reading [tinv_codes] (evaluated on the model's and on the implementation's transitions). *)
From RS Require Import Base Network Transition.

Section TSpec.
Variable nw : network.
Variable tours : tours_fn.

Definition members_of (t : transition) : list vehicle_id := concat (map fst (tr_cycles t)).

Definition mc_of_v (v : vehicle_id) : Z := match tours v with Some i => vi_mc i | None => 0 end.
Definition sd_of_v (v : vehicle_id) : node_id := match tours v with Some i => vi_sd i | None => SD 0 end.
Definition ed_of_v (v : vehicle_id) : node_id := match tours v with Some i => vi_ed i | None => ED 0 end.

(* cyclic pairs (v_i, v_{i+1}), the last with the first; a singleton pairs with itself *)
Definition cyc_pairs (l : list vehicle_id) : list (vehicle_id * vehicle_id) :=
  match l with [] => [] | f :: _ => windows (l ++ [f]) end.
(* recomputed maintenance counter of a cycle: tour counters plus the cyclic depot-to-depot transfers *)
Definition cycle_counter (l : list vehicle_id) : Z :=
  z_sum (map mc_of_v l) + z_sum (map (fun '(a, b) => transfer_m nw (ed_of_v a) (sd_of_v b)) (cyc_pairs l)).

Record TInv (members : list vehicle_id) (t : transition) : Prop := {
  ti_nodup : NoDup (members_of t);
  ti_members : forall v, In v (members_of t) <-> In v members;
  ti_lookup : forall v k, lookup_get v (tr_lookup t) = Some k <->
                          exists c, nth_error (tr_cycles t) k = Some c /\ In v (fst c);
  ti_empty_nodup : NoDup (tr_empty t);
  ti_empty : forall k, In k (tr_empty t) <-> exists c, nth_error (tr_cycles t) k = Some c /\ fst c = [];
  ti_counter : forall k c, nth_error (tr_cycles t) k = Some c -> snd c = cycle_counter (fst c);
  ti_viol : tr_viol t = z_sum (map (fun c => Z.max 0 (snd c)) (tr_cycles t));
  ti_count : tr_count t = z_sum (map snd (tr_cycles t)) }.

(** executable reading *)
Fixpoint memv (v : vehicle_id) (l : list vehicle_id) : bool :=
  match l with [] => false | x :: r => vid_eqb v x || memv v r end.
Fixpoint nodupv (l : list vehicle_id) : bool :=
  match l with [] => true | x :: r => negb (memv x r) && nodupv r end.
Fixpoint memn (k : nat) (l : list nat) : bool :=
  match l with [] => false | x :: r => Nat.eqb k x || memn k r end.
Fixpoint nodupn (l : list nat) : bool :=
  match l with [] => true | x :: r => negb (memn x r) && nodupn r end.

Definition tinv_codes (members : list vehicle_id) (t : transition) : list Z :=
  let cycles := tr_cycles t in
  let idx := seq 0 (length cycles) in
  (if nodupv (members_of t) && forallb (fun v => memv v members) (members_of t) &&
      forallb (fun v => memv v (members_of t)) members then [] else [1501]) ++
  (if nodupv (map fst (tr_lookup t)) &&
      forallb (fun '(v, k) => match nth_error cycles k with Some c => memv v (fst c) | None => false end) (tr_lookup t) &&
      forallb (fun '(k, c) => forallb (fun v => match lookup_get v (tr_lookup t) with
                                                | Some k' => Nat.eqb k k' | None => false end) (fst c))
              (combine idx cycles) then [] else [1502]) ++
  (if nodupn (tr_empty t) &&
      forallb (fun k => match nth_error cycles k with Some c => Nat.eqb (length (fst c)) 0 | None => false end) (tr_empty t) &&
      forallb (fun '(k, c) => negb (Nat.eqb (length (fst c)) 0) || memn k (tr_empty t)) (combine idx cycles)
   then [] else [1503]) ++
  (if forallb (fun c => snd c =? cycle_counter (fst c)) cycles then [] else [1504]) ++
  (if (tr_viol t =? z_sum (map (fun c => Z.max 0 (snd c)) cycles)) && (tr_count t =? z_sum (map snd cycles))
   then [] else [1505]).

(* the optimiser must not worsen (violation, then counter) and must keep the vehicles *)
Definition not_worse (before after : transition) : bool :=
  (tr_viol after <? tr_viol before) || ((tr_viol after =? tr_viol before) && (tr_count after <=? tr_count before)).
Definition same_members (a b : transition) : bool :=
  forallb (fun v => memv v (members_of b)) (members_of a) && forallb (fun v => memv v (members_of a)) (members_of b) &&
  nodupv (members_of a) && nodupv (members_of b).
End TSpec.
