(* TransStmts.v — C15: every rotation-cycle operation preserves the bookkeeping invariant [TInv]
   (full statements; proofs in TransFacts.v). *)
From Coq Require Import Permutation.
From RS Require Import Base Network Transition TransSpec.

(* the tours in effect while a schedule update walks over several vehicles: already updated ones first *)
Definition eff (upd old : tours_fn) : tours_fn := fun x => match upd x with Some i => Some i | None => old x end.
Definition override (f : tours_fn) (v : vehicle_id) (i : vinfo) : tours_fn :=
  fun x => if vid_eqb x v then Some i else f x.
Definition tours_total (f : tours_fn) (members : list vehicle_id) : Prop := forall v, In v members -> f v <> None.
Definition without (v : vehicle_id) (l : list vehicle_id) : list vehicle_id := filter (fun x => negb (vid_eqb x v)) l.

Definition stmt_empty_inv : Prop :=
  forall nw tours, TInv nw tours [] {| tr_cycles := []; tr_viol := 0; tr_count := 0; tr_lookup := []; tr_empty := [] |}.

Definition stmt_add_own_inv : Prop :=
  forall nw tours m t v i t',
    TInv nw tours m t -> ~ In v m -> tours v = Some i ->
    add_vehicle_to_own_cycle nw t v i = Ok t' -> TInv nw tours (m ++ [v]) t'.

Definition stmt_update_inv : Prop :=
  forall nw upd old m t v newi t',
    TInv nw (eff upd old) m t -> tours_total (eff upd old) m -> In v m -> upd v = None ->
    update_vehicle nw t v newi upd old = Ok t' -> TInv nw (override (eff upd old) v newi) m t'.

Definition stmt_remove_inv : Prop :=
  forall nw upd old m t v t',
    TInv nw (eff upd old) m t -> tours_total (eff upd old) m -> In v m -> upd v = None ->
    remove_vehicle nw t v upd old = Ok t' -> TInv nw (eff upd old) (without v m) t'.

Definition stmt_add_end_inv : Prop :=
  forall nw upd old m t v k t',
    TInv nw (eff upd old) m t -> tours_total (eff upd old) m -> ~ In v m -> eff upd old v <> None ->
    add_vehicle_at_the_end nw t v k upd old = Ok t' -> TInv nw (eff upd old) (m ++ [v]) t'.

(* the repair matters: the pre-repair function (stale empty-cycle list) does not preserve the invariant *)
Definition stmt_add_end_prefix_refuted : Prop :=
  exists nw upd old m t v k t',
    TInv nw (eff upd old) m t /\ tours_total (eff upd old) m /\ ~ In v m /\ eff upd old v <> None /\
    add_vehicle_at_the_end_prefix nw t v k upd old = Ok t' /\ ~ TInv nw (eff upd old) (m ++ [v]) t'.

Definition stmt_move_inv : Prop :=
  forall nw tours m t v k t',
    TInv nw tours m t -> tours_total tours m -> In v m ->
    move_vehicle nw t v k tours = Ok t' ->
    TInv nw tours (without v m ++ [v]) t'.

Definition stmt_replace_cycle_inv : Prop :=
  forall nw tours m t k oldc newc t',
    TInv nw tours m t -> nth_error (tr_cycles t) k = Some oldc ->
    Permutation (fst newc) (fst oldc) -> snd newc = cycle_counter nw tours (fst newc) ->
    replace_cycle t k newc = Ok t' -> TInv nw tours m t'.

(* 3-opt reorders the cycle (same vehicles) and keeps its counter exact *)
Definition stmt_three_opt_exact : Prop :=
  forall nw tours c i j k c',
    (forall v, In v (fst c) -> tours v <> None) ->
    (i < j)%nat -> (j < k)%nat -> (k < length (fst c))%nat ->
    snd c = cycle_counter nw tours (fst c) ->
    three_opt nw c i j k tours = Ok c' ->
    Permutation (fst c') (fst c) /\ snd c' = cycle_counter nw tours (fst c').

(* every 3-opt index triple the neighbourhood enumerates is admissible: i < j < k < n (no underflow, no
   out-of-range index), for every cycle length including 0, 1, 2 *)
Definition stmt_three_opt_indices_ok : Prop :=
  forall n i j k, In (i, j, k) (three_opt_indices n) -> (i < j)%nat /\ (j < k)%nat /\ (k < n)%nat.

(* the greedy construction used by Schedule (recompute_transitions, empty): for duplicate-free vehicle lists its
   result satisfies the invariant *)
Definition stmt_new_fast_inv : Prop :=
  forall nw vehicles tours t, NoDup vehicles -> new_fast nw vehicles tours = Ok t -> TInv nw tours vehicles t.
