(* Transition.v — executable model of solution/src/{transition.rs, transition/modifications.rs,
   transition/transition_cycle.rs}. Definitions only.
   Tours enter only through three figures per vehicle: the maintenance counter of its tour, its start depot
   node and its end depot node ([vinfo]); a tours map is a partial function vehicle -> vinfo. *)
From RS Require Export Base Network.

Record vinfo := { vi_mc : Z; vi_sd : node_id; vi_ed : node_id }.
Definition tours_fn := vehicle_id -> option vinfo.

Record transition := {
  tr_cycles : list (list vehicle_id * Z);     (* TransitionCycle: vehicles, maintenance counter *)
  tr_viol : Z;                                (* total_maintenance_violation *)
  tr_count : Z;                               (* total_maintenance_counter *)
  tr_lookup : list (vehicle_id * nat);        (* cycle_lookup (a HashMap: at most one entry per key) *)
  tr_empty : list nat }.                      (* empty_cycles *)

Section Trans.
Variable nw : network.

Definition transfer_m (a b : node_id) : Z := dist_m_or (dead_head_distance_between nw a b) INF_DISTANCE.

(* updated_tours.get(v).unwrap_or_else(|| old_tours.get(v).unwrap()) *)
Definition tour_info (upd old : tours_fn) (v : vehicle_id) : res vinfo :=
  match upd v with Some x => Ok x | None => unwrap_opt (old v) end.

Definition lookup_set (v : vehicle_id) (k : nat) (l : list (vehicle_id * nat)) : list (vehicle_id * nat) :=
  (v, k) :: filter (fun '(x, _) => negb (vid_eqb x v)) l.
Definition lookup_remove (v : vehicle_id) (l : list (vehicle_id * nat)) : list (vehicle_id * nat) :=
  filter (fun '(x, _) => negb (vid_eqb x v)) l.
Definition lookup_get (v : vehicle_id) (l : list (vehicle_id * nat)) : option nat := assoc vid_eqb v l.

Fixpoint set_nth {A} (k : nat) (x : A) (l : list A) : list A :=
  match l, k with
  | [], _ => []
  | _ :: r, O => x :: r
  | y :: r, S k' => y :: set_nth k' x r
  end.

(** ** one_cluster_per_maintenance (new_fast) *)
Definition cluster := (list vehicle_id * Z)%type.

(* sort_by_key is stable *)
Definition sort_by_key {A} (key : A -> Z) (l : list A) : list A := sort_by (fun a b => key a <=? key b) l.

Definition push_to_cluster (tours : tours_fn) (c : cluster) (v : vehicle_id) : res cluster :=
  do iv <- unwrap_opt (tours v);
  do il <- unwrap_opt (match fst c with [] => None | f :: _ => tours (last (fst c) f) end);
  Ok (fst c ++ [v], snd c + (vi_mc iv + transfer_m (vi_ed il) (vi_sd iv))).

(* first index whose element satisfies p *)
Definition assign_vehicle (tours : tours_fn) (clusters : list cluster) (v : vehicle_id) : res (list cluster) :=
  do iv <- unwrap_opt (tours v);
  match index_of (fun c => snd c + vi_mc iv <=? 0) clusters with
  | Some k =>
      do c' <- push_to_cluster tours (nth k clusters ([], 0)) v;
      Ok (set_nth k c' clusters)
  | None =>
      match clusters with
      | [] => Ok [([v], vi_mc iv)]
      | _ =>
          let k := (length clusters - 1)%nat in
          do c' <- push_to_cluster tours (nth k clusters ([], 0)) v;
          Ok (set_nth k c' clusters)
      end
  end.

Definition new_fast (vehicles : list vehicle_id) (tours : tours_fn) : res transition :=
  do infos <- fold_left (fun acc v => do l <- acc; do i <- unwrap_opt (tours v); Ok (l ++ [(v, i)]))
                        vehicles (Ok []);
  let clusters0 := map (fun '(v, i) => ([v], vi_mc i)) (filter (fun '(_, i) => vi_mc i <? 0) infos) in
  let unassigned0 := filter (fun '(_, i) => negb (vi_mc i <? 0)) infos in
  let unassigned := map fst (sort_by_key (fun '(_, i) => - vi_mc i) unassigned0) in
  let clusters1 := sort_by_key (fun c : cluster => - snd c) clusters0 in
  do clusters <- fold_left (fun acc v =>
                    do cl <- acc;
                    do cl' <- assign_vehicle tours cl v;
                    Ok (sort_by_key (fun c : cluster => snd c) cl'))
                  unassigned (Ok clusters1);
  do cycles <- fold_left (fun acc (c : cluster) =>
                    do l <- acc;
                    match fst c with
                    | [] => Panic
                    | f :: _ =>
                        do il <- unwrap_opt (tours (last (fst c) f));
                        do ifst <- unwrap_opt (tours f);
                        Ok (l ++ [(fst c, snd c + transfer_m (vi_ed il) (vi_sd ifst))])
                    end) clusters (Ok []);
  let lookup := flat_map (fun '(k, c) => map (fun v => (v, k)) (fst c)) (combine (seq 0 (length cycles)) cycles) in
  Ok {| tr_cycles := cycles;
        tr_viol := z_sum (map (fun c => Z.max 0 (snd c)) cycles);
        tr_count := z_sum (map snd cycles);
        tr_lookup := lookup; tr_empty := [] |}.

(** ** queries *)
Definition get_successor_of (t : transition) (v : vehicle_id) : res vehicle_id :=
  do k <- unwrap_opt (lookup_get v (tr_lookup t));
  do c <- unwrap_opt (nth_error (tr_cycles t) k);
  do p <- unwrap_opt (index_of (vid_eqb v) (fst c));
  unwrap_opt (nth_error (fst c) (Nat.modulo (p + 1) (length (fst c)))).

(** ** modifications *)
Definition pred_succ_depots (t : transition) (v : vehicle_id) (upd old : tours_fn) : res (node_id * node_id) :=
  do k <- unwrap_opt (lookup_get v (tr_lookup t));
  do c <- unwrap_opt (nth_error (tr_cycles t) k);
  let l := fst c in
  do p <- unwrap_opt (index_of (vid_eqb v) l);
  do pr <- unwrap_opt (if Nat.eqb p 0 then (match l with [] => None | f :: _ => Some (last l f) end)
                       else nth_error l (p - 1));
  do su <- unwrap_opt (if Nat.eqb p (length l - 1) then hd_error l else nth_error l (p + 1));
  do ip <- tour_info upd old pr;
  do isu <- tour_info upd old su;
  Ok (vi_ed ip, vi_sd isu).

Definition mc_with_trips (i : vinfo) (ed_pred sd_succ : node_id) : Z :=
  vi_mc i + transfer_m ed_pred (vi_sd i) + transfer_m (vi_ed i) sd_succ.

Definition with_cycle (t : transition) (k : nat) (newc : list vehicle_id * Z) (oldc : list vehicle_id * Z)
  (lookup : list (vehicle_id * nat)) (empties : list nat) : transition :=
  {| tr_cycles := set_nth k newc (tr_cycles t);
     tr_viol := (tr_viol t + Z.max 0 (snd newc)) - Z.max 0 (snd oldc);
     tr_count := (tr_count t + snd newc) - snd oldc;
     tr_lookup := lookup; tr_empty := empties |}.

Definition update_vehicle (t : transition) (v : vehicle_id) (newi : vinfo) (upd old : tours_fn) : res transition :=
  do oldi <- unwrap_opt (old v);
  do k <- unwrap_opt (lookup_get v (tr_lookup t));
  do c <- unwrap_opt (nth_error (tr_cycles t) k);
  do newc <- (if Nat.eqb (length (fst c)) 1 then Ok (vi_mc newi + transfer_m (vi_ed newi) (vi_sd newi))
              else do (edp, sds) <- pred_succ_depots t v upd old;
                   Ok (snd c - mc_with_trips oldi edp sds + mc_with_trips newi edp sds));
  Ok (with_cycle t k (fst c, newc) c (tr_lookup t) (tr_empty t)).

Definition add_vehicle_to_own_cycle (t : transition) (v : vehicle_id) (newi : vinfo) : res transition :=
  let m := vi_mc newi + transfer_m (vi_ed newi) (vi_sd newi) in
  match rev (tr_empty t) with
  | [] =>
      Ok {| tr_cycles := tr_cycles t ++ [([v], m)]; tr_viol := tr_viol t + Z.max 0 m; tr_count := tr_count t + m;
            tr_lookup := lookup_set v (length (tr_cycles t)) (tr_lookup t); tr_empty := [] |}
  | k :: rest =>
      (* cycles[empty_cycle_idx] = new_cycle panics when the index is out of range *)
      if Nat.ltb k (length (tr_cycles t)) then
        Ok {| tr_cycles := set_nth k ([v], m) (tr_cycles t); tr_viol := tr_viol t + Z.max 0 m;
              tr_count := tr_count t + m; tr_lookup := lookup_set v k (tr_lookup t); tr_empty := rev rest |}
      else Panic
  end.

Definition remove_vehicle (t : transition) (v : vehicle_id) (upd old : tours_fn) : res transition :=
  do k <- unwrap_opt (lookup_get v (tr_lookup t));
  do c <- unwrap_opt (nth_error (tr_cycles t) k);
  let newl := filter (fun x => negb (vid_eqb x v)) (fst c) in
  do r <- (match newl with
           | [] => Ok (0, tr_empty t ++ [k])
           | _ =>
               do (edp, sds) <- pred_succ_depots t v upd old;
               do oldi <- unwrap_opt (old v);
               Ok (snd c - mc_with_trips oldi edp sds + transfer_m edp sds, tr_empty t)
           end);
  Ok (with_cycle t k (newl, fst r) c (lookup_remove v (tr_lookup t)) (snd r)).

(* empty_cycles.retain(|&idx| idx != new_cycle_idx) when the cycle was empty (returned since the repair
   "fix: add_vehicle_at_the_end returned the stale list of empty cycles") *)
Definition add_vehicle_at_the_end (t : transition) (v : vehicle_id) (k : nat) (upd old : tours_fn) : res transition :=
  do c <- unwrap_opt (nth_error (tr_cycles t) k);
  let newl := fst c ++ [v] in
  do iv <- tour_info upd old v;
  do newc <- (if Nat.eqb (length newl) 1 then Ok (vi_mc iv + transfer_m (vi_ed iv) (vi_sd iv))
              else
                do pr <- unwrap_opt (nth_error newl (length newl - 2));
                do ip <- tour_info upd old pr;
                do f <- unwrap_opt (hd_error newl);
                do ifst <- tour_info upd old f;
                let edp := vi_ed ip in let sds := vi_sd ifst in
                Ok (snd c - transfer_m edp sds + mc_with_trips iv edp sds));
  let empties := if Nat.eqb (length newl) 1 then filter (fun x => negb (Nat.eqb x k)) (tr_empty t) else tr_empty t in
  Ok (with_cycle t k (newl, newc) c (lookup_set v k (tr_lookup t)) empties).

(* before that repair: the stale list was returned *)
Definition add_vehicle_at_the_end_prefix (t : transition) (v : vehicle_id) (k : nat) (upd old : tours_fn) : res transition :=
  do t' <- add_vehicle_at_the_end t v k upd old;
  Ok {| tr_cycles := tr_cycles t'; tr_viol := tr_viol t'; tr_count := tr_count t'; tr_lookup := tr_lookup t';
        tr_empty := tr_empty t |}.

Definition no_tours : tours_fn := fun _ => None.
Definition move_vehicle (t : transition) (v : vehicle_id) (k : nat) (tours : tours_fn) : res transition :=
  do t1 <- remove_vehicle t v no_tours tours;
  add_vehicle_at_the_end t1 v k no_tours tours.

Definition replace_cycle (t : transition) (k : nat) (newc : list vehicle_id * Z) : res transition :=
  do c <- unwrap_opt (nth_error (tr_cycles t) k);
  Ok {| tr_cycles := set_nth k newc (tr_cycles t);
        tr_viol := tr_viol t + Z.max 0 (snd newc) - Z.max 0 (snd c);
        tr_count := tr_count t + snd newc - snd c;
        tr_lookup := tr_lookup t; tr_empty := tr_empty t |}.

(* TransitionCycle::three_opt (i < j < k < n expected; indexing panics otherwise) *)
Definition three_opt (c : list vehicle_id * Z) (i j k : nat) (tours : tours_fn) : res (list vehicle_id * Z) :=
  let l := fst c in
  let n := length l in
  if Nat.eqb n 0 then Panic else
  let at_ p := do v <- unwrap_opt (nth_error l p); unwrap_opt (tours v) in
  do ii <- at_ i; do ii1 <- at_ (Nat.modulo (i + 1) n);
  do ij <- at_ j; do ij1 <- at_ (Nat.modulo (j + 1) n);
  do ik <- at_ k; do ik1 <- at_ (Nat.modulo (k + 1) n);
  let m := snd c
           - transfer_m (vi_ed ii) (vi_sd ii1) - transfer_m (vi_ed ij) (vi_sd ij1) - transfer_m (vi_ed ik) (vi_sd ik1)
           + transfer_m (vi_ed ii) (vi_sd ij1) + transfer_m (vi_ed ij) (vi_sd ik1) + transfer_m (vi_ed ik) (vi_sd ii1) in
  (* slices [..i+1], [j+1..k+1], [i+1..j+1], [k+1..] panic unless i+1 <= j+1 <= k+1 <= n *)
  if Nat.leb (i + 1) (j + 1) && Nat.leb (j + 1) (k + 1) && Nat.leb (k + 1) n then
    Ok (firstn (i + 1) l ++ slice (j + 1) (k + 1) l ++ slice (i + 1) (j + 1) l ++ skipn (k + 1) l, m)
  else Panic.

(* TransitionCycleNeighborhood::neighbors_of: (0..n-2) x (i+1..n-1) x (j+1..n); since the repair
   "fix: 3-opt neighborhood underflows ..." n-2 saturates at 0 *)
Definition three_opt_indices (n : nat) : list (nat * nat * nat) :=
  flat_map (fun i => flat_map (fun j => map (fun k => (i, j, k)) (seq (j + 1) (n - (j + 1))))
                              (seq (i + 1) (n - 1 - (i + 1))))
           (seq 0 (n - 2)).
End Trans.
