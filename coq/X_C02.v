(* X_C02.v — witness for finding S5 (repaired by "fix: maximal_formation_count_for ignored the route
   segment's limit when the type has none"): the pre-repair function disagrees with the specified limit. *)
From RS Require Import Base Network NetSpec.

Definition nwx : network := {|
  nw_nodes := [(SV 4, NService {| st_type := 0; st_origin := Station 0; st_dest := Station 1; st_dep := Point 0;
                                  st_arr := Point 600; st_dist := Dist 1000; st_pass := 150; st_seated := 0;
                                  st_limit := Some 1 |})];
  nw_depots := []; nw_overflow := (0, SD 0, ED 1); nw_service := [(0, [SV 4])]; nw_maint := [];
  nw_sdepots := []; nw_edepots := []; nw_all_by_start := [(Point 0, SV 4)]; nw_type_by_start := [];
  nw_type_by_end := [];
  nw_params := {| p_forbid := false; p_min := 0; p_dht := 0; p_maxdist := 0; c_staff := 0; c_service := 0;
                  c_maint := 0; c_dh := 0; c_idle := 0 |};
  nw_nlocs := 2%nat; nw_dh := []; nw_types := [ {| vt_cap := 100; vt_seats := 50; vt_limit := None |} ];
  nw_nservice := 1; nw_planning := Len 86400 |}.

Example max_formation_spec_prefix_refuted :
  exists nw n, maximal_formation_count_for_prefix nw n <> formation_limit nw n.
Proof. exists nwx, (SV 4). vm_compute. discriminate. Qed.
Example max_formation_now : maximal_formation_count_for nwx (SV 4) = Some 1.
Proof. vm_compute. reflexivity. Qed.
