(* X_C17.v — witnesses and non-vacuity examples for C17, evaluated by the kernel (vm_compute). *)
From RS Require Import Base Network NetSpec NetFacts.

(* two back-to-back trips L0->L1 12:00-13:00 and L1->L0 13:00-14:00, zero shunting, one depot *)
Definition inst1 : instance := {|
  i_types := [ {| vt_cap := 100; vt_seats := 50; vt_limit := None |} ];
  i_nlocs := 2;
  i_depots := Some [ {| id_loc := 0; id_cap := 5; id_allowed := [(0, None)] |} ];
  i_routes := [ {| r_type := 0; r_segs := [ {| rs_origin := 0; rs_dest := 1; rs_dist := 1000; rs_dur := 3600; rs_limit := None |} ] |};
                {| r_type := 0; r_segs := [ {| rs_origin := 1; rs_dest := 0; rs_dist := 1000; rs_dur := 3600; rs_limit := None |} ] |} ];
  i_departures := [ {| d_route := 0; d_segs := [ {| ds_rseg := 0; ds_dep := 43200; ds_pass := 10; ds_seated := 5 |} ] |};
                    {| d_route := 1; d_segs := [ {| ds_rseg := 0; ds_dep := 46800; ds_pass := 10; ds_seated := 5 |} ] |} ];
  i_slots := None;
  i_dh_dur := [[0; 600]; [600; 0]];
  i_dh_dist := [[0; 1000]; [1000; 0]];
  i_params := {| p_forbid := false; p_min := 0; p_dht := 0; p_maxdist := 0;
                 c_staff := 1; c_service := 1; c_maint := 0; c_dh := 5; c_idle := 1 |} |}.

Definition nw1 : network := match load inst1 [] with Ok nw => nw | _ => 
  {| nw_nodes := []; nw_depots := []; nw_overflow := (0, SD 0, ED 0); nw_service := []; nw_maint := [];
     nw_sdepots := []; nw_edepots := []; nw_all_by_start := []; nw_type_by_start := []; nw_type_by_end := [];
     nw_params := i_params inst1; nw_nlocs := 0%nat; nw_dh := []; nw_types := []; nw_nservice := 0;
     nw_planning := Len 0 |} end.

(* non-vacuity: a loaded network satisfies the hypothesis of every C17 theorem *)
Example nw1_wf : net_wf_b nw1 = true.
Proof. vm_compute. reflexivity. Qed.

(* trip_4 ends at 13:00 exactly when trip_5 starts: it can reach it ... *)
Example nw1_tie_reach : can_reach nw1 (SV 4) (SV 5) = true.
Proof. vm_compute. reflexivity. Qed.
(* ... and the repaired enumeration lists it *)
Example nw1_pred_now : predecessors nw1 0 (SV 5) = [SD 0; SD 2; SV 4].
Proof. vm_compute. reflexivity. Qed.

(* The enumeration as it was before the repair violates the property (finding S3): the full statement
   "predecessors = exactly the nodes of the type that can reach the node" is refuted by this witness. *)
Example predecessors_prefix_exact_refuted :
  exists nw ty n m, net_wf_b nw = true /\ In ty (type_ids nw) /\
    In m (type_nodes nw ty) /\ can_reach nw m n = true /\ ~ In m (predecessors_prefix nw ty n).
Proof.
  exists nw1, 0, (SV 5), (SV 4). repeat split; try (vm_compute; auto; fail).
  vm_compute. intros [H|[H|H]]; try discriminate; auto.
Qed.
