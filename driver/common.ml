(* Glue between text files and the extracted model: int <-> Z/nat, token reader, printers. *)
open Model

let rec pos_of_int (n : int) : positive =
  if n = 1 then XH else if n land 1 = 0 then XO (pos_of_int (n lsr 1)) else XI (pos_of_int (n lsr 1))

let z_of_int (n : int) : z = if n = 0 then Z0 else if n > 0 then Zpos (pos_of_int n) else Zneg (pos_of_int (-n))

let rec int_of_pos (p : positive) : int =
  match p with XH -> 1 | XO q -> 2 * int_of_pos q | XI q -> (2 * int_of_pos q) + 1

let int_of_z (x : z) : int = match x with Z0 -> 0 | Zpos p -> int_of_pos p | Zneg p -> -int_of_pos p
let rec nat_of_int (n : int) : nat = if n <= 0 then O else S (nat_of_int (n - 1))
let rec int_of_nat (n : nat) : int = match n with O -> 0 | S m -> 1 + int_of_nat m

(* token stream *)
type stream = { toks : string array; mutable pos : int }

let stream_of_file (path : string) : stream =
  let ic = open_in path in
  let n = in_channel_length ic in
  let s = really_input_string ic n in
  close_in ic;
  let toks = String.split_on_char ' ' (String.concat " " (String.split_on_char '\n' s)) in
  { toks = Array.of_list (List.filter (fun t -> t <> "") toks); pos = 0 }

let eof st = st.pos >= Array.length st.toks
let next st = let t = st.toks.(st.pos) in st.pos <- st.pos + 1; t
let peek st = st.toks.(st.pos)
let next_int st = int_of_string (next st)
let next_z st = z_of_int (next_int st)
let next_opt_z st = let n = next_int st in if n < 0 then None else Some (z_of_int n)
let rec repeat n f = if n <= 0 then [] else let x = f () in x :: repeat (n - 1) f

exception Resolve_failed

(* a time of the instance: seconds relative to the base date as computed by the extracted Cal.rel_seconds (gen/timeconv.py
   asks this driver); TPANIC where Cal.parse_datetime = Panic, i.e. the loader's DateTime::new panics *)
let next_time st = if peek st = "TPANIC" then (ignore (next st); raise Resolve_failed) else next_z st

(* the raw format: references are identifiers; resolved by the extracted RawLoad.resolve *)
let read_raw_instance (st : stream) : instance * z list =
  let nlist f = let n = next_int st in repeat n f in
  let types = nlist (fun () ->
    let i = next_z st in let c = next_z st in let s = next_z st in let l = next_opt_z st in
    { rv_id = i; rv_cap = c; rv_seats = s; rv_limit = l }) in
  let locs = nlist (fun () -> next_z st) in
  let nd = next_int st in
  let depots = if nd < 0 then None else Some (repeat nd (fun () ->
    let l = next_z st in let c = next_z st in
    let al = nlist (fun () -> let t = next_z st in let c = next_opt_z st in (t, c)) in
    { rd_loc = l; rd_cap = c; rd_allowed = al })) in
  let routes = nlist (fun () ->
    let i = next_z st in let t = next_z st in
    let segs = nlist (fun () ->
      let gi = next_z st in let o = next_z st in let d = next_z st in let di = next_z st in let du = next_z st in
      let l = next_opt_z st in
      { rg_id = gi; rg_origin = o; rg_dest = d; rg_dist = di; rg_dur = du; rg_limit = l }) in
    { rr_id = i; rr_type = t; rr_segs = segs }) in
  let deps = nlist (fun () ->
    let r = next_z st in
    let segs = nlist (fun () ->
      let g = next_z st in let dp = next_time st in let p = next_z st in let s = next_z st in
      { rds_rseg = g; rds_dep = dp; rds_pass = p; rds_seated = s }) in
    { rdp_route = r; rdp_segs = segs }) in
  let nsl = next_int st in
  let slots = if nsl < 0 then None else Some (repeat nsl (fun () ->
    let l = next_z st in let s = next_time st in let e = next_time st in let t = next_z st in
    { rsl_loc = l; rsl_start = s; rsl_end = e; rsl_tracks = t })) in
  let idx = nlist (fun () -> next_z st) in
  let dur = nlist (fun () -> nlist (fun () -> next_z st)) in
  let dst = nlist (fun () -> nlist (fun () -> next_z st)) in
  let forbid = next_int st <> 0 in
  let pmin = next_z st in let pdht = next_z st in let pmax = next_z st in
  let cst = next_z st in let csv = next_z st in let cmt = next_z st in let cdh = next_z st in
  let cid = next_z st in
  let params = { p_forbid = forbid; p_min = pmin; p_dht = pdht; p_maxdist = pmax; c_staff = cst;
                 c_service = csv; c_maint = cmt; c_dh = cdh; c_idle = cid } in
  let perm = nlist (fun () -> next_z st) in
  let raw = { ri_types = types; ri_locs = locs; ri_depots = depots; ri_routes = routes; ri_departures = deps;
              ri_slots = slots; ri_dh_indices = idx; ri_dh_dur = dur; ri_dh_dist = dst; ri_params = params } in
  match resolve raw with
  | Ok i -> (i, perm)
  | _ -> raise Resolve_failed

let rec read_instance (st : stream) : instance * z list =
  if peek st = "RAW" then (ignore (next st); read_raw_instance st) else
  let ntypes = next_int st in
  let types = repeat ntypes (fun () ->
    let c = next_z st in let s = next_z st in let l = next_opt_z st in
    { vt_cap = c; vt_seats = s; vt_limit = l }) in
  let nlocs = next_int st in
  let nd = next_int st in
  let depots = if nd < 0 then None else Some (repeat nd (fun () ->
    let l = next_z st in let c = next_z st in let na = next_int st in
    let al = repeat na (fun () -> let t = next_z st in let c = next_opt_z st in (t, c)) in
    { id_loc = l; id_cap = c; id_allowed = al })) in
  let nr = next_int st in
  let routes = repeat nr (fun () ->
    let t = next_z st in let ns = next_int st in
    let segs = repeat ns (fun () ->
      let o = next_z st in let d = next_z st in let di = next_z st in let du = next_z st in
      let l = next_opt_z st in
      { rs_origin = o; rs_dest = d; rs_dist = di; rs_dur = du; rs_limit = l }) in
    { r_type = t; r_segs = segs }) in
  let ndp = next_int st in
  let deps = repeat ndp (fun () ->
    let r = next_int st in let ns = next_int st in
    let segs = repeat ns (fun () ->
      let g = next_int st in let dp = next_z st in let p = next_z st in let s = next_z st in
      { ds_rseg = nat_of_int g; ds_dep = dp; ds_pass = p; ds_seated = s }) in
    { d_route = nat_of_int r; d_segs = segs }) in
  let nsl = next_int st in
  let slots = if nsl < 0 then None else Some (repeat nsl (fun () ->
    let l = next_z st in let s = next_z st in let e = next_z st in let t = next_z st in
    { is_loc = l; is_start = s; is_end = e; is_tracks = t })) in
  let dur = repeat nlocs (fun () -> repeat nlocs (fun () -> next_z st)) in
  let dst = repeat nlocs (fun () -> repeat nlocs (fun () -> next_z st)) in
  let forbid = next_int st <> 0 in
  let pmin = next_z st in let pdht = next_z st in let pmax = next_z st in
  let cst = next_z st in let csv = next_z st in let cmt = next_z st in let cdh = next_z st in
  let cid = next_z st in
  let params = { p_forbid = forbid; p_min = pmin; p_dht = pdht; p_maxdist = pmax; c_staff = cst;
                 c_service = csv; c_maint = cmt; c_dh = cdh; c_idle = cid } in
  let np = next_int st in
  let perm = repeat np (fun () -> next_z st) in
  ({ i_types = types; i_nlocs = nat_of_int nlocs; i_depots = depots; i_routes = routes;
     i_departures = deps; i_slots = slots; i_dh_dur = dur; i_dh_dist = dst; i_params = params }, perm)

(* printers *)
let nid (n : node_id) : string =
  match n with
  | SD i -> "sdep_" ^ string_of_int (int_of_z i)
  | SV i -> "trip_" ^ string_of_int (int_of_z i)
  | MT i -> "main_" ^ string_of_int (int_of_z i)
  | ED i -> "edep_" ^ string_of_int (int_of_z i)

let parse_nid (s : string) : node_id =
  let k = String.index s '_' in
  let i = z_of_int (int_of_string (String.sub s (k + 1) (String.length s - k - 1))) in
  match String.sub s 0 k with
  | "sdep" -> SD i | "trip" -> SV i | "main" -> MT i | "edep" -> ED i
  | _ -> failwith ("bad node id " ^ s)

let vid (v : vehicle_id) : string =
  match v with Veh i -> "veh_" ^ string_of_int (int_of_z i) | Dummy i -> "dummy_" ^ string_of_int (int_of_z i)

let parse_vid (s : string) : vehicle_id =
  let k = String.index s '_' in
  let i = z_of_int (int_of_string (String.sub s (k + 1) (String.length s - k - 1))) in
  match String.sub s 0 k with
  | "veh" -> Veh i | "dummy" -> Dummy i | _ -> failwith ("bad vehicle id " ^ s)

let ids (l : node_id list) : string = String.concat " " (List.map nid l)
let vids (l : vehicle_id list) : string = String.concat " " (List.map vid l)
let zs (x : z) : string = string_of_int (int_of_z x)
let dt (t : datetime) : string = match t with Earliest -> "E" | Latest -> "L" | Point s -> zs s
let dur (d : duration) : string = match d with Len n -> zs n | DurInf -> "INF"
let dist (d : dist) : string = match d with Dist m -> zs m | DistInf -> "INF"
let loc (l : loc) : string = match l with Station i -> zs i | Nowhere -> "N"
let optz (o : z option) : string = match o with Some x -> zs x | None -> "-"
let res_str (f : 'a -> string) (r : 'a res) : string =
  match r with Ok a -> f a | Err -> "ERR" | Panic -> "PANIC" | OutOfFuel -> "OUTOFFUEL"
