(* `f32`: the extracted F32.v operations on the same operand list as the harness sub-command `f32`. *)
open Model
open Common

(* decimal string -> Z (u64 values exceed OCaml's int) *)
let z_of_string (s : string) : z =
  let ten = z_of_int 10 in
  let acc = ref Z0 in
  String.iter (fun c -> acc := Z.add (Z.mul !acc ten) (z_of_int (Char.code c - 48))) s;
  !acc

let show (x : f32) : string = match x with FNaN -> "NAN" | _ -> zs (f_bits x)

let run (st : stream) (b : Buffer.t) : unit =
  let pr fmt = Printf.bprintf b fmt in
  while not (eof st) do
    match next st with
    | "u64" -> let s = next st in pr "u64 %s -> %s\n" s (show (f_of_u64 (z_of_string s)))
    | "div" -> let x = next_z st in let y = next_z st in
      pr "div %s %s -> %s\n" (zs x) (zs y) (show (f_div (f_of_bits x) (f_of_bits y)))
    | "add" -> let x = next_z st in let y = next_z st in
      pr "add %s %s -> %s\n" (zs x) (zs y) (show (f_add (f_of_bits x) (f_of_bits y)))
    | "cmp" -> let x = next_z st in let y = next_z st in
      let r = match f_cmp (f_of_bits x) (f_of_bits y) with
        | None -> "NONE" | Some Lt -> "LT" | Some Eq -> "EQ" | Some Gt -> "GT" in
      pr "cmp %s %s -> %s ge1=%b\n" (zs x) (zs y) r (f_ge (f_of_bits x) f_one)
    | _ -> ()
  done
