(* `flowcheck` (C14): model flow network vs recorded network, feasibility and decomposition of the recorded
   flow, and the optimality certificate: potentials are computed here by (untrusted) Bellman-Ford on the
   residual graph and then CHECKED by the extracted, proved [check_optimal]. *)
open Model
open Common

let code_of_label (s : string) : z =
  (* "L:trip_5" / "R:depot_2" -> node code *)
  let left = s.[0] = 'L' in
  let rest = String.sub s 2 (String.length s - 2) in
  let k = String.index rest '_' in
  let kind = String.sub rest 0 k in
  let i = int_of_string (String.sub rest (k + 1) (String.length rest - k - 1)) in
  if kind = "depot" then z_of_int (4 * i + (if left then 2 else 3)) else z_of_int (4 * i + (if left then 0 else 1))

let label_of_code (nw : network) (c : z) : string =
  let c = int_of_z c in
  let side = if c mod 2 = 0 then "L" else "R" in
  if c mod 4 >= 2 then Printf.sprintf "%s:depot_%d" side (c / 4)
  else
    let k = c / 4 in
    let id = List.find_opt (fun (n, _) -> int_of_z (nid_idx n) = k) nw.nw_nodes in
    match id with Some (n, _) -> Printf.sprintf "%s:%s" side (nid n) | None -> Printf.sprintf "%s:node_%d" side k

(* Bellman-Ford potentials on the residual graph of (net, f): forward arc if f < upper (cost c), backward arc
   if f > lower (cost -c); all distances start at 0 (virtual source). Returns None on a negative cycle. *)
let potentials (net : fedge list) (f : z list) : (z * z) list option =
  let arcs = List.concat (List.map2 (fun e x ->
    let x = int_of_z x in
    (if x < int_of_z e.fe_upper then [(int_of_z e.fe_tail, int_of_z e.fe_head, int_of_z e.fe_cost)] else []) @
    (if x > int_of_z e.fe_lower then [(int_of_z e.fe_head, int_of_z e.fe_tail, - (int_of_z e.fe_cost))] else [])) net f) in
  let nodes = List.sort_uniq compare (List.concat (List.map (fun e -> [int_of_z e.fe_tail; int_of_z e.fe_head]) net)) in
  let d = Hashtbl.create 64 in
  List.iter (fun v -> Hashtbl.replace d v 0) nodes;
  let n = List.length nodes in
  let changed = ref true in
  let rounds = ref 0 in
  while !changed && !rounds <= n + 1 do
    changed := false; incr rounds;
    List.iter (fun (u, v, c) ->
      let du = Hashtbl.find d u and dv = Hashtbl.find d v in
      if du + c < dv then (Hashtbl.replace d v (du + c); changed := true)) arcs
  done;
  if !changed then None else Some (List.map (fun v -> (z_of_int v, z_of_int (Hashtbl.find d v))) nodes)

let run (st : stream) (b : Buffer.t) : unit =
  let (inst, perm) = read_instance st in
  match load inst perm with
  | Ok nw ->
    let pr fmt = Printf.bprintf b fmt in
    pr "load OK\n";
    (* the modelled slot distribution (SlotDist.v), compared with the SLOT lines of the hook by the comparator *)
    (match distribute nw with
     | Ok a -> List.iter (fun (ty, l) -> List.iter (fun (m, c) -> pr "MSLOT %s %s %s\n" (zs ty) (nid m) (zs c)) l) a;
               pr "MSLOTS OK\n"
     | _ -> pr "MSLOTS PANIC\n");
    (* the i64 guard of the flow network (FlowGuard.v) for the distributed slots of every type *)
    (match distribute nw with
     | Ok a -> List.iter (fun ty -> match slots_of a ty with
                 | Ok sl -> pr "MGUARD %s %s\n" (zs ty) (match cost_guard nw ty sl with Ok _ -> "OK" | _ -> "PANIC")
                 | _ -> ()) (type_ids nw)
     | _ -> ());
    while not (eof st) do
      match next st with
      | "MCFTYPE" ->
        let ty = next_z st in
        let sp = next st in
        let spawn_impl = int_of_string (String.sub sp 6 (String.length sp - 6)) in
        let slots = ref [] and edges = ref [] and tours = ref [] and dsteps = ref [] in
        let fin = ref false in
        while not !fin do
          match next st with
          | "SLOT" -> let m = parse_nid (next st) in let c = next_z st in slots := (m, c) :: !slots
          | "EDGE" ->
            let t = next st in let h = next st in
            let lo = next_z st in let up = next_z st in let c = next_z st in let f = next_z st in
            edges := ({ fe_tail = code_of_label t; fe_head = code_of_label h; fe_lower = lo; fe_upper = up; fe_cost = c }, f) :: !edges
          | "DSTEP" -> let n = parse_nid (next st) in let c = code_of_label (next st) in dsteps := (n, c) :: !dsteps
          | "FTOUR" ->
            let rec rd acc = if eof st then acc else
              let t = peek st in
              if t = "FTOUR" || t = "ENDMCF" || t = "EDGE" || t = "SLOT" || t = "DSTEP" then acc else (ignore (next st); rd (parse_nid t :: acc)) in
            tours := List.rev (rd []) :: !tours
          | "ENDMCF" -> fin := true
          | t -> failwith ("unexpected token in MCF block: " ^ t)
        done;
        let slots = List.rev !slots in
        let net = List.map fst !edges and f = List.map snd !edges in
        let model_net = build_flow_network nw ty slots in
        List.iter (fun e -> pr "MEDGE %s %s %s %s %s %s\n" (zs ty) (label_of_code nw e.fe_tail) (label_of_code nw e.fe_head)
                               (zs e.fe_lower) (zs e.fe_upper) (zs e.fe_cost)) model_net;
        let feas = feasible net f in
        let dec = is_decomposition nw net f !tours in
        let cert = match potentials net f with
          | Some pi -> check_optimal net f (pi_of pi)
          | None -> false in
        (* the decoding replayed on Decode.v with the recorded order of the entering flow units *)
        let steps = List.rev !dsteps in
        let order n = List.filter_map (fun (m, c) -> if nid_eqb m n then Some c else None) steps in
        let impl_tours = List.rev !tours in
        let dec_model = match decode nw ty slots order with
          | Ok ts -> if List.length ts = List.length impl_tours && List.for_all2 (fun a b -> nids_eqb a b) ts impl_tours
                     then "equal" else "differs"
          | _ -> "panic" in
        pr "DECODE %s model=%s order_ok=%b steps=%d\n" (zs ty) dec_model (order_ok_b nw ty slots order net f) (List.length steps);
        pr "FLOW %s spawn_model=%s spawn_impl=%d feasible=%b decomposition=%b certificate=%b cost=%s ntours=%d lower_total=%s\n"
          (zs ty) (zs (spawning_cost nw ty slots)) spawn_impl feas dec cert (zs (flow_cost net f)) (List.length !tours)
          (zs (total_lower_bound nw ty slots))
      | _ -> ()
    done
  | _ -> Buffer.add_string b "load PANIC\n"
