open Common
let () =
  let cmd = Sys.argv.(1) in
  let st = stream_of_file Sys.argv.(2) in
  let b = Buffer.create 65536 in
  (try (match cmd with
   | "net" -> Net.run st b
   | "tour" -> Tour.run st b
   | "schedcheck" -> Schedobs.run_check st b
   | "outcheck" -> Outcheck.run st b
   | "trans" -> Trans.run st b
   | "opscheck" -> Opscheck.run st b
   | "flowcheck" -> Flowcheck.run st b
   | "opsmodel" -> Opsmodel.run st b
   | "neighmodel" -> Neighmodel.run st b
   | "pipemodel" -> Pipemodel.run st b
   | "f32" -> F32ops.run st b
   | "time" -> Timeops.run st b
   | _ -> prerr_endline ("unknown command " ^ cmd); exit 2)
   (* a reference of the raw instance does not resolve: the loader's HashMap index / find(..).unwrap() panic *)
   with Resolve_failed -> Buffer.add_string b "load PANIC\n");
  let oc = open_out Sys.argv.(3) in
  Buffer.output_buffer oc b; close_out oc
