(* `neighmodel`: replays a neighbourhood walk on the model (Swaps.v over Schedule.v): start = the recorded
   min-cost-flow tours spawned in vehicle-id order, then improve_depots(None); at each state the candidate list
   (count and the dumped candidates by index) and the picked successor must equal the implementation's. *)
open Model
open Common
open Schedobs

let run (st : stream) (b : Buffer.t) : unit =
  let (inst, perm) = read_instance st in
  match load inst perm with
  | Ok nw ->
    let pr fmt = Printf.bprintf b fmt in
    pr "load OK\n";
    pr "perm %s\n" (String.concat " " (List.map zs perm));
    let nwalk = next_int st in
    let picks = repeat nwalk (fun () -> next_int st) in
    let ndump = next_int st in   (* list of (depth, index) the implementation dumped *)
    let dumped = repeat ndump (fun () -> let d = next_int st in let i = next_int st in (d, i)) in
    (* the mcf block *)
    let mcf = ref None in
    while not (eof st) do
      match next st with
      | "SCHED" -> let (label, o) = read_sched st in if label = "mcf" && !mcf = None then mcf := Some o
      | _ -> ()
    done;
    (match !mcf, empty_schedule nw with
     | Some o, Ok s0 ->
       let vs = List.sort (fun ((a, _), _) ((c, _), _) -> match vid_cmp a c with Lt -> -1 | Eq -> 0 | Gt -> 1) o.so_vehicles in
       let start = List.fold_left (fun acc ((_, ty), t) ->
         match acc with
         | Ok s -> (match spawn_vehicle_for_path nw s ty t.t_nodes with Ok (s2, _) -> Ok s2 | Err -> Err | _ -> Panic)
         | e -> e) (Ok s0) vs in
       (match start with
        | Ok s1 ->
          Opsmodel.dump_schedule nw s1 "mcf" b;
          (match improve_depots nw s1 None with
           | Ok s2 ->
             let state = ref s2 in
             let last = ref None in
             let stop = ref false in
             List.iteri (fun d pick ->
               if not !stop then begin
                 Opsmodel.dump_schedule nw !state "base" b;
                 match neighbors_from nw !state !last with
                 | Ok cs ->
                   let n = List.length cs in
                   pr "NEIGH %d last=%s ncand=%d\n" d (match !last with Some p -> "px:" ^ vid p | None -> "-") n;
                   pr "BASEUNCHANGED 1\n";
                   if n = 0 then stop := true else begin
                     List.iter (fun (dd, i) ->
                       if dd = d && i < n then begin
                         pr "CAND %d %d\n" d i;
                         Opsmodel.dump_schedule nw (snd (List.nth cs i)) "cand" b
                       end) dumped;
                     let (c, s') = List.nth cs (pick mod n) in
                     state := s';
                     last := (match c with CExch (_, p, _) -> Some p | _ -> None)
                   end
                 | _ -> pr "NEIGH %d PANIC\n" d; stop := true
               end) picks
           | _ -> pr "start PANIC\n")
        | _ -> pr "start MODELFAIL\n")
     | _, _ -> pr "start NOMCF\n")
  | _ -> Buffer.add_string b "load PANIC\n"
