(* `net`: the model's counterpart of harness/src/net.rs — same lines, same order. *)
open Model
open Common

let sorted_node_ids (nw : network) : node_id list =
  List.sort (fun a b -> match nid_cmp a b with Lt -> -1 | Eq -> 0 | Gt -> 1) (List.map fst nw.nw_nodes)

let dump_network (nw : network) (b : Buffer.t) : unit =
  let pr fmt = Printf.bprintf b fmt in
  let types = type_ids nw in
  pr "planning %s\n" (dur nw.nw_planning);
  pr "ntypes %d\n" (List.length types);
  pr "nservice %s\n" (zs nw.nw_nservice);
  let nodes = sorted_node_ids nw in
  List.iter (fun n ->
    let x = nd nw n in
    let (kind, ty, pass, seated, limit, tracks, depot) =
      match x with
      | NStart d -> ("S", "-", "-", "-", "-", "-", zs d.dn_depot)
      | NEnd d -> ("E", "-", "-", "-", "-", "-", zs d.dn_depot)
      | NService s -> ("V", zs s.st_type, zs s.st_pass, zs s.st_seated, optz s.st_limit, "-", "-")
      | NMaint m -> ("M", "-", "-", "-", "-", zs m.ms_tracks, "-") in
    pr "node %s kind=%s start=%s end=%s sloc=%s eloc=%s dist=%s type=%s pass=%s seated=%s limit=%s tracks=%s depot=%s\n"
      (nid n) kind (dt (n_start_time x)) (dt (n_end_time x)) (loc (n_start_loc x)) (loc (n_end_loc x))
      (dist (n_travel_dist x)) ty pass seated limit tracks depot) nodes;
  List.iter (fun (d, ((dp, s), e)) ->
    let caps = List.map (fun t -> zs (capacity_of nw d t)) types in
    pr "depot %s loc=%s total=%s caps=%s snode=%s enode=%s\n" (zs d) (loc dp.dp_loc)
      (zs (total_capacity_of nw d)) (String.concat "," caps) (nid (get_start_depot_node nw d))
      (nid (get_end_depot_node nw d));
    ignore s; ignore e) nw.nw_depots;
  let ((od, os), oe) = nw.nw_overflow in
  pr "overflow %s %s %s\n" (zs od) (nid os) (nid oe);
  List.iter (fun t -> pr "svc %s : %s\n" (zs t) (ids (service_nodes nw t))) types;
  pr "maint : %s\n" (ids nw.nw_maint);
  pr "considered %b\n" (maintenance_considered nw);
  pr "sdepots : %s\n" (ids nw.nw_sdepots);
  pr "edepots : %s\n" (ids nw.nw_edepots);
  pr "allbystart : %s\n" (ids (List.map snd nw.nw_all_by_start));
  pr "allservice : %s\n" (ids (all_service_nodes nw));
  List.iter (fun a ->
    pr "reach %s : %s\n" (nid a) (ids (List.filter (fun x -> can_reach nw a x) nodes))) nodes;
  List.iter (fun t ->
    pr "bystart %s : %s\n" (zs t) (ids (List.map snd (lookup_sorted t nw.nw_type_by_start)));
    List.iter (fun a ->
      pr "succ %s %s : %s\n" (zs t) (nid a) (ids (successors nw t a));
      pr "pred %s %s : %s\n" (zs t) (nid a) (ids (predecessors nw t a))) nodes) types;
  List.iter (fun n ->
    match nd nw n with
    | NService s ->
      pr "req %s %s %s\n" (zs s.st_type) (nid n) (zs (number_of_vehicles_required_to_serve nw s.st_type n));
      pr "maxform %s %s\n" (nid n) (optz (maximal_formation_count_for nw n))
    | _ -> ()) nodes;
  let locs = List.init (int_of_nat nw.nw_nlocs) (fun k -> Station (z_of_int k)) @ [Nowhere] in
  List.iter (fun l ->
    pr "sdsort %s : %s\n" (loc l) (ids (start_depots_sorted_by_distance_to nw l));
    pr "edsort %s : %s\n" (loc l) (ids (end_depots_sorted_by_distance_from nw l))) locs;
  List.iter (fun a -> List.iter (fun c ->
    pr "dh %s %s %s %s\n" (loc a) (loc c) (dist (loc_distance nw a c)) (dur (loc_travel_time nw a c))) locs) locs;
  List.iter (fun a -> List.iter (fun c ->
    if (is_depot (nd nw a) && is_depot (nd nw c)) || not (can_reach nw a c) then ()
    else
      pr "pair %s %s mindur=%s dht=%s dhd=%s idle=%s\n" (nid a) (nid c)
        (dur (minimal_duration_between nw a c)) (dur (dead_head_time_between nw a c))
        (dist (dead_head_distance_between nw a c)) (res_str dur (idle_time_between nw a c))) nodes) nodes

let run (st : stream) (b : Buffer.t) : unit =
  let (inst, perm) = read_instance st in
  Printf.bprintf b "valid %b\n" (valid_instance_b inst);
  match load inst perm with
  | Ok nw ->
    Buffer.add_string b "load OK\n";
    Printf.bprintf b "perm %s\n" (String.concat " " (List.map zs perm));
    Printf.bprintf b "wf %b\n" (net_wf_b nw);
    Printf.bprintf b "maxvehicles %s\n" (zs (max_vehicles nw));
    Printf.bprintf b "ovf %b\n" (overflow_ok_b nw);
    Printf.bprintf b "netok %b\n" (net_ok_b nw && dists_finite_b nw && dh_dists_finite_b nw);
    dump_network nw b
  | _ -> Buffer.add_string b "load PANIC\n"
