(* `opscheck`: C09/C10 checkers on every state of an operation history plus the C13 effect relation
   (check_op) between consecutive states. *)
open Model
open Common
open Schedobs

let read_op (st : stream) : string * opobs =
  let label = next st in
  let kind = next st in
  let nodes () = let k = next_int st in repeat k (fun () -> parse_nid (next st)) in
  let op =
    match kind with
    | "spawn" -> let ty = next_z st in let p = nodes () in let v = parse_vid (next st) in OSpawn (ty, p, v)
    | "spawn_dummy" -> let d = parse_vid (next st) in let ty = next_z st in let v = parse_vid (next st) in OSpawnDummy (d, ty, v)
    | "delete" -> ODelete (parse_vid (next st))
    | "addpath" ->
      let v = parse_vid (next st) in let p = nodes () in
      let c = next_int st in
      let conflict = if c < 0 then None else Some (repeat c (fun () -> parse_nid (next st))) in
      OAddPath (v, p, conflict)
    | "removeseg" -> let v = parse_vid (next st) in let a = parse_nid (next st) in let b = parse_nid (next st) in ORemoveSeg (v, a, b)
    | "fit" ->
      let p = parse_vid (next st) in let a = parse_nid (next st) in let b = parse_nid (next st) in
      let r = parse_vid (next st) in OFit (p, a, b, r)
    | "override" ->
      let p = parse_vid (next st) in let a = parse_nid (next st) in let b = parse_nid (next st) in
      let r = parse_vid (next st) in let d = next st in
      OOverride (p, a, b, r, (if d = "-" then None else Some (parse_vid d)))
    | "improve" -> let k = next_int st in OImprove (repeat k (fun () -> parse_vid (next st)))
    | "enddepots" -> OEndDepots
    | "recompute" -> ORecompute
    | k -> failwith ("unknown op kind " ^ k) in
  (label, op)

let run (st : stream) (b : Buffer.t) : unit =
  let (inst, perm) = read_instance st in
  match load inst perm with
  | Ok nw ->
    Buffer.add_string b "load OK\n";
    let prev = ref None in
    let pending = ref [] in
    while not (eof st) do
      match next st with
      | "OPX" -> let (l, op) = read_op st in pending := (l, op) :: !pending
      | "SCHED" ->
        let (label, o) = read_sched st in
        let spec =
          match !prev, List.assoc_opt label !pending with
          | Some p, Some op -> codes (check_op nw p o op)
          | _, _ -> "ok" in
        Printf.bprintf b "CHK %s exact=%s inv=%s spec=%s\n" label (codes (check_exact nw o)) (codes (check_inv nw o)) spec;
        prev := Some o
      | _ -> ()
    done
  | _ -> Buffer.add_string b "load PANIC\n"
