(* `opsmodel`: replays an operation history on the model's Schedule (Schedule.v) and prints the same lines as
   harness/src/ops.rs (OP outcome lines and SCHED dumps). *)
open Model
open Common

let dump_tour_tokens (t : tour) : string =
  Printf.sprintf "%d %d %s %s %s %s %d %s" (if t.t_dummy then 1 else 0) (if t.t_vm then 1 else 0) (dur t.t_useful)
    (dist t.t_sdist) (dist t.t_ddist) (zs t.t_costs) (List.length t.t_nodes) (ids t.t_nodes)

let cmp_nid a b = match nid_cmp a b with Lt -> -1 | Eq -> 0 | Gt -> 1

let dump_schedule (nw : network) (s : schedule) (label : string) (b : Buffer.t) : unit =
  let pr fmt = Printf.bprintf b fmt in
  let (ua, ub) = s.s_unserved in
  pr "SCHED %s %d %d %s %s %s %s\n" label (List.length s.s_vehicles) (List.length s.s_dummies) (zs s.s_costs) (zs ua) (zs ub) (zs s.s_viol);
  let types = type_ids nw in
  List.iter (fun v ->
    match vget v s.s_vehicles, vget v s.s_tours with
    | Some ty, Some t -> pr "V %s %s %s\n" (vid v) (zs ty) (dump_tour_tokens t)
    | _ -> pr "V %s MISSING\n" (vid v)) (vehicles_iter_all nw s);
  List.iter (fun d -> match vget d s.s_dummies with
    | Some t -> pr "D %s %s\n" (vid d) (dump_tour_tokens t) | None -> pr "D %s MISSING\n" (vid d)) s.s_dummy_ids;
  List.iter (fun n ->
    let f = match nget n s.s_forms with Some f -> List.map fst f | None -> [] in
    pr "F %s %d %s\n" (nid n) (List.length f) (vids f)) (List.sort cmp_nid (coverable_nodes nw));
  let depots = List.sort compare (List.map (fun (d, _) -> int_of_z d) nw.nw_depots) in
  List.iter (fun d ->
    let dz = z_of_int d in
    List.iter (fun ty ->
      let (sp, de) = match uget (dz, ty) s.s_usage with Some x -> x | None -> ([], []) in
      pr "U %d %s %d %d\n" d (zs ty) (List.length sp) (List.length sp - List.length de)) types;
    pr "UT %d %s\n" d (zs (spawned_total nw s.s_usage dz))) depots;
  List.iter (fun ty ->
    match zget ty s.s_trans with
    | Some tr ->
      pr "T %s %s %s %d\n" (zs ty) (zs tr.tr_viol) (zs tr.tr_count) (List.length tr.tr_cycles);
      List.iteri (fun k (l, c) -> pr "C %s %d %s %d %s\n" (zs ty) k (zs c) (List.length l) (vids l)) tr.tr_cycles;
      List.iter (fun v ->
        pr "N %s %s\n" (vid v) (match get_successor_of tr v with Ok x -> vid x | _ -> "PANIC")) (vehicles_iter s ty)
    | None -> pr "T %s MISSING\n" (zs ty)) types;
  pr "END\n"

type outcome = OOk of schedule * string | OErr | OSkip | OPanic

let run (st : stream) (b : Buffer.t) : unit =
  let (inst, perm) = read_instance st in
  match load inst perm with
  | Ok nw ->
    let pr fmt = Printf.bprintf b fmt in
    pr "load OK\n";
    pr "perm %s\n" (String.concat " " (List.map zs perm));
    (match empty_schedule nw with
     | Ok s0 ->
       let s = ref s0 in
       dump_schedule nw !s "init" b;
       let nops = next_int st in
       for n = 0 to nops - 1 do
         let kind = next st in
         let real = vehicles_iter_all nw !s in
         let dummies = !s.s_dummy_ids in
         let all = real @ dummies in
         let pick l k = if l = [] then None else Some (List.nth l (k mod List.length l)) in
         let newest l = match l with [] -> None | x :: r ->
           Some (List.fold_left (fun a bb -> match vid_cmp a bb with Lt -> bb | _ -> a) x r) in
         let pick3 k = if k >= 4000 then newest dummies else if k >= 3000 then newest real
           else if k >= 2000 then pick real (k - 2000) else if k >= 1000 then pick dummies (k - 1000) else pick all k in
         let ((_, osd), oed) = nw.nw_overflow in
         let on_overflow v = match tour_of !s v with
           | Ok t -> nid_cmp (first_node t) osd = Eq || nid_cmp (last_node t) oed = Eq | _ -> false in
         let pick4 k = if k >= 5000 then pick (List.filter on_overflow real) (k - 5000) else pick3 k in
         let read_nodes () = let k = next_int st in repeat k (fun () -> parse_nid (next st)) in
         let segment_at v i delta =
           match tour_of !s v with
           | Ok t ->
             let len = List.length t.t_nodes in
             let a = i mod len in
             let bb = min (a + delta) (len - 1) in
             let all_dep = ref true in
             for p = a to bb do if not (is_depot (nd nw (List.nth t.t_nodes p))) then all_dep := false done;
             if !all_dep then None else Some (List.nth t.t_nodes a, List.nth t.t_nodes bb)
           | _ -> None in
         let desc = ref "" in
         let lift r f = match r with Ok x -> f x | Err -> OErr | _ -> OPanic in
         let outcome =
           match kind with
           | "spawn" ->
             let ty = next_z st in let nodes = read_nodes () in
             desc := Printf.sprintf "%s %s" (zs ty) (ids nodes);
             lift (spawn_vehicle_for_path nw !s ty nodes) (fun (s2, v) -> OOk (s2, "new=" ^ vid v))
           | "spawn_dummy" ->
             let k = next_int st in let ty = next_z st in
             (match pick dummies k with
              | None -> OSkip
              | Some d ->
                desc := Printf.sprintf "%s %s" (vid d) (zs ty);
                lift (spawn_to_replace_dummy nw !s d ty) (fun (s2, v) -> OOk (s2, "new=" ^ vid v)))
           | "delete" ->
             let k = next_int st in
             (match pick3 k with
              | None -> OSkip
              | Some v -> desc := vid v; lift (replace_vehicle_by_dummy nw !s v) (fun s2 -> OOk (s2, "")))
           | "addpath" ->
             let k = next_int st in let nodes = read_nodes () in
             let pk = if k >= 1000 then (match pick4 k with Some v when List.exists (fun x -> vid_eqb x v) real -> Some v | _ -> None)
               else pick real k in
             (match pk with
              | None -> OSkip
              | Some v ->
                desc := Printf.sprintf "%s %s" (vid v) (ids nodes);
                (match path_new nw nodes with
                 | Ok (Some p) ->
                   lift (add_path_to_vehicle_tour nw !s v p) (fun (s2, c) ->
                     OOk (s2, "conflict=" ^ (match c with Some l -> String.concat "," (List.map nid l) | None -> "-")))
                 | _ -> OSkip))
           | "removeseg" ->
             let k = next_int st in let i = next_int st in let dl = next_int st in
             (match pick all k with
              | None -> OSkip
              | Some v ->
                (match segment_at v i dl with
                 | None -> OSkip
                 | Some (a, bb) ->
                   desc := Printf.sprintf "%s %s %s" (vid v) (nid a) (nid bb);
                   lift (remove_segment nw !s (a, bb) v) (fun s2 -> OOk (s2, ""))))
           | "fit" | "override" ->
             let kp = next_int st in let i = next_int st in let dl = next_int st in let kr = next_int st in
             (match pick4 kp, pick4 kr with
              | Some p, Some r ->
                (match segment_at p i dl with
                 | None -> OSkip
                 | Some (a, bb) ->
                   desc := Printf.sprintf "%s %s %s %s" (vid p) (nid a) (nid bb) (vid r);
                   if kind = "fit" then lift (fit_reassign nw !s (a, bb) p r) (fun s2 -> OOk (s2, ""))
                   else lift (override_reassign nw !s (a, bb) p r) (fun (s2, d) ->
                     OOk (s2, "dummy=" ^ (match d with Some x -> vid x | None -> "-"))))
              | _ -> OSkip)
           | "improve" ->
             let nk = next_int st in let ks = repeat nk (fun () -> next_int st) in
             if ks = [] then (desc := "all"; lift (improve_depots nw !s None) (fun s2 -> OOk (s2, "")))
             else if real = [] then OSkip
             else begin
               let vs = List.map (fun k -> match pick real k with Some v -> v | None -> failwith "pick") ks in
               let vs = List.sort_uniq (fun a bb -> match vid_cmp a bb with Lt -> -1 | Eq -> 0 | Gt -> 1) vs in
               desc := String.concat "," (List.map vid vs);
               lift (improve_depots nw !s (Some vs)) (fun s2 -> OOk (s2, ""))
             end
           | "greedy_end" -> lift (reassign_end_depots_greedily nw !s) (fun s2 -> OOk (s2, ""))
           | "recompute" ->
             let nk = next_int st in let ts = repeat nk (fun () -> next_z st) in
             desc := String.concat "," (List.map zs ts);
             lift (recompute_transitions_for nw !s (if ts = [] then None else Some ts)) (fun s2 -> OOk (s2, ""))
           | "consistent_end" -> lift (reassign_end_depots_consistent nw !s) (fun s2 -> OOk (s2, ""))
           | "movetrans" ->
             let kv = next_int st in let kc = next_int st in
             (match pick real kv with
              | None -> OSkip
              | Some v ->
                (match vget v !s.s_vehicles with
                 | Some ty ->
                   (match zget ty !s.s_trans with
                    | Some tr ->
                      let k = kc mod (max (List.length tr.tr_cycles) 1) in
                      desc := Printf.sprintf "%s %d" (vid v) k;
                      lift (move_vehicle nw tr v (nat_of_int k) (tfn nw !s.s_tours)) (fun moved ->
                        let trans = List.map (fun (t, x) -> if int_of_z t = int_of_z ty then (t, moved) else (t, x)) !s.s_trans in
                        OOk (set_next_day_transitions !s trans, ""))
                    | None -> OPanic)
                 | None -> OPanic))
           | "threeopt" ->
             let kv = next_int st in let a = next_int st in let bb = next_int st in let c = next_int st in
             (match pick real kv with
              | None -> OSkip
              | Some v ->
                (match vget v !s.s_vehicles with
                 | Some ty ->
                   (match zget ty !s.s_trans with
                    | Some tr ->
                      let rec find ci l = match l with
                        | [] -> None
                        | (vs, _) :: r -> if List.exists (fun x -> vid x = vid v) vs then Some (ci, List.length vs) else find (ci + 1) r in
                      (match find 0 tr.tr_cycles with
                       | Some (ci, n) when n >= 3 ->
                         let i = a mod (n - 2) in
                         let j = i + 1 + bb mod (n - 2 - i) in
                         let k = j + 1 + c mod (n - 1 - j) in
                         desc := Printf.sprintf "%s %d %d %d %d" (vid v) ci i j k;
                         (match List.nth_opt tr.tr_cycles ci with
                          | None -> OPanic
                          | Some cyc ->
                            (match three_opt nw cyc (nat_of_int i) (nat_of_int j) (nat_of_int k) (tfn nw !s.s_tours) with
                             | Ok c2 ->
                               lift (replace_cycle tr (nat_of_int ci) c2) (fun moved ->
                                 let trans = List.map (fun (t, x) -> if int_of_z t = int_of_z ty then (t, moved) else (t, x)) !s.s_trans in
                                 OOk (set_next_day_transitions !s trans, ""))
                             | _ -> OPanic))
                       | _ -> OSkip)
                    | None -> OPanic)
                 | None -> OPanic))
           | k -> failwith ("unknown op " ^ k) in
         (match outcome with
          | OPanic -> pr "OP %d %s %s -> PANIC\n" n kind !desc
          | OSkip -> pr "OP %d %s -> SKIP\n" n kind
          | OErr -> pr "OP %d %s %s -> ERR\n" n kind !desc
          | OOk (s2, info) ->
            pr "OP %d %s %s -> OK %s\n" n kind !desc info;
            s := s2;
            dump_schedule nw !s (Printf.sprintf "op%d" n) b)
       done
     | _ -> pr "empty PANIC\n")
  | _ -> Buffer.add_string b "load PANIC\n"
