(* `outcheck`: the executable readings of C01-C05, C07 on the returned JSON (converted to tokens by
   gen/solve.py) against the network the model loads from the same instance. *)
open Model
open Common
open Schedobs

let parse_dt (s : string) : datetime =
  if s = "E" then Earliest else if s = "L" then Latest else Point (z_of_int (int_of_string s))
let parse_loc (s : string) : loc = if s = "N" then Nowhere else Station (z_of_int (int_of_string s))

let read_vids (st : stream) : vehicle_id list = let n = next_int st in repeat n (fun () -> parse_vid (next st))

let read_out (st : stream) : outp =
  let obj = ref (((Z0, Z0), Z0), Z0) in
  let vehs = ref [] and cycles = ref [] and segs = ref [] and slots = ref [] and loads = ref [] and dhts = ref [] in
  let read_dh () =
    let o = parse_loc (next st) in let d = parse_loc (next st) in
    let dp = parse_dt (next st) in let ar = parse_dt (next st) in
    { od_origin = o; od_dest = d; od_dep = dp; od_arr = ar } in
  let fin = ref false in
  while not !fin do
    match next st with
    | "obj" -> let a = next_z st in let b = next_z st in let c = next_z st in let d = next_z st in
      obj := (((a, b), c), d)
    | "VEH" ->
      let id = parse_vid (next st) in let ty = next_z st in let sd = next_z st in let ed = next_z st in
      let sorted = next_int st <> 0 in
      let na = next_int st in
      let acts = repeat na (fun () ->
        let n = parse_nid (next st) in let o = parse_loc (next st) in let d = parse_loc (next st) in
        let dp = parse_dt (next st) in let ar = parse_dt (next st) in
        { oa_node = n; oa_origin = o; oa_dest = d; oa_dep = dp; oa_arr = ar }) in
      let nd = next_int st in
      let dhs = repeat nd read_dh in
      vehs := { ov_id = id; ov_type = ty; ov_sdepot = sd; ov_edepot = ed; ov_acts = acts;
                ov_lists_sorted = sorted; ov_dhs = dhs } :: !vehs
    | "CYC" -> let ty = next_z st in let nc = next_int st in
      let cs = repeat nc (fun () -> read_vids st) in cycles := (ty, cs) :: !cycles
    | "SEG" | "SLOT" as k ->
      let n = parse_nid (next st) in let o = parse_loc (next st) in let d = parse_loc (next st) in
      let dp = parse_dt (next st) in let ar = parse_dt (next st) in let ty = next_z st in
      let f = read_vids st in
      let s = { os_node = n; os_origin = o; os_dest = d; os_dep = dp; os_arr = ar; os_type = ty; os_form = f } in
      if k = "SEG" then segs := s :: !segs else slots := s :: !slots
    | "LOAD" -> let d = next_z st in let ty = next_z st in let c = next_z st in loads := ((d, ty), c) :: !loads
    | "DHT" -> let d = read_dh () in let f = read_vids st in dhts := (d, f) :: !dhts
    | "ENDOUT" -> fin := true
    | t -> failwith ("unexpected token in OUT block: " ^ t)
  done;
  { o_obj = !obj; o_vehicles = List.rev !vehs; o_cycles = List.rev !cycles; o_segs = List.rev !segs;
    o_slots = List.rev !slots; o_loads = List.rev !loads; o_dhts = List.rev !dhts }

let run (st : stream) (b : Buffer.t) : unit =
  let (inst, perm) = read_instance st in
  match load inst perm with
  | Ok nw ->
    Buffer.add_string b "load OK\n";
    let snaps = ref [] in
    let outs = ref [] in
    while not (eof st) do
      match next st with
      | "OUT" ->
        let o = read_out st in
        outs := o :: !outs;
        Printf.bprintf b "OUTCHK c01=%s c02=%s c03=%s c04=%s c05=%s c07=%s\n"
          (codes (check_C01 nw o)) (codes (check_C02 nw o)) (codes (check_C03 nw o)) (codes (check_C04 nw o @ check_C04_vv nw o))
          (codes (check_C05 nw o)) (codes (check_C07 nw o));
        Printf.bprintf b "EVAL unserved=%s viol=%s costs=%s lb=%s\n" (zs (eval_unserved nw o))
          (zs (eval_violation nw o)) (zs (eval_costs nw o)) (zs (lower_bound nw))
      | "TRAJ" ->
        let n = next_int st in
        let vs = repeat n (fun () -> let k = next_int st in repeat k (fun () -> next_z st)) in
        Printf.bprintf b "TRAJOK %b\n" (strictly_descending vs)
      | "SCHED" ->
        let (label, o) = read_sched st in
        snaps := (label, o) :: !snaps;
        Printf.bprintf b "CHK %s exact=%s inv=%s\n" label (codes (check_exact nw o)) (codes (check_inv nw o))
      | _ -> ()
    done;
    let find l = try Some (List.assoc l !snaps) with Not_found -> None in
    (match find "ls_result", find "opt", find "final" with
     | Some ls, Some opt, Some fin ->
       Printf.bprintf b "WIRE %s\n" (codes (check_wiring nw ls opt fin));
       (match !outs with
        | o :: _ ->
          let jc = List.map (fun (ty, cs) -> (ty, cs)) o.o_cycles in
          let ok1 = cycles_eqb jc (cycles_of opt) in
          let ok2 = List.length o.o_vehicles = List.length fin.so_vehicles &&
                    List.for_all2 (fun v ((id, _), t) ->
                      vid_eqb v.ov_id id && nids_eqb (itinerary nw v) t.t_nodes) o.o_vehicles fin.so_vehicles in
          Printf.bprintf b "WIREJSON %s\n"
            (String.concat "," ((if ok1 then [] else ["1606"]) @ (if ok2 then [] else ["1607"]) @
                                (if ok1 && ok2 then ["ok"] else [])))
        | [] -> ())
     | _ -> ());
    (match find "mcf", find "start" with
     | Some m, Some s0 -> Printf.bprintf b "WIRESTART %s\n" (codes (check_start m s0))
     | _ -> ())
  | _ -> Buffer.add_string b "load PANIC\n"
