(* `pipemodel`: replays one run of server::solve_instance on the functional schedule model (PipelineSched.v):
   from_tours of the decoded flow tours, improve_depots(None), the recorded local-search trajectory (each accepted
   schedule must be one of the model's enumerated neighbours), set_next_day_transitions with the recorded optimised
   cycles, reassign_end_depots_consistent. Prints the model's stage dumps in the implementation's format. *)
open Model
open Common
open Schedobs

let sobs_of_dump (nw : network) (s : schedule) : sobs =
  let b = Buffer.create 4096 in
  Opsmodel.dump_schedule nw s "x" b;
  let toks = String.split_on_char ' ' (String.concat " " (String.split_on_char '\n' (Buffer.contents b))) in
  let st = { toks = Array.of_list (List.filter (fun t -> t <> "") toks); pos = 0 } in
  ignore (next st);   (* SCHED *)
  snd (read_sched st)

let transition_of_obs (e : (z * z) * (vehicle_id list * z) list) : transition =
  let ((viol, count), cycles) = e in
  let lookup = List.concat (List.mapi (fun k (l, _) -> List.map (fun v -> (v, nat_of_int k)) l) cycles) in
  let empties = List.concat (List.mapi (fun k (l, _) -> if l = [] then [nat_of_int k] else []) cycles) in
  { tr_cycles = cycles; tr_viol = viol; tr_count = count; tr_lookup = lookup; tr_empty = empties }

let run (st : stream) (b : Buffer.t) : unit =
  let (inst, perm) = read_instance st in
  match load inst perm with
  | Ok nw ->
    let pr fmt = Printf.bprintf b fmt in
    pr "load OK\n";
    pr "MCONSIDERED %b\n" (maintenance_considered nw);
    let ntours = next_int st in
    let tours = repeat ntours (fun () ->
      let ty = next_z st in let k = next_int st in
      let nodes = repeat k (fun () -> parse_nid (next st)) in (ty, nodes)) in
    let blocks = ref [] in
    let out = ref None in
    let trecs = ref [] in
    while not (eof st) do
      match next st with
      | "SCHED" -> let (label, o) = read_sched st in blocks := (label, o) :: !blocks
      | "OUT" -> out := Some (Outcheck.read_out st)
      | "TREC" ->
        let kind = next st in let ty = next_int st in
        let viol = next_z st in let count = next_z st in let n = next_int st in
        let cycles = repeat n (fun () ->
          ignore (next st); ignore (next st);   (* TC k *)
          let c = next_z st in let m = next_int st in
          let l = repeat m (fun () -> parse_vid (next st)) in (l, c)) in
        ignore (next st);   (* TEND *)
        trecs := (kind, ty, transition_of_obs ((viol, count), cycles)) :: !trecs
      | _ -> ()
    done;
    let blocks = List.rev !blocks in
    let trecs = List.rev !trecs in
    (* the executable hypotheses of the end-to-end theorem (EndToEndStmts.v / Hyps.v) on this run *)
    pr "HYP valid=%b unsigned=%b perm=%b tours=%b\n" (valid_instance_b inst) (inst_unsigned_b inst)
      (List.length perm = int_of_nat inst.i_nlocs || inst.i_depots <> None) (tours_ok_b nw tours);
    (* ... and of the "pipeline never crashes" theorem (PipelineTotalStmts.v / Hyps2.v) *)
    pr "HYP2 costs=%b typed=%b limits=%b fleet=%b\n" (params_costs_nonneg_b inst.i_params) (tours_typed_b nw tours)
      (tours_within_limits_b nw tours) (fleet_fits_overflow_b nw tours);
    (match from_tours nw tours with
     | Ok s0 ->
       Opsmodel.dump_schedule nw s0 "mcf" b;
       (match improve_depots nw s0 None with
        | Ok s1 ->
          Opsmodel.dump_schedule nw s1 "start" b;
          let cur = ref s1 in
          let ok = ref true in
          let i = ref 0 in
          List.iter (fun (label, o) ->
            if label = "ls_step" && !ok then begin
              (match neighbors nw !cur with
               | Ok cs ->
                 let n = List.length cs in
                 let rec find k = function
                   | [] -> None
                   | (_, s') :: rest -> if sobs_of_dump nw s' = o then Some (k, s') else find (k + 1) rest in
                 (match find 0 cs with
                  | Some (k, s') ->
                    pr "LSSTEP %d idx=%d ncand=%d\n" !i k n;
                    Opsmodel.dump_schedule nw s' "ls_step" b;
                    cur := s'
                  | None -> pr "LSSTEP %d NOTFOUND ncand=%d\n" !i n; ok := false)
               | _ -> pr "LSSTEP %d NEIGHPANIC\n" !i; ok := false);
              incr i
            end) blocks;
          if !ok then begin
            Opsmodel.dump_schedule nw !cur "ls_result" b;
            (* the transition optimisation replayed on its functional model (TOpt.v): per type, the start transition is
               the search result's; every recorded accepted step must be one of the model's neighbours, a minimum of
               them and strictly better than the current transition; at the end no neighbour is strictly better and
               the transition handed back is the last accepted one *)
            let tf = tfn nw !cur.s_tours in
            let cfuel = nat_of_int 100000 in
            pr "HYP3 dh_dists=%b\n" (dh_dists_nonneg_b nw);
            let curt = ref None in
            let curty = ref (-1) in
            let stepno = ref 0 in
            let size_ok t = List.length (members_of t) <= 16 in
            List.iter (fun (kind, ty, rect) ->
              match kind with
              | "tstart" ->
                curty := ty; stepno := 0;
                (match zget (z_of_int ty) !cur.s_trans with
                 | Some t0 ->
                   pr "TSTART %d %s nveh=%d ncyc=%d\n" ty (if tr_eqb t0 rect then "ok" else "differs")
                     (List.length (members_of t0)) (List.length t0.tr_cycles);
                   curt := if size_ok t0 then Some t0 else None;
                   if not (size_ok t0) then pr "TSKIP %d size\n" ty
                 | None -> pr "TSTART %d MODELFAIL\n" ty; curt := None)
              | "tstep" ->
                (match !curt with
                 | Some t ->
                   (match topt_neighbors nw tf cfuel t with
                    | Ok l ->
                      pr "TSTEP %d %d ncand=%d %s\n" !curty !stepno (List.length l) (codes (step_codes l t rect));
                      (match List.find_opt (fun m -> tr_eqb m rect) l with
                       | Some m -> curt := Some m
                       | None -> curt := None)
                    | _ -> pr "TSTEP %d %d MODELFAIL\n" !curty !stepno; curt := None);
                   incr stepno
                 | None -> ())
              | "tend" ->
                (match !curt with
                 | Some t ->
                   (match topt_neighbors nw tf cfuel t with
                    | Ok l ->
                      pr "TSTOP %d steps=%d ncand=%d %s result=%s\n" ty !stepno (List.length l) (codes (stop_codes l t))
                        (if tr_eqb t rect then "ok" else "differs")
                    | _ -> pr "TSTOP %d MODELFAIL\n" ty)
                 | None -> ())
              | _ -> ()) trecs;
            (match List.assoc_opt "opt" blocks with
             | Some o ->
               let trans = List.map (fun (ty, e) -> (ty, transition_of_obs e)) o.so_trans in
               (* the optimiser's transitions must satisfy the bookkeeping invariant w.r.t. the search result *)
               List.iter (fun (ty, tr) ->
                 pr "TRANSVALID %s %s\n" (zs ty)
                   (codes (tinv_codes nw (tfn nw !cur.s_tours) (vehicles_iter !cur ty) tr))) trans;
               (* C16: the cycles carried by the "opt" stage are the ones the optimiser handed back *)
               List.iter (fun (ty, tr) ->
                 match List.filter (fun (k, t, _) -> k = "tend" && t = int_of_z ty) trecs with
                 | (_, _, r) :: _ -> pr "TWIRE %s %s\n" (zs ty) (if tr_eqb tr r then "ok" else "differs")
                 | [] -> ()) trans;
               let sopt = set_next_day_transitions !cur trans in
               Opsmodel.dump_schedule nw sopt "opt" b;
               (match reassign_end_depots_consistent nw sopt with
                | Ok sf ->
                  Opsmodel.dump_schedule nw sf "final" b;
                  (* the returned JSON must be the rendering of the final schedule *)
                  (match !out, render nw sf with
                   | Some o, Ok r ->
                     let srt l = List.sort compare l in
                     let diffs = List.filter (fun (_, same) -> not same)
                       [ ("objective", o.o_obj = r.o_obj); ("vehicles", o.o_vehicles = r.o_vehicles);
                         ("cycles", o.o_cycles = r.o_cycles); ("segments", srt o.o_segs = srt r.o_segs);
                         ("slots", srt o.o_slots = srt r.o_slots); ("loads", srt o.o_loads = srt r.o_loads);
                         ("deadheads", o.o_dhts = r.o_dhts) ] in
                     if diffs = [] then pr "RENDER ok\n"
                     else pr "RENDER differs %s\n" (String.concat "," (List.map fst diffs))
                   | Some _, _ -> pr "RENDER MODELFAIL\n"
                   | None, _ -> pr "RENDER nojson\n")
                | _ -> pr "final MODELFAIL\n")
             | None -> pr "opt MISSING\n")
          end
        | _ -> pr "start MODELFAIL\n")
     | _ -> pr "mcf MODELFAIL\n")
  | _ -> Buffer.add_string b "load PANIC\n"
