(* `pipemodel`: replays one run of server::solve_instance on the functional schedule model (PipelineSched.v):
   from_tours of the decoded flow tours, improve_depots(None), the recorded local-search trajectory (each accepted
   schedule must be one of the model's enumerated neighbours), set_next_day_transitions with the recorded optimised
   cycles, reassign_end_depots_consistent. Prints the model's stage dumps in the implementation's format. *)
open Model
open Common
open Schedobs

let sobs_of_dump (nw : network) (s : schedule) : sobs =
  let b = Buffer.create 4096 in
  Opsmodel.dump_schedule nw s "x" b;
  let toks = String.split_on_char ' ' (String.concat " " (String.split_on_char '\n' (Buffer.contents b))) in
  let st = { toks = Array.of_list (List.filter (fun t -> t <> "") toks); pos = 0 } in
  ignore (next st);   (* SCHED *)
  snd (read_sched st)

let transition_of_obs (e : (z * z) * (vehicle_id list * z) list) : transition =
  let ((viol, count), cycles) = e in
  let lookup = List.concat (List.mapi (fun k (l, _) -> List.map (fun v -> (v, nat_of_int k)) l) cycles) in
  let empties = List.concat (List.mapi (fun k (l, _) -> if l = [] then [nat_of_int k] else []) cycles) in
  { tr_cycles = cycles; tr_viol = viol; tr_count = count; tr_lookup = lookup; tr_empty = empties }

let run (st : stream) (b : Buffer.t) : unit =
  let (inst, perm) = read_instance st in
  match load inst perm with
  | Ok nw ->
    let pr fmt = Printf.bprintf b fmt in
    pr "load OK\n";
    let ntours = next_int st in
    let tours = repeat ntours (fun () ->
      let ty = next_z st in let k = next_int st in
      let nodes = repeat k (fun () -> parse_nid (next st)) in (ty, nodes)) in
    let blocks = ref [] in
    let out = ref None in
    while not (eof st) do
      match next st with
      | "SCHED" -> let (label, o) = read_sched st in blocks := (label, o) :: !blocks
      | "OUT" -> out := Some (Outcheck.read_out st)
      | _ -> ()
    done;
    let blocks = List.rev !blocks in
    (* the executable hypotheses of the end-to-end theorem (EndToEndStmts.v / Hyps.v) on this run *)
    pr "HYP valid=%b unsigned=%b perm=%b tours=%b\n" (valid_instance_b inst) (inst_unsigned_b inst)
      (List.length perm = int_of_nat inst.i_nlocs || inst.i_depots <> None) (tours_ok_b nw tours);
    (* ... and of the "pipeline never crashes" theorem (PipelineTotalStmts.v / Hyps2.v) *)
    pr "HYP2 costs=%b typed=%b limits=%b fleet=%b\n" (params_costs_nonneg_b inst.i_params) (tours_typed_b nw tours)
      (tours_within_limits_b nw tours) (fleet_fits_overflow_b nw tours);
    (match from_tours nw tours with
     | Ok s0 ->
       Opsmodel.dump_schedule nw s0 "mcf" b;
       (match improve_depots nw s0 None with
        | Ok s1 ->
          Opsmodel.dump_schedule nw s1 "start" b;
          let cur = ref s1 in
          let ok = ref true in
          let i = ref 0 in
          List.iter (fun (label, o) ->
            if label = "ls_step" && !ok then begin
              (match neighbors nw !cur with
               | Ok cs ->
                 let n = List.length cs in
                 let rec find k = function
                   | [] -> None
                   | (_, s') :: rest -> if sobs_of_dump nw s' = o then Some (k, s') else find (k + 1) rest in
                 (match find 0 cs with
                  | Some (k, s') ->
                    pr "LSSTEP %d idx=%d ncand=%d\n" !i k n;
                    Opsmodel.dump_schedule nw s' "ls_step" b;
                    cur := s'
                  | None -> pr "LSSTEP %d NOTFOUND ncand=%d\n" !i n; ok := false)
               | _ -> pr "LSSTEP %d NEIGHPANIC\n" !i; ok := false);
              incr i
            end) blocks;
          if !ok then begin
            Opsmodel.dump_schedule nw !cur "ls_result" b;
            (match List.assoc_opt "opt" blocks with
             | Some o ->
               let trans = List.map (fun (ty, e) -> (ty, transition_of_obs e)) o.so_trans in
               (* the optimiser's transitions must satisfy the bookkeeping invariant w.r.t. the search result *)
               List.iter (fun (ty, tr) ->
                 pr "TRANSVALID %s %s\n" (zs ty)
                   (codes (tinv_codes nw (tfn nw !cur.s_tours) (vehicles_iter !cur ty) tr))) trans;
               let sopt = set_next_day_transitions !cur trans in
               Opsmodel.dump_schedule nw sopt "opt" b;
               (match reassign_end_depots_consistent nw sopt with
                | Ok sf ->
                  Opsmodel.dump_schedule nw sf "final" b;
                  (* the returned JSON must be the rendering of the final schedule *)
                  (match !out, render nw sf with
                   | Some o, Ok r ->
                     let srt l = List.sort compare l in
                     let diffs = List.filter (fun (_, same) -> not same)
                       [ ("objective", o.o_obj = r.o_obj); ("vehicles", o.o_vehicles = r.o_vehicles);
                         ("cycles", o.o_cycles = r.o_cycles); ("segments", srt o.o_segs = srt r.o_segs);
                         ("slots", srt o.o_slots = srt r.o_slots); ("loads", srt o.o_loads = srt r.o_loads);
                         ("deadheads", o.o_dhts = r.o_dhts) ] in
                     if diffs = [] then pr "RENDER ok\n"
                     else pr "RENDER differs %s\n" (String.concat "," (List.map fst diffs))
                   | Some _, _ -> pr "RENDER MODELFAIL\n"
                   | None, _ -> pr "RENDER nojson\n")
                | _ -> pr "final MODELFAIL\n")
             | None -> pr "opt MISSING\n")
          end
        | _ -> pr "start MODELFAIL\n")
     | _ -> pr "mcf MODELFAIL\n")
  | _ -> Buffer.add_string b "load PANIC\n"
