(* Parser of SCHED blocks (harness/src/sched.rs) into the extracted [sobs] record, and the
   `schedcheck` command: executable C09/C10 readings on the implementation's observations. *)
open Model
open Common

let parse_dur (s : string) : duration = if s = "INF" then DurInf else Len (z_of_int (int_of_string s))
let parse_dist (s : string) : dist = if s = "INF" then DistInf else Dist (z_of_int (int_of_string s))

let read_tour (st : stream) : tour =
  let dummy = next_int st <> 0 in
  let vm = next_int st <> 0 in
  let useful = parse_dur (next st) in
  let sd = parse_dist (next st) in
  let dd = parse_dist (next st) in
  let costs = next_z st in
  let n = next_int st in
  let nodes = repeat n (fun () -> parse_nid (next st)) in
  { t_nodes = nodes; t_dummy = dummy; t_vm = vm; t_useful = useful; t_sdist = sd; t_ddist = dd; t_costs = costs }

(* reads one block; the leading "SCHED" token has been consumed *)
let read_sched (st : stream) : string * sobs =
  let label = next st in
  let nveh = next_z st in let ndum = next_z st in let costs = next_z st in
  let ua = next_z st in let ub = next_z st in let viol = next_z st in
  let vehicles = ref [] and dummies = ref [] and forms = ref [] and usage = ref [] and utot = ref []
  and trans = ref [] and nexts = ref [] in
  let fin = ref false in
  while not !fin do
    match next st with
    | "V" -> let v = parse_vid (next st) in let ty = next_z st in let t = read_tour st in
      vehicles := ((v, ty), t) :: !vehicles
    | "D" -> let v = parse_vid (next st) in let t = read_tour st in dummies := (v, t) :: !dummies
    | "F" -> let n = parse_nid (next st) in let k = next_int st in
      let l = repeat k (fun () -> parse_vid (next st)) in forms := (n, l) :: !forms
    | "U" -> let d = next_z st in let ty = next_z st in let sp = next_z st in let bal = next_z st in
      usage := (((d, ty), sp), bal) :: !usage
    | "UT" -> let d = next_z st in let tot = next_z st in utot := (d, tot) :: !utot
    | "T" -> let ty = next_z st in let v = next_z st in let c = next_z st in let _n = next_int st in
      trans := (ty, ((v, c), [])) :: !trans
    | "C" -> let ty = next_z st in let _k = next_int st in let c = next_z st in let n = next_int st in
      let l = repeat n (fun () -> parse_vid (next st)) in
      trans := List.map (fun (t, ((v, cn), cyc)) ->
        if int_of_z t = int_of_z ty then (t, ((v, cn), cyc @ [(l, c)])) else (t, ((v, cn), cyc))) !trans
    | "N" -> let v = parse_vid (next st) in let s = next st in
      if s = "PANIC" then nexts := (v, Dummy (z_of_int (-1))) :: !nexts
      else nexts := (v, parse_vid s) :: !nexts
    | "END" -> fin := true
    | t -> failwith ("unexpected token in SCHED block: " ^ t)
  done;
  (label, { so_nveh = nveh; so_ndummy = ndum; so_costs = costs; so_unserved = (ua, ub); so_viol = viol;
            so_vehicles = List.rev !vehicles; so_dummies = List.rev !dummies; so_forms = List.rev !forms;
            so_usage = List.rev !usage; so_usage_total = List.rev !utot; so_trans = List.rev !trans;
            so_next = List.rev !nexts })

let codes (l : z list) : string = if l = [] then "ok" else String.concat "," (List.map zs l)

let run_check (st : stream) (b : Buffer.t) : unit =
  let (inst, perm) = read_instance st in
  match load inst perm with
  | Ok nw ->
    Buffer.add_string b "load OK\n";
    while not (eof st) do
      match next st with
      | "SCHED" ->
        let (label, o) = read_sched st in
        Printf.bprintf b "CHK %s exact=%s inv=%s\n" label (codes (check_exact nw o)) (codes (check_inv nw o))
      | _ -> ()
    done
  | _ -> Buffer.add_string b "load PANIC\n"
