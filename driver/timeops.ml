(* `time`: the extracted Cal.v on the same operation list as the harness sub-command `time`; and the conversion
   service used by the Python side (`rel`: seconds of an ISO string relative to the base date), so that every time of
   every instance and every answer enters the model through Cal.parse_datetime. *)
open Model
open Common

let z_of_string = F32ops.z_of_string

let read_str (st : stream) : z list = let n = next_int st in repeat n (fun () -> next_z st)
let string_of_codes (l : z list) : string = String.concat "" (List.map (fun c -> String.make 1 (Char.chr (int_of_z c land 255))) l)
let codes_of_string (s : string) : z list = List.map (fun c -> z_of_int (Char.code c)) (List.of_seq (String.to_seq s))

let zero_tp = { tp_days = Z0; tp_secs = Z0 }

let show (r : timepoint res) : string =
  match r with
  | Ok t ->
    let lin = match tp_diff_dt t zero_tp with Ok d -> zs d | _ -> "PANIC" in
    let iso = match as_iso t with Ok s -> string_of_codes s | _ -> "PANIC" in
    Printf.sprintf "lin=%s iso=%s" lin iso
  | _ -> "PANIC"

let base_tp = lazy (match parse_datetime (codes_of_string "2000-01-01T00:00:00") with Ok t -> t | _ -> failwith "base")

let run (st : stream) (b : Buffer.t) : unit =
  let pr fmt = Printf.bprintf b fmt in
  let k = ref 0 in
  while not (eof st) do
    (match next st with
     | "parse" -> let s = read_str st in pr "%d parse -> %s\n" !k (show (parse_datetime s))
     | "rel" -> let s = read_str st in
       pr "%d rel -> %s\n" !k (match rel_seconds (Lazy.force base_tp) s with Ok z -> zs z | _ -> "PANIC")
     | "cmp" -> let s1 = read_str st in let s2 = read_str st in
       let r = match parse_datetime s1, parse_datetime s2 with
         | Ok x, Ok y ->
           Printf.sprintf "%s le=%b" (match tp_cmp x y with Lt -> "Less" | Eq -> "Equal" | Gt -> "Greater") (tp_leb x y)
         | _ -> "PANIC" in
       pr "%d cmp -> %s\n" !k r
     | ("add" | "sub") as kind -> let s = read_str st in let l = z_of_string (next st) in
       let r = match parse_datetime s with
         | Ok t -> if kind = "add" then Ok (tp_add t l) else tp_sub t l
         | _ -> Panic in
       pr "%d %s -> %s\n" !k kind (show r)
     | "diff" -> let s1 = read_str st in let s2 = read_str st in
       let r = match parse_datetime s1, parse_datetime s2 with
         | Ok x, Ok y -> (match tp_diff_dt x y with Ok d -> zs d | _ -> "PANIC")
         | _ -> "PANIC" in
       pr "%d diff -> %s\n" !k r
     | _ -> ());
    incr k
  done
