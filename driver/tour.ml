(* `tour`: model counterpart of harness/src/tour.rs, plus reference-semantics lines ("S ...") *)
open Model
open Common

let tour_line (t : tour) : string =
  Printf.sprintf "tour dummy=%d vm=%d useful=%s sdist=%s ddist=%s costs=%s nodes=%s"
    (if t.t_dummy then 1 else 0) (if t.t_vm then 1 else 0) (dur t.t_useful) (dist t.t_sdist) (dist t.t_ddist)
    (zs t.t_costs) (ids t.t_nodes)

let path_opt (p : node_id list option) : string = match p with Some l -> ids l | None -> "-"

let read_nodes (st : stream) : node_id list =
  let n = next_int st in repeat n (fun () -> parse_nid (next st))

let status (r : 'a res) : string = match r with Ok _ -> "OK" | Err -> "ERR" | Panic -> "PANIC" | OutOfFuel -> "OUTOFFUEL"

let base_tour (nw : network) (base : node_id list) (dummy : bool) : tour res =
  match tour_new nw base with
  | Ok t -> if dummy then tour_new_dummy nw t.t_nodes else Ok t
  | r -> r

let run (st : stream) (b : Buffer.t) : unit =
  let (inst, perm) = read_instance st in
  match load inst perm with
  | Ok nw ->
    let pr fmt = Printf.bprintf b fmt in
    pr "load OK\n";
    pr "perm %s\n" (String.concat " " (List.map zs perm));
    let nt = next_int st in
    for k = 0 to nt - 1 do
      let _ty = next_int st in
      let dummy = next_int st <> 0 in
      let base = read_nodes st in
      let ncalls = next_int st in
      let calls = repeat ncalls (fun () -> let kind = next st in let args = read_nodes st in (kind, args)) in
      match base_tour nw base dummy with
      | Ok t ->
        pr "T %d base OK\n" k;
        pr "%s\n" (tour_line t);
        List.iteri (fun j (kind, args) ->
          let a0 = List.nth args 0 in
          let a1 = if List.length args > 1 then List.nth args 1 else a0 in
          let head = Printf.sprintf "C %d %d %s" k j kind in
          (match kind with
           | "insert" ->
             (match path_new nw args with
              | Err -> pr "%s -> PATHERR\n" head
              | Ok None -> pr "%s -> PATHNONE\n" head
              | Ok (Some p) ->
                (match insert_path nw t p with
                 | Ok (t2, removed) ->
                   pr "%s -> OK\n" head; pr "%s\n" (tour_line t2); pr "removed %s\n" (path_opt removed)
                 | r -> pr "%s -> %s\n" head (status r));
                let (sn, sd) = ref_insert nw t.t_dummy t.t_nodes p in
                pr "S %d %d insert nodes=%s removed=%s\n" k j (ids sn)
                  (if all_depots nw sd then "-" else ids sd);
                (* exactness of the caches of the result against recomputation (C09 at tour level) *)
                (match insert_path nw t p with
                 | Ok (t2, _) -> pr "X %d %d %s\n" k j (tour_line (new_computing nw t2.t_nodes t2.t_dummy))
                 | _ -> ())
              | _ -> pr "%s -> PATHPANIC\n" head)
           | "remove" ->
             (match remove nw t (a0, a1) with
              | Ok (nt, removed) ->
                pr "%s -> OK\n" head;
                (match nt with Some t2 -> pr "%s\n" (tour_line t2) | None -> pr "tour none\n");
                pr "removed %s\n" (ids removed);
                (match nt with
                 | Some t2 -> pr "X %d %d %s\n" k j (tour_line (new_computing nw t2.t_nodes t2.t_dummy))
                 | None -> ())
              | r -> pr "%s -> %s\n" head (status r));
             (match pos_of t.t_nodes a0, pos_of t.t_nodes a1 with
              | Some i, Some jj ->
                if ref_removable nw t.t_dummy t.t_nodes i jj then
                  let (sn, sr) = ref_remove t.t_nodes i jj in
                  pr "S %d %d remove OK nodes=%s removed=%s\n" k j (ids sn) (ids sr)
                else pr "S %d %d remove ERR\n" k j
              | _ -> pr "S %d %d remove ERR\n" k j)
           | "subpath" ->
             (match sub_path nw t (a0, a1) with
              | Ok p -> pr "%s -> OK %s\n" head (ids p)
              | r -> pr "%s -> %s\n" head (status r));
             (match pos_of t.t_nodes a0, pos_of t.t_nodes a1 with
              | Some i, Some jj when int_of_nat i <= int_of_nat jj ->
                let sp = ref_sub_path t.t_nodes i jj in
                (* a segment consisting of depots only is not a segment of activities: unspecified *)
                if all_depots nw sp then pr "S %d %d subpath ANY\n" k j
                else pr "S %d %d subpath OK %s\n" k j (ids sp)
              | _ -> pr "S %d %d subpath ERR\n" k j)
           | "conflict" ->
             (match conflict nw t (a0, a1) with
              | Ok p -> pr "%s -> OK %s\n" head (path_opt p)
              | r -> pr "%s -> %s\n" head (status r))
           | "lnr" ->
             (match latest_not_reaching_node nw t a0 with
              | Ok p -> pr "%s -> OK %s\n" head (match p with Some n -> string_of_int (int_of_nat n) | None -> "-")
              | r -> pr "%s -> %s\n" head (status r))
           | "removable" ->
             pr "%s -> %s\n" head (status (check_removable nw t (a0, a1)));
             (match pos_of t.t_nodes a0, pos_of t.t_nodes a1 with
              | Some i, Some jj ->
                pr "S %d %d removable %s\n" k j (if ref_removable nw t.t_dummy t.t_nodes i jj then "OK" else "ERR")
              | _ -> pr "S %d %d removable ERR\n" k j)
           | "rsd" | "red" ->
             (match (if kind = "rsd" then replace_start_depot nw t a0 else replace_end_depot nw t a0) with
              | Ok t2 -> pr "%s -> OK\n" head; pr "%s\n" (tour_line t2);
                pr "X %d %d %s\n" k j (tour_line (new_computing nw t2.t_nodes t2.t_dummy))
              | r -> pr "%s -> %s\n" head (status r))
           | "pre" | "sub" ->
             (match (if kind = "pre" then preceding_overhead nw t a0 else subsequent_overhead nw t a0) with
              | Ok d -> pr "%s -> OK %s\n" head (dur d)
              | r -> pr "%s -> %s\n" head (status r))
           | "mc" -> pr "%s -> OK %s\n" head (zs (maintenance_counter nw t))
           | _ -> failwith "unknown call")) calls
      | r -> pr "T %d base %s\n" k (status r)
    done
  | _ -> Buffer.add_string b "load PANIC\n"
