(* `trans`: model counterpart of harness/src/trans.rs, the TInv reading of C15 on the model's state (TINV) and
   on the implementation's printed state (ICHK). *)
open Model
open Common

type op = string * string list

let info_of (nw : network) (t : tour) : vinfo =
  { vi_mc = maintenance_counter nw t; vi_sd = first_node t; vi_ed = last_node t }

let tours_fn_of (nw : network) (tours : (vehicle_id * tour) list) : vehicle_id -> vinfo option =
  fun v -> match List.find_opt (fun (x, _) -> vid_eqb x v) tours with
    | Some (_, t) -> Some (info_of nw t) | None -> None

let vi_line nw v t =
  let i = info_of nw t in
  Printf.sprintf "VI %s %s %s %s self=%s" (vid v) (zs i.vi_mc) (nid i.vi_sd) (nid i.vi_ed)
    (zs (transfer_m nw i.vi_ed i.vi_sd))

let dump_transition (t : transition) (b : Buffer.t) : unit =
  let pr fmt = Printf.bprintf b fmt in
  pr "TR %s %s %d\n" (zs t.tr_viol) (zs t.tr_count) (List.length t.tr_cycles);
  List.iteri (fun k (l, c) -> pr "CY %d %s %d %s\n" k (zs c) (List.length l) (vids l)) t.tr_cycles;
  let lk = List.sort (fun (a, _) (b, _) -> match vid_cmp a b with Lt -> -1 | Eq -> 0 | Gt -> 1) t.tr_lookup in
  pr "LK %d %s\n" (List.length lk)
    (String.concat " " (List.map (fun (v, k) -> Printf.sprintf "%s %d" (vid v) (int_of_nat k)) lk));
  pr "EM %d %s\n" (List.length t.tr_empty) (String.concat " " (List.map (fun k -> string_of_int (int_of_nat k)) t.tr_empty))

(* parse one implementation block: TR / CY* / LK / EM; the stream is positioned at "TR" *)
let read_impl_transition (st : stream) : transition =
  let _ = next st in
  let viol = next_z st in let cnt = next_z st in let nc = next_int st in
  let cycles = repeat nc (fun () ->
    let _ = next st in let _k = next_int st in let c = next_z st in let n = next_int st in
    let l = repeat n (fun () -> parse_vid (next st)) in (l, c)) in
  let _ = next st in let nl = next_int st in
  let lk = repeat nl (fun () -> let v = parse_vid (next st) in let k = next_int st in (v, nat_of_int k)) in
  let _ = next st in let ne = next_int st in
  let em = repeat ne (fun () -> nat_of_int (next_int st)) in
  { tr_cycles = cycles; tr_viol = viol; tr_count = cnt; tr_lookup = lk; tr_empty = em }

let codes (l : z list) : string = if l = [] then "ok" else String.concat "," (List.map zs l)

let run (st : stream) (b : Buffer.t) : unit =
  let (inst, perm) = read_instance st in
  match load inst perm with
  | Ok nw ->
    let pr fmt = Printf.bprintf b fmt in
    pr "load OK\n";
    pr "perm %s\n" (String.concat " " (List.map zs perm));
    let _ty = next_int st in
    let np = next_int st in
    let paths = repeat np (fun () -> let n = next_int st in repeat n (fun () -> parse_nid (next st))) in
    let nops = next_int st in
    let ops = repeat nops (fun () -> let k = next st in let na = next_int st in (k, repeat na (fun () -> next st))) in
    (* implementation blocks, in order (init first) *)
    let impl = ref [] in
    while not (eof st) do
      if peek st = "TR" || peek st = "TS" then (let tag = peek st in impl := (tag, read_impl_transition st) :: !impl)
      else ignore (next st)
    done;
    let impl = ref (List.rev !impl) in
    let next_impl () = match !impl with (_, x) :: r -> impl := r; Some x | [] -> None in
    (* the accepted steps the implementation's optimiser recorded (TS blocks) precede its result (TR block) *)
    let rec next_steps () = match !impl with ("TS", x) :: r -> impl := r; x :: next_steps () | _ -> [] in
    let dirty = ref false in
    let tours = ref [] in
    let ok = ref true in
    List.iteri (fun k p ->
      match tour_new nw p with
      | Ok t -> tours := !tours @ [(Veh (z_of_int k), t)]
      | _ -> ok := false) paths;
    if not !ok then pr "spawn FAIL\n" else begin
      List.iter (fun (v, t) -> pr "%s\n" (vi_line nw v t)) !tours;
      let vehicles = List.map fst !tours in
      let tf () = tours_fn_of nw !tours in
      (* initial transition: one add_vehicle_to_own_cycle per spawned vehicle *)
      let t0 = { tr_cycles = []; tr_viol = Z0; tr_count = Z0; tr_lookup = []; tr_empty = [] } in
      let tr = ref (List.fold_left (fun acc (v, t) ->
        match add_vehicle_to_own_cycle nw acc v (info_of nw t) with Ok x -> x | _ -> acc) t0 !tours) in
      let members = ref vehicles in
      (* an operation applied outside its precondition (vehicle already / not in the transition, cycle index out
         of range, 3-opt indices not i<j<k<n) leaves no obligation: the invariant is checked only on valid histories *)
      let tainted = ref false in
      let report label =
        pr "%s\n" label; dump_transition !tr b;
        let it = next_impl () in
        if !tainted then (pr "TINV skip\n"; pr "ICHK skip\n") else begin
          pr "TINV %s\n" (codes (tinv_codes nw (tf ()) !members !tr));
          (match it with
           | Some it -> pr "ICHK %s\n" (codes (tinv_codes nw (tf ()) !members it))
           | None -> ())
        end in
      report "TOP init -> OK";
      List.iteri (fun n (kind, args) ->
        let head = Printf.sprintf "TOP %d %s" n (String.concat " " (kind :: args)) in
        let av i = parse_vid (List.nth args i) in
        let an i = nat_of_int (int_of_string (List.nth args i)) in
        let no : vehicle_id -> vinfo option = fun _ -> None in
        let is_member v = List.exists (fun x -> vid_eqb x v) !members in
        let ncyc = List.length !tr.tr_cycles in
        let ai i = int_of_string (List.nth args i) in
        let valid =
          match kind with
          | "new" | "optimise" -> true
          | "move" -> is_member (av 0) && ai 1 < ncyc
          | "remove" | "succ" | "update" -> is_member (av 0)
          | "update2" -> is_member (av 0) && is_member (av 3)
          | "addown" -> not (is_member (av 0))
          | "addend" -> not (is_member (av 0)) && ai 1 < ncyc
          | "threeopt" ->
            ai 0 < ncyc && ai 1 < ai 2 && ai 2 < ai 3 &&
            ai 3 < List.length (fst (List.nth !tr.tr_cycles (ai 0)))
          | _ -> false in
        if kind = "new" then tainted := false;
        if not valid then tainted := true;
        let result : (transition * (vehicle_id * tour) list) option res =
          match kind with
          | "new" -> (match new_fast nw vehicles (tf ()) with Ok t -> Ok (Some (t, [])) | Err -> Err | Panic -> Panic | OutOfFuel -> OutOfFuel)
          | "move" -> (match move_vehicle nw !tr (av 0) (an 1) (tf ()) with Ok t -> Ok (Some (t, [])) | Err -> Err | Panic -> Panic | OutOfFuel -> OutOfFuel)
          | "remove" -> (match remove_vehicle nw !tr (av 0) no (tf ()) with Ok t -> Ok (Some (t, [])) | Err -> Err | Panic -> Panic | OutOfFuel -> OutOfFuel)
          | "addown" ->
            (match (tf ()) (av 0) with
             | Some i -> (match add_vehicle_to_own_cycle nw !tr (av 0) i with Ok t -> Ok (Some (t, [])) | Err -> Err | Panic -> Panic | OutOfFuel -> OutOfFuel)
             | None -> Panic)
          | "addend" -> (match add_vehicle_at_the_end nw !tr (av 0) (an 1) no (tf ()) with Ok t -> Ok (Some (t, [])) | Err -> Err | Panic -> Panic | OutOfFuel -> OutOfFuel)
          | "update" ->
            let v = av 0 in
            (match List.find_opt (fun (x, _) -> vid_eqb x v) !tours with
             | None -> Panic
             | Some (_, old) ->
               let d = parse_nid (List.nth args 2) in
               (match (if List.nth args 1 = "rsd" then replace_start_depot nw old d else replace_end_depot nw old d) with
                | Ok nt ->
                  (match update_vehicle nw !tr v (info_of nw nt) no (tf ()) with
                   | Ok t -> Ok (Some (t, [(v, nt)])) | Err -> Err | Panic -> Panic | OutOfFuel -> OutOfFuel)
                | Err -> Ok None
                | _ -> Panic))
          | "update2" ->
            let v1 = av 0 and v2 = av 3 in
            let mk v k d =
              match List.find_opt (fun (x, _) -> vid_eqb x v) !tours with
              | None -> Panic
              | Some (_, old) -> if k = "rsd" then replace_start_depot nw old d else replace_end_depot nw old d in
            (match mk v1 (List.nth args 1) (parse_nid (List.nth args 2)), mk v2 (List.nth args 4) (parse_nid (List.nth args 5)) with
             | Ok n1, Ok n2 when not (vid_eqb v1 v2) ->
               (match update_vehicle nw !tr v1 (info_of nw n1) no (tf ()) with
                | Ok t1 ->
                  let upd : vehicle_id -> vinfo option = fun x -> if vid_eqb x v1 then Some (info_of nw n1) else None in
                  (match update_vehicle nw t1 v2 (info_of nw n2) upd (tf ()) with
                   | Ok t2 -> Ok (Some (t2, [(v1, n1); (v2, n2)])) | Err -> Err | Panic -> Panic | OutOfFuel -> OutOfFuel)
                | Err -> Err | Panic -> Panic | OutOfFuel -> OutOfFuel)
             | Panic, _ | _, Panic -> Panic
             | _ -> Ok None)
          | "threeopt" ->
            (match List.nth_opt !tr.tr_cycles (int_of_string (List.nth args 0)) with
             | None -> Panic
             | Some c ->
               (match three_opt nw c (an 1) (an 2) (an 3) (tf ()) with
                | Ok c2 -> (match replace_cycle !tr (an 0) c2 with Ok t -> Ok (Some (t, [])) | _ -> Panic)
                | _ -> Panic))
          | "optimise" ->
            (* replay of the implementation's run on TOpt.v: every recorded step must be a minimal, strictly improving
               neighbour of the model; at the end no neighbour may be strictly better *)
            if !dirty then Ok None else begin
              let cfuel = nat_of_int 100000 in
              let steps = next_steps () in
              let cur = ref (Some !tr) in
              let bad = ref false in
              List.iteri (fun i rect ->
                match !cur with
                | Some t ->
                  (match topt_neighbors nw (tf ()) cfuel t with
                   | Ok l ->
                     let cs = step_codes l t rect in
                     pr "%s %d ncand=%d %s\n" (if cs = [] then "TOS" else "TOSBAD") i (List.length l) (codes cs);
                     if cs <> [] then bad := true;
                     cur := List.find_opt (fun m -> tr_eqb m rect) l
                   | _ -> pr "TOS %d MODELFAIL\n" i; bad := true; cur := None)
                | None -> ()) steps;
              (match !cur with
               | Some t ->
                 (match topt_neighbors nw (tf ()) cfuel t with
                  | Ok l ->
                    let cs = stop_codes l t in
                    pr "%s stop steps=%d ncand=%d %s\n" (if cs = [] then "TOS" else "TOSBAD") (List.length steps) (List.length l) (codes cs);
                    Ok (Some (t, []))
                  | _ -> pr "TOS stop MODELFAIL\n"; Panic)
               | None -> Panic)
            end
          | "succ" ->
            (match get_successor_of !tr (av 0) with
             | Ok s -> pr "SUCC %s %s\n" (vid (av 0)) (vid s); Ok None
             | _ -> Panic)
          | _ -> failwith "unknown op" in
        (match result with
         | Ok (Some (t, upd)) ->
           tr := t;
           (match kind with
            | "remove" -> members := List.filter (fun x -> not (vid_eqb x (av 0))) !members
            | "addown" | "addend" -> if not (List.exists (fun x -> vid_eqb x (av 0)) !members) then members := !members @ [av 0]
            | "new" -> members := vehicles
            | _ -> ());
           let lbl = head ^ " -> OK" in
           if upd <> [] then dirty := true;
           List.iter (fun (v, nt) ->
             tours := List.map (fun (x, t) -> if vid_eqb x v then (x, nt) else (x, t)) !tours) upd;
           report (String.concat "\n" (lbl :: List.map (fun (v, nt) -> vi_line nw v nt) upd))
         | Ok None -> report (head ^ " -> NOOP")
         | _ -> report (head ^ " -> PANIC"))) ops
    end
  | _ -> Buffer.add_string b "load PANIC\n"
