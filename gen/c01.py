from . import solvefam


def main(tier, seed):
    return solvefam.main("C01", tier, seed)
