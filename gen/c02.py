from . import solvefam


def main(tier, seed):
    return solvefam.main("C02", tier, seed)
