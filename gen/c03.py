from . import solvefam


def main(tier, seed):
    return solvefam.main("C03", tier, seed)
