from . import solvefam


def main(tier, seed):
    return solvefam.main("C04", tier, seed)
