from . import solvefam


def main(tier, seed):
    return solvefam.main("C05", tier, seed)
