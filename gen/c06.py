"""C06 — solving terminates with an answer for every valid instance (debug and release builds)."""
import json
import os
import random
import time

from . import instgen, lib, solve, solvefam

PID = "C06"
LIMIT = 30  # seconds of wall clock per pipeline run (instances solve in well under a second)


def run_one(args):
    d, k, inst = args
    out = {}
    for rel in (False, True):
        r = solve.run_solve(d, "c%d" % k, inst, release=rel, timeout=LIMIT, checks=False)
        out["release" if rel else "debug"] = (r["status"], r["panic"])
    res = {"inst": inst, "k": k, "status": "OK" if all(v[0] == "OK" for v in out.values()) else "NOANSWER",
           "outcomes": out, "js": None, "chk": [], "dstatus": "OK", "impl": []}
    return res


def failures(pid, inst, r):
    bad = []
    for build, (st, note) in r["outcomes"].items():
        if st != "OK":
            bad.append(("no-answer-%s-%s" % (build, st),
                        "%s build: solve_instance %s within %ds wall clock %s" % (build, st, LIMIT, note)))
    return bad


def features(inst, r):
    f = solvefam.features(inst, {"js": None})
    if any(int(s.get("trackCount", 0)) > min([t.get("maximalFormationCount") or 99 for t in inst["vehicleTypes"]])
           for s in (inst.get("maintenanceSlots") or [])):
        f.add("tracks_exceed_formation_limit")
    if any(sum(1 for d in inst["departures"] for s in d["segments"]) <= 1 for _ in [0]):
        f.add("single_trip")
    for d in inst["departures"]:
        for s in d["segments"]:
            cap = max(t["capacity"] for t in inst["vehicleTypes"])
            if s["passengers"] > cap:
                f.add("needs_coupled_vehicles")
    return f


def main(tier, seed):
    t0 = time.time()
    proof = lib.check_property_file(PID)
    lib.build_coq()
    lib.build_driver()
    lib.build_harness()
    lib.build_harness(release=True)
    n = lib.ncases(100 if tier == "quick" else 8000)
    rng = random.Random(seed * 7919 + 6)
    d = lib.casedir(PID)
    profiles = [None, None, {"slots": "some", "maxdist": "small"}, {"slots": "some", "maxdist": "mid", "ndeps": 6},
                {"depots": "scarce"}, {"depots": "zero"}, {"depots": "absent", "type_limits": "none"},
                {"zero_shunting": True, "slots": "some"}, {"ntypes": 3, "slots": "some", "maxdist": "absent"},
                {"seat_dominated": True, "type_limits": "none", "seg_limits": "none", "depots": "scarce"},
                {"seat_dominated": True, "type_limits": "none", "depots": "zero", "ndeps": 6},
                {"seat_dominated": True, "type_limits": "none", "seg_limits": "none", "depots": "zero", "ndeps": 1},
                {"seat_dominated": True, "type_limits": "none", "seg_limits": "none", "depots": "zero", "ndeps": 2}]
    insts = lib.load_corpus(PID) + [instgen.gen_instance(rng, rng.choice(profiles)) for _ in range(n)]
    results = lib.pmap(run_one, [(d, k, inst) for k, inst in enumerate(insts)], workers=8)
    return solvefam.conclude(PID, tier, seed, t0, proof, results,
                             "exit status / wall clock of a child process running server::solve_instance, debug "
                             "(arithmetic checks on) and release builds", failures_fn=failures, features_fn=features,
                             extra_cov={"wall_clock_limit_s": LIMIT, "builds": ["debug", "release"]})
