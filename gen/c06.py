"""C06 — solving terminates with an answer for every valid instance (debug and release builds)."""
import json
import os
import random
import time

from . import instgen, lib, solve, solvefam

PID = "C06"
LIMIT = 30  # seconds of wall clock per pipeline run (instances solve in well under a second)


def run_one(args):
    d, k, inst = args
    out = {}
    for rel in (False, True):
        r = solve.run_solve(d, "c%d" % k, inst, release=rel, timeout=LIMIT, checks=False)
        out["release" if rel else "debug"] = (r["status"], r["panic"])
    res = {"inst": inst, "k": k, "status": "OK" if all(v[0] == "OK" for v in out.values()) else "NOANSWER",
           "outcomes": out, "js": None, "chk": [], "dstatus": "OK", "impl": [], "guard": None}
    # the model's verdict on the i64 guard of the flow network (FlowGuard.cost_guard over the modelled slot distribution)
    if True:   # (default depots: the guard does not depend on the HashMap order of the locations; identity if unknown)
        mpath = os.path.join(d, "c%d.guard.min" % k)
        with open(mpath, "w") as f:
            f.write(" ".join(str(x) for x in instgen.encode(inst, r["perm"])) + "\n")
        mout = os.path.join(d, "c%d.guard.chk" % k)
        if lib.run_driver("flowcheck", mpath, mout) == "OK":
            g = [l.split()[2] for l in lib.read_lines(mout) if l.startswith("MGUARD ")]
            res["guard"] = "PANIC" if "PANIC" in g else ("OK" if g else None)
            # per vehicle type in the order in which solve() works through them: the first step of the code that can fail is
            # at the first type whose guard fails (panic in the flow construction) or whose simplex run overflows
            res["guard_list"] = g
    return res


def failures(pid, inst, r):
    bad = []
    huge = max(inst["parameters"]["costs"].get(k) or 0 for k in ("staff", "serviceTrip", "deadHeadTrip", "idle")) >= 10 ** 9
    dbg = r["outcomes"].get("debug", ("OK", ""))
    f3 = huge and dbg[0] == "PANIC" and "rs-graph" in dbg[1] and "overflow" in dbg[1]
    # the model's guard verdict for the type being solved when the external solver is reached: the types before the first
    # one whose guard fails pass their guard (false alarm of the thorough tier, sixth session: the aggregated verdict over ALL
    # types was printed, so that an overflow inside the simplex run of type 0 of an instance whose type 1 fails the guard was
    # not recognised as F3)
    gl = r.get("guard_list") or []
    reached = "OK" if (gl and gl[0] == "OK") else r.get("guard")
    for build, (st, note) in r["outcomes"].items():
        if st != "OK" and f3 and build == "release":
            # the same arithmetic wraps around silently in the release build; whatever follows (no answer, time limit) is
            # the same finding F3 on the same instance
            bad.append(("flow-solver-internal-overflow",
                        "%s build: cost rates >= 10^9, the i64 guard of the flow network passes (model: %s) but "
                        "rs_graph's network simplex panics %s [release outcome: %s]" % (build, reached, dbg[1], st)))
            continue
        if st != "OK":
            if st == "PANIC" and r.get("guard") == "PANIC" and "min_cost_flow_solver.rs" in note:
                # the instance class of known finding F2: the MODEL's i64 guard fails for this instance, and the code
                # panics in the flow-network construction
                bad.append(("cost-overflow-guard", "%s build: the i64 guard of the flow network fails (model: "
                                                   "cost_guard = Panic) and solve_instance panics %s" % (build, note)))
            elif st == "PANIC" and "rs-graph" in note and "overflow" in note and \
                    max(inst["parameters"]["costs"].get(k) or 0 for k in ("staff", "serviceTrip", "deadHeadTrip", "idle")) >= 10 ** 9:
                # known finding F3: the code's own i64 guard passes, the external network simplex overflows internally
                bad.append(("flow-solver-internal-overflow",
                            "%s build: cost rates >= 10^9, the i64 guard of the flow network passes (model: %s) but "
                            "rs_graph's network simplex panics %s" % (build, reached, note)))
            else:
                bad.append(("no-answer-%s-%s" % (build, st),
                            "%s build: solve_instance %s within %ds wall clock %s" % (build, st, LIMIT, note)))
        elif r.get("guard") == "PANIC":
            bad.append(("guard-model-differs", "%s build answers although the modelled i64 guard fails" % build))
    return bad


def features(inst, r):
    f = solvefam.features(inst, {"js": None})
    if any(int(s.get("trackCount", 0)) > min([t.get("maximalFormationCount") or 99 for t in inst["vehicleTypes"]])
           for s in (inst.get("maintenanceSlots") or [])):
        f.add("tracks_exceed_formation_limit")
    if max(inst["parameters"]["costs"].get(k) or 0 for k in ("staff", "serviceTrip", "deadHeadTrip", "idle")) >= 10 ** 9:
        f.add("huge_cost_rates")
        if r.get("guard") == "PANIC":
            f.add("i64_guard_fails")
    if any(sum(1 for d in inst["departures"] for s in d["segments"]) <= 1 for _ in [0]):
        f.add("single_trip")
    for d in inst["departures"]:
        for s in d["segments"]:
            cap = max(t["capacity"] for t in inst["vehicleTypes"])
            if s["passengers"] > cap:
                f.add("needs_coupled_vehicles")
    return f


def main(tier, seed):
    t0 = time.time()
    proof = lib.check_property_file(PID)
    lib.build_coq()
    lib.build_driver()
    lib.build_harness()
    lib.build_harness(release=True)
    n = lib.ncases(100 if tier == "quick" else 8000)
    rng = random.Random(seed * 7919 + 6)
    d = lib.casedir(PID)
    profiles = [None, None, {"slots": "some", "maxdist": "small"}, {"slots": "some", "maxdist": "mid", "ndeps": 6},
                {"depots": "scarce"}, {"depots": "zero"}, {"depots": "absent", "type_limits": "none"},
                {"zero_shunting": True, "slots": "some"}, {"ntypes": 3, "slots": "some", "maxdist": "absent"},
                {"seat_dominated": True, "type_limits": "none", "seg_limits": "none", "depots": "scarce"},
                {"seat_dominated": True, "type_limits": "none", "depots": "zero", "ndeps": 6},
                {"seat_dominated": True, "type_limits": "none", "seg_limits": "none", "depots": "zero", "ndeps": 1},
                {"seat_dominated": True, "type_limits": "none", "seg_limits": "none", "depots": "zero", "ndeps": 2}]
    insts = lib.load_corpus(PID) + [instgen.gen_instance(rng, rng.choice(profiles)) for _ in range(n)]
    # magnitudes: cost rates of 10^9 .. 10^13 per second (conformant; the plain u64/i64 products stay below 2^63, the
    # guarded ones do not for the larger rates: known finding F2)
    for _ in range(max(4, n // 12)):
        hi = instgen.gen_instance(rng, rng.choice([{"positive_costs": True}, {"positive_costs": True, "slots": "some"},
                                                   {"positive_costs": True, "depots": "absent"}]))
        for key in rng.sample(["staff", "serviceTrip", "deadHeadTrip", "idle"], rng.choice([1, 2])):
            hi["parameters"]["costs"][key] = 10 ** rng.choice([9, 10, 11, 12, 13])
        insts.append(hi)
    # feature interaction: depots too small (vehicles on the overflow depot: infinite distances) AND maintenance slots
    # (several rotation cycles: the transition search moves vehicles between them) — seeded C06l hangs only there
    irng = random.Random(seed * 977 + 6)
    for _ in range(12 if tier == "quick" else 400):
        insts.append(instgen.gen_instance(irng, {"depots": irng.choice(["scarce", "zero", "scarce"]), "slots": irng.choice(["some", "many"]),
                                                 "maxdist": irng.choice(["small", "mid", "spread"]), "ndeps": irng.choice([4, 5, 6]),
                                                 "ntypes": irng.choice([1, 1, 2])}))
    # the edges of the valid input space (a single location, every departure at the same instant, exactly one departure
    # segment, with slots without tracks / empty depots / idle types); own random stream
    insts += instgen.boundary_instances(random.Random(seed * 131 + 6), 12 if tier == "quick" else 300)
    results = lib.pmap(run_one, [(d, k, inst) for k, inst in enumerate(insts)], workers=8)
    return solvefam.conclude(PID, tier, seed, t0, proof, results,
                             "exit status / wall clock of a child process running server::solve_instance, debug "
                             "(arithmetic checks on) and release builds", failures_fn=failures, features_fn=features,
                             extra_cov={"wall_clock_limit_s": LIMIT, "builds": ["debug", "release"]})
