from . import solvefam


def main(tier, seed):
    return solvefam.main("C07", tier, seed)
