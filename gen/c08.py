"""C08 — local search only improves, in the documented priority order, up to a fixpoint."""
import json
import os
import random
import time

from . import instgen, lib, solve, solvefam

PID = "C08"
LEVELS = "unservedPassengers,maintenanceViolation,vehicleCount,costs"


def run_one(args):
    d, k, inst = args
    cpath = os.path.join(d, "c%d.json" % k)
    with open(cpath, "w") as f:
        json.dump({"instance": inst, "examine": 3}, f)
    hout = os.path.join(d, "c%d.impl" % k)
    st = lib.run_harness("lsearch", cpath, hout, timeout=120)
    impl = lib.read_lines(hout)
    res = {"inst": inst, "k": k, "hstatus": st, "impl": impl, "status": "OK" if st == "OK" else st, "js": None,
           "chk": [], "dstatus": "OK", "lines": {}, "steps": []}
    if st != "OK" or not impl or impl[0] != "load OK":
        res["status"] = "NOANSWER"
        return res
    perm = lib.perm_of(impl, inst)
    toks = []
    for l in impl:
        p = l.split()
        if p[0] in ("LEVELS", "STARTEVAL", "TRAJ", "RESULT", "FINAL", "RESOLVE", "NOSEARCH"):
            res["lines"][p[0]] = p[1:]
        elif p[0] == "STEP":
            res["steps"].append(l)
        elif p[0] in ("start", "search") and p[1] == "PANIC":
            res["status"] = "PANIC"
    if "TRAJ" in res["lines"]:
        vs = [v.split(",") for v in res["lines"]["TRAJ"]]
        toks.append("TRAJ %d %s" % (len(vs), " ".join("%d %s" % (len(v), " ".join(v)) for v in vs)))
    for (label, blk) in solve.sched_blocks(impl):
        toks += blk
    mpath = os.path.join(d, "c%d.min" % k)
    with open(mpath, "w") as f:
        f.write(" ".join(str(x) for x in instgen.encode(inst, perm)) + "\n" + "\n".join(toks) + "\n")
    mout = os.path.join(d, "c%d.chk" % k)
    res["dstatus"] = lib.run_driver("outcheck", mpath, mout)
    for l in lib.read_lines(mout):
        p = l.split()
        if p[0] == "CHK":
            res["chk"].append((p[1], dict(x.split("=") for x in p[2:])))
        elif p[0] == "TRAJOK":
            res["lines"]["TRAJOK"] = p[1]
    return res


def failures(pid, inst, r):
    bad = []
    L = r["lines"]
    if r["status"] == "OK" and "NOSEARCH" in L and inst.get("maintenanceSlots"):
        # the search is skipped only for instances without maintenance slots (Network::maintenance_considered)
        return [("search-skipped", "the local search did not run although the instance lists %d maintenance slot(s)"
                 % len(inst["maintenanceSlots"]))]
    if r["status"] != "OK" or "NOSEARCH" in L:
        return bad
    if r["dstatus"] != "OK":
        return [("checker-crash", r["dstatus"][:300])]
    if ",".join(L.get("LEVELS", [])) != LEVELS:
        bad.append(("level-order", "objective levels are %s, documented order is %s" % (L.get("LEVELS"), LEVELS)))
    traj = L.get("TRAJ", [])
    if traj and L.get("STARTEVAL", [""])[0] != traj[0]:
        bad.append(("level-order", "objective evaluates %s on the start schedule whose (unserved, violation, vehicles, "
                                   "costs) are %s" % (L.get("STARTEVAL"), traj[0])))
    if L.get("TRAJOK") != "true":
        bad.append(("step-not-strict", "accepted steps are not strictly descending in lex order: %s" % " > ".join(traj)))
    if traj and L.get("RESULT", [""])[0] != traj[-1]:
        bad.append(("result-not-last-step", "result %s, last accepted %s" % (L.get("RESULT"), traj[-1])))
    for s in r["steps"]:
        kv = dict(x.split("=") for x in s.split()[2:] if "=" in x)
        if "NEIGHPANIC" in s:
            bad.append(("neighbourhood-panic", s))
        elif int(kv["below_next"]) > 0:
            bad.append(("pick-not-minimal", "a candidate is strictly below the accepted one: " + s))
        elif int(kv["equal_next"]) == 0:
            bad.append(("accepted-not-a-candidate", s))
    fin = dict(x.split("=") for x in L.get("FINAL", []) if "=" in x)
    if fin and int(fin.get("below_result", 0)) > 0:
        bad.append(("not-local-optimum", "the result %s has %s strictly better candidates" % (fin["result"], fin["below_result"])))
    rs = dict(x.split("=") for x in L.get("RESOLVE", []) if "=" in x)
    if L.get("RESOLVE") and (rs.get("steps") != "0" or rs.get("same") != "1"):
        bad.append(("not-idempotent", "running the search on its own result: %s" % L.get("RESOLVE")))
    for (label, chk) in r["chk"]:
        if chk.get("exact") != "ok":
            bad.append(("objective-not-truthful", "stage %s: cached objective components differ from recomputation (%s)"
                        % (label, chk.get("exact"))))
            break
    return bad


def crowded_instance(rng):
    """A search that needs more accepted steps than the network has nodes (seeded C08h: an iteration limit of network.size()):
    two or three trips each needing k coupled vehicles, one slot with k tracks after them, a maximal distance below a day's
    mileage — the start solution leaves most vehicles unmaintained and SpawnVehicleForMaintenance repairs them one by one."""
    k = rng.choice([8, 10, 12])
    dist = rng.choice([20000, 30000])
    ntrips = rng.choice([2, 2, 3])
    t0 = 5 * 3600
    deps = []
    for j in range(ntrips):
        r = "rAB" if j % 2 == 0 else "rBA"
        deps.append({"id": "d%d" % j, "route": r, "segments": [{"id": "d%d_s" % j, "routeSegment": r + "_s",
                     "departure": instgen.iso(t0 + j * 3600), "passengers": 100 * k, "seated": rng.choice([0, 100 * k])}]})
    end_loc = "A" if ntrips % 2 == 0 else "B"
    st = t0 + (ntrips - 1) * 3600 + 1800 + rng.choice([300, 900])
    return {"vehicleTypes": [{"id": "T", "capacity": 100, "seats": 100, "maximalFormationCount": k}],
            "locations": [{"id": "A"}, {"id": "B"}],
            "depots": [{"id": "dep_A", "location": "A", "capacity": 1000, "allowedTypes": [{"vehicleType": "T", "capacity": 1000}]}],
            "routes": [{"id": "rAB", "vehicleType": "T", "segments": [{"id": "rAB_s", "order": 0, "origin": "A", "destination": "B",
                                                                       "distance": dist, "duration": 1800}]},
                       {"id": "rBA", "vehicleType": "T", "segments": [{"id": "rBA_s", "order": 0, "origin": "B", "destination": "A",
                                                                       "distance": dist, "duration": 1800}]}],
            "departures": deps,
            "maintenanceSlots": [{"id": "m1", "location": end_loc, "start": instgen.iso(st), "end": instgen.iso(st + 600),
                                  "trackCount": k}],
            "deadHeadTrips": {"indices": ["A", "B"], "durations": [[0, 1800], [1800, 0]], "distances": [[0, dist], [dist, 0]]},
            "parameters": {"forbidDeadHeadTrips": False, "dayLimitThreshold": 0,
                           "shunting": {"minimalDuration": 120, "deadHeadTripDuration": 300},
                           "maintenance": {"maximalDistance": dist * ntrips - rng.choice([1, 10000])},
                           "costs": {"staff": 100, "serviceTrip": 50, "maintenance": 0, "deadHeadTrip": 500, "idle": 20}}}


def main(tier, seed):
    t0 = time.time()
    proof = lib.check_property_file(PID)
    lib.build_coq()
    lib.build_driver()
    lib.build_harness()
    n = lib.ncases(220 if tier == "quick" else 12000)
    rng = random.Random(seed * 7919 + 8)
    d = lib.casedir(PID)
    insts = lib.load_corpus(PID) + [instgen.gen_instance(rng, {"slots": "some",
                                                               "maxdist": rng.choice(["small", "mid", "mid", "large"]),
                                                               "depots": rng.choice(["ample", "ample", "absent", "scarce"]),
                                                               "nlocs": rng.choice([3, 4]),
                                                               "ndeps": rng.choice([3, 4, 5, 6])}) for _ in range(n)]
    crng = random.Random(seed * 31 + 808)
    insts += [crowded_instance(crng) for _ in range(4 if tier == "quick" else 60)]
    results = lib.pmap(run_one, [(d, k, inst) for k, inst in enumerate(insts)])
    nsteps = sum(max(0, len(r["lines"].get("TRAJ", [])) - 1) for r in results)
    for r in results:
        r["js"] = None
    return solvefam.conclude(PID, tier, seed, t0, proof, results,
                             "accepted schedules recorded by the between-steps hook: strict lexicographic descent in "
                             "the documented order, pick contract against the enumerated candidates, local optimality "
                             "of the result, idempotence of a second run, truthfulness of the compared values",
                             failures_fn=failures, extra_cov={"accepted_steps_total": nsteps})
