"""C08 — local search only improves, in the documented priority order, up to a fixpoint."""
import json
import os
import random
import time

from . import instgen, lib, solve, solvefam

PID = "C08"
LEVELS = "unservedPassengers,maintenanceViolation,vehicleCount,costs"


def run_one(args):
    d, k, inst = args
    cpath = os.path.join(d, "c%d.json" % k)
    with open(cpath, "w") as f:
        json.dump({"instance": inst, "examine": 3}, f)
    hout = os.path.join(d, "c%d.impl" % k)
    st = lib.run_harness("lsearch", cpath, hout, timeout=120)
    impl = lib.read_lines(hout)
    res = {"inst": inst, "k": k, "hstatus": st, "impl": impl, "status": "OK" if st == "OK" else st, "js": None,
           "chk": [], "dstatus": "OK", "lines": {}, "steps": []}
    if st != "OK" or not impl or impl[0] != "load OK":
        res["status"] = "NOANSWER"
        return res
    perm = lib.perm_of(impl, inst)
    toks = []
    for l in impl:
        p = l.split()
        if p[0] in ("LEVELS", "STARTEVAL", "TRAJ", "RESULT", "FINAL", "RESOLVE", "NOSEARCH"):
            res["lines"][p[0]] = p[1:]
        elif p[0] == "STEP":
            res["steps"].append(l)
        elif p[0] in ("start", "search") and p[1] == "PANIC":
            res["status"] = "PANIC"
    if "TRAJ" in res["lines"]:
        vs = [v.split(",") for v in res["lines"]["TRAJ"]]
        toks.append("TRAJ %d %s" % (len(vs), " ".join("%d %s" % (len(v), " ".join(v)) for v in vs)))
    for (label, blk) in solve.sched_blocks(impl):
        toks += blk
    mpath = os.path.join(d, "c%d.min" % k)
    with open(mpath, "w") as f:
        f.write(" ".join(str(x) for x in instgen.encode(inst, perm)) + "\n" + "\n".join(toks) + "\n")
    mout = os.path.join(d, "c%d.chk" % k)
    res["dstatus"] = lib.run_driver("outcheck", mpath, mout)
    for l in lib.read_lines(mout):
        p = l.split()
        if p[0] == "CHK":
            res["chk"].append((p[1], dict(x.split("=") for x in p[2:])))
        elif p[0] == "TRAJOK":
            res["lines"]["TRAJOK"] = p[1]
    return res


def failures(pid, inst, r):
    bad = []
    L = r["lines"]
    if r["status"] == "OK" and "NOSEARCH" in L and inst.get("maintenanceSlots"):
        # the search is skipped only for instances without maintenance slots (Network::maintenance_considered)
        return [("search-skipped", "the local search did not run although the instance lists %d maintenance slot(s)"
                 % len(inst["maintenanceSlots"]))]
    if r["status"] != "OK" or "NOSEARCH" in L:
        return bad
    if r["dstatus"] != "OK":
        return [("checker-crash", r["dstatus"][:300])]
    if ",".join(L.get("LEVELS", [])) != LEVELS:
        bad.append(("level-order", "objective levels are %s, documented order is %s" % (L.get("LEVELS"), LEVELS)))
    traj = L.get("TRAJ", [])
    if traj and L.get("STARTEVAL", [""])[0] != traj[0]:
        bad.append(("level-order", "objective evaluates %s on the start schedule whose (unserved, violation, vehicles, "
                                   "costs) are %s" % (L.get("STARTEVAL"), traj[0])))
    if L.get("TRAJOK") != "true":
        bad.append(("step-not-strict", "accepted steps are not strictly descending in lex order: %s" % " > ".join(traj)))
    if traj and L.get("RESULT", [""])[0] != traj[-1]:
        bad.append(("result-not-last-step", "result %s, last accepted %s" % (L.get("RESULT"), traj[-1])))
    for s in r["steps"]:
        kv = dict(x.split("=") for x in s.split()[2:] if "=" in x)
        if "NEIGHPANIC" in s:
            bad.append(("neighbourhood-panic", s))
        elif int(kv["below_next"]) > 0:
            bad.append(("pick-not-minimal", "a candidate is strictly below the accepted one: " + s))
        elif int(kv["equal_next"]) == 0:
            bad.append(("accepted-not-a-candidate", s))
    fin = dict(x.split("=") for x in L.get("FINAL", []) if "=" in x)
    if fin and int(fin.get("below_result", 0)) > 0:
        bad.append(("not-local-optimum", "the result %s has %s strictly better candidates" % (fin["result"], fin["below_result"])))
    rs = dict(x.split("=") for x in L.get("RESOLVE", []) if "=" in x)
    if L.get("RESOLVE") and (rs.get("steps") != "0" or rs.get("same") != "1"):
        bad.append(("not-idempotent", "running the search on its own result: %s" % L.get("RESOLVE")))
    for (label, chk) in r["chk"]:
        if chk.get("exact") != "ok":
            bad.append(("objective-not-truthful", "stage %s: cached objective components differ from recomputation (%s)"
                        % (label, chk.get("exact"))))
            break
    return bad


def main(tier, seed):
    t0 = time.time()
    proof = lib.check_property_file(PID)
    lib.build_coq()
    lib.build_driver()
    lib.build_harness()
    n = lib.ncases(220 if tier == "quick" else 12000)
    rng = random.Random(seed * 7919 + 8)
    d = lib.casedir(PID)
    insts = lib.load_corpus(PID) + [instgen.gen_instance(rng, {"slots": "some",
                                                               "maxdist": rng.choice(["small", "mid", "mid", "large"]),
                                                               "depots": rng.choice(["ample", "ample", "absent", "scarce"]),
                                                               "nlocs": rng.choice([3, 4]),
                                                               "ndeps": rng.choice([3, 4, 5, 6])}) for _ in range(n)]
    results = lib.pmap(run_one, [(d, k, inst) for k, inst in enumerate(insts)])
    nsteps = sum(max(0, len(r["lines"].get("TRAJ", [])) - 1) for r in results)
    for r in results:
        r["js"] = None
    return solvefam.conclude(PID, tier, seed, t0, proof, results,
                             "accepted schedules recorded by the between-steps hook: strict lexicographic descent in "
                             "the documented order, pick contract against the enumerated candidates, local optimality "
                             "of the result, idempotence of a second run, truthfulness of the compared values",
                             failures_fn=failures, extra_cov={"accepted_steps_total": nsteps})
