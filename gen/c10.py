from . import opsfam


def main(tier, seed):
    return opsfam.main("C10", tier, seed, "public getters of Schedule/Tour/TrainFormation/Transition after every modification of generated histories")
