"""C11 — every local-search candidate is a valid schedule with truthful objective."""
import json
import os
import random
import time

from . import instgen, lib, solve, solvefam

PID = "C11"


def run_one(args):
    d, k, inst, walk = args
    cpath = os.path.join(d, "c%d.json" % k)
    with open(cpath, "w") as f:
        json.dump({"instance": inst, "walk": walk, "maxdump": 40}, f)
    hout = os.path.join(d, "c%d.impl" % k)
    st = lib.run_harness("neigh", cpath, hout, timeout=120)
    impl = lib.read_lines(hout)
    res = {"inst": inst, "k": k, "hstatus": st, "impl": impl, "status": "OK" if st == "OK" else st, "js": None,
           "chk": [], "dstatus": "OK", "events": [], "ncand": 0, "ndumped": 0}
    if st != "OK" or not impl or impl[0] != "load OK":
        res["status"] = "NOANSWER"
        return res
    perm = lib.perm_of(impl, inst)
    toks = []
    labels = []
    for l in impl:
        p = l.split()
        if p[0] == "NEIGH":
            res["events"].append(l)
            if p[-1].startswith("ncand="):
                res["ncand"] += int(p[-1].split("=")[1])
        elif p[0] in ("BASEUNCHANGED", "CANDPANIC", "#panic"):
            res["events"].append(l)
        elif p[0] == "start" and p[1] == "PANIC":
            res["status"] = "PANIC"
        elif p[0] == "CAND":
            labels.append(l)
    for (label, blk) in solve.sched_blocks(impl):
        toks += blk
    mpath = os.path.join(d, "c%d.min" % k)
    with open(mpath, "w") as f:
        f.write(" ".join(str(x) for x in instgen.encode(inst, perm)) + "\n" + "\n".join(toks) + "\n")
    mout = os.path.join(d, "c%d.chk" % k)
    res["dstatus"] = lib.run_driver("schedcheck", mpath, mout, timeout=600)
    # the model of the neighbourhood (Swaps.v over Schedule.v) replays the walk: start state, candidate counts, the
    # dumped candidates and every successor must be equal
    dumped = [(int(l.split()[1]), int(l.split()[2])) for l in impl if l.startswith("CAND ")]
    mcf = []
    on = False
    for l in impl:
        if l.startswith("SCHED mcf"):
            on = True
        if on:
            mcf.append(l)
        if on and l == "END":
            break
    # picks given as candidate descriptions (corpus walks) are resolved by the harness: "#pick depth index text"
    resolved = {int(l.split()[1]): int(l.split()[2]) for l in impl if l.startswith("#pick ")}
    walk = [resolved.get(i, w if isinstance(w, int) else 0) for i, w in enumerate(walk)]
    m2 = os.path.join(d, "c%d.mng" % k)
    with open(m2, "w") as f:
        f.write(" ".join(str(x) for x in instgen.encode(inst, perm)) + "\n%d %s\n%d %s\n" % (
            len(walk), " ".join(map(str, walk)), len(dumped), " ".join("%d %d" % x for x in dumped)) + "\n".join(mcf) + "\n")
    m2out = os.path.join(d, "c%d.model" % k)
    st2 = lib.run_driver("neighmodel", m2, m2out, timeout=900)

    def norm(ls):
        out = []
        for l in ls:
            if l.startswith("#"):
                continue
            if l.startswith("CAND "):
                l = " ".join(l.split()[:3])
            out.append(l)
        return out
    res["model_diff"] = None
    if st2 != "OK":
        res["model_diff"] = "driver: " + st2[:200]
    else:
        fd = lib.first_diff(norm(impl), norm(lib.read_lines(m2out)))
        if fd:
            res["model_diff"] = "line %d: impl=[%s] model=[%s]" % (fd[0], fd[1][:300], fd[2][:300])
    ci = 0
    for l in lib.read_lines(mout):
        p = l.split()
        if p[0] == "CHK":
            kv = dict(x.split("=") for x in p[2:])
            name = p[1]
            if name == "cand":
                name = labels[ci] if ci < len(labels) else "cand"
                ci += 1
                res["ndumped"] += 1
            res["chk"].append((name, kv))
    return res


def gen_walk(rng):
    r = rng.random()
    if r < 0.55:
        return [rng.randrange(10 ** 6) for _ in range(rng.choice([1, 2, 3, 4, 6]))]
    # scripted walks ("pattern|n": the n-th candidate whose description contains the pattern, else candidate n):
    # a service trip is taken off a vehicle (it goes to a dummy tour), its place is possibly refilled by hitch-hiking,
    # then nodes are exchanged out of dummy tours into real vehicles - the moves that ADD a vehicle to a formation
    n = lambda: rng.randrange(10 ** 4)
    w = []
    for _ in range(rng.choice([1, 1, 2])):
        w.append("RemoveSingleNode_trip|%d" % n())
        if rng.random() < 0.6:
            w.append("AddTripForHitchHiking|%d" % n())
    for _ in range(rng.choice([1, 2, 3])):
        w.append(rng.choice(["from_dummy|%d", "from_dummy|%d", "PathExchange|%d", "%d"]) % n())
    return [int(x) if x.isdigit() else x for x in w]


def failures(pid, inst, r):
    bad = []
    if r["status"] != "OK":
        return bad
    if r["dstatus"] != "OK":
        return [("checker-crash", r["dstatus"][:300])]
    for e in r["events"]:
        if "PANIC" in e and not e.startswith("#"):
            note = [x for x in r["events"] if x.startswith("#panic")]
            bad.append(("candidate-generation-panics", e + " " + (note[0] if note else "")))
        if e == "BASEUNCHANGED 0":
            bad.append(("base-schedule-changed", "the base schedule's observable state changed while generating candidates"))
    for (name, kv) in r["chk"]:
        if kv.get("exact") != "ok":
            bad.append(("candidate-objective-inexact-%s" % kv.get("exact"), "%s: cached figures differ from recomputation" % name))
            break
    for (name, kv) in r["chk"]:
        if kv.get("inv") != "ok":
            bad.append(("candidate-invalid-%s" % kv.get("inv"), "%s: structural invariant clauses %s fail" % (name, kv.get("inv"))))
            break
    return bad


def main(tier, seed):
    t0 = time.time()
    proof = lib.check_property_file(PID)
    lib.build_coq()
    lib.build_driver()
    lib.build_harness()
    n = lib.ncases(100 if tier == "quick" else 6000)
    rng = random.Random(seed * 7919 + 11)
    d = lib.casedir(PID)
    insts = lib.load_corpus(PID) + [instgen.gen_instance(rng, rng.choice([{"slots": "some"}, {"slots": "some", "zero_shunting": True},
                                                                         {"slots": "some", "depots": "scarce"}, None,
                                                                         {"slots": "some", "type_limits": "all"},
                                                                         {"slots": "some", "seg_limits": "all", "ntypes": 2}]))
                                    for _ in range(n)]
    cases = [(d, k, inst, gen_walk(rng)) for k, inst in enumerate(insts)]
    # corpus cases with a prescribed walk (candidate descriptions or indices)
    if not os.environ.get("VERIF_REPLAY"):
        cases += [(d, 9000 + k, c["instance"], c["walk"]) for k, c in enumerate(lib.load_corpus_cases(PID + "_walks"))]
    results = lib.pmap(run_one, cases)
    for r in results:
        r["js"] = None
    return solvefam.conclude(PID, tier, seed, t0, proof, results,
                             "items of RSSchedParallelNeighborhood::neighbors_of along arbitrary walks: each dumped "
                             "candidate through check_exact (C09) and check_inv (C10), base schedule re-dumped, panics",
                             failures_fn=failures,
                             extra_cov={"candidates_enumerated": sum(r["ncand"] for r in results),
                                        "candidates_fully_checked": sum(r["ndumped"] for r in results)})
